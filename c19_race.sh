#!/bin/sh
# C19, dynamic obligation: build the harness a second time with the race detector and run the fixed scenario
# list corpus/C19/scenarios.ops (every scenario = goroutines on separate values / shared finished values).
# Failure (exit 1) = the race detector reported a data race, or a goroutine obtained a different result than
# alone; the offending scenario line is printed (it is a replay: `echo '<line>' | .build/vh-race run`).
set -u
ROOT="$(cd "$(dirname "$0")" && pwd)"
REPO="${VERIF_REPO:-/repo}"
BUILD="$ROOT/.build"
export GOFLAGS=-mod=mod GOPROXY=off GOSUMDB=off GOTOOLCHAIN=local
export GOCACHE="${GOCACHE:-$BUILD/gocache}"
mkdir -p "$BUILD"
sed "s#=> /repo#=> $REPO#" "$ROOT/harness/go.mod" > "$BUILD/harness-race.mod"
[ -f "$ROOT/harness/go.sum" ] && cp "$ROOT/harness/go.sum" "$BUILD/harness-race.sum"
( cd "$ROOT/harness" && go build -race -modfile "$BUILD/harness-race.mod" -tags "${VERIF_HARNESS_TAGS:-verif}" -o "$BUILD/vh-race" . ) || { echo "race build of the harness failed"; exit 2; }
exec python3 - "$ROOT" "$BUILD" <<'PY'
import os, subprocess, sys
root, build = sys.argv[1], sys.argv[2]
lines = [l.strip() for l in open(os.path.join(root, "corpus", "C19", "scenarios.ops")) if l.strip() and not l.startswith("#")]
env = dict(os.environ, GORACE="halt_on_error=0 atexit_sleep_ms=0")
def run(ls):
    orc = os.path.join(build, "c19_race_oracle.txt")
    p = subprocess.run([os.path.join(build, "vh-race"), "run", "-oracle", orc], input="\n".join(ls) + "\n",
                       capture_output=True, text=True, env=env)
    oracle = open(orc).read() if os.path.exists(orc) else ""
    return p.returncode, p.stdout, p.stderr, oracle
rc, out, err, oracle = run(lines)
bad = ("DATA RACE" in err) or oracle.strip() or (rc not in (0, 66)) or any(not o.startswith("ok ") for o in out.split("\n") if o)
if not bad:
    print("c19_race: %d scenarios under the race detector: no race, every goroutine obtained its result of running alone" % len(lines))
    sys.exit(0)
# find the offending scenario(s)
for l in lines:
    rc1, out1, err1, orc1 = run([l])
    if "DATA RACE" in err1:
        rep = err1[err1.index("WARNING: DATA RACE"):].split("\n")
        keep = [x for x in rep if x.strip()][:14]
        print("RACE DETECTED in scenario `%s` (replay: echo '%s' | .build/vh-race run)" % (l, l))
        print("\n".join(keep))
        sys.exit(1)
    if orc1.strip():
        print("INTERFERENCE in scenario `%s`: %s" % (l, orc1.strip()[:600]))
        sys.exit(1)
    if rc1 not in (0, 66) or not out1.startswith("ok "):
        print("scenario `%s` failed under the race build: rc=%d out=%s err=%s" % (l, rc1, out1[:200], err1[-400:]))
        sys.exit(1)
print("race run failed on the whole list but no single scenario reproduces it (schedule dependent): " + (err[err.index("WARNING: DATA RACE"):][:1200] if "DATA RACE" in err else (oracle.strip() or err)[-600:]))
sys.exit(1)
PY
