// Command extract_fp extracts the *write footprints* of the library from the source tree (property C19).
//
//	extract_fp <repo> <lean Gen dir> <facts.json>
//
// It loads every non-test package of the module in <repo> with go/packages, builds go/ssa, and runs a
// small flow-insensitive, field-insensitive region analysis over the SSA of the module's own functions:
//
//	root    ::= G(pkg.var) | P(i) | FV(i) | A(site) | U(reason)
//	            a package-level variable / the memory reachable from parameter i (the receiver is
//	            parameter 0 of a method) / from captured variable i / an allocation made inside the function /
//	            unknown
//	val(v)  = the roots whose memory the SSA value v may point into
//	cont(r) = the roots whose memory may be stored inside the memory of r
//
// Every store (Store, MapUpdate, append, copy, delete) is attributed to the roots of its address. Calls
// are resolved statically, by class-hierarchy for interface methods (over the module's own types) and by
// signature for function values (over the module's address-taken functions); callee summaries are
// instantiated at the call site (parameters -> roots of the actual arguments) and iterated to a fixed point
// over the whole module. Functions outside the module (standard library) are not analysed: they get a
// summary from a small table or the conservative default "may write through every pointer-like argument,
// calls every function-valued argument, result may alias every argument" - and are *assumed* not to keep
// unsynchronised package-level state of their own (this assumption is part of the trusted base of C19).
//
// Output:
//
//	Gen/Footprints.lean : for every exported function / method of the module (and the unexported ones the
//	                      property names) an `Api` record: package-level variables it may write, the
//	                      parameter positions through which it may store, whether some store could not be
//	                      attributed, whether a go statement is reachable; the list of package-level variables
//	                      with "written outside package initialisation"; go statements; channel operations.
//	facts.json          : the same with witnesses (file:line of the store instructions), the classification
//	                      of every reachable store for the read-only queries named in the property, reads of
//	                      package-level variables, result aliasing, call edges into the standard library.
//
// Anything the analysis cannot attribute is reported as `unknown` (never dropped).
package main

import (
	"encoding/json"
	"fmt"
	"go/token"
	"go/types"
	"os"
	"path/filepath"
	"sort"
	"strings"

	"golang.org/x/tools/go/packages"
	"golang.org/x/tools/go/ssa"
	"golang.org/x/tools/go/ssa/ssautil"
)

func die(f string, a ...interface{}) {
	fmt.Fprintf(os.Stderr, "extract_fp: "+f+"\n", a...)
	os.Exit(1)
}

// ---------------------------------------------------------------------------------------------------
// roots

type kind int

const (
	kG  kind = iota // package-level variable
	kP              // parameter i
	kFV             // free variable i
	kA              // allocation site (local to the function under analysis)
	kU              // unknown
)

type root struct {
	k kind
	i int
	s string
}

func (r root) String() string {
	switch r.k {
	case kG:
		return "G(" + r.s + ")"
	case kP:
		return fmt.Sprintf("P(%d)", r.i)
	case kFV:
		return fmt.Sprintf("FV(%d)", r.i)
	case kA:
		return fmt.Sprintf("A(%d)", r.i)
	}
	return "U(" + r.s + ")"
}

type rset map[root]struct{}

func (s rset) add(r root) bool {
	if _, ok := s[r]; ok {
		return false
	}
	s[r] = struct{}{}
	return true
}

func (s rset) addAll(t rset) bool {
	ch := false
	for r := range t {
		if s.add(r) {
			ch = true
		}
	}
	return ch
}

type sset map[string]struct{}

func (s sset) addAll(t sset) bool {
	ch := false
	for x := range t {
		if _, ok := s[x]; !ok {
			s[x] = struct{}{}
			ch = true
		}
	}
	return ch
}

func (s sset) sorted() []string {
	out := make([]string, 0, len(s))
	for x := range s {
		out = append(out, x)
	}
	sort.Strings(out)
	return out
}

// ext is a set of roots in the vocabulary visible to a caller: G, P, FV, U and the flag "fresh".
type ext struct {
	roots rset
	fresh bool
}

func newExt() *ext { return &ext{roots: rset{}} }

func (e *ext) size() int {
	n := len(e.roots)
	if e.fresh {
		n++
	}
	return n
}

// ---------------------------------------------------------------------------------------------------
// summaries

type summary struct {
	writes   map[root]sset  // external root written -> witnesses "pkg.Func file:line"
	fresh    sset           // store sites that hit allocations made inside the (transitively) called code
	readsG   sset           // package-level variables loaded
	ret      *ext           // what the results may point into
	retCont  *ext           // what the memory of fresh results may contain
	links    map[root]*ext  // external root r -> what may get stored inside r's memory
	callback rset           // external roots from which a function value is taken and called
	cbSites  sset           // where
	spawns   sset           // reachable go statements
	chanOps  sset           // reachable channel operations "op root-class @site"
	extCalls sset           // calls into packages outside the module: "name [table|default]"
	callees  map[*ssa.Function]struct{}
}

func newSummary() *summary {
	return &summary{writes: map[root]sset{}, fresh: sset{}, readsG: sset{}, ret: newExt(), retCont: newExt(),
		links: map[root]*ext{}, callback: rset{}, cbSites: sset{}, spawns: sset{}, chanOps: sset{}, extCalls: sset{},
		callees: map[*ssa.Function]struct{}{}}
}

func (s *summary) weight() int {
	n := len(s.fresh) + len(s.readsG) + s.ret.size() + s.retCont.size() + len(s.callback) + len(s.cbSites) +
		len(s.spawns) + len(s.chanOps) + len(s.extCalls) + len(s.callees)
	for _, w := range s.writes {
		n += 1 + len(w)
	}
	for _, l := range s.links {
		n += 1 + l.size()
	}
	return n
}

// ---------------------------------------------------------------------------------------------------
// analysis state

type analyzer struct {
	prog    *ssa.Program
	fset    *token.FileSet
	modPath string
	repo    string
	fns     []*ssa.Function // module functions, deterministic order
	inMod   map[*ssa.Function]bool
	sum     map[*ssa.Function]*summary
	// address-taken module functions by signature string (for calls through function values)
	addrTaken map[string][]*ssa.Function
	// named types of the module (for class-hierarchy resolution of interface calls)
	modTypes []types.Type
	// direct (own-frame) stores to package-level variables: var -> "func @pos"
	directG map[string]sset
}

func (a *analyzer) fnPkgPath(fn *ssa.Function) string {
	if fn.Pkg != nil {
		return fn.Pkg.Pkg.Path()
	}
	if o := fn.Object(); o != nil && o.Pkg() != nil {
		return o.Pkg().Path()
	}
	if fn.Parent() != nil {
		return a.fnPkgPath(fn.Parent())
	}
	// synthetic wrappers / bound methods: look at the receiver type
	if fn.Signature.Recv() != nil {
		if n := namedOf(fn.Signature.Recv().Type()); n != nil && n.Obj().Pkg() != nil {
			return n.Obj().Pkg().Path()
		}
	}
	return ""
}

func namedOf(t types.Type) *types.Named {
	if p, ok := t.(*types.Pointer); ok {
		t = p.Elem()
	}
	n, _ := t.(*types.Named)
	return n
}

func (a *analyzer) isMod(path string) bool {
	return path == a.modPath || strings.HasPrefix(path, a.modPath+"/")
}

func (a *analyzer) short(path string) string {
	if path == a.modPath {
		return filepath.Base(path)
	}
	return strings.TrimPrefix(path, a.modPath+"/")
}

// fnName gives a stable readable name: "dawg.(*Dawg).Lookup", "comb.Coeff", "search.All$1".
func (a *analyzer) fnName(fn *ssa.Function) string {
	s := fn.String()
	s = strings.ReplaceAll(s, a.modPath+"/", "")
	s = strings.ReplaceAll(s, a.modPath, filepath.Base(a.modPath))
	return s
}

func (a *analyzer) pos(p token.Pos) string {
	if !p.IsValid() {
		return "?"
	}
	q := a.fset.Position(p)
	f := q.Filename
	if rel, err := filepath.Rel(a.repo, f); err == nil && !strings.HasPrefix(rel, "..") {
		f = rel
	}
	return fmt.Sprintf("%s:%d", f, q.Line)
}

// pointerLike: may a value of this type refer to mutable memory?
func pointerLike(t types.Type) bool {
	return pl(t, 0)
}

func pl(t types.Type, d int) bool {
	if t == nil || d > 8 {
		return true
	}
	switch u := t.Underlying().(type) {
	case *types.Basic:
		return u.Kind() == types.UnsafePointer
	case *types.Pointer, *types.Slice, *types.Map, *types.Chan, *types.Signature, *types.Interface:
		return true
	case *types.Struct:
		for i := 0; i < u.NumFields(); i++ {
			if pl(u.Field(i).Type(), d+1) {
				return true
			}
		}
		return false
	case *types.Array:
		return pl(u.Elem(), d+1)
	case *types.Tuple:
		for i := 0; i < u.Len(); i++ {
			if pl(u.At(i).Type(), d+1) {
				return true
			}
		}
		return false
	}
	return true
}

// ---------------------------------------------------------------------------------------------------
// per-function analysis

type frame struct {
	a      *analyzer
	fn     *ssa.Function
	val    map[ssa.Value]rset
	cont   map[root]rset
	sites  map[ssa.Instruction]int
	nsite  int
	s      *summary
	change bool
}

func (f *frame) site(i ssa.Instruction) root {
	id, ok := f.sites[i]
	if !ok {
		id = f.nsite
		f.nsite++
		f.sites[i] = id
	}
	return root{k: kA, i: id}
}

func (f *frame) get(v ssa.Value) rset {
	switch x := v.(type) {
	case *ssa.Const, *ssa.Function, *ssa.Builtin:
		return nil
	case *ssa.Global:
		return rset{root{k: kG, s: f.a.globalName(x)}: {}}
	case *ssa.Parameter:
		if !pointerLike(x.Type()) {
			return nil
		}
		for i, p := range f.fn.Params {
			if p == x {
				return rset{root{k: kP, i: i}: {}}
			}
		}
		return rset{root{k: kU, s: "parameter of another function"}: {}}
	case *ssa.FreeVar:
		for i, p := range f.fn.FreeVars {
			if p == x {
				return rset{root{k: kFV, i: i}: {}}
			}
		}
		return rset{root{k: kU, s: "free variable of another function"}: {}}
	}
	return f.val[v]
}

func (a *analyzer) globalName(g *ssa.Global) string {
	return a.short(g.Pkg.Pkg.Path()) + "." + g.Name()
}

func (f *frame) setVal(v ssa.Value, rs rset) {
	if len(rs) == 0 {
		return
	}
	cur := f.val[v]
	if cur == nil {
		cur = rset{}
		f.val[v] = cur
	}
	if cur.addAll(rs) {
		f.change = true
	}
}

// contents of the memory of the roots in rs (what a load through an address with these roots may yield)
func (f *frame) load(rs rset) rset {
	out := rset{}
	for r := range rs {
		switch r.k {
		case kA:
			// a fresh object holds only what was stored into it
		default:
			out.add(r) // memory reachable from a parameter / global / unknown stays reachable from it
		}
		out.addAll(f.cont[r])
	}
	return out
}

// reach: everything reachable from rs (fresh objects are followed through their contents)
func (f *frame) reach(rs rset) rset {
	out := rset{}
	var walk func(r root)
	walk = func(r root) {
		if !out.add(r) {
			return
		}
		for c := range f.cont[r] {
			walk(c)
		}
	}
	for r := range rs {
		walk(r)
	}
	return out
}

func (f *frame) store(addr rset, v rset) {
	if len(v) == 0 {
		return
	}
	for r := range addr {
		c := f.cont[r]
		if c == nil {
			c = rset{}
			f.cont[r] = c
		}
		if c.addAll(v) {
			f.change = true
		}
	}
}

// toExt translates a root set of this frame into the caller-visible vocabulary.
func (f *frame) toExt(rs rset, out *ext) {
	seen := rset{}
	var walk func(r root)
	walk = func(r root) {
		if !seen.add(r) {
			return
		}
		if r.k == kA {
			out.fresh = true
			for c := range f.cont[r] {
				walk(c)
			}
			return
		}
		out.roots.add(r)
	}
	for r := range rs {
		walk(r)
	}
}

// contExt: the external roots stored inside the fresh objects among rs (transitively), excluding rs' own external roots
func (f *frame) freshContents(rs rset, out *ext) {
	for r := range rs {
		if r.k == kA {
			f.toExt(f.cont[r], out)
		}
	}
}

func (f *frame) recordWrite(addr rset, where string) {
	if len(addr) == 0 {
		return
	}
	for r := range addr {
		if r.k == kA {
			f.s.fresh[where] = struct{}{}
			continue
		}
		w := f.s.writes[r]
		if w == nil {
			w = sset{}
			f.s.writes[r] = w
		}
		w[where] = struct{}{}
		if r.k == kG {
			d := f.a.directG[r.s]
			if d == nil {
				d = sset{}
				f.a.directG[r.s] = d
			}
			d[where] = struct{}{}
		}
	}
}

func (f *frame) here(i ssa.Instruction) string {
	return f.a.fnName(f.fn) + " " + f.a.pos(instrPos(i))
}

func instrPos(i ssa.Instruction) token.Pos {
	if p := i.Pos(); p.IsValid() {
		return p
	}
	// fall back to the position of an operand or of the enclosing function
	for _, op := range i.Operands(nil) {
		if *op != nil && (*op).Pos().IsValid() {
			return (*op).Pos()
		}
	}
	if i.Parent() != nil {
		return i.Parent().Pos()
	}
	return token.NoPos
}

func (f *frame) classOf(rs rset) string {
	e := newExt()
	f.toExt(rs, e)
	parts := []string{}
	for r := range e.roots {
		parts = append(parts, r.String())
	}
	sort.Strings(parts)
	if e.fresh {
		parts = append(parts, "own")
	}
	if len(parts) == 0 {
		return "nil"
	}
	return strings.Join(parts, "|")
}

func (a *analyzer) analyse(fn *ssa.Function) bool {
	old := a.sum[fn]
	before := old.weight()
	f := &frame{a: a, fn: fn, val: map[ssa.Value]rset{}, cont: map[root]rset{}, sites: map[ssa.Instruction]int{}, s: old}
	for iter := 0; ; iter++ {
		f.change = false
		for _, b := range fn.Blocks {
			for _, ins := range b.Instrs {
				f.instr(ins)
			}
		}
		if !f.change {
			break
		}
		if iter > 200 {
			die("no fixed point in %s", fn)
		}
	}
	// links: what got stored inside external roots
	for r, c := range f.cont {
		if r.k == kA {
			continue
		}
		e := f.s.links[r]
		if e == nil {
			e = newExt()
			f.s.links[r] = e
		}
		f.toExt(c, e)
		delete(e.roots, r)
	}
	return f.s.weight() != before
}

func (f *frame) instr(ins ssa.Instruction) {
	switch x := ins.(type) {
	case *ssa.Alloc:
		f.setVal(x, rset{f.site(x): {}})
	case *ssa.MakeSlice:
		f.setVal(x, rset{f.site(x): {}})
	case *ssa.MakeMap:
		f.setVal(x, rset{f.site(x): {}})
	case *ssa.MakeChan:
		f.setVal(x, rset{f.site(x): {}})
		f.s.chanOps["make own @"+f.here(x)] = struct{}{}
	case *ssa.MakeClosure:
		rs := rset{}
		for _, b := range x.Bindings {
			rs.addAll(f.get(b))
		}
		// the closure object itself is a fresh allocation holding the bindings
		site := f.site(x)
		f.store(rset{site: {}}, rs)
		f.setVal(x, rset{site: {}})
	case *ssa.MakeInterface:
		f.setVal(x, f.get(x.X))
	case *ssa.ChangeType:
		f.setVal(x, f.get(x.X))
	case *ssa.ChangeInterface:
		f.setVal(x, f.get(x.X))
	case *ssa.SliceToArrayPointer:
		f.setVal(x, f.get(x.X))
	case *ssa.Convert:
		// string -> []byte / []rune allocates; pointer-ish conversions keep the roots
		if _, isSlice := x.Type().Underlying().(*types.Slice); isSlice {
			if b, ok := x.X.Type().Underlying().(*types.Basic); ok && b.Info()&types.IsString != 0 {
				f.setVal(x, rset{f.site(x): {}})
				return
			}
		}
		if pointerLike(x.Type()) {
			f.setVal(x, f.get(x.X))
		}
	case *ssa.TypeAssert:
		if pointerLike(x.Type()) {
			f.setVal(x, f.get(x.X))
		}
	case *ssa.Slice:
		f.setVal(x, f.get(x.X))
	case *ssa.FieldAddr:
		f.setVal(x, f.get(x.X))
	case *ssa.IndexAddr:
		f.setVal(x, f.get(x.X))
	case *ssa.Field:
		if pointerLike(x.Type()) {
			f.setVal(x, f.get(x.X))
		}
	case *ssa.Index:
		if pointerLike(x.Type()) {
			f.setVal(x, f.get(x.X))
		}
	case *ssa.Lookup:
		if pointerLike(x.Type()) {
			f.setVal(x, f.load(f.get(x.X)))
		}
	case *ssa.Range:
		f.setVal(x, f.get(x.X))
	case *ssa.Next:
		if pointerLike(x.Type()) {
			f.setVal(x, f.load(f.get(x.Iter)))
		}
	case *ssa.Extract:
		if pointerLike(x.Type()) {
			f.setVal(x, f.get(x.Tuple))
		}
	case *ssa.Phi:
		for _, e := range x.Edges {
			f.setVal(x, f.get(e))
		}
	case *ssa.BinOp:
		// arithmetic / comparison / string concatenation: no mutable memory
	case *ssa.UnOp:
		switch x.Op {
		case token.MUL:
			addr := f.get(x.X)
			for r := range addr {
				if r.k == kG {
					f.s.readsG[r.s] = struct{}{}
				}
			}
			if pointerLike(x.Type()) {
				f.setVal(x, f.load(addr))
			}
		case token.ARROW:
			f.s.chanOps["recv "+f.classOf(f.get(x.X))+" @"+f.here(x)] = struct{}{}
			if pointerLike(x.Type()) {
				f.setVal(x, f.load(f.get(x.X)))
			}
		}
	case *ssa.Select:
		f.s.chanOps["select @"+f.here(x)] = struct{}{}
		rs := rset{}
		for _, st := range x.States {
			rs.addAll(f.load(f.get(st.Chan)))
			if st.Send != nil {
				f.store(f.get(st.Chan), f.get(st.Send))
			}
		}
		f.setVal(x, rs)
	case *ssa.Send:
		f.s.chanOps["send "+f.classOf(f.get(x.Chan))+" @"+f.here(x)] = struct{}{}
		f.store(f.get(x.Chan), f.get(x.X))
	case *ssa.Store:
		addr := f.get(x.Addr)
		where := f.here(x)
		if _, direct := x.Addr.(*ssa.Global); direct {
			where += " (assignment to the variable)"
		}
		f.recordWrite(addr, where)
		f.store(addr, f.get(x.Val))
	case *ssa.MapUpdate:
		addr := f.get(x.Map)
		f.recordWrite(addr, f.here(x))
		f.store(addr, f.get(x.Key))
		f.store(addr, f.get(x.Value))
	case *ssa.Return:
		rs := rset{}
		for _, r := range x.Results {
			if pointerLike(r.Type()) {
				rs.addAll(f.get(r))
			}
		}
		n := f.s.ret.size() + f.s.retCont.size()
		f.toExt(rs, f.s.ret)
		f.freshContents(rs, f.s.retCont)
		if f.s.ret.size()+f.s.retCont.size() != n {
			f.change = true
		}
	case *ssa.Call:
		f.call(x, x.Common(), x)
	case *ssa.Defer:
		f.call(x, x.Common(), nil)
	case *ssa.Go:
		f.s.spawns[f.here(x)] = struct{}{}
		f.call(x, x.Common(), nil)
	case *ssa.Panic, *ssa.RunDefers, *ssa.Jump, *ssa.If, *ssa.DebugRef:
	default:
		// an instruction kind this analysis does not know: do not drop it silently
		if v, ok := ins.(ssa.Value); ok && pointerLike(v.Type()) {
			f.setVal(v, rset{root{k: kU, s: fmt.Sprintf("unhandled %T", ins)}: {}})
		}
	}
}

// ---------------------------------------------------------------------------------------------------
// calls

// bind instantiates an external root of a callee at a call site.
type binding struct {
	params []rset // roots of the actual arguments, receiver first
	fvs    rset   // roots standing for every free variable of the callee
	site   root   // fresh object standing for everything the callee allocated
}

func (b *binding) mapRoot(r root, out rset) {
	switch r.k {
	case kP:
		if r.i < len(b.params) {
			out.addAll(b.params[r.i])
		}
	case kFV:
		out.addAll(b.fvs)
	case kG, kU:
		out.add(r)
	}
}

func (b *binding) mapExt(e *ext) rset {
	out := rset{}
	for r := range e.roots {
		b.mapRoot(r, out)
	}
	if e.fresh {
		out.add(b.site)
	}
	return out
}

func (f *frame) apply(ins ssa.Instruction, callee *summary, b *binding, res ssa.Value, via string) {
	n0 := f.s.weight()
	for r, wit := range callee.writes {
		tgt := rset{}
		b.mapRoot(r, tgt)
		for t := range tgt {
			if t.k == kA {
				f.s.fresh.addAll(wit)
				continue
			}
			w := f.s.writes[t]
			if w == nil {
				w = sset{}
				f.s.writes[t] = w
			}
			w.addAll(wit)
		}
	}
	f.s.fresh.addAll(callee.fresh)
	f.s.readsG.addAll(callee.readsG)
	f.s.spawns.addAll(callee.spawns)
	f.s.chanOps.addAll(callee.chanOps)
	f.s.extCalls.addAll(callee.extCalls)
	f.s.cbSites.addAll(callee.cbSites)
	for r := range callee.callback {
		tgt := rset{}
		b.mapRoot(r, tgt)
		e := newExt()
		f.toExt(tgt, e)
		f.s.callback.addAll(e.roots)
	}
	for r, l := range callee.links {
		tgt := rset{}
		b.mapRoot(r, tgt)
		f.store(tgt, b.mapExt(l))
	}
	if res != nil && pointerLike(res.Type()) {
		f.setVal(res, b.mapExt(callee.ret))
	}
	f.store(rset{b.site: {}}, b.mapExt(callee.retCont))
	if f.s.weight() != n0 {
		f.change = true
	}
}

func (f *frame) call(ins ssa.Instruction, c *ssa.CallCommon, res ssa.Value) {
	a := f.a
	site := f.site(ins)
	args := make([]rset, 0, len(c.Args)+1)
	if c.IsInvoke() {
		args = append(args, f.get(c.Value))
	}
	for _, x := range c.Args {
		args = append(args, f.get(x))
	}

	// ---- builtins
	if bi, ok := c.Value.(*ssa.Builtin); ok {
		f.builtin(ins, bi, c, args, res, site)
		return
	}

	// A callee's P(i) / FV(i) stands for everything reachable from the argument: bind it to the transitive
	// closure of the argument's roots (a fresh struct holding the receiver's slice reaches the receiver).
	for i := range args {
		args[i] = f.reach(args[i])
	}

	// ---- interface method calls: class hierarchy over the module's types
	if c.IsInvoke() {
		impls := a.implementations(c.Value.Type(), c.Method)
		ifaceInMod := false
		if n := namedOf(c.Value.Type()); n != nil && n.Obj().Pkg() != nil && a.isMod(n.Obj().Pkg().Path()) {
			ifaceInMod = true
		}
		for _, m := range impls {
			f.callFn(ins, m, &binding{params: args, fvs: rset{}, site: site}, res)
		}
		if !ifaceInMod || len(impls) == 0 {
			// an interface of another package (io.Writer, heap.Interface, ...): implementation unknown
			f.extCall(ins, "interface "+types.TypeString(c.Value.Type(), nil)+"."+c.Method.Name(), c, args, res, site)
		}
		return
	}

	// ---- static callee
	if fn := c.StaticCallee(); fn != nil {
		b := &binding{params: args, fvs: rset{}, site: site}
		if mc, ok := c.Value.(*ssa.MakeClosure); ok {
			for _, x := range mc.Bindings {
				b.fvs.addAll(f.reach(f.get(x)))
			}
		}
		if a.inMod[fn] {
			f.callFn(ins, fn, b, res)
		} else {
			f.extCall(ins, fn.String(), c, args, res, site)
		}
		return
	}

	// ---- call through a function value
	fv := f.get(c.Value)
	sig := sigKey(c.Value.Type())
	e := newExt()
	f.toExt(f.load(fv), e)
	f.toExt(fv, e)
	if f.s.callback.addAll(e.roots) {
		f.change = true
	}
	f.s.cbSites[f.here(ins)+" calls a "+sig+" taken from "+f.classOf(fv)] = struct{}{}
	for _, fn := range a.addrTaken[sig] {
		// the captured variables of the closure are whatever the function value holds
		f.callFn(ins, fn, &binding{params: args, fvs: f.reach(fv), site: site}, res)
	}
	// results of a caller-supplied function are unknown memory owned by whoever supplied it
	if res != nil && pointerLike(res.Type()) {
		f.setVal(res, f.load(fv))
		f.setVal(res, rset{site: {}})
	}
}

func (f *frame) callFn(ins ssa.Instruction, fn *ssa.Function, b *binding, res ssa.Value) {
	if _, ok := f.s.callees[fn]; !ok {
		f.s.callees[fn] = struct{}{}
		f.change = true
	}
	f.apply(ins, f.a.sum[fn], b, res, f.a.fnName(fn))
}

// extCall: a function outside the module. Table entries first, conservative default otherwise.
func (f *frame) extCall(ins ssa.Instruction, name string, c *ssa.CallCommon, args []rset, res ssa.Value, site root) {
	// sync.Pool: a value obtained from Get is exclusively owned by the caller until it is Put back, and the
	// pool's own state is synchronised by the standard library. Get = fresh memory (or whatever a New function
	// of the module returns), Put = no effect on shared state; the pool variable itself is only read.
	// Nothing else of package sync gets this treatment (a hand-rolled mutex-protected cache stays flagged).
	if name == "(*sync.Pool).Get" || name == "(*sync.Pool).Put" {
		f.s.extCalls[name+" [sync.Pool]"] = struct{}{}
		if len(args) > 0 {
			for r := range args[0] {
				if r.k == kG {
					f.s.readsG[r.s] = struct{}{}
				}
			}
		}
		if name == "(*sync.Pool).Get" && res != nil {
			f.setVal(res, rset{site: {}})
			for _, fn := range append(append([]*ssa.Function{}, f.a.addrTaken["func() interface{}"]...), f.a.addrTaken["func() any"]...) {
				// a New function of the module: its result is what Get may hand out
				b := &binding{fvs: rset{root{k: kU, s: "captured by a sync.Pool New function"}: {}}, site: site}
				f.callFn(ins, fn, b, res)
			}
		}
		return
	}
	writesArgs, callsFuncs, retAliases, known := extSummary(name)
	tag := "default"
	if known {
		tag = "table"
	}
	f.s.extCalls[name+" ["+tag+"]"] = struct{}{}
	all := rset{}
	for _, r := range args {
		all.addAll(r)
	}
	operands := c.Args
	if c.IsInvoke() {
		operands = append([]ssa.Value{c.Value}, c.Args...)
	}
	for i, r := range args {
		w := false
		if !known {
			w = true
		} else {
			for _, j := range writesArgs {
				if j == i || j < 0 {
					w = true
				}
			}
		}
		if w && i < len(operands) && pointerLike(operands[i].Type()) {
			// the callee may write everything reachable from the argument
			tgt := f.reach(r)
			f.recordWrite(tgt, f.here(ins)+" (inside "+name+")")
			if !known {
				f.store(r, all) // and may store any argument into it
			}
		}
	}
	if callsFuncs {
		for i, op := range operands {
			if _, ok := op.Type().Underlying().(*types.Signature); !ok {
				continue
			}
			f.callValue(ins, op, args[i], site)
		}
	}
	if res != nil && pointerLike(res.Type()) {
		out := rset{site: {}}
		if retAliases {
			out.addAll(all)
			f.store(rset{site: {}}, all)
		}
		f.setVal(res, out)
	}
}

// callValue: a function value handed to code outside the module is assumed to be called there, with
// non-pointer arguments (sort.Search, sort.Slice) or unknown ones.
func (f *frame) callValue(ins ssa.Instruction, op ssa.Value, roots rset, site root) {
	var fns []*ssa.Function
	fvs := rset{}
	switch v := op.(type) {
	case *ssa.MakeClosure:
		fns = []*ssa.Function{v.Fn.(*ssa.Function)}
		for _, x := range v.Bindings {
			fvs.addAll(f.reach(f.get(x)))
		}
	case *ssa.Function:
		fns = []*ssa.Function{v}
	default:
		sig := sigKey(op.Type())
		fns = f.a.addrTaken[sig]
		fvs = f.reach(roots)
		e := newExt()
		f.toExt(fvs, e)
		f.toExt(roots, e)
		f.s.callback.addAll(e.roots)
		f.s.cbSites[f.here(ins)+" passes a "+sig+" taken from "+f.classOf(roots)+" to code outside the module"] = struct{}{}
	}
	for _, fn := range fns {
		if !f.a.inMod[fn] {
			continue
		}
		params := make([]rset, len(fn.Params))
		for i, p := range fn.Params {
			if pointerLike(p.Type()) {
				params[i] = rset{root{k: kU, s: "argument supplied by code outside the module"}: {}}
			}
		}
		f.callFn(ins, fn, &binding{params: params, fvs: fvs, site: site}, nil)
	}
}

func (f *frame) builtin(ins ssa.Instruction, bi *ssa.Builtin, c *ssa.CallCommon, args []rset, res ssa.Value, site root) {
	switch bi.Name() {
	case "append":
		// writes into the backing array of args[0] when there is capacity, otherwise into a fresh array
		dst := rset{}
		dst.addAll(args[0])
		f.recordWrite(dst, f.here(ins))
		out := rset{site: {}}
		out.addAll(args[0])
		if len(args) > 1 {
			if sl, ok := c.Args[1].Type().Underlying().(*types.Slice); ok && pointerLike(sl.Elem()) {
				f.store(out, f.load(args[1]))
			}
		}
		f.store(rset{site: {}}, f.load(args[0]))
		if res != nil {
			f.setVal(res, out)
		}
	case "copy":
		f.recordWrite(args[0], f.here(ins))
		if sl, ok := c.Args[0].Type().Underlying().(*types.Slice); ok && pointerLike(sl.Elem()) {
			f.store(args[0], f.load(args[1]))
		}
	case "delete", "clear":
		f.recordWrite(args[0], f.here(ins))
	case "close":
		f.s.chanOps["close "+f.classOf(args[0])+" @"+f.here(ins)] = struct{}{}
	case "len", "cap", "print", "println", "real", "imag", "complex", "min", "max", "panic":
	case "recover":
	case "ssa:wrapnilchk":
		if res != nil {
			f.setVal(res, args[0])
		}
	default:
		if res != nil && pointerLike(res.Type()) {
			f.setVal(res, rset{root{k: kU, s: "builtin " + bi.Name()}: {}})
		}
	}
}

// extSummary: summaries of standard-library functions used by the module.
// writesArgs: argument positions written (-1 = all); callsFuncs: function-valued arguments are called;
// retAliases: the result may point into the arguments.
func extSummary(name string) (writesArgs []int, callsFuncs bool, retAliases bool, known bool) {
	switch name {
	case "sort.Ints", "sort.Sort", "sort.Stable", "sort.Strings", "sort.Float64s":
		return []int{0}, false, false, true
	case "sort.Slice", "sort.SliceStable":
		return []int{0}, true, false, true
	case "sort.Search":
		return nil, true, false, true
	case "sort.SearchInts", "sort.SearchStrings", "sort.IntsAreSorted", "sort.SliceIsSorted",
		"bytes.Compare", "bytes.Equal", "bytes.HasPrefix", "bytes.IndexByte",
		"strings.HasPrefix", "strings.HasSuffix", "strings.Index", "strings.Contains",
		"errors.New", "math.Sqrt", "math.Floor", "math.Ceil", "math.Log2", "math.Pow",
		"math/rand.NewSource":
		return nil, false, false, true
	case "math/rand.New":
		return nil, false, true, true
	}
	if strings.HasPrefix(name, "math/bits.") {
		return nil, false, false, true
	}
	return nil, true, true, false
}

// sigKey: parameter and result types only (names do not matter for assignability of function values)
func sigKey(t types.Type) string {
	sig, ok := t.Underlying().(*types.Signature)
	if !ok {
		return "?"
	}
	var b strings.Builder
	b.WriteString("func(")
	for i := 0; i < sig.Params().Len(); i++ {
		if i > 0 {
			b.WriteString(", ")
		}
		if sig.Variadic() && i == sig.Params().Len()-1 {
			b.WriteString("...")
		}
		b.WriteString(types.TypeString(sig.Params().At(i).Type(), nil))
	}
	b.WriteString(")")
	for i := 0; i < sig.Results().Len(); i++ {
		b.WriteString(" " + types.TypeString(sig.Results().At(i).Type(), nil))
	}
	return b.String()
}

// implementations of an interface method among the module's named types
func (a *analyzer) implementations(t types.Type, m *types.Func) []*ssa.Function {
	iface, ok := t.Underlying().(*types.Interface)
	if !ok {
		return nil
	}
	var out []*ssa.Function
	for _, T := range a.modTypes {
		if _, isIface := T.Underlying().(*types.Interface); isIface {
			continue
		}
		cands := []types.Type{T}
		if !types.Implements(T, iface) {
			// only the pointer type can implement it (pointer receivers); when T itself implements the
			// interface the wrapper of *T has the same footprint as the method of T
			cands = []types.Type{types.NewPointer(T)}
		}
		for _, cand := range cands {
			if !types.Implements(cand, iface) {
				continue
			}
			ms := a.prog.MethodSets.MethodSet(cand)
			sel := ms.Lookup(m.Pkg(), m.Name())
			if sel == nil {
				continue
			}
			if fn := a.prog.MethodValue(sel); fn != nil && a.sum[fn] != nil {
				out = append(out, fn)
			} else if fn != nil {
				die("method %s has no analysed body", fn)
			}
		}
	}
	return out
}

// ---------------------------------------------------------------------------------------------------
// driver

type apiFacts struct {
	Name           string              `json:"name"`
	LeanName       string              `json:"lean_name"`
	Params         []string            `json:"params"`
	GlobalsWritten map[string][]string `json:"globals_written"`
	ParamsWritten  map[string][]string `json:"params_written"` // index -> witnesses
	FreeVarWrites  []string            `json:"free_var_writes,omitempty"`
	Unknown        map[string][]string `json:"unknown_writes"`
	FreshStores    int                 `json:"stores_to_own_allocations"`
	GlobalsRead    []string            `json:"globals_read"`
	RetAliases     []string            `json:"result_may_alias"`
	Exposes        []string            `json:"package_level_memory_handed_out"` // package-level variables whose memory may become reachable from the result or from a parameter
	Retains        []int               `json:"parameters_retained"` // kept reachable from the result or from another parameter / a package-level variable
	Callbacks      []string            `json:"calls_function_values_from"`
	CallbackSites  []string            `json:"callback_sites,omitempty"`
	Spawns         []string            `json:"go_statements"`
	ChanOps        []string            `json:"channel_operations"`
	ExtCalls       []string            `json:"calls_outside_module"`
}

func leanIdent(s string) string {
	var b strings.Builder
	for _, r := range s {
		switch {
		case r >= 'a' && r <= 'z', r >= 'A' && r <= 'Z', r >= '0' && r <= '9':
			b.WriteRune(r)
		case r == '.' || r == '/':
			b.WriteRune('_')
		case r == '$':
			b.WriteString("_fn")
		}
	}
	return b.String()
}

func leanStr(s string) string {
	return "\"" + strings.ReplaceAll(strings.ReplaceAll(s, "\\", "\\\\"), "\"", "\\\"") + "\""
}

func leanStrList(l []string) string {
	q := make([]string, len(l))
	for i, s := range l {
		q[i] = leanStr(s)
	}
	return "[" + strings.Join(q, ", ") + "]"
}

func writeIfChanged(path, content string) {
	old, err := os.ReadFile(path)
	if err == nil && string(old) == content {
		return
	}
	os.MkdirAll(filepath.Dir(path), 0o755)
	if err := os.WriteFile(path, []byte(content), 0o644); err != nil {
		die("%v", err)
	}
}

func main() {
	if len(os.Args) < 4 {
		die("usage: extract_fp repo gendir facts.json")
	}
	repo, gen, factsPath := os.Args[1], os.Args[2], os.Args[3]
	repo, _ = filepath.Abs(repo)
	modPath := ""
	if b, err := os.ReadFile(filepath.Join(repo, "go.mod")); err == nil {
		for _, l := range strings.Split(string(b), "\n") {
			if strings.HasPrefix(l, "module ") {
				modPath = strings.TrimSpace(strings.TrimPrefix(l, "module "))
			}
		}
	}
	if modPath == "" {
		die("no module line in %s/go.mod", repo)
	}

	fset := token.NewFileSet()
	cfg := &packages.Config{Mode: packages.LoadAllSyntax, Dir: repo, Fset: fset, Tests: false}
	pkgs, err := packages.Load(cfg, "./...")
	if err != nil {
		die("load: %v", err)
	}
	nerr := 0
	packages.Visit(pkgs, nil, func(p *packages.Package) {
		for _, e := range p.Errors {
			fmt.Fprintln(os.Stderr, "extract_fp:", e)
			nerr++
		}
	})
	if nerr > 0 {
		die("%d load errors", nerr)
	}
	prog, _ := ssautil.AllPackages(pkgs, ssa.InstantiateGenerics)
	prog.Build()

	a := &analyzer{prog: prog, fset: fset, modPath: modPath, repo: repo, inMod: map[*ssa.Function]bool{},
		sum: map[*ssa.Function]*summary{}, addrTaken: map[string][]*ssa.Function{}, directG: map[string]sset{}}

	// module packages, their named types and globals
	type gvar struct {
		name, typ, pos string
	}
	var globals []gvar
	var modPkgs []*ssa.Package
	for _, p := range prog.AllPackages() {
		if !a.isMod(p.Pkg.Path()) {
			continue
		}
		modPkgs = append(modPkgs, p)
	}
	sort.Slice(modPkgs, func(i, j int) bool { return modPkgs[i].Pkg.Path() < modPkgs[j].Pkg.Path() })
	for _, p := range modPkgs {
		names := []string{}
		for n := range p.Members {
			names = append(names, n)
		}
		sort.Strings(names)
		for _, n := range names {
			switch m := p.Members[n].(type) {
			case *ssa.Global:
				if n == "init$guard" {
					continue
				}
				globals = append(globals, gvar{a.globalName(m), types.TypeString(m.Type().(*types.Pointer).Elem(), func(q *types.Package) string { return q.Name() }), a.pos(m.Pos())})
			case *ssa.Type:
				a.modTypes = append(a.modTypes, m.Type())
			}
		}
	}

	// module functions (including anonymous functions and synthetic wrappers of module methods)
	all := ssautil.AllFunctions(prog)
	for fn := range all {
		if fn.Blocks == nil {
			continue
		}
		if a.isMod(a.fnPkgPath(fn)) {
			a.fns = append(a.fns, fn)
		}
	}
	sort.Slice(a.fns, func(i, j int) bool {
		if a.fns[i].String() != a.fns[j].String() {
			return a.fns[i].String() < a.fns[j].String()
		}
		return a.fns[i].Pos() < a.fns[j].Pos()
	})
	for _, fn := range a.fns {
		a.inMod[fn] = true
		a.sum[fn] = newSummary()
	}
	// address-taken functions: operands that are functions but not in callee position, and closures
	seenAT := map[*ssa.Function]bool{}
	addAT := func(fn *ssa.Function) {
		if fn == nil || !a.inMod[fn] || seenAT[fn] {
			return
		}
		seenAT[fn] = true
		if fn.Signature.Recv() != nil {
			return
		}
		sig := sigKey(fn.Signature)
		a.addrTaken[sig] = append(a.addrTaken[sig], fn)
	}
	for _, fn := range a.fns {
		for _, b := range fn.Blocks {
			for _, ins := range b.Instrs {
				if mc, ok := ins.(*ssa.MakeClosure); ok {
					addAT(mc.Fn.(*ssa.Function))
				}
				var callee ssa.Value
				if cc, ok := ins.(ssa.CallInstruction); ok && !cc.Common().IsInvoke() {
					callee = cc.Common().Value
				}
				for _, op := range ins.Operands(nil) {
					if fnv, ok := (*op).(*ssa.Function); ok && *op != callee {
						addAT(fnv)
					}
				}
			}
		}
	}

	// global fixed point
	for round := 0; ; round++ {
		changed := false
		for _, fn := range a.fns {
			if a.analyse(fn) {
				changed = true
			}
		}
		if !changed {
			break
		}
		if round > 100 {
			die("no global fixed point")
		}
	}

	// ---- report ------------------------------------------------------------------------------------
	facts := map[string]interface{}{}
	facts["module"] = modPath

	// (i) package-level variables
	type gfact struct {
		Name          string   `json:"name"`
		Type          string   `json:"type"`
		Pos           string   `json:"pos"`
		InitStores    []string `json:"stores_in_package_init"`
		RuntimeStores []string `json:"stores_outside_package_init"`
	}
	// Package initialisation happens before any goroutine of the user can call into the package: stores made by
	// functions that can ONLY run during initialisation are not writes to shared state. A function is
	// initialisation-only when it is a package initialiser (the synthetic pkg.init or a declared init()), or when
	// it is not exported, has at least one caller in the module and all its callers (static, class-hierarchy and
	// by-signature edges alike) are initialisation-only. Everything else - in particular every exported function
	// and every function without a module caller (it may be called from outside) - counts as run time.
	callers := map[*ssa.Function]map[*ssa.Function]bool{}
	for _, fn := range a.fns {
		for c := range a.sum[fn].callees {
			if callers[c] == nil {
				callers[c] = map[*ssa.Function]bool{}
			}
			callers[c][fn] = true
		}
	}
	initOnly := map[*ssa.Function]bool{}
	for _, fn := range a.fns {
		if fn.Parent() == nil && (fn.Name() == "init" && fn.Synthetic != "" || strings.HasPrefix(fn.Name(), "init#")) {
			initOnly[fn] = true
		}
	}
	for changed := true; changed; {
		changed = false
		for _, fn := range a.fns {
			if initOnly[fn] || len(callers[fn]) == 0 {
				continue
			}
			if o := fn.Object(); o != nil && o.Exported() {
				continue
			}
			all := true
			for c := range callers[fn] {
				if !initOnly[c] && c != fn {
					all = false
				}
			}
			if all {
				initOnly[fn] = true
				changed = true
			}
		}
	}
	initNames := sset{}
	for fn := range initOnly {
		initNames[a.fnName(fn)] = struct{}{}
	}
	facts["initialisation_only_functions"] = initNames.sorted()

	gfacts := []gfact{}
	for _, g := range globals {
		gf := gfact{Name: g.name, Type: g.typ, Pos: g.pos, InitStores: []string{}, RuntimeStores: []string{}}
		sites := a.directG[g.name].sorted()
		sort.SliceStable(sites, func(i, j int) bool {
			return strings.HasSuffix(sites[i], "(assignment to the variable)") && !strings.HasSuffix(sites[j], "(assignment to the variable)")
		})
		for _, w := range sites {
			fnName := strings.SplitN(w, " ", 2)[0]
			if _, isInit := initNames[fnName]; isInit {
				gf.InitStores = append(gf.InitStores, w)
			} else {
				gf.RuntimeStores = append(gf.RuntimeStores, w)
			}
		}
		gfacts = append(gfacts, gf)
	}
	facts["package_level_variables"] = gfacts

	// imports that would put memory out of reach of this analysis (unsafe, reflect, cgo) or that signal
	// deliberate sharing (sync, sync/atomic): reported, and required to be absent by Props/C19Fp.lean
	special := sset{}
	poolUsers := sset{}
	for _, p := range modPkgs {
		for _, imp := range p.Pkg.Imports() {
			switch imp.Path() {
			case "unsafe", "reflect", "sync/atomic", "C", "runtime":
				special[a.short(p.Pkg.Path())+" imports "+imp.Path()] = struct{}{}
			}
		}
	}
	// package sync: sync.Pool (type, Get, Put, field New) is allowed, anything else is reported
	for _, p := range pkgs {
		if p.TypesInfo == nil || !a.isMod(p.PkgPath) {
			continue
		}
		for _, obj := range p.TypesInfo.Uses {
			if obj == nil || obj.Pkg() == nil || obj.Pkg().Path() != "sync" {
				continue
			}
			owner := obj.Name()
			switch o := obj.(type) {
			case *types.Func:
				if sig, ok := o.Type().(*types.Signature); ok && sig.Recv() != nil {
					if n := namedOf(sig.Recv().Type()); n != nil {
						owner = n.Obj().Name()
					}
				}
			case *types.Var:
				if o.IsField() && o.Name() == "New" {
					owner = "Pool"
				}
			}
			if owner == "Pool" {
				poolUsers[a.short(p.PkgPath)] = struct{}{}
			} else {
				special[a.short(p.PkgPath)+" uses sync."+owner] = struct{}{}
			}
		}
	}
	facts["special_imports"] = special.sorted()
	facts["sync_pool_users"] = poolUsers.sorted()

	// (ii) API entries: every exported function and method of exported (or Graph-implementing) types, plus
	// the unexported view types' observers.
	apis := []apiFacts{}
	used := map[string]bool{}
	for _, fn := range a.fns {
		if fn.Parent() != nil || fn.Synthetic != "" {
			continue
		}
		name := a.fnName(fn)
		if initOnly[fn] {
			continue // cannot run after package initialisation: not part of the run-time footprint
		}
		obj := fn.Object()
		if obj == nil {
			continue
		}
		if !obj.Exported() {
			// keep unexported functions too: the property names some (commonPrefix), and they cost nothing
		}
		s := a.sum[fn]
		af := apiFacts{Name: name, LeanName: leanIdent(name), GlobalsWritten: map[string][]string{}, ParamsWritten: map[string][]string{},
			Unknown: map[string][]string{}, FreshStores: len(s.fresh), GlobalsRead: s.readsG.sorted(), RetAliases: []string{},
			Callbacks: []string{}, CallbackSites: s.cbSites.sorted(), Spawns: s.spawns.sorted(), ChanOps: s.chanOps.sorted(), ExtCalls: s.extCalls.sorted()}
		if used[af.LeanName] {
			die("duplicate Lean name %s", af.LeanName)
		}
		used[af.LeanName] = true
		for _, p := range fn.Params {
			af.Params = append(af.Params, p.Name()+" "+types.TypeString(p.Type(), func(q *types.Package) string { return q.Name() }))
		}
		for r, w := range s.writes {
			switch r.k {
			case kG:
				af.GlobalsWritten[r.s] = w.sorted()
			case kP:
				af.ParamsWritten[fmt.Sprint(r.i)] = w.sorted()
			case kFV:
				af.FreeVarWrites = append(af.FreeVarWrites, w.sorted()...)
			case kU:
				af.Unknown[r.s] = w.sorted()
			}
		}
		for r := range s.ret.roots {
			af.RetAliases = append(af.RetAliases, r.String())
		}
		sort.Strings(af.RetAliases)
		ret := map[int]bool{}
		for r := range s.ret.roots {
			if r.k == kP {
				ret[r.i] = true
			}
		}
		for r := range s.retCont.roots {
			if r.k == kP {
				ret[r.i] = true
			}
		}
		for into, l := range s.links {
			for r := range l.roots {
				if r.k == kP && r != into {
					ret[r.i] = true
				}
			}
		}
		exp := sset{}
		for r := range s.ret.roots {
			if r.k == kG {
				exp[r.s] = struct{}{}
			}
		}
		for r := range s.retCont.roots {
			if r.k == kG {
				exp[r.s] = struct{}{}
			}
		}
		for into, l := range s.links {
			for r := range l.roots {
				if r.k == kG && r != into {
					exp[r.s] = struct{}{}
				}
			}
		}
		af.Exposes = exp.sorted()
		af.Retains = []int{}
		for i := range ret {
			af.Retains = append(af.Retains, i)
		}
		sort.Ints(af.Retains)
		for r := range s.callback {
			af.Callbacks = append(af.Callbacks, r.String())
		}
		sort.Strings(af.Callbacks)
		apis = append(apis, af)
	}
	sort.Slice(apis, func(i, j int) bool { return apis[i].Name < apis[j].Name })
	facts["functions"] = apis

	// (iii) goroutines and channels, module-wide
	spawns, chans := sset{}, sset{}
	for _, fn := range a.fns {
		for _, b := range fn.Blocks {
			for _, ins := range b.Instrs {
				if _, ok := ins.(*ssa.Go); ok {
					spawns[a.fnName(fn)+" "+a.pos(instrPos(ins))] = struct{}{}
				}
			}
		}
		// own-frame channel operations were recorded with their site; collect from every summary
		chans.addAll(a.sum[fn].chanOps)
	}
	facts["go_statements"] = spawns.sorted()
	facts["channel_operations"] = chans.sorted()

	fb, _ := json.MarshalIndent(facts, "", " ")
	os.MkdirAll(filepath.Dir(factsPath), 0o755)
	if err := os.WriteFile(factsPath, fb, 0o644); err != nil {
		die("%v", err)
	}

	// ---- Lean -----------------------------------------------------------------------------------
	var b strings.Builder
	b.WriteString("import Mamba.Model.FootprintApi\n")
	b.WriteString("/-! GENERATED by verif/extract_fp from the Go source tree on every run — do not edit.\n")
	b.WriteString("Write footprints of the functions of " + modPath + " (go/ssa region analysis; see extract_fp/main.go). -/\n")
	b.WriteString("namespace Gen.Footprints\nopen Footprint\n\n")
	for _, af := range apis {
		gw := []string{}
		for g := range af.GlobalsWritten {
			gw = append(gw, g)
		}
		sort.Strings(gw)
		pw := []string{}
		for p := range af.ParamsWritten {
			pw = append(pw, p)
		}
		sort.Slice(pw, func(i, j int) bool { return len(pw[i]) < len(pw[j]) || (len(pw[i]) == len(pw[j]) && pw[i] < pw[j]) })
		unknown := len(af.Unknown) > 0 || len(af.FreeVarWrites) > 0
		fmt.Fprintf(&b, "def %s : Api :=\n  { name := %s, arity := %d, globalsWritten := %s, writesParams := [%s],\n    unknownWrites := %v, callsBack := %v, spawns := %v, globalsRead := %s, retains := %s,\n    exposesGlobals := %s }\n\n",
			af.LeanName, leanStr(af.Name), len(af.Params), leanStrList(gw), strings.Join(pw, ", "), unknown, len(af.Callbacks) > 0, len(af.Spawns) > 0, leanStrList(af.GlobalsRead), strings.ReplaceAll(fmt.Sprint(af.Retains), " ", ", "), leanStrList(af.Exposes))
	}
	b.WriteString("/-- every function of the module -/\ndef all : List Api := [\n")
	for i, af := range apis {
		sep := ","
		if i == len(apis)-1 {
			sep = ""
		}
		b.WriteString("  " + af.LeanName + sep + "\n")
	}
	b.WriteString("]\n\n")
	b.WriteString("/-- package-level variables: (name, number of store sites outside package initialisation) -/\n")
	b.WriteString("def globals : List (String × Nat) := [")
	for i, g := range gfacts {
		if i > 0 {
			b.WriteString(", ")
		}
		fmt.Fprintf(&b, "(%s, %d)", leanStr(g.Name), len(g.RuntimeStores))
	}
	b.WriteString("]\n\n")
	b.WriteString("/-- functions that can only run during package initialisation (excluded from `all`) -/\ndef initialisationOnly : List String := " + leanStrList(initNames.sorted()) + "\n\n")
	b.WriteString("/-- packages using sync.Pool (allowed: Get = memory owned by the caller until Put) -/\ndef syncPoolUsers : List String := " + leanStrList(poolUsers.sorted()) + "\n\n")
	b.WriteString("/-- imports of unsafe / reflect / sync/atomic / runtime / cgo, and uses of anything of package sync other than sync.Pool -/\ndef specialImports : List String := " + leanStrList(special.sorted()) + "\n\n")
	b.WriteString("/-- `go` statements in the module -/\ndef goStatements : List String := " + leanStrList(spawns.sorted()) + "\n\n")
	b.WriteString("/-- channel operations in the module: \"op channel-owner @site\" -/\ndef channelOps : List String := " + leanStrList(chans.sorted()) + "\n\n")
	foreign := []string{}
	for _, c := range chans.sorted() {
		f := strings.Fields(c)
		onlyParams := len(f) >= 2
		if onlyParams {
			for _, part := range strings.Split(f[1], "|") {
				if !strings.HasPrefix(part, "P(") {
					onlyParams = false
				}
			}
		}
		if !onlyParams {
			foreign = append(foreign, c)
		}
	}
	b.WriteString("/-- channel operations on channels that are not (only) a parameter of the enclosing function -/\ndef channelOpsNotOnParameter : List String := " + leanStrList(foreign) + "\n\n")
	b.WriteString("end Gen.Footprints\n")
	writeIfChanged(filepath.Join(gen, "Footprints.lean"), b.String())
	fmt.Printf("extract_fp: ok (%d functions analysed, %d api entries, %d package-level variables, %d go statements)\n", len(a.fns), len(apis), len(gfacts), len(spawns))
}
