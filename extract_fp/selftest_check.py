#!/usr/bin/env python3
"""Compare the facts extract_fp produced for the planted module extract_fp/selftest with selftest_expected.json."""
import json, sys
facts, exp = json.load(open(sys.argv[1])), json.load(open(sys.argv[2]))
fn = {a["name"]: a for a in facts["functions"]}
bad = []
for name, e in exp.items():
    if name == "#globals":
        g = {x["name"]: (1 if x["stores_outside_package_init"] else 0) for x in facts["package_level_variables"]}
        if g != e:
            bad.append("package-level variables written outside init: got %s want %s" % (g, e))
        continue
    if name == "#init_only":
        if facts["initialisation_only_functions"] != e:
            bad.append("initialisation-only functions: got %s want %s" % (facts["initialisation_only_functions"], e))
        continue
    if name == "#absent":
        for n in e:
            if n in fn:
                bad.append("%s must not be part of the run-time footprint (initialisation-only / build tag verif)" % n)
        continue
    if name == "#special":
        if facts["special_imports"] != e:
            bad.append("special imports: got %s want %s" % (facts["special_imports"], e))
        continue
    if name == "#pool_users":
        if facts["sync_pool_users"] != e:
            bad.append("sync.Pool users: got %s want %s" % (facts["sync_pool_users"], e))
        continue
    a = fn.get(name)
    if a is None:
        bad.append("%s: not reported" % name); continue
    got = dict(params=sorted(int(p) for p in a["params_written"]), globals=sorted(a["globals_written"]), reads=a["globals_read"],
               exposes=a["package_level_memory_handed_out"], retains=a["parameters_retained"], spawns=bool(a["go_statements"]),
               callback=bool(a["calls_function_values_from"]))
    if a["unknown_writes"]:
        bad.append("%s: unattributed stores %s" % (name, a["unknown_writes"]))
    for k, v in e.items():
        if got[k] != v:
            bad.append("%s: %s = %s, expected %s" % (name, k, got[k], v))
if bad:
    print("extract_fp SELF TEST FAILED (the translator no longer reports the planted footprints):")
    print("\n".join("  " + b for b in bad[:10]))
    sys.exit(1)
print("extract_fp self test: %d planted footprints reported as expected" % len([k for k in exp if not k.startswith("#")]))
