module fpselftest

go 1.12
