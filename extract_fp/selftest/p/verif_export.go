//go:build verif

package p

import "reflect"

// Hook files (verif_*.go, build tag verif) are not part of the library as shipped: extract_fp loads the module
// WITHOUT the tag, so this file - and its import of reflect - must not show up in the facts.
func VerifKind(x interface{}) reflect.Kind { return reflect.TypeOf(x).Kind() }
