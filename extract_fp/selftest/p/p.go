// Package p is the planted-footprint self test of extract_fp: every function has a known footprint
// (see ../../selftest_expected.json). It is analysed on every run of c19_extract.sh before the real module.
package p

import (
	"sort"
	"sync"
)

var table = []int{1, 2, 3}
var scratch []int
var memo = map[int]int{}
var defaultT = &T{}

type T struct {
	xs    []int
	n     int
	cache *int
}

func (t *T) ReadOnly(i int) int { return t.xs[i] + table[0] }

func (t *T) WritesRecv() { t.n++ }

func (t *T) AppendsRecv(x int) []int { return append(t.xs, x) }

func (t *T) ViaHelper() { t.helper() }

func (t *T) helper() { *t.cache = 1 }

func (t T) ValueRecvWritesCopy() int { t.n = 5; return t.n }

func (t T) ValueRecvWritesShared() { t.xs[0] = 5 }

func UsesScratch(x []int) int {
	scratch = append(scratch[:0], x...)
	return len(scratch)
}

func Memo(n int) int {
	if v, ok := memo[n]; ok {
		return v
	}
	memo[n] = n
	return n
}

func ReadsTable(i int) int { return table[i] }

func AliasGlobal() []int { return table }

func WritesViaAlias() {
	t := table
	t[0] = 9
}

func WritesViaCallee() { WritesArg(AliasGlobal()) }

func Fresh(n int) []int {
	r := make([]int, n)
	for i := range r {
		r[i] = i
	}
	return r
}

func WritesArg(buf []int) { buf[0] = 1 }

func CopyArg(dst, src []int) { copy(dst, src) }

type I interface{ M() }

type A struct{ v int }

func (a *A) M() { a.v++ }

type B struct{}

func (B) M() {}

func CallsIface(i I) { i.M() }

func Closure(x []int) {
	f := func() { x[0] = 1 }
	f()
}

func ClosureViaSort(x []int, n int) int {
	return sort.Search(n, func(i int) bool { x[0] = i; return true })
}

func SortsArg(x []int) { sort.Ints(x) }

func SortsCopy(x []int) []int {
	y := append([]int(nil), x...)
	sort.Ints(y)
	return y
}

func Spawns(c chan int) {
	go func() { c <- 1 }()
}

func Callback(f func(int) int) int { return f(1) }

func Keeps(x []int) *T { return &T{xs: x} }

func KeepsInArg(t *T, x []int) { t.xs = x }

func DefaultStorage(t *T) {
	if t == nil {
		t = defaultT
	}
	t.n++
}

func HandsOutGlobal() *T { return &T{xs: scratch} }

func FreshThenWrite() *T {
	t := &T{xs: make([]int, 3)}
	t.xs[0] = 1
	t.n = 2
	return t
}

func WritesSecondOnly(a, b []int) int {
	b[0] = a[0]
	return a[0]
}

func OwnChannel() int {
	c := make(chan int, 1)
	c <- 1
	return <-c
}

// ---- package initialisation ----------------------------------------------------------------------------

// initTable is filled once by init() (through a helper only init calls) and only read afterwards: not a
// write to shared state.
var initTable [8]int

// initTable2 is filled by init() too, but ALSO written by an exported function and by a helper that an
// exported function shares with init: flagged.
var initTable2 [8]int

var built = buildSlice(4)

func init() {
	for i := range initTable {
		initTable[i] = i * i
	}
	fillRest()
	fill2()
}

func fillRest() { initTable[7] = 49 }

func fill2() { initTable2[1] = 1 }

func buildSlice(n int) []int {
	r := make([]int, n)
	r[0] = initTable[0]
	return r
}

func ReadsInitTable(i int) int { return initTable[i] + built[0] }

func ResetTable2() { initTable2[0] = 0 }

func Refill2() { fill2() }

// ---- sync.Pool (allowed) and a hand-rolled synchronised cache (stays flagged) ------------------------------

var pool = sync.Pool{New: func() interface{} { return new(T) }}

func UsesPool(x int) int {
	t := pool.Get().(*T)
	t.n = x
	t.xs = append(t.xs[:0], x)
	n := t.n + len(t.xs)
	pool.Put(t)
	return n
}

var mu sync.Mutex
var cache = map[int]int{}

func Cached(n int) int {
	mu.Lock()
	defer mu.Unlock()
	if v, ok := cache[n]; ok {
		return v
	}
	cache[n] = n * n
	return n * n
}
