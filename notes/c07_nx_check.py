import sys, binascii
import networkx as nx
ops=open('.build/run/C07/ops.txt').read().split('\n')
rep=open('.build/run/C07/model.txt').read().split('\n')
def graph(toks):
    n=int(toks[0]); m=int(toks[1]); G=nx.Graph(); G.add_nodes_from(range(n))
    for i in range(m):
        u,v=int(toks[2+2*i]),int(toks[3+2*i])
        if u!=v and u<n and v<n: G.add_edge(u,v)
    return G
cnt={'fmt':0,'s6':0,'g6':0,'s6same':0}
bad=0
for op,r in zip(ops,rep):
    t=op.split(' ')
    if t[0] not in ('fmt','s6','g6'): continue
    n=int(t[1])
    if n>300: continue
    G=graph(t[1:])
    f=dict(x.split('=',1) for x in r.split(' ') if '=' in x and x.split('=')[0] in ('hex','g6'))
    if t[0]=='fmt':
        want=nx.to_graph6_bytes(G,header=False).strip()
        got=binascii.unhexlify(f['g6']) if f['g6']!='-' else b''
        if want!=got: bad+=1; print('G6SPEC MISMATCH',op[:80],want,got)
        cnt['fmt']+=1
    elif t[0]=='g6':
        want=nx.to_graph6_bytes(G,header=False).strip()
        got=binascii.unhexlify(f['hex'])
        if want!=got: bad+=1; print('G6 MISMATCH',op[:80],want,got)
        H=nx.from_graph6_bytes(got)
        if set(map(frozenset,H.edges()))!=set(map(frozenset,G.edges())) or H.number_of_nodes()!=n: bad+=1; print('G6 READ MISMATCH',op[:80])
        cnt['g6']+=1
    else:
        got=binascii.unhexlify(f['hex'])
        H=nx.from_sparse6_bytes(got)
        if H.number_of_nodes()!=n or sorted(map(sorted,H.edges()))!=sorted(map(sorted,G.edges())) or nx.number_of_selfloops(H)>0:
            bad+=1; print('S6 READ MISMATCH',op[:80],got,sorted(H.edges()))
        w=nx.to_sparse6_bytes(G,header=False).strip()
        cnt['s6']+=1
        if w==got: cnt['s6same']+=1
        elif cnt['s6']-cnt['s6same']<=3: print('note: networkx writes',w,'mamba writes',got)
print(cnt,'bad=',bad)
