#!/bin/sh
# C19, static obligation: regenerate the write footprints from the Go source tree and re-check the
# instantiation of the footprint theorem against them.
#
#   1. build verif/extract_fp (go/packages + go/ssa, x/tools v0.29.0 from the module cache, offline)
#      and self-test it on extract_fp/selftest (a module with planted footprints, selftest_expected.json)
#   2. run it on $VERIF_REPO (default /repo): lean/Mamba/Gen/Footprints.lean + .build/c19_facts.json
#   3. lake build Mamba.Props.C19Fp   (the `decide` obligations over the generated facts)
#   4. #print axioms of every theorem of Props/C19Fp.lean; forbidden-token scan of the file
# Exit 0 = all obligations discharged. Non-zero = a footprint changed so that an obligation no longer checks
# (stdout says which function now writes what, with the store sites found by the extractor).
# Run from verif/ (the `check` driver runs extra_cmds with cwd = verif/ and the Go environment set).
set -u
ROOT="$(cd "$(dirname "$0")" && pwd)"
REPO="${VERIF_REPO:-/repo}"
BUILD="$ROOT/.build"
export GOFLAGS=-mod=mod GOPROXY=off GOSUMDB=off GOTOOLCHAIN=local
export GOCACHE="${GOCACHE:-$BUILD/gocache}"
mkdir -p "$BUILD"
( cd "$ROOT/extract_fp" && go build -o "$BUILD/extract_fp" . ) || { echo "extract_fp does not build"; exit 2; }
# self test of the translator on a module with planted footprints
mkdir -p "$BUILD/fp_selftest"
"$BUILD/extract_fp" "$ROOT/extract_fp/selftest" "$BUILD/fp_selftest" "$BUILD/fp_selftest/facts.json" > /dev/null || { echo "extract_fp failed on its self-test module"; exit 2; }
python3 "$ROOT/extract_fp/selftest_check.py" "$BUILD/fp_selftest/facts.json" "$ROOT/extract_fp/selftest_expected.json" || exit 2
"$BUILD/extract_fp" "$REPO" "$ROOT/lean/Mamba/Gen" "$BUILD/c19_facts.json" || { echo "extract_fp failed on $REPO"; exit 2; }
cd "$ROOT/lean"
if ! lake build Mamba.Props.C19Fp > "$BUILD/c19_fp_build.log" 2>&1; then
  echo "FOOTPRINT OBLIGATION BROKEN: lake build Mamba.Props.C19Fp failed against the footprints extracted from $REPO"
  python3 - "$BUILD/c19_fp_build.log" "$ROOT/lean/Mamba/Props/C19Fp.lean" <<'PY'
import re, sys
log, src = open(sys.argv[1]).read(), open(sys.argv[2]).read().split("\n")
names = []
for m in re.finditer(r"error: [^\n]*C19Fp\.lean:(\d+):\d+: ([^\n]*)", log):
    ln = int(m.group(1))
    thm = next((re.match(r"\s*theorem\s+(\S+)", src[i]).group(1) for i in range(min(ln, len(src)) - 1, -1, -1) if re.match(r"\s*theorem\s+", src[i])), "?")
    if thm not in names:
        names.append(thm)
other = [l for l in re.findall(r"error: ([^\n]*)", log) if "C19Fp.lean" not in l][:2]
print("  theorems of Props/C19Fp.lean that no longer check: " + (", ".join(names) or "-") + ("; other errors: " + "; ".join(other)[:300] if other and not names else ""))
PY
  python3 "$ROOT/c19_explain.py" "$BUILD/c19_facts.json"
  exit 1
fi
# axiom audit of the Gen-dependent theorems
mkdir -p "$BUILD/audit"
python3 - "$ROOT" > "$BUILD/audit/C19Fp.lean" <<'PY'
import re, sys
root = sys.argv[1]
src = open(root + "/lean/Mamba/Props/C19Fp.lean").read()
src = re.sub(r"/-.*?-/", "", src, flags=re.S)
src = re.sub(r"--.*", "", src)
bad = re.findall(r"\bsorry\b|\badmit\b|^\s*axiom\s|native_decide|bv_decide|implemented_by|\bunsafe\s|maxHeartbeats\s+0\b", src, flags=re.M)
print("import Mamba.Props.C19Fp")
for b in bad:
    print("#eval (panic! \"forbidden token %s\" : Nat)" % b.strip())
for m in re.finditer(r"^\s*theorem\s+([^\s:({\[]+)", src, flags=re.M):
    print("#print axioms C19Fp." + m.group(1))
PY
OUT="$(lake env lean "$BUILD/audit/C19Fp.lean" 2>&1)" || { echo "C19Fp audit failed: $OUT"; exit 1; }
echo "$OUT" | python3 -c '
import re, sys
out = sys.stdin.read()
ok = {"propext", "Classical.choice", "Quot.sound"}
n = 0
for m in re.finditer(r"\x27([^\x27]+)\x27 (does not depend on any axioms|depends on axioms: \[([^\]]*)\])", out):
    n += 1
    ax = [a.strip() for a in (m.group(3) or "").replace("\n", " ").split(",") if a.strip()]
    bad = [a for a in ax if a not in ok]
    if bad:
        print("theorem %s depends on non-standard axioms %s" % (m.group(1), bad)); sys.exit(1)
if n == 0 or "forbidden token" in out:
    print("C19Fp audit: no axiom report / forbidden token: " + out[-400:]); sys.exit(1)
print("c19_extract: footprints regenerated, %d Gen-dependent theorems of Props/C19Fp.lean re-checked" % n)
'
