#!/usr/bin/env python3
"""Explain a broken C19 footprint obligation from the extractor's facts file (kept short: ./check shows only the
last 1500 characters): which package-level variable is written, which query writes through a shared
parameter, what is unattributed; each with the store sites the extractor found."""
import json, sys
f = json.load(open(sys.argv[1]))
out = []
def names(l, n=4):
    return ", ".join(l[:n]) + (" and %d more" % (len(l) - n) if len(l) > n else "")
# package-level variables
for g in f["package_level_variables"]:
    writers = [a["name"] for a in f["functions"] if g["name"] in a["globals_written"]]
    sites = g["stores_outside_package_init"]
    if not sites:
        for a in f["functions"]:
            sites = sites or a["globals_written"].get(g["name"], [])
    if sites or writers:
        out.append("package-level variable %s (%s, %s) is written after package initialisation at %s; reachable from %d functions: %s" %
                   (g["name"], g["type"], g["pos"], "; ".join(sites[:3]), len(writers), names(writers)))
for g in f["package_level_variables"]:
    ex = [a["name"] for a in f["functions"] if g["name"] in a.get("package_level_memory_handed_out", [])]
    if ex:
        out.append("memory of package-level variable %s is handed out (result / argument) by %s: stores into those values are stores into package-level memory" % (g["name"], names(ex)))
un = [a for a in f["functions"] if a["unknown_writes"] or a.get("free_var_writes")]
if un:
    a = un[0]
    why = list(a["unknown_writes"].items())[:1]
    out.append("%d functions have stores the analysis cannot attribute, e.g. %s: %s" % (len(un), a["name"], why))
sp = [a for a in f["functions"] if a["go_statements"]]
if sp:
    out.append("go statements reachable from %s: %s" % (names([a["name"] for a in sp]), "; ".join(sp[0]["go_statements"][:2])))
# read-only queries of the property writing through a parameter
QUERY = ["(*dawg.Dawg).Lookup", "(*dawg.Dawg).NumberOfWords", "(*dawg.Dawg).GobEncode", "(*dawg.Dawg).Search", "graph.CanonicalIsomorph",
         "graph.CanonicalIsomorphFull", "graph.AllMaximalCliques", "graph.CliqueNumber", "ints.Equal", "ints.HasPrefix", "ints.Compare",
         "ints.Max", "ints.Min", "ints.Sum", "comb.Rank", "graph.Graph6Encode", "graph.Sparse6Encode", "graph.Equal"]
PREFIX = ["(graph.DenseGraph).", "(graph.SparseGraph).", "(graph.complement).", "(graph.inducedSubgraph).", "sortints."]
for a in f["functions"]:
    isq = a["name"] in QUERY or any(a["name"].startswith(p) for p in PREFIX)
    if not isq:
        continue
    for p, w in sorted(a["params_written"].items()):
        if a["name"] == "(*dawg.Dawg).Search" and p == "1":
            continue  # the searchers belong to the caller
        pn = a["params"][int(p)] if int(p) < len(a["params"]) else "?"
        out.append("read-only query %s may store through parameter %s (%s): %s" % (a["name"], p, pn, "; ".join(w[:3])))
text = "\n".join("  " + o for o in out[:7])
if len(out) > 7:
    text += "\n  ... %d more findings in .build/c19_facts.json" % (len(out) - 7)
print(text[:1250])
