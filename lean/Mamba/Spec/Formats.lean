import Mamba.Spec.Graph
/-!
# graph6 and sparse6 as published (formats.txt, B. McKay) — core Lean only

Transcription of https://users.cecs.anu.edu.au/~bdm/data/formats.txt :

* `R x`   : a bit vector is padded on the right with 0 to a multiple of 6, split into groups of 6 bits,
            each group read as a big-endian number 0..63, and 63 is added (bytes 63..126).
* `Nn n`  : `n+63` for 0 ≤ n ≤ 62; `126 R(x)` with x the big-endian 18-bit form of n for 63 ≤ n ≤ 258047;
            `126 126 R(x)` with x the big-endian 36-bit form of n for 258048 ≤ n ≤ 68719476735.
* graph6  : `N(n) R(x)`, x = upper triangle of the adjacency matrix in the order
            (0,1),(0,2),(1,2),(0,3),(1,3),(2,3),...,(n-2,n-1).
* sparse6 : `':' N(n)` then, with k = number of bits needed to represent n-1, the sequence
            `b[0] x[0] b[1] x[1] ...` (1 + k bits each) packed big-endian, padded to a multiple of 6 by the
            padding rule (`s6PadBits`), 6 bits per byte as in `R`. Reader:
            `v = 0; for each (b,x): if b = 1 then v = v+1; if x > v then v = x else output {x,v}`;
            an incomplete `(b,x)` pair at the end is discarded. Readers (nauty `stringtograph`, networkx)
            stop when the vertex pointer reaches `n`: such a group can only be padding.
            Loops and multiple edges are representable, so the reader returns an edge *list*.

Byte strings are `List Nat`. Everything here is executable (the driver does not run it; the harness has its own
Go transcription that is run on the implementation's output) and is what `Props/C07.lean` states conformance to.
-/
namespace Formats
open GraphSpec

/-- six bits, most significant first -/
def val6 (a b c d e f : Bool) : Nat :=
  32 * a.toNat + 16 * b.toNat + 8 * c.toNat + 4 * d.toNat + 2 * e.toNat + f.toNat

/-- `R(x)` -/
def R : List Bool → List Nat
  | a :: b :: c :: d :: e :: f :: rest => (val6 a b c d e f + 63) :: R rest
  | [] => []
  | [a] => [val6 a false false false false false + 63]
  | [a, b] => [val6 a b false false false false + 63]
  | [a, b, c] => [val6 a b c false false false + 63]
  | [a, b, c, d] => [val6 a b c d false false + 63]
  | [a, b, c, d, e] => [val6 a b c d e false + 63]

/-- the six bits of a number 0..63, most significant first -/
def bits6 (x : Nat) : List Bool :=
  [x / 32 % 2 == 1, x / 16 % 2 == 1, x / 8 % 2 == 1, x / 4 % 2 == 1, x / 2 % 2 == 1, x % 2 == 1]

/-- the bit stream carried by a sequence of bytes 63..126 -/
def unR (l : List Nat) : List Bool := l.flatMap fun c => bits6 (c - 63)

/-- `N(n)` (n ≤ 68719476735) -/
def Nn (n : Nat) : List Nat :=
  if n ≤ 62 then [n + 63]
  else if n ≤ 258047 then [126, n / 4096 % 64 + 63, n / 64 % 64 + 63, n % 64 + 63]
  else [126, 126, n / 1073741824 % 64 + 63, n / 16777216 % 64 + 63, n / 262144 % 64 + 63,
        n / 4096 % 64 + 63, n / 64 % 64 + 63, n % 64 + 63]

/-- reading `N(n)` from the front of a string of bytes 63..126: value and the rest -/
def readN : List Nat → Option (Nat × List Nat)
  | [] => none
  | a :: rest =>
    if a ≠ 126 then some (a - 63, rest)
    else match rest with
      | b :: c :: d :: r3 =>
        if b ≠ 126 then some ((b - 63) * 4096 + (c - 63) * 64 + (d - 63), r3)
        else match r3 with
          | e :: f :: g :: h :: r7 =>
            some ((c - 63) * 1073741824 + (d - 63) * 16777216 + (e - 63) * 262144 + (f - 63) * 4096
                  + (g - 63) * 64 + (h - 63), r7)
          | _ => none
      | _ => none

def inRange (s : List Nat) : Bool := s.all fun c => 63 ≤ c && c ≤ 126

/-- the optional header `>>graph6<<` -/
def g6Header : List Nat := [62, 62, 103, 114, 97, 112, 104, 54, 60, 60]
/-- the optional header `>>sparse6<<` -/
def s6Header : List Nat := [62, 62, 115, 112, 97, 114, 115, 101, 54, 60, 60]

/-! ## graph6 -/

/-- the upper triangle in the order (0,1),(0,2),(1,2),(0,3),... -/
def g6Bits (g : G) : List Bool :=
  (List.range g.n).flatMap fun j => (List.range j).map fun i => g.adj i j

/-- the graph6 string of `g` -/
def g6Spec (g : G) : List Nat := Nn g.n ++ R (g6Bits g)

/-- graph on `n` vertices whose upper triangle is the bit vector `bits` -/
def ofUpper (n : Nat) (bits : List Bool) : G :=
  { n := n
    adj := fun u v => u < n && v < n &&
      ((u < v && bits[v * (v - 1) / 2 + u]? == some true) || (v < u && bits[u * (u - 1) / 2 + v]? == some true)) }

/-- a reader of graph6: bytes in range, size header, exactly the number of bytes the triangle needs -/
def g6DecodeSpec (s : List Nat) : Option G :=
  if !inRange s then none else
  match readN s with
  | none => none
  | some (n, rest) =>
    if rest.length = (n * (n - 1) / 2 + 5) / 6 then some (ofUpper n ((unR rest).take (n * (n - 1) / 2)))
    else none

/-- `s` is *the* graph6 string of the graph it reads as (minimal header, zero padding) -/
def g6Valid (s : List Nat) : Bool :=
  match g6DecodeSpec s with
  | some g => g6Spec g == s
  | none => false

/-! ## sparse6 -/

/-- number of bits needed to represent `x` in binary (0 for 0) -/
def bitLen (x : Nat) : Nat := if x = 0 then 0 else x.log2 + 1

/-- big-endian value of a bit vector -/
def bitsToNat (bs : List Bool) : Nat := bs.foldl (fun a b => 2 * a + b.toNat) 0

/-- the `k`-bit big-endian form of `x` -/
def natToBits (k x : Nat) : List Bool := (List.range k).map fun j => x / 2 ^ (k - 1 - j) % 2 == 1

/-- The reader on a bit stream: `g` complete groups of `1 + k` bits remain; `v` is the vertex pointer. -/
def s6Read (n k : Nat) : Nat → Nat → List Bool → List (Nat × Nat)
  | 0, _, _ => []
  | g + 1, v, bits =>
    let b := bits.headD false
    let x := bitsToNat ((bits.drop 1).take k)
    let v := if b then v + 1 else v
    if v ≥ n then []
    else if x > v then s6Read n k g x (bits.drop (k + 1))
    else (x, v) :: s6Read n k g v (bits.drop (k + 1))

/-- a reader of sparse6: `':'`, bytes in range, size header, then the `(b,x)` stream; returns `n` and the edge
list `{x,v}` (`x ≤ v`) in stream order, loops and repetitions included -/
def s6DecodeSpec (s : List Nat) : Option (Nat × List (Nat × Nat)) :=
  match s with
  | 58 :: t =>
    if !inRange t then none else
    match readN t with
    | none => none
    | some (n, rest) =>
      let k := bitLen (n - 1)
      let bits := unR rest
      some (n, s6Read n k (bits.length / (k + 1)) 0 bits)
  | _ => none

/-- The padding a writer must append to a stream of `len` bits for graph `g` (rules 1 and 2 of formats.txt). -/
def s6PadBits (g : G) (len : Nat) : List Bool :=
  let k := bitLen (g.n - 1)
  let p := (6 - len % 6) % 6
  if (g.n == 2 || g.n == 4 || g.n == 8 || g.n == 16) && g.deg (g.n - 2) > 0 && g.deg (g.n - 1) == 0 && p ≥ k + 1
  then false :: List.replicate (p - 1) true
  else List.replicate p true

end Formats
