import Mamba.Proto
/-!
# Shared abstract simple graphs (core Lean only)

`G` is the plain adjacency-relation model of a finite loop-free undirected graph on `0..n-1` that the
properties talk about ("a plain adjacency-set model"). All executable specifications (`Spec/*`) and the
abstraction functions of the faithful models (`Model/*`) target this type.

Line protocol encoding of a graph:  `n m u1 v1 ... um vm`  (m edges, each as two tokens).
-/
namespace GraphSpec

structure G where
  n : Nat
  adj : Nat → Nat → Bool

/-- well-formedness: symmetric, loop-free, supported on `0..n-1` -/
structure G.WF (g : G) : Prop where
  symm : ∀ u v, g.adj u v = g.adj v u
  irrefl : ∀ v, g.adj v v = false
  supp : ∀ u v, g.adj u v = true → u < g.n ∧ v < g.n

/-- graph on `n` vertices with the given edges (pairs in any orientation; loops and out-of-range pairs ignored) -/
def ofEdges (n : Nat) (es : List (Nat × Nat)) : G :=
  { n := n
    adj := fun u v => u != v && u < n && v < n && (es.contains (u, v) || es.contains (v, u)) }

/-- edges `(u, v)` with `u < v`, in the order 01, 02, 12, 03, 13, 23, ... (the order of mamba's DenseGraph) -/
def G.edges (g : G) : List (Nat × Nat) :=
  (List.range g.n).flatMap fun v => ((List.range v).filter fun u => g.adj u v).map fun u => (u, v)

def G.nbrs (g : G) (v : Nat) : List Nat := (List.range g.n).filter fun u => g.adj v u
def G.deg (g : G) (v : Nat) : Nat := (g.nbrs v).length
def G.degrees (g : G) : List Nat := (List.range g.n).map g.deg
def G.m (g : G) : Nat := g.edges.length

/-- `InducedSubgraph(V)` / relabelling: vertex `i` of the result is vertex `V[i]` of `g` -/
def G.induced (g : G) (V : List Nat) : G :=
  { n := V.length
    adj := fun i j => i < V.length && j < V.length && g.adj (V.getD i 0) (V.getD j 0) }

def G.complement (g : G) : G :=
  { n := g.n, adj := fun u v => u != v && u < g.n && v < g.n && !g.adj u v }

/-- extensional equality on the vertex range (decidable, executable) -/
def G.beq (g h : G) : Bool :=
  g.n == h.n && (List.range g.n).all fun u => (List.range g.n).all fun v => g.adj u v == h.adj u v

def showEdges (es : List (Nat × Nat)) : String :=
  " ".intercalate (es.map fun (u, v) => toString u ++ "-" ++ toString v)

/-- canonical printed form: `n=<n> m=<m> edges=u-v ...` -/
def G.show (g : G) : String :=
  "n=" ++ toString g.n ++ " m=" ++ toString g.m ++ " e=" ++ showEdges g.edges

/-- parse `n m u1 v1 ... um vm` from the front of a token list -/
def parse (toks : List String) : Option (G × List String) :=
  match toks with
  | n :: m :: rest =>
    match n.toNat?, m.toNat? with
    | some n, some m =>
      let rec pairs : Nat → List String → List (Nat × Nat) → Option (List (Nat × Nat) × List String)
        | 0, r, acc => some (acc.reverse, r)
        | k+1, u :: v :: r, acc =>
          match u.toNat?, v.toNat? with
          | some u, some v => pairs k r ((u, v) :: acc)
          | _, _ => none
        | _, _, _ => none
      match pairs m rest [] with
      | some (es, r) => some (ofEdges n es, r)
      | none => none
    | _, _ => none
  | _ => none

theorem ofEdges_wf (n : Nat) (es : List (Nat × Nat)) : (ofEdges n es).WF where
  symm := by
    intro u v
    simp only [ofEdges]
    cases hu : decide (u < n) <;> cases hv : decide (v < n) <;>
      cases h1 : es.contains (u, v) <;> cases h2 : es.contains (v, u) <;>
      cases h3 : (u != v) <;> simp_all [bne_comm]
  irrefl := by intro v; simp [ofEdges]
  supp := by
    intro u v h
    simp only [ofEdges, Bool.and_eq_true, decide_eq_true_eq] at h
    exact ⟨h.1.1.2, h.1.2⟩

end GraphSpec
