import Mamba.Model.Tsp
/-!
# Reading a TSPLIB file back (specification side of C20)

An independent, deliberately naive reader: cut the bytes into lines at `\n`, cut every line into fields at
blanks (empty fields dropped).  `expected n w` is what a well formed, faithful `LOWER_DIAG_ROW` file for `n`
cities and weights `w` must read back as: the header lines with `DIMENSION: n`, then for `i = 0 … n-1` the row
`w(i,0) … w(i,i-1) 0`, then `EOF`, then nothing (the empty piece after the final line break).  The header and
trailer keywords are the string literals of the Go source (regenerated into `Gen/TspConsts.lean` on every run);
`expectedHeader_tokens` / `expectedTrailer_tokens` in `Props/C20.lean` pin them to the TSPLIB keywords.
-/
namespace Tsp

/-- split at every `sep` (as `strings.Split`); `acc` is the current piece, reversed -/
def splitAux (sep : Char) : List Char → List Char → List (List Char)
  | [], acc => [acc.reverse]
  | c :: cs, acc => if c = sep then acc.reverse :: splitAux sep cs [] else splitAux sep cs (c :: acc)

def splitOn (sep : Char) (l : List Char) : List (List Char) := splitAux sep l []

def lines (o : List Char) : List (List Char) := splitOn '\n' o

def fields (l : List Char) : List (List Char) := (splitOn ' ' l).filter (fun p => !p.isEmpty)

def parse (o : List Char) : List (List (List Char)) := (lines o).map fields

/-- the text `LIB` writes before the weight section, from the string literals regenerated from `tsp/tsplib.go`
(`hdrBeforeN`, `hdrAfterN` = `Gen.Tsp.hdrBeforeN`, `Gen.Tsp.hdrAfterN`: the concatenation of everything written before the weights, split at
the `%d` of the dimension) -/
def headerText (n : Nat) : List Char := hdrBeforeN.toList ++ (decNat n ++ hdrAfterN.toList)

/-- the text written after the weight section (regenerated) -/
def trailerText : List Char := (trailerLits.map String.toList).flatten

/-- the header lines as they read back (the piece after the last line break is dropped).  For the current source
this is `TYPE: TSP`, `DIMENSION: n`, … `EDGE_WEIGHT_SECTION` — theorem `expectedHeader_tokens` in `Props/C20.lean`,
which stops compiling when a keyword of the header changes. -/
def expectedHeader (n : Nat) : List (List (List Char)) := ((lines (headerText n)).dropLast).map fields

def expectedRow (w : Nat → Nat → Int) (i : Nat) : List (List Char) :=
  (List.range i).map (fun j => decInt (w i j)) ++ [['0']]

def expected (n : Nat) (w : Nat → Nat → Int) : List (List (List Char)) :=
  expectedHeader n ++ (List.range n).map (expectedRow w) ++ (lines trailerText).map fields

/-- value of a string of decimal digits (for the statement that `decNat` is the decimal numeral) -/
def digitsValue (l : List Char) : Nat := l.foldl (fun a c => 10 * a + (c.toNat - '0'.toNat)) 0

end Tsp
