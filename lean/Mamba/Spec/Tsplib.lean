import Mamba.Model.Tsp
/-!
# Reading a TSPLIB file back (specification side of C20)

An independent, deliberately naive reader: cut the bytes into lines at `\n`, cut every line into fields at
blanks (empty fields dropped).  `expected n w` is what a well formed, faithful `LOWER_DIAG_ROW` file for `n`
cities and weights `w` must read back as: the six header lines with `DIMENSION: n`, then for `i = 0 … n-1` the row
`w(i,0) … w(i,i-1) 0`, then `EOF`, then nothing (the empty piece after the final line break).
-/
namespace Tsp

/-- split at every `sep` (as `strings.Split`); `acc` is the current piece, reversed -/
def splitAux (sep : Char) : List Char → List Char → List (List Char)
  | [], acc => [acc.reverse]
  | c :: cs, acc => if c = sep then acc.reverse :: splitAux sep cs [] else splitAux sep cs (c :: acc)

def splitOn (sep : Char) (l : List Char) : List (List Char) := splitAux sep l []

def lines (o : List Char) : List (List Char) := splitOn '\n' o

def fields (l : List Char) : List (List Char) := (splitOn ' ' l).filter (fun p => !p.isEmpty)

def parse (o : List Char) : List (List (List Char)) := (lines o).map fields

def expectedHeader (n : Nat) : List (List (List Char)) :=
  [["TYPE:".toList, "TSP".toList],
   ["DIMENSION:".toList, decNat n],
   ["DISPLAY_DATA_TYPE:".toList, "NO_DISPLAY".toList],
   ["EDGE_WEIGHT_TYPE:".toList, "EXPLICIT".toList],
   ["EDGE_WEIGHT_FORMAT:".toList, "LOWER_DIAG_ROW".toList],
   ["EDGE_WEIGHT_SECTION".toList]]

def expectedRow (w : Nat → Nat → Int) (i : Nat) : List (List Char) :=
  (List.range i).map (fun j => decInt (w i j)) ++ [['0']]

def expected (n : Nat) (w : Nat → Nat → Int) : List (List (List Char)) :=
  expectedHeader n ++ (List.range n).map (expectedRow w) ++ [["EOF".toList], []]

/-- value of a string of decimal digits (for the statement that `decNat` is the decimal numeral) -/
def digitsValue (l : List Char) : Nat := l.foldl (fun a c => 10 * a + (c.toNat - '0'.toNat)) 0

end Tsp
