import Mamba.Model.DawgGob
/-! Mathematical notions used by the C12 / C14 theorems: reachability in a heap, well-formed automata,
id-preserving isomorphism. -/
namespace Dawg

/-- nodes reachable from `r` by following links -/
inductive Reach (h : Heap) (r : Nat) : Nat → Prop where
  | root : Reach h r r
  | step {p q : Nat} {n : Node} : Reach h r p → h[p]? = some n → q ∈ n.links → Reach h r q

/-- What `GobEncode` needs of an automaton (every automaton returned by `Finish` or by a successful round trip
has these properties): no dangling pointers, as many labels as links, distinct ids, the root carries the smallest
id and has no incoming link, and all numbers fit in 64 bits. -/
structure WF (d : Dawg) : Prop where
  closed : ∀ p, Reach d.heap d.root p → ∃ n, d.heap[p]? = some n
  lens : ∀ p n, Reach d.heap d.root p → d.heap[p]? = some n → n.labels.length = n.links.length
  idInj : ∀ p q np nq, Reach d.heap d.root p → Reach d.heap d.root q →
    d.heap[p]? = some np → d.heap[q]? = some nq → np.id = nq.id → p = q
  rootMin : ∀ p np nr, Reach d.heap d.root p → p ≠ d.root → d.heap[p]? = some np → d.heap[d.root]? = some nr →
    nr.id < np.id
  noBack : ∀ p n, Reach d.heap d.root p → d.heap[p]? = some n → d.root ∉ n.links
  small : ∀ p n, Reach d.heap d.root p → d.heap[p]? = some n → n.id < 2 ^ 64 ∧ n.numWords < 2 ^ 64 ∧ n.labels.length < 2 ^ 64
  size : d.heap.size < 2 ^ 64

/-- `d'` is `d` with its reachable nodes moved to other heap positions by `φ`; ids, counts, finals and labels are
unchanged and links follow `φ`. -/
def IsoVia (φ : Nat → Nat) (d d' : Dawg) : Prop :=
  φ d.root = d'.root ∧
  ∀ p, Reach d.heap d.root p → ∃ n, d.heap[p]? = some n ∧ d'.heap[φ p]? = some { n with links := n.links.map φ }

def Iso (d d' : Dawg) : Prop := ∃ φ, IsoVia φ d d'

end Dawg
