import Std.Data.HashSet
import Mamba.Spec.Graph
/-!
# Graph minors and planarity (property C11) — core Lean only

The property says: `IsPlanar` returns true exactly when the graph *has no K5 or K3,3 minor*.

Two formulations of "H is a minor of g" are given here and proved equivalent in `Lemmas/Minor*.lean`
(`Minor.hasMinor_iff_ops`):

* `OpsMinor g H` — the textbook operations form the property refers to: H is isomorphic to a graph
  obtained from g by a finite sequence of vertex deletions, edge deletions and edge contractions;
* `HasMinor g H` — the branch-set form: pairwise disjoint, non-empty, connected vertex sets
  `B_h ⊆ V(g)` (`h ∈ V(H)`) with an edge of g between `B_h` and `B_h'` whenever `hh' ∈ E(H)`.
  The sets are given by an assignment `f : V(g) → ℕ` (`f v = h < |H|`: `v ∈ B_h`; `f v ≥ |H|`: unused).

`HasMinor` is the working definition (the executable procedures produce / check assignments).

Working graphs `PG` keep the vertex names of the input and mark deleted vertices as dead (`al v = false`),
so that deletions and contractions need no renumbering.

Executable:
* `hasMinorExec g H` — decision procedure for small g: search over sequences of vertex deletions and
  edge contractions (vertices removed in decreasing order) down to `|H|` live vertices, then a backtracking
  test for "H is a spanning subgraph under some bijection". Theorem `Minor.hasMinorExec_iff`.
* `isMinorCert cert g H` — certificate checker usable at any size: `cert[v]` is the branch set of `v`
  (any value `≥ |H|`, or a missing entry, means unused). Theorem `Minor.isMinorCert_sound`.
* `planarExec g` — `¬K5-minor ∧ ¬K33-minor` through `hasMinorExec`.
* `isPlanarEmbeddingCert` — rotation-system checker with Euler's formula (NOT verified against the minor
  definition: that would be the Kuratowski–Wagner theorem; used only as a cross-check of the generators,
  see notes/C11.md).
-/
namespace Minor
open GraphSpec

/-- working graph: the vertices are the `v < n` with `al v = true` -/
structure PG where
  n : Nat
  al : Nat → Bool
  adj : Nat → Nat → Bool

/-- the simple undirected graph underlying `g` (symmetric closure; only pairs below `g.n` matter) -/
def ofG (g : G) : PG := ⟨g.n, fun _ => true, fun u v => g.adj u v || g.adj v u⟩

/-- `v` is a (live) vertex of `p` -/
def PG.V (p : PG) (v : Nat) : Prop := v < p.n ∧ p.al v = true

instance (p : PG) (v : Nat) : Decidable (p.V v) := by unfold PG.V; infer_instance

/-- `Conn p f c u w`: there is a path from `u` to `w` all of whose vertices are live and lie in class `c` of `f` -/
inductive PG.Conn (p : PG) (f : Nat → Nat) (c : Nat) : Nat → Nat → Prop
  | refl {v : Nat} : p.V v → f v = c → PG.Conn p f c v v
  | step {u v w : Nat} : p.V u → f u = c → p.adj u v = true → PG.Conn p f c v w → PG.Conn p f c u w

/-- `f` describes branch sets of a model of `H` in `p` -/
structure IsModel (p : PG) (H : G) (f : Nat → Nat) : Prop where
  nonempty : ∀ h, h < H.n → ∃ v, p.V v ∧ f v = h
  conn : ∀ u v, p.V u → p.V v → f u < H.n → f u = f v → p.Conn f (f u) u v
  edge : ∀ h h', h < H.n → h' < H.n → h ≠ h' → H.adj h h' = true →
    ∃ u v, p.V u ∧ p.V v ∧ f u = h ∧ f v = h' ∧ p.adj u v = true

def HasMinorP (p : PG) (H : G) : Prop := ∃ f, IsModel p H f

/-- **Definition (branch-set form).** `H` is a minor of `g`. -/
def HasMinor (g H : G) : Prop := HasMinorP (ofG g) H

/-- the complete graph on 5 vertices -/
def K5 : G := ⟨5, fun u v => u != v && u < 5 && v < 5⟩
/-- the complete bipartite graph with sides `{0,1,2}` and `{3,4,5}` -/
def K33 : G := ⟨6, fun u v => u < 6 && v < 6 && ((decide (u < 3)) != (decide (v < 3)))⟩

/-- **Definition.** planar = no K5 minor and no K3,3 minor (Wagner's form, as the property states it) -/
def Planar (g : G) : Prop := ¬ HasMinor g K5 ∧ ¬ HasMinor g K33

/-! ## Subgraphs, isomorphisms, subdivisions (the invariances named in the property) -/

/-- `ι` embeds `K` into `g` as a (not necessarily induced) subgraph -/
structure SubgraphVia (K g : G) (ι : Nat → Nat) : Prop where
  maps : ∀ a, a < K.n → ι a < g.n
  inj : ∀ a b, a < K.n → b < K.n → ι a = ι b → a = b
  adj : ∀ a b, a < K.n → b < K.n → (K.adj a b || K.adj b a) = true →
    (g.adj (ι a) (ι b) || g.adj (ι b) (ι a)) = true

/-- `K` is isomorphic to a subgraph of `g` (some vertices and edges deleted, vertices renamed) -/
def IsSubgraph (K g : G) : Prop := ∃ ι, SubgraphVia K g ι

/-- `ι : V(g) → V(g')` and `κ : V(g') → V(g)` are mutually inverse and preserve adjacency -/
structure IsoVia (g g' : G) (ι κ : Nat → Nat) : Prop where
  fwd : ∀ a, a < g.n → ι a < g'.n ∧ κ (ι a) = a
  bwd : ∀ b, b < g'.n → κ b < g.n ∧ ι (κ b) = b
  adj : ∀ a b, a < g.n → b < g.n → (g.adj a b || g.adj b a) = (g'.adj (ι a) (ι b) || g'.adj (ι b) (ι a))

/-- the underlying undirected graphs are isomorphic (`g'` is a relabelling of `g`) -/
def Iso (g g' : G) : Prop := ∃ ι κ, IsoVia g g' ι κ

/-- subdivide the edge `uv`: a new vertex `g.n` adjacent to exactly `u` and `v`; the edge `uv` is removed -/
def subdivide (g : G) (u v : Nat) : G :=
  { n := g.n + 1
    adj := fun x y =>
      if x == g.n then decide (y < g.n) && (y == u || y == v)
      else if y == g.n then decide (x < g.n) && (x == u || x == v)
      else !((x == u && y == v) || (x == v && y == u)) && g.adj x y }

/-- add an isolated vertex `g.n` -/
def addIsolated (g : G) : G :=
  { n := g.n + 1, adj := fun x y => decide (x < g.n) && decide (y < g.n) && g.adj x y }

/-- add a pendant vertex `g.n` attached to `u` -/
def addPendant (g : G) (u : Nat) : G :=
  { n := g.n + 1
    adj := fun x y =>
      if x == g.n then decide (y < g.n) && y == u
      else if y == g.n then decide (x < g.n) && x == u
      else g.adj x y }

/-! ## The operations form -/

/-- delete the vertex `v` -/
def PG.delV (p : PG) (v : Nat) : PG := { p with al := fun x => x != v && p.al x }

/-- delete the edge `uv` -/
def PG.delE (p : PG) (u v : Nat) : PG :=
  { p with adj := fun x y => !((x == u && y == v) || (x == v && y == u)) && p.adj x y }

/-- contract the edge `uv`: `v` disappears, `u` inherits its neighbours (no loop, no multiple edges) -/
def PG.contract (p : PG) (u v : Nat) : PG :=
  { n := p.n
    al := fun x => x != v && p.al x
    adj := fun x y => x != y &&
      (if x == u then p.adj u y || p.adj v y else if y == u then p.adj x u || p.adj x v else p.adj x y) }

/-- one minor operation -/
inductive Step : PG → PG → Prop
  | delV (p : PG) (v : Nat) : p.V v → Step p (p.delV v)
  | delE (p : PG) (u v : Nat) : Step p (p.delE u v)
  | contract (p : PG) (u v : Nat) : p.V u → p.V v → u ≠ v → p.adj u v = true → Step p (p.contract u v)

/-- finitely many minor operations -/
inductive Ops : PG → PG → Prop
  | refl (p : PG) : Ops p p
  | head {p q r : PG} : Step p q → Ops q r → Ops p r

/-- `σ` is an isomorphism from the live part of `p` onto `H` (`H` read as its underlying undirected graph) -/
structure IsIso (p : PG) (H : G) (σ : Nat → Nat) : Prop where
  maps : ∀ v, p.V v → σ v < H.n
  inj : ∀ u v, p.V u → p.V v → σ u = σ v → u = v
  surj : ∀ h, h < H.n → ∃ v, p.V v ∧ σ v = h
  adj : ∀ u v, p.V u → p.V v → u ≠ v → (p.adj u v = true ↔ (H.adj (σ u) (σ v) || H.adj (σ v) (σ u)) = true)

/-- **Definition (operations form).** `H` is isomorphic to a graph obtained from `g` by vertex deletions, edge
deletions and edge contractions. -/
def OpsMinor (g H : G) : Prop := ∃ q σ, Ops (ofG g) q ∧ IsIso q H σ

/-! ## Executable decision procedure for small graphs -/

def PG.verts (p : PG) : List Nat := (List.range p.n).filter p.al

/-- may `v` be the image of vertex `h` of `H`, given the images `l` of the vertices `0 .. l.length-1`
(in reverse order: the head of `l` is the image of `l.length-1`)? -/
def okNew (p : PG) (H : G) (h v : Nat) : List Nat → Bool
  | [] => true
  | w :: ws => (!(H.adj h ws.length) || p.adj v w) && (!(H.adj ws.length h) || p.adj w v) && okNew p H h v ws

/-- backtracking search for an injective map `V(H) → avail` that sends edges of `H` to edges of `p`:
`l` = images chosen so far (reversed), `k` = number of vertices of `H` still to place -/
def embedGo (p : PG) (H : G) : Nat → List Nat → List Nat → Bool
  | 0, _, _ => true
  | k + 1, avail, l =>
    avail.any fun v => okNew p H l.length v l && embedGo p H k (avail.erase v) (v :: l)

/-- exactly `|H|` live vertices are left: is `H` a spanning subgraph under some bijection? -/
def leaf (p : PG) (H : G) : Bool :=
  p.verts.length == H.n && embedGo p H H.n p.verts []

/-- Decide the fate of the vertices `lim-1, lim-2, ..., 0` in this order: keep, delete, or contract into a smaller
neighbour; stop as soon as `|H|` live vertices are left. (Every model can be reached this way: remove the unused
vertices and the non-minimal members of the branch sets in decreasing order — `Minor.search_complete`.) -/
def search (H : G) : Nat → PG → Bool
  | 0, p => leaf p H
  | v + 1, p =>
    if p.verts.length ≤ H.n then leaf p H
    else search H v p ||
      (decide (v < p.n) && p.al v &&
        (search H v (p.delV v) ||
         (p.verts.filter fun u => decide (u < v) && p.adj u v).any fun u => search H v (p.contract u v)))

/-- tabulated copy of `g` (adjacency matrix; same graph, constant-time `adj`) -/
def tab (g : G) : G :=
  let M : Array (Array Bool) := Array.ofFn (n := g.n) fun i => Array.ofFn (n := g.n) fun j => g.adj i.val j.val
  { n := g.n, adj := fun u v => (M.getD u #[]).getD v false }

/-- decision procedure: `hasMinorExec g H = true ↔ HasMinor g H` (`Minor.hasMinorExec_iff`) -/
def hasMinorExec (g H : G) : Bool := search H g.n (ofG (tab g))

def planarExec (g : G) : Bool := !hasMinorExec g K5 && !hasMinorExec g K33

/-! ## Certificate checker (any size) -/

/-- live vertices of class `c` -/
def classOf (p : PG) (f : Nat → Nat) (c : Nat) : List Nat := p.verts.filter fun v => f v == c

/-- grow the set `seen` inside `cls` along edges of `p`, at most `k` rounds -/
def grow (p : PG) (cls : List Nat) : Nat → List Nat → List Nat
  | 0, seen => seen
  | k + 1, seen =>
    let new := cls.filter fun v => !seen.contains v && seen.any fun u => p.adj u v
    if new.isEmpty then seen else grow p cls k (seen ++ new)

/-- the class is non-empty and connected -/
def classConn (p : PG) (cls : List Nat) : Bool :=
  match cls with
  | [] => false
  | r :: _ => let reach := grow p cls cls.length [r]; cls.all reach.contains

def certOk (p : PG) (H : G) (f : Nat → Nat) : Bool :=
  ((List.range H.n).all fun h => classConn p (classOf p f h)) &&
  ((List.range H.n).all fun h => (List.range H.n).all fun h' =>
    !(h != h' && H.adj h h') ||
      (let ch' := classOf p f h'
       (classOf p f h).any fun u => ch'.any fun v => p.adj u v))

/-- `cert[v]` = branch set of vertex `v`; entries `≥ H.n` and missing entries mean "unused" -/
def isMinorCert (cert : List Nat) (g H : G) : Bool :=
  let a := cert.toArray
  certOk (ofG g) H (fun v => a.getD v H.n)

/-- `GraphSpec.ofEdges n es` with the edge list in a hash set (same graph — `Minor.fastG_adj` —, constant-time
`adj`; used by the driver for large inputs) -/
def fastG (n : Nat) (es : List (Nat × Nat)) : G :=
  let S : Std.HashSet (Nat × Nat) := Std.HashSet.ofList es
  { n := n, adj := fun u v => u != v && u < n && v < n && (S.contains (u, v) || S.contains (v, u)) }

/-! ## Embedding certificates (NOT verified against the minor definition — see the header and notes/C11.md)

A combinatorial embedding is a rotation system: `rot[v]` lists the neighbours of `v` in cyclic order. It describes an
embedding in the plane exactly when Euler's formula holds for every connected component; with faces counted as the
orbits of the face-tracing permutation on darts this is `V - E + F + (isolated vertices) = 2 * C`. That such a
certificate implies `Planar g` in the sense of the minor definition is the easy half of the Kuratowski–Wagner theorem
together with the theory of rotation systems; it is not formalised here. The checker is therefore part of the
*trusted* base of the stream `pemb`: it replaces "the generator builds planar graphs" by "the generator's embedding
satisfies Euler's formula". -/

/-- the rotation system lists exactly the neighbours of every vertex, without repetition -/
def rotOk (rot : Array (Array Nat)) (g : G) : Bool :=
  rot.size == g.n &&
  (List.range g.n).all fun v =>
    let r := rot.getD v #[]
    r.toList.all (fun u => decide (u < g.n) && u != v && (g.adj v u || g.adj u v) && (rot.getD u #[]).contains v) &&
    (List.range r.size).all (fun i => (List.range i).all fun j => r.getD i 0 != r.getD j 0) &&
    r.size == ((List.range g.n).filter fun u => u != v && (g.adj v u || g.adj u v)).length

/-- number of orbits of the face-tracing permutation `(v, u) ↦ (u, successor of v in rot[u])` on the darts -/
def countFaces (rot : Array (Array Nat)) : Nat := Id.run do
  let n := rot.size
  let mut off : Array Nat := Array.replicate (n + 1) 0
  for v in [0:n] do
    off := off.set! (v + 1) (off[v]! + rot[v]!.size)
  let total := off[n]!
  let mut seen : Array Bool := Array.replicate total false
  let mut faces := 0
  for v in [0:n] do
    for i in [0:rot[v]!.size] do
      if !seen[off[v]! + i]! then
        faces := faces + 1
        let mut cv := v
        let mut ci := i
        for _ in [0:total + 1] do
          if seen[off[cv]! + ci]! then break
          seen := seen.set! (off[cv]! + ci) true
          let u := rot[cv]![ci]!
          let ru := rot[u]!
          let j := (ru.toList.idxOf cv)
          ci := if j + 1 < ru.size then j + 1 else 0
          cv := u
  return faces

/-- number of connected components of the graph whose adjacency lists are `rot` -/
def countComponents (rot : Array (Array Nat)) : Nat := Id.run do
  let n := rot.size
  let mut seen : Array Bool := Array.replicate n false
  let mut comps := 0
  for s in [0:n] do
    if !seen[s]! then
      comps := comps + 1
      seen := seen.set! s true
      let mut stack : List Nat := [s]
      for _ in [0:2 * n * n + 2] do
        match stack with
        | [] => break
        | v :: rest =>
          stack := rest
          for u in rot[v]! do
            if u < n && !seen[u]! then
              seen := seen.set! u true
              stack := u :: stack
  return comps

/-- rotation-system certificate of planarity: Euler's formula by face tracing (trusted, not verified) -/
def isPlanarEmbeddingCert (rot : Array (Array Nat)) (g : G) : Bool :=
  rotOk rot g &&
  (let V := g.n
   let darts := rot.foldl (fun acc r => acc + r.size) 0
   let iso := (rot.toList.filter fun r => r.size == 0).length
   -- V - E + F + iso = 2C, with E = darts / 2, written without subtraction
   2 * V + 2 * countFaces rot + 2 * iso == darts + 4 * countComponents rot)

end Minor
