import Mamba.Model.SortInts
/-!
# Specification vocabulary for `sortints` (property C17)

Mathematical definitions used by the theorems of `Props/C17.lean` (core Lean only).
-/
namespace SortInts

/-- the canonical representation of a finite set of ints: a strictly increasing list -/
abbrev SS (l : List Int) : Prop := l.Pairwise (· < ·)

/-- what `Range(start, end, step)` must contain: the elements `start + k*step` (`k ≥ 0`) in `[start, end)`,
resp. `(end, start]` for a descending range. -/
def InRange (start e step x : Int) : Prop :=
  ∃ k : Nat, x = start + k * step ∧ ((start ≤ x ∧ x < e) ∨ (e < x ∧ x ≤ start))

end SortInts
