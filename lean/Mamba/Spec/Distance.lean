import Mamba.Spec.Graph
/-!
# C10 — distances, components, blocks, cycle and path counts: definitions and executable references

Core Lean only (the driver links this file). Everything is stated for an arbitrary `GraphSpec.G`
and, where useful, relative to a vertex list `V` (the sub-graph induced on `V`); the whole graph is
`V = List.range g.n`. The theorems that each reference procedure computes its definition are in
`Mamba/Lemmas/Distance*.lean` and `Mamba/Props/C10.lean`.

Conventions taken from the Go doc comments / code (`graph/distances.go`, `general.go`, `subgraph.go`):
* `Distance` = length of a shortest path, `-1` if there is none;
* `Eccentricity` = slice of eccentricities, a slice of `-1`s if the graph is disconnected;
* `Diameter` / `Radius` = max / min eccentricity, `-1` if disconnected, `0` for `n = 0`;
* `Girth` = length of a shortest cycle, `-1` if there is none;
* `NumberOfCycles[l]`, `NumberOfInducedCycles[l]` (slices of length `n+1`), `NumberOfInducedPaths[l]` (length `n`).
-/
namespace GDist
open GraphSpec

/-! ## Walks, distance -/

/-- `WalkIn g V s x k`: there is a walk `s = v0, v1, ..., vk = x` with `k` edges all of whose vertices lie in `V`. -/
inductive WalkIn (g : G) (V : List Nat) (s : Nat) : Nat → Nat → Prop
  | base : s ∈ V → WalkIn g V s s 0
  | step {u x k} : WalkIn g V s u k → g.adj u x = true → x ∈ V → WalkIn g V s x (k+1)

/-- walk in the whole graph -/
def Walk (g : G) (s x k : Nat) : Prop := WalkIn g (List.range g.n) s x k

/-- `k` is the least length of a walk from `s` to `x` inside `V` -/
def IsDistIn (g : G) (V : List Nat) (s x k : Nat) : Prop :=
  WalkIn g V s x k ∧ ∀ j, j < k → ¬ WalkIn g V s x j

def IsDist (g : G) (s x k : Nat) : Prop := IsDistIn g (List.range g.n) s x k

/-- `x` can be reached from `s` inside `V` -/
def ReachIn (g : G) (V : List Nat) (s x : Nat) : Prop := ∃ k, WalkIn g V s x k
def Reach (g : G) (s x : Nat) : Prop := ReachIn g (List.range g.n) s x

/-- next BFS level: the vertices of `V` not seen so far that have a neighbour in the frontier -/
def bfsNext (g : G) (V seen fr : List Nat) : List Nat :=
  V.filter fun x => !seen.contains x && fr.any fun u => g.adj u x

/-- BFS by levels; `fuel` bounds the number of levels (`V.length` suffices: theorem `levelsIn_fuel`) -/
def bfsLevels (g : G) (V : List Nat) : Nat → List Nat → List Nat → List (List Nat)
  | 0, _, _ => []
  | f+1, seen, fr =>
    if fr.isEmpty then [] else
      let nx := bfsNext g V seen fr
      fr :: bfsLevels g V f (nx ++ seen) nx

/-- the list of BFS levels from `s` inside `V` (level `k` = vertices at distance exactly `k`) -/
def levelsIn (g : G) (V : List Nat) (s : Nat) : List (List Nat) :=
  if V.contains s then bfsLevels g V V.length [s] [s] else []

/-- index (counted from `d`) of the first level containing `x` -/
def findLevel (x : Nat) : List (List Nat) → Nat → Option Nat
  | [], _ => none
  | l :: ls, d => if l.contains x then some d else findLevel x ls (d+1)

/-- reference distance inside `V` -/
def distIn (g : G) (V : List Nat) (s x : Nat) : Option Nat := findLevel x (levelsIn g V s) 0

/-- reference distance: `some k` = least walk length, `none` = no walk -/
def dist (g : G) (s x : Nat) : Option Nat := distIn g (List.range g.n) s x

/-- one row of the distance matrix (levels computed once) -/
def distRow (g : G) (s : Nat) : List (Option Nat) :=
  let L := levelsIn g (List.range g.n) s
  (List.range g.n).map fun x => findLevel x L 0

def optToInt : Option Nat → Int
  | some k => (k : Int)
  | none => -1

/-! ## Eccentricity, diameter, radius (Go conventions) -/

def listMax : List Nat → Nat
  | [] => 0
  | x :: xs => max x (listMax xs)

def listMinInt : List Int → Int
  | [] => 0
  | [x] => x
  | x :: xs => min x (listMinInt xs)

def listMaxInt : List Int → Int
  | [] => 0
  | [x] => x
  | x :: xs => max x (listMaxInt xs)

/-- every ordered pair of vertices is joined by a walk -/
def connectedB (g : G) : Bool :=
  (List.range g.n).all fun s => (distRow g s).all Option.isSome

/-- definition: `e` is the largest distance from `v`, all distances from `v` being defined -/
def IsEcc (g : G) (v e : Nat) : Prop :=
  (∀ x, x < g.n → ∃ k, IsDist g v x k ∧ k ≤ e) ∧ ∃ x, x < g.n ∧ IsDist g v x e

/-- eccentricity of `v` in a connected graph: the largest distance from `v` -/
def eccNat (g : G) (v : Nat) : Nat :=
  listMax ((distRow g v).map fun o => o.getD 0)

/-- `Eccentricity(g)[v]` -/
def ecc (g : G) (v : Nat) : Int := if connectedB g then (eccNat g v : Int) else -1

def eccs (g : G) : List Int :=
  if connectedB g then (List.range g.n).map fun v => (eccNat g v : Int)
  else (List.range g.n).map fun _ => (-1 : Int)

/-- `Diameter(g)` -/
def diameter (g : G) : Int :=
  if g.n = 0 then 0 else if connectedB g then listMaxInt (eccs g) else -1

/-- `Radius(g)` -/
def radius (g : G) : Int :=
  if g.n = 0 then 0 else if connectedB g then listMinInt (eccs g) else -1

/-! ## Connected components -/

/-- the vertices of `V` reachable from `s` inside `V`, in the order of `V` -/
def componentIn (g : G) (V : List Nat) (s : Nat) : List Nat :=
  let L := levelsIn g V s
  V.filter fun x => (findLevel x L 0).isSome

/-- scan the vertices; `cov` = the vertices of the components produced so far -/
def componentsFrom (g : G) (V : List Nat) : List Nat → List Nat → List (List Nat)
  | [], _ => []
  | s :: rest, cov =>
    if cov.contains s then componentsFrom g V rest cov
    else
      let c := componentIn g V s
      c :: componentsFrom g V rest (c ++ cov)

/-- components of `g[V]`; for increasing `V` each is increasing and they are ordered by least element -/
def componentsIn (g : G) (V : List Nat) : List (List Nat) := componentsFrom g V V []

def components (g : G) : List (List Nat) := componentsIn g (List.range g.n)

/-- `ConnectedComponent(g, v)` -/
def component (g : G) (v : Nat) : List Nat := componentIn g (List.range g.n) v

def numComponentsIn (g : G) (V : List Nat) : Nat := (componentsIn g V).length

def connectedIn (g : G) (V : List Nat) : Bool := numComponentsIn g V ≤ 1

/-! ## Articulation vertices and blocks -/

/-- `v` is an articulation vertex of `g[V]`: deleting it increases the number of components -/
def isArticIn (g : G) (V : List Nat) (v : Nat) : Bool :=
  decide (numComponentsIn g V < numComponentsIn g (V.erase v))

/-- articulation vertices of `g`, increasing -/
def articulation (g : G) : List Nat :=
  (List.range g.n).filter fun v => isArticIn g (List.range g.n) v

/-- `S` is non-empty, induces a connected subgraph, and that subgraph has no articulation vertex
(so single vertices and single edges qualify) -/
def isBlockSet (g : G) (S : List Nat) : Bool :=
  !S.isEmpty && connectedIn g S && S.all fun v => !isArticIn g S v

/-- all sublists (as increasing lists when the argument is increasing) -/
def subsets : List Nat → List (List Nat)
  | [] => [[]]
  | x :: xs => let r := subsets xs; r ++ r.map (x :: ·)

def subsetB (S T : List Nat) : Bool := S.all fun x => T.contains x

/-- blocks by definition: the maximal block sets among all vertex subsets (exponential; n ≤ 10) -/
def blocks (g : G) : List (List Nat) :=
  let cands := (subsets (List.range g.n)).filter (isBlockSet g)
  cands.filter fun S => cands.all fun T => !subsetB S T || S == T

/-! ## Paths and cycles by enumeration

Paths are kept reversed: the head of the list is the current end vertex, the last element the start. -/

/-- no edge between non-consecutive vertices of the sequence -/
def chordlessPath (g : G) : List Nat → Bool
  | [] => true
  | x :: rest => rest.tail.all (fun y => !g.adj x y) && chordlessPath g rest

/-- no edge between vertices of the sequence that are not consecutive cyclically -/
def chordlessCyc (g : G) : List Nat → Bool
  | [] => true
  | x :: rest => rest.tail.dropLast.all (fun y => !g.adj x y) && chordlessPath g rest

/-- consecutive vertices of the reversed sequence are adjacent (`b` precedes `a` in path order) -/
def chainAdj (g : G) : List Nat → Prop
  | [] => True
  | [_] => True
  | a :: b :: t => g.adj b a = true ∧ chainAdj g (b :: t)

/-- definition: `p` (reversed) is a simple path of `g` starting in `s` -/
def IsRPath (g : G) (s : Nat) (p : List Nat) : Prop :=
  p.getLast? = some s ∧ p.Nodup ∧ (∀ x ∈ p, x < g.n) ∧ chainAdj g p

/-- definition: `c` (reversed vertex sequence) is a cycle of `g`: at least 3 distinct vertices, consecutive ones
adjacent, and the last vertex of the sequence adjacent to the first -/
def IsCycleSeq (g : G) (c : List Nat) : Prop :=
  3 ≤ c.length ∧ c.Nodup ∧ (∀ x ∈ c, x < g.n) ∧ chainAdj g c ∧ g.adj (c.headD 0) (c.getLastD 0) = true

/-- definition: the canonical vertex sequence of a cycle subgraph with `l` vertices — it starts (path order) at the
least vertex of the cycle and continues with the smaller of its two neighbours on the cycle; reversed:
`c = [v_{l-1}, ..., v_1, v_0]` with `v_0` least and `v_1 < v_{l-1}`. Each cycle subgraph has exactly one. -/
def IsCanonCycle (g : G) (l : Nat) (c : List Nat) : Prop :=
  IsCycleSeq g c ∧ c.length = l ∧ (∀ x ∈ c.dropLast, c.getLastD 0 < x) ∧ c.dropLast.getLastD 0 < c.headD 0

/-- definition: canonical sequence of an induced path with `l` edges: a chordless simple path listed from its
smaller end vertex (reversed: head = larger end) -/
def IsCanonInducedPath (g : G) (l : Nat) (p : List Nat) : Prop :=
  p.length = l + 1 ∧ p.Nodup ∧ (∀ x ∈ p, x < g.n) ∧ chainAdj g p ∧ chordlessPath g p = true ∧
  (l = 0 ∨ p.getLastD 0 < p.headD 0)

/-- paths built from `[s]` by `good` one-vertex extensions -/
inductive BuiltFrom (g : G) (good : List Nat → Nat → Bool) (s : Nat) : List Nat → Prop
  | base : s < g.n → BuiltFrom g good s [s]
  | ext {h w : Nat} {t : List Nat} : BuiltFrom g good s (h :: t) → w < g.n → g.adj h w = true →
      good (h :: t) w = true → BuiltFrom g good s (w :: h :: t)

/-- one-vertex extensions of the reversed path `p` by a vertex `w` adjacent to its end with `good p w` -/
def extend (g : G) (good : List Nat → Nat → Bool) (p : List Nat) : List (List Nat) :=
  match p with
  | [] => []
  | h :: _ => ((List.range g.n).filter fun w => g.adj h w && good p w).map (· :: p)

/-- all reversed paths with `k` edges that start in `s` and are built by `good` extensions -/
def pathsFrom (g : G) (good : List Nat → Nat → Bool) (s : Nat) : Nat → List (List Nat)
  | 0 => if s < g.n then [[s]] else []
  | k+1 => (pathsFrom g good s k).flatMap (extend g good)

/-- extension rule for simple paths -/
def goodSimple (p : List Nat) (w : Nat) : Bool := !p.contains w
/-- simple paths all of whose later vertices are larger than the start `s` -/
def goodAbove (s : Nat) (p : List Nat) (w : Nat) : Bool := decide (s < w) && !p.contains w
/-- induced paths: the new vertex is adjacent to no earlier vertex except the current end -/
def goodInduced (g : G) (p : List Nat) (w : Nat) : Bool :=
  !p.contains w && p.tail.all fun x => !g.adj w x
/-- is there a cycle with exactly `l` vertices? (rooted enumeration, any root) -/
def hasCycle (g : G) (l : Nat) : Bool :=
  decide (3 ≤ l) && (List.range g.n).any fun s =>
    (pathsFrom g goodSimple s (l-1)).any fun p => g.adj (p.headD 0) s

/-- length of a shortest cycle, `-1` if the graph is acyclic (`Girth`) -/
def leastUpTo (p : Nat → Bool) : Nat → Nat → Option Nat
  | 0, _ => none
  | f+1, i => if p i then some i else leastUpTo p f (i+1)
def girthOpt (g : G) : Option Nat := leastUpTo (hasCycle g) (g.n + 1) 0
def girth (g : G) : Int := optToInt (girthOpt g)

/-- canonical cycles with `l` vertices: reversed path `[v_{l-1}, ..., v_1, s]` with `s` the least vertex,
`v_{l-1}` adjacent to `s` and `v_1 < v_{l-1}` (each cycle subgraph has exactly one such sequence) -/
def canonCycles (g : G) (l : Nat) : List (List Nat) :=
  if l < 3 then [] else
  (List.range g.n).flatMap fun s =>
    (pathsFrom g (goodAbove s) s (l-1)).filter fun p =>
      g.adj (p.headD 0) s && decide (p.dropLast.getLastD 0 < p.headD 0)

/-- `NumberOfCycles(g)[l]` -/
def numCycles (g : G) (l : Nat) : Nat := (canonCycles g l).length
def numCyclesList (g : G) : List Nat := (List.range (g.n + 1)).map (numCycles g)

/-- canonical induced cycles with `l` vertices -/
def canonInducedCycles (g : G) (l : Nat) : List (List Nat) :=
  (canonCycles g l).filter (chordlessCyc g)

/-- canonical induced paths with `l` edges: simple chordless paths, directed from the smaller end vertex -/
def canonInducedPaths (g : G) (l : Nat) : List (List Nat) :=
  (List.range g.n).flatMap fun s =>
    (pathsFrom g (goodInduced g) s l).filter fun p => l == 0 || decide (s < p.headD 0)

/-- effective bound of `NumberOfInducedCycles(g, maxLength)` -/
def cycBound (g : G) (maxLength : Int) : Nat :=
  if maxLength < 0 || maxLength > (g.n : Int) then g.n else maxLength.toNat
/-- effective bound of `NumberOfInducedPaths(g, maxLength)` -/
def pathBound (g : G) (maxLength : Int) : Nat :=
  if maxLength < 0 || maxLength > (g.n : Int) - 1 then g.n - 1 else maxLength.toNat

def numInducedCycles (g : G) (l : Nat) : Nat := (canonInducedCycles g l).length
def numInducedPaths (g : G) (l : Nat) : Nat := (canonInducedPaths g l).length

/-- `p` lists every vertex `0..n-1` exactly once (`g.induced p` is then the relabelling of `g` in which vertex `i`
is vertex `p[i]` of `g`) -/
def IsPermOf (n : Nat) (p : List Nat) : Prop := p.length = n ∧ p.Nodup ∧ ∀ x ∈ p, x < n

end GDist
