import Mamba.Spec.Graph
/-!
# Isomorphism, a brute-force complete invariant, and the transversal checker (property C03)

Core Lean only (the driver links this).  Theorems are in `Mamba/Lemmas/Iso*.lean` and `Mamba/Props/C03.lean`.

* `Iso g h` : same number of vertices and a bijection of `0..n-1` preserving adjacency.
* `bfCanon g` : the minimum, over all `n!` relabellings, of the edge code of the relabelled graph
  (`bfCanon_iso_iff`: equal iff isomorphic, for well-formed graphs on the same number of vertices).
* `checkLevels P levels` : the verified checker.  `levels[k]` is the list of graphs on `k` vertices yielded by
  the search; it is accepted iff every graph has `k` vertices and satisfies `P`, no two have the same `bfCanon`,
  level 0 contains the empty graph when `P` admits it, and for `k ≥ 1` every one-vertex extension `g + S`
  (`g ∈ levels[k-1]`, `S ⊆ V(g)`) that satisfies `P` has its `bfCanon` among those of `levels[k]`.
  `checkLevels_sound`: for a hereditary `P` every accepted level is an exact transversal of the isomorphism
  classes of graphs with `P`.
-/
namespace GSearch
open GraphSpec

/-! ## isomorphism -/

structure IsBij (n : Nat) (σ : Nat → Nat) : Prop where
  maps : ∀ u, u < n → σ u < n
  inj : ∀ u v, u < n → v < n → σ u = σ v → u = v
  surj : ∀ w, w < n → ∃ u, u < n ∧ σ u = w

/-- `g ≅ h` -/
def Iso (g h : G) : Prop :=
  g.n = h.n ∧ ∃ σ : Nat → Nat, IsBij g.n σ ∧ ∀ u v, u < g.n → v < g.n → g.adj u v = h.adj (σ u) (σ v)

/-! ## edge codes -/

/-- position of the pair `u < v` in mamba's DenseGraph order `01, 02, 12, 03, …` -/
def pairIndex (u v : Nat) : Nat := v * (v - 1) / 2 + u

/-- graph on `n` vertices from an edge mask (bit `pairIndex u v` = edge `uv`) -/
def ofMask (n mask : Nat) : G :=
  { n := n
    adj := fun u v => u != v && u < n && v < n &&
      (if u < v then mask.testBit (pairIndex u v) else mask.testBit (pairIndex v u)) }

/-- the pairs `u < v < n` in DenseGraph order -/
def pairs (n : Nat) : List (Nat × Nat) :=
  (List.range n).flatMap fun v => (List.range v).map fun u => (u, v)

/-- binary numeral, least significant bit first -/
def num : List Bool → Nat
  | [] => 0
  | b :: bs => b.toNat + 2 * num bs

/-- edge code of `g` relabelled by `p` (vertex `i` of the result is vertex `p[i]` of `g`) -/
def relabelCode (g : G) (p : List Nat) : Nat :=
  num ((pairs g.n).map fun uv => g.adj (p.getD uv.1 0) (p.getD uv.2 0))

/-- edge code of `g` itself (= its mask) -/
def code (g : G) : Nat := num ((pairs g.n).map fun uv => g.adj uv.1 uv.2)

/-! ## all permutations -/

def insertAll {α : Type} (x : α) : List α → List (List α)
  | [] => [[x]]
  | y :: ys => (x :: y :: ys) :: (insertAll x ys).map (y :: ·)

def permsOf {α : Type} : List α → List (List α)
  | [] => [[]]
  | x :: xs => (permsOf xs).flatMap (insertAll x)

def perms (n : Nat) : List (List Nat) := permsOf (List.range n)

/-- the brute-force canonical code -/
def bfCanon (g : G) : Nat := ((perms g.n).map (relabelCode g)).foldl min (code g)

/-- adjacency matrix of `g` as a flat array (`n*n` entries) -/
def tabulate (g : G) : Array Bool :=
  Array.ofFn (n := g.n * g.n) fun k => g.adj (k.val / g.n) (k.val % g.n)

def relabelCodeFast (n : Nat) (t : Array Bool) (prs : List (Nat × Nat)) (p : Array Nat) : Nat :=
  num (prs.map fun uv => t.getD (p.getD uv.1 0 * n + p.getD uv.2 0) false)

/-- `bfCanon` computed on the tabulated adjacency matrix (`bfCanonFast_eq : bfCanonFast = bfCanon`);
this is what the checker runs -/
def bfCanonFast (g : G) : Nat :=
  let t := tabulate g
  let prs := pairs g.n
  ((perms g.n).map fun p => relabelCodeFast g.n t prs p.toArray).foldl min (code g)

/-! ## one-vertex extensions and deletions -/

/-- `g + S`: a new vertex `g.n` adjacent to the vertices in `S` -/
def ext (g : G) (S : List Nat) : G :=
  { n := g.n + 1
    adj := fun u v =>
      (u < g.n && v < g.n && g.adj u v) ||
      (u == g.n && v < g.n && S.contains v) ||
      (v == g.n && u < g.n && S.contains u) }

/-- delete the last vertex -/
def delLast (g : G) : G :=
  { n := g.n - 1, adj := fun u v => u < g.n - 1 && v < g.n - 1 && g.adj u v }

/-- all subsets of a list, as sublists -/
def subsets : List Nat → List (List Nat)
  | [] => [[]]
  | x :: xs => subsets xs ++ (subsets xs).map (x :: ·)

def maskOfSet (S : List Nat) : Nat := S.foldl (fun acc v => acc ||| (1 <<< v)) 0

/-! ## predicates -/

/-- a graph property that is invariant under isomorphism and inherited by `g - last vertex`
(hence by every induced subgraph) -/
structure Hereditary (P : G → Bool) : Prop where
  iso : ∀ g h, g.WF → h.WF → Iso g h → P g = true → P h = true
  del : ∀ g, g.WF → 0 < g.n → P g = true → P (delLast g) = true

def maxDegLE (d : Nat) (g : G) : Bool := (List.range g.n).all fun v => g.deg v ≤ d

def triangleFree (g : G) : Bool :=
  (List.range g.n).all fun i => (List.range g.n).all fun j => (List.range g.n).all fun k =>
    !(g.adj i j && g.adj i k && g.adj j k)

def k4Free (g : G) : Bool :=
  (List.range g.n).all fun i => (List.range g.n).all fun j => (List.range g.n).all fun k =>
    (List.range g.n).all fun l =>
      !(g.adj i j && g.adj i k && g.adj j k && g.adj i l && g.adj j l && g.adj k l)

/-- strip vertices with at most one live neighbour, `fuel` rounds -/
def peel (g : G) : Nat → List Nat → List Nat
  | 0, alive => alive
  | f + 1, alive => peel g f (alive.filter fun v => 2 ≤ (alive.filter fun u => g.adj v u).length)

/-- acyclic: the 2-core is empty -/
def isForest (g : G) : Bool := (peel g g.n (List.range g.n)).isEmpty

/-- some 2-colouring (a subset of the vertices) has no monochromatic edge -/
def isBipartite (g : G) : Bool :=
  (subsets (List.range g.n)).any fun c =>
    (pairs g.n).all fun uv => !(g.adj uv.1 uv.2 && (c.contains uv.1 == c.contains uv.2))

/-- at most `k` vertices -/
def orderLE (k : Nat) (g : G) : Bool := g.n ≤ k

def predByName (s : String) : Option (G → Bool) :=
  if s = "none" then some fun _ => true
  else if s = "tri" then some triangleFree
  else if s = "k4" then some k4Free
  else if s = "forest" then some isForest
  else if s = "bip" then some isBipartite
  else if s.startsWith "ord" then (s.drop 3).toNat?.map orderLE
  else if s.startsWith "deg" then (s.drop 3).toNat?.map maxDegLE
  else none

/-! ## the checker -/

inductive Verdict where
  | ok
  | badSize (level i : Nat)          -- graph `i` of the level does not have `level` vertices
  | notP (level i : Nat)             -- graph `i` of the level violates the predicate
  | dup (level i j : Nat)            -- graphs `i < j` of the level are isomorphic
  | missing (level i : Nat) (S : Nat)  -- extension of graph `i` of level-1 by the set with mask `S` is not represented
  | noEmpty                          -- level 0 lacks the empty graph although `P` admits it
  deriving DecidableEq, Repr

def Verdict.show : Verdict → String
  | .ok => "ok"
  | .badSize l i => s!"illformed level={l} i={i}"
  | .notP l i => s!"notP level={l} i={i}"
  | .dup l i j => s!"dup level={l} i={i} j={j}"
  | .missing l i S => s!"missing level={l} parent={i} S={S}"
  | .noEmpty => "missing level=0"

/-- index of the first element failing `f` -/
def firstBad {α : Type} (f : α → Bool) : List α → Nat → Option Nat
  | [], _ => none
  | x :: xs, i => if f x then firstBad f xs (i + 1) else some i

/-- first `(i, j)`, `i < j`, with equal entries (lexicographic in `(j, i)`: scanning `j` upward) -/
def firstDup : List Nat → List Nat → Nat → Option (Nat × Nat)
  | _, [], _ => none
  | seen, c :: cs, j =>
    match seen.reverse.idxOf? c with
    | some i => some (i, j)
    | none => firstDup (c :: seen) cs (j + 1)

/-- first subset `S` (in the order of `subsets`) whose extension has `P` but no representative -/
def firstMissingExt (P : G → Bool) (canons : List Nat) (g : G) : List (List Nat) → Option Nat
  | [] => none
  | S :: rest =>
    if P (ext g S) && !canons.contains (bfCanonFast (ext g S)) then some (maskOfSet S)
    else firstMissingExt P canons g rest

def firstMissing (P : G → Bool) (canons : List Nat) : List G → Nat → Option (Nat × Nat)
  | [], _ => none
  | g :: gs, i =>
    match firstMissingExt P canons g (subsets (List.range g.n)) with
    | some S => some (i, S)
    | none => firstMissing P canons gs (i + 1)

/-- check one level `k` given the previous level (`none` for `k = 0`) -/
def checkLevel (P : G → Bool) (k : Nat) (prev : Option (List G)) (cur : List G) : Verdict :=
  match firstBad (fun g => g.n == k) cur 0 with
  | some i => .badSize k i
  | none =>
  match firstBad P cur 0 with
  | some i => .notP k i
  | none =>
  let canons := cur.map bfCanonFast
  match firstDup [] canons 0 with
  | some (i, j) => .dup k i j
  | none =>
  match prev with
  | none => if P (ofMask 0 0) && cur.isEmpty then .noEmpty else .ok
  | some pl =>
    match firstMissing P canons pl 0 with
    | some (i, S) => .missing k i S
    | none => .ok

/-- check levels `k, k+1, …` in turn -/
def checkFrom (P : G → Bool) : Nat → Option (List G) → List (List G) → Verdict
  | _, _, [] => .ok
  | k, prev, cur :: rest =>
    match checkLevel P k prev cur with
    | .ok => checkFrom P (k + 1) (some cur) rest
    | v => v

/-- `levels[k]` = the graphs on `k` vertices -/
def checkLevels (P : G → Bool) (levels : List (List G)) : Verdict := checkFrom P 0 none levels

end GSearch
