import Mamba.Spec.Graph
/-!
# C09 — cliques, colourings, edge colourings, degeneracy: definitions, executable reference procedures,
verified checkers, and faithful models of the cheap Go functions (core Lean only)

Everything is over the shared abstract graph `GraphSpec.G`. The theorems about these definitions are in
`Mamba/Lemmas/CliqueColour*.lean` and `Mamba/Props/C09.lean`.

* vertex subsets are lists; the canonical form of a subset is a sublist of `List.range g.n` (= strictly increasing);
* a vertex colouring is a `List Nat` of length `g.n` (colour of `v` = entry `v`) or a function `Nat → Nat`;
* an edge colouring in Go's format is a list of `n(n-1)/2` numbers in DenseGraph edge order (0 on non-edges);
* a degeneracy certificate is `(d, order)` as returned by `graph.Degeneracy` (every vertex has at most `d`
  neighbours EARLIER in `order`; some prefix of `order` induces a subgraph of minimum degree ≥ `d`).
-/
namespace CliqueColour
open GraphSpec

/-! ## small list helpers -/

def maxList (l : List Nat) : Nat := l.foldr max 0
def minList (l : List Nat) : Nat := l.foldr min (l.headD 0)
def sumList (l : List Nat) : Nat := l.foldr (· + ·) 0

/-- non-empty sublists of `l`, in lexicographic order -/
def lexSubs : List Nat → List (List Nat)
  | [] => []
  | x :: xs => ([x] :: (lexSubs xs).map (x :: ·)) ++ lexSubs xs

/-- all sublists of `l` (each once), in lexicographic order -/
def subsets (l : List Nat) : List (List Nat) := [] :: lexSubs l

def nodupB : List Nat → Bool
  | [] => true
  | x :: xs => !xs.contains x && nodupB xs

/-! ## cliques -/

/-- mathematical definition: `s` lists distinct vertices that are pairwise adjacent -/
def IsClique (g : G) (s : List Nat) : Prop :=
  s.Nodup ∧ (∀ v ∈ s, v < g.n) ∧ ∀ u ∈ s, ∀ v ∈ s, u ≠ v → g.adj u v = true

/-- maximal: no further vertex is adjacent to all of `s` -/
def IsMaximalClique (g : G) (s : List Nat) : Prop :=
  IsClique g s ∧ ∀ v, v < g.n → v ∉ s → ∃ u ∈ s, (g.adj u v && g.adj v u) = false

def pairwiseAdj (g : G) (s : List Nat) : Bool :=
  s.all fun u => s.all fun v => u == v || g.adj u v

/-- verified checker for a clique witness -/
def isClique (g : G) (s : List Nat) : Bool :=
  nodupB s && s.all (· < g.n) && pairwiseAdj g s

def isMaximalClique (g : G) (s : List Nat) : Bool :=
  isClique g s && (List.range g.n).all fun v => s.contains v || !(s.all fun u => g.adj u v && g.adj v u)

/-- clique number: maximum size over all vertex subsets that are cliques -/
def cliqueNumberSpec (g : G) : Nat :=
  maxList (((subsets (List.range g.n)).filter (isClique g)).map List.length)

/-- all maximal cliques, each as an increasing list, in lexicographic order -/
def allMaximalCliquesSpec (g : G) : List (List Nat) :=
  (subsets (List.range g.n)).filter (isMaximalClique g)

/-- independent set = clique of the complement -/
def IsIndependent (g : G) (s : List Nat) : Prop :=
  s.Nodup ∧ (∀ v ∈ s, v < g.n) ∧ ∀ u ∈ s, ∀ v ∈ s, u ≠ v → g.adj u v = false

def independenceNumberSpec (g : G) : Nat := cliqueNumberSpec g.complement

/-! ## vertex colourings -/

/-- mathematical definition: adjacent vertices get different colours -/
def Proper (g : G) (f : Nat → Nat) : Prop :=
  ∀ u v, u < g.n → v < g.n → g.adj u v = true → f u ≠ f v

/-- there is a proper colouring with colours `< k` -/
def Colourable (g : G) (k : Nat) : Prop :=
  ∃ f : Nat → Nat, Proper g f ∧ ∀ v, v < g.n → f v < k

/-- verified checker for a colouring given as a list -/
def isProperColouring (g : G) (c : List Nat) : Bool :=
  c.length == g.n &&
    (List.range g.n).all fun u => (List.range g.n).all fun v => !g.adj u v || c.getD u 0 != c.getD v 0

/-- colours used are exactly `0 .. k-1` -/
def usesExactly (c : List Nat) (k : Nat) : Bool :=
  c.all (· < k) && (List.range k).all fun x => c.contains x

/-- colour `c` is allowed for vertex `p.length` given the colours `p` of vertices `0 .. p.length-1` -/
def compat (g : G) (p : List Nat) (c : Nat) : Bool :=
  (List.range p.length).all fun u => !g.adj u p.length || p.getD u 0 != c

/-- bounded search for a proper colouring with colours `< k` extending `p`, vertex by vertex, with the
first-fit symmetry break: vertex `i` only tries colours `≤ m` where every earlier colour is `< m`. -/
def search (g : G) (k : Nat) : Nat → List Nat → Nat → Bool
  | 0, _, _ => true
  | r + 1, p, m =>
    (List.range (min (m + 1) k)).any fun c => compat g p c && search g k r (p ++ [c]) (max m (c + 1))

def colourableB (g : G) (k : Nat) : Bool := search g k g.n [] 0

/-- least `j ≥ k` with `p j`, looking at most `fuel` steps ahead -/
def leastFrom (p : Nat → Bool) : Nat → Nat → Nat
  | 0, k => k
  | f + 1, k => if p k then k else leastFrom p f (k + 1)

/-- chromatic number: least `k` with a proper `k`-colouring (`k ≤ n` always suffices) -/
def chromaticNumberSpec (g : G) : Nat := leastFrom (colourableB g) g.n 0

/-- number of proper colourings extending `p` by `r` more vertices, colours `< k` (enumeration) -/
def countFrom (g : G) (k : Nat) : Nat → List Nat → Nat
  | 0, _ => 1
  | r + 1, p => sumList ((List.range k).map fun c => if compat g p c then countFrom g k r (p ++ [c]) else 0)

def countColourings (g : G) (k : Nat) : Nat := countFrom g k g.n []

/-- all completions of `p` by `r` more entries `< k` -/
def exts (k : Nat) : Nat → List Nat → List (List Nat)
  | 0, p => [p]
  | r + 1, p => (List.range k).flatMap fun c => exts k r (p ++ [c])

/-! ## edge colourings -/

def share (e f : Nat × Nat) : Bool := e.1 == f.1 || e.1 == f.2 || e.2 == f.1 || e.2 == f.2

/-- line graph: vertex `i` is the `i`-th edge of `g` in DenseGraph order -/
def lineGraph (g : G) : G :=
  let es := g.edges
  let m := es.length
  { n := m, adj := fun i j => i != j && i < m && j < m && share (es.getD i (0, 0)) (es.getD j (0, 0)) }

def chromaticIndexSpec (g : G) : Nat := chromaticNumberSpec (lineGraph g)

/-- mathematical definition: a symmetric assignment of colours `< k` to the edges, different on edges sharing a vertex -/
def ProperEdge (g : G) (k : Nat) (ec : Nat → Nat → Nat) : Prop :=
  (∀ u v, ec u v = ec v u) ∧
  (∀ u v, u < g.n → v < g.n → g.adj u v = true → ec u v < k) ∧
  ∀ u v w, u < g.n → v < g.n → w < g.n → v ≠ w → g.adj u v = true → g.adj u w = true → ec u v ≠ ec u w

def EdgeColourable (g : G) (k : Nat) : Prop := ∃ ec, ProperEdge g k ec

/-- position of the pair `{u, v}` in DenseGraph edge order -/
def eidx (u v : Nat) : Nat := if u < v then v * (v - 1) / 2 + u else u * (u - 1) / 2 + v

/-- verified checker for Go's edge-colouring format: `b` has `n(n-1)/2` entries, `0` exactly on the non-edges,
colours `1..k` on the edges, and edges at a common vertex have different colours -/
def isProperEdgeColouring (g : G) (b : List Nat) (k : Nat) : Bool :=
  b.length == g.n * (g.n - 1) / 2 &&
  ((List.range g.n).all fun v => (List.range v).all fun u =>
      let x := b.getD (eidx u v) 0
      if g.adj u v then 1 ≤ x && x ≤ k else x == 0) &&
  ((List.range g.n).all fun u => (List.range g.n).all fun v => (List.range g.n).all fun w =>
      !(v != w && g.adj u v && g.adj u w) || b.getD (eidx u v) 0 != b.getD (eidx u w) 0)

/-- the colours `1..k` all occur -/
def usesExactly1 (b : List Nat) (k : Nat) : Bool :=
  (List.range k).all fun x => b.contains (x + 1)

/-! ## degeneracy -/

/-- number of neighbours of `v` inside the vertex list `S` -/
def degIn (g : G) (S : List Nat) (v : Nat) : Nat := (S.filter fun u => g.adj v u).length

def IsVSet (g : G) (S : List Nat) : Prop := S.Nodup ∧ ∀ v ∈ S, v < g.n

/-- `d` is the degeneracy: every non-empty induced subgraph has a vertex of degree ≤ d, and some non-empty induced
subgraph has minimum degree ≥ d (for the graph without vertices the degeneracy is 0) -/
def IsDegeneracy (g : G) (d : Nat) : Prop :=
  (∀ S, IsVSet g S → S ≠ [] → ∃ v ∈ S, degIn g S v ≤ d) ∧
  ((g.n = 0 ∧ d = 0) ∨ ∃ S, IsVSet g S ∧ S ≠ [] ∧ ∀ v ∈ S, d ≤ degIn g S v)

def minDegIn (g : G) (S : List Nat) : Nat := minList (S.map (degIn g S))

/-- degeneracy by definition: maximum over non-empty vertex subsets of the minimum degree of the induced subgraph -/
def degeneracySpec (g : G) : Nat := maxList ((lexSubs (List.range g.n)).map (minDegIn g))

/-- `rev` = the order reversed: head is the LAST vertex; each vertex has at most `d` neighbours among the ones after
it in `rev` (= before it in the order) -/
def backOK (g : G) (d : Nat) : List Nat → Bool
  | [] => true
  | x :: earlier => decide (degIn g earlier x ≤ d) && backOK g d earlier

/-- verified checker for the certificate returned by `graph.Degeneracy` -/
def degeneracyCert (g : G) (d : Nat) (order : List Nat) : Bool :=
  order.length == g.n && nodupB order && order.all (· < g.n) &&
  backOK g d order.reverse &&
  ((g.n == 0 && d == 0) ||
    (List.range g.n).any fun j => let P := order.take (j + 1); P.all fun v => decide (d ≤ degIn g P v))

/-! ## faithful models (pattern F) -/

/-- `graph.IsProperColouring`: for each `i`, colour ≥ 0 and different from the colours of the neighbours `v < i`
(the Go loop walks the sorted neighbour list and breaks at the first `v > i`). `none` models a nil slice. -/
def isProperColouringGo (g : G) (col : Option (List Int)) : Bool :=
  match col with
  | none => false
  | some c =>
    if c.length != g.n then false
    else (List.range g.n).all fun i =>
      decide (0 ≤ c.getD i 0) && ((g.nbrs i).takeWhile (· ≤ i)).all fun v => c.getD v 0 != c.getD i 0

/-- state of `GreedyColor`: colours (−1 = none), `seenColours`, `maxColour` -/
structure Greedy where
  c : List Int
  seen : List Bool
  maxColour : Int

/-- first loop over the neighbours of `v`: mark the colours seen, track their maximum -/
def greedyMark (c : List Int) : List Nat → List Bool × Nat → Outcome (List Bool × Nat)
  | [], st => .ok st
  | u :: us, (seen, mx) =>
    match c[u]? with
    | none => .panic
    | some cu =>
      if cu > -1 then
        let k := cu.toNat
        if k < seen.length then greedyMark c us (seen.set k true, if k > mx then k else mx) else .panic
      else greedyMark c us (seen, mx)

/-- `for i = 0; i < n; i++ { if !seen[i] { found; break }; seen[i] = false }` — returns the cleared array, the value
of `i` at exit and whether the `break` was taken -/
def greedyFind (n : Nat) : Nat → Nat → List Bool → List Bool × Nat × Bool
  | 0, i, seen => (seen, i, false)
  | fuel + 1, i, seen =>
    if i < n then
      if seen.getD i false then greedyFind n fuel (i + 1) (seen.set i false) else (seen, i, true)
    else (seen, i, false)

/-- `for ; i <= max; i++ { seen[i] = false }` -/
def greedyClear : Nat → Nat → Nat → List Bool → Outcome (List Bool)
  | 0, i, mx, seen => if i ≤ mx then .outOfFuel else .ok seen
  | fuel + 1, i, mx, seen =>
    if i ≤ mx then (if i < seen.length then greedyClear fuel (i + 1) mx (seen.set i false) else .panic) else .ok seen

def greedyStep (g : G) (st : Greedy) (v : Nat) : Outcome Greedy :=
  if v < g.n then
    match greedyMark st.c (g.nbrs v) (st.seen, 0) with
    | .ok (seen1, mx) =>
      let (seen2, i, found) := greedyFind g.n g.n 0 seen1
      let c' := if found then st.c.set v (i : Int) else st.c
      let mc' := if found && (i : Int) > st.maxColour then (i : Int) else st.maxColour
      match greedyClear (g.n + 1) i mx seen2 with
      | .ok seen3 => .ok { c := c', seen := seen3, maxColour := mc' }
      | .panic => .panic
      | .outOfFuel => .outOfFuel
    | .panic => .panic
    | .outOfFuel => .outOfFuel
  else .panic

def greedyLoop (g : G) : List Nat → Greedy → Outcome Greedy
  | [], st => .ok st
  | v :: vs, st =>
    match greedyStep g st v with
    | .ok st' => greedyLoop g vs st'
    | .panic => .panic
    | .outOfFuel => .outOfFuel

/-- `graph.GreedyColor(g, order)` -/
def greedyColor (g : G) (order : List Nat) : Outcome (Int × List Int) :=
  if order.length != g.n then .panic
  else
    match greedyLoop g order { c := List.replicate g.n (-1), seen := List.replicate g.n false, maxColour := -1 } with
    | .ok st => .ok (st.maxColour, st.c)
    | .panic => .panic
    | .outOfFuel => .outOfFuel

/-- the first-fit colour for a vertex whose coloured neighbours have the colours `used` -/
def firstFree (used : List Nat) : Nat → Nat → Nat
  | 0, i => i
  | fuel + 1, i => if used.contains i then firstFree used fuel (i + 1) else i

/-! ### deletion–contraction (`graph.ChromaticPolynomial`) -/

/-- store the adjacency relation in a table (same graph, constant-time lookups; keeps closures shallow) -/
def tabulate (g : G) : G :=
  let n := g.n
  let t : Array Bool := ((List.range (n * n)).map fun k => g.adj (k / n) (k % n)).toArray
  { n := n, adj := fun u v => u < n && v < n && t.getD (u * n + v) false }

def removeEdge (g : G) (i j : Nat) : G :=
  { n := g.n, adj := fun u v => g.adj u v && !((u == i && v == j) || (u == j && v == i)) }

/-- `AddEdge(i, v)` for every neighbour `v` of `j`, then `RemoveVertex(j)` (vertices above `j` move down by one) -/
def contract (g : G) (i j : Nat) : G :=
  let up := fun x => if x < j then x else x + 1
  { n := g.n - 1
    adj := fun u v =>
      let u' := up u
      let v' := up v
      u < g.n - 1 && v < g.n - 1 &&
        (g.adj u' v' || (u' == i && v' != i && g.adj j v') || (v' == i && u' != i && g.adj j u')) }

/-- the edge chosen by the Go loop: least `i` with a neighbour `j < i`, and the least such `j` -/
def firstEdge (g : G) : Option (Nat × Nat) :=
  (List.range g.n).findSome? fun i => ((List.range i).find? fun j => g.adj i j).map fun j => (i, j)

def addAt (poly : List Int) (k : Nat) (s : Int) : Outcome (List Int) :=
  if k < poly.length then .ok (poly.set k (poly.getD k 0 + s)) else .panic

/-- the explicit-stack loop of `ChromaticPolynomial`; head of `stack` = top -/
def cpLoop : Nat → List (G × Int) → List Int → Outcome (List Int)
  | _, [], poly => .ok poly
  | 0, _ :: _, _ => .outOfFuel
  | fuel + 1, (h, s) :: rest, poly =>
    if h.m == 0 then
      match addAt poly h.n s with
      | .ok poly' => cpLoop fuel rest poly'
      | .panic => .panic
      | .outOfFuel => .outOfFuel
    else
      match firstEdge h with
      | none => .panic
      | some (i, j) =>
        cpLoop fuel ((tabulate (contract h i j), -s) :: (tabulate (removeEdge h i j), s) :: rest) poly

def chromaticPolynomial (g : G) : Outcome (List Int) :=
  cpLoop (2 ^ (g.n + g.m + 1)) [(tabulate g, 1)] (List.replicate (g.n + 1) 0)

def evalPoly (p : List Int) (k : Int) : Int := p.foldr (fun a acc => a + k * acc) 0

end CliqueColour
