import Mamba.Model.IntSort
/-!
# Specification vocabulary for `ints.Sort` (property C17)

Mathematical definitions used by the theorems of `Props/C17.lean` (core Lean only).
-/
namespace IntSort

/-- the element at a Go index (0 outside the slice; only used under bounds hypotheses) -/
def vi (d : Data) (k : Int) : Int := if 0 ≤ k then (d[k.toNat]?).getD 0 else 0

/-- `data[a:b]` is sorted -/
def SortedOn (a b : Int) (d : Data) : Prop := ∀ p q, a ≤ p → p < q → q < b → vi d p ≤ vi d q

/-- `d'` is `d` with `data[a:b]` rearranged: same length, nothing outside `[a,b)` changed, every element of
the range comes from the range -/
def RP (a b : Int) (d d' : Data) : Prop :=
  d'.size = d.size ∧ (∀ k, (k < a ∨ b ≤ k) → vi d' k = vi d k) ∧
  (∀ k, a ≤ k → k < b → ∃ k', a ≤ k' ∧ k' < b ∧ vi d' k = vi d k')

/-- what `quickSort` needs from `doPivot(data, lo, hi)`: it returns `(midlo, midhi)` with ordered bounds, only
rearranges `data[lo:hi]`, and `data[lo:midlo] ≤ data[midlo:midhi] ≤ data[midhi:hi]` element-wise with
`data[midlo:midhi]` constant.  (Progress, `midlo < midhi`, is not needed: the loop is bounded by `maxDepth`.) -/
def PivotOK (d : Data) (lo hi : Int) : Prop :=
  ∃ d1 mlo mhi, doPivot d lo hi = .ok (d1, mlo, mhi) ∧ RP lo hi d d1 ∧ lo ≤ mlo ∧ mlo ≤ mhi ∧ mhi ≤ hi ∧
    (∀ p q, lo ≤ p → p < mlo → mlo ≤ q → q < hi → vi d1 p ≤ vi d1 q) ∧
    (∀ p q, mlo ≤ p → p < mhi → mlo ≤ q → q < mhi → vi d1 p = vi d1 q) ∧
    (∀ p q, mlo ≤ p → p < mhi → mhi ≤ q → q < hi → vi d1 p ≤ vi d1 q)

end IntSort
