import Mamba.Model.IntSort
/-!
# Specification vocabulary for `ints.Sort` (property C17)

Mathematical definitions used by the theorems of `Props/C17.lean` (core Lean only).
-/
namespace IntSort

/-- the element at a Go index (0 outside the slice; only used under bounds hypotheses) -/
def vi (d : Data) (k : Int) : Int := if 0 ≤ k then (d[k.toNat]?).getD 0 else 0

/-- `data[a:b]` is sorted -/
def SortedOn (a b : Int) (d : Data) : Prop := ∀ p q, a ≤ p → p < q → q < b → vi d p ≤ vi d q

/-- `d'` is `d` with `data[a:b]` rearranged: same length, nothing outside `[a,b)` changed, every element of
the range comes from the range -/
def RP (a b : Int) (d d' : Data) : Prop :=
  d'.size = d.size ∧ (∀ k, (k < a ∨ b ≤ k) → vi d' k = vi d k) ∧
  (∀ k, a ≤ k → k < b → ∃ k', a ≤ k' ∧ k' < b ∧ vi d' k = vi d k')

/-- what `quickSort` needs from `doPivot(data, lo, hi)`: it returns `(midlo, midhi)` with ordered bounds, only
rearranges `data[lo:hi]`, and `data[lo:midlo] ≤ data[midlo:midhi] ≤ data[midhi:hi]` element-wise with
`data[midlo:midhi]` constant.  (Progress, `midlo < midhi`, is not needed: the loop is bounded by `maxDepth`.) -/
def PivotOK (c : Cfg) (d : Data) (lo hi : Int) : Prop :=
  ∃ d1 mlo mhi, doPivot c d lo hi = .ok (d1, mlo, mhi) ∧ RP lo hi d d1 ∧ lo ≤ mlo ∧ mlo ≤ mhi ∧ mhi ≤ hi ∧
    (∀ p q, lo ≤ p → p < mlo → mlo ≤ q → q < hi → vi d1 p ≤ vi d1 q) ∧
    (∀ p q, mlo ≤ p → p < mhi → mlo ≤ q → q < mhi → vi d1 p = vi d1 q) ∧
    (∀ p q, mlo ≤ p → p < mhi → mhi ≤ q → q < hi → vi d1 p ≤ vi d1 q)

/-- The configurations for which `Sort` is proved correct.  Tuning constants may take any value for which the
algorithm works: the quicksort threshold any `T ≥ 2` (`doPivot` needs 3 distinct sample positions), the tail test
any `K ≤ 1`, the Shell pass any start `a+G` and offset `i-G'` with `0 ≤ G' ≤ G`, the ninther threshold, `protect` bound, `dups` bound and `maxDepth` factor
anything, the ninther step `s = n/D` any `D ≥ 3` with factor `0 ≤ M < D` (all nine sample positions stay inside
the range), the duplicate test divisor `Q < 0` (never taken) or `Q ≥ 3` (the probed positions `m`, `b-1` stay inside
the `≤ pivot` zone), the heap build start `(hi-S)/D` any start at or after the last inner node, the `maxDepth` shift
any `S ≥ 1` (termination).  The heap child arithmetic `2*root+1`, `+1` and the midpoint shift `>> 1` are dictated by
the algorithm. -/
def Cfg.Admissible (c : Cfg) : Prop :=
  2 ≤ c.qsSmall ∧ c.qsMin ≤ 1 ∧ (0 ≤ c.shellGapIdx ∧ c.shellGapIdx ≤ c.shellGap) ∧ c.pivotShift = 1 ∧
  3 ≤ c.nintherDiv ∧ (0 ≤ c.nintherMul ∧ 0 ≤ c.nintherMul2) ∧ (c.nintherMul < c.nintherDiv ∧ c.nintherMul2 < c.nintherDiv) ∧
  (c.dupsDiv < 0 ∨ 3 ≤ c.dupsDiv) ∧
  c.heapMul = 2 ∧ c.heapAdd = 1 ∧ (c.heapSib = 1 ∧ c.heapSibIdx = 1) ∧
  ((c.heapBuildDiv = 2 ∧ c.heapBuildSub ≤ 2) ∨ (c.heapBuildDiv = 1 ∧ c.heapBuildSub ≤ 1)) ∧
  1 ≤ c.mdShift

instance (c : Cfg) : Decidable c.Admissible := by unfold Cfg.Admissible; infer_instance

end IntSort
