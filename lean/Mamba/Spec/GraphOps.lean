import Mamba.Spec.Graph
/-!
# Edit operations on the abstract simple graph `GraphSpec.G` (property C05, core Lean only)

The "plain adjacency-set model" side of C05: what `AddVertex`, `RemoveVertex`, `AddEdge`, `RemoveEdge`,
`InducedSubgraph` and `Copy` mean on a loop-free undirected graph on `0..n-1`.
-/
namespace GraphRep
open GraphSpec

/-- renumbering of `RemoveVertex v`: new index `a` is old index `a` below `v` and `a+1` from `v` on -/
def up (v a : Nat) : Nat := if a < v then a else a + 1

/-- `AddVertex(S)`: a new vertex `n` joined to the vertices in `S` -/
def addVertexG (g : G) (S : List Nat) : G :=
  { n := g.n + 1
    adj := fun u v => (u == g.n && S.contains v) || (v == g.n && S.contains u) || g.adj u v }

/-- `RemoveVertex(v)`: vertices above `v` move down by one -/
def removeVertexG (g : G) (v : Nat) : G :=
  { n := g.n - 1
    adj := fun a b => g.adj (up v a) (up v b) }

/-- `AddEdge(i, j)` (nothing for `i = j`) -/
def addEdgeG (g : G) (i j : Nat) : G :=
  { n := g.n
    adj := fun u v => g.adj u v || (i != j && ((u == i && v == j) || (u == j && v == i))) }

/-- `RemoveEdge(i, j)` -/
def removeEdgeG (g : G) (i j : Nat) : G :=
  { n := g.n
    adj := fun u v => g.adj u v && !((u == i && v == j) || (u == j && v == i)) }

/-- one edit operation (arguments are vertex numbers) -/
inductive Op where
  | av (S : List Nat)      -- AddVertex(S)
  | rv (v : Nat)           -- RemoveVertex(v)
  | ae (i j : Nat)         -- AddEdge(i, j)
  | re (i j : Nat)         -- RemoveEdge(i, j)
  | cp                     -- g = g.Copy()
  | is (V : List Nat)      -- g = g.InducedSubgraph(V)
  deriving Repr

/-- the operation on the abstract graph -/
def stepG (g : G) : Op → G
  | .av S => addVertexG g S
  | .rv v => removeVertexG g v
  | .ae i j => addEdgeG g i j
  | .re i j => removeEdgeG g i j
  | .cp => g
  | .is V => g.induced V

def runG (g : G) (ops : List Op) : G := ops.foldl stepG g

/-- "valid arguments" of the property, relative to the current number of vertices `n`:
vertices in range; `AddVertex` neighbour lists distinct (any order); `InducedSubgraph` lists distinct;
any vertex may be removed; repeated / absent edges and `i = j` allowed. -/
def Op.valid (n : Nat) : Op → Prop
  | .av S => S.Nodup ∧ ∀ s ∈ S, s < n
  | .rv v => v < n
  | .ae i j => i < n ∧ j < n
  | .re i j => i < n ∧ j < n
  | .cp => True
  | .is V => V.Nodup ∧ ∀ s ∈ V, s < n

/-- validity of a whole history (each op valid for the graph it is applied to) -/
def validSeq (g : G) : List Op → Prop
  | [] => True
  | o :: os => o.valid g.n ∧ validSeq (stepG g o) os

end GraphRep
