import Mamba.Model.IterBase
/-!
# Specifications for C15: the advertised families as explicit lists in the documented order, and the pure
successor functions the models are shown to implement.
-/
namespace Iter.Spec

def zeros (n : Nat) : List Int := List.replicate n 0

/-! ## Product: `{0..n₀-1} × … × {0..n_{m-1}-1}` in lexicographic order -/

def prodList : List Int → List (List Int)
  | [] => [[]]
  | n :: ns => (List.range n.toNat).flatMap (fun (a : Nat) => (prodList ns).map (fun x => (a : Int) :: x))

/-- lexicographic successor inside the product (`none` at the last element) -/
def prodSucc : List Int → List Int → Option (List Int)
  | n :: ns, a :: x =>
    match prodSucc ns x with
    | some y => some (a :: y)
    | none => if a + 1 < n then some ((a + 1) :: zeros ns.length) else none
  | _, _ => none

/-- membership in the product -/
def InProd : List Int → List Int → Prop
  | [], [] => True
  | n :: ns, a :: x => 0 ≤ a ∧ a < n ∧ InProd ns x
  | _, _ => False

end Iter.Spec
