import Mamba.Model.Dawg
/-! Language-level notions for C12: the words accepted from a node, the sub-language after a letter, and the
representation relation `Rep h p L` ("the sub-automaton below `p` is a correct, rank-annotated, deterministic index of
the strictly increasing word list `L`"). -/
namespace Dawg

abbrev Word := List Nat

/-- `some t` when the word is `c :: t` -/
def stripC (c : Nat) : Word → Option Word
  | a :: t => if a = c then some t else none
  | [] => none

/-- the words of `L` that start with `c`, with that letter removed -/
def sub (L : List Word) (c : Nat) : List Word := L.filterMap (stripC c)

/-- the words of `L` that start with `x`, with that prefix removed -/
def subw (L : List Word) : Word → List Word
  | [] => L
  | c :: x => subw (sub L c) x

/-- the automaton accepts `w` starting at node `p` (links are chosen as the code does: first matching label) -/
def accepts (h : Heap) : Nat → Word → Prop
  | p, [] => ∃ n, h[p]? = some n ∧ n.final = true
  | p, c :: w => ∃ n j q, h[p]? = some n ∧ findLabel n.labels c = some j ∧ n.links[j]? = some q ∧ accepts h q w

/-- the node reached from `p` by reading `x` -/
def walk (h : Heap) : Nat → Word → Option Nat
  | p, [] => some p
  | p, c :: x =>
    match h[p]? with
    | none => none
    | some n =>
      match findLabel n.labels c with
      | none => none
      | some j =>
        match n.links[j]? with
        | none => none
        | some q => walk h q x

/-- `p` is the root of a correct index of the strictly increasing word list `L`: final flag, word count, strictly
increasing labels (one per first letter of `L`), and every child represents the corresponding sub-language. -/
inductive Rep (h : Heap) : Nat → List Word → Prop where
  | mk {p : Nat} {n : Node} {L : List Word} :
      h[p]? = some n → L.Pairwise (· < ·) → (n.final = true ↔ [] ∈ L) → n.numWords = L.length →
      n.labels.Pairwise (· < ·) → n.labels.length = n.links.length →
      (∀ c, c ∈ n.labels ↔ sub L c ≠ []) →
      (∀ (j c q : Nat), n.labels[j]? = some c → n.links[j]? = some q → Rep h q (sub L c)) →
      Rep h p L

end Dawg
