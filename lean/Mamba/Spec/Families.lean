import Mamba.Spec.Graph
/-!
# C06 — definitions of the named graph families and of the transformations (core Lean only)

Every definition is an adjacency predicate on the shared abstract type `GraphSpec.G`, written from the doc comment
of the Go function / the standard mathematical definition — *not* from the loops that fill the byte array.
The faithful models of the loops are in `Mamba/Model/Construct.lean`; `Mamba/Props/C06.lean` proves that the two
agree for all accepted parameters.

Vertex numbering conventions that the Go doc comments leave implicit are stated where they are chosen.
-/
namespace Families
open GraphSpec

/-- symmetric, loop-free, in-range closure of a directed relation: the usual way a family is given
("`u_i` is joined to `u_{i+1}`") -/
def symm (n : Nat) (rel : Nat → Nat → Bool) : G :=
  { n := n, adj := fun u v => u != v && u < n && v < n && (rel u v || rel v u) }

/-! ## Named families -/

/-- `CompleteGraph(n)`: all pairs of distinct vertices -/
def complete (n : Nat) : G := symm n fun _ _ => true

/-- index of the part containing vertex `v` when the parts have sizes `nums` and are laid out consecutively -/
def partOf : List Nat → Nat → Nat
  | [], _ => 0
  | k :: ks, v => if v < k then 0 else partOf ks (v - k) + 1

/-- `CompletePartiteGraph(nums…)`: the `i`th part has `nums[i]` consecutive vertices; adjacent iff in different parts -/
def completePartite (nums : List Nat) : G :=
  symm nums.sum fun u v => partOf nums u != partOf nums v

/-- `Path(n)`: `0 - 1 - … - (n-1)` -/
def path (n : Nat) : G := symm n fun u v => u + 1 == v

/-- `Cycle(n)` (`n ≥ 3`): `i` is joined to `i+1 mod n` -/
def cycle (n : Nat) : G := symm n fun u v => (u + 1) % n == v

/-- `Star(n)`: vertex `0` is joined to every other vertex -/
def star (n : Nat) : G := symm n fun u _ => u == 0

/-- `RookGraph(n, m)`: the cells of an `n × m` board, two cells adjacent iff they lie in a common row or column.
Numbering (implied by `LineGraphDense(CompletePartiteGraph(n, m))`: cell = edge row–column of `K_{n,m}`, edges in
DenseGraph order): cell (row `r < n`, column `c < m`) is vertex `c * n + r`. -/
def rook (n m : Nat) : G :=
  symm (n * m) fun x y => x % n == y % n || x / n == y / n

/-- `FlowerSnark(n)` (`n` odd), https://en.wikipedia.org/wiki/Flower_snark : `n` stars `A_i; B_i, C_i, D_i`
(vertices `4i, 4i+1, 4i+2, 4i+3`), the cycle `B_0 … B_{n-1}` and the `2n`-cycle `C_0 … C_{n-1} D_0 … D_{n-1}`. -/
def flowerSnark (n : Nat) : G :=
  symm (4 * n) fun u v =>
    let i := u / 4
    let r := u % 4
    (r == 0 && v / 4 == i)                                  -- centre A_i to B_i, C_i, D_i
    || (r == 1 && v % 4 == 1 && v / 4 == (i + 1) % n)       -- B_i B_{i+1 mod n}
    || (r == 2 && i + 1 < n && v == u + 4)                  -- C_i C_{i+1}
    || (r == 3 && i + 1 < n && v == u + 4)                  -- D_i D_{i+1}
    || (r == 2 && i + 1 == n && v == 3)                     -- C_{n-1} D_0
    || (r == 3 && i + 1 == n && v == 2)                     -- D_{n-1} C_0

/-- `HypercubeGraph(dim)`: vertices `0 … 2^dim - 1`, adjacent iff the binary expansions differ in exactly one place -/
def hypercube (dim : Nat) : G :=
  symm (2 ^ dim) fun u v => (List.range dim).any fun j => u ^^^ v == 2 ^ j

/-- `FoldedHypercubeGraph(dim)` (`dim ≥ 1`): the `(dim-1)`-cube with every vertex also joined to its antipode
(the vertex differing in all `dim - 1` places) -/
def foldedHypercube (dim : Nat) : G :=
  symm (2 ^ (dim - 1)) fun u v =>
    ((List.range (dim - 1)).any fun j => u ^^^ v == 2 ^ j) || u ^^^ v == 2 ^ (dim - 1) - 1

/-- binomial coefficient (Pascal's rule) -/
def choose : Nat → Nat → Nat
  | _, 0 => 1
  | 0, _ + 1 => 0
  | n + 1, k + 1 => choose n k + choose n (k + 1)

/-- largest `c` in `lo … lo + fuel` with `choose c k ≤ r` (searching upwards from `lo`, where `choose lo k ≤ r`) -/
def largestBelow (k r : Nat) : Nat → Nat → Nat
  | 0, lo => lo
  | fuel + 1, lo => if choose (lo + 1) k ≤ r then largestBelow k r fuel (lo + 1) else lo

/-- the `r`th `k`-subset of the naturals in co-lexicographic order, ascending (the combinatorial number system:
the largest element `c` is the largest with `choose c k ≤ r`, then recurse on `r - choose c k`). -/
def colexUnrank : Nat → Nat → List Nat
  | _, 0 => []
  | r, k + 1 =>
    let c := largestBelow (k + 1) r r k
    colexUnrank (r - choose c (k + 1)) k ++ [c]

def disjoint (a b : List Nat) : Bool := a.all fun x => !b.contains x
def subset (a b : List Nat) : Bool := a.all fun x => b.contains x

/-- `KneserGraph(n, k)`: one vertex per `k`-subset of `{0..n-1}`, numbered in co-lexicographic order; adjacent iff disjoint -/
def kneser (n k : Nat) : G :=
  symm (choose n k) fun i j => disjoint (colexUnrank i k) (colexUnrank j k)

/-- `BipartiteKneserGraph(n, k)`: vertices `0 … N-1` are the `k`-subsets, `N … 2N-1` the `(n-k)`-subsets (`N = C(n,k)`,
both in co-lexicographic order); two sets on different sides are adjacent iff one is a subset of the other. -/
def bipartiteKneser (n k : Nat) : G :=
  let N := choose n k
  symm (2 * N) fun x y =>
    x < N && N ≤ y &&
      (subset (colexUnrank x k) (colexUnrank (y - N) (n - k)) || subset (colexUnrank (y - N) (n - k)) (colexUnrank x k))

/-- `CirculantGraph(n, diffs…)`: `i ~ j` iff `j - i` is congruent modulo `n` to an element of `diffs` -/
def circulant (n : Nat) (diffs : List Int) : G :=
  symm n fun u v => diffs.any fun d => ((v : Int) - (u : Int) - d) % (n : Int) == 0

/-- `CirculantBipartiteGraph(n, m, diffs…)`: `a_i = i` (`i < n`), `b_j = n + j` (`j < m`); `a_i ~ b_j` iff `j - i` is
congruent modulo `m` to an element of `diffs` -/
def circulantBipartite (n m : Nat) (diffs : List Int) : G :=
  symm (n + m) fun x y =>
    x < n && n ≤ y && diffs.any fun d => (((y - n : Nat) : Int) - (x : Int) - d) % (m : Int) == 0

/-- `GeneralisedPetersenGraph(n, k)`: `u_i = i`, `v_i = n + i`; edges `u_i u_{i+1}`, `u_i v_i`, `v_i v_{i+k}` (indices mod `n`) -/
def generalisedPetersen (n k : Nat) : G :=
  symm (2 * n) fun x y =>
    (x < n && y < n && (x + 1) % n == y)
    || (x < n && y == n + x)
    || (n ≤ x && n ≤ y && (x - n + k) % n == y - n)

/-- `FriendshipGraph(n)`: `n` triangles `{0, 2i+1, 2i+2}` sharing the vertex `0` -/
def friendship (n : Nat) : G :=
  symm (2 * n + 1) fun x y => x == 0 || (0 < x && 0 < y && (x - 1) / 2 == (y - 1) / 2)

/-! ## Transformations (on abstract graphs) -/

/-- `LineGraphDense(g)`: vertex `a` is the `a`th edge of `g` in DenseGraph order (`G.edges`); two are adjacent iff the
edges share an end point -/
def lineGraph (g : G) : G :=
  let es := g.edges
  symm es.length fun a b =>
    match es[a]?, es[b]? with
    | some (u, v), some (x, y) => u == x || u == y || v == x || v == y
    | _, _ => false

/-- `SplitEdge(g, i, j)`: the edge `ij` is removed (if present) and a new vertex `n` is joined to `i` and `j` -/
def splitEdge (g : G) (i j : Nat) : G :=
  symm (g.n + 1) fun u v =>
    (u < g.n && v < g.n && g.adj u v && !((u == i && v == j) || (u == j && v == i)))
    || (v == g.n && (u == i || u == j))

/-- renumbering after the removal of vertex `j`: new vertex `x` is old vertex `x` (below `j`) or `x + 1` -/
def up (j x : Nat) : Nat := if x < j then x else x + 1

/-- `Contract(g, i, j)`: `i` receives all neighbours of `j`, then `j` is removed (vertices above `j` move down by one) -/
def contract (g : G) (i j : Nat) : G :=
  symm (g.n - 1) fun x y =>
    let u := up j x
    let v := up j y
    g.adj u v || (u == i && g.adj j v)

/-! ## Elementary edits of an abstract graph (what `EditableGraph` promises; used to model `SplitEdge`/`Contract`
and the live views) -/

def addEdge (g : G) (i j : Nat) : G :=
  { n := g.n, adj := fun u v => g.adj u v || (i != j && i < g.n && j < g.n && ((u == i && v == j) || (u == j && v == i))) }

def removeEdge (g : G) (i j : Nat) : G :=
  { n := g.n, adj := fun u v => g.adj u v && !((u == i && v == j) || (u == j && v == i)) }

/-- append vertex `n` joined to the vertices of `nb` -/
def addVertex (g : G) (nb : List Nat) : G :=
  { n := g.n + 1
    adj := fun u v =>
      (u < g.n && v < g.n && g.adj u v) || (v == g.n && u < g.n && nb.contains u) || (u == g.n && v < g.n && nb.contains v) }

def removeVertex (g : G) (j : Nat) : G :=
  { n := g.n - 1, adj := fun x y => x < g.n - 1 && y < g.n - 1 && g.adj (up j x) (up j y) }

end Families
