import Mamba.Basic
/-!
Line protocol helpers for the model driver `mdrv` (one request line in, one reply line out).
Not part of any theorem; part of the correspondence check's trusted base.
-/
namespace Proto

def words (s : String) : List String :=
  (s.splitOn " ").filter (· ≠ "")

def int? (s : String) : Option Int := s.toInt?
def nat? (s : String) : Option Nat := s.toNat?

def ints? (l : List String) : Option (List Int) := l.mapM int?
def nats? (l : List String) : Option (List Nat) := l.mapM nat?

def showInts (l : List Int) : String :=
  "[" ++ " ".intercalate (l.map toString) ++ "]"
def showNats (l : List Nat) : String :=
  "[" ++ " ".intercalate (l.map toString) ++ "]"

def showOutcome {α : Type} (f : α → String) : Outcome α → String
  | .ok a => f a
  | .panic => "panic"
  | .outOfFuel => "outoffuel"

/-- split a token list at every occurrence of `sep` -/
def splitAt (sep : String) (l : List String) : List (List String) :=
  let rec go (acc : List String) (out : List (List String)) : List String → List (List String)
    | [] => (acc.reverse :: out).reverse
    | x :: xs => if x = sep then go [] (acc.reverse :: out) xs else go (x :: acc) out xs
  go [] [] l

end Proto
