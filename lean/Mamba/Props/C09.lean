import Mamba.Lemmas.CliqueColourGreedy
import Mamba.Lemmas.CliqueColourPolyTerm
import Mamba.Lemmas.CliqueColourCard
import Mamba.Lemmas.CliqueGoBK2
import Mamba.Lemmas.DegGo2
import Mamba.Model.DsaturGo
import Mamba.Lemmas.DsaturInv
import Mamba.Lemmas.DsaturC8
import Mamba.Lemmas.ChromaticIndexGo
/-!
# C09 — property theorems (clique and colouring invariants; checkers for the witnesses)

All statements are about the executable definitions of `Mamba/Spec/CliqueColour.lean` that the driver
`Mamba/Drv/C09.lean` runs, for EVERY graph `g : GraphSpec.G` (well-formed = symmetric, loop-free, supported on
`0..n-1`; the driver's graphs are `tabulate (ofEdges n es)`, well-formed by `driver_graph_wf`).
-/
namespace CliqueColour
open GraphSpec

/-- the graphs the driver computes on are well-formed, and tabulation does not change the adjacency relation -/
theorem driver_graph_wf (n : Nat) (es : List (Nat × Nat)) :
    (tabulate (ofEdges n es)).WF ∧ (tabulate (ofEdges n es)).n = n ∧
      ∀ u v, (tabulate (ofEdges n es)).adj u v = (ofEdges n es).adj u v :=
  ⟨tabulate_wf (ofEdges_wf n es), rfl, tabulate_adj_wf (ofEdges_wf n es)⟩

/-! ## cliques -/

/-- the checker for a clique witness decides the definition -/
theorem isClique_sound (g : G) (s : List Nat) : isClique g s = true ↔ IsClique g s :=
  isClique_iff g s

theorem isMaximalClique_sound (g : G) (s : List Nat) : isMaximalClique g s = true ↔ IsMaximalClique g s :=
  isMaximalClique_iff g s

/-- `cliqueNumberSpec g` is the maximum size of a clique: it is attained (by an increasing list of vertices) and it
bounds the size of every clique (given as any duplicate-free list of vertices). -/
theorem cliqueNumberSpec_correct (g : G) :
    (∃ s, IsClique g s ∧ s.length = cliqueNumberSpec g) ∧ ∀ s, IsClique g s → s.length ≤ cliqueNumberSpec g := by
  obtain ⟨s, _, hc, hl⟩ := cliqueNumberSpec_witness g
  exact ⟨⟨s, hc, hl⟩, fun s hs => cliqueNumberSpec_bound hs⟩

/-- `independenceNumberSpec g` is the maximum size of an independent set. -/
theorem independenceNumberSpec_correct (g : G) :
    (∃ s, IsIndependent g s ∧ s.length = independenceNumberSpec g) ∧
      ∀ s, IsIndependent g s → s.length ≤ independenceNumberSpec g := by
  obtain ⟨⟨s, hc, hl⟩, hb⟩ := cliqueNumberSpec_correct g.complement
  exact ⟨⟨s, (isClique_complement_iff g s).1 hc, hl⟩, fun s hs => hb s ((isClique_complement_iff g s).2 hs)⟩

/-- `allMaximalCliquesSpec g` lists exactly the maximal cliques, each as a strictly increasing list, each exactly
once: membership is characterised, the list has no duplicates, and every maximal clique (given as any list) has
exactly one representative in it. -/
theorem allMaximalCliquesSpec_correct (g : G) :
    (∀ s, s ∈ allMaximalCliquesSpec g ↔ (s.Pairwise (· < ·) ∧ IsMaximalClique g s)) ∧
    (allMaximalCliquesSpec g).Nodup ∧
    ∀ s, IsMaximalClique g s →
      ∃ t ∈ allMaximalCliquesSpec g, t.Perm s ∧ ∀ t' ∈ allMaximalCliquesSpec g, t'.Perm s → t' = t := by
  have hmem : ∀ s, s ∈ allMaximalCliquesSpec g ↔ (s.Pairwise (· < ·) ∧ IsMaximalClique g s) := by
    intro s
    simp only [allMaximalCliquesSpec, List.mem_filter, mem_subsets, isMaximalClique_iff, sublist_range_iff]
    constructor
    · rintro ⟨⟨h1, _⟩, h3⟩; exact ⟨h1, h3⟩
    · rintro ⟨h1, h3⟩; exact ⟨⟨h1, h3.1.2.1⟩, h3⟩
  refine ⟨hmem, (nodup_subsets List.nodup_range).sublist List.filter_sublist, fun s hs => ?_⟩
  have hp := canon_perm hs.1.1 hs.1.2.1
  have hsorted : (canon g.n s).Pairwise (· < ·) := (sublist_range_iff.1 (canon_sublist _ _)).1
  refine ⟨canon g.n s, (hmem _).2 ⟨hsorted, hs.of_perm hp⟩, hp, fun t' ht' hp' => ?_⟩
  exact List.Perm.eq_of_pairwise (le := (· < ·)) (fun a b _ _ h1 h2 => by omega) ((hmem _).1 ht').1 hsorted
    (hp'.trans hp.symm)

/-! ## Bron–Kerbosch with pivoting as coded (faithful models of `AllMaximalCliques`, `CliqueNumber`,
`IndependenceNumber`) -/

/-- for every well-formed graph the faithful model of `graph.AllMaximalCliques` (explicit stack, pivot choice,
swap-remove of `P`, `X` bookkeeping as in graph/clique.go) terminates within its fuel `2^n`, never panics, and the
list of cliques it sends on the channel consists of maximal cliques and contains every maximal clique exactly once:
sorting each reported clique (`canon`) gives a permutation of the duplicate-free list `allMaximalCliquesSpec g`. -/
theorem allMaximalCliques_model_correct {g : G} (hw : g.WF) :
    ∃ out, allMaximalCliquesGo g = .ok out ∧ (∀ c ∈ out, IsMaximalClique g c) ∧
      (out.map (canon g.n)).Perm (allMaximalCliquesSpec g) ∧ (out.map (canon g.n)).Nodup := by
  obtain ⟨out, he, hcl, hperm⟩ := allMaximalCliquesGo_spec hw
  refine ⟨out, he, fun c hc => ?_, hperm, hperm.nodup_iff.2 (nodup_allMax g)⟩
  have hin : canon g.n c ∈ allMaximalCliquesSpec g := hperm.subset (List.mem_map.2 ⟨c, hc, rfl⟩)
  exact (mem_allMax.1 hin).2.of_perm (canon_perm (hcl c hc).1 (hcl c hc).2.1).symm

/-- the faithful model of `graph.CliqueNumber` (the same loop, keeping the largest reported size) returns the clique
number -/
theorem cliqueNumber_model_correct {g : G} (hw : g.WF) : cliqueNumberGo g = .ok (cliqueNumberSpec g) :=
  cliqueNumberGo_spec hw

/-- the faithful model of `graph.IndependenceNumber` (clique number of the complement view) returns the independence
number -/
theorem independenceNumber_model_correct {g : G} (hw : g.WF) :
    independenceNumberGo g = .ok (independenceNumberSpec g) :=
  cliqueNumberGo_spec (complement_wf g hw)

/-! ## vertex colourings -/

/-- the colouring checker decides properness of the colouring `v ↦ c[v]` -/
theorem isProperColouring_sound (g : G) (c : List Nat) :
    isProperColouring g c = true ↔ c.length = g.n ∧ Proper g (fun v => c.getD v 0) := by
  rw [isProperColouring_iff]
  constructor
  · rintro ⟨hl, hp⟩; exact ⟨hl, fun u v hu hv ha => hp u v (by omega) (by omega) ha⟩
  · rintro ⟨hl, hp⟩; exact ⟨hl, fun u v hu hv ha => hp u v (by omega) (by omega) ha⟩

/-- a colouring accepted by the checker with all colours `< k` witnesses `k`-colourability -/
theorem isProperColouring_colourable {g : G} {c : List Nat} {k : Nat} (h : isProperColouring g c = true)
    (hk : ∀ x ∈ c, x < k) : Colourable g k :=
  colourable_of_list ((isProperColouring_iff g c).1 h).1 hk ((isProperColouring_iff g c).1 h).2

/-- the faithful model of Go's `IsProperColouring` returns true exactly for non-nil slices of length `n` with all
colours `≥ 0` and no monochromatic edge -/
theorem isProperColouringGo_correct {g : G} (hw : g.WF) (col : Option (List Int)) :
    isProperColouringGo g col = true ↔
      ∃ c, col = some c ∧ c.length = g.n ∧ (∀ i, i < g.n → 0 ≤ c.getD i 0) ∧
        ∀ u v, u < g.n → v < g.n → g.adj u v = true → c.getD u 0 ≠ c.getD v 0 :=
  isProperColouringGo_iff hw col

/-- the bounded search with the first-fit symmetry break is sound and COMPLETE: it answers true exactly when a proper
colouring with colours `< k` exists -/
theorem colourable_complete {g : G} (hw : g.WF) (k : Nat) : colourableB g k = true ↔ Colourable g k :=
  colourableB_iff hw k

/-- `chromaticNumberSpec g` is the least `k` such that `g` has a proper colouring with `k` colours -/
theorem chromaticNumberSpec_correct {g : G} (hw : g.WF) :
    Colourable g (chromaticNumberSpec g) ∧ (∀ k, k < chromaticNumberSpec g → ¬ Colourable g k) ∧
      chromaticNumberSpec g ≤ g.n := by
  have h := leastFrom_spec (colourableB g) g.n 0 (by
    rw [Nat.zero_add]; exact (colourableB_iff hw _).2 (colourable_n hw))
  refine ⟨(colourableB_iff hw _).1 h.1, fun k hk hc => ?_, by simpa [chromaticNumberSpec] using h.2.2.1⟩
  have := h.2.2.2 k (Nat.zero_le _) hk
  rw [(colourableB_iff hw k).2 hc] at this
  cases this

/-- `IsKColorable` specification: colourable with `k` colours iff `k ≥ χ` -/
theorem colourable_iff_ge_chromaticNumber {g : G} (hw : g.WF) (k : Nat) :
    Colourable g k ↔ chromaticNumberSpec g ≤ k := by
  obtain ⟨h1, h2, _⟩ := chromaticNumberSpec_correct hw
  constructor
  · intro h
    by_contra hlt
    exact h2 k (by omega) h
  · intro h; exact h1.mono h

/-- `countColourings g k` is the number of proper colourings with colours `< k`: it is the length of a duplicate-free
list that contains exactly the colourings (lists of length `n` with entries `< k`) accepted by the checker -/
theorem countColourings_spec {g : G} (hw : g.WF) (k : Nat) :
    ∃ L : List (List Nat), L.Nodup ∧
      (∀ c, c ∈ L ↔ (isProperColouring g c = true ∧ ∀ x ∈ c, x < k)) ∧ countColourings g k = L.length := by
  refine ⟨(exts k g.n []).filter (properB g), (nodup_exts _ _).sublist List.filter_sublist, fun c => ?_,
    countFrom_eq hw g.n [] (by intro u v hu; simp at hu)⟩
  rw [List.mem_filter, mem_exts, isProperColouring_iff, properB_iff]
  constructor
  · rintro ⟨⟨s, rfl, hl, hk⟩, hp⟩
    exact ⟨⟨by simpa using hl, hp⟩, by simpa using hk⟩
  · rintro ⟨⟨hl, hp⟩, hk⟩
    exact ⟨⟨c, by simp, hl, hk⟩, hp⟩

/-- the same as a cardinality: `countColourings g k` is the number of maps `Fin n → Fin k` that give adjacent vertices
different values -/
theorem countColourings_card {g : G} (hw : g.WF) (k : Nat) :
    countColourings g k =
      Fintype.card {f : Fin g.n → Fin k // ∀ u v : Fin g.n, g.adj u v = true → f u ≠ f v} :=
  countColourings_eq_card hw k

/-! ## edge colourings -/

/-- the checker for Go's edge-colouring format is sound: an accepted array has the right length, is 0 on non-edges
and, read as `ec u v = b[idx{u,v}] - 1`, is a proper edge colouring with colours `< k` -/
theorem isProperEdgeColouring_sound {g : G} (hw : g.WF) {b : List Nat} {k : Nat}
    (h : isProperEdgeColouring g b k = true) :
    ProperEdge g k (fun u v => b.getD (eidx u v) 0 - 1) ∧ b.length = g.n * (g.n - 1) / 2 ∧
      ∀ u v, u < g.n → v < g.n → u ≠ v → g.adj u v = false → b.getD (eidx u v) 0 = 0 :=
  isProperEdgeColouring_sound' hw h

/-- `chromaticIndexSpec g` (the chromatic number of the line graph) is the least `k` such that `g` has a proper edge
colouring with `k` colours -/
theorem chromaticIndexSpec_correct {g : G} (hw : g.WF) :
    EdgeColourable g (chromaticIndexSpec g) ∧ ∀ k, k < chromaticIndexSpec g → ¬ EdgeColourable g k := by
  obtain ⟨h1, h2, _⟩ := chromaticNumberSpec_correct (lineGraph_wf g)
  exact ⟨(edgeColourable_iff hw _).2 h1, fun k hk h => h2 k hk ((edgeColourable_iff hw k).1 h)⟩

/-- an edge colouring accepted by the checker with `k` colours shows `χ' ≤ k` -/
theorem isProperEdgeColouring_bound {g : G} (hw : g.WF) {b : List Nat} {k : Nat}
    (h : isProperEdgeColouring g b k = true) : chromaticIndexSpec g ≤ k := by
  by_contra hlt
  exact (chromaticIndexSpec_correct hw).2 k (by omega) ⟨_, (isProperEdgeColouring_sound hw h).1⟩

/-! ## degeneracy -/

/-- the brute-force specification is the degeneracy -/
theorem degeneracySpec_correct (g : G) : IsDegeneracy g (degeneracySpec g) :=
  degeneracySpec_isDegeneracy g

/-- a certificate `(d, order)` accepted by the checker proves that `d` IS the degeneracy (both bounds), hence equals
the specification value -/
theorem degeneracyCert_sound {g : G} (hw : g.WF) {d : Nat} {order : List Nat}
    (h : degeneracyCert g d order = true) : IsDegeneracy g d ∧ d = degeneracySpec g :=
  ⟨degeneracyCert_isDegeneracy hw h,
    isDegeneracy_unique (degeneracyCert_isDegeneracy hw h) (degeneracySpec_isDegeneracy g)⟩

/-- the faithful model of `graph.Degeneracy` (bucket queue as coded in graph/general.go: first non-empty bin, last
vertex of the bin, swap-remove and re-append of the neighbours) never panics, and the pair `(d, order)` it returns is
accepted by the verified certificate checker; hence `d` is the degeneracy (= `degeneracySpec g`) and `order` certifies
it -/
theorem degeneracy_model_correct {g : G} (hw : g.WF) :
    ∃ d order, degeneracyGo g = .ok (d, order) ∧ degeneracyCert g d order = true ∧
      IsDegeneracy g d ∧ d = degeneracySpec g := by
  obtain ⟨d, order, he, hc⟩ := degeneracyGo_spec hw
  exact ⟨d, order, he, hc, (degeneracyCert_sound hw hc).1, (degeneracyCert_sound hw hc).2⟩

/-! ## DSATUR branch and bound (faithful model `dfsDsatur`, `chromaticNumberGo`, `isKColorableGo`, including Go's
`container/heap`) — proved exact

Structure of the proof (Lemmas/Dsatur*.lean): heap operations are permutations and keep the heap order; the
`range`-with-`Fix` loop visits every entry once (`dsatur_visits_all`); a state invariant (`DSInv`: path/heap partition,
saturation counters = numbers of coloured neighbours per colour, frozen counters of path vertices, options =
exactly the feasible colours up to the first unused one, colours used form an initial segment, recorded best
colouring proper with exactly `upperBound` colours) is preserved by the forward step, by recording a colouring and
by a backtracking step; a completeness invariant (`CInv`: for every bound `u ≤ upperBound`, if a proper colouring with
colours `≤ u-2` exists then one extends the current path or a pending alternative on the stack — the first-unused-
colour symmetry break is the colour-swap argument of `colourable_complete`, independent of the vertex the heap
yields); a termination measure bounded by the fuel `(n+2)^(n+2)`. -/

/-- boundary cases of the DSATUR model: the graph without vertices is coloured with 0 colours whatever the bounds; for
`n > 0`, an upper bound of `-1` (`IsKColorable(g, -1)`) answers "no colouring" at once and smaller ones panic (negative
slice length), as in the Go code -/
theorem dsatur_model_boundary (g : G) (lo up : Int) :
    (g.n = 0 → dfsDsatur g lo up = .ok (0, some [])) ∧
    (g.n ≠ 0 → up + 1 = 0 → dfsDsatur g lo up = .ok (-1, none)) ∧
    (g.n ≠ 0 → up + 1 < 0 → dfsDsatur g lo up = .panic) := by
  refine ⟨fun h => by simp [dfsDsatur, h], fun h h0 => ?_, fun h h0 => ?_⟩
  · have hn : (g.n == 0) = false := by simpa using h
    simp [dfsDsatur, hn, h0]
  · have hn : (g.n == 0) = false := by simpa using h
    simp [dfsDsatur, hn, h0]

/-- `heap_perm`: every `container/heap` operation of the model returns a permutation of its input (`Remove(h, 0)`:
of the input without its first entry; `Push`: with the new entry), whatever the order of the heap -/
theorem dsatur_heap_perm (num : List Int) (deg : List Nat) (h : List Nat) (x : Nat) :
    (heapInit num deg h).Perm h ∧ (∀ k, k < h.length → (heapFix num deg h k).Perm h) ∧
      (heapRemove0 num deg (x :: h)).Perm h ∧ (heapPush num deg h x).Perm (x :: h) :=
  ⟨heapInit_perm num deg h, fun _ hk => heapFix_perm num deg h hk, heapRemove0_perm num deg x h,
    heapPush_perm num deg h x⟩

/-- the heap order invariant of `container/heap` (no entry comes strictly before its parent in the order of
`uncolouredHeap.Less`) is established by `Init` and preserved by `Remove(h, 0)` -/
theorem dsatur_heap_order (num : List Int) (deg : List Nat) (h : List Nat) (x : Nat) :
    HeapOK num deg (heapInit num deg h) ∧
      (HeapOK num deg (x :: h) → HeapOK num deg (heapRemove0 num deg (x :: h))) :=
  ⟨(heapInit_spec num deg h).2, fun hok => (heapRemove0_spec num deg x h hok).2⟩

/-- `dsatur_visits_all`: started on a duplicate-free heap that satisfies the heap order, the Go loop
`for k, u := range uh.intHeap { if g.IsEdge(u, v) { seenColours[c]++ … }; heap.Fix(&uh, k) }` — which reads
`intHeap[k]` from the array that `Fix` permutes while the loop runs — increments the counter of EVERY heap entry
adjacent to `v` exactly once and of no other, keeps the heap entries and re-establishes the heap order. (This is
where the heap ORDER matters for correctness: `Fix` must never sift down during this loop.) -/
theorem dsatur_visits_all (g : G) (v c : Nat) (s : Dsat) (hnd : s.heap.Nodup) (hok : HeapOK s.num s.deg s.heap)
    (hrows : ∀ u ∈ s.heap, u < s.seen.length ∧ c < (s.seen.getD u []).length) :
    (fwdLoop g v c (s.heap.length + 1) 0 s).heap.Perm s.heap ∧
      HeapOK (fwdLoop g v c (s.heap.length + 1) 0 s).num (fwdLoop g v c (s.heap.length + 1) 0 s).deg
        (fwdLoop g v c (s.heap.length + 1) 0 s).heap ∧
      ∀ u c', seenAt (fwdLoop g v c (s.heap.length + 1) 0 s) u c' = seenAt s u c' +
        (if u ∈ s.heap ∧ g.adj u v = true ∧ c' = c then 1 else 0) := by
  obtain ⟨h1, h2, _, h4⟩ := fwdLoop_spec g v c s hnd hok hrows
  exact ⟨h1, h2, h4⟩

/-- `dsatur_sound` + `dsatur_complete` + termination, for `ChromaticNumber`: for every well-formed graph the faithful
model of `graph.ChromaticNumber` (CliqueNumber as lower bound, then the DSATUR branch and bound) terminates within its
fuel without panicking and returns the chromatic number together with a colouring that is proper and uses exactly
the colours `0 .. χ-1` -/
theorem chromaticNumber_model_correct {g : G} (hw : g.WF) :
    ∃ c : List Int, chromaticNumberGo g = .ok ((chromaticNumberSpec g : Int), some c) ∧ c.length = g.n ∧
      (∀ v, v < g.n → 0 ≤ c.getD v 0 ∧ c.getD v 0 < (chromaticNumberSpec g : Int)) ∧
      (∀ u v, u < g.n → v < g.n → g.adj u v = true → c.getD u 0 ≠ c.getD v 0) ∧
      ∀ x : Nat, x < chromaticNumberSpec g → ∃ v, v < g.n ∧ c.getD v 0 = (x : Int) := by
  obtain ⟨c, he, h1, h2, h3, h4⟩ := chromaticNumberGo_spec hw
  exact ⟨c, he, h1, h2, h3, fun x hx => h4 x (by omega)⟩

/-- the faithful model of `graph.IsKColorable(g, k)` (`k ≥ 0`) answers true exactly when `k ≥ χ`, then with a proper
colouring whose colours are `< k`; otherwise it answers `false, nil` -/
theorem isKColorable_model_correct {g : G} (hw : g.WF) (k : Nat) :
    (chromaticNumberSpec g ≤ k → ∃ c : List Int, isKColorableGo g (k : Int) = .ok (true, some c) ∧ c.length = g.n ∧
      (∀ v, v < g.n → 0 ≤ c.getD v 0 ∧ c.getD v 0 < (k : Int)) ∧
      (∀ u v, u < g.n → v < g.n → g.adj u v = true → c.getD u 0 ≠ c.getD v 0)) ∧
    (k < chromaticNumberSpec g → isKColorableGo g (k : Int) = .ok (false, none)) := by
  obtain ⟨h1, h2⟩ := isKColorableGo_spec hw k
  refine ⟨fun hk => ?_, h2⟩
  obtain ⟨c, k', he, hbo, hk'⟩ := h1 hk
  exact ⟨c, he, hbo.1, fun v hv => ⟨(hbo.2.1 v hv).1, by have := (hbo.2.1 v hv).2; omega⟩, hbo.2.2.1⟩

/-- the faithful model of `graph.ChromaticIndex` — C06's proved model of `LineGraphDense` on the interface view of
`g`, the DSATUR model on the result, then the loop writing `byte(colour + 1)` at the position of every edge — never
panics and returns the chromatic index together with an array accepted by the verified edge-colouring checker (right
length, 0 exactly on the non-edges, proper, exactly the colours `1 .. χ'`), PROVIDED `χ' < 256`: the Go conversion
`byte(·)` wraps, and for `χ' ≥ 256` (e.g. the star with 256 edges) the real function returns colour 0 on an edge — a
defect of the code recorded in notes/C09.md, outside the hypothesis of this theorem. -/
theorem chromaticIndex_model_correct {g : G} (hw : g.WF) (h256 : chromaticIndexSpec g < 256) :
    ∃ b, chromaticIndexGo g = .ok ((chromaticIndexSpec g : Int), some b) ∧
      isProperEdgeColouring g b (chromaticIndexSpec g) = true ∧ usesExactly1 b (chromaticIndexSpec g) = true :=
  chromaticIndexGo_spec hw h256

/-! ## GreedyColor (faithful model) -/

/-- for every vertex order (a permutation of the vertices) the model of `GreedyColor` does not panic and returns a
proper colouring with colours in `0..n-1` together with its largest colour (`-1` for the graph without vertices) -/
theorem greedy_proper {g : G} (hw : g.WF) {order : List Nat} (hperm : order.Perm (List.range g.n)) :
    ∃ mx c, greedyColor g order = .ok (mx, c) ∧ c.length = g.n ∧
      (∀ v, v < g.n → 0 ≤ c.getD v (-1) ∧ c.getD v (-1) < g.n ∧ c.getD v (-1) ≤ mx) ∧
      (∀ u v, u < g.n → v < g.n → g.adj u v = true → c.getD u (-1) ≠ c.getD v (-1)) ∧
      ((g.n = 0 ∧ mx = -1) ∨ ∃ v, v < g.n ∧ c.getD v (-1) = mx) := by
  obtain ⟨st, he, hinv⟩ := greedyColor_spec hw hperm
  have hmem : ∀ v, v < g.n → v ∈ order := fun v hv => hperm.symm.subset (List.mem_range.2 hv)
  refine ⟨st.maxColour, st.c, he, hinv.clen, fun v hv => ?_, fun u v hu hv ha => ?_, ?_⟩
  · exact ⟨(hinv.range v (hmem v hv)).1, (hinv.range v (hmem v hv)).2, hinv.maxub v (hmem v hv)⟩
  · exact hinv.proper u (hmem u hu) v (hmem v hv) ha
  · rcases hinv.maxat with ⟨h0, hm⟩ | ⟨v, hv, hve⟩
    · left
      have := hperm.length_eq
      rw [h0] at this
      exact ⟨by simpa using this.symm, hm⟩
    · exact Or.inr ⟨v, List.mem_range.1 (hperm.subset hv), hve⟩

/-- first-fit: every vertex gets the least colour not used by its neighbours that come earlier in the order -/
theorem greedy_firstfit {g : G} (hw : g.WF) {order : List Nat} (hperm : order.Perm (List.range g.n))
    {mx : Int} {c : List Int} (h : greedyColor g order = .ok (mx, c)) (pre : List Nat) (v : Nat) (post : List Nat)
    (hsplit : order = pre ++ v :: post) :
    (∀ u ∈ pre, g.adj v u = true → c.getD u (-1) ≠ c.getD v (-1)) ∧
    ∀ x : Nat, (x : Int) < c.getD v (-1) → ∃ u ∈ pre, g.adj v u = true ∧ c.getD u (-1) = x := by
  obtain ⟨st, he, hinv⟩ := greedyColor_spec hw hperm
  rw [he] at h
  have hc : st.c = c := by injection h with h; exact (Prod.mk.inj h).2
  subst hc
  have := hinv.ff pre v post hsplit
  exact ⟨this.2, this.1⟩

/-- an order of the wrong length makes `GreedyColor` panic -/
theorem greedy_wrong_length (g : G) {order : List Nat} (h : order.length ≠ g.n) : greedyColor g order = .panic := by
  simp [greedyColor, h]

/-! ## ChromaticPolynomial (faithful model of the explicit-stack deletion–contraction) -/

/-- for every graph the model of `ChromaticPolynomial` terminates within its fuel without panicking, returns `n + 1`
coefficients, and the polynomial evaluates at every `k ≥ 0` to the number of proper colourings with `k` colours -/
theorem chromaticPolynomial_counts {g : G} (hw : g.WF) :
    ∃ p, chromaticPolynomial g = .ok p ∧ p.length = g.n + 1 ∧
      ∀ k : Nat, evalPoly p (k : Int) = (countColourings g k : Int) := by
  obtain ⟨p, hp⟩ := chromaticPolynomial_total hw
  exact ⟨p, hp, chromaticPolynomial_partial hw hp⟩

/-- deletion–contraction for the number of colourings (the identity the Go loop relies on) -/
theorem countColourings_deletion_contraction {g : G} (hw : g.WF) {i j : Nat} (hadj : g.adj i j = true) (k : Nat) :
    countColourings (removeEdge g i j) k = countColourings g k + countColourings (contract g i j) k :=
  deletion_contraction hw hadj k

/-! ## non-vacuity of the hypotheses (closed instances checked by kernel evaluation; these are tests, not the
property) -/

/-- the triangle -/
def exTriangle : G := ofEdges 3 [(0, 1), (1, 2), (0, 2)]

-- test: `g.WF` is satisfiable (every graph the driver parses is well-formed)
example : exTriangle.WF := ofEdges_wf _ _
-- test: hypotheses of `isProperColouring_colourable`
example : isProperColouring exTriangle [0, 1, 2] = true ∧ ∀ x ∈ [0, 1, 2], x < 3 := by decide
-- test: hypothesis of `isProperEdgeColouring_sound`
example : isProperEdgeColouring exTriangle [1, 2, 3] 3 = true := by decide
-- test: hypothesis of `degeneracyCert_sound`
example : degeneracyCert exTriangle 2 [2, 1, 0] = true := by decide
-- test: hypotheses of `greedy_proper` / `greedy_firstfit`
example : [2, 0, 1].Perm (List.range exTriangle.n) := by decide
example : greedyColor exTriangle [2, 0, 1] = .ok (2, [1, 2, 0]) := by decide
-- test: hypothesis of `greedy_wrong_length`
example : [0, 1].length ≠ exTriangle.n := by decide
-- test: hypothesis of `countColourings_deletion_contraction`
example : exTriangle.adj 2 0 = true := by decide
-- test: the model of ChromaticPolynomial on the triangle: k^3 - 3k^2 + 2k
example : chromaticPolynomial exTriangle = .ok [0, 2, -3, 1] := by decide
-- test: the Bron–Kerbosch model on the triangle and on the path 0-1-2 (channel order)
example : allMaximalCliquesGo exTriangle = .ok [[0, 1, 2]] := by decide
example : allMaximalCliquesGo (ofEdges 3 [(0, 1), (1, 2)]) = .ok [[1, 0], [1, 2]] := by decide
-- test: the model of Degeneracy on the path 0-1-2
example : degeneracyGo (ofEdges 3 [(0, 1), (1, 2)]) = .ok (1, [0, 1, 2]) := by decide
-- test: the DSATUR model on the triangle and on the path (same colourings as the library)
example : chromaticNumberGo exTriangle = .ok (3, some [0, 2, 1]) := by decide
example : isKColorableGo exTriangle 2 = .ok (false, none) := by decide
-- test: hypothesis of `chromaticIndex_model_correct`, and the model on the triangle
example : chromaticIndexSpec exTriangle < 256 := by decide
example : chromaticIndexGo exTriangle = .ok (3, some [1, 3, 2]) := by decide
-- test: the specification values on the triangle
example : chromaticNumberSpec exTriangle = 3 ∧ cliqueNumberSpec exTriangle = 3 ∧ degeneracySpec exTriangle = 2 := by
  decide

end CliqueColour
