import Mamba.Lemmas.SortIntsAdd
import Mamba.Lemmas.SortIntsUnionM
import Mamba.Lemmas.IntSortPivot
/-!
# Property C17 — theorems

All statements are about the definitions in `Mamba/Model/SortInts.lean` and `Mamba/Model/IntSort.lean` that
the driver `mdrv` runs.  Vocabulary (definitions in `Mamba/Spec/SortInts.lean`, `Mamba/Spec/IntSort.lean`):
`SortInts.SS l` = `l.Pairwise (· < ·)`, the canonical (strictly increasing) representation of a finite set of
ints; `IntSort.vi d k` = `data[k]`; `SortedOn a b d` = `data[a:b]` is sorted; `RP a b d d'` = `d'` is `d` with only
`data[a:b]` rearranged; `PivotOK d lo hi` = the partition contract of `doPivot`.
-/
namespace SortInts

/-! ## the non-mutating set functions -/

/-- `Union(a, b)` is the canonical representation of `a ∪ b`. -/
theorem union_spec (a b : List Int) (ha : SS a) (hb : SS b) :
    SS (union a b) ∧ ∀ x, x ∈ union a b ↔ (x ∈ a ∨ x ∈ b) :=
  ⟨union_sorted a b ha hb, mem_union a b⟩

/-- `Intersection(a, b)` is the canonical representation of `a ∩ b`. -/
theorem intersection_spec (a b : List Int) (ha : SS a) (hb : SS b) :
    SS (intersection a b) ∧ ∀ x, x ∈ intersection a b ↔ (x ∈ a ∧ x ∈ b) :=
  ⟨intersection_sorted a b ha hb, mem_intersection a b ha hb⟩

/-- `IntersectionSize(a, b) = |a ∩ b|` (with `intersection_spec`: the number of common elements). -/
theorem intersectionSize_spec (a b : List Int) : intersectionSize a b = (intersection a b).length :=
  intersectionSize_eq a b

/-- `IntersectionSize(a, b) ≤ min(len a, len b)` for ALL inputs: the capacities `len(a)+len(b)-IntersectionSize`,
`len(a)-IntersectionSize` and `IntersectionSize` handed to `make` are never negative, so the `make` calls of
`Union`, `SetMinus`, `Intersection`, `XOR` (left out of the model) cannot panic. -/
theorem intersectionSize_le (a b : List Int) :
    intersectionSize a b ≤ a.length ∧ intersectionSize a b ≤ b.length :=
  intersectionSize_le_length a b

/-- `SetMinus(a, b)` is the canonical representation of `a \ b`. -/
theorem setMinus_spec (a b : List Int) (ha : SS a) (hb : SS b) :
    SS (setMinus a b) ∧ ∀ x, x ∈ setMinus a b ↔ (x ∈ a ∧ x ∉ b) :=
  ⟨setMinus_sorted a b ha hb, mem_setMinus a b ha hb⟩

/-- `XOR(a, b)` is the canonical representation of the symmetric difference. -/
theorem xor_spec (a b : List Int) (ha : SS a) (hb : SS b) :
    SS (xor a b) ∧ ∀ x, x ∈ xor a b ↔ ((x ∈ a ∧ x ∉ b) ∨ (x ∉ a ∧ x ∈ b)) :=
  ⟨xor_sorted a b ha hb, mem_xor a b ha hb⟩

/-- `Complement(n, a)` is the canonical representation of `{0,…,n-1} \ a`, for every `n` (also `n ≤ 0`) and
every `a` (also with elements outside `{0,…,n-1}` or more than `n` elements). -/
theorem complement_spec (n : Int) (a : List Int) (ha : SS a) :
    SS (complement n a) ∧ ∀ x, x ∈ complement n a ↔ (0 ≤ x ∧ x < n ∧ x ∉ a) :=
  ⟨complementLoop_sorted n 0 a ha, mem_complementLoop n 0 a ha⟩

/-- `ContainsSorted(a, b)` decides `b ⊆ a`. -/
theorem containsSorted_spec (a b : List Int) (ha : SS a) (hb : SS b) :
    containsSorted a b = true ↔ ∀ x ∈ b, x ∈ a :=
  containsSorted_iff a b ha hb

/-- `ContainsSingle(a, x)` decides `x ∈ a`. -/
theorem containsSingle_spec (a : List Int) (ha : SS a) (x : Int) : containsSingle a x = true ↔ x ∈ a :=
  containsSingle_iff a ha x

example : SS [-3, 0, 7] := by decide

/-! ## constructors -/

/-- `NewSortedInts(x...)` for an ARBITRARY argument list (unsorted, with repeats) does not panic and returns
the canonical representation of the set of its arguments. -/
theorem newSortedInts_spec (x : List Int) :
    ∃ r, newSortedInts x = .ok r ∧ SS r ∧ ∀ y, y ∈ r ↔ y ∈ x :=
  newSortedInts_result x

/-- `Range(start, end, step)` for every triple that is not rejected as an infinite set — the rejection test the
model runs is the condition of the source, regenerated into `Gen.Sort.rangeRejects`, and is proved to be the
documented one (`rangeRejects_iff`) — does not panic (in
particular the `make` capacities are non-negative and the loops terminate within the fuel given) and returns
the canonical representation of `{start + k*step | k ≥ 0} ∩ [start, end)`, resp. `∩ (end, start]` for a
descending range (this is `InRange start end step x` of `Spec/SortInts.lean`, written out). -/
theorem range_spec (start e step : Int)
    (h : ¬ ((e < start ∧ step > 0) ∨ (e > start ∧ step < 0) ∨ (e ≠ start ∧ step = 0))) :
    ∃ r, range start e step = .ok r ∧ SS r ∧
      ∀ x, x ∈ r ↔ ∃ k : Nat, x = start + k * step ∧ ((start ≤ x ∧ x < e) ∨ (e < x ∧ x ≤ start)) :=
  range_result start e step h

example : ¬ (((0:Int) < 10 ∧ (-3:Int) > 0) ∨ ((0:Int) > 10 ∧ (-3:Int) < 0) ∨ ((0:Int) ≠ 10 ∧ (-3:Int) = 0)) := by decide

/-- the rejected triples (infinite sets) panic -/
theorem range_rejects_spec (start e step : Int)
    (h : (e < start ∧ step > 0) ∨ (e > start ∧ step < 0) ∨ (e ≠ start ∧ step = 0)) :
    range start e step = .panic :=
  range_rejects start e step h

/-! ## mutators -/

/-- `s.Add(x...)` for an ARBITRARY argument list (unsorted, repeated, already present elements, in any
combination) does not panic and leaves the canonical representation of `s ∪ x`. -/
theorem add_spec (s : List Int) (hs : SS s) (x : List Int) :
    ∃ r, add s x = .ok r ∧ SS r ∧ ∀ y, y ∈ r ↔ (y ∈ s ∨ y ∈ x) :=
  add_result s hs x

/-- `s.Remove(x)` does not panic and leaves the canonical representation of `s \ {x}`. -/
theorem remove_spec (s : List Int) (hs : SS s) (x : Int) :
    ∃ r, remove s x = .ok r ∧ SS r ∧ ∀ y, y ∈ r ↔ (y ∈ s ∧ y ≠ x) :=
  remove_result s hs x

/-- the `Union` method `s.Union(b)`, for every content `spare` of the receiver's spare capacity — i.e. both
when the merge runs backwards in place inside the receiver's backing array (`cap ≥ newSize`, `a[i]` is
then read from the array being written) and when it runs into a fresh array: it does not panic and leaves
the canonical representation of `a ∪ b`; in fact exactly the value `Union(a, b)` returns. -/
theorem unionMethod_spec (a spare b : List Int) (ha : SS a) (hb : SS b) :
    ∃ r, unionM a spare b = .ok r ∧ r = union a b ∧ SS r ∧ ∀ x, x ∈ r ↔ (x ∈ a ∨ x ∈ b) :=
  ⟨union a b, unionM_result a spare b ha hb, rfl, union_sorted a b ha hb, mem_union a b⟩

end SortInts

namespace IntSort

/-! ## ints.Sort

The model takes the literal constants of `ints/int_sort.go` from a configuration `Cfg`; the driver runs it with
`genCfg`, regenerated from the source on every run (`Gen/SortConsts.lean`).  The theorems are proved for EVERY
configuration satisfying `Cfg.Admissible` (`Spec/IntSort.lean`: the whole range of values of the tuning constants for
which the algorithm works, and the values the algorithm dictates for the heap arithmetic and the midpoint), and
`gen_admissible` checks that the values the driver runs with — those found in the source now, or the hand-written
default for an item whose place in a refactored source is not recognised — are admissible. -/

/-- the constants the driver runs with are admissible -/
theorem gen_admissible : genCfg.Admissible := by decide

/-- `Sort` only permutes, whatever the constants: every write in `ints/int_sort.go` is a swap, so whenever the call
returns, the slice is a permutation of its old content. -/
theorem sort_perm (cf : Cfg) (d d' : Array Int) (h : sort cf d = .ok d') : d'.toList.Perm d.toList :=
  sort_perm_toList h

example : sort genCfg #[2, 1] = .ok #[1, 2] := by
  simp [sort, maxDepth, maxDepthLoop, quickSort, shellPass, insertionSort, insertOuter, insertInner, lt, get, swap,
    genCfg, Gen.Sort.qsSmall, Gen.Sort.qsMin, Gen.Sort.shellGap, Gen.Sort.shellGapIdx, Gen.Sort.mdShift, Gen.Sort.mdMul]

/-- `insertionSort(data, a, b)` on every valid range `0 ≤ a`, `b ≤ len(data)`: it does not panic, `data[a:b]`
is sorted afterwards (`SortedOn`), nothing outside `[a,b)` moves and every element of the range comes from the
range (`RP`; together with `sort_perm`'s multiset argument: a permutation of the range). -/
theorem insertionSort_sorted (d : Array Int) (a b : Int) (h0 : 0 ≤ a) (hb : b ≤ d.size) :
    ∃ d', insertionSort d a b = .ok d' ∧ RP a b d d' ∧ SortedOn a b d' :=
  insertionSort_spec d a b h0 hb

/-- `heapSort(data, a, b)` on every valid range `0 ≤ a ≤ b ≤ len(data)`: it does not panic, the fuel given to
the `siftDown` loop suffices, `data[a:b]` is sorted afterwards and only `data[a:b]` is rearranged. -/
theorem heapSort_sorted (cf : Cfg) (hadm : cf.Admissible) (d : Array Int) (a b : Int) (h0 : 0 ≤ a) (hab : a ≤ b)
    (hb : b ≤ d.size) :
    ∃ d', heapSort cf d a b = .ok d' ∧ RP a b d d' ∧ SortedOn a b d' := by
  obtain ⟨_, _, _, _, _, _, _, _, hm, ha, hsb, hbo, _⟩ := hadm
  exact heapSort_spec cf ⟨hm, ha, hsb⟩ hbo d a b h0 hab hb

example : (0 : Int) ≤ 1 ∧ (1 : Int) ≤ 4 ∧ (4 : Int) ≤ (#[9, 8, 7, 6, 5] : Array Int).size := by decide

/-- the partition contract of `doPivot(data, lo, hi)` on every range with at least 3 elements (`quickSort` calls it
with more than `qsSmall ≥ 2` elements): it does not panic, its loops stay within their fuel, it only rearranges
`data[lo:hi]`, returns `lo ≤ midlo ≤ midhi ≤ hi` and leaves `data[lo:midlo] ≤ data[midlo:midhi] ≤
data[midhi:hi]` element-wise with `data[midlo:midhi]` constant (`PivotOK`, `Spec/IntSort.lean`). -/
theorem doPivot_contract (cf : Cfg) (hadm : cf.Admissible) (d : Array Int) (lo hi : Int) (hlo : 0 ≤ lo)
    (hbig : hi - lo ≥ 3) (hsz : hi ≤ d.size) :
    PivotOK cf d lo hi := by
  obtain ⟨_, _, _, hps, hD, hM0, hMD, hQ, _⟩ := hadm
  exact doPivot_spec cf hps hD hM0 hMD hQ d lo hi hlo hbig hsz

/-- `quickSort(data, a, b, maxDepth)` on every valid range with fuel above `maxDepth`: no panic, no fuel
exhaustion, `data[a:b]` sorted, only `data[a:b]` rearranged. -/
theorem quickSort_sorted (cf : Cfg) (hadm : cf.Admissible) (f : Nat) (d : Array Int) (a b : Int) (md : Nat)
    (h0 : 0 ≤ a) (hab : a ≤ b) (hb : b ≤ d.size) (hmd : md < f) :
    ∃ d', quickSort cf f d a b md = .ok d' ∧ RP a b d d' ∧ SortedOn a b d' := by
  have hadm' := hadm
  obtain ⟨hT, hK, hG, hps, hD, hM0, hMD, hQ, hm, ha, hsb, hbo, hS⟩ := hadm
  exact quickSort_spec cf ⟨hm, ha, hsb⟩ hbo hK hG
    (fun d lo hi h0 hbig hsz => doPivot_contract cf hadm' d lo hi h0 (by omega) hsz) f d a b md h0 hab hb hmd

example : genCfg.Admissible ∧ (0 : Int) ≤ 0 ∧ (13 : Int) - 0 ≥ 3 ∧ (13 : Int) ≤ (Array.replicate 13 (0 : Int)).size := by
  decide

/-- `ints.Sort` at full strength, for EVERY slice, with the constants of the source as it is now: the call returns
(no panic; the fuel given to every loop of the model suffices), the result is sorted and it is a permutation of the
input. -/
theorem sort_sorted (d : Array Int) :
    ∃ d', sort genCfg d = .ok d' ∧ d'.toList.Pairwise (· ≤ ·) ∧ d'.toList.Perm d.toList :=
  sort_full genCfg gen_admissible d

/-- the same for every admissible configuration (a retuned threshold, gap, ninther bound, …) -/
theorem sort_sorted_any (cf : Cfg) (hadm : cf.Admissible) (d : Array Int) :
    ∃ d', sort cf d = .ok d' ∧ d'.toList.Pairwise (· ≤ ·) ∧ d'.toList.Perm d.toList :=
  sort_full cf hadm d

/-- "orders any slice like the standard library": the result is the value of the model of `sort.Ints`
(`SortInts.sortInts`, the unique sorted permutation). -/
theorem sort_eq_sortInts (d : Array Int) : sort genCfg d = .ok (SortInts.sortInts d.toList).toArray := by
  obtain ⟨d', hr, hs, hp⟩ := sort_sorted d
  rw [hr]
  congr 1
  have : d'.toList = SortInts.sortInts d.toList := by
    apply List.Perm.eq_of_pairwise (le := (· ≤ ·)) _ hs (SortInts.sortInts_sorted _)
      (hp.trans (SortInts.sortInts_perm _).symm)
    intro a b _ _ h1 h2; omega
  rw [← this]

/-- `SortedOn a b d` (used above) is sortedness of the slice `d[a:b]` in the usual list sense. -/
theorem sortedOn_iff (d : Array Int) (a b : Nat) (hb : b ≤ d.size) :
    SortedOn a b d ↔ ((d.toList.drop a).take (b - a)).Pairwise (· ≤ ·) :=
  sortedOn_iff_slice d a b hb

end IntSort
