import Mamba.Lemmas.DawgRoundTrip
import Mamba.Lemmas.DawgIso
import Mamba.Lemmas.DawgFuel
import Mamba.Lemmas.DawgMinimal
import Mamba.Lemmas.DawgTerm2
/-!
# C14 — DAWG serialisation round-trips to a behaviourally identical automaton

The theorems are about the executable model the driver runs (`Dawg.encodeUint64`, `Dawg.decodeUint64`,
`Dawg.gobEncode`, `Dawg.gobDecode` in `Mamba/Model/DawgGob.lean`).
`WF d` (Spec/Dawg.lean) collects what every automaton produced by the builder or by a round trip satisfies.
-/
namespace Dawg

/-- Integer round trip, for every 64-bit value (one-byte branch `x ≤ 127` and length-prefixed branch), in any context. -/
theorem decodeUint64_encodeUint64 (x : Nat) (hx : x < 2 ^ 64) (rest : List Nat) :
    decodeUint64 (encodeUint64 x ++ rest) = some (x, rest) :=
  decodeUint64_encodeUint64_append x hx rest

example : decodeUint64 (encodeUint64 127 ++ [9]) = some (127, [9]) := by decide  -- test
example : decodeUint64 (encodeUint64 128 ++ [9]) = some (128, [9]) := by decide  -- test

/-- Decoding what `gobEncode` wrote succeeds and yields a copy of the automaton: same ids, word counts, final flags and
labels at every reachable node, links relocated consistently (`IsoVia`), root to root. Any fuel for which the
traversal finishes. -/
theorem gobDecode_gobEncode (d : Dawg) (wf : WF d) (fuel : Nat) (bs : List Nat) (henc : gobEncode fuel d = .ok bs) :
    ∃ d', gobDecode bs = .ok d' ∧ Iso d d' := by
  obtain ⟨L, d', _, hdec, hiso, _⟩ := gobDecode_of_encodePost d wf bs (gobEncode_spec d wf fuel bs henc)
  exact ⟨d', hdec, _, hiso⟩

/-- The decoded automaton is again well-formed (so round trips can be chained) and has exactly as many heap cells as
the original has reachable nodes. -/
theorem gobDecode_gobEncode_wf (d : Dawg) (wf : WF d) (fuel : Nat) (bs : List Nat) (henc : gobEncode fuel d = .ok bs)
    (d' : Dawg) (hdec : gobDecode bs = .ok d') : Iso d d' ∧ WF d' := by
  obtain ⟨L, d'', hL, hdec', hiso, hsz⟩ := gobDecode_of_encodePost d wf bs (gobEncode_spec d wf fuel bs henc)
  rw [hdec] at hdec'
  cases hdec'
  refine ⟨⟨_, hiso⟩, WF.of_iso hiso wf ?_⟩
  rw [hsz]
  -- the id table is a duplicate-free list of numbers below 2^64 that are ids of distinct heap cells
  obtain ⟨L', tl, recs, hL', hnd, hall, _, _⟩ := gobEncode_spec d wf fuel bs henc
  have hbound : ∀ x ∈ d.root :: tl, x < d.heap.size := by
    intro x hx
    obtain ⟨n, hn⟩ := wf.closed x ((hall x).2 hx)
    rcases Array.getElem?_eq_some_iff.1 hn with ⟨h, _⟩
    exact h
  have h1 := length_le_of_nodup_lt _ _ hnd hbound
  have h2 := hL.count _ hnd hall
  have := wf.size
  omega

/-- Encoding the decoded automaton gives the same bytes again. -/
theorem gobEncode_stable (d : Dawg) (wf : WF d) (fuel : Nat) (bs : List Nat) (henc : gobEncode fuel d = .ok bs)
    (d' : Dawg) (hdec : gobDecode bs = .ok d') : gobEncode fuel d' = .ok bs := by
  obtain ⟨⟨φ, hiso⟩, _⟩ := gobDecode_gobEncode_wf d wf fuel bs henc d' hdec
  rw [gobEncode_iso hiso wf fuel, henc]

/-- The decoded automaton answers every `Lookup` like the original (same membership, same rank), reports the same
number of words and the same number of nodes. -/
theorem roundtrip_behaviour (d : Dawg) (wf : WF d) (fuel : Nat) (bs : List Nat) (henc : gobEncode fuel d = .ok bs)
    (d' : Dawg) (hdec : gobDecode bs = .ok d') :
    (∀ w, lookup d' w = lookup d w) ∧ numberOfWords d' = numberOfWords d ∧
      (∀ f, numberOfNodes f d' = numberOfNodes f d) := by
  obtain ⟨⟨φ, hiso⟩, _⟩ := gobDecode_gobEncode_wf d wf fuel bs henc d' hdec
  exact ⟨lookup_iso hiso wf, numberOfWords_iso hiso wf, numberOfNodes_iso hiso wf⟩

/-- The fuel given to the traversal only decides whether `gobEncode` produces a result, never which: once it returns
bytes, it returns the same bytes for every larger fuel. -/
theorem gobEncode_fuel_irrelevant (d : Dawg) (f f' : Nat) (bs : List Nat) (h : gobEncode f d = .ok bs) (hle : f ≤ f') :
    gobEncode f' d = .ok bs := by
  obtain ⟨k, rfl⟩ := Nat.exists_eq_add_of_le hle
  exact gobEncode_mono d f bs h k

/-- The round trip for every automaton the builder can produce from byte strings (any history of adds): decoding its
encoding gives an isomorphic automaton that answers `Lookup` identically and re-encodes to the same bytes. -/
theorem roundtrip_built {adds : List Word} {d : Dawg} {es : List Bool} (hb : build adds = .ok (some d, es))
    (hbytes : ∀ w ∈ adds, ∀ c ∈ w, c < 256) (hcount : adds.length < 2 ^ 64) (hsize : d.heap.size < 2 ^ 64)
    (fuel : Nat) (bs : List Nat) (henc : gobEncode fuel d = .ok bs) :
    ∃ d', gobDecode bs = .ok d' ∧ Iso d d' ∧ (∀ w, lookup d' w = lookup d w) ∧ gobEncode fuel d' = .ok bs := by
  have wf : WF d := wf_of_build hb hbytes hcount hsize
  obtain ⟨d', hdec, _⟩ := gobDecode_gobEncode d wf fuel bs henc
  exact ⟨d', hdec, (gobDecode_gobEncode_wf d wf fuel bs henc d' hdec).1,
    (roundtrip_behaviour d wf fuel bs henc d' hdec).1, gobEncode_stable d wf fuel bs henc d' hdec⟩

/-- Termination: on a well-formed automaton that is acyclic (`Ranked`: some rank function strictly decreases along every
link) with at most `D` links per node, the traversals of `GobEncode` return within `Qp D (rank root + 1)` iterations
(`Qp`, Lemmas/DawgTerm.lean — a generous bound of the order `(D²)^rank`). -/
theorem gobEncode_terminates (d : Dawg) (wf : WF d) (rank : Nat → Nat) (D : Nat) (hr : Ranked d rank D) :
    ∃ bs, gobEncode (Qp D (rank d.root + 1)) d = .ok bs :=
  gobEncode_total d wf rank D hr

/-- The unconditional round trip for built automata: for every automaton the builder produces from byte strings there
is a fuel bound beyond which `gobEncode` returns, the bytes decode to an isomorphic automaton with identical `Lookup`
answers, and that automaton encodes to the same bytes. -/
theorem roundtrip_built_total {adds : List Word} {d : Dawg} {es : List Bool} (hb : build adds = .ok (some d, es))
    (hbytes : ∀ w ∈ adds, ∀ c ∈ w, c < 256) (hcount : adds.length < 2 ^ 64) (hsize : d.heap.size < 2 ^ 64) :
    ∃ f0 bs d', ∀ f, f0 ≤ f →
      gobEncode f d = .ok bs ∧ gobDecode bs = .ok d' ∧ Iso d d' ∧ (∀ w, lookup d' w = lookup d w) ∧
        gobEncode f d' = .ok bs := by
  obtain ⟨f0, bs, hf0⟩ := gobEncode_built_total hb hbytes hcount hsize
  obtain ⟨d', hdec, _⟩ := roundtrip_built hb hbytes hcount hsize f0 bs (hf0 f0 (Nat.le_refl _))
  refine ⟨f0, bs, d', ?_⟩
  intro f hle
  obtain ⟨d'', hdec', hiso, hlook, hstab⟩ := roundtrip_built hb hbytes hcount hsize f bs (hf0 f hle)
  rw [hdec] at hdec'
  cases hdec'
  exact ⟨hf0 f hle, hdec, hiso, hlook, hstab⟩

/-! Non-vacuity of the hypotheses `WF d` and `gobEncode fuel d = .ok bs`: the automaton of the empty word set. -/
def exampleDawg : Dawg := ⟨#[Node.zero], 0⟩

example : gobEncode 10 exampleDawg = .ok [1, 0, 0, 0, 0, 0] := by decide  -- test

example : WF exampleDawg := by
  have h0 : exampleDawg.heap[0]? = some Node.zero := rfl
  have exampleDawg_reach : ∀ p, Reach exampleDawg.heap exampleDawg.root p → p = 0 := by
    intro p hp
    induction hp with
    | root => rfl
    | step _ hn hq ih =>
      subst ih
      rw [h0] at hn; cases hn
      simp [Node.zero] at hq
  refine ⟨?_, ?_, ?_, ?_, ?_, ?_, by decide⟩
  · intro p hp; rw [exampleDawg_reach p hp]; exact ⟨Node.zero, rfl⟩
  · intro p n hp hn; rw [exampleDawg_reach p hp, h0] at hn; cases hn; rfl
  · intro p q _ _ hp hq _ _ _; rw [exampleDawg_reach p hp, exampleDawg_reach q hq]
  · intro p _ _ hp hne; exact absurd (exampleDawg_reach p hp) hne
  · intro p n hp hn; rw [exampleDawg_reach p hp, h0] at hn; cases hn; simp [Node.zero]
  · intro p n hp hn; rw [exampleDawg_reach p hp, h0] at hn; cases hn; simp [Node.zero]

end Dawg
