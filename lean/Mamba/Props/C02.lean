import Mamba.Lemmas.IRIso
import Mamba.Lemmas.AutSpec
import Mamba.Lemmas.IRClasses
/-!
# C02 — orbits and generators returned with the canonical form describe exactly Aut(g)

Theorems about the executable model: `IR.autGroupFrom g s` is the list of the permutations `ℓ⁻¹ ∘ ℓ₀` (`IR.autOf`) for
the leaves `ℓ` of the unpruned tree that have the same certificate as the first leaf `ℓ₀`; the driver prints its
length as `aut=` and the orbit partition of this list as `orbits=` (protocols `aut`, `hist`).

The storage-reuse clause of the property (one `CanonicalStorage` / `CanonicalOrderedPartition` pair reset and reused
across graphs) has **no theorem**: the model has no storage. It is decided by the `hist` correspondence histories only.
-/
namespace C02
open IR

/-- `aut_iff_leaf`: for any leaf `ℓ₀` of the unpruned tree (no vertex classes), a map γ of `0..n-1` into itself is an
automorphism of `g` if and only if there is a leaf `ℓ` with the same certificate as `ℓ₀` and `ℓ ∘ γ = ℓ₀`
(i.e. `γ = ℓ⁻¹ ∘ ℓ₀`). -/
theorem aut_iff_leaf {g : G} (hg : WF g) {l0 : Array Nat} (h0 : l0 ∈ allLeaves g (init g))
    {γ : Nat → Nat} (hγ : ∀ v, v < g.n → γ v < g.n) :
    (∃ τ, Relabel g g γ τ) ↔
      ∃ l, l ∈ allLeaves g (init g) ∧ cert g l = cert g l0 ∧ ∀ v, v < g.n → col l (γ v) = col l0 v := by
  constructor
  · rintro ⟨τ, R⟩
    exact leaf_of_aut R (init_rel R) h0
  · rintro ⟨l, hl, hc, h⟩
    exact aut_of_leaves hg (init_work g) h0 hl hc (fun v hv => ⟨hγ v hv, h v hv⟩)

example : ∀ l0 ∈ allLeaves exG (init exG),
    ∃ l, l ∈ allLeaves exG (init exG) ∧ cert exG l = cert exG l0 ∧ ∀ v, v < exG.n → col l (exγ v) = col l0 v :=
  fun _ h0 => (aut_iff_leaf exG_wf h0 (fun v hv => by show 2 - v < 3; omega)).1 ⟨exγ, exAut⟩

/-- the executable automorphism list is sound: each element is an automorphism (also with vertex classes) -/
theorem autGroup_sound {g : G} (hg : WF g) {s : St} (hw : s.work ≠ []) {a : Array Nat} (ha : a ∈ autGroupFrom g s) :
    ∃ τ, Relabel g g (col a) τ :=
  autGroupFrom_sound hg hw ha

example : ∀ a ∈ autGroupFrom exG (init exG), ∃ τ, Relabel exG exG (col a) τ :=
  fun _ ha => autGroup_sound exG_wf (init_work exG) ha

/-- the executable automorphism list is complete: every automorphism that respects the start colouring (every
automorphism when there are no classes, every class-preserving one when the start state is the class colouring) occurs
in it. With `autGroup_sound`: without classes the list is exactly Aut(g), so the orbits and the group order the driver
prints are those of Aut(g). -/
theorem autGroup_complete {g : G} (hg : WF g) {s : St} (hw : s.work ≠ []) {γ τ : Nat → Nat}
    (R : Relabel g g γ τ) (h : SRel g γ s s) :
    ∃ a, a ∈ autGroupFrom g s ∧ ∀ v, v < g.n → col a v = γ v :=
  autGroupFrom_complete hg hw R h

example : ∃ a, a ∈ autGroupFrom exG (init exG) ∧ ∀ v, v < exG.n → col a v = exγ v :=
  autGroup_complete exG_wf (init_work exG) exAut (init_rel exAut)

/-- `aut_iff_leaf` with vertex classes: for any leaf `ℓ₀` of the tree started from the class colouring, γ is a
class-preserving automorphism of `g` if and only if there is a leaf `ℓ` with the same certificate and `ℓ ∘ γ = ℓ₀`. -/
theorem aut_iff_leaf_classes {g : G} (hg : WF g) {k : Nat} (hk : 1 ≤ k) (cls : Nat → Nat) {l0 : Array Nat}
    (h0 : l0 ∈ allLeaves g (initSt g k cls)) {γ : Nat → Nat} (hγ : ∀ v, v < g.n → γ v < g.n) :
    ((∃ τ, Relabel g g γ τ) ∧ ∀ v, v < g.n → cls (γ v) = cls v) ↔
      ∃ l, l ∈ allLeaves g (initSt g k cls) ∧ cert g l = cert g l0 ∧ ∀ v, v < g.n → col l (γ v) = col l0 v := by
  have hw : (initSt g k cls).work ≠ [] := initSt_work g hk cls
  constructor
  · rintro ⟨⟨τ, R⟩, hcls⟩
    exact leaf_of_aut R (initSt_rel R k hcls) h0
  · rintro ⟨l, hl, hc, h⟩
    refine ⟨aut_of_leaves hg hw h0 hl hc (fun v hv => ⟨hγ v hv, h v hv⟩), ?_⟩
    intro v hv
    have p0 := allLeaves_perm hg hw l0 h0
    have p := allLeaves_perm hg hw l hl
    have := same_class_of_leaves p0 p (allLeaves_mono hg _ l0 h0) (allLeaves_mono hg _ l hl) hv (hγ v hv) (h v hv)
    have e1 : col (initSt g k cls).c (γ v) = cls (γ v) := col_tab _ (hγ v hv)
    have e2 : col (initSt g k cls).c v = cls v := col_tab _ hv
    rw [e1, e2] at this
    exact this

example : ∀ l0 ∈ allLeaves exG (initSt exG 2 (fun v => if v = 1 then 0 else 1)),
    ∃ l, l ∈ allLeaves exG (initSt exG 2 (fun v => if v = 1 then 0 else 1)) ∧ cert exG l = cert exG l0 ∧
      ∀ v, v < exG.n → col l (exγ v) = col l0 v :=
  fun _ h0 => (aut_iff_leaf_classes exG_wf (k := 2) (by decide) _ h0 (fun v hv => by show 2 - v < 3; omega)).1
    ⟨⟨exγ, exAut⟩, by intro v hv; have : v < 3 := hv; interval_cases v <;> simp [exγ]⟩

/-- the automorphisms in the executable list preserve the vertex classes (with `autGroup_sound` and
`autGroup_complete`: with classes the list is exactly the group of class-preserving automorphisms) -/
theorem autGroup_classes {g : G} (hg : WF g) {k : Nat} (hk : 1 ≤ k) (cls : Nat → Nat) {a : Array Nat}
    (ha : a ∈ autGroupFrom g (initSt g k cls)) {v : Nat} (hv : v < g.n) (hav : col a v < g.n) : cls (col a v) = cls v := by
  have := autGroupFrom_classes hg (initSt_work g hk cls) ha hv
  have e1 : col (initSt g k cls).c (col a v) = cls (col a v) := col_tab _ hav
  have e2 : col (initSt g k cls).c v = cls v := col_tab _ hv
  rw [e1, e2] at this
  exact this

example : ∀ a ∈ autGroupFrom exG (initSt exG 2 (fun v => if v = 1 then 0 else 1)), ∀ v, v < exG.n → col a v < exG.n →
    (fun v => if v = 1 then 0 else 1) (col a v) = (fun v => if v = 1 then 0 else 1 : Nat → Nat) v :=
  fun _ ha _ hv hav => autGroup_classes exG_wf (k := 2) (by decide) _ ha hv hav

/-! ### soundness of the executable checkers of `Mamba/Spec/Aut.lean`

(the driver computes `orbits=` with `AutSpec.orbitsOf`; the `autchk` stream compares the harness's oracle helpers with
`AutSpec.isAutomorphism`, `AutSpec.orbitsOf`, `AutSpec.closure`) -/

/-- `isAutomorphism_sound`: a permutation accepted by the checker is an automorphism of `g`. -/
theorem isAutomorphism_sound {g : G} (hg : WF g) {p : Array Nat} (h : AutSpec.isAutomorphism g p = true) :
    ∃ τ, Relabel g g (col p) τ :=
  AutSpec.isAutomorphism_sound hg h

example : AutSpec.isAutomorphism exG #[2, 1, 0] = true := by decide

/-- `closure_sound`: every element of the computed closure is a product of generators (`AutSpec.Gen`: the identity, or
a generator composed with such a product).
Not proved (would make it `closure_complete`): when the computation ends before reaching `cap`, the list contains every
product of generators. The correspondence only uses the *number* of elements, compared with the harness's own closure. -/
theorem closure_sound_partial {n : Nat} {gens : List (Array Nat)} {cap : Nat} {q : Array Nat}
    (h : q ∈ AutSpec.closure n gens cap) : AutSpec.Gen n gens q :=
  AutSpec.closure_sound h

example : #[1, 2, 0] ∈ AutSpec.closure 3 [#[1, 2, 0]] 10 := by decide

/-- `orbits_sound`: the partition computed by `orbitsOf` (as a representative array) is exactly the orbit partition of
the group generated by the permutations: same representative → same orbit, and a vertex and its image under any of the
permutations get the same representative (so same orbit → same representative, by induction along `EqvGen`). -/
theorem orbits_sound {n : Nat} {ps : List (Array Nat)} (hlt : ∀ p ∈ ps, ∀ v, v < n → col p v < n) :
    (∀ u v, u < n → v < n → col (AutSpec.orbitsOf n ps) u = col (AutSpec.orbitsOf n ps) v → AutSpec.SameOrbit n ps u v) ∧
    (∀ p ∈ ps, ∀ v, v < n → col (AutSpec.orbitsOf n ps) v = col (AutSpec.orbitsOf n ps) (col p v)) :=
  ⟨fun _ _ hu hv h => AutSpec.orbitsOf_sound hlt hu hv h, fun _ hp _ hv => AutSpec.orbitsOf_complete hlt hp hv⟩

example : ∀ p ∈ [#[1, 0, 2]], ∀ v, v < 3 → col p v < 3 := by
  intro p hp v hv
  simp only [List.mem_singleton] at hp
  subst hp
  interval_cases v <;> decide

end C02
