import Mamba.Lemmas.IterGeneric
import Mamba.Lemmas.IterProd
import Mamba.Lemmas.IterRPProd
import Mamba.Lemmas.IterComb
import Mamba.Lemmas.IterPartial
import Mamba.Lemmas.IterMSComb
import Mamba.Lemmas.IterMSCombInv
import Mamba.Lemmas.IterMSCombFull
import Mamba.Lemmas.IterMSCombFix
import Mamba.Lemmas.IterHeap
import Mamba.Lemmas.IterPart
import Mamba.Lemmas.IterLex
import Mamba.Lemmas.IterRPPerm
import Mamba.Lemmas.IterPattern
import Mamba.Lemmas.IterTopo
/-!
# Property C15 — itertools: every iterator enumerates exactly the advertised family, once each, in the
documented order, and then stays exhausted.

The theorems are about the executable models `Iter.*.it` that the driver `mdrv` runs (`Drv/C15.lean` drives them with
`Iter.outputs` and `Iter.extras`, the functions the conclusions below are stated with).
-/
namespace Iter
open Spec

/-- **Generic theorem.** Let `L` be a list of objects whose consecutive elements are related by `R`
(`L.IsChain R`). If `Next` maps the initial state to (a state showing) the first element of `L`, maps every state
showing `x` to a state showing `y` whenever `R x y`, returns false from the last element and keeps returning false
from then on, then driving the iterator yields exactly `L`, in order, stops because `Next` returned false, and every
further `Next` returns false. (Per iterator, `L` is proved strictly increasing in the documented order and to
contain exactly the family.) -/
theorem enumerates {σ α : Type} (it : It σ α) (rep : σ → α → Prop) (dead : σ → Prop) (R : α → α → Prop)
    (s0 : σ) (L : List α)
    (hchain : L.IsChain R)
    (hvalue : ∀ s x, rep s x → ∃ s', it.value s = .ok (s', x) ∧ rep s' x)
    (hempty : L = [] → ∃ s', it.next s0 = .ok (s', false) ∧ dead s')
    (hfirst : ∀ x ∈ L.head?, ∃ s', it.next s0 = .ok (s', true) ∧ rep s' x)
    (hstep : ∀ x y, R x y → ∀ s, rep s x → ∃ s', it.next s = .ok (s', true) ∧ rep s' y)
    (hlast : ∀ x ∈ L.getLast?, ∀ s, rep s x → ∃ s', it.next s = .ok (s', false) ∧ dead s')
    (hdead : ∀ s, dead s → ∃ s', it.next s = .ok (s', false) ∧ dead s') :
    ∀ bound, L.length < bound →
      ∃ s', outputs it bound s0 = (L, s', .exhausted) ∧ dead s' ∧
        ∀ k, extras it k s' = .ok (List.replicate k none) :=
  enumerates_aux it rep dead R s0 L hchain hvalue hempty hfirst hstep hlast hdead

/-- non-vacuity: a two-element counter -/
example : ∃ s', outputs (⟨fun (s : Nat) => .ok (s + 1, decide (s < 2)), fun s => .ok (s, s)⟩ : It Nat Nat) 5 0
    = ([1, 2], s', .exhausted) :=
  ⟨3, by decide⟩

/-! ## Product -/

/-- `Product(dims...)` yields exactly `prodList dims` (for every list of factors, including zero and
negative ones, for which the family is empty), then `Next` is false forever. -/
theorem Prod.enumerates (dims : List Int) :
    ∃ s0, Prod.init dims = .ok s0 ∧ ∀ bound, (prodList dims).length < bound →
      ∃ s', outputs Prod.it bound s0 = (prodList dims, s', .exhausted) ∧
        ∀ k, extras Prod.it k s' = .ok (List.replicate k none) :=
  Prod.enumerates_lemma dims

/-- `prodList dims` contains exactly the tuples `(a₀, …)` with `0 ≤ aᵢ < dimsᵢ` … -/
theorem Prod.family (dims x : List Int) : x ∈ prodList dims ↔ InProd dims x :=
  mem_prodList dims x

/-- … each once, in strictly increasing lexicographic order. -/
theorem Prod.sorted (dims : List Int) : (prodList dims).Pairwise (· < ·) :=
  prodList_sorted dims

/-! ## RestrictedPrefixProduct = filter -/

/-- `RestrictedPrefixProduct(t, dims...)`, for every (pure) test function `t` and every list of factors, yields
exactly `rpprodList t dims` — by definition the filter `(prodList dims).filter (accept t)` of the unrestricted
enumeration by "all non-empty prefixes pass `t`" — in the same (lexicographic) order, then `Next` is false forever.
The fuel the model gives to the `goto` machine (`RPProd.fuel`) suffices: the run never reports `outOfFuel`. -/
theorem RPProd.enumerates (t : List Int → Bool) (dims : List Int) :
    ∀ bound, (rpprodList t dims).length < bound →
      ∃ s', outputs (RPProd.it t) bound (RPProd.init dims) = (rpprodList t dims, s', .exhausted) ∧
        ∀ k, extras (RPProd.it t) k s' = .ok (List.replicate k none) :=
  RPProd.enumerates_lemma t dims

/-- the filter is the filter of `Product`'s family by "every non-empty prefix passes the test" -/
theorem RPProd.family (t : List Int → Bool) (dims x : List Int) :
    x ∈ rpprodList t dims ↔ InProd dims x ∧ ∀ l, 0 < l → l ≤ x.length → t (x.take l) = true :=
  mem_rpprodList t dims x

/-- and it agrees with filtering the unrestricted enumeration (same order, each once) -/
theorem RPProd.filter_of_product (t : List Int → Bool) (dims : List Int) :
    rpprodList t dims = (prodList dims).filter (accept t) ∧ (rpprodList t dims).Pairwise (· < ·) :=
  ⟨rfl, rpprodList_sorted t dims⟩

/-! ## Combinations (lexicographic) -/

/-- `Combinations(n, k)` for every `n` and every `k ≥ 0` yields exactly `combList n k`, then `Next` is false
forever (`k = 0`: the single empty combination; `k > n`: nothing). -/
theorem Comb.enumerates (n k : Int) (hk : 0 ≤ k) :
    ∃ s0, Comb.init n k = .ok s0 ∧ ∀ bound, (combList n k).length < bound →
      ∃ s', outputs Comb.it bound s0 = (combList n k, s', .exhausted) ∧
        ∀ k', extras Comb.it k' s' = .ok (List.replicate k' none) :=
  Comb.enumerates_lemma n k hk

example : ∃ s0, Comb.init 4 2 = .ok s0 := ⟨_, (Comb.enumerates 4 2 (by decide)).choose_spec.1⟩

/-- `combList n k` contains exactly the strictly increasing lists of length `k` with entries in `0..n-1` … -/
theorem Comb.family (n k : Int) (hk : 0 ≤ k) (x : List Int) :
    x ∈ combList n k ↔ (x.length : Int) = k ∧ x.Pairwise (· < ·) ∧ ∀ a ∈ x, 0 ≤ a ∧ a < n :=
  mem_combList n k hk x

example : [1, 3] ∈ combList 4 2 := by decide

/-- … each once, in strictly increasing lexicographic order. -/
theorem Comb.sorted (n k : Int) : (combList n k).Pairwise (· < ·) :=
  combList_sorted n k

/-! ## CombinationsColex -/

/-- `CombinationsColex(n, k)` for every `n` and every `k ≥ 0` yields exactly `colexList n k`, then `Next` is false
forever. -/
theorem Colex.enumerates (n k : Int) (hk : 0 ≤ k) :
    ∃ s0, Colex.init n k = .ok s0 ∧ ∀ bound, (colexList n k).length < bound →
      ∃ s', outputs Colex.it bound s0 = (colexList n k, s', .exhausted) ∧
        ∀ k', extras Colex.it k' s' = .ok (List.replicate k' none) :=
  Colex.enumerates_lemma n k hk

example : ∃ s0, Colex.init 4 2 = .ok s0 := ⟨_, (Colex.enumerates 4 2 (by decide)).choose_spec.1⟩

/-- `colexList n k` contains exactly the `k`-subsets of `0..n-1` (as increasing lists) … -/
theorem Colex.family (n k : Int) (hk : 0 ≤ k) (x : List Int) :
    x ∈ colexList n k ↔ (x.length : Int) = k ∧ x.Pairwise (· < ·) ∧ ∀ a ∈ x, 0 ≤ a ∧ a < n :=
  mem_colexList n k hk x

example : [1, 3] ∈ colexList 4 2 := by decide

/-- … each once, in strictly increasing colexicographic order (`ColexLt x y ↔ x.reverse < y.reverse`). -/
theorem Colex.sorted (n k : Int) : (colexList n k).Pairwise ColexLt :=
  colexList_sorted n k

/-! ## Partitions (restricted growth strings, lexicographic) -/

/-- `Partitions(n)`, `n ≥ 1`: the values returned by `Value()` are the set partitions `rgsBlocks x` for `x` running
through `rgsList n` — all restricted growth strings of length `n` in lexicographic order —, then `Next` is false
forever. -/
theorem Parts.enumerates (n : Int) (hn : 1 ≤ n) :
    ∃ s0, Parts.init n = .ok s0 ∧ ∀ bound, (rgsList n.toNat).length < bound →
      ∃ s', outputs Parts.it bound s0 = ((rgsList n.toNat).map rgsBlocks, s', .exhausted) ∧
        ∀ k, extras Parts.it k s' = .ok (List.replicate k none) :=
  Parts.enumerates_blocks_lemma n hn

example : ∃ s0, Parts.init 3 = .ok s0 := ⟨_, (Parts.enumerates 3 (by decide)).choose_spec.1⟩

/-- `rgsList n` contains exactly the restricted growth strings of length `n` (`x[0] = 0`, every entry at most one more
than the maximum before it) … -/
theorem Parts.family (n : Nat) (x : List Int) :
    x ∈ rgsList n ↔ x.length = n ∧
      ∀ pre v suf, x = pre ++ v :: suf → 0 ≤ v ∧ (v = 0 ∨ ∃ w ∈ pre, v ≤ w + 1) := by
  rw [mem_rgsList, isRGS_iff]

example : [0, 1, 0, 2] ∈ rgsList 4 := by decide

/-- … each once, in strictly increasing lexicographic order; -/
theorem Parts.sorted (n : Nat) : (rgsList n).Pairwise (· < ·) :=
  rgsList_sorted n

/-- and `rgsBlocks x` is the set partition of `{0..len-1}` encoded by `x`: non-empty sorted blocks, ordered by least
element, position `p` lies in block `i` iff `x[p] = i` (so distinct strings give distinct partitions, and every set
partition arises from its restricted growth string). -/
theorem Parts.blocks (x : List Int) (hx : IsRGS x) (hl : 1 ≤ x.length) :
    ∃ blocks, partitionFromRGS x = .ok blocks ∧ blocks = rgsBlocks x ∧
      (∀ B ∈ blocks, B ≠ [] ∧ B.Pairwise (· < ·) ∧ ∀ v ∈ B, 0 ≤ v ∧ v < x.length) ∧
      blocks.Pairwise (fun B C => ∀ a ∈ B.head?, ∀ c ∈ C.head?, a < c) ∧
      (∀ (p : Nat) (hp : p < x.length), 0 ≤ x[p] ∧ x[p] < blocks.length) ∧
      (∀ (p : Nat) (hp : p < x.length) (i : Nat) (hi : i < blocks.length), (p : Int) ∈ blocks[i] ↔ x[p] = i) := by
  obtain ⟨blocks, h1, h2⟩ := partitionFromRGS_spec x hx hl
  refine ⟨blocks, h1, ?_, h2⟩
  have := partitionFromRGS_eq x hx
  rw [h1] at this
  exact Outcome.ok.inj this

example : IsRGS [0, 1, 0] ∧ 1 ≤ ([0, 1, 0] : List Int).length :=
  ⟨((mem_rgsList 3 [0, 1, 0]).mp (by decide)).2, by decide⟩

/-! ## IntegerPartitions (reverse lexicographic) -/

/-- `IntegerPartitions(n)`, `n ≥ 0`, yields exactly `ipList n`, then `Next` is false forever. -/
theorem IntParts.enumerates (n : Int) (hn : 0 ≤ n) :
    ∃ s0, IntParts.init n = .ok s0 ∧ ∀ bound, (ipList n.toNat).length < bound →
      ∃ s', outputs IntParts.it bound s0 = (ipList n.toNat, s', .exhausted) ∧
        ∀ k, extras IntParts.it k s' = .ok (List.replicate k none) :=
  IntParts.enumerates_lemma n hn

example : ∃ s0, IntParts.init 5 = .ok s0 := ⟨_, (IntParts.enumerates 5 (by decide)).choose_spec.1⟩

/-- `ipList n` contains exactly the non-increasing lists of positive integers with sum `n` … -/
theorem IntParts.family (n : Nat) (x : List Int) :
    x ∈ ipList n ↔ x.Pairwise (· ≥ ·) ∧ (∀ v ∈ x, 1 ≤ v) ∧ x.sum = n :=
  mem_ipList_iff n x

/-- … each once, in reverse lexicographic order (every value is lexicographically greater than all later ones). -/
theorem IntParts.sorted (n : Nat) : (ipList n).Pairwise (· > ·) :=
  ipList_sorted n

/-! ## LexicographicPermutations / MultisetPermutations -/

/-- `LexicographicPermutations(n)`, `n ≥ 0`, yields exactly `lexPermList n`, then `Next` is false forever. -/
theorem Lex.enumerates (n : Int) (hn : 0 ≤ n) :
    ∃ s0, Lex.init n = .ok s0 ∧ ∀ bound, (lexPermList n).length < bound →
      ∃ s', outputs Lex.it bound s0 = (lexPermList n, s', .exhausted) ∧
        ∀ k, extras Lex.it k s' = .ok (List.replicate k none) :=
  Lex.enumerates_lemma n hn

example : ∃ s0, Lex.init 3 = .ok s0 := ⟨_, (Lex.enumerates 3 (by decide)).choose_spec.1⟩

/-- `lexPermList n` contains exactly the rearrangements of `0, …, n-1`, each once, in increasing lexicographic order. -/
theorem Lex.family (n : Int) (b : List Int) :
    (b ∈ lexPermList n ↔ b.Perm ((List.range n.toNat).map Int.ofNat)) ∧ (lexPermList n).Pairwise (· < ·) :=
  ⟨mem_lexPermList n b, lexPermList_sorted n⟩

/-- `MultisetPermutations(freq)`, all multiplicities `≥ 0` (zeros included), yields exactly `multiPermList freq`, then
`Next` is false forever. -/
theorem Lex.enumerates_multi (freq : List Int) (hf : ∀ f ∈ freq, 0 ≤ f) :
    ∃ s0, Lex.initMulti freq = .ok s0 ∧ ∀ bound, (multiPermList freq).length < bound →
      ∃ s', outputs Lex.it bound s0 = (multiPermList freq, s', .exhausted) ∧
        ∀ k, extras Lex.it k s' = .ok (List.replicate k none) :=
  Lex.enumerates_multi_lemma freq hf

example : ∃ s0, Lex.initMulti [2, 0, 1] = .ok s0 :=
  ⟨_, (Lex.enumerates_multi [2, 0, 1] (by decide)).choose_spec.1⟩

/-- `multiPermList freq` contains exactly the arrangements of the multiset with `freq[i]` copies of `i`, each once,
in increasing lexicographic order. -/
theorem Lex.family_multi (freq : List Int) (hf : ∀ f ∈ freq, 0 ≤ f) (b : List Int) :
    (b ∈ multiPermList freq ↔ b.Perm (multiSorted freq)) ∧ (multiPermList freq).Pairwise (· < ·) :=
  ⟨mem_multiPermList freq hf b, multiPermList_sorted freq⟩

example : ∀ f ∈ ([2, 0, 1] : List Int), 0 ≤ f := by decide

/-! ## RestrictedPrefixPermutations = filter (Algorithm X) -/

/-- `RestrictedPrefixPermutations(n, f)`, for every (pure) test function `f` and every `n ≥ 0`, yields exactly
`rppermList f n` — by definition `(permList n).filter (accept f)`, the filter of all permutations of `0..n-1` in
lexicographic order by "every non-empty prefix passes `f`" —, then `Next` is false forever. The fuel the model gives to
the `goto` machine suffices. -/
theorem RPP.enumerates (f : List Int → Bool) (n : Int) (hn : 0 ≤ n) :
    ∃ s0, RPP.init n = .ok s0 ∧ ∀ bound, (rppermList f n).length < bound →
      ∃ s', outputs (RPP.it f) bound s0 = (rppermList f n, s', .exhausted) ∧
        ∀ k, extras (RPP.it f) k s' = .ok (List.replicate k none) :=
  RPP.enumerates_lemma f n hn

example : ∃ s0, RPP.init 3 = .ok s0 := ⟨_, (RPP.enumerates (fun _ => true) 3 (by decide)).choose_spec.1⟩

/-- the family: the permutations of `0..n-1` all of whose non-empty prefixes pass `f`, each once, in lexicographic
order; and it is the filter of the unrestricted enumeration `permList n` (all permutations, lexicographic). -/
theorem RPP.family (f : List Int → Bool) (n : Int) (x : List Int) :
    (x ∈ rppermList f n ↔ x.Perm ((List.range n.toNat).map Int.ofNat) ∧
        ∀ l, 0 < l → l ≤ x.length → f (x.take l) = true) ∧
    (rppermList f n).Pairwise (· < ·) ∧ rppermList f n = (permList n).filter (accept f) ∧
    (∀ y, y ∈ permList n ↔ y.Perm ((List.range n.toNat).map Int.ofNat)) ∧ (permList n).Pairwise (· < ·) :=
  ⟨mem_rppermList f n x, rppermList_sorted f n, rfl, mem_permList n, permList_sorted n⟩

/-! ## PermutationsByPattern = filter -/

/-- `PermutationsByPattern(n, f)`, for every (pure) `f` and `n ≥ 0`, yields exactly `patList f n` (the accepted leaves of
the pattern tree in depth-first order), then `Next` is false forever; the model's fuel suffices. -/
theorem Pat.enumerates (f : List Int → Bool) (n : Int) (hn : 0 ≤ n) :
    ∀ bound, (patList f n.toNat).length < bound →
      ∃ s', outputs (Pat.it f) bound (Pat.init n) = (patList f n.toNat, s', .exhausted) ∧
        ∀ k, extras (Pat.it f) k s' = .ok (List.replicate k none) :=
  Pat.enumerates_lemma f n hn

example : (0 : Int) ≤ 3 := by decide

/-- the family: exactly the permutations of `0..n-1` all of whose standardised non-empty prefixes pass `f`
(`std p` replaces every entry by its rank in `p`), each exactly once (no order is documented). -/
theorem Pat.family (f : List Int → Bool) (n : Nat) (x : List Int) :
    (x ∈ patList f n ↔ IsPerm n x ∧ ∀ j, 0 < j → j ≤ n → f (std (x.take j)) = true) ∧ (patList f n).Nodup :=
  ⟨mem_patList f n x, patList_nodup f n⟩

/-! ## Permutations (Heap's algorithm) -/

/-- `Permutations(n)`, `n ≥ 0`, yields exactly `heapList n` (the arrays visited by the recursive form of Heap's
algorithm, in that order), then `Next` is false forever; no panic. -/
theorem Heap.enumerates (n : Int) (hn : 0 ≤ n) :
    ∃ s0, Heap.init n = .ok s0 ∧ ∀ bound, (heapList n.toNat).length < bound →
      ∃ s', outputs Heap.it bound s0 = (heapList n.toNat, s', .exhausted) ∧
        ∀ k, extras Heap.it k s' = .ok (List.replicate k none) :=
  Heap.enumerates_lemma n hn

example : ∃ s0, Heap.init 3 = .ok s0 ∧ (outputs Heap.it 10 s0).2.2 = .exhausted ∧
    (outputs Heap.it 10 s0).1.length = 6 := ⟨_, rfl, by decide, by decide⟩

/-- the family: `heapList n` contains exactly the rearrangements of `0, …, n-1`, each exactly once (`n!` values; no
order is documented). -/
theorem Heap.family (n : Nat) (x : List Int) :
    (x ∈ heapList n ↔ x.Perm ((List.range n).map (fun (i : Nat) => (i : Int)))) ∧ (heapList n).Nodup ∧
    (heapList n).length = n.factorial :=
  ⟨mem_heapList n x, heapList_nodup n, heapList_length n⟩

/-! ## MultisetCombinations (Algorithm Q)

The code runs Algorithm Q on the types with a positive multiplicity and scatters the counts back to their positions in
`m` (repair of finding F1: before, a type with multiplicity 0 in front of a positive one made the iterator miss
members or panic). The theorems hold for ALL `m ≥ 0` (zeros anywhere) and all `k ≥ 0`. -/

/-- `MultisetCombinations(m, k)`, all `m ≥ 0`, all `k ≥ 0`: the values are the pairs (count vector `c` indexed like
`m`, its expansion `expandList 0 c` = the sorted multiset returned by `Value()`) for `c` running through
`msColexList m k`, then `Next` is false forever; no panic, the loops' fuel suffices. -/
theorem MSComb.enumerates (m : List Int) (k : Int) (hm : ∀ v ∈ m, 0 ≤ v) (hk : 0 ≤ k) :
    ∀ bound, (msColexList m k).length < bound →
      ∃ s', outputs MSComb.it bound (MSComb.init m k) =
          ((msColexList m k).map (fun c => (c, expandList 0 c)), s', .exhausted) ∧
        ∀ n, extras MSComb.it n s' = .ok (List.replicate n none) :=
  MSComb.enumerates_lemma m k hm hk

/-- non-vacuity, on the two inputs of the former finding F1: every member is now produced -/
example : (∀ v ∈ ([0, 1, 2] : List Int), 0 ≤ v) ∧
    (outputs MSComb.it 10 (MSComb.init [0, 1, 2] 2)).1 = [([0, 1, 1], [1, 2]), ([0, 0, 2], [2, 2])] ∧
    (outputs MSComb.it 10 (MSComb.init [0, 1, 2] 2)).2.2 = .exhausted := by decide

example : (outputs MSComb.it 10 (MSComb.init [1, 0, 3] 2)).1 = [([1, 0, 1], [0, 2]), ([0, 0, 2], [2, 2])] ∧
    (outputs MSComb.it 10 (MSComb.init [1, 0, 3] 2)).2.2 = .exhausted := by decide

/-- the family: `msColexList m k` contains exactly the count vectors `c` with `0 ≤ c[i] ≤ m[i]` and `∑ c = k`
(`G c i` = entry `i`), each exactly once (no order is documented; the algorithm's order is colexicographic); it is a
rearrangement of the brute-force family `msFamily m k`. -/
theorem MSComb.family (m : List Int) (k : Int) (hm : ∀ v ∈ m, 0 ≤ v) (c : List Int) :
    (c ∈ msColexList m k ↔
      c.length = m.length ∧ (∀ i, i < m.length → 0 ≤ G c i ∧ G c i ≤ G m i) ∧ c.sum = k) ∧
    (msColexList m k).Nodup ∧ (msColexList m k).Perm (msFamily m k) :=
  ⟨mem_msColexList m k c, msColexList_nodup m k hm, msColexList_perm_msFamily m k hm⟩

example : ∀ v ∈ ([2, 0, 2] : List Int), 0 ≤ v := by decide

/-- exhaustion is absorbing for all `m`, `k` and all states -/
theorem MSComb.exhaustion_absorbing (s s' : MSComb) (h : MSComb.next s = .ok (s', false)) :
    ∀ k, extras MSComb.it k s' = .ok (List.replicate k none) :=
  MSComb.absorbing s s' h

example : ∃ s', MSComb.next ⟨none, [2], 3, 0, [], false, [2], none⟩ = .ok (s', false) := ⟨_, rfl⟩

-- test (bounded, kernel-evaluated): for all `m ∈ {0,1,2}^{≤3}` and all `k < 8` the model stops by exhaustion and
-- yields every member of `msFamily m k` exactly once, with consistent `Value()`.
example : ((List.range 4).flatMap (vectors 2)).all (fun m =>
    (List.range 8).all (fun (k : Nat) => msCheck m k)) = true := by decide

/-! ## TopologicalSorts (Algorithm V) = filter -/

/-- `TopologicalSorts(n, less)`, for every `n ≥ 0` and every relation `less`, yields exactly the pairs
`(σ, inverse σ)` for `σ` running through `topoList less n` (`Value()` and `InverseValue()`), then `Next` is false
forever; `Topo.shift`'s fuel suffices. -/
theorem Topo.enumerates (less : Int → Int → Bool) (n : Int) (hn : 0 ≤ n) :
    ∃ s0, Topo.init n = .ok s0 ∧ ∀ bound, (topoList less n.toNat).length < bound →
      ∃ s', outputs (Topo.it less) bound s0 =
          ((topoList less n.toNat).map (fun σ => (σ, inverse σ)), s', .exhausted) ∧
        ∀ k, extras (Topo.it less) k s' = .ok (List.replicate k none) :=
  Topo.enumerates_lemma less n hn

example : ∃ s0, Topo.init 3 = .ok s0 := ⟨_, (Topo.enumerates (fun _ _ => false) 3 (by decide)).choose_spec.1⟩

/-- the family: for `less` contained in the natural order (it need not be transitive), `topoList less n` contains
exactly the permutations of `0..n-1` in which `i` occurs before `j` whenever `less i j`, each exactly once (no order
is documented); -/
theorem Topo.family (less : Int → Int → Bool) (hless : ∀ i j, less i j = true → i < j) (n : Nat) (x : List Int) :
    (x ∈ topoList less n ↔
      x.Perm (idList n) ∧ ∀ i j, less i j = true → i ∈ x → j ∈ x → x.idxOf i < x.idxOf j) ∧
    (topoList less n).Nodup :=
  ⟨mem_topoList less hless n x, topoList_nodup less n⟩

example : ∀ i j : Int, (fun (a b : Int) => decide (a + 1 = b)) i j = true → i < j := by
  intro i j h; simp at h; omega

/-- and the second component is the inverse permutation: `inverse σ` has an entry for every element, and the entry at
`σ[p]` is `p`. -/
theorem Topo.inverse_value {n : Nat} {σ : List Int} (hp : σ.Perm (idList n)) :
    (inverse σ).length = n ∧ ∀ (p : Nat) (h : p < σ.length), get (inverse σ) σ[p] = .ok (p : Int) :=
  inverse_spec hp

example : ([1, 0, 2] : List Int).Perm (idList 3) := by decide

end Iter
