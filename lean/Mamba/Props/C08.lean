import Mamba.Model.Codec
import Mamba.Spec.Formats
import Mamba.Lemmas.CodecG6
import Mamba.Lemmas.CodecS6Dec
import Mamba.Lemmas.CodecS6
import Mamba.Lemmas.CodecS6Enc
/-!
# C08 — text decoders are total: malformed input gives an error, never a crash

`g6Decode s`/`s6Decode s` of the model return `.ok none` for an error return, `.ok (some g)` for a graph, `.panic` where
the Go code would index out of range / call `panic`, `.outOfFuel` if a loop did not finish within its fuel.
The theorems quantify over **all** byte strings (`Array Nat`, not even restricted to values below 256).
-/
namespace Codec
namespace C08
open Formats GraphSpec

/-- **g6Decode_total.** `Graph6Decode` never panics and never runs out of fuel; when it succeeds, the result is a
well-formed `DenseGraph` (array sizes, `DegreeSequence` and `NumberOfEdges` agree with the adjacency) whose number of
vertices is the one the size header of the string (after the optional `>>graph6<<`) declares — `0` for the empty
string. -/
theorem g6Decode_total (s : Bytes) :
    g6Decode s ≠ .panic ∧ g6Decode s ≠ .outOfFuel ∧
    ∀ d, g6Decode s = .ok (some d) → d.WF ∧ d.toG.WF ∧
      ((if hasPrefix s g6Magic then dropBytes s 10 else s).size = 0 ∧ d.n = 0 ∨
        ∃ rest, readN (if hasPrefix s g6Magic then dropBytes s 10 else s).toList = some (d.n, rest)) := by
  obtain ⟨h1, h2, h3⟩ := g6Decode_total_declared s
  exact ⟨h1, h2, fun d hd => ⟨(h3 d hd).1, Dense.toG_wf d, (h3 d hd).2⟩⟩

/-- **decode_reencode_stable (graph6).** Whenever `Graph6Decode` succeeds, re-encoding the result and decoding again
gives the same `DenseGraph` value. -/
theorem g6_decode_reencode_stable (s : Bytes) (d : Dense) (h : g6Decode s = .ok (some d)) :
    ∃ a, g6Encode (GI.ofDense d) = .ok a ∧ g6Decode a = .ok (some d) :=
  g6_stable s d h

/-- non-vacuity: the hypothesis is satisfiable (the graph6 string of K2 decodes) -/
example : ∃ s d, g6Decode s = .ok (some d) := by
  obtain ⟨a, _, hd, _⟩ := g6_roundtrip_denseOf (GI.ofG (ofEdges 2 [(0, 1)])) (ofEdges_wf 2 [(0, 1)]) (by decide)
  exact ⟨a, _, hd⟩

/-- **s6Decode_total.** `Sparse6Decode` never panics (no index out of range in the bit cursor, in `AddEdge`, …) and
its stream loop finishes within its fuel (it consumes `k+1 ≥ 1` bits per round); when it succeeds, the result is a
well-formed `SparseGraph` (strictly increasing, symmetric, loop-free neighbour lists inside `0..n-1`; degrees and
edge count agree) whose number of vertices is the one the size header declares (the string after the optional
`>>sparse6<<` is read by the format's reader `s6DecodeSpec`). -/
theorem s6Decode_total (s : Bytes) :
    s6Decode s ≠ .panic ∧ s6Decode s ≠ .outOfFuel ∧
    ∀ g, s6Decode s = .ok (some g) → g.WF ∧
      ∃ es, s6DecodeSpec (if hasPrefix s s6Magic then s.toList.drop 11 else s.toList) = some (g.n, es) :=
  Codec.s6Decode_total s

/-- **decode_reencode_stable (sparse6).** Whenever `Sparse6Decode` succeeds, re-encoding the result and decoding again
gives the same `SparseGraph` value. -/
theorem s6_decode_reencode_stable (s : Bytes) (g : Sparse) (h : s6Decode s = .ok (some g)) :
    ∃ a, s6Encode (GI.ofSparse g) = .ok a ∧ s6Decode a = .ok (some g) :=
  s6_stable_of s g h (fun hs hn => by
    obtain ⟨a, h1, h2, _, h4⟩ := Codec.s6_spec_decodes (GI.ofSparse g) hs hn
    exact ⟨a, h1, h2, h4⟩)

/-- non-vacuity: the hypothesis is satisfiable (the sparse6 string of K2 decodes) -/
example : ∃ s g, s6Decode s = .ok (some g) := by
  obtain ⟨a, _, h2, _, h4⟩ := Codec.s6_spec_decodes (GI.ofG (ofEdges 2 [(0, 1)]))
    (ofG_sound _ (ofEdges_wf 2 [(0, 1)])) (by decide)
  exact ⟨a, _, (s6_roundtrip_of_spec _ (ofEdges_wf 2 [(0, 1)]) a h2 h4).1⟩

end C08
end Codec
