import Mamba.Model.Codec
import Mamba.Spec.Formats
import Mamba.Lemmas.CodecG6
import Mamba.Lemmas.CodecMc
import Mamba.Lemmas.CodecG6Conf
import Mamba.Lemmas.CodecS6
import Mamba.Lemmas.CodecS6Enc
import Mamba.Lemmas.CodecPrufer
/-!
# C07 — graph codecs round-trip every graph and follow their format definitions

Theorems about the executable model `Mamba/Model/Codec.lean` (the definitions `mdrv` runs) and the transcription of
formats.txt in `Mamba/Spec/Formats.lean`. The encoders see a graph through the `Graph` interface (`Codec.GI`);
`g.toG` is the abstract graph it denotes; `Dense.toG` / `Sparse.toG` are the graphs the decoded values denote
(through `IsEdge` / the neighbour lists); `Dense.WF` / `Sparse.WF` say that `M()`, `Degrees()` and the arrays agree
with that adjacency.
-/
namespace Codec
namespace C07
open Formats GraphSpec

/-- **g6_is_spec.** For every graph within the format's range (`n < 2^36`), the model's `Graph6Encode` returns
exactly the string the format prescribes — the size header `N(n)` followed by `R(x)` for the upper triangle `x` in the
order (0,1),(0,2),(1,2),(0,3),… — and every byte lies in 63..126. The string is a function of the graph, i.e. it is
*the* graph6 string; `g6_roundtrip` shows that different graphs get different strings. -/
theorem g6_is_spec (g : GI) (hsym : ∀ u v, g.isEdge u v = g.isEdge v u) (hn : g.n ≤ 68719476735) :
    ∃ a, g6Encode g = .ok a ∧ a.toList = g6Spec g.toG ∧ ∀ c ∈ a.toList, 63 ≤ c ∧ c ≤ 126 :=
  g6Encode_eq_spec g hsym hn

/-- non-vacuity: the path 0-1-2 is `"Bg"` -/
example : ∃ a, g6Encode (GI.ofG (ofEdges 3 [(0, 1), (1, 2)])) = .ok a ∧ a.toList = [66, 103] := by
  obtain ⟨a, h1, h2, _⟩ := g6_is_spec (GI.ofG (ofEdges 3 [(0, 1), (1, 2)]))
    (fun u v => (ofEdges_wf 3 [(0, 1), (1, 2)]).symm u v) (by decide)
  exact ⟨a, h1, by rw [h2]; decide⟩

/-- **g6_roundtrip.** For every well-formed graph whose triangle size does not overflow Go's `int`
(`n(n-1)/2 < 2^63`, i.e. `n ≤ 2^32`; this covers the 1-, 4- and 8-byte headers, `n = 0, 1`, edgeless graphs),
`Graph6Decode(Graph6Encode(g))` succeeds — with and without the optional `>>graph6<<` header — and returns a
well-formed `DenseGraph` on the same vertices with the same adjacency. -/
theorem g6_roundtrip (g : GI) (hwf : g.toG.WF) (hn : g.n * (g.n - 1) / 2 < 2 ^ 63) :
    ∃ a d, g6Encode g = .ok a ∧ g6Decode a = .ok (some d) ∧ g6Decode (g6Header.toArray ++ a) = .ok (some d) ∧
      d.WF ∧ d.n = g.n ∧ ∀ u v, d.toG.adj u v = g.isEdge u v := by
  obtain ⟨a, h1, h2, h3⟩ := g6_roundtrip_denseOf g hwf hn
  -- the header string the code tests for is the format's
  have hh : g6Magic = g6Header := by decide
  exact ⟨a, denseOf g.toG, h1, h2, hh ▸ h3, denseOf_wf _ hwf, rfl, fun u v => denseOf_adj _ hwf u v⟩

/-- non-vacuity -/
example : ∃ a d, g6Encode (GI.ofG (ofEdges 3 [(0, 1), (1, 2)])) = .ok a ∧ g6Decode a = .ok (some d) ∧ d.n = 3 := by
  obtain ⟨a, d, h1, h2, _, _, h5, _⟩ := g6_roundtrip (GI.ofG (ofEdges 3 [(0, 1), (1, 2)]))
    (ofEdges_wf 3 [(0, 1), (1, 2)]) (by decide)
  exact ⟨a, d, h1, h2, h5⟩

/-- **graph6 strings are unique.** The format's string determines the graph: two graphs (within the format's range)
with the same graph6 string have the same number of vertices and the same adjacency. Together with `g6_is_spec` (the
encoder's output is a function of the graph) this is "the encoder output is the format's unique string". -/
theorem g6_spec_injective (g h : G) (hn : g.n ≤ 68719476735) (hn' : h.n ≤ 68719476735) (e : g6Spec g = g6Spec h) :
    g.n = h.n ∧ ∀ i j, i < j → j < g.n → g.adj i j = h.adj i j :=
  g6Spec_injective g h hn hn' e

/-- **the graph6 decoder follows the format.** Whenever `Graph6Decode` accepts a non-empty string `s` (one that does not
start with the optional header; with the header the same holds for the rest), the number of vertices is the one
`N(n)` at the front of `s` encodes and the adjacency of the result is, pair by pair in the order
(0,1),(0,2),(1,2),(0,3),…, the 6-bits-per-byte stream of the bytes that follow the size header. -/
theorem g6Decode_reads_format (s : Bytes) (hm : hasPrefix s g6Magic = false) (hs : s.size ≠ 0) (d : Dense)
    (h : g6Decode s = .ok (some d)) :
    ∃ rest, readN s.toList = some (d.n, rest) ∧
      ∀ i j, i < j → j < d.n → d.toG.adj i j = ((unR rest)[tri j + i]? == some true) := by
  rw [g6Decode_eq_core, hm] at h
  exact g6DecodeCore_reads s hs d h

/-- **s6_spec_decodes (interoperability).** For every graph within the format's range handed over through a sound
interface value, `Sparse6Encode` returns `':'` followed by bytes in 63..126, and *the format's reader* (`s6DecodeSpec`:
`if b then v++; if x > v then v = x else edge {x,v}`, incomplete final group discarded, stop when `v ≥ n`) reads it
as `n` vertices and exactly the edge list of the graph — every edge once, no loop (the padding is never read as an
edge, in particular not for `n = 2^k`). -/
theorem s6_spec_decodes (g : GI) (hs : g.Sound) (hn : g.n ≤ 68719476735) :
    ∃ a, s6Encode g = .ok a ∧ a[0]? = some 58 ∧ (∀ c ∈ a.toList.drop 1, 63 ≤ c ∧ c ≤ 126) ∧
      s6DecodeSpec a.toList = some (g.n, g.toG.edges) :=
  Codec.s6_spec_decodes g hs hn

/-- **the sparse6 writer follows the format**, including the padding rule: the output is `':' N(n) R(stream ++ pad)`
where `stream` consists of complete `(b,x)` groups of `1 + k` bits (`k` = bits of `n-1`) which the reader reads as
the edges of the graph, and `pad` is exactly the padding formats.txt prescribes (`s6PadBits`: 1-bits, preceded by one
0-bit when `n ∈ {2,4,8,16}`, vertex `n-2` has an edge, vertex `n-1` has none and at least `k+1` bits are needed). -/
theorem s6_follows_format (g : GI) (hs : g.Sound) (hn : g.n ≤ 68719476735) :
    ∃ a stream, s6Encode g = .ok a ∧
      a.toList = 58 :: (Nn g.n ++ R (stream ++ s6PadBits g.toG stream.length)) ∧
      stream.length % (Formats.bitLen (g.n - 1) + 1) = 0 ∧
      s6Read g.n (Formats.bitLen (g.n - 1)) (stream.length / (Formats.bitLen (g.n - 1) + 1)) 0 stream = g.toG.edges := by
  obtain ⟨a, h1, h2⟩ := s6_conforms g hs hn
  refine ⟨a, _, h1, h2, ?_, ?_⟩
  · rw [s6e_stream_length]; exact Nat.mul_mod_left _ _
  · rw [s6e_stream_length, Nat.mul_div_cancel _ (Nat.succ_pos _)]
    by_cases hn1 : g.n ≤ 1
    · have he : g.toG.edges = [] := by
        cases he : g.toG.edges with
        | nil => rfl
        | cons p es =>
          have hp : (p.1, p.2) ∈ g.toG.edges := by rw [he]; simp
          have := (edges_mem g.toG p.1 p.2).1 hp
          have hn' : g.toG.n = g.n := rfl
          omega
      rw [he]; simp [s6e_groups, s6Read]
    · have hk : g.n ≤ 2 ^ Formats.bitLen (g.n - 1) := s6e_le_pow g.n (by omega)
      have := s6e_read_stream g.n _ hk g.toG.edges 0 0 [] (s6e_edges_ok g.toG)
      simpa [s6Read] using this

/-- **s6_roundtrip.** For every such graph, `Sparse6Decode(Sparse6Encode(g))` succeeds — with and without the optional
`>>sparse6<<` header — and returns a well-formed `SparseGraph` on the same vertices with the same adjacency
(in particular for edgeless graphs, streams that end on a byte boundary, `n = 0, 1`, and `n` a power of two). -/
theorem s6_roundtrip (g : GI) (hs : g.Sound) (hn : g.n ≤ 68719476735) :
    ∃ a d, s6Encode g = .ok a ∧ s6Decode a = .ok (some d) ∧ s6Decode (s6Header.toArray ++ a) = .ok (some d) ∧
      d.WF ∧ d.n = g.n ∧ ∀ u v, d.toG.adj u v = g.isEdge u v := by
  obtain ⟨a, h1, h2, _, h4⟩ := Codec.s6_spec_decodes g hs hn
  obtain ⟨h5, h6⟩ := s6_roundtrip_of_spec g.toG hs.wf a h2 h4
  have hh : s6Magic = s6Header := by decide
  exact ⟨a, sparseOf g.toG, h1, h5, hh ▸ h6, sparseOf_wf _ hs.wf, rfl, fun u v => sparseOf_adj _ hs.wf u v⟩

/-- non-vacuity: K2, the case whose padding used to be read as vertex 2 -/
example : ∃ a d, s6Encode (GI.ofG (ofEdges 2 [(0, 1)])) = .ok a ∧ s6Decode a = .ok (some d) ∧ d.n = 2 := by
  obtain ⟨a, d, h1, h2, _, _, h5, _⟩ := s6_roundtrip (GI.ofG (ofEdges 2 [(0, 1)]))
    (ofG_sound _ (ofEdges_wf 2 [(0, 1)])) (by decide)
  exact ⟨a, d, h1, h2, h5⟩

/-- **the sparse6 decoder is the format's reader.** On every byte string (without the optional header; with it, the
same for the rest of the string) `Sparse6Decode` returns an error exactly when the format's reader rejects the
string, and otherwise the graph obtained by `AddEdge`-ing, in order, the edges the format's reader outputs. -/
theorem s6Decode_is_spec_reader (s : Bytes) (hm : hasPrefix s s6Magic = false) :
    s6Decode s = match s6DecodeSpec s.toList with
      | none => .ok none
      | some (n, es) => match addEdges (newSparseNil n) es with
        | .ok g => .ok (some g) | .panic => .panic | .outOfFuel => .outOfFuel :=
  s6Decode_core_spec s hm

/-- **mc_roundtrip (single record).** For every graph with at most 255 vertices handed over through a sound
interface value (`M()` is what sizes the buffer), `MulticodeEncode` does not index out of range and writes exactly the
record `n, (neighbours j+1 > i+1 of vertex i, 0)_{i < n-1}` (`[0]` for the empty graph), all of whose bytes are `≤ n`;
`MulticodeDecode` of it returns a well-formed `DenseGraph` on the same vertices with the same adjacency. -/
theorem mc_roundtrip (g : GI) (hs : g.Sound) (hn : g.n ≤ 255) :
    ∃ a d, mcEncode g = .ok a ∧ a.toList = mcSpec g.toG ∧ (∀ c ∈ a.toList, c ≤ g.n) ∧
      mcDecode a = .ok d ∧ d.WF ∧ d.n = g.n ∧ ∀ u v, d.toG.adj u v = g.isEdge u v := by
  obtain ⟨a, h1, h2⟩ := mcEncode_eq g hs hn
  have h3 : mcDecode a = .ok (denseOf g.toG) := by
    have : a = (mcSpec g.toG).toArray := by rw [← h2]
    rw [this]; exact mcDecode_spec g.toG hs.wf hn
  exact ⟨a, denseOf g.toG, h1, h2, fun c hc => mcSpec_bytes g.toG hn c (h2 ▸ hc), h3, denseOf_wf _ hs.wf, rfl,
    fun u v => denseOf_adj _ hs.wf u v⟩

/-- **Multicode's limit.** A record names vertices by one byte each (`j+1 ≤ 255`): a graph with more than 255 vertices
is refused (`panic("Graph too large for Multicode")`), never encoded wrongly. -/
theorem mc_limit (g : GI) (h : 255 < g.n) : mcEncode g = .panic := by
  unfold mcEncode
  rw [if_pos h]

/-- non-vacuity -/
example : ∃ a d, mcEncode (GI.ofG (ofEdges 3 [(0, 1), (1, 2)])) = .ok a ∧ mcDecode a = .ok d ∧ d.n = 3 := by
  obtain ⟨a, d, h1, _, _, h4, _, h6, _⟩ := mc_roundtrip (GI.ofG (ofEdges 3 [(0, 1), (1, 2)]))
    (ofG_sound _ (ofEdges_wf 3 [(0, 1), (1, 2)])) (by decide)
  exact ⟨a, d, h1, h4, h6⟩

/-- **mc_roundtrip (concatenated records).** For every list of graphs with at most 255 vertices each (including graphs
with 0 and 1 vertices), `MulticodeDecodeMultiple` applied to the concatenation of their records returns one
well-formed `DenseGraph` per record, in order, each with the vertices and adjacency of the corresponding graph. -/
theorem mc_roundtrip_concat (gs : List GI) (h : ∀ g ∈ gs, g.Sound ∧ g.n ≤ 255) :
    ∃ (as : List Bytes) (ds : Array Dense), as.length = gs.length ∧
      (∀ i (hi : i < gs.length), ∃ a, as[i]? = some a ∧ mcEncode gs[i] = .ok a) ∧
      mcDecodeMultiple (as.flatMap Array.toList).toArray = .ok ds ∧ ds.size = gs.length ∧
      ∀ i (hi : i < gs.length), ∃ d, ds[i]? = some d ∧ d.WF ∧ d.n = gs[i].n ∧ ∀ u v, d.toG.adj u v = gs[i].isEdge u v := by
  obtain ⟨as, h1, h2, h3⟩ := mc_roundtrip_multiple gs h
  refine ⟨as, _, h1, h2, h3, by simp, ?_⟩
  intro i hi
  have hs := (h gs[i] (List.getElem_mem hi)).1
  refine ⟨denseOf gs[i].toG, by simp [hi], denseOf_wf _ hs.wf, rfl, fun u v => denseOf_adj _ hs.wf u v⟩

/-- non-vacuity: a graph on 0 vertices, one on 1 vertex, and a path -/
example : ∃ (as : List Bytes) (ds : Array Dense), as.length = 3 ∧
    mcDecodeMultiple (as.flatMap Array.toList).toArray = .ok ds ∧ ds.size = 3 := by
  obtain ⟨as, ds, h1, _, h3, h4, _⟩ := mc_roundtrip_concat
    [GI.ofG (ofEdges 0 []), GI.ofG (ofEdges 1 []), GI.ofG (ofEdges 3 [(0, 1), (1, 2)])]
    (by
      intro g hg
      simp only [List.mem_cons, List.not_mem_nil, or_false] at hg
      rcases hg with rfl | rfl | rfl
      · exact ⟨ofG_sound _ (ofEdges_wf _ _), by decide⟩
      · exact ⟨ofG_sound _ (ofEdges_wf _ _), by decide⟩
      · exact ⟨ofG_sound _ (ofEdges_wf _ _), by decide⟩)
  exact ⟨as, ds, h1, h3, h4⟩

/-- **prufer_bijection, codes → trees → codes.** (`IsTree g`: `g` is well formed, has `n - 1` edges and is connected —
`Codec.IsTree` in `Lemmas/CodecPrufer.lean`.) For every `n ≥ 2` and every code in `{0..n-1}^(n-2)`, `PruferDecode`
does not panic and returns a well-formed `DenseGraph` on `n` vertices that is a labelled tree, and `PruferEncode` of
that tree is the code again. Hence `PruferDecode` is injective on codes and `PruferEncode` is onto the codes. -/
theorem prufer_bijection_codes (p : List Nat) (hp : ∀ x ∈ p, x < p.length + 2) :
    ∃ d, pruferDecode p = .ok d ∧ d.WF ∧ d.n = p.length + 2 ∧ IsTree d.toG ∧
      pruferEncode (GI.ofDense d) = .ok p := by
  obtain ⟨d, h1, h2, h3, h4⟩ := prufer_decode_tree p hp
  obtain ⟨d', h1', h5⟩ := prufer_decode_encode p hp
  have : d' = d := by rw [h1] at h1'; injection h1' with e; exact e.symm
  subst this
  exact ⟨d', h1, h2, h3, h4, h5⟩

/-- non-vacuity: the code `[3, 3, 3]` (a star with centre 3 on five vertices) -/
example : ∃ d, pruferDecode [3, 3, 3] = .ok d ∧ pruferEncode (GI.ofDense d) = .ok [3, 3, 3] := by
  obtain ⟨d, h1, _, _, _, h5⟩ := prufer_bijection_codes [3, 3, 3] (by decide)
  exact ⟨d, h1, h5⟩

/-- **prufer_bijection, trees → codes → trees.** For every labelled tree on `n ≥ 2` vertices (handed over through a
sound interface value), `PruferEncode` does not panic and returns a code in `{0..n-1}^(n-2)`, and `PruferDecode` of
that code is a graph on the same vertices with the same adjacency. Hence `PruferEncode` is injective on trees and
`PruferDecode` is onto the trees: with `prufer_bijection_codes`, the two are mutually inverse bijections. -/
theorem prufer_bijection_trees (g : GI) (hs : g.Sound) (ht : IsTree g.toG) (hn : 2 ≤ g.n) :
    ∃ p d, pruferEncode g = .ok p ∧ p.length = g.n - 2 ∧ (∀ x ∈ p, x < g.n) ∧
      pruferDecode p = .ok d ∧ d.n = g.n ∧ ∀ u v, d.toG.adj u v = g.isEdge u v := by
  obtain ⟨p, h1, h2, h3⟩ := prufer_encode_ok g hs ht hn
  obtain ⟨p', d, h1', h4, h5, h6⟩ := prufer_encode_decode g hs ht hn
  have : p' = p := by rw [h1] at h1'; injection h1' with e; exact e.symm
  subst this
  exact ⟨p', d, h1, h2, h3, h4, h5, h6⟩

/-- non-vacuity: trees exist (the decode of `[3, 3, 3]` is one, and its interface value is sound) -/
example : ∃ g : GI, g.Sound ∧ IsTree g.toG ∧ 2 ≤ g.n := by
  obtain ⟨d, _, h2, h3, h4, _⟩ := prufer_bijection_codes [3, 3, 3] (by decide)
  refine ⟨GI.ofG d.toG, ofG_sound _ (Dense.toG_wf d), h4, ?_⟩
  show 2 ≤ d.n
  omega

end C07
end Codec
