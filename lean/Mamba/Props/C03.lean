import Mamba.Lemmas.IsoLevels
import Mamba.Lemmas.IsoPreds
import Mamba.Lemmas.IsoPreds2
import Mamba.Lemmas.SearchOut
import Mamba.Lemmas.SearchShards
import Mamba.Lemmas.SearchPlace
import Mamba.Lemmas.ExactFinal
import Mamba.Lemmas.BridgeSpec
import Mamba.Lemmas.TestOracle
import Mamba.Lemmas.TermExhaust
/-!
# Property C03 — the search yields exactly one representative of every isomorphism class

Pattern V: `GSearch.checkLevels` (run by the driver on the lists the implementation yields for n = 0..N) is a
verified checker.  The theorems below are about the definitions the driver runs.
-/
namespace GSearch
open GraphSpec

/-- The brute-force canonical code decides isomorphism: for well-formed graphs on the same number of vertices,
equal codes iff isomorphic. -/
theorem bfCanon_iso_iff {g h : G} (hg : g.WF) (hh : h.WF) (hn : g.n = h.n) :
    bfCanon g = bfCanon h ↔ Iso g h :=
  bfCanon_eq_iff_iso hg hh hn

example : bfCanon (ofMask 3 1) = bfCanon (ofMask 3 4) ∧ (ofMask 3 1).WF ∧ (ofMask 3 1).n = (ofMask 3 4).n :=
  ⟨by decide, ofMask_wf _ _, rfl⟩

/-- Soundness of the extension test, for every `k`: if `prev` represents every class of graphs on `k` vertices with the
hereditary property `P`, and every one-vertex extension `h + S` (`h ∈ prev`) that has `P` has its canonical code among
those of `out`, then `out` represents every class of graphs on `k + 1` vertices with `P`. -/
theorem extClosed_complete {P : G → Bool} (hP : Hereditary P) {k : Nat} {prev out : List G}
    (hprevWF : ∀ h ∈ prev, h.WF) (hprevN : ∀ h ∈ prev, h.n = k)
    (houtWF : ∀ o ∈ out, o.WF) (houtN : ∀ o ∈ out, o.n = k + 1)
    (hc : Complete P k prev) (hext : ExtClosed P prev out) : Complete P (k + 1) out :=
  extClosed_complete' hP hprevWF hprevN houtWF houtN hc hext

example : Hereditary (fun _ => true) ∧ Complete (fun _ => true) 0 [ofMask 0 0] ∧
    ExtClosed (fun _ => true) [ofMask 0 0] [ofMask 1 0] :=
  ⟨hereditary_true, complete_zero (by decide) (by decide), by unfold ExtClosed; decide⟩

/-- The checker is sound: if it accepts the lists `levels[0], …, levels[N]` then, for every `k ≤ N`, `levels[k]`
consists of graphs on `k` vertices with `P`, pairwise non-isomorphic, and every well-formed graph on `k` vertices
with `P` is isomorphic to one of them — exactly one representative of every isomorphism class with `P`. -/
theorem checkLevels_sound {P : G → Bool} (hP : Hereditary P) (levels : List (List G))
    (hwf : ∀ l ∈ levels, ∀ g ∈ l, g.WF) (hok : checkLevels P levels = .ok) :
    ∀ k (hk : k < levels.length), Transversal P k levels[k] := by
  intro k hk
  have := checkFrom_sound hP levels 0 none hwf rfl hok k hk
  simpa using this

example : checkLevels (fun _ => true) [[ofMask 0 0], [ofMask 1 0], [ofMask 2 0, ofMask 2 1]] = .ok := by decide

/-- the graphs the driver builds from masks are well-formed, so `checkLevels_sound` applies to every request -/
theorem ofMask_wellFormed (n mask : Nat) : (ofMask n mask).WF := ofMask_wf n mask

/-- All predicates the harness uses as `preprune`/`prune` are hereditary (invariant under isomorphism and inherited by
`g - last vertex`), so `checkLevels_sound` and `search_exact` apply to them: no restriction, at most `k` vertices, maximum
degree at most `d`, triangle-free, K4-free, forest (`isForest_iff`: no non-empty set of vertices each with two neighbours
inside), bipartite (`isBipartite_iff`: a proper 2-colouring exists). -/
theorem predicates_hereditary (k d : Nat) :
    Hereditary (fun _ => true) ∧ Hereditary (orderLE k) ∧ Hereditary (maxDegLE d) ∧ Hereditary triangleFree ∧
      Hereditary k4Free ∧ Hereditary isForest ∧ Hereditary isBipartite :=
  ⟨hereditary_true, hereditary_orderLE k, hereditary_maxDegLE d, hereditary_triangleFree, hereditary_k4Free,
   hereditary_isForest, hereditary_isBipartite⟩

end GSearch

namespace Search
open GraphSpec GSearch

/-
Canonical augmentation is exact — CLOSED for the model (`search_exact` below), relative to `OracleSpec`.

`OracleSpec O n` (`Lemmas/ExactOracle.lean`) states the specification of the canonical-labelling oracle, clause by clause
the statements of C01 (`canon_invariant`, `canon_complete`: the relabelled graph depends only on the isomorphism class)
and C02 (`autGroup_sound`/`autGroup_complete`/`orbits_sound`: orbit partition = orbits of Aut(g); generators are
automorphisms and generate Aut(g)), plus the early-exit clause of `CheckViability` (`early`, `early_reject`).

Structure of the proof (all n, all fuel):
  * `orderly_generation` — the abstract argument (objects, isomorphism, canonical-parent relation, transversal kids);
  * `run_refines_traversal`, `shards_partition`, `preprune_prune_agree` — the loop performs the recursive traversal;
  * `search_exact_of_specs` — exactness given `Specs` (six statements about `isCanonical` / `addAugmentations`);
  * `addAugmentations_orbit_reps` — step (2): given `OracleSpec`, `addAugmentations` lists exactly one neighbour set from
    every `Aut(g)`-orbit of sets of size ≤ mindeg+1 (union–find over k-subset ranks = orbits of the group generated by
    `gens`; colex rank = index; the k = 1 masks are the roots of `orbits`; also with the cache left by `isCanonical`);
  * `isCanonical_canonical_deletion` — step (3): `isCanonical (g+S)` accepts iff the new vertex is a best vertex
    (minimum degree, then lexicographically largest (Σ deg, Σ deg²) of the neighbours) lying in the `Aut`-orbit of the
    first best vertex in the order of `perm`; `Lemmas/CanonSpecs1.lean`, `CanonSpecs2.lean` derive from it McKay's
    three facts (`canon_iso`, `canon_inv`, `canon_exists`);
  * `search_exact` — the theorem.
`OracleSpec` is consistent for every n and formally linked to C01/C02: `irOracle_satisfies_oracleSpec` — the oracle built
from the unpruned model `IR` of C01/C02 satisfies it; `search_exact_with_IR_oracle` instantiates the theorem.
What remains relative: pure pruning functions, normal termination within the fuel, and the faithfulness of the two models
to the Go code (correspondences `c04seq` for the search, C01/C02 for the canonical labelling).
-/

/-- For all `n, a, m`, oracles and pruning functions (no oracle specification needed): every graph the iterator yields
(from a reachable state) has exactly `n` vertices, its `DegreeSequence`/`Edges` have the right lengths, and its
abstraction is a well-formed graph — the "every yielded value is a well-formed graph on n vertices" clause. -/
theorem search_outputs_wellformed (O : Oracle) (pre pr : DG → Bool) (fuel lim : Nat) {s s' : State} {out : List DG}
    (hi : Inv s) (h : exhaust O pre pr fuel lim s = .ok (out, s')) :
    ∀ g ∈ out, g.nv = s.n ∧ g.degs.size = g.nv ∧ g.edges.size = tri g.nv ∧ g.toG.WF ∧ g.toG.n = s.n := by
  intro g hg
  have := exhaust_outputs O pre pr fuel lim s s' out h hi g hg
  exact ⟨this.1, this.2.degs, this.2.edges, toG_wf g, this.1⟩

example : Inv (init 1 0 1) ∧ ∃ out s', exhaust (fun _ _ _ _ => .ok none) (fun _ => false) (fun _ => false) 10 10
    (init 1 0 1) = .ok (out, s') ∧ out.length = 1 :=
  ⟨init_inv 1 0 1, _, _, rfl, rfl⟩

/-- **Orderly generation, abstractly**: objects with an equivalence `E` and a canonical-parent relation `Par` compatible
with it (`Orderly.Laws`); if the kids of `X` are an exact transversal (up to `E`) of the objects with canonical parent
`X`, and below every kid we have an exact transversal of its depth-`d` descendants, then the concatenation is an exact
transversal of the depth-`d+1` descendants of `X`. -/
theorem orderly_generation {α β : Type} {E Par : α → α → Prop} (L : Orderly.Laws E Par) (ks : List β) (obj : β → α)
    (outs : β → List α) (d : Nat) (X : α) (hk1 : ∀ z ∈ ks, Par X (obj z))
    (hk2 : ks.Pairwise fun a b => ¬ E (obj a) (obj b)) (hk3 : ∀ Z, Par X Z → ∃ z ∈ ks, E Z (obj z))
    (hout : ∀ z ∈ ks, Orderly.IsTrans E (Orderly.Anc E Par d (obj z)) (outs z)) :
    Orderly.IsTrans E (Orderly.Anc E Par (d + 1) X) (ks.flatMap outs) :=
  Orderly.trans_flatMap L ks obj outs d X hk1 hk2 hk3 hout

example : Orderly.Laws (fun a b : Nat => a = b) (fun a b : Nat => b = a + 1) :=
  ⟨fun _ => rfl, fun h => h.symm, fun h1 h2 => h1.trans h2, fun h hp => by subst h; exact hp,
   fun h hp => by subst h; exact hp, fun h1 h2 => by omega⟩

/-- **Canonical augmentation is exact, given the specifications of `isCanonical` and `addAugmentations`** (model level,
all `n ≥ 2`): for a hereditary, isomorphism-invariant property `P` supplied as `preprune`, the graphs yielded by
`WithPruning(n, 0, 1, P)` are an exact transversal of the isomorphism classes of graphs on `n` vertices with `P` — all have
`n` vertices and `P`, no two are isomorphic, every well-formed graph on `n` vertices with `P` is isomorphic to one of them.
(With `P = fun _ => true`: of all graphs on `n` vertices; for `prune` instead of `preprune` use `preprune_prune_agree`,
for the shards `shards_partition`.)  `Specs` is what remains to be derived from `OracleSpec`, see the comment above. -/
theorem search_exact_of_specs {O : Oracle} {n : Nat} {P : G → Bool} (hP : Hereditary P) (S : Specs O n (pruneOf P))
    (hn : 2 ≤ n) (fuel lim : Nat) {outs : List DG} {t : State}
    (h : exhaust O (pruneOf P) noPrune fuel lim (init n 0 1) = .ok (outs, t)) :
    Transversal P n (outs.map DG.toG) :=
  exact_of_specs hP S hn fuel lim h

/-- **`addAugmentations` lists one representative of every orbit of neighbour sets** (step 2, from `OracleSpec`): for a
graph `g` built by the search with fewer than `n` vertices and the cache `c` left by an accepting `isCanonical` (or none),
the masks pushed by `addAugmentations` lie inside `g`, are pairwise inequivalent under `Aut(g)`, and every vertex set
that is equivalent to the neighbourhood of an accepted child somewhere is `Aut(g)`-equivalent to one of them. -/
theorem addAugmentations_orbit_reps {O : Oracle} {n : Nat} (hO : OracleSpec O n) {g : DG} {c c' : Option Ans}
    {new : Array Nat} {num : Nat} (hb : Built g) (hlt : g.nv < n)
    (hc : c = none ∨ ∃ P x, Built P ∧ InRange P x ∧ AccK O n P x g c)
    (haug : addAugmentations O n g #[] c = .ok (new, c', num)) :
    (∀ x ∈ new.toList, InRange g x) ∧
    (new.toList.Pairwise fun x y => ¬ ExtEquiv g (bitsOf x) g (bitsOf y)) ∧
    (∀ (T : List Nat) (P0 g0 : DG) (x0 : Nat) (c0 : Option Ans), Built P0 → InRange P0 x0 → AccK O n P0 x0 g0 c0 →
      ExtEquiv g T P0 (bitsOf x0) → ∃ x ∈ new.toList, ExtEquiv g T g (bitsOf x)) :=
  ⟨aug_range_of_oracle hO hb hlt hc haug, aug_distinct_of_oracle hO hb hlt hc haug,
   fun T P0 g0 x0 c0 hb0 hr0 ha0 hT => aug_complete_of_oracle hO hb hlt hc haug T P0 g0 x0 c0 hb0 hr0 ha0 hT⟩

/-- **Canonical augmentation is exact, given the oracle specification and the `isCanonical` statements** (all `n ≥ 2`,
hereditary `P`): see `search_exact_of_specs`; the `addAugmentations` half of `Specs` is discharged from `OracleSpec`. -/
theorem search_exact_of_canonSpecs {O : Oracle} {n : Nat} {P : G → Bool} (hO : OracleSpec O n) (hP : Hereditary P)
    (hC : CanonSpecs O n) (hn : 2 ≤ n) (fuel lim : Nat) {outs : List DG} {t : State}
    (h : exhaust O (pruneOf P) noPrune fuel lim (init n 0 1) = .ok (outs, t)) :
    Transversal P n (outs.map DG.toG) :=
  exact_of_specs hP (specs_of_oracle hO hP hC) hn fuel lim h

/-- **`isCanonical` decides the canonical-deletion condition** (step 3, from `OracleSpec`): for a graph `g` built by the
search, the neighbour list `aug` of its last vertex and the oracle's answer `a`, `isCanonical` returns `true` iff the
last vertex is a best vertex and lies in the orbit of the first best vertex in the order of the canonical labelling. -/
theorem isCanonical_canonical_deletion {O : Oracle} {n : Nat} (hO : OracleSpec O n) {g : DG} (hb : Built g)
    {aug : List Nat} (haug : wsum g aug = nkey g (g.nv - 1)) (haugr : ∀ v ∈ aug, v < g.nv) {a : Ans}
    (ha : getAut O n g none = .ok (some a)) {c : Option Ans} {b : Bool}
    (h : isCanonical O n g aug none = .ok (c, b)) : b = true ↔ CanonLast g a :=
  accept_iff hO hb haug haugr ha h

/-- **Canonical augmentation is exact** (model level, full): for every `n`, every oracle `O` satisfying `OracleSpec O n`
(the statements of C01/C02 for the canonical labelling), and every hereditary, isomorphism-invariant property `P`
supplied as `preprune`, the graphs yielded by `WithPruning(n, 0, 1, P)` are an exact transversal of the isomorphism classes
of well-formed graphs on `n` vertices with `P`: every yielded graph has `n` vertices and `P`, no two are isomorphic, and
every well-formed graph on `n` vertices with `P` is isomorphic to a yielded one.  With `P = fun _ => true`: exactly one
representative of every isomorphism class of graphs on `n` vertices.  (`prune` instead of `preprune`:
`preprune_prune_agree`; shards `All n a m`: `shards_partition`.) -/
theorem search_exact {O : Oracle} {n : Nat} {P : G → Bool} (hO : OracleSpec O n) (hP : Hereditary P) (fuel lim : Nat)
    {outs : List DG} {t : State}
    (h : exhaust O (pruneOf P) noPrune fuel lim (init n 0 1) = .ok (outs, t)) :
    Transversal P n (outs.map DG.toG) :=
  exact_of_oracle hO hP fuel lim h

/-- **The oracle built from the C01/C02 model satisfies `OracleSpec`, for every `n`** — the formal link to C01/C02 and the
consistency of `OracleSpec`.  `irOracle` (`Lemmas/BridgeOracle.lean`) answers every question of the search with
* `perm` := the inverse of a leaf of maximal certificate of the unpruned individualisation–refinement tree `IR.allLeaves`
  (C01: `IR.canonCertFrom_is_leaf`, `allLeaves_perm` = `C01.leaf_is_perm`, `canonGraph_invariant` = `C01.canon_invariant`,
  `leaf_relabel` behind `C01.canon_iso`),
* `orbits` := the `disjoint.Set` obtained from `Disjoint.new` by `Union(v, γ v)` for every `γ` in `IR.autGroupFrom` and every
  vertex `v` (C18 `run_spec`; C02 `autGroupFrom_sound`/`autGroupFrom_complete` = `C02.autGroup_sound/complete`),
* `gens` := the whole list `IR.autGroupFrom`,
and never takes the early exit.  The bridge between the vocabularies (`DG`/`GSearch.Iso` ↔ `IR.G`/`IR.Relabel`) is
`Lemmas/BridgeRows.lean` (the rows handed over by `getAutomorphismGroup` are the neighbour lists of the abstraction:
`irOf g = IR.ofSpec g.toG`) and `Lemmas/BridgeIR.lean`. -/
theorem irOracle_satisfies_oracleSpec (n : Nat) : OracleSpec irOracle n := irOracle_spec n

/-- **Canonical augmentation is exact, end to end on the models**: with the canonical labelling of the unpruned
individualisation–refinement model of C01/C02 as oracle, for every `n` and every hereditary, isomorphism-invariant `P`
(as `preprune`), the graphs yielded by the search model `WithPruning(n, 0, 1, P)` form an exact transversal of the
isomorphism classes of well-formed graphs on `n` vertices with `P`.  The only hypothesis left is that the run returns
normally within the fuel.  Relative to the implementation this leaves exactly: the Go search behaves like the `Search`
model (correspondence `c04seq`) and the Go canonical labelling answers like the unpruned model up to the freedom
`OracleSpec` allows (same canonical graph, same orbit partition, a generating set of the same group — what the C01/C02
correspondence checks on every run). -/
theorem search_exact_with_IR_oracle (n : Nat) {P : G → Bool} (hP : Hereditary P) (fuel lim : Nat) {outs : List DG}
    {t : State} (h : exhaust irOracle (pruneOf P) noPrune fuel lim (init n 0 1) = .ok (outs, t)) :
    Transversal P n (outs.map DG.toG) :=
  search_exact (irOracle_spec n) hP fuel lim h

example : ∃ outs t, exhaust irOracle (pruneOf fun _ => true) noPrune 5 5 (init 1 0 1) = .ok (outs, t) ∧
    Transversal (fun _ => true) 1 (outs.map DG.toG) :=
  ⟨_, _, rfl, search_exact_with_IR_oracle 1 hereditary_true 5 5 rfl⟩

-- test (kernel evaluation, bounded, NOT the property): the `Search` model run with the brute-force oracle
-- `bfOracle` (`Lemmas/TestOracle.lean`: minimal relabelled edge code over all permutations, all automorphisms as generators)
-- yields 1, 1, 2, 4, 11 graphs for n = 0..4, and the verified checker `checkLevels` accepts the model's own output, so by
-- `checkLevels_sound` these lists are exact transversals.  (`IR.cert` uses `List.mergeSort`, which the kernel cannot
-- unfold, hence `bfOracle` instead of `irOracle` here.)
example : ((List.range 5).map fun n => (bfLevel n).length) = [1, 1, 2, 4, 11] ∧
    checkLevels (fun _ => true) ((List.range 5).map bfLevel) = .ok := by decide +kernel

-- test (compiled evaluation, not a theorem): with `irOracle` the model yields 2, 4, 11, 34 graphs for n = 2, 3, 4, 5
-- (`#eval` of `exhaust irOracle (pruneOf fun _ => true) noPrune 100000 1000 (init n 0 1)`); the kernel cannot evaluate
-- these closed terms (`IR.cert` uses `List.mergeSort`), so for n ≥ 2 the hypothesis `h` is not instantiated by an `example`.

/-- the hypotheses of `search_exact` are consistent at least in the degenerate case `n = 0` (an oracle that is never
asked); for `n ≥ 2` consistency of `OracleSpec` is the content of C01/C02 -/
theorem oracleSpec_consistent_zero : OracleSpec (fun _ _ _ _ => .panic) 0 := oracleSpec_zero

example : ∃ outs t, exhaust (fun _ _ _ _ => .panic) (pruneOf fun _ => true) noPrune 5 5 (init 0 0 1) = .ok (outs, t) ∧
    Transversal (fun _ => true) 0 (outs.map DG.toG) :=
  ⟨_, _, rfl, search_exact oracleSpec_zero hereditary_true 5 5 rfl⟩

/-- **The explicit-stack loop of `Next` performs the recursive traversal** (proved):
for `n ≥ 2`, all `a, m`, oracles and pruning functions, what `exhaust` collects from `WithPruning(n, a, m)` is exactly
`subNode … K1 none` — the recursive "children of an accepted node = the choices `addAugmentations` lists, each tried
with `AddVertex`, `preprune`, `isCanonical`, `prune`, skipping by the shard test at the split level" — or nothing if the
one-vertex graph is pruned.  (Uses `removeLast_addVertex`: `RemoveVertex(last)` undoes `AddVertex`, and
`addAugmentations_append`: the block of choices pushed does not depend on the stack below.) -/
theorem run_refines_traversal (O : Oracle) (pre pr : DG → Bool) (n a m : Nat) (hn : 2 ≤ n) (fuel lim : Nat)
    {out : List DG} {s' : State} (h : exhaust O pre pr fuel lim (init n a m) = .ok (out, s')) :
    (if pre K1 || pr K1 then Outcome.ok [] else subNode O pre pr n (skipAM n a m) (n - 1) K1 none) = .ok out :=
  exhaust_init n a m hn fuel lim h

/-- **The shards partition the search** (model level, full): for every `n`, every `m ≥ 1`, every oracle and pruning
functions, the graphs yielded by the `m` iterators `WithPruning(n, a, m)`, `a = 0..m-1`, are together a permutation
(equal as multisets) of the graphs yielded by `WithPruning(n, 0, 1)` — whenever the `m + 1` runs terminate normally
within the given fuel.  (Every root-to-leaf path crosses the split level `2(n+1)/3 - 1 ∈ [1, n-1]` exactly once, and at
that level child `i` is kept by exactly the shard `i mod m`.) -/
theorem shards_partition (O : Oracle) (pre pr : DG → Bool) (n m : Nat) (hm : 0 < m) (fuel lim : Nat)
    {out1 : List DG} {t1 : State} {outs : Nat → List DG} {ts : Nat → State}
    (h1 : exhaust O pre pr fuel lim (init n 0 1) = .ok (out1, t1))
    (ha : ∀ a, a < m → exhaust O pre pr fuel lim (init n a m) = .ok (outs a, ts a)) :
    ((List.range m).flatMap outs).Perm out1 :=
  shards_perm n m hm fuel lim h1 ha

example : ∃ t1 t2 t3, exhaust (fun _ _ _ _ => .ok none) (fun _ => false) (fun _ => false) 10 10 (init 1 0 1) = .ok ([K1], t1) ∧
    exhaust (fun _ _ _ _ => .ok none) (fun _ => false) (fun _ => false) 10 10 (init 1 0 2) = .ok ([K1], t2) ∧
    exhaust (fun _ _ _ _ => .ok none) (fun _ => false) (fun _ => false) 10 10 (init 1 1 2) = .ok ([], t3) :=
  ⟨_, _, _, rfl, rfl, rfl⟩

/-- **preprune or prune** (model level, full): a pure predicate `f` supplied as `preprune` or supplied as `prune` makes the
iterator yield the same graphs in the same order, for every `n, a, m` and every oracle (whenever both runs terminate
normally): a child is accepted iff `!preprune ∧ isCanonical ∧ !prune` in both placements. -/
theorem preprune_prune_agree (O : Oracle) (f : DG → Bool) (n a m : Nat) (fuel lim : Nat) {o1 o2 : List DG}
    {t1 t2 : State} (h1 : exhaust O f noPrune fuel lim (init n a m) = .ok (o1, t1))
    (h2 : exhaust O noPrune f fuel lim (init n a m) = .ok (o2, t2)) : o1 = o2 :=
  place_agree O f n a m fuel lim h1 h2

example : ∃ t1 t2, exhaust (fun _ _ _ _ => .ok none) (fun g => g.nv > 5) noPrune 10 10 (init 1 0 1) = .ok ([K1], t1) ∧
    exhaust (fun _ _ _ _ => .ok none) noPrune (fun g => g.nv > 5) 10 10 (init 1 0 1) = .ok ([K1], t2) :=
  ⟨_, _, rfl, rfl⟩

/-- the two arithmetic facts used: the split level is one of the levels `1 … n-1`, and a child index belongs to exactly
one shard -/
theorem shards_arith (n i m : Nat) (hn : 2 ≤ n) (hm : 0 < m) :
    (1 ≤ splitLevel n ∧ splitLevel n ≤ (n : Int) - 1) ∧
      ∃ a, a < m ∧ i % m = a ∧ ∀ b, b < m → i % m = b → b = a :=
  ⟨splitLevel_range hn, shard_unique i m hm⟩

/-! ### Termination: the fuel hypotheses disappear

`fuelBound n = (2 ^ n + 5) ^ n + 1`.  `Lemmas/TermRun.lean`: the configurations of the step function `run` satisfy the
invariant `TInv` (the current graph is built from the one-vertex graph by `AddVertex`, it has `len(currentPath)` or
`len(currentPath) + 1` vertices, the stack of choices is cut into frames by the counts in `currentPath` and the choices of
the frame at level `l` only mention vertices `< l`, a cache handed to `addAugmentations` was produced by an accepting
`isCanonical`), on which `AddVertex`, `RemoveVertex`, `isCanonical` (`isCanonical_total`) and `addAugmentations`
(`addAugmentations_total`: the reslice `ds[:C(nv,k)]` stays within `C(n, n/2)`) do not panic, and every step strictly
decreases the potential `Σ_frames count · W(level) + 2·depth + (mode)`, `W(l) = (2^n + 5)^(n-l)` (`addAugmentations` pushes
at most `2^nv` choices: `aug_size_le`, from `aug_range`/`aug_distinct`). -/

/-- **The search terminates** (model level, full): for every `n`, every oracle satisfying `OracleSpec O n`, all pure
pruning functions, every shard `a, m` with `m ≥ 1`: with at least `fuelBound n` fuel for each call of `Next` and a call
limit of at least `fuelBound n`, the run `for it.Next() { … }` from `WithPruning(n, a, m, …)` returns normally — no panic
(no index out of range, no reslice beyond a capacity, no `RemoveVertex` on an empty graph, no modulo by zero) and no
exhaustion of the fuel.  (`m = 0` panics in Go as well: `i % 0`.) -/
theorem run_terminates {O : Oracle} {n : Nat} (hO : OracleSpec O n) (pre pr : DG → Bool) (a m : Nat) (hm : 0 < m)
    {fuel lim : Nat} (hf : fuelBound n ≤ fuel) (hl : fuelBound n ≤ lim) :
    ∃ outs t, exhaust O pre pr fuel lim (init n a m) = .ok (outs, t) :=
  exhaust_init_total hO pre pr a m hm hf hl

example : ∃ outs t, exhaust irOracle (fun g => g.ne > 3) noPrune (fuelBound 6) (fuelBound 6) (init 6 1 3) = .ok (outs, t) :=
  run_terminates (irOracle_spec 6) _ _ 1 3 (by decide) (Nat.le_refl _) (Nat.le_refl _)

/-- `search_exact` without the hypothesis that the run returns: it does, and the yielded graphs are an exact transversal. -/
theorem search_exact_total {O : Oracle} {n : Nat} {P : G → Bool} (hO : OracleSpec O n) (hP : Hereditary P)
    {fuel lim : Nat} (hf : fuelBound n ≤ fuel) (hl : fuelBound n ≤ lim) :
    ∃ outs t, exhaust O (pruneOf P) noPrune fuel lim (init n 0 1) = .ok (outs, t) ∧
      Transversal P n (outs.map DG.toG) := by
  obtain ⟨outs, t, h⟩ := run_terminates hO (pruneOf P) noPrune 0 1 (by decide) hf hl
  exact ⟨outs, t, h, search_exact hO hP fuel lim h⟩

/-- **Canonical augmentation is exact, end to end on the models, unconditionally**: for every `n` and every hereditary,
isomorphism-invariant `P` (as `preprune`), the search model `WithPruning(n, 0, 1, P)` run with the canonical labelling of the
C01/C02 model as oracle (and `fuelBound n` fuel) returns normally, and the graphs it yields form an exact transversal of
the isomorphism classes of well-formed graphs on `n` vertices with `P`.  No hypothesis besides `Hereditary P` is left. -/
theorem search_exact_with_IR_oracle_total (n : Nat) {P : G → Bool} (hP : Hereditary P) {fuel lim : Nat}
    (hf : fuelBound n ≤ fuel) (hl : fuelBound n ≤ lim) :
    ∃ outs t, exhaust irOracle (pruneOf P) noPrune fuel lim (init n 0 1) = .ok (outs, t) ∧
      Transversal P n (outs.map DG.toG) :=
  search_exact_total (irOracle_spec n) hP hf hl

example : ∃ outs t, exhaust irOracle (pruneOf isForest) noPrune (fuelBound 9) (fuelBound 9) (init 9 0 1) = .ok (outs, t) ∧
    Transversal isForest 9 (outs.map DG.toG) :=
  search_exact_with_IR_oracle_total 9 hereditary_isForest (Nat.le_refl _) (Nat.le_refl _)

/-- `shards_partition` without the hypotheses that the `m + 1` runs return -/
theorem shards_partition_total {O : Oracle} {n : Nat} (hO : OracleSpec O n) (pre pr : DG → Bool) (m : Nat) (hm : 0 < m)
    {fuel lim : Nat} (hf : fuelBound n ≤ fuel) (hl : fuelBound n ≤ lim) :
    ∃ (out1 : List DG) (t1 : State) (outs : Nat → List DG) (ts : Nat → State),
      exhaust O pre pr fuel lim (init n 0 1) = .ok (out1, t1) ∧
      (∀ a, a < m → exhaust O pre pr fuel lim (init n a m) = .ok (outs a, ts a)) ∧
      ((List.range m).flatMap outs).Perm out1 := by
  obtain ⟨out1, t1, h1⟩ := run_terminates hO pre pr 0 1 (by decide) hf hl
  have hall : ∀ a, ∃ o t, exhaust O pre pr fuel lim (init n a m) = .ok (o, t) :=
    fun a => run_terminates hO pre pr a m hm hf hl
  refine ⟨out1, t1, fun a => (hall a).choose, fun a => (hall a).choose_spec.choose, h1,
    fun a _ => (hall a).choose_spec.choose_spec, ?_⟩
  exact shards_partition O pre pr n m hm fuel lim h1 (fun a _ => (hall a).choose_spec.choose_spec)

example : ∃ (out1 : List DG) (t1 : State) (outs : Nat → List DG) (ts : Nat → State),
      exhaust irOracle noPrune noPrune (fuelBound 7) (fuelBound 7) (init 7 0 1) = .ok (out1, t1) ∧
      (∀ a, a < 4 → exhaust irOracle noPrune noPrune (fuelBound 7) (fuelBound 7) (init 7 a 4) = .ok (outs a, ts a)) ∧
      ((List.range 4).flatMap outs).Perm out1 :=
  shards_partition_total (irOracle_spec 7) _ _ 4 (by decide) (Nat.le_refl _) (Nat.le_refl _)

/-- `preprune_prune_agree` without the hypotheses that the two runs return -/
theorem preprune_prune_agree_total {O : Oracle} {n : Nat} (hO : OracleSpec O n) (f : DG → Bool) (a m : Nat) (hm : 0 < m)
    {fuel lim : Nat} (hf : fuelBound n ≤ fuel) (hl : fuelBound n ≤ lim) :
    ∃ o t1 t2, exhaust O f noPrune fuel lim (init n a m) = .ok (o, t1) ∧
      exhaust O noPrune f fuel lim (init n a m) = .ok (o, t2) := by
  obtain ⟨o1, t1, h1⟩ := run_terminates hO f noPrune a m hm hf hl
  obtain ⟨o2, t2, h2⟩ := run_terminates hO noPrune f a m hm hf hl
  have := preprune_prune_agree O f n a m fuel lim h1 h2
  subst this
  exact ⟨o1, t1, t2, h1, h2⟩

example : ∃ o t1 t2, exhaust irOracle (fun g => g.ne > 4) noPrune (fuelBound 5) (fuelBound 5) (init 5 0 1) = .ok (o, t1) ∧
      exhaust irOracle noPrune (fun g => g.ne > 4) (fuelBound 5) (fuelBound 5) (init 5 0 1) = .ok (o, t2) :=
  preprune_prune_agree_total (irOracle_spec 5) _ 0 1 (by decide) (Nat.le_refl _) (Nat.le_refl _)

end Search
