import Mamba.Lemmas.IsoLevels
import Mamba.Lemmas.IsoPreds
import Mamba.Lemmas.SearchOut
import Mamba.Lemmas.SearchShards
import Mamba.Lemmas.SearchPlace
/-!
# Property C03 — the search yields exactly one representative of every isomorphism class

Pattern V: `GSearch.checkLevels` (run by the driver on the lists the implementation yields for n = 0..N) is a
verified checker.  The theorems below are about the definitions the driver runs.
-/
namespace GSearch
open GraphSpec

/-- The brute-force canonical code decides isomorphism: for well-formed graphs on the same number of vertices,
equal codes iff isomorphic. -/
theorem bfCanon_iso_iff {g h : G} (hg : g.WF) (hh : h.WF) (hn : g.n = h.n) :
    bfCanon g = bfCanon h ↔ Iso g h :=
  bfCanon_eq_iff_iso hg hh hn

example : bfCanon (ofMask 3 1) = bfCanon (ofMask 3 4) ∧ (ofMask 3 1).WF ∧ (ofMask 3 1).n = (ofMask 3 4).n :=
  ⟨by decide, ofMask_wf _ _, rfl⟩

/-- Soundness of the extension test, for every `k`: if `prev` represents every class of graphs on `k` vertices with the
hereditary property `P`, and every one-vertex extension `h + S` (`h ∈ prev`) that has `P` has its canonical code among
those of `out`, then `out` represents every class of graphs on `k + 1` vertices with `P`. -/
theorem extClosed_complete {P : G → Bool} (hP : Hereditary P) {k : Nat} {prev out : List G}
    (hprevWF : ∀ h ∈ prev, h.WF) (hprevN : ∀ h ∈ prev, h.n = k)
    (houtWF : ∀ o ∈ out, o.WF) (houtN : ∀ o ∈ out, o.n = k + 1)
    (hc : Complete P k prev) (hext : ExtClosed P prev out) : Complete P (k + 1) out :=
  extClosed_complete' hP hprevWF hprevN houtWF houtN hc hext

example : Hereditary (fun _ => true) ∧ Complete (fun _ => true) 0 [ofMask 0 0] ∧
    ExtClosed (fun _ => true) [ofMask 0 0] [ofMask 1 0] :=
  ⟨hereditary_true, complete_zero (by decide) (by decide), by unfold ExtClosed; decide⟩

/-- The checker is sound: if it accepts the lists `levels[0], …, levels[N]` then, for every `k ≤ N`, `levels[k]`
consists of graphs on `k` vertices with `P`, pairwise non-isomorphic, and every well-formed graph on `k` vertices
with `P` is isomorphic to one of them — exactly one representative of every isomorphism class with `P`. -/
theorem checkLevels_sound {P : G → Bool} (hP : Hereditary P) (levels : List (List G))
    (hwf : ∀ l ∈ levels, ∀ g ∈ l, g.WF) (hok : checkLevels P levels = .ok) :
    ∀ k (hk : k < levels.length), Transversal P k levels[k] := by
  intro k hk
  have := checkFrom_sound hP levels 0 none hwf rfl hok k hk
  simpa using this

example : checkLevels (fun _ => true) [[ofMask 0 0], [ofMask 1 0], [ofMask 2 0, ofMask 2 1]] = .ok := by decide

/-- the graphs the driver builds from masks are well-formed, so `checkLevels_sound` applies to every request -/
theorem ofMask_wellFormed (n mask : Nat) : (ofMask n mask).WF := ofMask_wf n mask

/-- The predicates the harness uses as `preprune`/`prune` are hereditary (invariant under isomorphism and inherited
by `g - last vertex`), so `checkLevels_sound` applies to them: no restriction, at most `k` vertices, maximum degree
at most `d`, triangle-free, K4-free.  (`isForest` and `isBipartite` are used by the harness too; for them `Hereditary`
is an assumption of the check — not proved here.) -/
theorem predicates_hereditary (k d : Nat) :
    Hereditary (fun _ => true) ∧ Hereditary (orderLE k) ∧ Hereditary (maxDegLE d) ∧ Hereditary triangleFree ∧
      Hereditary k4Free :=
  ⟨hereditary_true, hereditary_orderLE k, hereditary_maxDegLE d, hereditary_triangleFree, hereditary_k4Free⟩

end GSearch

namespace Search
open GraphSpec GSearch

/-
The full statement (McKay's canonical augmentation is exact), for the model `Search` and an oracle `O` that satisfies
the specification of C01/C02 (`O n m nbrs none = some ⟨perm, orbits, gens⟩` with `perm` a canonical labelling,
`orbits` the orbit partition of `Aut(g)` and `gens` generators of `Aut(g)`; `O … (some vb)` is `none` or the same answer):

  theorem search_exact (hO : OracleSpec O) (hP : Hereditary P) (n m) (hm : 0 < m)
      (h : ∀ a < m, exhaust O (pruneOf P) (fun _ => false) fuel lim (init n a m) = .ok (outs a, _)) :
      Transversal P n ((List.range m).flatMap fun a => (outs a).map DG.toG)

Steps:
  1. (PROVED below: `run_refines_traversal`, and with it `shards_partition`) refinement of the explicit-stack loop `run`
     to the recursive traversal `subNode`;
Missing steps (not proved):
  2. the orbit-representative argument: the union–find over k-subsets ranks joins exactly the subsets in one
     `⟨gens⟩`-orbit, so `addAugmentations` lists one representative of every orbit of candidate neighbourhoods;
  3. canonical deletion: `isCanonical (g + S)` holds iff the new vertex lies in the orbit of the vertex selected by the
     (degree, neighbour-degree-sum, neighbour-degree-square-sum, canonical position) rule, an isomorphism invariant
     choice; with 2. this gives "exactly one accepted child per isomorphism class of children whose canonical parent is g"
     — McKay's theorem — and by induction on n the transversal property.
For each explored n the property is decided instead by the verified checker `GSearch.checkLevels` (`checkLevels_sound`).
-/

/-- What is proved about the model for all `n, a, m`, oracles and pruning functions: every graph the iterator yields
(from a reachable state) has exactly `n` vertices, its `DegreeSequence`/`Edges` have the right lengths, and its
abstraction is a well-formed graph — the "every yielded value is a well-formed graph on n vertices" clause. -/
theorem search_exact_partial (O : Oracle) (pre pr : DG → Bool) (fuel lim : Nat) {s s' : State} {out : List DG}
    (hi : Inv s) (h : exhaust O pre pr fuel lim s = .ok (out, s')) :
    ∀ g ∈ out, g.nv = s.n ∧ g.degs.size = g.nv ∧ g.edges.size = tri g.nv ∧ g.toG.WF ∧ g.toG.n = s.n := by
  intro g hg
  have := exhaust_outputs O pre pr fuel lim s s' out h hi g hg
  exact ⟨this.1, this.2.degs, this.2.edges, toG_wf g, this.1⟩

example : Inv (init 1 0 1) ∧ ∃ out s', exhaust (fun _ _ _ _ => .ok none) (fun _ => false) (fun _ => false) 10 10
    (init 1 0 1) = .ok (out, s') ∧ out.length = 1 :=
  ⟨init_inv 1 0 1, _, _, rfl, rfl⟩

/-- **The explicit-stack loop of `Next` performs the recursive traversal** (step 1 of the list above, proved):
for `n ≥ 2`, all `a, m`, oracles and pruning functions, what `exhaust` collects from `WithPruning(n, a, m)` is exactly
`subNode … K1 none` — the recursive "children of an accepted node = the choices `addAugmentations` lists, each tried
with `AddVertex`, `preprune`, `isCanonical`, `prune`, skipping by the shard test at the split level" — or nothing if the
one-vertex graph is pruned.  (Uses `removeLast_addVertex`: `RemoveVertex(last)` undoes `AddVertex`, and
`addAugmentations_append`: the block of choices pushed does not depend on the stack below.) -/
theorem run_refines_traversal (O : Oracle) (pre pr : DG → Bool) (n a m : Nat) (hn : 2 ≤ n) (fuel lim : Nat)
    {out : List DG} {s' : State} (h : exhaust O pre pr fuel lim (init n a m) = .ok (out, s')) :
    (if pre K1 || pr K1 then Outcome.ok [] else subNode O pre pr n (skipAM n a m) (n - 1) K1 none) = .ok out :=
  exhaust_init n a m hn fuel lim h

/-- **The shards partition the search** (model level, full): for every `n`, every `m ≥ 1`, every oracle and pruning
functions, the graphs yielded by the `m` iterators `WithPruning(n, a, m)`, `a = 0..m-1`, are together a permutation
(equal as multisets) of the graphs yielded by `WithPruning(n, 0, 1)` — whenever the `m + 1` runs terminate normally
within the given fuel.  (Every root-to-leaf path crosses the split level `2(n+1)/3 - 1 ∈ [1, n-1]` exactly once, and at
that level child `i` is kept by exactly the shard `i mod m`.) -/
theorem shards_partition (O : Oracle) (pre pr : DG → Bool) (n m : Nat) (hm : 0 < m) (fuel lim : Nat)
    {out1 : List DG} {t1 : State} {outs : Nat → List DG} {ts : Nat → State}
    (h1 : exhaust O pre pr fuel lim (init n 0 1) = .ok (out1, t1))
    (ha : ∀ a, a < m → exhaust O pre pr fuel lim (init n a m) = .ok (outs a, ts a)) :
    ((List.range m).flatMap outs).Perm out1 :=
  shards_perm n m hm fuel lim h1 ha

example : ∃ t1 t2 t3, exhaust (fun _ _ _ _ => .ok none) (fun _ => false) (fun _ => false) 10 10 (init 1 0 1) = .ok ([K1], t1) ∧
    exhaust (fun _ _ _ _ => .ok none) (fun _ => false) (fun _ => false) 10 10 (init 1 0 2) = .ok ([K1], t2) ∧
    exhaust (fun _ _ _ _ => .ok none) (fun _ => false) (fun _ => false) 10 10 (init 1 1 2) = .ok ([], t3) :=
  ⟨_, _, _, rfl, rfl, rfl⟩

/-- **preprune or prune** (model level, full): a pure predicate `f` supplied as `preprune` or supplied as `prune` makes the
iterator yield the same graphs in the same order, for every `n, a, m` and every oracle (whenever both runs terminate
normally): a child is accepted iff `!preprune ∧ isCanonical ∧ !prune` in both placements. -/
theorem preprune_prune_agree (O : Oracle) (f : DG → Bool) (n a m : Nat) (fuel lim : Nat) {o1 o2 : List DG}
    {t1 t2 : State} (h1 : exhaust O f noPrune fuel lim (init n a m) = .ok (o1, t1))
    (h2 : exhaust O noPrune f fuel lim (init n a m) = .ok (o2, t2)) : o1 = o2 :=
  place_agree O f n a m fuel lim h1 h2

example : ∃ t1 t2, exhaust (fun _ _ _ _ => .ok none) (fun g => g.nv > 5) noPrune 10 10 (init 1 0 1) = .ok ([K1], t1) ∧
    exhaust (fun _ _ _ _ => .ok none) noPrune (fun g => g.nv > 5) 10 10 (init 1 0 1) = .ok ([K1], t2) :=
  ⟨_, _, rfl, rfl⟩

/-- the two arithmetic facts used: the split level is one of the levels `1 … n-1`, and a child index belongs to exactly
one shard -/
theorem shards_arith (n i m : Nat) (hn : 2 ≤ n) (hm : 0 < m) :
    (1 ≤ splitLevel n ∧ splitLevel n ≤ (n : Int) - 1) ∧
      ∃ a, a < m ∧ i % m = a ∧ ∀ b, b < m → i % m = b → b = a :=
  ⟨splitLevel_range hn, shard_unique i m hm⟩

end Search
