import Mamba.Props.C19
import Mamba.Gen.Footprints
/-!
# C19 — instantiation of the footprint theorem with the footprints extracted from the Go source

`Mamba/Gen/Footprints.lean` is regenerated from the source tree on every run (`verif/extract_fp`, started by
`c19_extract.sh`). This file lists the *scenarios of the property* as call patterns — which library function,
and for each parameter position whether the goroutine passes a value shared by all goroutines, a value it
owns, or a scalar — and discharges, by `decide` on the generated facts, that every pattern is admissible:
the function writes no package-level variable, has no unattributed store, starts no goroutine, stores only
through parameter positions bound to values the goroutine owns and keeps no shared argument reachable from
an owned value. `Footprint.admissible_calls_interleaving` then gives the conclusion for every number of
goroutines, every sequence of such calls, every semantics with these footprints and every schedule.

A change of the source that makes a query write through its receiver (e.g. `Lookup` calling `commonPrefix`),
introduces a package-level scratch buffer / memo table / default storage, or starts a goroutine changes the
generated facts and this file stops compiling: that is the broken obligation reported by `./check C19`.

This module is deliberately **not** imported by `Mamba.lean` (it needs the generated file).
-/
namespace C19Fp
open Footprint Gen.Footprints

/-! ### Read-only queries on shared finished values -/

/-- `shared 0` = one finished `*Dawg`; `shared 1` = a word every goroutine looks up; `own 0` = the
goroutine's searchers; `own 1` = the pattern / anagram the goroutine built its searcher from. -/
def dawgQueries : List Call := [
  ⟨dawg_Dawg_Lookup, [.shared 0, .shared 1]⟩,
  ⟨dawg_Dawg_NumberOfWords, [.shared 0]⟩,
  ⟨dawg_Dawg_Search, [.shared 0, .own 0]⟩,
  ⟨dawg_NewPatternSearcher, [.own 1, .scalar]⟩,
  ⟨dawg_NewAnagramSearcher, [.own 1, .scalar]⟩,
  ⟨dawg_Dawg_GobEncode, [.shared 0]⟩ ]

/-- `shared 0` = one graph (dense, sparse, or a complement / induced-subgraph view of one) -/
def graphObservers : List Call := [
  ⟨graph_DenseGraph_N, [.shared 0]⟩, ⟨graph_DenseGraph_M, [.shared 0]⟩,
  ⟨graph_DenseGraph_IsEdge, [.shared 0, .scalar, .scalar]⟩, ⟨graph_DenseGraph_Neighbours, [.shared 0, .scalar]⟩,
  ⟨graph_DenseGraph_Degrees, [.shared 0]⟩,
  ⟨graph_SparseGraph_N, [.shared 0]⟩, ⟨graph_SparseGraph_M, [.shared 0]⟩,
  ⟨graph_SparseGraph_IsEdge, [.shared 0, .scalar, .scalar]⟩, ⟨graph_SparseGraph_Neighbours, [.shared 0, .scalar]⟩,
  ⟨graph_SparseGraph_Degrees, [.shared 0]⟩,
  ⟨graph_complement_N, [.shared 0]⟩, ⟨graph_complement_M, [.shared 0]⟩,
  ⟨graph_complement_IsEdge, [.shared 0, .scalar, .scalar]⟩, ⟨graph_complement_Neighbours, [.shared 0, .scalar]⟩,
  ⟨graph_complement_Degrees, [.shared 0]⟩,
  ⟨graph_inducedSubgraph_N, [.shared 0]⟩, ⟨graph_inducedSubgraph_M, [.shared 0]⟩,
  ⟨graph_inducedSubgraph_IsEdge, [.shared 0, .scalar, .scalar]⟩, ⟨graph_inducedSubgraph_Neighbours, [.shared 0, .scalar]⟩,
  ⟨graph_inducedSubgraph_Degrees, [.shared 0]⟩,
  -- read-only algorithms on a shared graph (beyond the five observers; same obligation)
  ⟨graph_CanonicalIsomorph, [.shared 0]⟩, ⟨graph_CanonicalIsomorphFull, [.shared 0, .shared 1]⟩,
  ⟨graph_AllMaximalCliques, [.shared 0, .own 0]⟩, ⟨graph_CliqueNumber, [.shared 0]⟩,
  ⟨graph_Graph6Encode, [.shared 0]⟩, ⟨graph_Sparse6Encode, [.shared 0]⟩, ⟨graph_Equal, [.shared 0, .shared 1]⟩,
  ⟨graph_DenseGraph_Copy, [.shared 0]⟩, ⟨graph_SparseGraph_Copy, [.shared 0]⟩ ]

/-- `comb` reads the package-level tables only; `shared 0` = a combination every goroutine ranks -/
def combQueries : List Call := [
  ⟨comb_Coeff, [.scalar, .scalar]⟩, ⟨comb_CoeffUint64, [.scalar, .scalar]⟩, ⟨comb_Coeffs, [.scalar]⟩,
  ⟨comb_Rank, [.shared 0]⟩, ⟨comb_Unrank, [.scalar, .scalar]⟩ ]

/-- the non-mutating functions of `sortints` and `ints` on shared slices -/
def sliceQueries : List Call := [
  ⟨sortints_ContainsSingle, [.shared 0, .scalar]⟩, ⟨sortints_ContainsSorted, [.shared 0, .shared 1]⟩,
  ⟨sortints_IntersectionSize, [.shared 0, .shared 1]⟩, ⟨sortints_Union, [.shared 0, .shared 1]⟩,
  ⟨sortints_SetMinus, [.shared 0, .shared 1]⟩, ⟨sortints_Intersection, [.shared 0, .shared 1]⟩,
  ⟨sortints_XOR, [.shared 0, .shared 1]⟩, ⟨sortints_Complement, [.scalar, .shared 0]⟩,
  ⟨sortints_NewSortedInts, [.shared 0]⟩, ⟨sortints_Range, [.scalar, .scalar, .scalar]⟩,
  ⟨ints_Equal, [.shared 0, .shared 1]⟩, ⟨ints_HasPrefix, [.shared 0, .shared 1]⟩, ⟨ints_Compare, [.shared 0, .shared 1]⟩,
  ⟨ints_Max, [.shared 0]⟩, ⟨ints_Min, [.shared 0]⟩, ⟨ints_Sum, [.shared 0]⟩ ]

def sharedQueries : List Call := dawgQueries ++ graphObservers ++ combQueries ++ sliceQueries

/-! ### Operations on values each goroutine owns -/

/-- search iterators / shards: `own 0` the iterator, `own 1`, `own 2` the pruning functions, `own 3` a writer/reader -/
def searchOps : List Call := [
  ⟨graph_search_All, [.scalar, .scalar, .scalar]⟩,
  ⟨graph_search_WithPruning, [.scalar, .scalar, .scalar, .own 1, .own 2]⟩,
  ⟨graph_search_GraphIterator_Next, [.own 0]⟩, ⟨graph_search_GraphIterator_Value, [.own 0]⟩,
  ⟨graph_search_GraphIterator_Save, [.own 0, .own 3]⟩, ⟨graph_search_Load, [.own 3, .own 1, .own 2]⟩ ]

/-- canonical labelling with separate storage: `own 0` partition, `own 1` storage, `own 2` options;
the neighbour lists (`shared 0`) and vertex classes (`shared 1`) may be shared -/
def canonicalOps : List Call := [
  ⟨graph_NewStorage, [.scalar, .scalar]⟩, ⟨graph_NewOrderedPartition, [.scalar, .scalar, .shared 1]⟩,
  ⟨graph_CanonicalOrderedPartition_Reset, [.own 0, .scalar, .scalar, .shared 1]⟩,
  ⟨graph_CanonicalIsomorphAllocated, [.scalar, .scalar, .shared 0, .own 0, .own 1, .own 2]⟩ ]

/-- every iterator kind of `itertools`: `own 0` the iterator, `own 1` the slice / function it was built from -/
def iteratorOps : List Call := [
  ⟨itertools_Combinations, [.scalar, .scalar]⟩, ⟨itertools_CombinationIterator_Next, [.own 0]⟩, ⟨itertools_CombinationIterator_Value, [.own 0]⟩,
  ⟨itertools_CombinationsColex, [.scalar, .scalar]⟩, ⟨itertools_CombinationColexIterator_Next, [.own 0]⟩, ⟨itertools_CombinationColexIterator_Value, [.own 0]⟩,
  ⟨itertools_MultisetCombinations, [.own 1, .scalar]⟩, ⟨itertools_MultisetCombinationIterator_Next, [.own 0]⟩,
  ⟨itertools_MultisetCombinationIterator_Value, [.own 0]⟩, ⟨itertools_MultisetCombinationIterator_FreqValue, [.own 0]⟩,
  ⟨itertools_Partitions, [.scalar]⟩, ⟨itertools_PartitionIterator_Next, [.own 0]⟩, ⟨itertools_PartitionIterator_Value, [.own 0]⟩,
  ⟨itertools_IntegerPartitions, [.scalar]⟩, ⟨itertools_IntegerPartitionIterator_Next, [.own 0]⟩, ⟨itertools_IntegerPartitionIterator_Value, [.own 0]⟩,
  ⟨itertools_Permutations, [.scalar]⟩, ⟨itertools_PermutationIterator_Next, [.own 0]⟩, ⟨itertools_PermutationIterator_Value, [.own 0]⟩,
  ⟨itertools_LexicographicPermutations, [.scalar]⟩, ⟨itertools_LexicographicPermutationIterator_Next, [.own 0]⟩, ⟨itertools_LexicographicPermutationIterator_Value, [.own 0]⟩,
  ⟨itertools_MultisetPermutations, [.shared 0]⟩, ⟨itertools_MultisetPermutationIterator_Next, [.own 0]⟩, ⟨itertools_MultisetPermutationIterator_Value, [.own 0]⟩,
  ⟨itertools_TopologicalSorts, [.scalar, .own 1]⟩, ⟨itertools_TopologicalSortIterator_Next, [.own 0]⟩,
  ⟨itertools_TopologicalSortIterator_Value, [.own 0]⟩, ⟨itertools_TopologicalSortIterator_InverseValue, [.own 0]⟩,
  ⟨itertools_RestrictedPrefixPermutations, [.scalar, .own 1]⟩, ⟨itertools_RestrictedPrefixPermutationIterator_Next, [.own 0]⟩, ⟨itertools_RestrictedPrefixPermutationIterator_Value, [.own 0]⟩,
  ⟨itertools_PermutationsByPattern, [.scalar, .own 1]⟩, ⟨itertools_PermutationsByPatternIterator_Next, [.own 0]⟩, ⟨itertools_PermutationsByPatternIterator_Value, [.own 0]⟩,
  ⟨itertools_Product, [.shared 0]⟩, ⟨itertools_ProductIterator_Next, [.own 0]⟩, ⟨itertools_ProductIterator_Value, [.own 0]⟩,
  ⟨itertools_RestrictedPrefixProduct, [.own 1, .shared 0]⟩, ⟨itertools_RestrictedPrefixProductIterator_Next, [.own 0]⟩, ⟨itertools_RestrictedPrefixProductIterator_Value, [.own 0]⟩ ]

/-- builders and editable values: `own 0` the value, `own 1` what is handed over to it, `shared 0` what is only read -/
def builderOps : List Call := [
  ⟨dawg_Builder_Initialise, [.own 0]⟩, ⟨dawg_Builder_Add, [.own 0, .own 1]⟩, ⟨dawg_Builder_Finish, [.own 0]⟩, ⟨dawg_New, [.own 1]⟩,
  ⟨sortints_SortedInts_Add, [.own 0, .shared 0]⟩, ⟨sortints_SortedInts_Remove, [.own 0, .scalar]⟩, ⟨sortints_SortedInts_Union, [.own 0, .shared 0]⟩,
  ⟨ints_Sort, [.own 0]⟩, ⟨ints_Add, [.own 0, .shared 0]⟩, ⟨ints_Reverse, [.own 0]⟩,
  ⟨disjoint_New, [.scalar]⟩, ⟨disjoint_Set_Find, [.own 0, .scalar]⟩, ⟨disjoint_Set_Union, [.own 0, .scalar, .scalar]⟩,
  ⟨disjoint_Set_FindBuffered, [.own 0, .scalar, .own 1]⟩, ⟨disjoint_Set_UnionBuffered, [.own 0, .scalar, .scalar, .own 1]⟩,
  ⟨disjoint_Set_SmallestRep, [.own 0]⟩, ⟨disjoint_Set_Sets, [.own 0]⟩, ⟨disjoint_Set_Roots, [.own 0]⟩,
  ⟨graph_NewDense, [.scalar, .shared 0]⟩, ⟨graph_NewSparse, [.scalar, .shared 0]⟩,
  ⟨graph_DenseGraph_AddEdge, [.own 0, .scalar, .scalar]⟩, ⟨graph_DenseGraph_RemoveEdge, [.own 0, .scalar, .scalar]⟩,
  ⟨graph_DenseGraph_AddVertex, [.own 0, .shared 0]⟩, ⟨graph_DenseGraph_RemoveVertex, [.own 0, .scalar]⟩,
  ⟨graph_SparseGraph_AddEdge, [.own 0, .scalar, .scalar]⟩, ⟨graph_SparseGraph_RemoveEdge, [.own 0, .scalar, .scalar]⟩,
  ⟨graph_SparseGraph_AddVertex, [.own 0, .shared 0]⟩, ⟨graph_SparseGraph_RemoveVertex, [.own 0, .scalar]⟩ ]

def ownedOps : List Call := searchOps ++ canonicalOps ++ iteratorOps ++ builderOps

/-- every call pattern of the property's scenarios -/
def scenarioCalls : List Call := sharedQueries ++ ownedOps

/-! ### Obligations discharged from the extracted facts (re-checked on every run) -/

/-- Every read-only query of the property has an admissible footprint when its receiver / arguments are
shared: no store through them, no package-level variable written, nothing unattributed, no callback. -/
theorem shared_queries_admissible : sharedQueries.all Call.admissibleQuery = true := by decide

/-- Every operation on goroutine-owned values stores only through what the goroutine owns. -/
theorem owned_ops_admissible : ownedOps.all Call.admissible = true := by decide

/-- No function of the module at all (exported or not) may store to a package-level variable or to memory
reachable from one, none hands package-level memory out (into its result or its arguments), and no store is
unattributed. -/
theorem no_function_writes_package_level_state :
    Gen.Footprints.all.all (fun a => a.globalsWritten.isEmpty && a.exposesGlobals.isEmpty && !a.unknownWrites) = true := by
  decide +kernel

/-- Package-level variables are stored to by package initialisation only (read-only tables): no store site
outside the functions that can only run during package initialisation (`pkg.init`, declared `init()`s and
unexported helpers all of whose callers are such; listed in `initialisationOnly`). Initialisation happens
before any goroutine of the user can call into the package. -/
theorem package_level_variables_read_only : globals.all (fun g => g.2 == 0) = true := by decide

/-- The library starts no goroutine; the only channel operations are on a channel handed in by the caller
(`AllMaximalCliques` sends on and closes its parameter). -/
theorem no_goroutines_no_own_channels : goStatements.isEmpty = true ∧ channelOpsNotOnParameter.isEmpty = true := by decide

/-- The module imports neither `unsafe`, `reflect`, `runtime`, `sync/atomic` nor cgo (memory the region
analysis could not follow) and uses nothing of package `sync` except `sync.Pool` (a value obtained from
`Get` is owned by the caller until `Put`, the pool's own state is synchronised by the standard library:
`extract_fp` treats `Get` as fresh memory and lists the packages in `syncPoolUsers`). `sync.Mutex` & co. are
still reported: a hand-rolled synchronised cache is *not* recognised as safe by this analysis. -/
theorem no_unsafe_reflect_sync : specialImports.isEmpty = true := by decide

/-! ### The property for the library's scenarios -/

theorem scenarioCalls_admissible (c : Call) (h : c ∈ scenarioCalls) : c.admissible = true := by
  simp only [scenarioCalls, List.mem_append] at h
  rcases h with h | h
  · have := List.all_eq_true.mp shared_queries_admissible c h
    simp only [Call.admissibleQuery, Bool.and_eq_true] at this
    exact this.1
  · exact List.all_eq_true.mp owned_ops_admissible c h

/-- **C19 for the model instantiated with the extracted footprints.** Any number `n` of goroutines; each
performs any sequence of calls drawn from the scenario patterns (read-only queries on shared values,
arbitrary operations on values it owns), with arbitrary semantics respecting the extracted footprints;
any schedule that lets all of them finish. Then every goroutine obtains exactly the results it obtains running
alone, and the world ends as after running the goroutines one after another. -/
theorem library_scenarios_interleaving {σ ρ : Type} [Inhabited σ] (n : Nat)
    (calls : Nat → List (Call × ((Loc → σ) → ρ × (Loc → σ))))
    (hc : ∀ t p, p ∈ calls t → p.1 ∈ scenarioCalls) (hn : ∀ t, n ≤ t → calls t = [])
    (w : Loc → σ) (s : List Nat) (hs : ∀ t, s.count t = (calls t).length) :
    let progs := fun t => (calls t).map (fun p => p.1.toOp t p.2)
    (run s (Cfg.init progs w)).world = (runOps (seqOps n progs) w).2 ∧
    ∀ t, (run s (Cfg.init progs w)).log t = (runOps (progs t) w).1 :=
  admissible_calls_interleaving n calls (fun t p hp => scenarioCalls_admissible p.1 (hc t p hp)) hn w s hs

/-- non-vacuity: two goroutines, one looks a word up in the shared Dawg, the other advances its own shard -/
example : ∃ (calls : Nat → List (Call × ((Loc → Nat) → Nat × (Loc → Nat)))),
    (∀ t p, p ∈ calls t → p.1 ∈ scenarioCalls) ∧ (calls 0).length = 1 ∧ (calls 1).length = 1 :=
  ⟨fun t => match t with
    | 0 => [(⟨dawg_Dawg_Lookup, [.shared 0, .shared 1]⟩, fun v => (v (.shared 0), v))]
    | 1 => [(⟨graph_search_GraphIterator_Next, [.own 0]⟩, fun v => (v (.own 1 0), v))]
    | _ => [],
   by
    intro t p hp
    match t with
    | 0 => simp at hp; subst hp; simp [scenarioCalls, sharedQueries, dawgQueries]
    | 1 => simp at hp; subst hp; simp [scenarioCalls, ownedOps, searchOps]
    | _ + 2 => simp at hp,
   rfl, rfl⟩

end C19Fp
