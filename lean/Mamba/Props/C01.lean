import Mamba.Lemmas.IRIso
/-!
# C01 — canonical labelling is a complete isomorphism invariant

Theorems about the executable model `Mamba/Model/IR.lean` — the unpruned individualisation–refinement tree that the
driver `mdrv` runs for the protocols `canon`, `canon2`, `aut`, `hist` — for every `n` and every graph. They are stated
about exactly the definitions the driver runs (`IR.allLeaves`, `IR.cert`, `IR.canonGraph`), not about a separate
proof-friendly copy.

* `IR.Relabel g g' σ τ`: `g'` is `g` with vertex `v` renamed `σ v` (σ a permutation of `0..n-1` with inverse τ, neighbour
  lists equal up to order) — `σ` is an isomorphism `g → g'`; `IR.Iso g h := ∃ σ τ, Relabel g h σ τ`.
* `IR.WF g`: neighbour lists are in range, duplicate free, symmetric and loop free. Every graph the driver parses
  satisfies it (`IR.ofSpec_ofEdges_wf`).
* `s.work ≠ []`: the start state has a non-empty worklist (true for `IR.init` and for `IR.initSt` with at least one
  class: the Go code starts with every class bin on `binsToCheck`).

The tie with the Go code (`graph/canonical.go`) is at certificate level, by the correspondence check: the Go canonical
graph must be identical to `IR.canonGraph`; that is the statement "the pruning never loses the maximal leaf".
-/
namespace C01
open IR

/-- `leaf_is_perm`: every leaf of the unpruned tree (with the depth fuel `n` and the refinement fuel the driver uses)
is a discrete colouring, i.e. a bijection of `0..n-1` onto `0..n-1`; so the graph relabelled by a leaf is isomorphic to
`g`. In particular the depth fuel `n` always suffices. -/
theorem leaf_is_perm {g : G} (hg : WF g) {s : St} (hw : s.work ≠ []) {l : Array Nat} (hl : l ∈ allLeaves g s) :
    (∀ v, v < g.n → col l v < g.n) ∧ ∀ u v, u < g.n → v < g.n → col l u = col l v → u = v :=
  allLeaves_perm hg hw l hl

example : ∀ l ∈ allLeaves exG (init exG), (∀ v, v < exG.n → col l v < exG.n) ∧
    ∀ u v, u < exG.n → v < exG.n → col l u = col l v → u = v :=
  fun _ hl => leaf_is_perm exG_wf (init_work exG) hl

/-- `leaves_equivariant`: for an isomorphism σ : g → g' and σ-related start states (in particular the initial states,
`IR.init_rel`, and class colourings carried along by σ, `IR.initSt_rel`), the leaves of the unpruned tree of `g'` are,
up to order, the leaves of `g` transported along σ (`ℓ' ∘ σ = ℓ`). (`IR.leaves_rel` is the same for every refinement
fuel and depth fuel.) -/
theorem leaves_equivariant {g g' : G} {σ τ : Nat → Nat} (R : Relabel g g' σ τ) {s s' : St} (h : SRel g σ s s') :
    ∃ l, (allLeaves g' s').Perm l ∧ List.Forall₂ (fun c c' => ∀ v, v < g.n → col c' (σ v) = col c v) (allLeaves g s) l :=
  allLeaves_rel R h

example : ∃ l, (allLeaves exG' (init exG')).Perm l ∧
    List.Forall₂ (fun c c' => ∀ v, v < exG.n → col c' (exσ v) = col c v) (allLeaves exG (init exG)) l :=
  leaves_equivariant exRelabel (init_rel exRelabel)

/-- `leafCerts_perm`: the multiset of leaf certificates of the unpruned tree is invariant under relabelling. -/
theorem leafCerts_perm {g g' : G} {σ τ : Nat → Nat} (R : Relabel g g' σ τ) {s s' : St} (h : SRel g σ s s') :
    ((allLeaves g' s').map (cert g')).Perm ((allLeaves g s).map (cert g)) :=
  allLeafCerts_perm R h

example : ((allLeaves exG' (init exG')).map (cert exG')).Perm ((allLeaves exG (init exG)).map (cert exG)) :=
  leafCerts_perm exRelabel (init_rel exRelabel)

/-- `canon_invariant`: the canonical graph (decoded from the lexicographically largest leaf certificate) of a
relabelled graph is *identical* to that of the graph: `canonGraph (σ·g) = canonGraph g`. No well-formedness needed. -/
theorem canon_invariant {g g' : G} {σ τ : Nat → Nat} (R : Relabel g g' σ τ) : canonGraph g' = canonGraph g :=
  canonGraph_invariant R

example : canonGraph exG' = canonGraph exG := canon_invariant exRelabel

/-- `canon_iso`: the canonical graph is isomorphic to the graph (the isomorphism is the maximal leaf). -/
theorem canon_iso {g : G} (hg : WF g) : Iso g (canonGraph g) :=
  canonGraph_iso hg

example : Iso exG (canonGraph exG) := canon_iso exG_wf

/-- `canon_complete`: two graphs have the same canonical graph if and only if they are isomorphic. -/
theorem canon_complete {g h : G} (hg : WF g) (hh : WF h) : canonGraph g = canonGraph h ↔ Iso g h :=
  canonGraph_complete hg hh

example : canonGraph exG = canonGraph exG' ↔ Iso exG exG' :=
  canon_complete exG_wf ⟨exRelabel.nbrs_lt', by
    intro v hv; have : v < 3 := hv; interval_cases v <;> decide, by
    intro u v hu hv; have : u < 3 := hu; have : v < 3 := hv; interval_cases u <;> interval_cases v <;> decide, by
    intro v hv; have : v < 3 := hv; interval_cases v <;> decide⟩

/-- the same invariance with vertex classes: a relabelling that carries the class colouring along does not change the
canonical graph computed from the class colouring (the model of `CanonicalIsomorphFull(g, classes)`). -/
theorem canon_invariant_classes {g g' : G} {σ τ : Nat → Nat} (R : Relabel g g' σ τ) (k : Nat) {cls cls' : Nat → Nat}
    (hcls : ∀ v, v < g.n → cls' (σ v) = cls v) :
    canonGraphFrom g' (initSt g' k cls') = canonGraphFrom g (initSt g k cls) :=
  canonGraphFrom_invariant R (initSt_rel R k hcls)

example : canonGraphFrom exG' (initSt exG' 2 (fun v => if v = 2 then 1 else 0)) =
    canonGraphFrom exG (initSt exG 2 (fun v => if v = 2 then 1 else 0)) :=
  canon_invariant_classes exRelabel 2 (by intro v hv; have : v < 3 := hv; interval_cases v <;> simp [exσ])

/-- with vertex classes the canonical graph is still isomorphic to the graph -/
theorem canon_iso_classes {g : G} (hg : WF g) {k : Nat} (hk : 1 ≤ k) (cls : Nat → Nat) :
    Iso g (canonGraphFrom g (initSt g k cls)) :=
  canonGraphFrom_iso hg (initSt_work g hk cls)

example : Iso exG (canonGraphFrom exG (initSt exG 2 (fun v => if v = 2 then 1 else 0))) :=
  canon_iso_classes exG_wf (by decide) _

end C01
