import Mamba.Props.C14
import Mamba.Lemmas.DawgMinimal
import Mamba.Lemmas.DawgTerm2
/-!
# C14 for built automata (depends on the C12 development)

Kept apart from `Props/C14.lean` so that `./check C14` does not depend on the builder lemmas (and `./check C12` not on
the codec constants): compiled by the full `lake build` (`Mamba.lean` imports it).
-/
namespace Dawg

/-- The round trip for every automaton the builder can produce from byte strings (any history of adds): decoding its
encoding gives an isomorphic automaton that answers `Lookup` identically and re-encodes to the same bytes. -/
theorem roundtrip_built {adds : List Word} {d : Dawg} {es : List Bool} (hb : build adds = .ok (some d, es))
    (hbytes : ∀ w ∈ adds, ∀ c ∈ w, c < 256) (hcount : adds.length < 2 ^ 64) (hsize : d.heap.size < 2 ^ 64)
    (fuel : Nat) (bs : List Nat) (henc : gobEncode fuel d = .ok bs) :
    ∃ d', gobDecode bs = .ok d' ∧ Iso d d' ∧ (∀ w, lookup d' w = lookup d w) ∧ gobEncode fuel d' = .ok bs := by
  have wf : WF d := wf_of_build hb hbytes hcount hsize
  obtain ⟨d', hdec, _⟩ := gobDecode_gobEncode d wf fuel bs henc
  exact ⟨d', hdec, (gobDecode_gobEncode_wf d wf fuel bs henc d' hdec).1,
    (roundtrip_behaviour d wf fuel bs henc d' hdec).1, gobEncode_stable d wf fuel bs henc d' hdec⟩

/-- The unconditional round trip for built automata: for every automaton the builder produces from byte strings there
is a fuel bound beyond which `gobEncode` returns, the bytes decode to an isomorphic automaton with identical `Lookup`
answers, and that automaton encodes to the same bytes. -/
theorem roundtrip_built_total {adds : List Word} {d : Dawg} {es : List Bool} (hb : build adds = .ok (some d, es))
    (hbytes : ∀ w ∈ adds, ∀ c ∈ w, c < 256) (hcount : adds.length < 2 ^ 64) (hsize : d.heap.size < 2 ^ 64) :
    ∃ f0 bs d', ∀ f, f0 ≤ f →
      gobEncode f d = .ok bs ∧ gobDecode bs = .ok d' ∧ Iso d d' ∧ (∀ w, lookup d' w = lookup d w) ∧
        gobEncode f d' = .ok bs := by
  obtain ⟨f0, bs, hf0⟩ := gobEncode_built_total hb hbytes hcount hsize
  obtain ⟨d', hdec, _⟩ := roundtrip_built hb hbytes hcount hsize f0 bs (hf0 f0 (Nat.le_refl _))
  refine ⟨f0, bs, d', ?_⟩
  intro f hle
  obtain ⟨d'', hdec', hiso, hlook, hstab⟩ := roundtrip_built hb hbytes hcount hsize f bs (hf0 f hle)
  rw [hdec] at hdec'
  cases hdec'
  exact ⟨hf0 f hle, hdec, hiso, hlook, hstab⟩

end Dawg
