import Mamba.Lemmas.DawgSearchF
import Mamba.Lemmas.DawgSearchM
import Mamba.Drv.C13
/-!
# Property C13 — DAWG search returns exactly the matching words with their ranks, in order; searchers restored

Definitions the theorems talk about (all executable, all run by the driver `Drv/C13.lean`):
`search` (explicit stacks, as coded) / `searchRec` (structural recursion) over `build ws`, `goOps` (dynamic
dispatch to `PatternSearcher` / `AnagramSearcher`), `newPatternSearcher`, `newAnagramSearcher`.
Specification side: `rankFilter acc ws 0` = the words of `ws` satisfying `acc`, in order, each with its position;
`patternMatches`, `anagramMatches`.

Generic layer (`Lemmas/DawgSearchA`): a searcher is described by a `Spec` (`R rp s`: `s` is a legitimate state
after the path `rp.reverse`; `A`, `W`: the answers of `AllowStep` / `AllowWord` as functions of the path) and
`Lawful ops sp` states that the interface functions behave accordingly (in particular `Backstep` after `Step`
leads back to a legitimate state for the shorter path, and `AllowStep` is the predicate `A`).
-/
namespace DawgSearch

/-! ## The automaton model -/

/-- The trie of a strictly increasing word list stores exactly these words, in this (depth-first) order. -/
theorem build_words (ws : List Word) (h : List.Pairwise (· < ·) ws) : (build ws).words = ws :=
  build_words' ws h

/-- … and every node's `numWords` is the number of words below it. -/
theorem build_wf (ws : List Word) (h : List.Pairwise (· < ·) ws) : (build ws).WF :=
  build_wf' ws h

/-- `NumberOfWords` of the built automaton. -/
theorem build_numWords (ws : List Word) (h : List.Pairwise (· < ·) ws) : (build ws).numWords = ws.length := by
  rw [(build_wf ws h).numWords_eq, build_words ws h]

example : List.Pairwise (· < ·) ([[], [1], [1, 2], [2]] : List Word) := by decide

/-- The check the driver applies to the word list of a request (adjacent words increasing, the order of
`bytes.Compare`) is the hypothesis `List.Pairwise (· < ·)` of the theorems below. -/
theorem driver_sorted_check : ∀ (ws : List Word), Drv.C13.strictlySorted ws = true → List.Pairwise (· < ·) ws
  | [], _ => List.Pairwise.nil
  | [a], _ => by simp
  | a :: b :: r, h => by
    simp only [Drv.C13.strictlySorted, Bool.and_eq_true, decide_eq_true_eq] at h
    have ih := driver_sorted_check (b :: r) h.2
    refine List.Pairwise.cons ?_ ih
    intro x hx
    rcases List.mem_cons.1 hx with rfl | hx
    · exact h.1
    · exact List.lt_trans h.1 ((List.pairwise_cons.1 ih).1 x hx)

example : Drv.C13.strictlySorted [[], [1], [1, 2], [2]] = true := by decide

/-! ## The explicit-stack loop is the recursive search -/

/-- `Search` as coded (three explicit stacks, `continue toCheckLoop`, fuel) computes the structurally recursive
search, for every automaton, every list of searchers (lawful or not: also the same panics) and every fuel of at
least `2 * size` iterations — in particular the fuel the driver uses suffices. -/
theorem search_eq_searchRec {σ : Type} (ops : Ops σ) (t : Node) (ss : List σ) (fuel : Nat)
    (hf : searchFuel t ≤ fuel) : searchFuelled ops fuel t ss = searchRec ops t ss := by
  simp only [searchFuelled, searchRec, searchRS_eq_searchRecRS ops t ss fuel hf]

example (t : Node) : searchFuel t ≤ searchFuel t := Nat.le_refl _

/-! ## `search_spec`: generic in the searchers -/

/-- For every automaton whose `numWords` fields are right and every list of lawful searchers in legitimate
initial states: the recursive search returns exactly the words accepted by all searchers, in the automaton's
order, each with its rank, does not panic, and leaves every searcher in a legitimate state for the empty path. -/
theorem searchRec_spec {σ : Type} {ops : Ops σ} {specs : List (Spec σ)}
    (hl : ∀ sp ∈ specs, Lawful ops sp) (t : Node) (hwf : t.WF) (ss : List σ) (h : RAll specs [] ss) :
    ∃ ss', searchRec ops t ss = .ok (rankFilter (accAllFrom specs []) t.words 0, ss') ∧ RAll specs [] ss' :=
  searchRec_spec_aux hl t hwf ss h

/-- The same for `Search` as coded, with any sufficient fuel: no panic, no fuel exhaustion, exactly the accepted
words with their ranks, in order. -/
theorem search_spec {σ : Type} {ops : Ops σ} {specs : List (Spec σ)}
    (hl : ∀ sp ∈ specs, Lawful ops sp) (t : Node) (hwf : t.WF) (ss : List σ) (h : RAll specs [] ss)
    (fuel : Nat) (hf : searchFuel t ≤ fuel) :
    ∃ ss', searchFuelled ops fuel t ss = .ok (rankFilter (accAllFrom specs []) t.words 0, ss')
      ∧ RAll specs [] ss' := by
  rw [search_eq_searchRec ops t ss fuel hf]
  exact searchRec_spec hl t hwf ss h

-- non-vacuity: the hypotheses are satisfiable (one pattern searcher and one anagram searcher on a real trie)
example : ∃ ss, newAll [.pattern [1, 63] 63, .anagram [2, 1] 63] = .ok ss ∧
    RAll ([Query.pattern [1, 63] 63, Query.anagram [2, 1] 63].map Query.spec) [] ss ∧
    (∀ sp ∈ [Query.pattern [1, 63] 63, Query.anagram [2, 1] 63].map Query.spec, Lawful goOps sp) ∧
    (build [[1], [1, 2], [2]]).WF :=
  let ⟨ss, h1, h2⟩ := newAll_spec [.pattern [1, 63] 63, .anagram [2, 1] 63]
  ⟨ss, h1, h2, fun sp hsp => by
      obtain ⟨q, _, rfl⟩ := List.mem_map.1 hsp
      exact q.spec_lawful,
    build_wf _ (by decide)⟩

/-- `rankFilter acc ws 0` is the sub-list of `(word, position)` pairs whose word satisfies `acc`. -/
theorem rankFilter_eq (acc : Word → Bool) (ws : List Word) :
    rankFilter acc ws 0 = (ws.zipIdx.filter (fun p => acc p.1)).map (fun p => (p.1, (p.2 : Int))) :=
  rankFilter_eq_zipIdx acc ws 0

/-! ## The two concrete searchers -/

/-- `PatternSearcher`: `Backstep` undoes `Step` exactly. -/
theorem pattern_backstep_step (p : PatternSearcher) (b : UInt8) :
    (p.step b >>= PatternSearcher.backstep) = .ok p := by
  cases p with
  | mk pat bl idx =>
    simp only [PatternSearcher.step, PatternSearcher.backstep, Outcome.bind_ok]
    congr 2
    omega

/-- `PatternSearcher` laws: the searcher returned by `NewPatternSearcher` is in a legitimate initial state, the
interface functions are lawful for it (so `search_spec` applies), and the words it accepts are exactly those
matching the pattern. -/
theorem pattern_searcher_laws (pat : List UInt8) (blank : UInt8) :
    (patternSpec pat blank).R [] (.pat (newPatternSearcher pat blank)) ∧
    Lawful goOps (patternSpec pat blank) ∧
    ∀ w, (patternSpec pat blank).accepts w = patternMatches blank pat w :=
  ⟨rfl, patternSpec_lawful pat blank, patternSpec_accepts pat blank⟩

/-- `patternMatches` is the condition of the property: same length, every position equal or blank. -/
theorem patternMatches_iff (blank : UInt8) : ∀ (pat : List UInt8) (w : Word),
    patternMatches blank pat w = true ↔
      w.length = pat.length ∧ ∀ i (h1 : i < pat.length) (h2 : i < w.length), pat[i] = blank ∨ pat[i] = w[i]
  | [], [] => by simp [patternMatches]
  | [], _ :: _ => by simp [patternMatches]
  | _ :: _, [] => by simp [patternMatches]
  | p :: ps, c :: w => by
    simp only [patternMatches, Bool.and_eq_true, Bool.or_eq_true, beq_iff_eq, patternMatches_iff blank ps w,
      List.length_cons, Nat.add_right_cancel_iff]
    constructor
    · rintro ⟨h0, hl, h⟩
      refine ⟨hl, fun i h1 h2 => ?_⟩
      cases i with
      | zero => simpa using h0
      | succ i => simpa using h i (by omega) (by omega)
    · rintro ⟨hl, h⟩
      refine ⟨by simpa using h 0 (by omega) (by omega), hl, fun i h1 h2 => ?_⟩
      have := h (i + 1) (by omega) (by omega)
      simp only [List.getElem_cons_succ] at this
      exact this

/-- `AnagramSearcher` laws: `NewAnagramSearcher` does not panic (whatever permutation its `sort.Slice` call
produces) and returns a searcher in a legitimate initial state; the interface functions are lawful for it — in
particular `Backstep` after `Step` restores blanks, `currPath` and every per-letter total; and the words it accepts
are exactly those satisfying the anagram condition. -/
theorem anagram_searcher_laws (anagram : List UInt8) (blank : UInt8) :
    let sp := anagramSpec (anagramLetters blank anagram) (anagramBlanks blank anagram) blank anagram.length
    (∃ a0, newAnagramSearcher anagram blank = .ok a0 ∧ sp.R [] (.ana a0)) ∧
    Lawful goOps sp ∧
    ∀ w, sp.accepts w = anagramMatches blank anagram w := by
  refine ⟨newAnagramSearcher_spec anagram blank,
    anagramSpec_lawful _ _ _ _ (blank_not_mem_anagramLetters blank anagram), fun w => ?_⟩
  exact (Query.anagram anagram blank).spec_accepts w

/-- `anagramMatches` is the condition of the property: same length, and the multiset of letters of `w` minus the
multiset of non-blank letters of the anagram has at most as many elements as the anagram has blanks. -/
theorem anagramMatches_iff (blank : UInt8) (anagram : List UInt8) (w : Word) :
    anagramMatches blank anagram w = true ↔
      w.length = anagram.length ∧
      Multiset.card ((w : Multiset UInt8) - ((anagram.filter (· != blank) : List UInt8) : Multiset UInt8))
        ≤ (anagram.filter (· == blank)).length := by
  simp only [anagramMatches, Bool.and_eq_true, beq_iff_eq, decide_eq_true_eq, deficit_eq_card_sub]

/-! ## The property for the queries the harness poses -/

/-- For every strictly increasing word list and every list of pattern / anagram searchers: creating the searchers
does not panic, and `Search` on the automaton of the word list (no panic, fuel sufficient) returns exactly
`[(w, rank w) | w ∈ ws, every searcher's condition holds for w]` in order. -/
theorem search_queries_spec (ws : List Word) (hws : List.Pairwise (· < ·) ws) (qs : List Query) :
    ∃ ss, newAll qs = .ok ss ∧
      ∃ ss', search goOps (build ws) ss = .ok (rankFilter (fun w => qs.all (·.matches w)) ws 0, ss') := by
  obtain ⟨ss, h1, h2⟩ := newAll_spec qs
  have hl : ∀ sp ∈ qs.map Query.spec, Lawful goOps sp := by
    intro sp hsp
    obtain ⟨q, _, rfl⟩ := List.mem_map.1 hsp
    exact q.spec_lawful
  obtain ⟨ss', h3, _⟩ := search_spec hl (build ws) (build_wf ws hws) ss h2 _ (Nat.le_refl _)
  refine ⟨ss, h1, ss', ?_⟩
  rw [search, h3, build_words ws hws]
  congr 3
  funext w
  exact accAllFrom_queries qs w

/-- After a `Search` the searchers are back in their initial state: pattern searchers literally, anagram searchers
up to the distribution of a letter's count over several entries for that same letter (blanks, `currPath` and every
per-letter total are as before) … -/
theorem search_restores_searchers (ws : List Word) (hws : List.Pairwise (· < ·) ws) (qs : List Query)
    (ss : List SState) (hss : newAll qs = .ok ss) (res : List (Word × Int)) (ss' : List SState)
    (h : search goOps (build ws) ss = .ok (res, ss')) : EquivAll ss ss' := by
  obtain ⟨ss0, h1, h2⟩ := newAll_spec qs
  rw [hss] at h1
  cases h1
  have hl : ∀ sp ∈ qs.map Query.spec, Lawful goOps sp := by
    intro sp hsp
    obtain ⟨q, _, rfl⟩ := List.mem_map.1 hsp
    exact q.spec_lawful
  obtain ⟨ss1, h3, h4⟩ := search_spec hl (build ws) (build_wf ws hws) ss h2 _ (Nat.le_refl _)
  rw [search, h3] at h
  cases h
  exact RAll_equiv qs [] ss ss' h2 h4

/-- … so that repeating the search with the same searcher objects (any number of times) gives the same result. -/
theorem search_repeat (ws : List Word) (hws : List.Pairwise (· < ·) ws) (qs : List Query)
    (ss : List SState) (hss : newAll qs = .ok ss) (res : List (Word × Int)) (ss' : List SState)
    (h : search goOps (build ws) ss = .ok (res, ss')) :
    ∃ ss'', search goOps (build ws) ss' = .ok (res, ss'') ∧ EquivAll ss ss'' := by
  obtain ⟨ss0, h1, h2⟩ := newAll_spec qs
  rw [hss] at h1
  cases h1
  have hl : ∀ sp ∈ qs.map Query.spec, Lawful goOps sp := by
    intro sp hsp
    obtain ⟨q, _, rfl⟩ := List.mem_map.1 hsp
    exact q.spec_lawful
  obtain ⟨ss1, h3, h4⟩ := search_spec hl (build ws) (build_wf ws hws) ss h2 _ (Nat.le_refl _)
  rw [search, h3] at h
  cases h
  obtain ⟨ss2, h5, h6⟩ := search_spec hl (build ws) (build_wf ws hws) ss' h4 _ (Nat.le_refl _)
  exact ⟨ss2, by rw [search, h5], RAll_equiv qs [] ss ss2 h2 h6⟩

/-- A pattern searcher is literally restored. -/
theorem search_restores_pattern_searcher (ws : List Word) (hws : List.Pairwise (· < ·) ws)
    (pat : List UInt8) (blank : UInt8) (res : List (Word × Int)) (ss' : List SState)
    (h : search goOps (build ws) [.pat (newPatternSearcher pat blank)] = .ok (res, ss')) :
    ss' = [.pat (newPatternSearcher pat blank)] := by
  have := search_restores_searchers ws hws [.pattern pat blank] _ rfl res ss' h
  match ss', this with
  | [t], hh => rw [hh.1.pat_eq]
  | [], hh => exact hh.elim
  | _ :: _ :: _, hh => exact hh.2.elim

end DawgSearch
