import Mamba.Lemmas.TspOut
/-!
# C20 — `tsp.LIB`: the TSPLIB output is well formed and faithful, and write failures are reported

All theorems are about `Tsp.lib` (`Model/Tsp.lean`), the definition the driver `mdrv` runs for the protocols `tsp`,
`tspc`, `tspf`; they hold for every `n`, every weight function and every fault function (no size bound).

* `lib_output`            – on a writer that does not fail, `LIB` returns `nil` and the bytes read back (lines at `\n`,
                            fields at blanks) as: header with `DIMENSION: n`, rows `w(i,0) … w(i,i-1) 0`, `EOF`.
* `lib_bytes`, `tabwriter_triangle`, `lib_pad_never_truncated` – the exact bytes / `Write` calls: the general
                            `text/tabwriter` model specialises, on the triangular table, to "column `j` is one block over
                            rows `j..n-1`, width = max cell width + 1, right-aligned".
* `lib_weights_domain`, `lib_weights_row_by_row`, `lib_weights_all_read`, `lib_weights_extensional` – `weights` is
                            called only with `0 ≤ j < i < n`, each pair exactly once, row by row.
* `lib_reports_failure`   – any failing `Write` (any position, any count, transient or permanent) ⇒ non-nil error.
* `lib_no_silent_truncation` – `nil` is only returned together with the complete output.
* `lib_rows_buffered`     – writing the rows into the tabwriter never reaches the underlying writer.
-/
namespace Tsp

/-! ## Constants regenerated from `tsp/tsplib.go` (`Gen/TspConsts.lean`, rewritten on every run)

The model reads the header/trailer strings and the `tabwriter.NewWriter` arguments from the generated file.  The
theorems below are the only places where concrete values are needed; they are discharged by evaluation of the
generated definitions, so a change of a value the property dictates makes this file stop compiling. Values the
property does not care about are *not* pinned: the partition of the header into write calls (any), `minwidth`
(any), `padding` (any value ≥ 1), `AlignRight` on or off, `tabwidth` (unused unless padchar is a tab).  No theorem depends on the
shape of the code (number or order of calls, error checks): that is what the fault-injection stream checks. -/

/-- what the output theorems need from the tabwriter arguments: cells are separated by blanks, at least one -/
theorem tabwriter_config_ok : padChar = ' ' ∧ 0 < padding := ⟨padChar_eq, padding_pos⟩

/-- **The TSPLIB keywords.**  The header written by the code (whatever its partition into write calls) reads back as
`TYPE: TSP` / `DIMENSION: n` / `DISPLAY_DATA_TYPE: NO_DISPLAY` / `EDGE_WEIGHT_TYPE: EXPLICIT` /
`EDGE_WEIGHT_FORMAT: LOWER_DIAG_ROW` / `EDGE_WEIGHT_SECTION`. -/
theorem expectedHeader_tokens (n : Nat) :
    expectedHeader n =
      [["TYPE:".toList, "TSP".toList], ["DIMENSION:".toList, decNat n],
       ["DISPLAY_DATA_TYPE:".toList, "NO_DISPLAY".toList], ["EDGE_WEIGHT_TYPE:".toList, "EXPLICIT".toList],
       ["EDGE_WEIGHT_FORMAT:".toList, "LOWER_DIAG_ROW".toList], ["EDGE_WEIGHT_SECTION".toList]] :=
  expectedHeader_eq n

/-- the trailer reads back as `EOF` followed by nothing -/
theorem expectedTrailer_tokens : (lines trailerText).map fields = [["EOF".toList], []] := expectedTrailer_eq

/-- the write calls before / after the weight section carry exactly the generated header / trailer text -/
theorem hdrWrites_text (n : Nat) : (hdrWrites n).flatten = headerText n ∧ trailerWrites.flatten = trailerText :=
  ⟨hdrWrites_flatten n, trailerWrites_flatten⟩

/-! ## Output well formed and faithful -/

/-- **Output.**  On a writer that never fails `LIB` returns `nil`, and its output, cut into lines at `\n` and into
fields at blanks, is exactly `expected n w`: the header (`expectedHeader_tokens`: `TYPE: TSP`, `DIMENSION: n`, the
three fixed lines, `EDGE_WEIGHT_SECTION`), then for `i = 0 … n-1` the row `w(i,0) … w(i,i-1) 0` in decimal, then
`EOF`, and nothing after its line break.  For all `n` and all weight functions. -/
theorem lib_output (n : Nat) (w : Nat → Nat → Int) :
    (lib n w noFaults).err = none ∧ parse (lib n w noFaults).out = expected n w :=
  ⟨by rw [lib_noFaults], parse_out n w⟩

/-- `decNat`/`%d` is the decimal numeral: its digits evaluate to `n`, there is at least one, and no leading zero
unless `n = 0`. -/
theorem decNat_is_decimal (n : Nat) :
    digitsValue (decNat n) = n ∧ decNat n ≠ [] ∧ (0 < n → (decNat n).head? ≠ some '0') :=
  ⟨decNat_value n, decNat_ne_nil n, decNat_head n⟩

/-- **The tabwriter on the triangular table** (`body n w` is `format [] lines`, the general model of
`tabwriter.format` applied to the lines buffered by `LIB`): row `i` is written with the widths of the columns
`0 … i`, where the width of column `j` is computed over the single block of rows `j … n-1`; the flush ends with one
empty `Write`. -/
theorem tabwriter_triangle (n : Nat) (w : Nat → Nat → Int) :
    body n w = (List.range' 0 n).flatMap (fun i => writeLine (widthsUpTo n w i) (rowL w i)) ++ [Chunk.tail] :=
  body_eq n w

/-- The width of column `j` is at least the width of every cell of the column plus the padding, so
`writePadding`'s `cellw - textw` is never negative (the model's natural-number subtraction is exact) and every
number is preceded by at least one blank. -/
theorem lib_pad_never_truncated (n : Nat) (w : Nat → Nat → Int) (i : Nat) (hi : i < n) :
    ∀ p ∈ List.zip (widthsUpTo n w i) (rowTexts w i), p.2.length + 1 ≤ p.1 :=
  pad_ok n w i hi

example : ∃ p ∈ List.zip (widthsUpTo 1 (fun _ _ => 0) 0) (rowTexts (fun _ _ => 0) 0), p.2 = ['0'] :=
  ⟨(colW 1 (fun _ _ => 0) 0, ['0']), by simp [widthsUpTo, rowTexts], rfl⟩

/-- **Exact bytes.**  The fault-free output is the header lines, then row `i` as the cells `j = 0 … i`, each
right-aligned in `colW n w j` columns (`cellBytes`), each line ended by `\n`, then `EOF`. -/
theorem lib_bytes (n : Nat) (w : Nat → Nat → Int) :
    (lib n w noFaults).out = (outLines n w).flatMap (fun l => l ++ ['\n']) :=
  out_eq_lines n w

/-- The `Write` calls of a fault-free run, as used by the driver (`libChunks`) to translate byte-addressed
faults into call indices: their number is the number of calls `lib` makes and their concatenation is its output. -/
theorem libChunks_spec (n : Nat) (w : Nat → Nat → Int) :
    (libChunks n w).length = (lib n w noFaults).calls ∧ (libChunks n w).flatten = (lib n w noFaults).out := by
  have h : libChunks n w = hdrWrites n ++ (body n w).map Chunk.bytes ++ trailerWrites := by
    simp only [libChunks, TW.new, rows_eq, TW.flushChunks, TW.lines, body, triLines, List.nil_append,
      List.length_nil, Nat.lt_irrefl, if_false]
  rw [h, lib_noFaults]
  constructor
  · simp; omega
  · simp [List.flatMap_def]

/-! ## Calls of `weights` -/

/-- **Domain.**  Whatever the writer does, `weights` is only called with `0 ≤ j < i < n`. -/
theorem lib_weights_domain (n : Nat) (w : Nat → Nat → Int) (f : Nat → WriteResult) :
    ∀ p ∈ (lib n w f).wcalls, p.2 < p.1 ∧ p.1 < n := by
  intro p hp
  rcases lib_wcalls n w f with ⟨h, _⟩ | h
  · rw [h] at hp; simp at hp
  · rw [h] at hp; exact (mem_allPairs n p).mp hp

/-- **Exactly once, row by row.**  The calls are either none at all (only when one of the three header writes
failed) or exactly `(1,0), (2,0), (2,1), (3,0), …` — every pair `j < i < n` once, in row-major order. -/
theorem lib_weights_row_by_row (n : Nat) (w : Nat → Nat → Int) (f : Nat → WriteResult) :
    ((lib n w f).wcalls = [] ∧ ∃ k, k < (hdrWrites n).length ∧ ∃ c, f k = .err c) ∨
      (lib n w f).wcalls = (List.range n).flatMap (fun i => (List.range i).map (fun j => (i, j))) := by
  rw [← allPairs_eq]; exact lib_wcalls n w f

/-- the row-major list of pairs has no repetition and contains exactly the pairs `j < i < n` -/
theorem lib_weights_pairs (n : Nat) :
    ((List.range n).flatMap (fun i => (List.range i).map (fun j => (i, j)))).Nodup ∧
      ∀ p, p ∈ (List.range n).flatMap (fun i => (List.range i).map (fun j => (i, j))) ↔ p.2 < p.1 ∧ p.1 < n := by
  rw [← allPairs_eq]; exact ⟨allPairs_nodup n, mem_allPairs n⟩

/-- If the header was written, the whole table is read. -/
theorem lib_weights_all_read (n : Nat) (w : Nat → Nat → Int) (f : Nat → WriteResult)
    (h : ∀ k, k < (hdrWrites n).length → ∀ c, f k ≠ .err c) :
    (lib n w f).wcalls = (List.range n).flatMap (fun i => (List.range i).map (fun j => (i, j))) := by
  rcases lib_weights_row_by_row n w f with ⟨_, k, hk, c, hc⟩ | h'
  · exact absurd hc (h k hk c)
  · exact h'

example (n : Nat) : ∀ k, k < (hdrWrites n).length → ∀ c, noFaults k ≠ .err c := by intro k _ c h; cases h

/-- **Only the domain matters.**  The result of `LIB` (bytes, error, number of `Write` calls) does not depend on
the values of `weights` outside `0 ≤ j < i < n`. -/
theorem lib_weights_extensional (n : Nat) (w w' : Nat → Nat → Int) (f : Nat → WriteResult)
    (h : ∀ i j, j < i → i < n → w i j = w' i j) : lib n w f = lib n w' f := by
  rw [lib_unfold, lib_unfold, body_congr n w w' h]

example : ∀ i j, j < i → i < 5 → (fun i j => (i * j : Int)) i j = (fun i j => if j < i then (i * j : Int) else 7) i j := by
  intro i j h _; simp [h]

/-- Writing the rows into the tabwriter never reaches the underlying writer (no line has exactly one cell, so
`Write` never flushes): the writer state after the row loops is the one before, for every fault function. -/
theorem lib_rows_buffered (f : Nat → WriteResult) (w : Nat → Nat → Int) (k i : Nat) (s : W) :
    (rows f w k i ⟨TW.new, s, []⟩).w = s := by
  simp [TW.new, rows_eq]

/-! ## Write failures are reported -/

/-- **Every failing `Write` is reported.**  For every fault function `f` (any position, transient or permanent,
with or without a short count): if any of the `Write` calls `LIB` made on the underlying writer returned an
error, `LIB` returns a non-nil error. -/
theorem lib_reports_failure (n : Nat) (w : Nat → Nat → Int) (f : Nat → WriteResult) :
    (∃ k, k < (lib n w f).calls ∧ ∃ c, f k = .err c) → (lib n w f).err ≠ none := by
  intro ⟨k, hk, c, hc⟩ h
  exact lib_clean n w f h k (Nat.zero_le _) hk c hc

example : ∃ k, k < (lib 0 (fun _ _ => 0) (fun _ => .err 0)).calls ∧ ∃ c, (fun _ : Nat => WriteResult.err 0) k = .err c :=
  ⟨0, (by rw [lib_unfold]; simp [writeAll, hdrWrites, hdrSegs, Gen.Tsp.found_header, Gen.Tsp.hdrWrites, write, Res.of]), 0, rfl⟩

/-- The same for writers that honour the `io.Writer` contract (a short count comes with an error, i.e. no
`shortNil`): any attempted `Write` whose result is not `ok` makes `LIB` return a non-nil error. -/
theorem lib_reports_failure_of_contract (n : Nat) (w : Nat → Nat → Int) (f : Nat → WriteResult)
    (hs : ∀ k c, f k ≠ .shortNil c) :
    (∃ k, k < (lib n w f).calls ∧ f k ≠ .ok) → (lib n w f).err ≠ none := by
  intro ⟨k, hk, hne⟩
  apply lib_reports_failure
  refine ⟨k, hk, ?_⟩
  cases hf : f k with
  | ok => exact absurd hf hne
  | err c => exact ⟨c, rfl⟩
  | shortNil c => exact absurd hf (hs k c)

example : (∀ k c, (fun _ : Nat => WriteResult.err 0) k ≠ .shortNil c) ∧
    ∃ k, k < (lib 0 (fun _ _ => 0) (fun _ => .err 0)).calls ∧ (fun _ : Nat => WriteResult.err 0) k ≠ .ok :=
  ⟨(by intro k c h; cases h), 0, (by rw [lib_unfold]; simp [writeAll, hdrWrites, hdrSegs, Gen.Tsp.found_header, Gen.Tsp.hdrWrites, write, Res.of]), (by intro h; cases h)⟩

/-- **No success for truncated output.**  For writers that honour the `io.Writer` contract: if `LIB` returns
`nil`, the writer received exactly the complete output (and the run is the fault-free run). -/
theorem lib_no_silent_truncation (n : Nat) (w : Nat → Nat → Int) (f : Nat → WriteResult)
    (hs : ∀ k c, f k ≠ .shortNil c) (h : (lib n w f).err = none) : lib n w f = lib n w noFaults :=
  lib_success_eq n w f hs h

example (n : Nat) (w : Nat → Nat → Int) : (∀ k c, noFaults k ≠ .shortNil c) ∧ (lib n w noFaults).err = none :=
  ⟨(by intro k c h; cases h), (lib_output n w).1⟩

/-- Conversely no spurious error: if every `Write` of the complete run succeeds, `LIB` returns `nil` (and the run
is the fault-free run). -/
theorem lib_no_spurious_error (n : Nat) (w : Nat → Nat → Int) (f : Nat → WriteResult)
    (h : ∀ k, k < (lib n w noFaults).calls → f k = .ok) : (lib n w f).err = none := by
  rw [lib_ok_eq n w f h]; exact (lib_output n w).1

example (n : Nat) (w : Nat → Nat → Int) : ∀ k, k < (lib n w noFaults).calls → noFaults k = .ok := fun _ _ => rfl

end Tsp
