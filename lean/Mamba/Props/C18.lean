import Mamba.Model.Disjoint
/-! Property theorems for C18 (placeholder while the development is in progress). -/
namespace Disjoint

theorem new_size (n : Nat) : (new n).size = n := by simp [new]

end Disjoint
