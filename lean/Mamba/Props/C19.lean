import Mamba.Lemmas.Footprint
/-!
# C19 — independent values can be used from different goroutines without interference

What Lean carries (DESIGN.md §7): a *footprint model* (`Mamba/Model/Footprint.lean`). The theorems below hold
for every number of goroutines, every list of operations per goroutine, every semantics of the operations
that respects its declared footprint (guaranteed by construction of `Op.exec`), and **every schedule**.

The tie to the Go code is not in this file: `Props/C19Fp.lean` instantiates the hypothesis `Independent`
with the footprints *extracted from the source on every run* (`Gen/Footprints.lean`), and the harness runs the
scenarios under the race detector. Outside the theorem: the Go memory model, the scheduler, the soundness
of the static footprint extraction. The model has atomic operations, so it cannot exhibit a data race; it
rules out shared *written* state as a source of interference.
-/
namespace Footprint

variable {ι σ ρ : Type} [DecidableEq ι] [Inhabited σ]

/-- If each goroutine's write sets are disjoint from every other goroutine's read and write sets, the
outcome (world, every goroutine's observed results, remaining operations) depends only on *how many* steps
each goroutine was given, not on how the steps were interleaved. -/
theorem schedule_irrelevant (progs : Nat → List (Op ι σ ρ)) (w : ι → σ) (h : Independent progs)
    (s₁ s₂ : List Nat) (hc : ∀ t, s₁.count t = s₂.count t) :
    run s₁ (Cfg.init progs w) = run s₂ (Cfg.init progs w) :=
  run_perm (List.perm_iff_count.mpr hc) _ h

/-- Under the same hypothesis, for EVERY schedule (complete or not) every goroutine has observed exactly the
results it obtains running alone on the initial world: the results of its first `count t s` operations. -/
theorem goroutine_observes_alone (progs : Nat → List (Op ι σ ρ)) (w : ι → σ) (h : Independent progs)
    (s : List Nat) (t : Nat) :
    (run s (Cfg.init progs w)).log t = (runOps ((progs t).take (s.count t)) w).1 :=
  log_alone progs w h s t

/-- **Interleaving = sequential.** `n` goroutines (`progs t = []` for `t ≥ n`), independent footprints, and
any schedule `s` that lets every goroutine finish. Then the run ends in the same configuration as running
the goroutines one after another (`seqSched`: goroutine 0 to completion, then 1, ...); its world is the world
after executing all operations sequentially; and each goroutine observed the results of running alone. -/
theorem interleaving_eq_sequential (n : Nat) (progs : Nat → List (Op ι σ ρ)) (w : ι → σ)
    (h : Independent progs) (hn : ∀ t, n ≤ t → progs t = [])
    (s : List Nat) (hs : ∀ t, s.count t = (progs t).length) :
    run s (Cfg.init progs w) = run (seqSched n progs) (Cfg.init progs w) ∧
    (run s (Cfg.init progs w)).world = (runOps (seqOps n progs) w).2 ∧
    (∀ t, (run s (Cfg.init progs w)).log t = (runOps (progs t) w).1) ∧
    (∀ t, (run s (Cfg.init progs w)).rest t = []) := by
  have hperm : run s (Cfg.init progs w) = run (seqSched n progs) (Cfg.init progs w) := by
    apply schedule_irrelevant progs w h
    intro t
    rw [hs t, count_seqSched]
    by_cases ht : t < n
    · simp [ht]
    · simp [ht, hn t (by omega)]
  refine ⟨hperm, ?_, ?_, ?_⟩
  · rw [hperm]; exact (run_seqSched progs w n).1
  · intro t
    rw [goroutine_observes_alone progs w h s t, hs t, List.take_length]
  · intro t
    rw [run_perm (sched_split s t) _ h, run_append]
    have h1 := run_replicate (ι := ι) (σ := σ) (ρ := ρ) t (s.count t) (Cfg.init progs w)
    have h2 := run_others (s.filter (fun u => !(u == t))) t
      (by intro u hu; simpa using (List.mem_filter.mp hu).2) (run (List.replicate (s.count t) t) (Cfg.init progs w))
    rw [h2.2, h1.2.2.1, hs t]
    simp [Cfg.init]

/-- Instantiation lemma (hand-proved once, for all numbers of goroutines): programs made of calls whose
*extracted* footprint is admissible for the way the goroutine binds the parameters (shared values only in
positions that are not written, no package-level variable written, nothing unattributed) are independent —
whatever the calls compute. -/
theorem admissible_calls_independent {σ ρ : Type} (calls : Nat → List (Call × ((Loc → σ) → ρ × (Loc → σ))))
    (h : ∀ t p, p ∈ calls t → p.1.admissible = true) :
    Independent (fun t => (calls t).map (fun p => p.1.toOp t p.2)) :=
  admissible_independent calls h

/-- Hence: goroutines that only make admissible calls obtain, under every schedule, the results of running
alone, and leave the world of the sequential run. -/
theorem admissible_calls_interleaving {σ ρ : Type} [Inhabited σ] (n : Nat)
    (calls : Nat → List (Call × ((Loc → σ) → ρ × (Loc → σ))))
    (h : ∀ t p, p ∈ calls t → p.1.admissible = true) (hn : ∀ t, n ≤ t → calls t = [])
    (w : Loc → σ) (s : List Nat) (hs : ∀ t, s.count t = (calls t).length) :
    let progs := fun t => (calls t).map (fun p => p.1.toOp t p.2)
    (run s (Cfg.init progs w)).world = (runOps (seqOps n progs) w).2 ∧
    ∀ t, (run s (Cfg.init progs w)).log t = (runOps (progs t) w).1 := by
  intro progs
  have := interleaving_eq_sequential n progs w (admissible_calls_independent calls h)
    (by intro t ht; simp [progs, hn t ht]) s (by intro t; simp [progs, hs t])
  exact ⟨this.2.1, this.2.2.1⟩

/-! ## Non-vacuity and a test that the hypothesis matters -/

section Examples

/-- non-vacuity of `interleaving_eq_sequential`: the hypotheses are satisfiable (2 goroutines, schedule 0 1 0) -/
example : (run [0, 1, 0] (Cfg.init exProgs (fun i => if i = 0 then 5 else 0))).log 0 = [5, 10] ∧
    (run [0, 1, 0] (Cfg.init exProgs (fun i => if i = 0 then 5 else 0))).log 1 = [5] := by
  have h := interleaving_eq_sequential 2 exProgs (fun i => if i = 0 then 5 else 0) exProgs_independent
    (by intro t ht; match t, ht with | t + 2, _ => rfl) [0, 1, 0]
    (by intro t; match t with | 0 => rfl | 1 => rfl | t + 2 => simp [exProgs])
  exact ⟨by rw [h.2.2.1 0]; rfl, by rw [h.2.2.1 1]; rfl⟩

def exApi (written : List Nat) : Api where
  name := "q"
  arity := 2
  globalsWritten := []
  writesParams := written
  unknownWrites := false
  callsBack := false
  spawns := false
  globalsRead := ["tbl"]
  retains := []
  exposesGlobals := []

/-- non-vacuity of the instantiation: an admissible call pattern exists (a method that writes only through its
second parameter, bound to a value the goroutine owns, on a shared receiver) -/
example : (Call.mk (exApi [1]) [.shared 0, .own 0]).admissible = true := by decide

/-- and writing through the shared receiver is rejected -/
example : (Call.mk (exApi [0]) [.shared 0, .own 0]).admissible = false := by decide

-- test: without independence the model does exhibit interference (two goroutines incrementing ONE counter
-- and reporting it observe schedule-dependent results), so the hypothesis is what carries the theorem.
def exInc : Op Nat Nat Nat :=
  { reads := [0], writes := [0], act := fun v => (v 0 + 1, fun _ => v 0 + 1) }
def exShared : Nat → List (Op Nat Nat Nat)
  | 0 => [exInc]
  | 1 => [exInc]
  | _ => []
-- test
example : (run [0, 1] (Cfg.init exShared (fun _ => 0))).log 0 = [1] ∧
          (run [1, 0] (Cfg.init exShared (fun _ => 0))).log 0 = [2] := by
  constructor <;> rfl

end Examples

end Footprint
