import Mamba.Lemmas.MinorCert
import Mamba.Lemmas.MinorLowDeg
import Mamba.Lemmas.MinorOps
/-!
# Property C11 — theorems about the specification the driver runs

`IsPlanar` itself (Demoucron–Malgrange–Pertuiset, graph/planar.go) is NOT modelled; the theorems below are about
the definition of planarity the property states (`Minor.Planar`: no K5 minor and no K3,3 minor), the executable
decision procedure `Minor.hasMinorExec` / `Minor.planarExec` that answers the `planar` protocol, and the
certificate checker `Minor.isMinorCert` that answers the `minorcert` protocol. All statements are for every graph
(no size bound). See notes/C11.md.
-/
namespace Minor
open GraphSpec

/-- The working definition (branch sets) is the textbook one: `H` is a minor of `g` exactly when a graph
isomorphic to `H` is obtained from `g` by vertex deletions, edge deletions and edge contractions. -/
theorem hasMinor_iff_ops (g H : G) : HasMinor g H ↔ OpsMinor g H := hasMinor_iff_ops' g H

/-- The decision procedure computes the definition: for every graph `g` and every `H`,
`hasMinorExec g H` is true exactly when `H` is a minor of `g`. -/
theorem hasMinorExec_iff (g H : G) : hasMinorExec g H = true ↔ HasMinor g H :=
  hasMinorExec_iff' g H

/-- The reply of the `planar` protocol is the definition of planarity. -/
theorem planarExec_iff (g : G) : planarExec g = true ↔ Planar g := by
  unfold planarExec Planar
  rw [Bool.and_eq_true, Bool.not_eq_true', Bool.not_eq_true', ← hasMinorExec_iff, ← hasMinorExec_iff]
  simp

/-- A certificate accepted by the checker is a minor: soundness of the `minorcert` protocol, any size. -/
theorem isMinorCert_sound (cert : List Nat) (g H : G) (h : isMinorCert cert g H = true) : HasMinor g H :=
  isMinorCert_sound' cert g H h

/-- The graph the driver builds from a request line for the large-input protocols (`fastG`, hash set) is the shared
`GraphSpec.ofEdges` graph of the line encoding. -/
theorem fastG_adj (n : Nat) (es : List (Nat × Nat)) (u v : Nat) :
    (fastG n es).adj u v = (ofEdges n es).adj u v ∧ (fastG n es).n = (ofEdges n es).n :=
  ⟨fastG_adj' n es u v, rfl⟩

-- non-vacuity: the checker accepts the identity certificate of K5
example : isMinorCert [0, 1, 2, 3, 4] K5 K5 = true := by decide

/-- A graph with an accepted K5 or K3,3 certificate is not planar. -/
theorem not_planar_of_cert (cert : List Nat) (g : G)
    (h : isMinorCert cert g K5 = true ∨ isMinorCert cert g K33 = true) : ¬ Planar g := by
  rintro ⟨h5, h33⟩
  rcases h with h | h
  · exact h5 (isMinorCert_sound cert g K5 h)
  · exact h33 (isMinorCert_sound cert g K33 h)

example : isMinorCert [0, 1, 2, 3, 4, 5] K33 K33 = true ∨ False := by left; decide

/-! ## The minor order: transitivity, subgraphs ("every subgraph of a planar graph is planar") -/

/-- The minor relation is transitive. -/
theorem hasMinor_trans {g K H : G} (h1 : HasMinor g K) (h2 : HasMinor K H) : HasMinor g H :=
  hasMinor_trans' h1 h2

/-- The minor relation is reflexive. -/
theorem hasMinor_refl (g : G) : HasMinor g g := hasMinor_refl' g

/-- Monotone under subgraphs: a minor of a subgraph (vertices / edges deleted, vertices renamed) of `g` is a
minor of `g`. -/
theorem hasMinor_mono {K g H : G} (hsub : IsSubgraph K g) (h : HasMinor K H) : HasMinor g H :=
  hasMinor_trans (hasMinor_of_subgraph hsub) h

/-- Every subgraph of a planar graph is planar. -/
theorem planar_subgraph {K g : G} (hsub : IsSubgraph K g) (h : Planar g) : Planar K :=
  ⟨fun h5 => h.1 (hasMinor_mono hsub h5), fun h33 => h.2 (hasMinor_mono hsub h33)⟩

-- non-vacuity: the path 0-1 is a subgraph of K5, through a non-identity embedding
example : IsSubgraph (ofEdges 2 [(0, 1)]) K5 :=
  ⟨fun a => a + 3, ⟨by intro a ha; have : a < 2 := ha; show a + 3 < 5; omega, by intro a b _ _ h; omega, by
    intro a b ha hb _
    have ha' : a < 2 := ha
    have hb' : b < 2 := hb
    interval_cases a <;> interval_cases b <;> simp_all [ofEdges, K5]⟩⟩

/-! ## Invariance under relabelling -/

/-- Planarity is invariant under isomorphism. -/
theorem planar_relabel {g g' : G} (h : Iso g g') : Planar g ↔ Planar g' :=
  ⟨planar_subgraph (isSubgraph_of_iso (iso_symm h)), planar_subgraph (isSubgraph_of_iso h)⟩

/-- ... in particular under the relabelling `InducedSubgraph(π)` by a permutation `π` of the vertices (this is the
transformation `EG.Relabel` the harness applies). -/
theorem planar_relabel_induced (g : G) (π : List Nat) (hπ : π.Perm (List.range g.n)) :
    Planar (g.induced π) ↔ Planar g :=
  planar_relabel (iso_induced_perm g π hπ)

example : [2, 0, 1].Perm (List.range (ofEdges 3 [(0, 1)]).n) := by decide

/-! ## Invariance under subdividing edges, adding isolated and pendant vertices -/

/-- Subdividing an edge `ab` of `g` does not change planarity. -/
theorem planar_subdivide_iff (g : G) (a b : Nat) (ha : a < g.n) (hb : b < g.n) (hne : a ≠ b)
    (hab : (g.adj a b || g.adj b a) = true) : Planar (subdivide g a b) ↔ Planar g := by
  unfold Planar
  rw [hasMinor_subdivide_iff' g a b K5_minDeg3 ha hb hne hab,
    hasMinor_subdivide_iff' g a b K33_minDeg3 ha hb hne hab]

example : (0 : Nat) < K5.n ∧ 1 < K5.n ∧ (0 : Nat) ≠ 1 ∧ (K5.adj 0 1 || K5.adj 1 0) = true := by decide

/-- Adding an isolated vertex does not change planarity. -/
theorem planar_addIsolated_iff (g : G) : Planar (addIsolated g) ↔ Planar g := by
  unfold Planar
  rw [hasMinor_addIsolated_iff' g K5_minDeg3, hasMinor_addIsolated_iff' g K33_minDeg3]

/-- Adding a pendant vertex (attached to any `a`) does not change planarity. -/
theorem planar_addPendant_iff (g : G) (a : Nat) : Planar (addPendant g a) ↔ Planar g := by
  unfold Planar
  rw [hasMinor_addPendant_iff' g a K5_minDeg3, hasMinor_addPendant_iff' g a K33_minDeg3]

/-! ## The two Kuratowski graphs -/

theorem k5_nonplanar : ¬ Planar K5 := fun h => h.1 (hasMinor_refl K5)

theorem k33_nonplanar : ¬ Planar K33 := fun h => h.2 (hasMinor_refl K33)

/-- every graph with at most four vertices is planar (the `n < 5` shortcut of `IsPlanar`) -/
theorem planar_of_lt_five (g : G) (h : g.n < 5) : Planar g := by
  constructor
  · rintro ⟨f, hf⟩
    have := le_verts_of_model hf
    have h2 : (ofG g).verts.length ≤ g.n := by
      have := List.length_filter_le (ofG g).al (List.range (ofG g).n)
      simpa [PG.verts, ofG] using this
    have : K5.n = 5 := rfl
    omega
  · rintro ⟨f, hf⟩
    have := le_verts_of_model hf
    have h2 : (ofG g).verts.length ≤ g.n := by
      have := List.length_filter_le (ofG g).al (List.range (ofG g).n)
      simpa [PG.verts, ofG] using this
    have : K33.n = 6 := rfl
    omega

end Minor
