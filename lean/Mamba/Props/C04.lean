import Mamba.Lemmas.SearchResume
import Mamba.Lemmas.TermReach
/-!
# Property C04 — a saved search resumes with exactly the remaining graphs

Pattern F on `Mamba/Model/Search.lean` (the driver `c04seq` runs `Search.chain`, i.e. `next`, `save`, `load`).
All theorems hold for every oracle `O` (the canonical labelling), every pair of pruning functions, every `n, a, m`,
every fuel: no property of the canonical labelling is used — except in the last two theorems
(`resume_eq_remaining_total`, `reachable_exhaust_terminates`), which add termination and therefore need the oracle
contract `OracleSpec` (the statements of C01/C02).

In the functional model `save : State → Saved` cannot modify the iterator and a loaded state shares nothing with the
original ("saving does not disturb", "independent") — those two clauses are checked on the implementation by the
history oracle of `harness/c04.go`; what the model proves is that the saved fields determine the future.
-/
namespace Search

/-- The invariant `Inv` (sizes of the current graph consistent, at most `n` vertices, and while `first` is still set
the cache is empty and the graph has at most one vertex) holds in every state reachable by `Next`, `Save`, `Load`. -/
theorem reachable_inv {O : Oracle} {pre pr : DG → Bool} {s : State} (h : Reachable O pre pr s) : Inv s := by
  induction h with
  | init n a m => exact init_inv n a m
  | next fuel _ hn ih => exact next_inv O pre pr fuel hn ih
  | load _ hl ih =>
    rw [load_save_core ih] at hl
    cases hl
    exact core_inv ih

/-- **Invariant on the cache field**: between two calls of `Next` the cached automorphism data is dead — `Next` started
in two states that differ only in the cache (and not at all while `first` is set, where the cache is empty anyway)
returns the same answer and states that again differ only in the cache.  No hypothesis on the oracle is needed. -/
theorem next_cache_irrelevant (O : Oracle) (pre pr : DG → Bool) (fuel : Nat) {s t : State} (h : Similar s t) :
    eraseCache (next O pre pr fuel s) = eraseCache (next O pre pr fuel t) :=
  next_similar O pre pr fuel h

/-- in particular the cache can be replaced by anything once the first call has been made -/
theorem next_cache_irrelevant_set (O : Oracle) (pre pr : DG → Bool) (fuel : Nat) (s : State) (c : Option Ans)
    (hf : s.first = false) :
    eraseCache (next O pre pr fuel { s with cache := c }) = eraseCache (next O pre pr fuel s) :=
  next_similar O pre pr fuel ⟨rfl, fun h => by simp [hf] at h⟩

example : (init 3 0 1).first = true ∧ Similar (init 3 0 1) (init 3 0 1) := ⟨rfl, rfl, fun _ => rfl⟩

/-- `Load ∘ Save` restores every field of a reachable state except the cache (which it empties), and never panics. -/
theorem load_save {s : State} (hi : Inv s) : load (save s) = .ok { s with cache := none } :=
  load_save_core hi

/-- what is saved does not depend on the cache (the seven serialised fields) -/
theorem save_pure (s : State) (c : Option Ans) : save { s with cache := c } = save s := rfl

/-- **A saved search resumes with exactly the remaining graphs**: for every reachable state `s` (every save position:
before the first `Next`, between any two, after exhaustion), `Load (Save s)` succeeds and, for every `k`, `k` further
calls of `Next` on the loaded iterator give the same answers and yield the same graphs in the same order as on the
original, and end in states that again differ only in the cache; likewise for running to exhaustion. -/
theorem resume_eq_remaining (O : Oracle) (pre pr : DG → Bool) (fuel : Nat) {s : State} (hi : Inv s) :
    ∃ s', load (save s) = .ok s' ∧ Inv s' ∧
      (∀ k, eraseOut (advance O pre pr fuel k s') = eraseOut (advance O pre pr fuel k s)) ∧
      (∀ lim, eraseOut (exhaust O pre pr fuel lim s') = eraseOut (exhaust O pre pr fuel lim s)) :=
  ⟨s.core, load_save_core hi, core_inv hi,
   fun k => advance_similar O pre pr fuel k _ _ (similar_core hi) (core_inv hi) hi,
   fun lim => exhaust_similar O pre pr fuel lim _ _ (similar_core hi) (core_inv hi) hi⟩

example : Inv (init 5 1 3) := init_inv 5 1 3

/-- the same for every state reachable by any interleaving of `Next`, `Save`, `Load` -/
theorem resume_eq_remaining_reachable (O : Oracle) (pre pr : DG → Bool) (fuel : Nat) {s : State}
    (h : Reachable O pre pr s) :
    ∃ s', load (save s) = .ok s' ∧
      (∀ k, eraseOut (advance O pre pr fuel k s') = eraseOut (advance O pre pr fuel k s)) ∧
      (∀ lim, eraseOut (exhaust O pre pr fuel lim s') = eraseOut (exhaust O pre pr fuel lim s)) := by
  obtain ⟨s', h1, _, h2, h3⟩ := resume_eq_remaining O pre pr fuel (reachable_inv h)
  exact ⟨s', h1, h2, h3⟩

/-- **Chains compose**: advance `k₁`, save, load, advance `k₂`, save, load, …, exhaust — yields exactly what the same
walk without any `Save`/`Load` yields (this `chain` is the function the driver runs on every request). -/
theorem chain_eq_walk (O : Oracle) (pre pr : DG → Bool) (fuel lim : Nat) (ks : List Nat) {s : State} (hi : Inv s) :
    chain O pre pr fuel lim ks s = walk O pre pr fuel lim ks s :=
  chain_walk O pre pr fuel lim ks s hi

/-- `Next` never changes `n`, `a`, `m`, and the sizes of the yielded graph are consistent (`len(DegreeSequence) = nv`,
`len(Edges) = nv(nv-1)/2`, `nv ≤ n`) in every reachable state. -/
theorem reachable_sized {O : Oracle} {pre pr : DG → Bool} {s : State} (h : Reachable O pre pr s) :
    s.g.degs.size = s.g.nv ∧ s.g.edges.size = tri s.g.nv ∧ s.g.nv ≤ s.n :=
  ⟨(reachable_inv h).sized.degs, (reachable_inv h).sized.edges, (reachable_inv h).le⟩

/-- **A saved search resumes with exactly the remaining graphs, unconditionally** (termination added; this is the only
theorem of this file that uses a property of the oracle): for every state `s` reachable by any interleaving of `Next`,
`Save`, `Load` from `WithPruning(n, a, m)` with `m ≥ 1`, every oracle satisfying `OracleSpec O n` (C01/C02; the oracle
built from the C01/C02 model does: `C03.irOracle_satisfies_oracleSpec`), with `fuelBound n = (2^n+5)^n + 1` fuel and call
limit: `Load (Save s)` succeeds, running the original to exhaustion returns normally, running the loaded iterator to
exhaustion returns normally, both yield the same graphs in the same order, and the final states differ only in the
cache.  (`Lemmas/TermReach.lean`: every reachable state is fresh, finished, or satisfies the termination invariant of
`Lemmas/TermRun.lean` with a potential below the bound.) -/
theorem resume_eq_remaining_total {O : Oracle} {pre pr : DG → Bool} {s : State} (h : Reachable O pre pr s)
    (hO : OracleSpec O s.n) (hm : 0 < s.m) {fuel lim : Nat} (hf : fuelBound s.n ≤ fuel) (hl : fuelBound s.n ≤ lim) :
    ∃ s' outs t t', load (save s) = .ok s' ∧ exhaust O pre pr fuel lim s = .ok (outs, t) ∧
      exhaust O pre pr fuel lim s' = .ok (outs, t') ∧ t'.core = t.core := by
  obtain ⟨s', h1, -, h3⟩ := resume_eq_remaining_reachable O pre pr fuel h
  obtain ⟨outs, t, h4⟩ := exhaust_reachable_total pre pr h hO hm hf hl
  have h5 := h3 lim
  rw [h4] at h5
  cases h6 : exhaust O pre pr fuel lim s' with
  | ok r =>
    obtain ⟨outs', t'⟩ := r
    rw [h6] at h5
    simp only [eraseOut, Outcome.ok.injEq, Prod.mk.injEq] at h5
    obtain ⟨e1, e2⟩ := h5
    subst e1
    exact ⟨s', outs', t, t', h1, h4, h6, e2⟩
  | panic => rw [h6] at h5; simp [eraseOut] at h5
  | outOfFuel => rw [h6] at h5; simp [eraseOut] at h5

example : ∃ s' outs t t', load (save (init 6 1 2)) = .ok s' ∧
    exhaust irOracle (fun g => g.ne > 7) (fun _ => false) (fuelBound 6) (fuelBound 6) (init 6 1 2) = .ok (outs, t) ∧
    exhaust irOracle (fun g => g.ne > 7) (fun _ => false) (fuelBound 6) (fuelBound 6) s' = .ok (outs, t') ∧
    t'.core = t.core :=
  resume_eq_remaining_total (Reachable.init 6 1 2) (irOracle_spec 6) (by decide) (Nat.le_refl _) (Nat.le_refl _)

/-- from every reachable state (in particular from the start) the iterator runs to its end -/
theorem reachable_exhaust_terminates {O : Oracle} {pre pr : DG → Bool} {s : State} (h : Reachable O pre pr s)
    (hO : OracleSpec O s.n) (hm : 0 < s.m) {fuel lim : Nat} (hf : fuelBound s.n ≤ fuel) (hl : fuelBound s.n ≤ lim) :
    ∃ outs t, exhaust O pre pr fuel lim s = .ok (outs, t) :=
  exhaust_reachable_total pre pr h hO hm hf hl

end Search
