import Mamba.Lemmas.CombRank
/-!
# Property C16 — `comb`: binomials are exact or refuse; Rank/Unrank are inverse bijections

All statements are about the executable model `Mamba/Model/Comb.lean` that `mdrv` runs, instantiated with the
tables `Gen.Comb.*` that `extract` regenerates from `comb/comb.go` on every run (`Lemmas/CombCoeff.lean`:
`thr_all`, `entry_all`, `largestK_ge`, `maxInt_eq` are closed facts about those tables, re-evaluated by the
kernel).  `uint64` values are naturals `< 2^64`, `int` values are integers in `[-2^63, 2^63)`.

Specification vocabulary (`Lemmas/CombRank.lean`): `rankNat c = Σ_i C(c_i, i+1)`, `Asc c` = strictly
increasing, `ColexLt` = lexicographic comparison of the reversed lists, `colexSucc` = colex successor,
`toInts` = the same list as Go `int`s, `termsFit 0 c` = every term `C(c_i, i+1)` is within the range in which
`Coeff` is required to return.
-/
namespace Comb
open Gen.Comb

/-! ## `CoeffUint64`, `Coeff` -/

/-- `CoeffUint64` never returns a wrapped or otherwise wrong value: for all 64-bit `n`, `k`, a returned value
is the binomial coefficient. -/
theorem coeffU64_exact_or_panic (n k v : Nat) (hn : n < 2^64) (_hk : k < 2^64)
    (h : coeffU64 n k = .ok v) : v = Nat.choose n k :=
  coeffU64_exact_or_panic' n k v (by rw [W_eq]; exact hn) h

example : coeffU64 79 19 = .ok 883829035553043580 := by decide

/-- `CoeffUint64` returns whenever `min(k, n-k) * C(n,k)` — the largest intermediate value of the product
formula — fits a `uint64`; for `k > n` it returns `0`. -/
theorem coeffU64_returns_when_fits (n k : Nat) (h : k ≤ n → min k (n - k) * Nat.choose n k < 2^64) :
    ∃ v, coeffU64 n k = .ok v := by
  rcases Nat.lt_or_ge n k with hkn | hkn
  · exact ⟨0, by unfold coeffU64; rw [if_pos hkn]⟩
  · exact coeffU64_returns_when_fits' n k hkn (by rw [W_eq]; exact h hkn)

example : (6 : Nat) ≤ 40 → min 6 (40 - 6) * Nat.choose 40 6 < 2^64 := by decide

/-- `Coeff` for non-negative `int` arguments: a returned value is the binomial coefficient, and it does return
whenever `min(k, n-k) * C(n,k)` fits an `int`.  (`Coeff` panics for `n < 0`: `coeff_neg`.) -/
theorem coeff_int (n k : Nat) (hn : n < 2^63) (hk : k < 2^63) :
    (∀ v, coeff (n : Int) (k : Int) = .ok v → v = (Nat.choose n k : Nat)) ∧
    ((k ≤ n → min k (n - k) * Nat.choose n k ≤ maxInt) → coeff (n : Int) (k : Int) = .ok (Nat.choose n k : Nat)) := by
  rw [two63n] at hn hk
  refine ⟨fun v h => (coeff_ok hn hk h).1, fun h => coeff_returns hn hk ?_⟩
  rw [maxInt_val] at h
  exact h

example : coeff 62 31 = .ok 465428353255261088 := by decide

/-! ## `Coeffs` -/

/-- `Coeffs(n)` is Pascal's triangle, exactly or not at all.  If every entry `C(i,j)`, `i ≤ n`, `j ≤ i/2`, fits
an `int` the model returns `n+1` rows, row `i` having the `i/2+1` entries `C(i,0) … C(i,i/2)` exactly; if some
entry exceeds `maxInt` it panics.  (Never a wrapped value, never `outOfFuel`.) -/
theorem coeffs_pascal (n : Nat) :
    ((∀ i j, i ≤ n → j ≤ i / 2 → Nat.choose i j ≤ maxInt) →
      ∃ rows, coeffs (n : Int) = .ok rows ∧ rows.size = n + 1 ∧
        ∀ i, i ≤ n → ∃ row, rows[i]? = some row ∧ row.size = i / 2 + 1 ∧
          ∀ j, j ≤ i / 2 → row[j]? = some ((Nat.choose i j : Nat) : Int)) ∧
    ((∃ i j, i ≤ n ∧ j ≤ i / 2 ∧ maxInt < Nat.choose i j) → coeffs (n : Int) = .panic) := by
  rw [maxInt_val, coeffs_unfold]
  obtain ⟨hA, hB⟩ := coeffsLoop_spec (n + 1) 0 (fun i' h => by omega)
  constructor
  · intro hall
    have := hA (fun i' _ h2 j hj => by have := hall i' j (by omega) hj; omega)
    rw [Nat.zero_add] at this
    refine ⟨rowsSpec (n + 1), this, by simp [rowsSpec], ?_⟩
    intro i hi
    exact ⟨rowSpec i, rowsSpec_get (by omega), by simp [rowSpec], fun j hj => rowSpec_get hj⟩
  · intro ⟨i, j, hi, hj, hlt⟩
    exact hB ⟨i, Nat.zero_le _, by omega, fun hf => by have := hf j hj; omega⟩

/-- The overflow threshold of `Coeffs` on 64-bit `int`: some entry of the first `n+1` rows exceeds `maxInt`
exactly when `n ≥ 67` (`C(66,33) ≤ 2^63-1 < C(67,33)`).  With `coeffs_pascal`: `Coeffs(n)` returns the exact
triangle for `n ≤ 66` and panics for `n ≥ 67`. -/
theorem coeffs_overflow_threshold (n : Nat) :
    (∃ i j, i ≤ n ∧ j ≤ i / 2 ∧ maxInt < Nat.choose i j) ↔ 67 ≤ n := by
  rw [maxInt_val]
  constructor
  · intro ⟨i, j, hi, hj, hlt⟩
    by_contra hcon
    have := (rowFits_iff i).mpr (by omega) j hj
    omega
  · intro h
    have h67 : ¬ RowFits 67 := fun hf => by have := (rowFits_iff 67).mp hf; omega
    unfold RowFits at h67
    simp only [not_forall, not_lt, exists_prop] at h67
    obtain ⟨j, hj, hlt⟩ := h67
    exact ⟨67, j, h, hj, by omega⟩

example : coeffs 4 = .ok #[#[1], #[1], #[1, 2], #[1, 3], #[1, 4, 6]] := by decide
example : ∃ i j, i ≤ 67 ∧ j ≤ i / 2 ∧ maxInt < Nat.choose i j := (coeffs_overflow_threshold 67).mpr (le_refl _)
example : ∀ i j, i ≤ 66 → j ≤ i / 2 → Nat.choose i j ≤ maxInt := by
  intro i j hi hj
  by_contra h
  have := (coeffs_overflow_threshold 66).mp ⟨i, j, hi, hj, by omega⟩
  omega

/-- `Coeffs(n)` for negative `n`: `make([][]int, n+1)` panics for `n < -1`; `Coeffs(-1)` is the empty triangle. -/
theorem coeffs_negative : coeffs (-1) = .ok #[] ∧ ∀ n : Int, n < -1 → coeffs n = .panic := by
  refine ⟨by decide, fun n hn => ?_⟩
  unfold coeffs
  rw [if_pos (by omega)]

/-! ## `Rank` -/

/-- `Rank` is exact or panics: for any list of `int`s, a returned value is `Σ_i C(c_i, i+1)` (and then no
element is negative). -/
theorem rank_exact_or_panic (c : List Int) (r : Int) (hc : ∀ x ∈ c, x < 2^63) (hlen : c.length < 2^63)
    (h : rank c = .ok r) : (∀ x ∈ c, 0 ≤ x) ∧ r = (rankNat (c.map Int.toNat) : Nat) := by
  rw [two63] at hc
  rw [two63n] at hlen
  have h' : rankLoop 0 ((0 : Nat) : Int) c = .ok r := h
  obtain ⟨h1, h2, _⟩ := rankLoop_ok c 0 0 r (by omega) hc (by omega) h'
  refine ⟨h1, ?_⟩
  rw [h2, Nat.zero_add]
  rfl

example : rank [1, 3, 4] = .ok 8 := by decide

/-- `Rank` returns whenever every term is in the range where `Coeff` must return and the sum fits an `int`. -/
theorem rank_returns_when_fits (c : List Nat) (hc : ∀ x ∈ c, x < 2^63) (hlen : c.length < 2^63)
    (hfit : termsFit 0 c) (hsum : rankNat c < 2^63) : rank (toInts c) = .ok (rankNat c : Nat) := by
  rw [two63n] at hc hlen hsum
  have := rankLoop_returns c 0 0 hc (by omega) hfit (by unfold rankNat at hsum; omega)
  rw [Nat.zero_add] at this
  exact this

example : termsFit 0 [0, 3, 4] ∧ rankNat [0, 3, 4] < 2^63 := by
  refine ⟨by simp [termsFit], by decide⟩

/-! ## `Unrank`, bijection -/

/-- `Unrank(r, k)` terminates: fuel `r + 2` for the inner loop suffices, for every `r` an `int` can hold. -/
theorem unrank_terminates (r k fuel : Nat) (hr : r < 2^63) (hk : k + 1 < 2^63) (hf : r + 2 ≤ fuel) :
    ∃ c, unrank fuel (r : Int) (k : Int) = .ok c := by
  rw [two63n] at hr hk
  exact unrank_fuel r k fuel hr hk hf

example : unrank 9 7 3 ≠ .outOfFuel ∧ unrank 2 7 3 = .outOfFuel := by decide

/-- Outside the property's domain, as coded: `Unrank(r, 0) = []` for every `r`, and a negative rank yields
`[0, 1, …, k-1]` (the inner loop is never entered). -/
theorem unrank_degenerate :
    (∀ (fuel : Nat) (r : Int), unrank fuel r 0 = .ok []) ∧
    (∀ (fuel k : Nat) (r : Int), r < 0 → -2^63 ≤ r → 1 ≤ fuel →
      unrank fuel r (k : Int) = .ok (toInts (List.range k))) := by
  refine ⟨unrank_k_zero, ?_⟩
  intro fuel k r hr hr' hf
  rw [two63] at hr'
  obtain ⟨f, rfl⟩ : ∃ f, fuel = f + 1 := ⟨fuel - 1, by omega⟩
  unfold unrank
  rw [if_neg (by omega), Int.toNat_natCast, unrankLoop_neg f r hr hr']
  simp

example : unrank 1 (-4) 3 = .ok (toInts [0, 1, 2]) := by decide

/-- `Rank ∘ Unrank = id`: for `k ≥ 1` and every `r` in `[0, MaxInt]`, `Unrank(r, k)` is a strictly increasing
list of `k` naturals (that fit an `int`) whose colex rank is `r`; `Rank` of it returns `r` or panics (it does
panic when a term `C(c_i, i+1)` is outside the range of `CoeffUint64`'s product formula), and returns `r`
whenever every term fits. -/
theorem rank_unrank (r k fuel : Nat) (hr : r < 2^63) (hk1 : 1 ≤ k) (hk : k + 1 < 2^63) (hf : r + 2 ≤ fuel) :
    ∃ c : List Nat, unrank fuel (r : Int) (k : Int) = .ok (toInts c) ∧ c.length = k ∧ Asc c ∧
      (∀ x ∈ c, x < 2^63) ∧ rankNat c = r ∧
      (rank (toInts c) = .ok (r : Int) ∨ rank (toInts c) = .panic) ∧
      (termsFit 0 c → rank (toInts c) = .ok (r : Int)) := by
  rw [two63n] at hr hk
  obtain ⟨c, hc, hlen, hasc, hmx, hrk⟩ := unrank_spec r k fuel hr hk hf (Or.inl hk1)
  have hb : ∀ x ∈ c, x < 9223372036854775808 := fun x hx => by have := hmx x hx; omega
  have hret : termsFit 0 c → rank (toInts c) = .ok (r : Int) := by
    intro hfit
    have := rankLoop_returns c 0 0 hb (by omega) hfit (by unfold rankNat at hrk; omega)
    rw [Nat.zero_add] at this
    rw [← hrk]
    exact this
  refine ⟨c, hc, hlen, hasc, by rw [two63n]; exact hb, hrk, ?_, hret⟩
  cases hR : rank (toInts c) with
  | ok r' =>
    left
    have h' : rankLoop 0 ((0 : Nat) : Int) (toInts c) = .ok r' := hR
    obtain ⟨_, h2, _⟩ := rankLoop_ok (toInts c) 0 0 r' (by omega)
      (toInts_mem_lt (B := 9223372036854775808) (fun x hx => by have := hb x hx; omega))
      (by rw [toInts_length]; omega) h'
    rw [toInts_toNat, Nat.zero_add] at h2
    rw [h2]
    unfold rankNat at hrk
    rw [hrk]
  | panic => right; rfl
  | outOfFuel => exact absurd hR (rankLoop_ne_outOfFuel _ _ _)

example : unrank 9 7 3 = .ok (toInts [0, 3, 4]) ∧ rank (toInts [0, 3, 4]) = .ok 7 := by decide

/-- `Unrank ∘ Rank = id` on strictly increasing lists of naturals: whenever `Rank(c)` returns `r`,
`Unrank(r, len c)` returns `c`. -/
theorem unrank_rank (c : List Nat) (r : Int) (fuel : Nat) (hasc : Asc c) (hc : ∀ x ∈ c, x < 2^63)
    (hlen : c.length + 1 < 2^63) (h : rank (toInts c) = .ok r) (hf : r.toNat + 2 ≤ fuel) :
    unrank fuel r (c.length : Int) = .ok (toInts c) := by
  rw [two63n] at hc hlen
  have h' : rankLoop 0 ((0 : Nat) : Int) (toInts c) = .ok r := h
  obtain ⟨_, h2, h3⟩ := rankLoop_ok (toInts c) 0 0 r (by omega)
    (toInts_mem_lt (B := 9223372036854775808) (fun x hx => by have := hc x hx; omega))
    (by rw [toInts_length]; omega) h'
  rw [toInts_toNat, Nat.zero_add] at h2 h3
  have hr : r = ((rankNat c : Nat) : Int) := h2
  subst hr
  rw [Int.toNat_natCast] at hf
  have hk1 : 1 ≤ c.length ∨ rankNat c = 0 := by
    cases c with
    | nil => right; rfl
    | cons a l => left; simp
  obtain ⟨c', hc', hlen', hasc', _, hrk'⟩ := unrank_spec (rankNat c) c.length fuel h3 hlen hf hk1
  have := rankNat_inj c' c hasc' hasc hlen' hrk'
  rw [hc', this]

example : Asc [0, 3, 4] ∧ rank (toInts [0, 3, 4]) = .ok 7 ∧ unrank 9 7 3 = .ok (toInts [0, 3, 4]) := by decide

/-- `Rank` is injective on strictly increasing lists of equal length. -/
theorem rank_injective (a b : List Nat) (r : Int) (ha : Asc a) (hb : Asc b) (hl : a.length = b.length)
    (hca : ∀ x ∈ a, x < 2^63) (hcb : ∀ x ∈ b, x < 2^63) (hlen : a.length < 2^63)
    (hra : rank (toInts a) = .ok r) (hrb : rank (toInts b) = .ok r) : a = b := by
  have h1 := (rank_exact_or_panic (toInts a) r (toInts_mem_lt (fun x hx => by exact_mod_cast hca x hx))
    (by rw [toInts_length]; exact hlen) hra).2
  have h2 := (rank_exact_or_panic (toInts b) r (toInts_mem_lt (fun x hx => by exact_mod_cast hcb x hx))
    (by rw [toInts_length, ← hl]; exact hlen) hrb).2
  rw [toInts_toNat] at h1 h2
  exact rankNat_inj a b ha hb hl (by omega)

example : Asc [1, 2, 3] ∧ rank (toInts [1, 2, 3]) = .ok 3 := by decide

/-- `Rank` is strictly monotone from colex order to `<`. -/
theorem rank_colex_mono (a b : List Nat) (ra rb : Int) (ha : Asc a) (hb : Asc b) (hl : a.length = b.length)
    (hca : ∀ x ∈ a, x < 2^63) (hcb : ∀ x ∈ b, x < 2^63) (hlen : a.length < 2^63)
    (hra : rank (toInts a) = .ok ra) (hrb : rank (toInts b) = .ok rb) (hlt : ColexLt a b) : ra < rb := by
  have h1 := (rank_exact_or_panic (toInts a) ra (toInts_mem_lt (fun x hx => by exact_mod_cast hca x hx))
    (by rw [toInts_length]; exact hlen) hra).2
  have h2 := (rank_exact_or_panic (toInts b) rb (toInts_mem_lt (fun x hx => by exact_mod_cast hcb x hx))
    (by rw [toInts_length, ← hl]; exact hlen) hrb).2
  rw [toInts_toNat] at h1 h2
  have := rankNat_lt_of_colexLt a b ha hb hl hlt
  omega

example : ColexLt [1, 2, 3] [0, 1, 4] := by
  show List.Lex (· < ·) [3, 2, 1] [4, 1, 0]
  exact List.Lex.rel (by decide)

/-! ## agreement with the colex successor (the order of `CombinationsColex`) -/

/-- The colex successor has the next rank. -/
theorem rank_colexSucc (c : List Nat) (hne : c ≠ []) (hasc : Asc c) :
    Asc (colexSucc c) ∧ (colexSucc c).length = c.length ∧ rankNat (colexSucc c) = rankNat c + 1 :=
  ⟨(colexSucc_asc c hasc).1, (colexSucc_asc c hasc).2, rankNat_colexSucc c hne hasc⟩

/-- `Unrank(r+1, k)` is the colex successor of `Unrank(r, k)`: `Unrank` enumerates the `k`-subsets in the
order of the colex successor, starting from `Unrank(0,k) = [0, …, k-1]`. -/
theorem unrank_succ_colex (r k fuel : Nat) (hr : r + 1 < 2^63) (hk1 : 1 ≤ k) (hk : k + 1 < 2^63)
    (hf : r + 3 ≤ fuel) :
    ∃ c : List Nat, unrank fuel (r : Int) (k : Int) = .ok (toInts c) ∧
      unrank fuel ((r + 1 : Nat) : Int) (k : Int) = .ok (toInts (colexSucc c)) := by
  rw [two63n] at hr hk
  obtain ⟨c, hc, hlen, hasc, _, hrk⟩ := unrank_spec r k fuel (by omega) hk (by omega) (Or.inl hk1)
  obtain ⟨c2, hc2, hlen2, hasc2, _, hrk2⟩ := unrank_spec (r + 1) k fuel hr hk (by omega) (Or.inl hk1)
  have hne : c ≠ [] := by intro h; rw [h] at hlen; simp at hlen; omega
  obtain ⟨s1, s2, s3⟩ := rank_colexSucc c hne hasc
  have := rankNat_inj c2 (colexSucc c) hasc2 s1 (by omega) (by omega)
  exact ⟨c, hc, by rw [hc2, this]⟩

example : colexSucc [1, 2, 4] = [0, 3, 4] := by decide
example : unrank 11 7 3 = .ok (toInts [0, 3, 4]) ∧ unrank 11 8 3 = .ok (toInts (colexSucc [0, 3, 4])) := by decide

end Comb
