import Mamba.Lemmas.CanonFFinal
import Mamba.Lemmas.CanonFTreeFinal
import Mamba.Lemmas.CanonFPrune
import Mamba.Lemmas.CanonFPruneLink
import Mamba.Lemmas.CanonFPruneTree
import Mamba.Lemmas.CanonFSorted
import Mamba.Lemmas.CanonFMainJ
import Mamba.Lemmas.CanonFWalk
import Mamba.Lemmas.CanonFCovStep
import Mamba.Lemmas.CanonFCertJ
import Mamba.Lemmas.CanonFCovFinal
import Mamba.Lemmas.CanonFCovGens
import Mamba.Lemmas.CanonFDfsMain
import Mamba.Lemmas.CanonFOrbMain
import Mamba.Lemmas.CanonFGenMain
import Mamba.Lemmas.CanonFIsoSpec
import Mamba.Lemmas.CanonFClassInv
import Mamba.Lemmas.CanonFTotal
import Mamba.Lemmas.CanonFReuse
import Mamba.Lemmas.CanonFReuseCaps
import Mamba.Spec.Iso
/-!
# C01 / C02, pattern F — theorems about the faithful model of `graph/canonical.go` (`Mamba/Model/CanonF.lean`)

All theorems are about the executable definitions that the driver `Drv/C01F.lean` runs (`CanonF.canonicalIsomorphFull`,
`canonicalIsomorphAllocated`, `reset`, `newOrderedPartition`, `splitBin`, `deage`, `refine`, `stable`, …): the search with
all its pruning, the ordered-partition arrays, the hand-written stable sort and the storage, as transliterated from the Go
code. None of them needs a completeness-of-pruning argument. Definitions of the invariants: `Lemmas/CanonFInv.lean`
(`PartInv`: `order` is a permutation of `0..n-1`, `binDividers` strictly increasing, positive, ending at `n`,
`inCell[order[p]]` = index of the bin of position `p`, slices well formed; `AgeInv`: divider ages `≤ age`, last divider
age 0; `ScratchOK`), `Lemmas/CanonFReset.lean` (`ClassesOK`), `Lemmas/CanonFSplit.lean` (`BtcInv`).
-/
namespace C01F
open CanonF GraphSpec

/-! ## (a) the returned slice is a permutation; the relabelled graph is isomorphic to `g` -/

/-- `canonF_perm`: whenever `CanonicalIsomorphFull(g, classes)` returns (no panic, fuel not exhausted — for ANY fuel), the
returned slice is a permutation of `0..n-1`. Only hypothesis: the classes are a valid ordered partition (`ClassesOK`:
non-empty classes whose concatenation is a permutation of `0..n-1`, or nil). For the repaired code (`expandValue` called
once after the initial refinement; first leaf always accepted) the former hypothesis "the first class is not a single
vertex" is gone, and the adjacency lists need not even be those of a simple graph. -/
theorem canonF_perm (fuel : Nat) (g : G) (vc : Classes) (hvc : ClassesOK g.n vc)
    (r : Res) (h : canonicalIsomorphFull fuel g vc = .ok r) :
    ∃ p, r.perm = some p ∧ p.Perm (List.range g.n) :=
  canonF_perm_full stablePerm fuel g vc hvc r h

/-- singleton first class, edgeless graph with classes, unsorted blocks: all are valid inputs of `canonF_perm` -/
example : ClassesOK 4 (some [[2], [3, 0, 1]]) ∧ ClassesOK 3 (some [[1], [0], [2]]) :=
  ⟨⟨by decide, by decide⟩, ⟨by decide, by decide⟩⟩

example : (ofEdges 4 [(0, 1), (1, 2), (2, 3)]).WF ∧ ClassesOK 4 none ∧ ClassesOK 4 (some [[0, 3], [1, 2]]) :=
  ⟨ofEdges_wf _ _, trivial, by decide, by decide⟩

/-- relabelling a graph by a permutation of its vertices gives an isomorphic graph -/
theorem induced_iso (g : G) (p : List Nat) (hp : p.Perm (List.range g.n)) : GSearch.Iso (g.induced p) g := by
  have hlen : p.length = g.n := by rw [hp.length_eq]; simp
  have hnd : p.Nodup := hp.nodup_iff.2 List.nodup_range
  refine ⟨hlen, fun i => p.getD i 0, ⟨?_, ?_, ?_⟩, ?_⟩
  · intro u hu
    have hu' : u < p.length := by simpa [G.induced] using hu
    have : p.getD u 0 ∈ p := by
      rw [List.getD_eq_getElem?_getD, List.getElem?_eq_getElem hu']; simp
    have := hp.mem_iff.1 this
    show p.getD u 0 < p.length
    rw [hlen]; simpa using this
  · intro u v hu hv e
    have hu' : u < p.length := by simpa [G.induced] using hu
    have hv' : v < p.length := by simpa [G.induced] using hv
    rw [List.getD_eq_getElem?_getD, List.getD_eq_getElem?_getD, List.getElem?_eq_getElem hu',
      List.getElem?_eq_getElem hv'] at e
    simp only [Option.getD_some] at e
    exact (List.getElem_inj hnd).mp e
  · intro w hw
    have hw' : w < g.n := by have : w < p.length := hw; omega
    have : w ∈ p := hp.mem_iff.2 (List.mem_range.2 hw')
    obtain ⟨i, hi⟩ := List.getElem?_of_mem this
    have hil := (List.getElem?_eq_some_iff.1 hi).1
    exact ⟨i, by simpa [G.induced] using hil, by rw [List.getD_eq_getElem?_getD, hi]; rfl⟩
  · intro u v hu hv
    have hu' : u < p.length := by simpa [G.induced] using hu
    have hv' : v < p.length := by simpa [G.induced] using hv
    simp [G.induced, hu', hv']


example : GSearch.Iso ((ofEdges 3 [(0, 1)]).induced [2, 0, 1]) (ofEdges 3 [(0, 1)]) := induced_iso _ _ (by decide)

/-- `canonF_iso`: the graph relabelled with the returned slice (`g.InducedSubgraph(perm)`) is isomorphic to `g`. -/
theorem canonF_iso (fuel : Nat) (g : G) (vc : Classes) (hvc : ClassesOK g.n vc)
    (r : Res) (h : canonicalIsomorphFull fuel g vc = .ok r) :
    ∃ p, r.perm = some p ∧ GSearch.Iso (g.induced p) g := by
  obtain ⟨p, hp, hperm⟩ := canonF_perm fuel g vc hvc r h
  exact ⟨p, hp, induced_iso g p hperm⟩

/-- the same for the unexported wrapper `CanonicalIsomorph` -/
theorem canonF_perm_simple (fuel : Nat) (g : G) (p : Option (List Nat))
    (h : canonicalIsomorph fuel g = .ok p) : ∃ q, p = some q ∧ q.Perm (List.range g.n) := by
  unfold canonicalIsomorph at h
  cases hf : canonicalIsomorphFull fuel g none with
  | ok r =>
    rw [hf] at h; cases h
    exact canonF_perm fuel g none trivial r hf
  | panic => rw [hf] at h; cases h
  | outOfFuel => rw [hf] at h; cases h


/-! ## (b), (c) generators and orbits

`IsAutG g γ`: the list `γ = [γ 0, …, γ (n-1)]` is a permutation of `0..n-1` with `g.adj (γ u) (γ v) = g.adj u v`.
`SameOrbit g a b`: `a` and `b` are connected by automorphisms of `g` (`EqvGen` of `x ↦ γ x`).
These are statements about automorphisms of the graph, for every valid class input (the `m == 0` shortcut is only taken
with a single class; an edgeless graph with several classes goes through the general search). The generators also map
every vertex class into itself (`canonF_generators_preserve_classes`). -/

/-- `canonF_generators_sound`: every generator returned by `CanonicalIsomorphFull` is an automorphism of `g`: each one
is read off two leaves whose full certificates are equal. The proof carries the certificate invariant (`value` is the
certificate of the singleton prefix; after a "worse" verdict it is the certificate of a prefix cut at a divider of the
current age, which the next `deage` truncates) through `splitBin`, the refinement, `deage` and the main loop with all its pruning. -/
theorem canonF_generators_sound (fuel : Nat) (g : G) (hg : g.WF) (vc : Classes) (hvc : ClassesOK g.n vc)
    (r : Res) (h : canonicalIsomorphFull fuel g vc = .ok r) (gs : List (List Nat)) (hgs : r.gens = some gs) :
    ∀ γ ∈ gs, IsAutG g γ :=
  (canonF_gens_full stablePerm expandValue_cert fuel g hg vc hvc r h).1 gs hgs

/-- `canonF_orbits_sound`: two vertices with the same representative in the returned union–find lie in the same orbit
of `Aut(g)`: every union performed is justified by a recorded automorphism. -/
theorem canonF_orbits_sound (fuel : Nat) (g : G) (hg : g.WF) (vc : Classes) (hvc : ClassesOK g.n vc)
    (r : Res) (h : canonicalIsomorphFull fuel g vc = .ok r) (ds : List Int) (hds : r.orbits = some ds) :
    ds.length = g.n ∧
      ∀ a b, a < g.n → b < g.n → Disjoint.rep ds.toArray a = Disjoint.rep ds.toArray b → SameOrbit g a b :=
  (canonF_gens_full stablePerm expandValue_cert fuel g hg vc hvc r h).2.1 ds hds

/-- `canonF_orbits_by_generators`: more precisely, vertices with the same representative are connected by the RETURNED
generators (the orbit partition is not coarser than the orbits of the group the generators generate). -/
theorem canonF_orbits_by_generators (fuel : Nat) (g : G) (hg : g.WF) (vc : Classes) (hvc : ClassesOK g.n vc)
    (r : Res) (h : canonicalIsomorphFull fuel g vc = .ok r) (gs : List (List Nat)) (ds : List Int)
    (hgs : r.gens = some gs) (hds : r.orbits = some ds) :
    ∀ a b, a < g.n → b < g.n → Disjoint.rep ds.toArray a = Disjoint.rep ds.toArray b →
      Relation.EqvGen (fun x y => ∃ γ ∈ gs, γ[x]? = some y) a b :=
  (canonF_gens_full stablePerm expandValue_cert fuel g hg vc hvc r h).2.2.1 gs ds hgs hds

/-- `canonF_generators_preserve_classes`: every returned generator maps each vertex class into itself (hence, being a
permutation, onto itself). The proof carries "the vertex at position `p` of `order` lies in the initial cell of position
`p`, and the initial dividers are never removed" through `splitBin`, the refinement, `deage` (which re-sorts merged
bins) and the main loop: every operation only rearranges `order` inside the current bins. -/
theorem canonF_generators_preserve_classes (fuel : Nat) (g : G) (hg : g.WF) (cls : List (List Nat))
    (hvc : ClassesOK g.n (some cls))
    (r : Res) (h : canonicalIsomorphFull fuel g (some cls) = .ok r) (gs : List (List Nat)) (hgs : r.gens = some gs) :
    ∀ γ ∈ gs, ∀ c ∈ cls, ∀ v ∈ c, ∀ w, γ[v]? = some w → w ∈ c :=
  (canonF_gens_full stablePerm expandValue_cert fuel g hg (some cls) hvc r h).2.2.2 gs cls hgs rfl

example : IsAutG (ofEdges 3 [(0, 1), (1, 2)]) [2, 1, 0] := by
  refine ⟨by decide, ?_⟩
  intro u v hu hv
  have hu' : u < 3 := hu
  have hv' : v < 3 := hv
  rcases (by omega : u = 0 ∨ u = 1 ∨ u = 2) with rfl | rfl | rfl <;>
    rcases (by omega : v = 0 ∨ v = 1 ∨ v = 2) with rfl | rfl | rfl <;> decide

/-- the certificate invariant at its core: two vertex orders with the same full certificate differ by an automorphism
(`transport n o1 o2` = vertex at position `p` of `o1` ↦ vertex at position `p` of `o2`, the Go expression
`order[permInv[i]]`) -/
theorem cert_eq_gives_automorphism {nb : Nbrs} {n : Nat} {o1 o2 : List Nat} (hnb : NbOK nb n)
    (h1 : o1.Perm (List.range n)) (h2 : o2.Perm (List.range n))
    (hc : certPos nb o1 n = certPos nb o2 n) : IsAutL nb n (transport n o1 o2) :=
  aut_of_cert hnb h1 h2 hc

/-- `expandValue` extends a certificate of the singleton prefix by exactly the blocks of the new singleton positions; when
it reports "worse" it has recorded the prefix length reached (`singletonPrefixLength = j + 1`), so `value` is still the
certificate of positions `< singletonPrefixLength` (`VStale`) -/
theorem expandValue_certificate : ExpandCert := expandValue_cert

/-- `deage` restores a clean certificate -/
theorem deage_certificate {n : Nat} {nb : Nbrs} {cb fl : Sl Nat} {op op' : OP} (h : PartInv n op) (ha : AgeInv op)
    (hage : 0 < op.age) (hv : VAny nb cb fl op) (hd : deage op = .ok op') : VN nb cb fl op' :=
  deage_cert h ha hage hv hd

/-- `refine_no_panic_partial`: the refinement terminates within the model's fuel `3 n + 3` and does not panic.
PARTIAL: for the phase in which `currentBest` is empty (`cb.len = 0`, no slicing of `currentBest`/`firstLeaf` in
`worseTest`) and without the viability check. -/
theorem refine_no_panic_partial {n : Nat} {nb : Nbrs} {cb fl : Sl Nat} {opts : Options} {op : OP} {sc : Scratch}
    (h : PartInv n op) (ha : AgeInv op) (hsc : ScratchOK n sc) (hpre : PrefixSingle op) (hval : op.value.WF)
    (cBd : n ≤ op.binDividers.data.size) (cAges : n ≤ op.binAges.data.size) (cBtc : n ≤ op.binsToCheck.data.size)
    (cDws : n ≤ sc.dws.data.size) (cNbs : n ≤ sc.nbs.data.size) (cSpace : n ≤ sc.space.data.size)
    (cTs : n ≤ sc.timesSeen.len)
    (hbw : op.binsToCheck.WF) (hbs : op.binsToCheck.toList.Pairwise (· < ·))
    (hbr : ∀ x ∈ op.binsToCheck.toList, 0 ≤ x ∧ x < (op.binDividers.len : Int))
    (hnb : nb.size = n) (hnbr : ∀ (u : Nat) (l : List Nat), nb[u]? = some l → ∀ v ∈ l, v < n)
    (hcb : cb.len = 0) (hv : opts.checkViability = false) :
    ∃ op' sc', refine nb cb fl opts op sc = .ok (false, op', sc') :=  by
  obtain ⟨op', sc', h1, _⟩ := CanonF.refine_no_panic_partial stablePerm (fun d hw => CanonF.stable_no_panic hw)
    h ha hsc hpre hval cBd cAges cBtc cDws cNbs cSpace cTs hbw hbs hbr hnb hnbr hcb hv
  exact ⟨op', sc', h1⟩

/-! ## (d) the ordered-partition invariant is preserved; absence of panics of the partition operations -/

/-- `splitBin_inv`: individualising a position that lies in a bin with at least two elements keeps the invariant, adds
exactly one divider (of the new age `age + 1`), and does not touch the positions in front of the bin. -/
theorem splitBin_inv {n : Nat} {nb : Nbrs} {cb fl : Sl Nat} {op op' : OP} {i : Nat} {w : Bool}
    (h : PartInv n op) (ha : AgeInv op) (hi : i < n) (hns : NonSingleton op.binDividers.toList i)
    (hs : splitBin nb cb fl op i = .ok (w, op')) :
    PartInv n op' ∧ AgeInv op' ∧ op'.age = op.age + 1 ∧
      (divs op').filter (fun x => decide (x.2 ≠ op.age + 1)) = divs op ∧
      (∀ p, binIdx op.binDividers.toList p < binIdx op.binDividers.toList i → op'.order.toList[p]? = op.order.toList[p]?) :=
  CanonF.splitBin_inv h ha hi hns hs

/-- the hypotheses of `splitBin_inv` are satisfiable: the initial partition of 3 vertices, position 1 -/
example : ∃ op, newOrderedPartition 3 2 none = .ok (some op) ∧ PartInv 3 op ∧ AgeInv op ∧
    NonSingleton op.binDividers.toList 1 := by
  obtain ⟨op, h1, h2, h3, _, _, _, _, _, _, _, _, _, _, _, hbd⟩ := newOrderedPartition_inv (n := 3) (m := 2) (vc := none) (by decide) trivial
  refine ⟨op, h1, h2, h3, ?_⟩
  simp only at hbd
  rw [hbd]; unfold NonSingleton; decide

/-- `deage_inv`: undoing the current age keeps the invariant, removes exactly the dividers of the current age, empties the
work list, only shortens the certificate and only lowers `singletonPrefixLength`; capacities are unchanged. -/
theorem deage_inv {n : Nat} {op op' : OP} (h : PartInv n op) (ha : AgeInv op) (hage : 0 < op.age)
    (hd : deage op = .ok op') :
    PartInv n op' ∧ AgeInv op' ∧ op'.age = op.age - 1 ∧
      divs op' = (divs op).filter (fun x => decide (x.2 ≠ op.age)) ∧
      op'.binsToCheck.len = 0 ∧ op'.binsToCheck.data = op.binsToCheck.data ∧
      op'.value.data = op.value.data ∧ op'.value.len ≤ op.value.len ∧ op'.spl ≤ op.spl ∧
      op'.order.data.size = op.order.data.size ∧ op'.inCell.data.size = op.inCell.data.size ∧
      op'.binDividers.data.size = op.binDividers.data.size ∧ op'.binAges.data.size = op.binAges.data.size :=
  CanonF.deage_inv h ha hage hd

/-- `deage_no_panic`: on a partition satisfying the invariant `deage` neither panics nor runs out of fuel. -/
theorem deage_no_panic {n : Nat} {op : OP} (h : PartInv n op) (ha : AgeInv op) (hage : 0 < op.age)
    (hv : op.value.WF) : ∃ op', deage op = .ok op' :=
  CanonF.deage_no_panic h ha hage hv

/-- `refine_inv`: the equitable refinement (count loop, two-bucket fill / stable sort, insertion of the new dividers,
work list, `inCell`) keeps the invariant, only adds dividers of the current age, and keeps every capacity. -/
theorem refine_inv {n : Nat} {nb : Nbrs} {cb fl : Sl Nat} {opts : Options} {op op' : OP}
    {sc sc' : Scratch} {w : Bool}
    (h : PartInv n op) (ha : AgeInv op) (hsc : ScratchOK n sc)
    (hr : refine nb cb fl opts op sc = .ok (w, op', sc')) :
    PartInv n op' ∧ AgeInv op' ∧ op'.age = op.age ∧
      (divs op').filter (fun x => decide (x.2 < op.age)) = (divs op).filter (fun x => decide (x.2 < op.age)) ∧
      sc'.dws.data.size = sc.dws.data.size ∧ sc'.nbs.data.size = sc.nbs.data.size ∧
      sc'.space.data.size = sc.space.data.size ∧ sc'.timesSeen.data.size = sc.timesSeen.data.size ∧
      sc'.maxCell.data.size = sc.maxCell.data.size ∧ sc'.numberOfMax.data.size = sc.numberOfMax.data.size ∧
      op'.order.data.size = op.order.data.size ∧ op'.inCell.data.size = op.inCell.data.size ∧
      op'.binDividers.data.size = op.binDividers.data.size ∧ op'.binAges.data.size = op.binAges.data.size :=
  CanonF.refine_inv stablePerm h ha hsc hr

/-- `splitBin_no_panic_partial`: the partition step of `splitBin` does not panic within capacity. PARTIAL: the call of
`expandValue` (taken when the split bin is the one at `singletonPrefixLength`) is excluded by hypothesis; its slicing of
`currentBest`/`firstLeaf` to the certificate length is only safe under the certificate invariant. -/
theorem splitBin_no_panic_partial {n : Nat} {nb : Nbrs} {cb fl : Sl Nat} {op : OP} {i : Nat}
    (h : PartInv n op) (ha : AgeInv op) (hb : BtcInv op) (hi : i < n) (hns : NonSingleton op.binDividers.toList i)
    (c1 : op.binDividers.len + 1 ≤ op.binDividers.data.size) (c2 : op.binAges.len + 1 ≤ op.binAges.data.size)
    (c3 : op.binDividers.len + 1 ≤ op.binsToCheck.data.size)
    (hne : binIdx op.binDividers.toList i ≠ op.spl) :
    ∃ op', splitBin nb cb fl op i = .ok (false, op') ∧ BtcInv op' := by
  obtain ⟨op', h1, h2, _⟩ := CanonF.splitBin_no_panic_partial h ha hb hi hns c1 c2 c3 hne
  exact ⟨op', h1, h2⟩

/-! ## the hand-written stable sort (`stable`, `insertionSortKeyValue`, `symMerge`, `rotate`, `swapRange`) -/

/-- the sort permutes its input and keeps length and capacity -/
theorem stable_perm {d d' : Sl KV} {n : Nat} (h : stable d n = .ok d') :
    d'.len = d.len ∧ d'.data.size = d.data.size ∧ d'.toList.Perm d.toList :=
  CanonF.stable_perm h

/-- no index is out of range and every fuel of the model suffices -/
theorem stable_no_panic {d : Sl KV} (hw : d.WF) : ∃ d', stable d d.len = .ok d' :=
  CanonF.stable_no_panic hw

/-- the result is sorted by `value` -/
theorem stable_sorted {d d' : Sl KV} (hw : d.WF) (h : stable d d.len = .ok d') :
    d'.toList.Pairwise (fun x y => x.1 ≤ y.1) :=
  CanonF.stable_sorted hw h

/-- the sort is stable: elements with the same `value` keep their relative order -/
theorem stable_stable {d d' : Sl KV} (hw : d.WF) (h : stable d d.len = .ok d') (v : Nat) :
    d'.toList.filter (fun x => x.1 == v) = d.toList.filter (fun x => x.1 == v) :=
  CanonF.stable_stable hw h v

example : (⟨#[(2, 0), (1, 1), (2, 2)], 3⟩ : Sl KV).WF := by unfold Sl.WF; decide

/-! ## (e) storage reuse: `Reset` gives the state of a fresh `NewOrderedPartition` -/

/-- `newOrderedPartition_inv`: the initial partition satisfies the invariants; every class bin is on the initial work
list (`binsToCheck = [0, …, #bins - 1]`); each class is sorted inside `order` (`sortNat` = `ints.Sort`), so the result
does not depend on the order in which a class lists its vertices. -/
theorem newOrderedPartition_inv {n m : Nat} {vc : Classes} (hn : 0 < n) (hc : ClassesOK n vc) :
    ∃ op, newOrderedPartition n m vc = .ok (some op) ∧ PartInv n op ∧ AgeInv op ∧ op.age = 0 ∧ op.spl = 0 ∧
      op.value.len = 0 ∧ op.value.data.size = m ∧
      op.binsToCheck.toList = (List.range op.binDividers.len).map Int.ofNat ∧
      op.order.toList = (match vc with | none => List.range n | some cls => (cls.map sortNat).flatten) ∧
      op.binDividers.toList =
        (match vc with | none => [n] | some cls => (cls.map List.length).scanl (· + ·) 0 |>.tail) := by
  obtain ⟨op, h1, h2, h3, h4, h5, h6, h7, h8, _, _, _, _, _, h9, h10⟩ := CanonF.newOrderedPartition_inv (m := m) hn hc
  exact ⟨op, h1, h2, h3, h4, h5, h6, h7, h8, h9, h10⟩

/-- `reset_eq_new`: `Reset(n, m, classes)` on ANY partition value of sufficient capacity (arbitrary stale contents and
lengths) yields the same observable state — `order`, `binDividers`, `binAges`, `binsToCheck`, `value`, `age`,
`singletonPrefixLength`, `inCell` as slices of their lengths — as `NewOrderedPartition(n, m, classes)`, and keeps the
capacities. -/
theorem reset_eq_new {n m : Nat} {vc : Classes} (op : OP) (hn : 0 < n) (hc : ClassesOK n vc)
    (c1 : n ≤ op.order.data.size) (c2 : n ≤ op.inCell.data.size) (c3 : n ≤ op.binDividers.data.size)
    (c4 : n ≤ op.binAges.data.size) (c5 : n ≤ op.binsToCheck.data.size) (c6 : m ≤ op.value.data.size) :
    ∃ opN opR, newOrderedPartition n m vc = .ok (some opN) ∧ reset op n m vc = .ok opR ∧
      opR.order.toList = opN.order.toList ∧ opR.binDividers.toList = opN.binDividers.toList ∧
      opR.binAges.toList = opN.binAges.toList ∧ opR.binsToCheck.toList = opN.binsToCheck.toList ∧
      opR.value.toList = opN.value.toList ∧ opR.age = opN.age ∧ opR.spl = opN.spl ∧
      opR.inCell.toList = opN.inCell.toList ∧
      opR.order.data.size = op.order.data.size ∧ opR.inCell.data.size = op.inCell.data.size ∧
      opR.binDividers.data.size = op.binDividers.data.size ∧ opR.binAges.data.size = op.binAges.data.size ∧
      opR.binsToCheck.data.size = op.binsToCheck.data.size ∧ opR.value.data.size = op.value.data.size :=
  CanonF.reset_eq_new op hn hc c1 c2 c3 c4 c5 c6

/-- the reset partition satisfies the invariants -/
theorem reset_inv {n m : Nat} {vc : Classes} (op : OP) (hn : 0 < n) (hc : ClassesOK n vc)
    (c1 : n ≤ op.order.data.size) (c2 : n ≤ op.inCell.data.size) (c3 : n ≤ op.binDividers.data.size)
    (c4 : n ≤ op.binAges.data.size) (c5 : n ≤ op.binsToCheck.data.size) (c6 : m ≤ op.value.data.size) :
    ∃ opR, reset op n m vc = .ok opR ∧ PartInv n opR ∧ AgeInv opR ∧ opR.age = 0 ∧ opR.spl = 0 ∧
      opR.value.len = 0 ∧ opR.binsToCheck.toList = (List.range opR.binDividers.len).map Int.ofNat :=
  CanonF.reset_inv op hn hc c1 c2 c3 c4 c5 c6

/-- the documented panics of `Reset` -/
theorem reset_panics_small (op : OP) (n m : Nat) (vc : Classes)
    (h : op.order.data.size < n ∨ op.value.data.size < m) : reset op n m vc = .panic := by
  rcases h with h | h
  · exact reset_panics_small_n op n m vc h
  · exact reset_panics_small_m op n m vc h

/-! ## (f) link to the unpruned tree of `Model/IR.lean` (pattern A model of C01 / C02)

`IR.ofSpec g` is the IR graph of `g` (same neighbour lists as the faithful model reads); `irInit g op0` is the IR start
state for the class colouring of the initial partition `op0 = NewOrderedPartition(n, m, classes)`:
`IR.initSt (IR.ofSpec g) (#bins of op0) (cell index of a vertex in op0)` — without classes this is `IR.init`
(`irInit_none`). A leaf of the IR tree is a colouring vertex ↦ position; the returned slice `p` is position ↦ vertex, so
the leaf is `IR.tab n (fun v => p.idxOf v)`. -/

/-- `canonF_leaf_of_tree`: the permutation returned by the faithful model is one of the leaves of the UNPRUNED tree of
`Model/IR.lean` for the same graph and classes: the search with all its pruning only ever visits nodes of that tree — the
colouring after `splitBin` on the first non-singleton bin is `IR.individualise` on the target cell (`splitBin_match`,
`target_match`), the equitable refinement with its counting arrays, stable sort and work list is `IR.refine` on the
colouring whenever it does not abort with "worse" (`refine_is_IR_refine`: one iteration = one `IR.pass` with the largest
work-list entry as splitter), `deage` returns to the colouring of the parent node (`lv_deage`). The `m == 0` shortcut
returns the identity, which is a leaf of the tree of a graph without edges (`IR.edgeless_identity_leaf`). -/
theorem canonF_leaf_of_tree (fuel : Nat) (g : G) (hg : g.WF) (vc : Classes) (hvc : ClassesOK g.n vc)
    (hn : g.n ≠ 0) (r : Res) (h : canonicalIsomorphFull fuel g vc = .ok r) :
    ∃ op0 p, newOrderedPartition g.n (((nbrsOf g).toList.map List.length).sum / 2) vc = .ok (some op0) ∧
      r.perm = some p ∧ p.Perm (List.range g.n) ∧
      IR.tab g.n (fun v => p.idxOf v) ∈ IR.allLeaves (IR.ofSpec g) (irInit g op0) :=
  canonF_leaf_of_tree_all fuel g hg vc hvc hn r h

/-- without vertex classes the tree is the one of `IR.canonCert` / `IR.canonGraph` (properties C01 / C02) -/
theorem canonF_leaf_of_tree_simple (fuel : Nat) (g : G) (hg : g.WF) (hn : g.n ≠ 0) (r : Res)
    (h : canonicalIsomorphFull fuel g none = .ok r) :
    ∃ p, r.perm = some p ∧ p.Perm (List.range g.n) ∧
      IR.tab g.n (fun v => p.idxOf v) ∈ IR.allLeaves (IR.ofSpec g) (IR.init (IR.ofSpec g)) := by
  obtain ⟨op0, p, hnew, hp, hperm, hl⟩ := canonF_leaf_of_tree fuel g hg none trivial hn r h
  rw [irInit_none (Nat.pos_of_ne_zero hn) hnew] at hl
  exact ⟨p, hp, hperm, hl⟩

/-- `canonF_cert_le_IR`: the certificate of the returned leaf (`certPos` = `op.value` at the leaf = the edge codes of the
relabelled graph) is at most the canonical certificate of the IR model, the maximum over ALL leaves of the unpruned tree
(`≤` is the lexicographic order of `ints.Compare` on lists of equal length). Equality — "the pruning never loses the
maximal leaf" — is what the correspondence check validates per input. -/
theorem canonF_cert_le_IR (fuel : Nat) (g : G) (hg : g.WF) (vc : Classes) (hvc : ClassesOK g.n vc) (hn : g.n ≠ 0)
    (r : Res) (h : canonicalIsomorphFull fuel g vc = .ok r) :
    ∃ op0 p, newOrderedPartition g.n (((nbrsOf g).toList.map List.length).sum / 2) vc = .ok (some op0) ∧
      r.perm = some p ∧ certPos (nbrsOf g) p g.n ≤ IR.canonCertFrom (IR.ofSpec g) (irInit g op0) :=
  canonF_cert_le_full fuel g hg vc hvc hn r h

/-- the refinement of the faithful model is `IR.refine` on the colouring (`Match`: same colouring = `inCell`, same number
of cells, same work list as a set) -/
theorem refine_is_IR_refine {n : Nat} {nb : Nbrs} {cb fl : Sl Nat} {opts : Options} {op op' : OP} {sc sc' : Scratch}
    {s : IR.St} (hp : PartInv n op) (ha : AgeInv op) (hsc : ScratchOK n sc) (htl : sc.timesSeen.len = n)
    (hb : BtcInv op) (hnb : NbOK nb n) (hm : Match n op s)
    (hr : refine nb cb fl opts op sc = .ok (false, op', sc')) (rf : Nat) (hrf : 3 * n + 3 ≤ rf) :
    Match n op' (IR.refine (irG n nb) rf s) ∧ op'.binsToCheck.len = 0 :=
  refineMatch hp ha hsc htl hb hnb hm hr rf hrf

/-! ## (g) soundness of the three kinds of pruning (ingredients of "the pruning never loses the maximal leaf")

`IR.CertBelow g rf s x`: `x` is the certificate of a leaf of the unpruned tree below the node `s`.
These are the mathematical cores; the depth-first bookkeeping that combines them (which children of which node have
been visited when) is section (k). -/

/-- (a) partial-certificate pruning: when `expandValue` reports "worse" with the certificate `value` of the singleton
prefix `0..s-1` of the order `o`, every complete order `o'` that agrees with `o` on the positions `< s` (every leaf below
the node) has a full certificate smaller than `currentBest`. -/
theorem prune_worse_sound {nb : Nbrs} {o o' : List Nat} {s n : Nat} {value cb fl : Sl Nat}
    (hval : value.toList = certPos nb o s) (hvw : value.WF) (hs : s ≤ n) (hso : s ≤ o.length) (hso' : s ≤ o'.length)
    (hagree : ∀ p, p < s → o'[p]? = o[p]?) (hcb : cb.WF) (hlen : (certPos nb o' n).length = cb.len)
    (h : worseTest value cb fl = .ok true) : CanonF.compare (certPos nb o' n) cb.toList = -1 :=
  worseTest_sound hval hvw hs hso hso' hagree hcb hlen h

/-- (b), (c) orbit pruning (Heuristic 2) and back-jumping (Heuristic 1): two leaves below a node `s` of the unpruned tree
with the same certificate give the automorphism `γ` = "vertex at position `p` of the first leaf ↦ vertex at position `p`
of the second" (this is the generator the code records); `γ` preserves the colouring of `s`, and for every child `v` of
`s` the subtree of the child `γ v` has exactly the leaf certificates of the subtree of the child `v`. So a child whose
orbit-mate has been explored, and the siblings abandoned by a back-jump, contain no certificate that has not been seen. -/
theorem equal_leaves_prune_sound {n : Nat} {nb : Nbrs} (hnb : NbOK nb n) (rf : Nat) {s : IR.St} {o1 o2 : List Nat}
    (h1 : o1.Perm (List.range n)) (h2 : o2.Perm (List.range n))
    (hm1 : IR.Mono n s.c (IR.tab n (fun v => o1.idxOf v))) (hm2 : IR.Mono n s.c (IR.tab n (fun v => o2.idxOf v)))
    (hc : certPos nb o1 n = certPos nb o2 n) {t v : Nat} (hv : v < n) (x : List Nat) :
    IR.CertBelow (irG n nb) rf (IR.childSt (irG n nb) rf s t ((transport n o1 o2).getD v 0)) x ↔
      IR.CertBelow (irG n nb) rf (IR.childSt (irG n nb) rf s t v) x :=
  equal_leaves_subtrees hnb rf h1 h2 hm1 hm2 hc hv x

/-- `value_bounded_partial` (towards `reuse_eq_fresh`): under the certificate invariant (`VAny`, which the main loop
maintains: `CanonFGens.mainLoop_cert`) the certificate `op.value` never has more than `m` entries, so `worseTest` never
re-slices `currentBest` / `firstLeaf` beyond their length `m` — the bound that was doubtful before commit 0bfbb07.
PARTIAL with respect to `reuse_eq_fresh` itself (independence of the result of `CanonicalIsomorphAllocated` from the prior
contents of storage and partition), which is not proved: it needs a relational argument through the whole model and, at
`hasPrefix` / `h1Index` on `currentBestPath` / `firstLeafPath` (length `n`, entries beyond the leaf's depth are stale), the
tree fact that no path extends a leaf. -/
theorem value_bounded_partial {n : Nat} {nb : Nbrs} {cb fl : Sl Nat} {op : OP} (hnb : NbOK nb n) (hsz : nb.size = n)
    (hp : PartInv n op) (hv : VAny nb cb fl op) : op.value.len ≤ ((nb.toList.map List.length).sum) / 2 :=
  value_len_le hnb hsz hp hv

/-- `partial_cert_prune_sound` — (a) at tree level: if `worseTest` holds for the certificate of the singleton prefix of a
partition `op` (a state in which `splitBin` / the refinement aborts with "worse") whose colouring is coarser than, and
order-compatible with, the colouring of a node `χ` of the unpruned tree (`IR.Mono`), then EVERY leaf of the unpruned tree
below `χ` has a certificate smaller than `currentBest`. -/
theorem partial_cert_prune_sound {n : Nat} {nb : Nbrs} (rf : Nat) (hnb : NbOK nb n) (hsz : nb.size = n) {op : OP}
    {cb fl : Sl Nat} {χ : IR.St}
    (hp : PartInv n op) (hps : PrefixSingle op) (hvw : op.value.WF)
    (hval : op.value.toList = certPos nb op.order.toList op.spl)
    (hwt : worseTest op.value cb fl = .ok true) (hcb : cb.WF) (hcbl : cb.len = ((nb.toList.map List.length).sum) / 2)
    (hmono : IR.Mono n (colOf n op) χ.c) (hA : IR.InvA (irG n nb) χ) (hD : IR.InvD (irG n nb) χ) :
    ∀ x, IR.CertBelow (irG n nb) rf χ x → CanonF.compare x cb.toList = -1 :=
  worse_complete rf hnb hsz hp hps hvw hval hwt hcb hcbl hmono hA hD

/-- `bins_sorted_inv`: every bin of the ordered partition stays in ascending order through `splitBin`, the refinement and
`deage` (and holds initially, `bins_sorted_init`): the positions of the target cell enumerate `IR.cellMembers` in
ascending order, so the children of a tree node are visited in descending order of the vertex. -/
theorem bins_sorted_inv (n : Nat) (nb : Nbrs) :
    OrdQ n nb BinsSorted BinsSorted BinsSorted (fun _ => True) (fun _ => True) :=
  sortedOrdQ stablePerm n nb

theorem bins_sorted_init {n m : Nat} {vc : Classes} {op : OP} (hn : 0 < n) (hc : ClassesOK n vc)
    (h : newOrderedPartition n m vc = .ok (some op)) : BinsSorted op :=
  new_binsSorted hn hc h

/-- `mainLoop_state_inv`: the main loop carries every invariant of the whole loop state that is preserved by its thirteen
transitions (`MainJ`: `deage`, skipped `deage`, the two Heuristic-2 skips, `splitBin` worse / not worse, pop, node step with
the four leaf cases / inner node / worse, refinement worse / not worse); at the end the invariant holds with an empty stack. -/
theorem mainLoop_state_inv {n m : Nat} {nb : Nbrs} {JA JN JS : List (Nat × Nat) → LS → Prop}
    {JM : List (Nat × Nat) → Bool → LS → Prop} (hJ : MainJ n m nb JA JN JS JM)
    (fuel : Nat) (worse : Bool) (s s' : LS) (lv : List (Nat × Nat)) (hI : MInv n m nb s)
    (hw : s.count = 0 → worse = false) (hlv : LevelsOK s.op s.path s.choices lv) (hM : JM lv worse s)
    (h : mainLoop nb n m fuel worse s = .ok s') : JA [] s' :=
  mainLoopJ stablePerm hJ fuel worse s s' lv hI hw hlv hM h

/-- `frame_link_inv`: the walk of the search through the unpruned tree with explicit stack frames is an invariant of the
main loop (all thirteen transitions). With `vs` the vertices individualised along the current path and `nodeL vs L` the
tree node of level `L`: every level of the partition is the colouring of `nodeL vs L` (`LevelsTree`), the stack frame of
level `L` is the target cell of `nodeL vs L` with its size, and the child being explored is the `path[L]`-th member of that
cell in ascending order (`FramesOK`; uses `bins_sorted_inv`); `WalkN` after a `deage`, `WalkS` after a `splitBin` (the
partition is the individualised child), `WalkM` at the start of an iteration, `WalkA` at all times. -/
theorem frame_link_inv {n m : Nat} {nb : Nbrs} {rf : Nat} {r : IR.St} (hnb : NbOK nb n) (hrf : 3 * n + 3 ≤ rf) :
    MainJ n m nb (WalkA n nb rf r) (WalkN n nb rf r) (WalkS n nb rf r) (WalkM n nb rf r) :=
  walkMainJ hnb hrf

/-! ### the per-frame coverage invariant (`CovFrames`) through the transitions of the search

`CovFrames s vs incl path choices lv`: for every stack frame every processed child `w` of the frame's node is covered
(`CovChild`): all leaves of the unpruned tree below it have a certificate `≤ currentBest` (`Complete`), or — on the
first-leaf path — `w` is not the representative of its class in `firstLeafOrbits`. The theorems below are the
transitions; the orbit facts they need (`hE1`, `S`/`hS`/`horb`) are stated as hypotheses here — they are supplied by the
DFS-order layer `FrameAux` of section (k) (generators recorded at a node of the first- or best-leaf path fix that node),
where the leaf cases are treated too and everything is assembled into `canonF_eq_IR_canon`. -/

/-- certificate, generator and `currentBest` facts as a state-level invariant of the main loop -/
theorem cert_state_inv {n m : Nat} {nb : Nbrs} (hnb : NbOK nb n)
    (hlenm : ∀ o : List Nat, o.Perm (List.range n) → (certPos nb o n).length = m) :
    MainJ n m nb (CertA n m nb) (CertN n m nb) (CertN n m nb) (CertM n m nb) :=
  certMainJ expandValue_cert hnb hlenm

/-- `firstleaf_orbit_prune_sound` (core): a vertex with the same representative in `firstLeafOrbits` as `w` lies in the
same cell of the node `ν` and its child subtree has exactly the leaf certificates of the child subtree of `w`, provided
the recorded generators preserve the colouring of `ν` -/
theorem firstleaf_orbit_prune_sound {n : Nat} {nb : Nbrs} (hnb : NbOK nb n) (rf : Nat) {ν : IR.St}
    {gens : Array (Sl Nat)} {ngens : Nat} {ds : Disjoint.DS}
    (hgens : ∀ k, k < ngens → ∃ γ, gens[k]? = some γ ∧ IsAutL nb n γ.toList ∧
      ∀ v, v < n → IR.col ν.c (γ.toList.getD v 0) = IR.col ν.c v)
    (horb : ∀ a b, a < n → b < n → Disjoint.rep ds a = Disjoint.rep ds b →
      Relation.EqvGen (GenRelA gens ngens) a b)
    {w ρ : Nat} (hw : w < n) (hρ : ρ < n) (hrep : Disjoint.rep ds ρ = Disjoint.rep ds w) :
    IR.col ν.c ρ = IR.col ν.c w ∧ ∀ t x, IR.CertBelow (irG n nb) rf (IR.childSt (irG n nb) rf ν t ρ) x ↔
      IR.CertBelow (irG n nb) rf (IR.childSt (irG n nb) rf ν t w) x :=
  deferred_root_sound hnb rf hgens horb hw hρ hrep

/-- `backjump_sound` (Heuristic 1): two equal-certificate leaves below `ν`; `b`, `c` the vertices at the same position of
the two leaves (the children of `ν` on the two paths): the subtree of `c` has exactly the leaf certificates of that of `b` -/
theorem backjump_prune_sound {n : Nat} {nb : Nbrs} (hnb : NbOK nb n) (rf : Nat) {ν : IR.St} {o1 o2 : List Nat}
    (h1 : o1.Perm (List.range n)) (h2 : o2.Perm (List.range n))
    (hm1 : IR.Mono n ν.c (IR.tab n (fun v => o1.idxOf v))) (hm2 : IR.Mono n ν.c (IR.tab n (fun v => o2.idxOf v)))
    (hc : certPos nb o1 n = certPos nb o2 n) {t b c : Nat} (hb : b < n) (hpos : o2[o1.idxOf b]? = some c) (x : List Nat) :
    IR.CertBelow (irG n nb) rf (IR.childSt (irG n nb) rf ν t c) x ↔
      IR.CertBelow (irG n nb) rf (IR.childSt (irG n nb) rf ν t b) x :=
  backjump_sound hnb rf h1 h2 hm1 hm2 hc hb hpos x

/-- coverage, transition "Heuristic 2 on the first-leaf path skips a child" -/
theorem frame_coverage_skip_first {n : Nat} {nb : Nbrs} {rf : Nat} {r : IR.St} (st sz : Nat) (ls : List (Nat × Nat))
    (s : LS) (c : Nat) (cs : List Nat) (p : Nat) (ps : List Nat) (ce : Nat) (x : Int) (k : Nat) (hc : Core n s)
    (ht : TopOK s.op (k + 1) s.path s.choices ((st, sz) :: ls)) (hage : s.op.age + 1 = s.path.length)
    (hch : s.choices = c :: cs) (hpth : s.path = p :: ps) (hget : s.op.order.get (c - 1) = .ok ce)
    (hon : (decide (s.count > 0) && hasPrefix s.flPath.toList ps.reverse) = true)
    (hx : s.flOrbits[ce]? = some x) (hx0 : x ≥ 0)
    {vs : List Nat} (hw : WalkNv n nb rf r vs ((st, sz) :: ls) s)
    (hcov : CovFrames n nb rf r s vs true s.path s.choices ((st, sz) :: ls)) :
    CovFrames n nb rf r { s with choices := (c - 1) :: cs, skipDeage := true } vs true (p :: ps) ((c - 1) :: cs)
      ((st, sz) :: ls) :=
  cov_skipA st sz ls s c cs p ps ce x k hc ht hage hch hpth hget hon hx hx0 hw hcov

/-- coverage, transition "Heuristic 2 on the best-leaf path skips a child" (`bestleaf_orbit_prune_sound` at state
level): an orbit mate sits at a later position of the bin, it is complete, and the classes of `currentBestOrbits` are
generated by automorphisms (`S`) that preserve the colouring of the frame's node -/
theorem frame_coverage_skip_best {n m : Nat} {nb : Nbrs} {rf : Nat} {r : IR.St} (hnb : NbOK nb n)
    (st sz : Nat) (ls : List (Nat × Nat)) (s : LS) (c : Nat) (cs : List Nat) (p : Nat) (ps : List Nat) (ce : Nat)
    (bo : Disjoint.DS) (k : Nat) (hc : Core n s) (ht : TopOK s.op (k + 1) s.path s.choices ((st, sz) :: ls))
    (hage : s.op.age + 1 = s.path.length) (hch : s.choices = c :: cs) (hpth : s.path = p :: ps)
    (hget : s.op.order.get (c - 1) = .ok ce) (hnf : onFirstB s ps = false)
    (hh : h2Best s.op s.bestOrbits (c - 1) ce = .ok (true, bo))
    {vs : List Nat} (hw : WalkNv n nb rf r vs ((st, sz) :: ls) s)
    (hcov : CovFrames n nb rf r s vs true s.path s.choices ((st, sz) :: ls))
    (S : List Nat → Prop)
    (hS : ∀ γ, S γ → IsAutL nb n γ ∧ ∀ u, u < n →
      IR.col (nodeL n nb rf r vs vs.length).c (γ.getD u 0) = IR.col (nodeL n nb rf r vs vs.length).c u)
    (hds : Disjoint.Inv s.bestOrbits) (hdsz : s.bestOrbits.size = n)
    (horb : ∀ a b, a < n → b < n → Disjoint.rep s.bestOrbits a = Disjoint.rep s.bestOrbits b →
      Relation.EqvGen (fun x y => ∃ γ, S γ ∧ γ[x]? = some y) a b) :
    CovFrames n nb rf r { s with choices := (c - 1) :: cs, bestOrbits := bo, skipDeage := true } vs true (p :: ps)
      ((c - 1) :: cs) ((st, sz) :: ls) :=
  cov_skipB_step (m := m) hnb st sz ls s c cs p ps ce bo k hc ht hage hch hpth hget hnf hh hw hcov S hS hds hdsz horb

/-- coverage, transition "`splitBin` reports worse" (partial-certificate pruning at state level) -/
theorem frame_coverage_split_worse {n m : Nat} {nb : Nbrs} {rf : Nat} {r : IR.St} (hnb : NbOK nb n) (hsz : nb.size = n)
    (hm : m = ((nb.toList.map List.length).sum) / 2) (hrf : 3 * n + 3 ≤ rf)
    (hA : IR.InvA (irG n nb) r) (hD : IR.InvD (irG n nb) r)
    (st sz : Nat) (ls : List (Nat × Nat)) (s : LS) (c : Nat) (cs : List Nat) (p : Nat) (ps : List Nat) (ce : Nat)
    (bo : Disjoint.DS) (op' : OP) (k : Nat) (hc : Core n s) (ht : TopOK s.op (k + 1) s.path s.choices ((st, sz) :: ls))
    (hage : s.op.age + 1 = s.path.length) (hch : s.choices = c :: cs) (hpth : s.path = p :: ps)
    (hget : s.op.order.get (c - 1) = .ok ce)
    (hs : splitBin nb s.currentBest s.firstLeaf s.op (c - 1) = .ok (true, op'))
    {vs : List Nat} (hw : WalkNv n nb rf r vs ((st, sz) :: ls) s) (hcert : CertN n m nb ((st, sz) :: ls) s)
    (hcov : CovFrames n nb rf r s vs true s.path s.choices ((st, sz) :: ls)) :
    CovFrames n nb rf r { s with choices := (c - 1) :: cs, bestOrbits := bo, op := op', path := k :: ps } vs true
      (k :: ps) ((c - 1) :: cs) ((st, sz) :: ls) :=
  cov_split_worse_step hnb hsz hm hrf hA hD st sz ls s c cs p ps ce bo op' k hc ht hage hch hpth hget hs hw hcert hcov

/-- coverage, transition "the refinement reports worse" -/
theorem frame_coverage_refine_worse {n m : Nat} {nb : Nbrs} {rf : Nat} {r : IR.St} (hnb : NbOK nb n)
    (hsz : nb.size = n) (hm : m = ((nb.toList.map List.length).sum) / 2) (hrf : 3 * n + 3 ≤ rf)
    (hA : IR.InvA (irG n nb) r) (hD : IR.InvD (irG n nb) r)
    (st sz : Nat) (ls : List (Nat × Nat)) (s : LS) (c : Nat) (cs : List Nat) (p : Nat) (ps : List Nat)
    (op' : OP) (sc' sc2 : Scratch) (hc : Core n s) (htl : s.sc.timesSeen.len = n)
    (hch : s.choices = c :: cs) (hpth : s.path = p :: ps) (hcp : c = st + p)
    {vs : List Nat} {t v : Nat} (hw : WalkSv n nb rf r vs t v ((st, sz) :: ls) s) (hcert : CertN n m nb ((st, sz) :: ls) s)
    (hr : refine nb s.currentBest s.firstLeaf {} s.op s.sc = .ok (true, op', sc'))
    (hcov : CovFrames n nb rf r s vs false s.path s.choices ((st, sz) :: ls)) :
    CovFrames n nb rf r { s with op := op', sc := sc2 } vs true (p :: ps) (c :: cs) ((st, sz) :: ls) :=
  cov_refine_worse_step hnb hsz hm hrf hA hD st sz ls s c cs p ps op' sc' sc2 hc htl hch hpth hcp hw hcert hr hcov

/-- coverage, transition "pop": all children of the top frame are processed ⇒ its node is complete (a deferred child is
resolved through the representative of its class: `firstleaf_orbit_prune_sound`), and the child of the frame below that
was being explored is covered -/
theorem frame_coverage_pop {n m : Nat} {nb : Nbrs} {rf : Nat} {r : IR.St} (hnb : NbOK nb n)
    (st sz : Nat) (ls : List (Nat × Nat)) (s : LS)
    (ht : TopOK s.op 0 s.path s.choices ((st, sz) :: ls))
    {vs : List Nat} (hw : WalkNv n nb rf r vs ((st, sz) :: ls) s) (hg : GInv n m nb s)
    (hcov : CovFrames n nb rf r s vs true s.path s.choices ((st, sz) :: ls))
    (hE1 : ∀ ps, s.path.drop 1 = ps → onFirstB s ps = true → ∀ k, k < s.ngens → ∀ γ, s.gens[k]? = some γ →
      ∀ u, u < n → IR.col (nodeL n nb rf r vs ps.length).c (γ.toList.getD u 0) = IR.col (nodeL n nb rf r vs ps.length).c u) :
    Complete n nb rf s.currentBest.toList (nodeL n nb rf r vs (s.path.length - 1)) ∧
    CovFrames n nb rf r { s with path := s.path.drop 1, choices := s.choices.drop 1 } vs.dropLast true
      (s.path.drop 1) (s.choices.drop 1) ls :=
  cov_pop_step hnb st sz ls s ht hw hg hcov hE1

/-- coverage, transitions that only change the partition (`deage`, refinement not worse), start of a child, new frame -/
theorem frame_coverage_simple {n : Nat} {nb : Nbrs} {rf : Nat} {r : IR.St} {s : LS} {vs : List Nat} :
    (∀ (incl : Bool) (lv : List (Nat × Nat)) (op' : OP) (sc' : Scratch) (b : Bool),
      CovFrames n nb rf r s vs incl s.path s.choices lv →
      CovFrames n nb rf r { s with op := op', sc := sc', skipDeage := b } vs incl s.path s.choices lv) ∧
    (∀ (st sz : Nat) (ls : List (Nat × Nat)) (c : Nat) (cs : List Nat) (p : Nat) (ps : List Nat) (bo : Disjoint.DS)
      (op' : OP) (k : Nat), s.choices = c :: cs → s.path = p :: ps → st < c →
      CovFrames n nb rf r s vs true s.path s.choices ((st, sz) :: ls) →
      CovFrames n nb rf r { s with choices := (c - 1) :: cs, bestOrbits := bo, op := op', path := k :: ps } vs false
        (k :: ps) ((c - 1) :: cs) ((st, sz) :: ls)) ∧
    (∀ (lv : List (Nat × Nat)) (st sz : Nat), (cellL n nb rf r vs s.path.length st).length = sz →
      CovFrames n nb rf r s vs false s.path s.choices lv →
      CovFrames n nb rf r { s with choices := (st + sz) :: s.choices, path := sz :: s.path, skipDeage := true } vs true
        (sz :: s.path) ((st + sz) :: s.choices) ((st, sz) :: lv)) :=
  ⟨fun _ _ op' sc' b h => cov_congr_op op' sc' b h,
   fun st sz ls c cs p ps bo op' k hch hpth hst h => cov_split_ok st sz ls s c cs p ps bo op' k hch hpth hst h,
   fun _ st sz hlen h => cov_push st sz hlen h⟩

/-- coverage at a leaf that is not better than `currentBest` and equal to neither the best nor the first leaf -/
theorem frame_coverage_leaf_other {n m : Nat} {nb : Nbrs} {rf : Nat} {r : IR.St} (hnb : NbOK nb n) {s s' : LS}
    {lv : List (Nat × Nat)} {vs : List Nat} (hc : Core n s) (hl : LevelsOK s.op s.path s.choices lv)
    (hw : WalkNodev n nb rf r vs lv s) (hleaf : s.op.binDividers.len = n) (hvc : VClean nb s.op) (hspl : s.op.spl = n)
    (hc1 : (CanonF.compare s.op.value.toList s.currentBest.toList == 1 || s.count + 1 == 1) = false)
    (hc0 : (CanonF.compare s.op.value.toList s.currentBest.toList == 0) = false)
    (hcf : (CanonF.compare s.op.value.toList s.firstLeaf.toList == 0) = false)
    (h : leafNode n m s = .ok s')
    (hcov : CovFrames n nb rf r s vs false s.path s.choices lv) :
    s'.path = s.path ∧ s'.choices = s.choices ∧ s'.op = s.op ∧ CovFrames n nb rf r s' vs true s.path s.choices lv :=
  cov_leaf_other hnb hc hl hw hleaf hvc hspl hc1 hc0 hcf h hcov

/-- coverage at a leaf that is better than `currentBest` (not the first leaf): every coverage fact survives the larger
`currentBest`, and the leaf itself is covered -/
theorem frame_coverage_leaf_accept {n m : Nat} {nb : Nbrs} {rf : Nat} {r : IR.St} (hnb : NbOK nb n)
    (hlenm : ∀ o : List Nat, o.Perm (List.range n) → (certPos nb o n).length = m) {s s' : LS}
    {lv : List (Nat × Nat)} {vs : List Nat} (hc : Core n s) (hl : LevelsOK s.op s.path s.choices lv)
    (hw : WalkNodev n nb rf r vs lv s) (hleaf : s.op.binDividers.len = n) (hvc : VClean nb s.op) (hspl : s.op.spl = n)
    (hb : BestOK m s) (hg : GInv n m nb s)
    (hcmp : CanonF.compare s.op.value.toList s.currentBest.toList = 1) (hcnt : 0 < s.count)
    (h : leafNode n m s = .ok s')
    (hcov : CovFrames n nb rf r s vs false s.path s.choices lv) :
    s'.path = s.path ∧ s'.choices = s.choices ∧ s'.op = s.op ∧ s'.currentBest.toList = s.op.value.toList ∧
      CovFrames n nb rf r s' vs true s.path s.choices lv :=
  cov_leaf_accept hnb hlenm hc hl hw hleaf hvc hspl hb hg hcmp hcnt h hcov

/-- `backjump_sound` at state level: the child of the common ancestor on the current path is complete because the child on
the path of the (equal-certificate) reference leaf is -/
theorem backjump_child_sound {n : Nat} {nb : Nbrs} {rf : Nat} {r : IR.St} (hnb : NbOK nb n)
    (hA : IR.InvA (irG n nb) r) (hD : IR.InvD (irG n nb) r) {best : List Nat}
    {vs vsR : List Nat} {o1 o2 : List Nat} {i st b c : Nat}
    (hp1 : IR.IsPath (irG n nb) rf r vsR) (ht1 : IR.target (irG n nb) (IR.nodeAt (irG n nb) rf r vsR) = none)
    (hc1 : (IR.nodeAt (irG n nb) rf r vsR).c = IR.tab n (fun v => o1.idxOf v)) (ho1 : o1.Perm (List.range n))
    (hp2 : IR.IsPath (irG n nb) rf r vs) (ht2 : IR.target (irG n nb) (IR.nodeAt (irG n nb) rf r vs) = none)
    (hc2 : (IR.nodeAt (irG n nb) rf r vs).c = IR.tab n (fun v => o2.idxOf v)) (ho2 : o2.Perm (List.range n))
    (hcert : certPos nb o1 n = certPos nb o2 n)
    (hcommon : vsR.take i = vs.take i) (hb : vsR[i]? = some b) (hcv : vs[i]? = some c)
    (hst : IR.target (irG n nb) (nodeL n nb rf r vs i) = some st)
    (hcomp : Complete n nb rf best (IR.childSt (irG n nb) rf (nodeL n nb rf r vs i) st b)) :
    Complete n nb rf best (IR.childSt (irG n nb) rf (nodeL n nb rf r vs i) st c) :=
  backjump_child_complete hnb hA hD hp1 ht1 hc1 ho1 hp2 ht2 hc2 ho2 hcert hcommon hb hcv hst hcomp

/-- `canon_eq_of_complete` — the last step of `canonF_eq_IR_canon`: if the root of the unpruned tree is covered w.r.t. the
certificate of the returned leaf (what the DFS invariant yields when the stack is empty), the returned certificate IS the
canonical certificate of the IR model. The hypothesis `hcomp` is derived for the search in `canonF_eq_IR_canon_classes`. -/
theorem canon_eq_of_complete {g : G} (hg : g.WF) {s0 : IR.St} (hw : s0.work ≠ []) {p : List Nat}
    (hp : p.Perm (List.range g.n))
    (hleaf : IR.tab g.n (fun v => p.idxOf v) ∈ IR.allLeaves (IR.ofSpec g) s0)
    (hcomp : Complete g.n (nbrsOf g) (IR.rfuel (IR.ofSpec g)) (certPos (nbrsOf g) p g.n)
      (IR.refine (IR.ofSpec g) (IR.rfuel (IR.ofSpec g)) s0)) :
    certPos (nbrsOf g) p g.n = IR.canonCertFrom (IR.ofSpec g) s0 :=
  CanonF.canon_eq_of_complete hg hw hp hleaf hcomp

/-- `recorded_generator_fixes_ancestors`: the generator recorded when the current leaf (path `vs`, order `o2`) equals the
reference leaf (path `vsR`, order `o1`) preserves the colouring of every common ancestor `nodeL vs L` of the two leaves —
the source of the orbit hypotheses (`hE1`, `hS`) of the coverage transitions -/
theorem recorded_generator_fixes_ancestors {n : Nat} {nb : Nbrs} {rf : Nat} {r : IR.St} (hnb : NbOK nb n)
    (hA : IR.InvA (irG n nb) r) (hD : IR.InvD (irG n nb) r) {vs vsR : List Nat} {o1 o2 : List Nat} {L : Nat}
    (hp1 : IR.IsPath (irG n nb) rf r vsR) (hc1 : (IR.nodeAt (irG n nb) rf r vsR).c = IR.tab n (fun v => o1.idxOf v))
    (ho1 : o1.Perm (List.range n))
    (hp2 : IR.IsPath (irG n nb) rf r vs) (hc2 : (IR.nodeAt (irG n nb) rf r vs).c = IR.tab n (fun v => o2.idxOf v))
    (ho2 : o2.Perm (List.range n)) (hcommon : vsR.take L = vs.take L) :
    ∀ u, u < n → IR.col (nodeL n nb rf r vs L).c ((transport n o1 o2).getD u 0) = IR.col (nodeL n nb rf r vs L).c u :=
  recorded_gen_preserves hnb hA hD hp1 hc1 ho1 hp2 hc2 ho2 hcommon

/-- index paths determine nodes: two vertex paths whose first `L` steps pick the same indices (`firstLeafPath` /
`currentBestPath` against `path`) in the target cells agree on their first `L` vertices -/
theorem index_path_determines_nodes {n : Nat} {nb : Nbrs} {rf : Nat} {r : IR.St} {vs vsR P : List Nat} {L : Nat}
    (h1 : IdxPath n nb rf r vs P L) (h2 : IdxPath n nb rf r vsR P L) : vs.take L = vsR.take L :=
  same_prefix_of_idx h1 h2

/-- every leaf below a node refines the colouring of the node monotonically (the hypothesis `hm1`, `hm2` above) -/
theorem leaf_below_node_mono {n : Nat} {nb : Nbrs} (hnb : NbOK nb n) (rf : Nat) (vs : List Nat) (s : IR.St)
    (h : IR.IsPath (irG n nb) rf s vs) : IR.Mono n s.c (IR.nodeAt (irG n nb) rf s vs).c :=
  path_mono hnb rf vs s h

/-! ## (k) completeness of the pruning: the faithful search returns the canonical certificate of the unpruned tree

The complete invariant of the depth-first search (`Lemmas/CanonFDfs.lean`): with ghost data `Gh` (the vertex path of the
current node, the order and vertex paths of the first and the best leaf, the automorphisms merged into
`currentBestOrbits`), `DN`/`DA`/`DS`/`DM` combine the walk through the unpruned tree (`frame_link_inv`), the per-frame
coverage `CovFrames`, `GlobalInv` (the stored leaves are leaves of the unpruned tree reached by `firstLeafPath` /
`currentBestPath`; `currentBestOrbits` is generated by automorphisms) and `FrameAux` (DFS order: no unprocessed child lies
on a stored path, a processed child on a stored path is complete, the recorded generators fix every ancestor on the
first-leaf path — the orbit hypotheses `hE1`, `S`/`hS`/`horb` of the `frame_coverage_*` transitions). -/

/-- `dfs_state_inv`: the complete DFS invariant is preserved by all transitions of the main loop (`deage`, the two
Heuristic-2 skips, `splitBin` worse / not worse, pop, refinement worse / not worse, inner node, and the five leaf cases:
first leaf, better leaf, leaf equal to the best leaf with back-jump, leaf equal to the first leaf with back-jump, other
leaf), on top of the certificate invariants `cert_state_inv` -/
theorem dfs_state_inv {n m : Nat} {nb : Nbrs} {rf : Nat} {r : IR.St} (hnb : NbOK nb n) (hsz : nb.size = n)
    (hm : m = ((nb.toList.map List.length).sum) / 2) (hrf : 3 * n + 3 ≤ rf)
    (hA : IR.InvA (irG n nb) r) (hD : IR.InvD (irG n nb) r)
    (hlenm : ∀ o : List Nat, o.Perm (List.range n) → (certPos nb o n).length = m) :
    MainJX n m nb (CertA n m nb) (CertN n m nb) (CertN n m nb) (CertM n m nb)
      (DA n nb rf r) (DN n nb rf r) (DS n nb rf r) (DM n nb rf r) :=
  dfsMainJX hnb hsz hm hrf hA hD hlenm

/-- `dfs_state_init`: the invariants hold when `CanonicalIsomorphAllocated` enters the main loop (`InitSt`: the state
after the initial refinement and `expandValue`), the root of the tree being the refined class colouring -/
theorem dfs_state_init {n m : Nat} {nb : Nbrs} {rf : Nat} (hnb : NbOK nb n) (hrf : 3 * n + 3 ≤ rf) {opts : Options}
    {op0 : OP} {s0 : LS} {si : IR.St} (hp : PartInv n op0) (ha : AgeInv op0) (hm0 : Match n op0 si) (hb0 : BtcInv op0)
    (hbs : BinsSorted op0) (hage0 : op0.age = 0) (hi : InitSt n m nb opts op0 s0) :
    CertM n m nb [] false s0 ∧ DM n nb rf (IR.refine (irG n nb) rf si) [] false s0 :=
  dfs_init hnb hrf hp ha hm0 hb0 hbs hage0 hi

/-- `allocated_state_inv`: every `MainJ` invariant that holds for the initial state holds, with an empty stack, for the
state from which `CanonicalIsomorphAllocated` reads its results (general path, no viability check) -/
theorem allocated_state_inv {fuel n m : Nat} {nb : Nbrs}
    {JA JN JS : List (Nat × Nat) → LS → Prop} {JM : List (Nat × Nat) → Bool → LS → Prop} (hJ : MainJ n m nb JA JN JS JM)
    {op0 : OP} {st : Storage} {opts : Options} {r : Res} {opR : Option OP} {stR : Storage}
    (hn : n ≠ 0) (hgen : m = 0 → op0.binDividers.len ≠ 1) (hv : opts.checkViability = false)
    (hp : PartInv n op0) (ha : AgeInv op0) (hage : op0.age = 0) (hspl : op0.spl = 0)
    (hval : op0.value.len = 0)
    (hinit : ∀ s0, InitSt n m nb opts op0 s0 → JM [] false s0)
    (h : canonicalIsomorphAllocated fuel n m nb (some op0) st opts = .ok (r, opR, stR)) :
    ∃ s, JA [] s ∧ r.perm = some s.bestPerm.toList ∧ r.orbits = some s.flOrbits.toList ∧
      r.gens = some ((s.gens.toList.take s.ngens).map Sl.toList) :=
  allocated_mainJ stablePerm expandValue_cert hJ hn hgen hv hp ha hage hspl hval hinit h

/-- `canonF_eq_IR_canon_classes`: whenever `CanonicalIsomorphFull(g, classes)` returns (for ANY fuel), the certificate of
the returned permutation — the sorted edge codes of the relabelled graph — is the lexicographically largest leaf
certificate of the UNPRUNED search tree of `Model/IR.lean` started from the class colouring: all pruning of the Go code
(partial-certificate comparison, Heuristic 2 / orbit pruning, Heuristic 1 back-jumping, the `m == 0` shortcut) is sound
and complete. -/
theorem canonF_eq_IR_canon_classes (fuel : Nat) (g : G) (hg : g.WF) (vc : Classes) (hvc : ClassesOK g.n vc)
    (hn : g.n ≠ 0) (r : Res) (h : canonicalIsomorphFull fuel g vc = .ok r) :
    ∃ op0 p, newOrderedPartition g.n (((nbrsOf g).toList.map List.length).sum / 2) vc = .ok (some op0) ∧
      r.perm = some p ∧ p.Perm (List.range g.n) ∧
      certPos (nbrsOf g) p g.n = IR.canonCertFrom (IR.ofSpec g) (irInit g op0) :=
  canonF_complete_full fuel g hg vc hvc hn r h

/-- `canonF_eq_IR_canon`: without vertex classes the certificate of the returned permutation is `IR.canonCert`, and the
graph relabelled with the returned slice (`g.InducedSubgraph(perm)`) IS the canonical graph `IR.canonGraph` of the abstract
model of property C01 (pattern A): the faithful model and the abstract model compute the same canonical form. -/
theorem canonF_eq_IR_canon (fuel : Nat) (g : G) (hg : g.WF) (hn : g.n ≠ 0)
    (r : Res) (h : canonicalIsomorphFull fuel g none = .ok r) :
    ∃ p, r.perm = some p ∧ p.Perm (List.range g.n) ∧ certPos (nbrsOf g) p g.n = IR.canonCert (IR.ofSpec g) ∧
      IR.ofSpec (g.induced p) = IR.canonGraph (IR.ofSpec g) := by
  obtain ⟨p, hp, hperm, hc, _⟩ := canonF_eq_IR_canon_full fuel g hg hn r h
  obtain ⟨p', hp', _, hi⟩ := canonF_induced_eq_canonGraph fuel g hg hn r h
  rw [hp] at hp'
  cases hp'
  exact ⟨p, hp, hperm, hc, hi⟩

/-- the relabelled graph as a decoded certificate -/
theorem induced_eq_decoded_cert (g : G) (hg : g.WF) (p : List Nat) (hp : p.Perm (List.range g.n)) :
    IR.ofSpec (g.induced p) = IR.ofCodes g.n (certPos (nbrsOf g) p g.n) :=
  ofSpec_induced_eq_ofCodes g hg p hp

/-- `canonF_canon_invariant`: the canonical form computed by the FAITHFUL model is invariant under relabelling — for a
relabelled copy `g'` of `g` the two relabelled graphs `g.InducedSubgraph(perm)`, `g'.InducedSubgraph(perm')` are EQUAL
(composition of `canonF_eq_IR_canon` with `C01.canon_invariant`). -/
theorem canonF_canon_invariant (fuel fuel' : Nat) (g g' : G) (hg : g.WF) (hg' : g'.WF) (hn : g.n ≠ 0)
    {σ τ : Nat → Nat} (R : IR.Relabel (IR.ofSpec g) (IR.ofSpec g') σ τ) (r r' : Res)
    (h : canonicalIsomorphFull fuel g none = .ok r) (h' : canonicalIsomorphFull fuel' g' none = .ok r') :
    ∃ p p', r.perm = some p ∧ r'.perm = some p' ∧ g.induced p = g'.induced p' := by
  have hn' : g'.n ≠ 0 := by
    have : g'.n = g.n := R.n_eq
    omega
  obtain ⟨p, p', hp, hp', hiff⟩ := canonF_induced_complete fuel fuel' g g' hg hg' hn hn' r r' h h'
  exact ⟨p, p', hp, hp', hiff.2 ⟨σ, τ, R⟩⟩

/-- `canonF_canon_complete`: two graphs get the same canonically relabelled graph if and only if they are isomorphic -/
theorem canonF_canon_complete (fuel fuel' : Nat) (g g' : G) (hg : g.WF) (hg' : g'.WF) (hn : g.n ≠ 0) (hn' : g'.n ≠ 0)
    (r r' : Res) (h : canonicalIsomorphFull fuel g none = .ok r) (h' : canonicalIsomorphFull fuel' g' none = .ok r') :
    ∃ p p', r.perm = some p ∧ r'.perm = some p' ∧
      (g.induced p = g'.induced p' ↔ IR.Iso (IR.ofSpec g) (IR.ofSpec g')) :=
  canonF_induced_complete fuel fuel' g g' hg hg' hn hn' r r' h h'

/-- the same for the unexported wrapper `CanonicalIsomorph` -/
theorem canonF_canon_invariant_simple (fuel fuel' : Nat) (g g' : G) (hg : g.WF) (hg' : g'.WF) (hn : g.n ≠ 0)
    {σ τ : Nat → Nat} (R : IR.Relabel (IR.ofSpec g) (IR.ofSpec g') σ τ) (q q' : Option (List Nat))
    (h : canonicalIsomorph fuel g = .ok q) (h' : canonicalIsomorph fuel' g' = .ok q') :
    ∃ p p', q = some p ∧ q' = some p' ∧ g.induced p = g'.induced p' := by
  unfold canonicalIsomorph at h h'
  cases hf : canonicalIsomorphFull fuel g none with
  | ok r =>
    cases hf' : canonicalIsomorphFull fuel' g' none with
    | ok r' =>
      rw [hf] at h; rw [hf'] at h'
      cases h; cases h'
      exact canonF_canon_invariant fuel fuel' g g' hg hg' hn R r r' hf hf'
    | panic => rw [hf'] at h'; cases h'
    | outOfFuel => rw [hf'] at h'; cases h'
  | panic => rw [hf] at h; cases h
  | outOfFuel => rw [hf] at h; cases h

/-! ## (l) orbit completeness: the returned union–find is EXACTLY the orbit partition of the automorphism group

Second coverage invariant (`Lemmas/CanonFOrbDef.lean`): `ACov lF certF R ν` — every leaf of the unpruned tree below `ν` whose
certificate is that of the first leaf is position-wise `R`-related to the first leaf (`R` = same class of
`firstLeafOrbits`) — carried through the same transitions as `Complete`, with the SAME ghost data as the DFS invariant
(`EN`/`EA`/`ES`/`EM` = D-layer ⊕ A-layer): a leaf with another certificate is covered vacuously; at a leaf equal to the
first / best leaf the orbit loop merges position-wise; the "worse" test also compares with `firstLeaf`, so a pruned
subtree has no leaf with the first certificate; Heuristic-2 skips and back-jumps transfer coverage along automorphisms
whose vertex–image pairs have all been merged. -/

/-- `orbit_state_inv`: D-layer ⊕ A-layer is preserved by all transitions of the main loop -/
theorem orbit_state_inv {n m : Nat} {nb : Nbrs} {rf : Nat} {r : IR.St} (hnb : NbOK nb n) (hsz : nb.size = n)
    (hm : m = ((nb.toList.map List.length).sum) / 2) (hrf : 3 * n + 3 ≤ rf)
    (hA : IR.InvA (irG n nb) r) (hD : IR.InvD (irG n nb) r)
    (hlenm : ∀ o : List Nat, o.Perm (List.range n) → (certPos nb o n).length = m) :
    MainJX n m nb (CertA n m nb) (CertN n m nb) (CertN n m nb) (CertM n m nb)
      (EA n nb rf r) (EN n nb rf r) (ES n nb rf r) (EM n nb rf r) :=
  orbMainJX hnb hsz hm hrf hA hD hlenm

/-- the tree-level end of the argument: if the root is covered, every automorphism that preserves the colouring of the
root relates every vertex to its image -/
theorem orbit_cover_root {n : Nat} {nb : Nbrs} {rf : Nat} {r : IR.St} (hnb : NbOK nb n) {R : Nat → Nat → Prop}
    {vsF oF : List Nat}
    (hp : IR.IsPath (irG n nb) rf r vsF) (ht : IR.target (irG n nb) (IR.nodeAt (irG n nb) rf r vsF) = none)
    (hc : (IR.nodeAt (irG n nb) rf r vsF).c = IR.tab n (fun v => oF.idxOf v)) (hoF : oF.Perm (List.range n))
    (h : ACov n nb rf (IR.tab n (fun v => oF.idxOf v)) (certPos nb oF n) R r)
    {γ : List Nat} (hγ : IsAutL nb n γ) (hcol : ∀ v, v < n → IR.col r.c (γ.getD v 0) = IR.col r.c v) :
    ∀ u, u < n → R u (γ.getD u 0) :=
  acov_root_aut hnb hp ht hc hoF h hγ hcol

/-- `canonF_orbits_complete`: whenever `CanonicalIsomorphFull(g, classes)` returns (any fuel; general search and `m == 0`
shortcut), every automorphism of `g` that maps each vertex class to itself maps every vertex into its own class of the
returned union–find `firstLeafOrbits`: the orbit partition is not finer than the true orbits. -/
theorem canonF_orbits_complete (fuel : Nat) (g : G) (hg : g.WF) (vc : Classes) (hvc : ClassesOK g.n vc) (hn : g.n ≠ 0)
    (r : Res) (h : canonicalIsomorphFull fuel g vc = .ok r) :
    ∃ op0 ds, newOrderedPartition g.n (((nbrsOf g).toList.map List.length).sum / 2) vc = .ok (some op0) ∧
      r.orbits = some ds ∧ ∀ γ, IsAutL (nbrsOf g) g.n γ →
        (∀ v, v < g.n → cellOf op0 (γ.getD v 0) = cellOf op0 v) →
        ∀ u, u < g.n → Disjoint.rep ds.toArray u = Disjoint.rep ds.toArray (γ.getD u 0) :=
  canonF_orbits_complete_all fuel g hg vc hvc hn r h

/-- `canonF_orbits_exact` (first clause of C02 for the code's model): without vertex classes two vertices have the same
representative in the returned union–find IF AND ONLY IF they lie in the same orbit of `Aut(g)`
(`canonF_orbits_sound` ⊕ `canonF_orbits_complete`). -/
theorem canonF_orbits_exact (fuel : Nat) (g : G) (hg : g.WF) (hn : g.n ≠ 0)
    (r : Res) (h : canonicalIsomorphFull fuel g none = .ok r) :
    ∃ ds, r.orbits = some ds ∧ ds.length = g.n ∧ ∀ a b, a < g.n → b < g.n →
      (Disjoint.rep ds.toArray a = Disjoint.rep ds.toArray b ↔ SameOrbit g a b) :=
  canonF_orbits_exact_full fuel g hg hn r h

/-! ## (m) the returned generators generate the automorphism group

`GenBy S n γ` (`Lemmas/CanonFGenDef.lean`): the permutation `γ` of `0..n-1` (as a list) is a product of elements of `S` and
their inverses (`compL n α β` = `α ∘ β`, `invL n α`). The Go code records an automorphism found at a leaf equal to the
first / best leaf only if it merged two classes of `firstLeafOrbits`; nevertheless the recorded ones generate every
automorphism (stabiliser chain along the first-leaf path, third invariant layer `FN`/`FA`/`FS`/`FM` = D ⊕ A ⊕ G with the
same ghost data): when the frame of level `L` on the first-leaf path is popped, every automorphism fixing the first `L`
vertices of that path is generated (`AutGen`), by `stabiliser_chain_step` from level `L + 1`. -/

/-- `generator_state_inv`: D-, A- and G-layer are preserved by all transitions of the main loop -/
theorem generator_state_inv {n m : Nat} {nb : Nbrs} {rf : Nat} {r : IR.St} (hnb : NbOK nb n) (hsz : nb.size = n)
    (hm : m = ((nb.toList.map List.length).sum) / 2) (hrf : 3 * n + 3 ≤ rf)
    (hA : IR.InvA (irG n nb) r) (hD : IR.InvD (irG n nb) r)
    (hlenm : ∀ o : List Nat, o.Perm (List.range n) → (certPos nb o n).length = m) :
    MainJX n m nb (CertA n m nb) (CertN n m nb) (CertN n m nb) (CertM n m nb)
      (FA n nb rf r) (FN n nb rf r) (FS n nb rf r) (FM n nb rf r) :=
  genMainJX hnb hsz hm hrf hA hD hlenm

/-- `stabiliser_chain_step`: at a covered node `nodeL vsF L` of the first-leaf path whose colouring is preserved by all
recorded generators, generation of the stabiliser of level `L + 1` gives generation of the stabiliser of level `L` -/
theorem stabiliser_chain_step {n m : Nat} {nb : Nbrs} {rf : Nat} {r : IR.St} (hnb : NbOK nb n)
    (hA : IR.InvA (irG n nb) r) (hD : IR.InvD (irG n nb) r) {gh : Gh} {s : LS} {L : Nat}
    (hF : LeafRec n nb rf r gh.vsF gh.oF s.firstLeaf.toList s.flPermInv s.flPath.toList) (hL : L < gh.vsF.length)
    (hpos : 0 < s.count) (hg : GInv n m nb s) (hGA : GlobalA n gh s)
    (he1 : ∀ k, k < s.ngens → ∀ γ, s.gens[k]? = some γ → ∀ u, u < n →
      IR.col (nodeL n nb rf r gh.vsF L).c (γ.toList.getD u 0) = IR.col (nodeL n nb rf r gh.vsF L).c u)
    (hcov : ACov n nb rf (lFof n gh) s.firstLeaf.toList (ORel s) (nodeL n nb rf r gh.vsF L))
    (hnext : AutGen n nb r gh s (L + 1)) : AutGen n nb r gh s L :=
  autgen_step hnb hA hD hF hL hpos hg hGA he1 hcov hnext

/-- `canonF_generators_generate_classes`: whenever `CanonicalIsomorphFull(g, classes)` returns (any fuel; general search and
`m == 0` shortcut), every automorphism of `g` that maps each vertex class to itself is a product of the RETURNED
generators and their inverses. -/
theorem canonF_generators_generate_classes (fuel : Nat) (g : G) (hg : g.WF) (vc : Classes) (hvc : ClassesOK g.n vc)
    (hn : g.n ≠ 0) (r : Res) (h : canonicalIsomorphFull fuel g vc = .ok r) :
    ∃ op0 gs, newOrderedPartition g.n (((nbrsOf g).toList.map List.length).sum / 2) vc = .ok (some op0) ∧
      r.gens = some gs ∧ ∀ γ, IsAutL (nbrsOf g) g.n γ →
        (∀ v, v < g.n → cellOf op0 (γ.getD v 0) = cellOf op0 v) → GenBy (fun x => x ∈ gs) g.n γ :=
  canonF_generators_generate_all fuel g hg vc hvc hn r h

/-- `canonF_generators_generate` (second clause of C02 for the code's model): without vertex classes every automorphism of
`g` is a product of the returned generators and their inverses; with `canonF_generators_sound` the returned generators
generate exactly `Aut(g)`. -/
theorem canonF_generators_generate (fuel : Nat) (g : G) (hg : g.WF) (hn : g.n ≠ 0)
    (r : Res) (h : canonicalIsomorphFull fuel g none = .ok r) :
    ∃ gs, r.gens = some gs ∧ ∀ γ, IsAutG g γ → GenBy (fun x => x ∈ gs) g.n γ :=
  canonF_generators_generate_full fuel g hg hn r h

/-- conversely everything generated by automorphisms is an automorphism (closure of `IsAutL` under `compL`, `invL`) -/
theorem generated_is_automorphism {S : List Nat → Prop} {nb : Nbrs} {n : Nat} (hS : ∀ γ, S γ → IsAutL nb n γ)
    {γ : List Nat} (hγ : GenBy S n γ) : IsAutL nb n γ :=
  hγ.isAut hS

/-! ## (n) the canonical form in terms of the specification's isomorphism, and with vertex classes -/

/-- `canonF_canon_complete_spec` (property C01 for the code's model): the graphs relabelled with the returned slices are EQUAL
if and only if the input graphs are isomorphic (`GSearch.Iso`: a bijection of the vertices preserving adjacency). -/
theorem canonF_canon_complete_spec (fuel fuel' : Nat) (g g' : G) (hg : g.WF) (hg' : g'.WF) (hn : g.n ≠ 0) (hn' : g'.n ≠ 0)
    (r r' : Res) (h : canonicalIsomorphFull fuel g none = .ok r) (h' : canonicalIsomorphFull fuel' g' none = .ok r') :
    ∃ p p', r.perm = some p ∧ r'.perm = some p' ∧ (g.induced p = g'.induced p' ↔ GSearch.Iso g g') :=
  CanonF.canonF_canon_complete_spec fuel fuel' g g' hg hg' hn hn' r r' h h'

/-- the two notions of isomorphism agree -/
theorem iso_spec_iff {g g' : G} (hg : g.WF) (hg' : g'.WF) : IR.Iso (IR.ofSpec g) (IR.ofSpec g') ↔ GSearch.Iso g g' :=
  ofSpec_iso_iff hg hg'

/-- `canonF_canon_invariant_classes`: with vertex classes — if `g'` is a relabelled copy of `g` (`σ`) and the `k`-th class of
`g'` contains the `σ`-images of the `k`-th class of `g`, the canonical certificates agree and the relabelled graphs are
EQUAL. -/
theorem canonF_canon_invariant_classes (fuel fuel' : Nat) (g g' : G) (hg : g.WF) (hg' : g'.WF) (hn : g.n ≠ 0)
    {σ τ : Nat → Nat} (R : IR.Relabel (IR.ofSpec g) (IR.ofSpec g') σ τ) (cls cls' : List (List Nat))
    (hvc : ClassesOK g.n (some cls)) (hvc' : ClassesOK g'.n (some cls')) (hlen : cls'.length = cls.length)
    (hcls : ∀ (k : Nat) (c c' : List Nat), cls[k]? = some c → cls'[k]? = some c' → ∀ v, v ∈ c → σ v ∈ c')
    (r r' : Res) (h : canonicalIsomorphFull fuel g (some cls) = .ok r)
    (h' : canonicalIsomorphFull fuel' g' (some cls') = .ok r') :
    ∃ p p', r.perm = some p ∧ r'.perm = some p' ∧ p.Perm (List.range g.n) ∧ p'.Perm (List.range g'.n) ∧
      certPos (nbrsOf g') p' g'.n = certPos (nbrsOf g) p g.n ∧ g.induced p = g'.induced p' :=
  canonF_canon_invariant_classes_full fuel fuel' g g' hg hg' hn R cls cls' hvc hvc' hlen hcls r r' h h'

/-! ## (o) TOTALITY: the run returns — no panic, explicit fuel bound; the unconditional forms of the main results

`fuelBound n = slots n 0 + 1` with `slots n d = n * (1 + slots n (d+1))` for `d < n` (`Lemmas/CanonFTotalDef.lean`): an upper
bound for the number of `splitBin` calls (child slots) in a search tree whose nodes have at most `n` children and depth at
most `n`. No panic: every slice index is in range and every capacity of `NewStorage(n, m)` /
`NewOrderedPartition(n, m, …)` suffices (`CapInv`; in particular `generators = generators[:len+1]` stays within its
capacity `n - 1` because a generator is recorded only when it merges two classes: `ngens + #classes ≤ n`); the re-slicing of
`currentBest` / `firstLeaf` in the "worse" test is within capacity by the certificate invariant (`len(value) ≤ m`). No fuel
exhaustion: every iteration of the main loop that does not end the search decreases `mainPot` (child slots still to be
processed) by at least one. -/

/-- `mainLoop_total`: the main loop returns within `mainPot + 1` iterations, for every invariant that is carried (`MainJ`)
and provides the progress obligations `MainT` -/
theorem mainLoop_total {n m : Nat} {nb : Nbrs} {JA JN JS : List (Nat × Nat) → LS → Prop}
    {JM : List (Nat × Nat) → Bool → LS → Prop} (hJ : MainJ n m nb JA JN JS JM) (hT : MainT n m nb JA JN JS JM)
    (fuel : Nat) (worse : Bool) (s : LS) (lv : List (Nat × Nat)) (hI : MInv n m nb s) (hw : s.count = 0 → worse = false)
    (hlv : LevelsOK s.op s.path s.choices lv) (hM : JM lv worse s) (hf : mainPot n worse s < fuel) :
    ∃ s', mainLoop nb n m fuel worse s = .ok s' :=
  mainLoopT stablePerm hJ hT fuel worse s lv hI hw hlv hM hf

/-- `canonF_total`: for every well-formed graph and every valid list of vertex classes `CanonicalIsomorphFull` returns: it does
not panic and the explicit fuel `fuelBound g.n` suffices. -/
theorem canonF_total (g : G) (hg : g.WF) (vc : Classes) (hvc : ClassesOK g.n vc) :
    ∃ r, canonicalIsomorphFull (fuelBound g.n) g vc = .ok r :=
  canonF_total_full g hg vc hvc

/-- `canonF_perm_total`: … and the result is a permutation of `0..n-1` -/
theorem canonF_perm_total (g : G) (hg : g.WF) (vc : Classes) (hvc : ClassesOK g.n vc) :
    ∃ r p, canonicalIsomorphFull (fuelBound g.n) g vc = .ok r ∧ r.perm = some p ∧ p.Perm (List.range g.n) := by
  obtain ⟨r, h⟩ := canonF_total g hg vc hvc
  obtain ⟨p, hp, hperm⟩ := canonF_perm (fuelBound g.n) g vc hvc r h
  exact ⟨r, p, h, hp, hperm⟩

/-- `canonF_canon_complete_total` (C01, unconditional): the two runs return, and the relabelled graphs are equal iff the
graphs are isomorphic -/
theorem canonF_canon_complete_total (g g' : G) (hg : g.WF) (hg' : g'.WF) (hn : g.n ≠ 0) (hn' : g'.n ≠ 0) :
    ∃ r r' p p', canonicalIsomorphFull (fuelBound g.n) g none = .ok r ∧
      canonicalIsomorphFull (fuelBound g'.n) g' none = .ok r' ∧ r.perm = some p ∧ r'.perm = some p' ∧
      (g.induced p = g'.induced p' ↔ GSearch.Iso g g') := by
  obtain ⟨r, h⟩ := canonF_total g hg none trivial
  obtain ⟨r', h'⟩ := canonF_total g' hg' none trivial
  obtain ⟨p, p', hp, hp', hiff⟩ := canonF_canon_complete_spec _ _ g g' hg hg' hn hn' r r' h h'
  exact ⟨r, r', p, p', h, h', hp, hp', hiff⟩

/-- `canonF_canon_invariant_total`: a relabelled copy gets the same canonically relabelled graph -/
theorem canonF_canon_invariant_total (g g' : G) (hg : g.WF) (hg' : g'.WF) (hn : g.n ≠ 0) (hiso : GSearch.Iso g g') :
    ∃ r r' p p', canonicalIsomorphFull (fuelBound g.n) g none = .ok r ∧
      canonicalIsomorphFull (fuelBound g'.n) g' none = .ok r' ∧ r.perm = some p ∧ r'.perm = some p' ∧
      g.induced p = g'.induced p' := by
  have hn' : g'.n ≠ 0 := by rw [← hiso.1]; exact hn
  obtain ⟨r, r', p, p', h, h', hp, hp', hiff⟩ := canonF_canon_complete_total g g' hg hg' hn hn'
  exact ⟨r, r', p, p', h, h', hp, hp', hiff.2 hiso⟩

/-- `canonF_orbits_exact_total` (C02, first clause, unconditional) -/
theorem canonF_orbits_exact_total (g : G) (hg : g.WF) (hn : g.n ≠ 0) :
    ∃ r ds, canonicalIsomorphFull (fuelBound g.n) g none = .ok r ∧ r.orbits = some ds ∧ ds.length = g.n ∧
      ∀ a b, a < g.n → b < g.n → (Disjoint.rep ds.toArray a = Disjoint.rep ds.toArray b ↔ SameOrbit g a b) := by
  obtain ⟨r, h⟩ := canonF_total g hg none trivial
  obtain ⟨ds, h1, h2, h3⟩ := canonF_orbits_exact _ g hg hn r h
  exact ⟨r, ds, h, h1, h2, h3⟩

/-- `canonF_generators_generate_total` (C02, second clause, unconditional): the returned generators are automorphisms and
generate every automorphism -/
theorem canonF_generators_generate_total (g : G) (hg : g.WF) (hn : g.n ≠ 0) :
    ∃ r gs, canonicalIsomorphFull (fuelBound g.n) g none = .ok r ∧ r.gens = some gs ∧
      (∀ γ ∈ gs, IsAutG g γ) ∧ ∀ γ, IsAutG g γ → GenBy (fun x => x ∈ gs) g.n γ := by
  obtain ⟨r, h⟩ := canonF_total g hg none trivial
  obtain ⟨gs, h1, h2⟩ := canonF_generators_generate _ g hg hn r h
  exact ⟨r, gs, h, h1, canonF_generators_sound _ g hg none trivial r h gs h1, h2⟩

/-! ## (p) storage reuse (third clause of C02), semantic form

`CanonicalIsomorphAllocated` called with a partition that has been `Reset` (arbitrary previous contents, sufficient capacity)
and ANY storage of sufficient capacity (`StorageOK n m st`: arbitrary previous contents): the call returns, and its result
describes the same canonical graph as the fresh call, the exact orbit partition and generators of the whole (class-
preserving) automorphism group. What is NOT proved is that the returned slices are identical to those of the fresh call
(`reuse_eq_fresh` proper: a relational proof through the whole model; decided by the `histf` correspondence stream). -/

/-- `reuse_semantic` -/
theorem reuse_semantic (g : G) (hg : g.WF) (vc : Classes) (hvc : ClassesOK g.n vc) (hn : g.n ≠ 0) (op : OP)
    (c1 : g.n ≤ op.order.data.size) (c2 : g.n ≤ op.inCell.data.size) (c3 : g.n ≤ op.binDividers.data.size)
    (c4 : g.n ≤ op.binAges.data.size) (c5 : g.n ≤ op.binsToCheck.data.size)
    (c6 : ((nbrsOf g).toList.map List.length).sum / 2 ≤ op.value.data.size) (st : Storage)
    (hS : StorageOK g.n (((nbrsOf g).toList.map List.length).sum / 2) st) :
    ∃ opN opR r opR' stR r0 p p0 ds gs,
      newOrderedPartition g.n (((nbrsOf g).toList.map List.length).sum / 2) vc = .ok (some opN) ∧
      reset op g.n (((nbrsOf g).toList.map List.length).sum / 2) vc = .ok opR ∧
      canonicalIsomorphAllocated (fuelBound g.n) g.n (((nbrsOf g).toList.map List.length).sum / 2) (nbrsOf g) (some opR) st {}
        = .ok (r, opR', stR) ∧
      canonicalIsomorphFull (fuelBound g.n) g vc = .ok r0 ∧ r0.perm = some p0 ∧
      r.perm = some p ∧ r.orbits = some ds ∧ r.gens = some gs ∧ p.Perm (List.range g.n) ∧ ds.length = g.n ∧
      certPos (nbrsOf g) p g.n = certPos (nbrsOf g) p0 g.n ∧ g.induced p = g.induced p0 ∧
      (∀ γ ∈ gs, IsAutL (nbrsOf g) g.n γ) ∧
      (∀ a b, a < g.n → b < g.n → Disjoint.rep ds.toArray a = Disjoint.rep ds.toArray b →
        Relation.EqvGen (fun x y => ∃ γ ∈ gs, γ[x]? = some y) a b) ∧
      (∀ γ, IsAutL (nbrsOf g) g.n γ → (∀ v, v < g.n → cellOf opN (γ.getD v 0) = cellOf opN v) →
        (∀ u, u < g.n → Disjoint.rep ds.toArray u = Disjoint.rep ds.toArray (γ.getD u 0)) ∧
        GenBy (fun x => x ∈ gs) g.n γ) :=
  reuse_semantic_full g hg vc hvc hn op c1 c2 c3 c4 c5 c6 st hS

/-- fresh storage has sufficient capacity -/
theorem newStorage_capacity (n m : Nat) : StorageOK n m (newStorage n m) := newStorage_ok n m

/-- `allocated_total_any_storage`: the general search returns on every storage of sufficient capacity -/
theorem allocated_total_any_storage {fuel n m : Nat} {nb : Nbrs}
    {JA JN JS : List (Nat × Nat) → LS → Prop} {JM : List (Nat × Nat) → Bool → LS → Prop} (hJ : MainJ n m nb JA JN JS JM)
    (hT : MainT n m nb JA JN JS JM) {op0 : OP} {st : Storage}
    (hn : n ≠ 0) (hgen : m = 0 → op0.binDividers.len ≠ 1)
    (hp : PartInv n op0) (ha : AgeInv op0) (hage : op0.age = 0) (hspl : op0.spl = 0) (hval : op0.value.len = 0)
    (hvw : op0.value.WF) (hb0 : BtcInv op0)
    (cBd : n ≤ op0.binDividers.data.size) (cAges : n ≤ op0.binAges.data.size) (cBtc : n ≤ op0.binsToCheck.data.size)
    (hnbs : nb.size = n) (hnbr : ∀ (u : Nat) (l : List Nat), nb[u]? = some l → ∀ v ∈ l, v < n)
    (hS : StorageOK n m st)
    (hinit : ∀ s0, InitSt n m nb {} op0 s0 → CapInv n m s0 → JM [] false s0)
    (hfuel : slots n 0 < fuel) :
    ∃ x, canonicalIsomorphAllocated fuel n m nb (some op0) st {} = .ok x :=
  allocated_total stablePerm expandValue_cert hJ hT hn hgen hp ha hage hspl hval hvw hb0 cBd cAges cBtc hnbs hnbr hS hinit
    hfuel

/-- `reuse_keeps_capacity`: a run never shrinks the backing arrays of the storage and of the partition, so a storage /
partition pair allocated for `(N, M)` stays usable (`StorageOK N M`) along every history of calls — general search -/
theorem reuse_keeps_capacity {fuel n m : Nat} {nb : Nbrs} {op0 : OP} {st : Storage} {r : Res} {opR : Option OP}
    {stR : Storage} (hn : n ≠ 0) (hgen : m = 0 → op0.binDividers.len ≠ 1) (hp : PartInv n op0) (ha : AgeInv op0)
    (hage : op0.age = 0) (h : canonicalIsomorphAllocated fuel n m nb (some op0) st {} = .ok (r, opR, stR)) (N M : Nat)
    (hS : StorageOK N M st)
    (c3 : N ≤ op0.binDividers.data.size) (c4 : N ≤ op0.binAges.data.size) (c5 : N ≤ op0.binsToCheck.data.size)
    (c1 : N ≤ op0.order.data.size) (c2 : N ≤ op0.inCell.data.size) (c6 : M ≤ op0.value.data.size) :
    StorageOK N M stR ∧ ∃ op', opR = some op' ∧ N ≤ op'.order.data.size ∧ N ≤ op'.inCell.data.size ∧
      N ≤ op'.binDividers.data.size ∧ N ≤ op'.binAges.data.size ∧ N ≤ op'.binsToCheck.data.size ∧
      M ≤ op'.value.data.size :=
  allocated_keeps_caps hn hgen hp ha hage h N M hS c3 c4 c5 c1 c2 c6

/-- … and the `m == 0` shortcut (the partition is returned untouched) -/
theorem reuse_keeps_capacity_shortcut {fuel n m : Nat} {nb : Nbrs} {op0 : OP} {st : Storage} {r : Res} {opR : Option OP}
    {stR : Storage} (hn : n ≠ 0) (hm : m = 0) (hb : op0.binDividers.len = 1)
    (h : canonicalIsomorphAllocated fuel n m nb (some op0) st {} = .ok (r, opR, stR)) (N M : Nat)
    (hS : StorageOK N M st) : StorageOK N M stR ∧ opR = some op0 :=
  allocated_keeps_caps_short hn hm hb h N M hS

end C01F
