import Mamba.Lemmas.DenseVertex
import Mamba.Lemmas.DenseRemove
import Mamba.Lemmas.DenseInduced
import Mamba.Lemmas.SparseRemove
import Mamba.Lemmas.SparseInduced
import Mamba.Lemmas.History
/-!
# Property C05 — editable graphs behave as an abstract simple graph under every edit history

`Dense` / `Sparse` (`Model/GraphRep.lean`) are the statement-by-statement models of `graph_dense.go` /
`graph_sparse.go` that the driver `mdrv` runs against the real code (`Dense.step`, `Sparse.step`, the observers
`isEdge`, `neighbours`, `degrees`, `M`, `N`). `GraphSpec.G` with `stepG` (`Spec/GraphOps.lean`) is the plain
adjacency-set model. `Dense.abs` / `Sparse.abs` are the abstraction functions, `Dense.WF` / `Sparse.WF` the
representation invariants (sizes, `m = #edges`, `deg = row sums`; sparse lists strictly increasing, in range,
symmetric, loop-free). `Op.valid` is "valid arguments": vertices in range, `AddVertex` / `InducedSubgraph` lists
without repeats in any order; any vertex may be removed; repeated `AddEdge`, absent `RemoveEdge`, `i = j` allowed.

All theorems are for arbitrary well-formed values and arbitrary (unbounded) histories. No loop of the models
needs fuel. Not expressible here (value semantics): that `Copy` / `InducedSubgraph` results share no *storage*
with their source — this is checked by the aliasing probes of `harness/c05.go`.
-/
namespace GraphRep
open GraphSpec

/-! ## DenseGraph: observers -/

/-- whatever the bytes, the graph read off a `DenseGraph` is loop-free, symmetric and supported on `0..n-1` -/
theorem dense_abs_simple (x : Dense) : x.abs.WF := x.abs_wf

/-- `IsEdge` never panics on a well-formed value (any arguments, also out of range) and is the adjacency of `abs` -/
theorem dense_isEdge_abs {x : Dense} (h : x.WF) (i j : Nat) : x.isEdge i j = .ok (x.abs.adj i j) :=
  Dense.isEdge_eq h.edges_size i j

/-- `Neighbours(v)` does not panic and is the neighbour list of `abs`, ... -/
theorem dense_neighbours_abs {x : Dense} (h : x.WF) {v : Nat} (hv : v < x.n) :
    x.neighbours v = .ok (x.abs.nbrs v) :=
  Dense.neighbours_eq h hv

/-- ... which is ascending and lists exactly the adjacent vertices -/
theorem neighbours_ascending {g : G} (h : g.WF) (v : Nat) :
    (g.nbrs v).Pairwise (· < ·) ∧ ∀ u, u ∈ g.nbrs v ↔ g.adj v u = true :=
  ⟨nbrs_pairwise g v, mem_nbrs h v⟩

theorem dense_degrees_abs {x : Dense} (h : x.WF) : x.degrees = x.abs.degrees.map Int.ofNat :=
  Dense.degrees_eq h

theorem dense_m_abs {x : Dense} (h : x.WF) : x.M = (x.abs.m : Int) := h.m_eq

theorem dense_n_abs (x : Dense) : x.N = x.abs.n := rfl

example : ∃ x : Dense, x.WF ∧ 2 < x.n := ⟨Dense.new 3, Dense.new_wf 3, by decide⟩

/-! ## SparseGraph: observers -/

/-- on a well-formed `SparseGraph` the graph read off the lists is a simple graph -/
theorem sparse_abs_simple {x : Sparse} (h : x.WF) : x.abs.WF := Sparse.abs_wf h

/-- `IsEdge` (which searches the list of the vertex of larger cached degree) is the adjacency of `abs` -/
theorem sparse_isEdge_abs {x : Sparse} (h : x.WF) {i j : Nat} (hi : i < x.n) (hj : j < x.n) :
    x.isEdge i j = .ok (x.abs.adj i j) := Sparse.isEdge_eq h hi hj

/-- `Neighbours(v)` is the (ascending, see `neighbours_ascending`) neighbour list of `abs` -/
theorem sparse_neighbours_abs {x : Sparse} (h : x.WF) {v : Nat} (hv : v < x.n) :
    x.neighbours v = .ok ((x.abs.nbrs v).map Int.ofNat) := Sparse.neighbours_eq h hv

theorem sparse_degrees_abs {x : Sparse} (h : x.WF) : x.degrees = x.abs.degrees.map Int.ofNat :=
  Sparse.degrees_eq h

theorem sparse_m_abs {x : Sparse} (h : x.WF) : x.M = (x.abs.m : Int) := h.m_eq

theorem sparse_n_abs (x : Sparse) : x.N = x.abs.n := rfl

example : ∃ x : Sparse, x.WF ∧ 2 < x.n := ⟨Sparse.new 3, Sparse.new_wf 3, by decide⟩

/-! ## every operation refines the abstract one: no panic, invariant kept, `abs (op x) = specOp (abs x)` -/

theorem dense_step_refines {x : Dense} {o : Op} (h : x.WF) (hv : o.valid x.abs.n) :
    ∃ y, x.step o = .ok y ∧ y.WF ∧ y.abs = stepG x.abs o := by
  cases o with
  | av S => exact Dense.addVertex_spec h hv.1 hv.2
  | rv v => exact Dense.removeVertex_spec h hv
  | ae i j => exact Dense.addEdge_spec h hv.1 hv.2
  | re i j => exact Dense.removeEdge_spec h hv.1 hv.2
  | cp => exact ⟨x, rfl, h, rfl⟩
  | is V => exact Dense.inducedSubgraph_spec h.edges_size V

theorem sparse_step_refines {x : Sparse} {o : Op} (h : x.WF) (hv : o.valid x.abs.n) :
    ∃ y, x.step o = .ok y ∧ y.WF ∧ y.abs = stepG x.abs o := by
  cases o with
  | av S => exact Sparse.addVertex_spec h hv.1 hv.2
  | rv v => exact Sparse.removeVertex_spec h hv
  | ae i j => exact Sparse.addEdge_spec h hv.1 hv.2
  | re i j => exact Sparse.removeEdge_spec h hv.1 hv.2
  | cp => exact ⟨x, rfl, h, rfl⟩
  | is V => exact Sparse.inducedSubgraph_spec h hv.1 hv.2

/-- the abstract operations keep the graph simple -/
theorem spec_step_simple {g : G} (h : g.WF) {o : Op} (hv : o.valid g.n) : (stepG g o).WF := stepG_wf h hv

example : (Op.av [2, 0]).valid (Dense.new 3).abs.n ∧ (Op.is [2, 0, 1]).valid (Dense.new 3).abs.n ∧
    (Op.rv 1).valid (Dense.new 3).abs.n := by
  simp [Op.valid, Dense.abs, Dense.new]

/-! ## every history -/

/-- every valid history on a `DenseGraph` runs without panic, ends in a well-formed value, and its abstraction is
the history applied to the abstract graph (so by the `dense_*_abs` theorems all observers agree with the plain
model after every prefix) -/
theorem dense_refines_spec (ops : List Op) {x : Dense} (h : x.WF) (hv : validSeq x.abs ops) :
    ∃ y, runM Dense.step ops x = .ok y ∧ y.WF ∧ y.abs = runG x.abs ops :=
  refines_run Dense.WF Dense.abs Dense.step (fun _ => True)
    (fun _ _ hx _ hv => dense_step_refines hx hv) ops x h (fun _ _ => True.intro) hv

theorem sparse_refines_spec (ops : List Op) {x : Sparse} (h : x.WF) (hv : validSeq x.abs ops) :
    ∃ y, runM Sparse.step ops x = .ok y ∧ y.WF ∧ y.abs = runG x.abs ops :=
  refines_run Sparse.WF Sparse.abs Sparse.step (fun _ => True)
    (fun _ _ hx _ hv => sparse_step_refines hx hv) ops x h (fun _ _ => True.intro) hv

/-- the two representations, started on the same graph and driven by the same valid history, never panic and
still represent the same graph -/
theorem dense_sparse_agree (ops : List Op) {xd : Dense} {xs : Sparse} (hd : xd.WF) (hs : xs.WF)
    (he : xd.abs = xs.abs) (hv : validSeq xd.abs ops) :
    ∃ yd ys, runM Dense.step ops xd = .ok yd ∧ runM Sparse.step ops xs = .ok ys ∧ yd.WF ∧ ys.WF ∧
      yd.abs = ys.abs := by
  obtain ⟨yd, h1, h2, h3⟩ := dense_refines_spec ops hd hv
  obtain ⟨ys, h4, h5, h6⟩ := sparse_refines_spec ops hs (he ▸ hv)
  exact ⟨yd, ys, h1, h4, h2, h5, by rw [h3, h6, he]⟩

/-- ... hence all their observers print the same -/
theorem observers_agree {yd : Dense} {ys : Sparse} (hd : yd.WF) (hs : ys.WF) (he : yd.abs = ys.abs) :
    yd.N = ys.N ∧ yd.M = ys.M ∧ yd.degrees = ys.degrees ∧
    (∀ i j, i < ys.n → j < ys.n → yd.isEdge i j = ys.isEdge i j) ∧
    (∀ v, v < ys.n → ∃ l, yd.neighbours v = .ok l ∧ ys.neighbours v = .ok (l.map Int.ofNat)) := by
  have hn : yd.n = ys.n := congrArg G.n he
  refine ⟨hn, by rw [dense_m_abs hd, sparse_m_abs hs, he], by rw [dense_degrees_abs hd, sparse_degrees_abs hs, he],
    ?_, ?_⟩
  · intro i j hi hj; rw [dense_isEdge_abs hd, sparse_isEdge_abs hs hi hj, he]
  · intro v hv
    exact ⟨yd.abs.nbrs v, dense_neighbours_abs hd (by omega), by rw [sparse_neighbours_abs hs hv, he]⟩

/-- the start state of the driver (`new n` followed by one `AddEdge` per edge) is well-formed in both
representations and represents the same graph -/
theorem driver_start (n : Nat) (es : List (Nat × Nat)) (hes : ∀ e ∈ es, e.1 < n ∧ e.2 < n) :
    ∃ d s, runM Dense.step (es.map fun e => Op.ae e.1 e.2) (Dense.new n) = .ok d ∧
      runM Sparse.step (es.map fun e => Op.ae e.1 e.2) (Sparse.new n) = .ok s ∧ d.WF ∧ s.WF ∧ d.abs = s.abs :=
  dense_sparse_agree _ (Dense.new_wf n) (Sparse.new_wf n) (new_abs_eq n) (validSeq_ae es _ hes)

example : validSeq (Dense.new 2).abs [.ae 0 1, .av [1, 0], .rv 0, .re 0 1, .cp, .is [1, 0]] := by
  simp [validSeq, Op.valid, stepG, addEdgeG, addVertexG, removeVertexG, removeEdgeG, Dense.abs, Dense.new]

/-! ## `InducedSubgraph(V)` maps vertex `i` of the result to `V[i]` -/

/-- dense: for every `V` (even with repeats) the result has `len(V)` vertices and `IsEdge(i, j)` of the result is
`IsEdge(V[i], V[j])` of the source -/
theorem dense_induced_maps {x : Dense} (h : x.WF) (V : List Nat) :
    ∃ y, x.inducedSubgraph V = .ok y ∧ y.WF ∧ y.n = V.length ∧
      ∀ i j, i < V.length → j < V.length → y.isEdge i j = x.isEdge (V.getD i 0) (V.getD j 0) := by
  obtain ⟨y, h1, h2, h3⟩ := Dense.inducedSubgraph_spec h.edges_size V
  refine ⟨y, h1, h2, congrArg G.n h3, ?_⟩
  intro i j hi hj
  rw [dense_isEdge_abs h2, dense_isEdge_abs h, h3, induced_adj _ V hi hj]

/-- sparse: the same for duplicate-free in-range `V` -/
theorem sparse_induced_maps {x : Sparse} (h : x.WF) {V : List Nat} (hn : V.Nodup) (hV : ∀ s ∈ V, s < x.n) :
    ∃ y, x.inducedSubgraph V = .ok y ∧ y.WF ∧ y.n = V.length ∧
      ∀ i j, i < V.length → j < V.length → y.isEdge i j = x.isEdge (V.getD i 0) (V.getD j 0) := by
  obtain ⟨y, h1, h2, h3⟩ := Sparse.inducedSubgraph_spec h hn hV
  have hyn : y.n = V.length := congrArg G.n h3
  refine ⟨y, h1, h2, hyn, ?_⟩
  intro i j hi hj
  have hmem : ∀ k, k < V.length → V.getD k 0 < x.n := by
    intro k hk
    apply hV
    rw [List.getD_eq_getElem?_getD, List.getElem?_eq_getElem hk]; exact List.getElem_mem hk
  rw [sparse_isEdge_abs h2 (by omega) (by omega), sparse_isEdge_abs h (hmem i hi) (hmem j hj), h3,
    induced_adj _ V hi hj]

example : ∃ (x : Sparse) (V : List Nat), x.WF ∧ V.Nodup ∧ (∀ s ∈ V, s < x.n) ∧ V.length = 2 :=
  ⟨Sparse.new 3, [2, 0], Sparse.new_wf 3, by decide, by decide, rfl⟩

/-! ## facts that justify modelling choices -/

/-- the two branches of `DenseGraph.AddVertex` (enough capacity: re-slice and zero-fill; otherwise: reallocate
and copy) produce the same array, whatever the spare capacity contained -/
theorem dense_addVertex_branches_agree (edges stale : Array Nat) (oldSize n : Nat) (hs : edges.size = oldSize) :
    Dense.growInPlace edges stale oldSize (oldSize + n) = Dense.growRealloc edges (oldSize + n) :=
  Dense.growInPlace_eq_growRealloc edges stale oldSize n hs

/-- the `getD` in the model of `copy` never falls back to its default -/
theorem copyWithin_reads_inbounds {e : Array Nat} {dst src stop k : Nat}
    (hg : ¬ (dst > e.size ∨ src > stop ∨ stop > e.size))
    (hk : dst ≤ k ∧ k < dst + min (e.size - dst) (stop - src)) : src + (k - dst) < e.size :=
  copyWithin_getD_inbounds hg hk

example : ¬ ((0 : Nat) > (#[1, 2, 3] : Array Nat).size ∨ 1 > 3 ∨ 3 > (#[1, 2, 3] : Array Nat).size) := by decide

end GraphRep
