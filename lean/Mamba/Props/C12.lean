import Mamba.Lemmas.DawgMinimal
import Mamba.Lemmas.DawgEnc
import Mamba.Lemmas.DawgTerm2
/-!
# C12 — a built DAWG is an exact, minimal, rank-indexed index of its word set

All statements are about the executable model the driver runs (`Dawg.build`, `Dawg.add`, `Dawg.addAll`, `Dawg.finish`,
`Dawg.lookup`, `Dawg.numberOfWords`, `Dawg.numberOfNodes` in `Mamba/Model/Dawg.lean`, `DawgGob.lean`).

* `accRun [] adds` (Lemmas/DawgBuild.lean) is the specification of a history of `Add`s: an add is accepted iff it is the
  first one or larger than the last accepted word; `.1` = the accepted words, `.2` = the error flags.
* `accepts h p w` / `walk h p x` (Spec/DawgLang.lean): acceptance / the node reached, following the first matching label
  exactly as the code does. `Reach` (Spec/Dawg.lean): reachability along links.
Words are lists of natural numbers (a superset of byte strings), ordered lexicographically (`bytes.Compare`).
-/
namespace Dawg

/-- For EVERY history of adds (in order, out of order, duplicates, nil/empty words — nil and empty are the same list):
`build` never panics, returns the error flags of the specification, and the finished automaton accepts exactly the
accepted words. -/
theorem lang_build_any (adds : List Word) :
    ∃ d, build adds = .ok (some d, (accRun [] adds).2) ∧
      ∀ w, accepts d.heap d.root w ↔ w ∈ (accRun [] adds).1 := by
  obtain ⟨d, h1, hf⟩ := build_spec adds
  exact ⟨d, h1, hf.rep.accepts_iff⟩

/-- For every strictly increasing word list (including `[]` and `[[]]`) no add is rejected and the finished automaton
accepts exactly those words. -/
theorem lang_build (ws : List Word) (hs : ws.Pairwise (· < ·)) :
    ∃ d, build ws = .ok (some d, List.replicate ws.length false) ∧ ∀ w, accepts d.heap d.root w ↔ w ∈ ws := by
  obtain ⟨d, h1, h2⟩ := lang_build_any ws
  rw [accRun_sorted ws [] (by simpa using hs)] at h1 h2
  exact ⟨d, h1, by simpa using h2⟩

example : ([[], [1], [1, 2], [2]] : List Word).Pairwise (· < ·) := by decide  -- non-vacuity of the hypothesis

/-- `NumberOfWords` is the number of accepted words, and the count stored in the node reached by reading any string `x`
is the number of accepted words that start with `x` (= the size of that node's right language). -/
theorem numWords_spec {adds : List Word} {d : Dawg} {es : List Bool} (hb : build adds = .ok (some d, es)) :
    numberOfWords d = .ok (accRun [] adds).1.length ∧
    ∀ x q, walk d.heap d.root x = some q →
      ∃ n, d.heap[q]? = some n ∧ n.numWords = ((accRun [] adds).1.filter (fun w => x.isPrefixOf w)).length := by
  have hf := finished_of_build hb
  refine ⟨?_, ?_⟩
  · obtain ⟨n, hn, hnum⟩ := hf.rep.numWords
    simp [numberOfWords, getNode_of_some hn, hnum]
  · intro x q hw
    obtain ⟨n, hn, hnum⟩ := (hf.rep.walk x q hw).numWords
    exact ⟨n, hn, by rw [hnum, length_subw]⟩

/-- `Lookup` returns `(rank, true)` for the accepted words — rank = position in the increasing list — and `(0, false)`
for every other string. -/
theorem lookup_spec {adds : List Word} {d : Dawg} {es : List Bool} (hb : build adds = .ok (some d, es)) (w : Word) :
    (w ∈ (accRun [] adds).1 → ∃ k : Nat, (accRun [] adds).1[k]? = some w ∧ lookup d w = .ok ((k : Int), true)) ∧
    (w ∉ (accRun [] adds).1 → lookup d w = .ok (0, false)) := by
  have hf := finished_of_build hb
  obtain ⟨n, hn, _⟩ := hf.rep.numWords
  have hl : lookup d w = .ok (if w ∈ (accRun [] adds).1 then
      ((0 : Int) + (((accRun [] adds).1.filter (· < w)).length : Nat), true) else (0, false)) := by
    unfold lookup
    rw [getNode_of_some hn]
    have := lookupWalk_spec (h := d.heap) w (0 : Int) hf.rep hn
    simpa using this
  refine ⟨fun hw => ?_, fun hw => ?_⟩
  · refine ⟨_, get_count_lt hf.rep.sorted hw, ?_⟩
    rw [hl, if_pos hw]; simp
  · rw [hl, if_neg hw]

/-- `Lookup` as an equivalence: `(k, true)` is returned exactly when the `k`-th accepted word is `w`. -/
theorem lookup_iff {adds : List Word} {d : Dawg} {es : List Bool} (hb : build adds = .ok (some d, es)) (w : Word)
    (k : Nat) : lookup d w = .ok ((k : Int), true) ↔ (accRun [] adds).1[k]? = some w := by
  have hf := finished_of_build hb
  obtain ⟨h1, h2⟩ := lookup_spec hb w
  constructor
  · intro hl
    by_cases hw : w ∈ (accRun [] adds).1
    · obtain ⟨k', hk', hl'⟩ := h1 hw
      rw [hl] at hl'
      simp only [Outcome.ok.injEq, Prod.mk.injEq, Int.natCast_inj, and_true] at hl'
      rw [hl']; exact hk'
    · rw [h2 hw] at hl
      simp at hl
  · intro hk
    have hw : w ∈ (accRun [] adds).1 := List.mem_of_getElem? hk
    obtain ⟨k', hk', hl'⟩ := h1 hw
    have hnd := sorted_nodup hf.rep.sorted
    have : k = k' := by
      have hk1 := (List.getElem?_eq_some_iff.1 hk)
      have hk2 := (List.getElem?_eq_some_iff.1 hk')
      obtain ⟨hlt1, he1⟩ := hk1
      obtain ⟨hlt2, he2⟩ := hk2
      exact (List.Nodup.getElem_inj_iff hnd).1 (he1.trans he2.symm)
    rw [this]; exact hl'

/-- An add that is not larger than the last accepted word (out of order or duplicate) returns an error and leaves the
builder — hence everything it goes on to build — unchanged; on a fresh builder nothing is rejected. This holds after
every history of adds. -/
theorem add_rejected_unchanged (adds : List Word) (b : Builder) (es : List Bool)
    (hb : addAll Builder.init adds = .ok (b, es)) (w : Word) (hrej : (accStep (accRun [] adds).1 w).2 = true) :
    add b w = .ok ⟨b, true⟩ := by
  obtain ⟨b', h1, hst⟩ := addAll_spec adds (b := Builder.init) (ws := []) (Or.inl ⟨rfl, rfl⟩)
  rw [hb] at h1
  simp only [Outcome.ok.injEq, Prod.mk.injEq] at h1
  rw [← h1.1] at hst
  obtain ⟨b'', h2, _⟩ := add_spec hst w
  rw [hrej] at h2
  rcases hst with ⟨hws, _⟩ | ⟨hne, hinv⟩
  · rw [hws] at hrej; simp [accStep] at hrej
  · unfold accStep at hrej
    rw [hinv.last] at hrej
    simp only at hrej
    by_cases hw : b.lastWord < w
    · rw [if_pos hw] at hrej; simp at hrej
    · exact add_rejected hinv hne w hw

example : (accStep [[1]] [1]).2 = true := by decide  -- non-vacuity: a duplicate is rejected
example : (accStep [[2]] [1]).2 = true := by decide  -- non-vacuity: an out-of-order add is rejected

/-- Minimality: in the finished automaton two reachable nodes that accept the same words are the same node, and every
reachable node accepts at least one word (no dead states; for the empty word set the root is the only node). Hence the
reachable nodes are in one-to-one correspondence with the non-empty right languages of the word set. -/
theorem minimal {adds : List Word} {d : Dawg} {es : List Bool} (hb : build adds = .ok (some d, es)) :
    (∀ p q, Reach d.heap d.root p → Reach d.heap d.root q →
      (∀ w, accepts d.heap p w ↔ accepts d.heap q w) → p = q) ∧
    (∀ p, Reach d.heap d.root p → ((accRun [] adds).1 ≠ [] ∨ p ≠ d.root) → ∃ w, accepts d.heap p w) :=
  (finished_of_build hb).minimal

/-- The finished automaton is well-formed in the sense used by C14 (no dangling links, distinct ids, root id smallest,
everything below 2^64), for byte strings. -/
theorem build_wf {adds : List Word} {d : Dawg} {es : List Bool} (hb : build adds = .ok (some d, es))
    (hbytes : ∀ w ∈ adds, ∀ c ∈ w, c < 256) (hcount : adds.length < 2 ^ 64) (hsize : d.heap.size < 2 ^ 64) : WF d := by
  exact wf_of_build hb hbytes hcount hsize

/-- `numberOfNodes` (the traversal of `listNodesCountEdges`), whenever it returns, returns the number of reachable
nodes — by `minimal`, the number of Myhill–Nerode classes of the word set. -/
theorem numberOfNodes_counts_reachable {d : Dawg} (wf : WF d) (fuel k : Nat) (hk : numberOfNodes fuel d = .ok k)
    (ps : List Nat) (hnd : ps.Nodup) (hall : ∀ p, Reach d.heap d.root p ↔ p ∈ ps) : k = ps.length := by
  unfold numberOfNodes at hk
  cases hl : listNodes fuel d with
  | panic => rw [hl] at hk; cases hk
  | outOfFuel => rw [hl] at hk; cases hk
  | ok L =>
    rw [hl] at hk
    simp only [Outcome.ok.injEq] at hk
    rw [← hk]
    exact (listNodes_spec d wf fuel L hl).count ps hnd hall

/-- On every automaton built from byte strings `numberOfNodes` returns for all sufficiently large fuel, and what it
returns is the number of reachable nodes. -/
theorem numberOfNodes_built {adds : List Word} {d : Dawg} {es : List Bool} (hb : build adds = .ok (some d, es))
    (hbytes : ∀ w ∈ adds, ∀ c ∈ w, c < 256) (hcount : adds.length < 2 ^ 64) (hsize : d.heap.size < 2 ^ 64) :
    ∃ f0 k, (∀ f, f0 ≤ f → numberOfNodes f d = .ok k) ∧
      ∀ ps : List Nat, ps.Nodup → (∀ p, Reach d.heap d.root p ↔ p ∈ ps) → k = ps.length := by
  have hf := finished_of_build hb
  have wf := wf_of_build hb hbytes hcount hsize
  have hbytes' : ∀ w ∈ (accRun [] adds).1, ∀ c ∈ w, c < 256 := by
    intro w hw
    rcases accRun_subset adds [] w hw with h1 | h1
    · cases h1
    · exact hbytes w h1
  obtain ⟨L, hL⟩ := listNodes_total d wf _ 256 (hf.ranked hbytes')
  refine ⟨Qp 256 (langRank d.heap d.root + 1), L.length, ?_, ?_⟩
  · intro f hle
    obtain ⟨k, rfl⟩ := Nat.exists_eq_add_of_le hle
    simp only [numberOfNodes, listNodes_mono d _ L hL k]
  · intro ps hnd hall
    exact (listNodes_spec d wf _ L hL).count ps hnd hall

end Dawg
