import Mamba.Spec.Distance
import Mamba.Model.Distances
import Mamba.Lemmas.DistanceEcc
import Mamba.Lemmas.DistanceComp
import Mamba.Lemmas.DistanceCycles
import Mamba.Lemmas.DistanceBlocks
import Mamba.Lemmas.DistanceModel
import Mamba.Lemmas.DistanceEccModel
import Mamba.Lemmas.DistanceRelabel
import Mamba.Lemmas.DistanceGirthModel
import Mamba.Lemmas.DistanceCanon
import Mamba.Lemmas.DistanceGirthSound
import Mamba.Lemmas.DistanceGirthComplete
import Mamba.Lemmas.DistanceCCModel2
import Mamba.Lemmas.DistanceIPaths4
import Mamba.Lemmas.DistanceICycles5
import Mamba.Lemmas.DistanceBiconTotal
import Mamba.Lemmas.DistancePatonTotal
import Mamba.Lemmas.DistanceBiconCover
import Mamba.Lemmas.DistanceBiconTree2
import Mamba.Lemmas.DistanceBiconLow2
import Mamba.Lemmas.DistanceBiconArt2
import Mamba.Lemmas.DistanceBiconStatic3
import Mamba.Lemmas.DistanceBiconStatic8
import Mamba.Lemmas.DistancePatonSound
import Mamba.Lemmas.DistancePatonCount2
import Mamba.Lemmas.DistancePatonIndep2
import Mamba.Lemmas.DistanceGibbsBlock
import Mamba.Lemmas.DistanceSpanCycle
import Mamba.Lemmas.DistanceEvenMinimal
import Mamba.Lemmas.DistanceGibbsKept
import Mamba.Lemmas.DistanceCyclesTotal
/-!
# C10 — property theorems

Every theorem is about the executable definitions that `Drv/C10.lean` runs (`Spec/Distance.lean`,
`Model/Distances.lean`) and holds for every `GraphSpec.G` (no bound on `n`).
-/
namespace GDist
open GraphSpec

/-- The reference distance (BFS by levels) is the least walk length, relative to any vertex list `V`
(the subgraph induced on `V`): `some k` iff there is a walk with `k` edges and none with fewer; `none` iff there is
no walk at all. -/
theorem bfs_distIn_correct (g : G) (V : List Nat) (s x : Nat) :
    (∀ k, distIn g V s x = some k ↔ (WalkIn g V s x k ∧ ∀ j, j < k → ¬ WalkIn g V s x j)) ∧
    (distIn g V s x = none ↔ ∀ k, ¬ WalkIn g V s x k) :=
  ⟨fun _ => distIn_eq_some_iff, distIn_eq_none_iff⟩

/-- `Distance`: the reference distance of the whole graph is the least walk length; `none` (printed `-1`) iff
there is no walk. -/
theorem bfs_dist_correct (g : G) (s x : Nat) :
    (∀ k, dist g s x = some k ↔ (Walk g s x k ∧ ∀ j, j < k → ¬ Walk g s x j)) ∧
    (dist g s x = none ↔ ∀ k, ¬ Walk g s x k) :=
  bfs_distIn_correct g (List.range g.n) s x

/-- the distance matrix printed by the driver is the matrix of `dist` -/
theorem distRow_spec (g : G) (s : Nat) : distRow g s = (List.range g.n).map (dist g s) := rfl

/-- a shortest walk has fewer than `n` edges (so the BFS fuel `n` never runs out) -/
theorem dist_lt_n (g : G) (s x k : Nat) (h : dist g s x = some k) : k < g.n := by
  have := (distIn_eq_some_iff.1 h).lt_length
  simpa using this

/-- the connectivity test used by `ecc`, `diameter`, `radius`: all ordered pairs of vertices are joined by a walk -/
theorem connected_spec (g : G) : connectedB g = true ↔ ∀ s x, s < g.n → x < g.n → ∃ k, Walk g s x k :=
  connectedB_iff g

/-- `Eccentricity`: in a connected graph the entry of `v` is the largest distance from `v`; in a disconnected graph
every entry is `-1`. -/
theorem ecc_spec (g : G) (v : Nat) (hv : v < g.n) :
    (connectedB g = true → ∃ e : Nat, ecc g v = (e : Int) ∧ IsEcc g v e ∧ ∀ e', IsEcc g v e' → e' = e) ∧
    (connectedB g = false → ecc g v = -1) := by
  constructor
  · intro hc
    refine ⟨eccNat g v, by simp [ecc, hc], eccNat_isEcc hc hv, fun e' he' => he'.unique (eccNat_isEcc hc hv)⟩
  · intro hc; simp [ecc, hc]

example : ecc (ofEdges 3 [(0, 1), (1, 2)]) 0 = 2 := by decide  -- test (non-vacuity: a connected graph)

/-- the printed eccentricity list is `ecc` at every vertex -/
theorem eccs_spec (g : G) : eccs g = (List.range g.n).map (ecc g) := eccs_eq g

/-- `Diameter`: `0` for `n = 0`, `-1` if disconnected, otherwise the largest eccentricity. -/
theorem diameter_spec (g : G) :
    (g.n = 0 → diameter g = 0) ∧
    (0 < g.n → connectedB g = false → diameter g = -1) ∧
    (0 < g.n → connectedB g = true →
      (∀ v, v < g.n → ecc g v ≤ diameter g) ∧ ∃ v, v < g.n ∧ ecc g v = diameter g) := by
  refine ⟨fun h => by simp [diameter, h], fun hn hc => by simp [diameter, hc]; omega, fun hn hc => ?_⟩
  have hd : diameter g = listMaxInt (eccs g) := by simp [diameter, hc]; omega
  rw [hd, eccs_eq]
  constructor
  · intro v hv
    exact le_listMaxInt (List.mem_map.2 ⟨v, List.mem_range.2 hv, rfl⟩)
  · have hne : (List.range g.n).map (ecc g) ≠ [] := by simp; omega
    obtain ⟨v, hv, hve⟩ := List.mem_map.1 (listMaxInt_mem hne)
    exact ⟨v, List.mem_range.1 hv, hve⟩

/-- `Radius`: `0` for `n = 0`, `-1` if disconnected, otherwise the least eccentricity. -/
theorem radius_spec (g : G) :
    (g.n = 0 → radius g = 0) ∧
    (0 < g.n → connectedB g = false → radius g = -1) ∧
    (0 < g.n → connectedB g = true →
      (∀ v, v < g.n → radius g ≤ ecc g v) ∧ ∃ v, v < g.n ∧ ecc g v = radius g) := by
  refine ⟨fun h => by simp [radius, h], fun hn hc => by simp [radius, hc]; omega, fun hn hc => ?_⟩
  have hd : radius g = listMinInt (eccs g) := by simp [radius, hc]; omega
  rw [hd, eccs_eq]
  constructor
  · intro v hv
    exact listMinInt_le (List.mem_map.2 ⟨v, List.mem_range.2 hv, rfl⟩)
  · have hne : (List.range g.n).map (ecc g) ≠ [] := by simp; omega
    obtain ⟨v, hv, hve⟩ := List.mem_map.1 (listMinInt_mem hne)
    exact ⟨v, List.mem_range.1 hv, hve⟩

/-! ## Faithful model of `Distance` -/

/-- The statement-by-statement model of `Distance(g, i, j)` (queue BFS, `distances[v] == 0` as the "unseen" test —
which also holds for the source, so the source can be queued a second time with label 2) returns the reference
distance, `-1` when there is no path, for every graph, every pair of vertices and every fuel `≥ n + 2`; in
particular it never panics and never runs out of fuel. -/
theorem distance_model_correct (g : G) (i j : Nat) (hi : i < g.n) (hj : j < g.n) (fuel : Nat)
    (hf : g.n + 2 ≤ fuel) :
    Model.distance g i j fuel = .ok (optToInt (dist g i j)) :=
  distance_eq_dist g i j hi hj fuel hf

example : Model.distance (ofEdges 4 [(0, 1), (1, 2)]) 0 2 = .ok 2 := by decide  -- test (non-vacuity)
example : Model.distance (ofEdges 4 [(0, 1), (1, 2)]) 0 3 = .ok (-1) := by decide  -- test

/-- The statement-by-statement model of `Eccentricity(g)` (one queue BFS per vertex with the `l != i` guard, the
counters `e` and `seenVertices`, and the `seenVertices == n-1` test) returns the reference list for every graph with
a symmetric adjacency relation and every fuel `≥ n + 2`. (The model starts every BFS from an all-zero `distances`
slice, which is what the explicit zeroing loop of the Go code establishes for `i ≠ 0`.) -/
theorem eccentricity_model_correct (g : G) (hsym : ∀ u v, g.adj u v = g.adj v u) (fuel : Nat)
    (hf : g.n + 2 ≤ fuel) :
    Model.eccentricity g fuel = .ok (eccs g) :=
  eccentricity_eq_eccs g hsym fuel hf

/-- The models of `Diameter` and `Radius` (through `Eccentricity`, `ints.Min`, `ints.Max`) return the reference
values, including `0` for `n = 0` and `-1` for disconnected graphs. -/
theorem diameter_radius_model_correct (g : G) (hsym : ∀ u v, g.adj u v = g.adj v u) :
    Model.diameterM g = .ok (diameter g) ∧ Model.radiusM g = .ok (radius g) :=
  ⟨diameterM_eq g hsym, radiusM_eq g hsym⟩

example : Model.eccentricity (ofEdges 3 [(0, 1), (1, 2)]) = .ok [2, 1, 2] := by decide  -- test (non-vacuity)

/-! ## Connected components -/

/-- `ConnectedComponents` relative to a vertex list `V` (the subgraph induced on `V`), for a symmetric adjacency
relation: the list produced is a partition of `V` into the classes of the reachability relation — every vertex
of `V` lies in some class, every class is exactly the set of vertices reachable from each of its members,
different classes are disjoint — and, when `V` is increasing, every class is an increasing list and the classes are
ordered by their least elements. -/
theorem componentsIn_spec (g : G) (hsym : ∀ u v, g.adj u v = g.adj v u) (V : List Nat) :
    (∀ x ∈ V, ∃ c ∈ componentsIn g V, x ∈ c) ∧
    (∀ c ∈ componentsIn g V, c ≠ [] ∧ ∀ x ∈ c, ∀ y, y ∈ c ↔ ReachIn g V x y) ∧
    (componentsIn g V).Pairwise (fun c c' => ∀ x ∈ c, x ∉ c') ∧
    (V.Pairwise (· < ·) →
      (∀ c ∈ componentsIn g V, c.Pairwise (· < ·)) ∧
      (componentsIn g V).Pairwise (fun c c' => ∃ a ∈ c, ∀ b ∈ c', a < b)) := by
  have hV : ∀ r ∈ V, r ∈ V := fun _ h => h
  have hcl : ∀ x ∈ ([] : List Nat), ∀ y, ReachIn g V x y → y ∈ ([] : List Nat) := fun x hx => by cases hx
  obtain ⟨h1, h2, _, h4⟩ := componentsFrom_spec hsym V [] hV hcl
  refine ⟨?_, ?_, h4, ?_⟩
  · intro x hx
    rcases h2 x hx with h | h
    · cases h
    · exact h
  · intro c hc
    obtain ⟨s, hs, _, rfl⟩ := h1 c hc
    refine ⟨List.ne_nil_of_mem (mem_componentIn.2 (ReachIn.refl hs)), ?_⟩
    intro x hx y
    have hsx := mem_componentIn.1 hx
    rw [mem_componentIn]
    exact ⟨fun hy => (hsx.symm hsym).trans hy, fun hy => hsx.trans hy⟩
  · intro hsorted
    constructor
    · intro c hc
      obtain ⟨s, _, _, rfl⟩ := h1 c hc
      exact hsorted.sublist (componentIn_sublist g V s)
    · exact (componentsFrom_order hsym V [] hV hcl (fun v hv => .inr hv) hsorted).2

/-- `ConnectedComponents` of the whole graph: a partition of `0..n-1` into reachability classes, every class
increasing, classes ordered by least element. -/
theorem components_spec (g : G) (hsym : ∀ u v, g.adj u v = g.adj v u) :
    (∀ x, x < g.n → ∃ c ∈ components g, x ∈ c) ∧
    (∀ c ∈ components g, c ≠ [] ∧ ∀ x ∈ c, ∀ y, y ∈ c ↔ Reach g x y) ∧
    (components g).Pairwise (fun c c' => ∀ x ∈ c, x ∉ c') ∧
    (∀ c ∈ components g, c.Pairwise (· < ·)) ∧
    (components g).Pairwise (fun c c' => ∃ a ∈ c, ∀ b ∈ c', a < b) := by
  obtain ⟨h1, h2, h3, h4⟩ := componentsIn_spec g hsym (List.range g.n)
  have hs : (List.range g.n).Pairwise (· < ·) := List.pairwise_lt_range
  exact ⟨fun x hx => h1 x (List.mem_range.2 hx), h2, h3, (h4 hs).1, (h4 hs).2⟩

example : components (ofEdges 4 [(0, 2), (1, 3)]) = [[0, 2], [1, 3]] := by decide  -- test

/-- `ConnectedComponent(g, v)`: exactly the vertices reachable from `v`, as an increasing list. -/
theorem component_spec (g : G) (v : Nat) :
    (∀ y, y ∈ component g v ↔ Reach g v y) ∧ (component g v).Pairwise (· < ·) :=
  ⟨fun _ => mem_componentIn, List.pairwise_lt_range.sublist (componentIn_sublist g _ v)⟩

/-- `ConnectedComponent(g, v)` is the member of `ConnectedComponents(g)` that contains `v`. -/
theorem component_mem_components (g : G) (hsym : ∀ u v, g.adj u v = g.adj v u) (v : Nat) (hv : v < g.n) :
    component g v ∈ components g := by
  have hV : ∀ r ∈ List.range g.n, r ∈ List.range g.n := fun _ h => h
  have hcl : ∀ x ∈ ([] : List Nat), ∀ y, ReachIn g (List.range g.n) x y → y ∈ ([] : List Nat) :=
    fun x hx => by cases hx
  obtain ⟨h1, h2, _, _⟩ := componentsFrom_spec hsym (List.range g.n) [] hV hcl
  rcases h2 v (List.mem_range.2 hv) with h | ⟨c, hc, hvc⟩
  · cases h
  · obtain ⟨s, _, _, rfl⟩ := h1 c hc
    have : component g v = componentIn g (List.range g.n) s :=
      (componentIn_congr hsym (mem_componentIn.1 hvc)).symm
    rw [this]; exact hc

/-- The statement-by-statement model of `ConnectedComponent(g, v)` (the `unseen` slice with swap-remove, the
`toCheck` stack, `sort.Ints` at the end) returns the reference component for every graph, every vertex `v < n` and
every fuel `≥ n + 1`; in particular it does not panic (also for `n = 1`) and terminates. -/
theorem connectedComponent_model_correct (g : G) (v : Nat) (hv : v < g.n) (fuel : Nat) (hf : g.n + 1 ≤ fuel) :
    Model.connectedComponent g v fuel = .ok (component g v) :=
  connectedComponent_eq g v hv fuel hf

example : Model.connectedComponent (ofEdges 1 []) 0 = .ok (component (ofEdges 1 []) 0) :=  -- the repaired n = 1 case
  connectedComponent_model_correct _ 0 (by decide) _ (by decide)

/-- The model of `ConnectedComponents(g)` (shared `unseen` slice, one flood fill per remaining last element) returns
exactly the reference components, each as its increasing list, in some order (the Go code starts from vertex
`n-1`; the order of the result is not fixed by the property), for every graph with a symmetric adjacency relation and
every fuel `≥ n + 1`. -/
theorem connectedComponents_model_correct (g : G) (hsym : ∀ u v, g.adj u v = g.adj v u) (fuel : Nat)
    (hf : g.n + 1 ≤ fuel) :
    ∃ cs, Model.connectedComponents g fuel = .ok cs ∧ cs.Perm (components g) :=
  connectedComponents_perm g hsym fuel hf


/-! ## Articulation vertices -/

/-- `BiconnectedComponents` (second result): `v` is reported iff deleting `v` increases the number of connected
components (`numComponentsIn g V` is the number of reachability classes of `g[V]` by `componentsIn_spec`);
the list is increasing. -/
theorem articulation_spec (g : G) :
    (∀ v, v ∈ articulation g ↔
      (v < g.n ∧ numComponentsIn g (List.range g.n) < numComponentsIn g ((List.range g.n).erase v))) ∧
    (articulation g).Pairwise (· < ·) := by
  constructor
  · intro v
    simp [articulation, isArticIn, List.mem_filter]
  · exact List.pairwise_lt_range.sublist List.filter_sublist

example : articulation (ofEdges 3 [(0, 1), (1, 2)]) = [1] := by decide  -- test

/-! ## Blocks -/

/-- the connectivity test on a vertex list (symmetric adjacency): any two vertices of `V` are joined by a walk
inside `V` (so the empty list and single vertices are connected). -/
theorem connectedIn_spec (g : G) (hsym : ∀ u v, g.adj u v = g.adj v u) (V : List Nat) :
    connectedIn g V = true ↔ ∀ x ∈ V, ∀ y ∈ V, ReachIn g V x y :=
  connectedIn_iff hsym V

/-- a block set: non-empty, induces a connected subgraph, and no vertex of it is an articulation vertex of that
induced subgraph (deleting it does not increase the number of components) -/
theorem isBlockSet_spec (g : G) (S : List Nat) :
    isBlockSet g S = true ↔
      (S ≠ [] ∧ connectedIn g S = true ∧
        ∀ v ∈ S, ¬ numComponentsIn g S < numComponentsIn g (S.erase v)) := by
  simp [isBlockSet, isArticIn, List.all_eq_true, and_assoc]

/-- `BiconnectedComponents` (first result): the reference list consists exactly of the maximal block sets, each
as an increasing list (a sublist of `0..n-1`). -/
theorem blocks_spec (g : G) (S : List Nat) :
    S ∈ blocks g ↔
      (S.Sublist (List.range g.n) ∧ isBlockSet g S = true ∧
        ∀ T, T.Sublist (List.range g.n) → isBlockSet g T = true → (∀ x ∈ S, x ∈ T) → S = T) :=
  mem_blocks

example : blocks (ofEdges 3 [(0, 1), (1, 2)]) = [[1, 2], [0, 1]] := by decide  -- test

/-- `BiconnectedComponents` model (iterative lowpoint DFS as coded), totality part: for every graph with a
symmetric adjacency relation the model returns a value — no index is out of range (in particular
`bicoms[i][len(bicoms[i])-1]` in the merge loop is never taken of an empty slice: all partial blocks except the
current one are non-empty), every `for len(toCheck) > 0` loop terminates within `2n + 2` iterations (each iteration
pushes an unvisited vertex or pops one) — and every reported block is a sorted list.
The full statement (blocks = `blocks g`, articulation vertices = `articulation g`) is
`biconnectedComponents_model_correct` below. -/
theorem biconnectedComponents_model_total_partial (g : G) (hsym : ∀ u v, g.adj u v = g.adj v u) :
    ∃ bs arts, Model.biconnectedComponents g = .ok (bs, arts) ∧
      ∀ b ∈ bs, b.Pairwise (fun a b => decide (a ≤ b) = true) :=
  biconnectedComponents_total g hsym

/-- `BiconnectedComponents` model: every vertex of the graph lies in at least one reported block (isolated
vertices as singleton blocks). Proved through a DFS invariant on the faithful model: a vertex that has left the
stack has all its neighbours visited and lies in a partial block or in an emitted block; the merge loop and the
emission only move vertices between partial blocks and the output; at the end the visited set contains the root and
is closed under adjacency, hence is the whole (connected) component.
(A first milestone; superseded by `biconnectedComponents_model_correct` below.) -/
theorem bicon_blocks_cover_vertices_partial (g : G) (hsym : ∀ u v, g.adj u v = g.adj v u)
    (bs : List (List Nat)) (arts : List Nat) (hres : Model.biconnectedComponents g = .ok (bs, arts)) :
    ∀ x, x < g.n → ∃ b ∈ bs, x ∈ b :=
  bicon_cover_vertices g hsym bs arts hres

/-! ### DFS-tree theory of the `BiconnectedComponents` model

`BicReach h com out0 st`: `st` is a state the `for len(toCheck) > 0` loop of the model goes through on the component
graph `h` (`bicStep` is one iteration of that loop, `Lemmas/DistanceBiconStep.lean`: `bicLoop_succ`). `dI st x` is
`depths[x]` (`-1` = unvisited), `tp` the parent function of the DFS tree (a ghost: `parents[x]` is overwritten by
`-1` when the block of `x` is emitted). -/

/-- (1) The stack `toCheck` is the tree path from the current vertex down to the root `0` (`StackPath`), and the
discovery depths strictly increase along it (top first: strictly decreasing); every visited vertex other than the
root hangs below its tree parent by a graph edge with depth one larger. -/
theorem bicon_stack_is_root_path (h : G) (com : List Nat) (hsym : ∀ u v, h.adj u v = h.adj v u)
    (hirr : ∀ v, h.adj v v = false) (hn : 0 < h.n) (out0 : List (List Nat))
    (hout : ∀ b ∈ out0, b.Pairwise (fun a b => decide (a ≤ b) = true)) (st : Model.BicSt)
    (hr : BicReach h com out0 st) :
    ∃ tp : Nat → Nat, StackPath tp st.toCheck ∧
      st.toCheck.Pairwise (fun up lw => dI st lw < dI st up) ∧
      (∀ x, x < h.n → bvis st x → x ≠ 0 →
        tp x < h.n ∧ bvis st (tp x) ∧ h.adj (tp x) x = true ∧ dI st x = dI st (tp x) + 1) := by
  obtain ⟨tp, dt⟩ := dt_reach com hsym hirr hn out0 hout hr
  exact ⟨tp, dt.path, dt.sdec, dt.tree⟩

/-- (2) No cross edges: every edge between two visited vertices joins an ancestor and a descendant in the DFS tree;
moreover a vertex that has left the stack has all its neighbours visited. -/
theorem bicon_no_cross_edges (h : G) (com : List Nat) (hsym : ∀ u v, h.adj u v = h.adj v u)
    (hirr : ∀ v, h.adj v v = false) (hn : 0 < h.n) (out0 : List (List Nat))
    (hout : ∀ b ∈ out0, b.Pairwise (fun a b => decide (a ≤ b) = true)) (st : Model.BicSt)
    (hr : BicReach h com out0 st) :
    ∃ tp : Nat → Nat,
      (∀ x y, x < h.n → y < h.n → bvis st x → bvis st y → h.adj x y = true → Anc tp x y ∨ Anc tp y x) ∧
      (∀ x, x < h.n → bvis st x → x ∉ st.toCheck → ∀ w, h.adj x w = true → w < h.n → bvis st w) := by
  obtain ⟨tp, dt⟩ := dt_reach com hsym hirr hn out0 hout hr
  exact ⟨tp, dt.nocross, dt.fin⟩

/-- (3) Lowpoints are correct: in every reachable state, for every vertex `x` that has left the stack, `lowpoints[x]`
(`lo st x`) is the least discovery depth among `x` itself and the end points `a` of the edges `(z, a)` leaving a
vertex `z` of the subtree of `x` other than the tree edge to the parent of `z` — it is a lower bound for all of them
and it is attained; for the vertices still on the stack `lowpoints[x] = depths[x]`. -/
theorem bicon_low_correct (h : G) (com : List Nat) (hsym : ∀ u v, h.adj u v = h.adj v u)
    (hirr : ∀ v, h.adj v v = false) (hn : 0 < h.n) (out0 : List (List Nat))
    (hout : ∀ b ∈ out0, b.Pairwise (fun a b => decide (a ≤ b) = true)) (st : Model.BicSt)
    (hr : BicReach h com out0 st) :
    ∃ tp : Nat → Nat,
      (∀ x ∈ st.toCheck, lo st x = dI st x) ∧
      (∀ x, x < h.n → bvis st x → lo st x ≤ dI st x) ∧
      (∀ x, x < h.n → bvis st x → x ∉ st.toCheck → ∀ z a, z < h.n → Anc tp x z → bvis st z →
        h.adj z a = true → a < h.n → a ≠ tp z → lo st x ≤ dI st a) ∧
      (∀ x, x < h.n → bvis st x → x ∉ st.toCheck → lo st x = dI st x ∨
        ∃ z a, z < h.n ∧ Anc tp x z ∧ bvis st z ∧ h.adj z a = true ∧ a < h.n ∧ a ≠ tp z ∧
          lo st x = dI st a) := by
  obtain ⟨tp, dt, la⟩ := dtla_reach com hsym hirr hn out0 hout hr
  exact ⟨tp, dt.lostk, la.lole, la.lob, la.loatt⟩

example : BicReach (ofEdges 2 [(0, 1)]) [0, 1] [] (bicInit 2 []) := BicReach.init  -- non-vacuity

/-- (4a) The lowpoint criterion is the separation property. At the end of the DFS of a connected graph `h` (state
`st`, DFS tree `tp`, `DFinal`: the invariants of (1)–(3), every vertex visited, stack empty) a vertex `i` satisfies
the criterion the Go code tests — `i` is not the root and has a tree child `c` with `lowpoints[c] >= depths[i]`, or
`i` is the root and has two different tree children — iff deleting `i` separates two other vertices of `h`
(`SepIn`: they are joined by a walk, but by none avoiding `i`). -/
theorem bicon_lowpoint_criterion (h : G) (st : Model.BicSt) (tp : Nat → Nat) (df : DFinal h st tp)
    (hsym : ∀ u v, h.adj u v = h.adj v u) (i : Nat) (hi : i < h.n) :
    Crit h st tp i ↔ SepIn h (List.range h.n) i :=
  df.crit_iff_sep hsym hi

/-- (4b) Deleting `v` increases the number of components of the subgraph on `V` (`isArticIn`, the definition behind
`articulation g`) iff `v` separates two other vertices of `V`. -/
theorem articulation_iff_separates (g : G) (hsym : ∀ u v, g.adj u v = g.adj v u) (V : List Nat) (v : Nat) :
    isArticIn g V v = true ↔ SepIn g V v :=
  isArticIn_iff_sep hsym V v

/-- (4c) **Soundness of the articulation vertices of `BiconnectedComponents`**: for every simple graph (symmetric,
irreflexive adjacency) every vertex the faithful model reports is an articulation vertex (`articulation g`: deleting
it increases the number of connected components). -/
theorem bicon_articulation_sound (g : G) (hsym : ∀ u v, g.adj u v = g.adj v u) (hirr : ∀ v, g.adj v v = false)
    (bs : List (List Nat)) (arts : List Nat) (hres : Model.biconnectedComponents g = .ok (bs, arts)) :
    ∀ x, x ∈ arts → x ∈ articulation g :=
  fun x hx => ((bicon_articulation_eq g hsym hirr bs arts hres).2.1 x).1 hx

/-- (4d) **Completeness**: every articulation vertex of `g` is reported by the faithful model, exactly once; hence
the reported list, sorted (as the harness prints it), is exactly `articulation g`. -/
theorem bicon_articulation_complete (g : G) (hsym : ∀ u v, g.adj u v = g.adj v u) (hirr : ∀ v, g.adj v v = false)
    (bs : List (List Nat)) (arts : List Nat) (hres : Model.biconnectedComponents g = .ok (bs, arts)) :
    (∀ x, x ∈ articulation g → x ∈ arts) ∧ arts.Nodup ∧ Model.sortInts arts = articulation g :=
  have h := bicon_articulation_eq g hsym hirr bs arts hres
  ⟨fun x hx => (h.2.1 x).2 hx, h.1, h.2.2⟩

/-- (5a) The blocks appended by the DFS of one connected component `com`, in terms of the final DFS tree `tp`,
depths and lowpoints (`DFinal`: the invariants of (1)–(3) at the end of the loop): either the component is a single
vertex and the only block is that vertex, or the blocks are — each exactly once, as increasing lists of global
labels (`IsBlk`) — the sets `{tp c} ∪ {y | NL c y}` for the non-root vertices `c` with
`lowpoints[c] >= depths[tp c]`, where `NL c y` says that `y` lies in the subtree of `c` and no vertex strictly below
`c` on the tree path to `y` has that property. This is the exact content of `bicoms` / `biconnectedComponents`
(invariant `BK`, kept by descending, emitting and the merge loop). -/
theorem bicon_blocks_structure (g : G) (com : List Nat) (gc : GoodCom g com) (hne : com ≠ [])
    (hconn : ∀ x ∈ com, Reach g (com.getD 0 0) x) (hsym : ∀ u v, g.adj u v = g.adj v u)
    (hirr : ∀ v, g.adj v v = false) (acc acc' : List (List Nat) × List Nat)
    (hacc : ∀ b ∈ acc.1, b.Pairwise (fun a b => decide (a ≤ b) = true))
    (hres : Model.bicComponent g com acc = .ok acc') :
    ∃ st tp new, DFinal (g.induced com) st tp ∧ acc'.1 = acc.1 ++ new ∧
      BlocksOf (g.induced com) com st tp new :=
  bicComponent_blocks gc hne hconn hsym hirr acc acc' hacc hres

/-- (5b) **Every edge lies in exactly one block**: for every simple graph and every edge `x – y`, exactly one of
the blocks returned by the faithful model of `BiconnectedComponents` contains both end points. -/
theorem bicon_blocks_cover_edges (g : G) (hsym : ∀ u v, g.adj u v = g.adj v u) (hirr : ∀ v, g.adj v v = false)
    (bs : List (List Nat)) (arts : List Nat) (hres : Model.biconnectedComponents g = .ok (bs, arts)) :
    ∀ x y, x < g.n → y < g.n → g.adj x y = true →
      ∃ b ∈ bs, x ∈ b ∧ y ∈ b ∧ ∀ b' ∈ bs, x ∈ b' → y ∈ b' → b' = b :=
  (bicon_blocks_edges_connected g hsym hirr bs arts hres).1

/-- (5c) **Every block is connected**: any two vertices of a returned block are joined by a walk inside the
block. -/
theorem bicon_blocks_connected (g : G) (hsym : ∀ u v, g.adj u v = g.adj v u) (hirr : ∀ v, g.adj v v = false)
    (bs : List (List Nat)) (arts : List Nat) (hres : Model.biconnectedComponents g = .ok (bs, arts)) :
    ∀ b ∈ bs, ∀ x ∈ b, ∀ y ∈ b, ReachIn g b x y :=
  (bicon_blocks_edges_connected g hsym hirr bs arts hres).2

/-- (6a) Inside the graph `h` of one component, at the end of the DFS: a block `{tp l} ∪ {y | NL l y}` of a
block-closing vertex `l` (`Ldr`: non-root, `lowpoints[l] >= depths[tp l]`) has no articulation vertex — deleting any
vertex `v` of it leaves the rest connected inside the block (`SepIn` fails); the proof follows the back edge that
realises the lowpoint of a child of `v` (`DFinal.block_back_edge`). -/
theorem bicon_block_no_articulation (h : G) (st : Model.BicSt) (tp : Nat → Nat) (df : DFinal h st tp)
    (hsym : ∀ u v, h.adj u v = h.adj v u) (l : Nat) (hl : Ldr h st tp l) (B : List Nat)
    (hB : ∀ w, w ∈ B ↔ (w < h.n ∧ InBlk st tp l w)) (hnd : B.Nodup) : ∀ v ∈ B, ¬ SepIn h B v :=
  df.block_no_sep hsym hl B hB hnd

/-- (6b) Maximality, inside the graph `h` of one component with at least two vertices: every non-empty connected
vertex set without articulation vertex (`BSet`) lies inside the block of one block-closing vertex, and the blocks of
two different block-closing vertices are not nested. -/
theorem bicon_block_sets_covered (h : G) (st : Model.BicSt) (tp : Nat → Nat) (df : DFinal h st tp)
    (hsym : ∀ u v, h.adj u v = h.adj v u) (hn2 : 1 < h.n) :
    (∀ T, BSet h T → ∃ l, Ldr h st tp l ∧ ∀ x ∈ T, InBlk st tp l x) ∧
    (∀ l l', Ldr h st tp l → Ldr h st tp l' → (∀ x, x < h.n → InBlk st tp l x → InBlk st tp l' x) → l = l') :=
  ⟨fun T hT => df.bset_in_block hsym hn2 T hT, fun _ _ hl hl' hsub => df.block_not_nested hl hl' hsub⟩

/-- (6c) **`BiconnectedComponents` = specification.** For every simple graph (symmetric, irreflexive adjacency) the
faithful model of `BiconnectedComponents` (iterative lowpoint DFS, statement by statement after the Go code) returns
a value `(bs, arts)` — no panic, within its fuel — such that
* `bs` is a permutation of `blocks g`: every returned block is a maximal block set (`blocks_spec`: non-empty,
  connected, without articulation vertex, maximal) as an increasing list, every block of `g` is returned, none twice;
* `arts`, sorted, is `articulation g` (`articulation_spec`); no vertex is reported twice.
The harness sorts both results before printing, so the printed result of the model is the printed reference. -/
theorem biconnectedComponents_model_correct (g : G) (hsym : ∀ u v, g.adj u v = g.adj v u)
    (hirr : ∀ v, g.adj v v = false) :
    ∃ bs arts, Model.biconnectedComponents g = .ok (bs, arts) ∧
      bs.Perm (blocks g) ∧ (∀ S, S ∈ bs ↔ S ∈ blocks g) ∧ bs.Nodup ∧
      Model.sortInts arts = articulation g ∧ arts.Nodup := by
  obtain ⟨bs, arts, hres, _⟩ := biconnectedComponents_total g hsym
  obtain ⟨h1, h2, h3⟩ := bicon_blocks_eq g hsym hirr bs arts hres
  obtain ⟨h4, _, h6⟩ := bicon_articulation_eq g hsym hirr bs arts hres
  exact ⟨bs, arts, hres, h3, h2, h1, h6, h4⟩

/-! ## Girth and cycle / path counts -/

/-- `Girth`: the reference value is the least number of vertices of a cycle (`IsCycleSeq`: at least three distinct
vertices, consecutive ones and last/first adjacent); `none` (printed `-1`) iff the graph has no cycle. -/
theorem girth_spec (g : G) :
    (∀ l, girthOpt g = some l ↔
      ((∃ c, IsCycleSeq g c ∧ c.length = l) ∧ ∀ c, IsCycleSeq g c → l ≤ c.length)) ∧
    (girthOpt g = none ↔ ¬ ∃ c, IsCycleSeq g c) ∧
    girth g = optToInt (girthOpt g) := by
  refine ⟨?_, ?_, rfl⟩
  · intro l
    unfold girthOpt
    rw [leastUpTo_eq_some]
    constructor
    · rintro ⟨_, _, h3, h4⟩
      refine ⟨(hasCycle_iff l).1 h3, ?_⟩
      intro c hc
      by_contra hlt
      have := h4 c.length (Nat.zero_le _) (by omega)
      rw [(hasCycle_iff c.length).2 ⟨c, hc, rfl⟩] at this
      cases this
    · rintro ⟨⟨c, hc, rfl⟩, hmin⟩
      refine ⟨Nat.zero_le _, by have := hc.length_le; omega, (hasCycle_iff _).2 ⟨c, hc, rfl⟩, ?_⟩
      intro j _ hj
      cases hj' : hasCycle g j with
      | false => rfl
      | true =>
        obtain ⟨c', hc', rfl⟩ := (hasCycle_iff j).1 hj'
        have := hmin c' hc'
        omega
  · unfold girthOpt
    rw [leastUpTo_eq_none]
    constructor
    · rintro h ⟨c, hc⟩
      have := h c.length (Nat.zero_le _) (by have := hc.length_le; omega)
      rw [(hasCycle_iff c.length).2 ⟨c, hc, rfl⟩] at this
      cases this
    · intro h j _ _
      cases hj' : hasCycle g j with
      | false => rfl
      | true =>
        obtain ⟨c', hc', _⟩ := (hasCycle_iff j).1 hj'
        exact absurd ⟨c', hc'⟩ h

example : girth (ofEdges 4 [(0, 1), (1, 2), (2, 3), (0, 3)]) = 4 := by decide  -- test

/-- `NumberOfCycles[l]`: the reference count is the length of a duplicate-free list that contains exactly the
canonical vertex sequences (`IsCanonCycle`: least vertex first, then its smaller cycle neighbour) of the cycles with
`l` vertices. By `canon_cycle_exists_unique` below every cycle has exactly one canonical sequence among its
rotations and reflections, so this is the number of cycle subgraphs with `l` vertices. -/
theorem numCycles_spec (g : G) (l : Nat) :
    (canonCycles g l).Nodup ∧ (∀ c, c ∈ canonCycles g l ↔ IsCanonCycle g l c) ∧
    numCycles g l = (canonCycles g l).length ∧
    numCyclesList g = (List.range (g.n + 1)).map (numCycles g) :=
  ⟨nodup_canonCycles l, fun _ => mem_canonCycles, rfl, rfl⟩

/-- Counting subgraphs through canonical sequences is sound: two vertex sequences describe the same cycle subgraph
iff one is a rotation of the other or of its reversal (`~r` is Mathlib's `List.IsRotated`), and for a symmetric
adjacency relation every cycle sequence has exactly one canonical sequence in that class. -/
theorem canon_cycle_exists_unique (g : G) (hsym : ∀ u v, g.adj u v = g.adj v u) (c : List Nat)
    (hc : IsCycleSeq g c) :
    ∃! c', IsCanonCycle g c.length c' ∧ (List.IsRotated c' c ∨ List.IsRotated c' c.reverse) :=
  canon_exists_unique hsym hc

example : IsCycleSeq (ofEdges 3 [(0, 1), (1, 2), (0, 2)]) [2, 1, 0] := by  -- non-vacuity
  refine ⟨by decide, by decide, by decide, ?_, by decide⟩
  simp only [chainAdj, and_true]
  decide

/-- `NumberOfInducedCycles[l]`: same, for the canonical cycle sequences without chords. -/
theorem numInducedCycles_spec (g : G) (l : Nat) :
    (canonInducedCycles g l).Nodup ∧
    (∀ c, c ∈ canonInducedCycles g l ↔ (IsCanonCycle g l c ∧ chordlessCyc g c = true)) ∧
    numInducedCycles g l = (canonInducedCycles g l).length :=
  ⟨nodup_canonInducedCycles l, fun _ => mem_canonInducedCycles, rfl⟩

/-- `NumberOfInducedPaths[l]`: the reference count is the length of a duplicate-free list that contains exactly the
canonical sequences (listed from the smaller end vertex) of the chordless simple paths with `l` edges. -/
theorem numInducedPaths_spec (g : G) (l : Nat) :
    (canonInducedPaths g l).Nodup ∧ (∀ p, p ∈ canonInducedPaths g l ↔ IsCanonInducedPath g l p) ∧
    numInducedPaths g l = (canonInducedPaths g l).length :=
  ⟨nodup_canonInducedPaths l, fun _ => mem_canonInducedPaths, rfl⟩

example : numCyclesList (ofEdges 4 [(0, 1), (1, 2), (0, 2), (2, 3), (0, 3)]) = [0, 0, 0, 2, 1] := by decide  -- test

/-- The statement-by-statement model of `NumberOfInducedPaths(g, maxLength)` — the `maxLength` normalisation, one
DFS per connected component and start vertex with an explicit stack of partial paths and their `bannedNeighbours`
sets (`sortints.SetMinus/Union/Add`), the final halving and `r[0] = n` — returns, for every graph with a symmetric
adjacency relation, every `maxLength` (also negative or too large) and every fuel `≥ (n+2)^(n+2)`: entry `l` = the
number of induced paths with `l` edges for `l ≤ max (effective bound) 1`, and `0` beyond. (Entry 1 is filled even
for the bound 0, as in the Go code.) In particular the model does not panic and terminates. -/
theorem numberOfInducedPaths_model_correct (g : G) (hsym : ∀ u v, g.adj u v = g.adj v u) (maxLength : Int)
    (fuel : Nat) (hf : Model.stackFuel g.n ≤ fuel) :
    Model.numberOfInducedPaths g maxLength fuel =
      .ok ((List.range g.n).map fun l =>
        if l ≤ max (pathBound g maxLength) 1 then numInducedPaths g l else 0) :=
  numberOfInducedPaths_eq g hsym maxLength fuel hf

/-- there are exactly twice as many directed induced path sequences as canonical ones (`l ≥ 1`): this is what
makes the final `r[i] /= 2` exact -/
theorem induced_paths_two_directions (g : G) (hsym : ∀ u v, g.adj u v = g.adj v u) (l : Nat) (hl : 1 ≤ l) :
    (allInducedPaths g l).length = 2 * numInducedPaths g l :=
  allInducedPaths_length hsym hl

/-- The statement-by-statement model of `NumberOfInducedCycles(g, maxLength)` — the `maxLength` normalisation, the
stack DFS with `allowedEnds` and `bannedNeighbours` per connected component and start vertex, the closing count
`len(Intersection(Neighbours(last), allowedEnds))`, and the final `r[i] /= 2*i` — returns, for every graph with a
symmetric loop-free adjacency relation, every `maxLength` and every fuel `≥ (n+2)^(n+2)`: entry `l` = the number of
induced cycles with `l` vertices for `l ≤` effective bound, and `0` beyond. It does not panic and terminates. -/
theorem numberOfInducedCycles_model_correct (g : G) (hsym : ∀ u v, g.adj u v = g.adj v u)
    (hirr : ∀ v, g.adj v v = false) (maxLength : Int) (fuel : Nat) (hf : Model.stackFuel g.n ≤ fuel) :
    Model.numberOfInducedCycles g maxLength fuel =
      .ok ((List.range (g.n + 1)).map fun l =>
        if l ≤ cycBound g maxLength then numInducedCycles g l else 0) :=
  numberOfInducedCycles_eq g hsym hirr maxLength fuel hf

/-- every induced cycle with `c ≥ 3` vertices has exactly `2c` rooted directed vertex sequences (orbit counting
through `List.cyclicPermutations`): this is what makes the final `r[i] /= 2*i` exact -/
theorem induced_cycles_orbits (g : G) (hsym : ∀ u v, g.adj u v = g.adj v u) (c : Nat) (hc : 3 ≤ c) :
    (allIndCycleSeqs g c).Nodup ∧ (∀ q, q ∈ allIndCycleSeqs g c ↔ IsIndCycleSeq g c q) ∧
    (allIndCycleSeqs g c).length = 2 * c * numInducedCycles g c :=
  ⟨nodup_allIndCycleSeqs c, fun _ => mem_allIndCycleSeqs hsym hc,
   indCycleSeq_count hsym c (nodup_allIndCycleSeqs c) (fun _ => mem_allIndCycleSeqs hsym hc)⟩

/-- `NumberOfCycles` model, totality of its two algorithmic phases on every block `a = g.induced bicom`
(symmetric adjacency): Paton's spanning-tree phase returns a value — `length := depth[v] - depth[T[u]] + 2` is never
below 2 (the parents of the vertices waiting on the stack `X` are never deeper than the vertex being examined:
Paton's remark that a back edge leads to a vertex at distance one from the tree path to `v`), following `T` from a
tree vertex never meets `-1`, all indices are in range, and the `for len(X) > 0` loop terminates within `n + 1`
iterations — and Gibbs' steps 2–4 return a value on the fundamental cycles it produced. (An earlier milestone; the
full totality of the model, including the final `numberFound[len(V)]++`, is `numberOfCycles_model_total` below.) -/
theorem numberOfCycles_phases_total (g : G) (hsym : ∀ u v, g.adj u v = g.adj v u) (bicom : List Nat)
    (hne : 0 < (g.induced bicom).n) :
    ∃ st, Model.patonLoop (g.induced bicom) ((g.induced bicom).n + 1) (patonInit (g.induced bicom).n) = .ok st ∧
      ∀ f0 fs, st.fund = f0 :: fs → ∃ gs, Model.gibbsLoop fs { S := [f0], Q := [f0] } = .ok gs := by
  obtain ⟨st, hst⟩ := paton_total (g.induced bicom) (induced_symm hsym bicom) hne
  exact ⟨st, hst, fun f0 fs _ => gibbsLoop_total fs _⟩

example : 0 < ((ofEdges 3 [(0, 1), (1, 2), (0, 2)]).induced [0, 1, 2]).n := by decide  -- non-vacuity

/-- `NumberOfCycles`, Paton's phase, soundness: on every simple graph `a` (in the model: a block
`g.induced bicom`), every fundamental cycle appended to `fundCycles` is the sorted list of the edge codes
(`edgeCode`: `max(max-1)/2 + min`) of a simple cycle of `a` (`IsCycCode`: there is a vertex sequence `c` with
`IsCycleSeq a c` — at least three distinct vertices, consecutive ones and last/first adjacent — whose edge codes,
sorted, are the list). The cycle is `u, v, T[v], T[T[v]], …, T[u]`: the invariant `PS` keeps a ghost ancestor
relation (`AncD`: `T[u]` is the ancestor of the examined vertex `v` exactly `depth[v] - depth[T[u]]` tree edges above
it, for every `u` waiting on the stack `X` — the stack discipline), depths grow by one along tree edges, tree edges
are edges of `a`, and parents are never on the stack; so `length - 2` steps of `previous = T[previous]` from `v` end
exactly in `T[u]` and the vertices passed are distinct and different from `u`. -/
theorem paton_cycles_sound (a : G) (hsym : ∀ u v, a.adj u v = a.adj v u) (hirr : ∀ v, a.adj v v = false)
    (hn : 0 < a.n) (fuel : Nat) (st : Model.PatonSt)
    (hres : Model.patonLoop a fuel (patonInit a.n) = .ok st) :
    ∀ f ∈ st.fund, IsCycCode a f :=
  paton_fund_sound a hsym hirr hn fuel st hres

/-- `NumberOfCycles`, Paton's phase, count: on a connected simple graph `a` with `m` edges (a block is connected)
the phase produces exactly `m - n + 1` fundamental cycles (`|fundCycles| + n = m + 1`). Invariant `PC`: every pair in
the list of removed edges is an edge of `a` between two tree vertices, no edge is removed twice, and
`|removed| + #{x | T[x] = -1} + 1 = n + |fundCycles|` (a removed edge either adds a tree vertex or a fundamental
cycle); at the end every edge at an examined vertex is removed, the tree is closed under adjacency, hence spans `a`,
and the removed edges are exactly the edges of `a`. -/
theorem paton_cycles_count (a : G) (hsym : ∀ u v, a.adj u v = a.adj v u) (hirr : ∀ v, a.adj v v = false)
    (hn : 0 < a.n) (hconn : ∀ x, x < a.n → Reach a 0 x) (fuel : Nat) (st : Model.PatonSt)
    (hres : Model.patonLoop a fuel (patonInit a.n) = .ok st) :
    st.fund.length + a.n = a.m + 1 :=
  paton_fund_count a hsym hirr hn hconn fuel st hres

/-- `NumberOfCycles`, Paton's phase, independence: every fundamental cycle contains an edge code (that of its
non-tree edge `u – v`) that no other fundamental cycle contains — `es[j] ∈ fundCycles[i] ↔ i = j` — hence the
fundamental cycles are linearly independent over GF(2). Invariant `PI`: every fundamental cycle consists of the code
of its non-tree edge and of codes of tree edges `x – T[x]`; non-tree and tree edges are different entries of the list
of removed edges, no edge is removed twice, and `edgeCode` is injective on unordered pairs (`edgeCode_inj`).
Together with `paton_cycles_count` (`m - n + 1` of them) this is the fundamental-basis half of Paton's theorem; the
spanning half (every cycle of the block is the XOR of the fundamental cycles of its non-tree edges) is NOT proved. -/
theorem paton_cycles_independent (a : G) (hsym : ∀ u v, a.adj u v = a.adj v u) (hirr : ∀ v, a.adj v v = false)
    (hn : 0 < a.n) (fuel : Nat) (st : Model.PatonSt)
    (hres : Model.patonLoop a fuel (patonInit a.n) = .ok st) :
    ∃ es : List Nat, es.length = st.fund.length ∧
      ∀ i j (hi : i < st.fund.length) (hj : j < es.length), es[j] ∈ st.fund[i] ↔ i = j :=
  paton_fund_private a hsym hirr hn fuel st hres

/-- `sortints.XOR` (model `sXor`, the merge loop of the Go code) on strictly increasing lists returns a strictly
increasing list whose elements are those lying in exactly one argument (symmetric difference). -/
theorem sortedXor_spec (s t : List Nat) (hs : s.Pairwise (· < ·)) (ht : t.Pairwise (· < ·)) :
    (Model.sXor s t).Pairwise (· < ·) ∧ ∀ z, z ∈ Model.sXor s t ↔ ((z ∈ s ∧ z ∉ t) ∨ (z ∉ s ∧ z ∈ t)) :=
  sXor_spec s t hs ht

/-- `NumberOfCycles`, Gibbs' loop, the span: on a block `a`, with `f0 :: fs` the fundamental cycles of Paton's
phase, the list `Q` at the end of Gibbs' loop is exactly the list of all non-empty XOR combinations of the
fundamental cycles (`QInv`): every `t ∈ Q` is the XOR (`IsXorOf I t`: strictly increasing, `x ∈ t` iff `x` occurs in
an odd number of the lists of `I`) of a non-empty sublist `I` of `f0 :: fs`, every non-empty sublist is represented,
and `|Q| = 2^(number of fundamental cycles) - 1`. A list-algebraic invariant of steps 2 and 4; the fundamental
cycles are strictly increasing because the edge codes of a cycle are distinct (`cycCodes_nodup`). -/
theorem gibbs_Q_span (a : G) (hsym : ∀ u v, a.adj u v = a.adj v u) (hirr : ∀ v, a.adj v v = false)
    (hn : 0 < a.n) (fuel : Nat) (st : Model.PatonSt) (hres : Model.patonLoop a fuel (patonInit a.n) = .ok st)
    (f0 : List Nat) (fs : List (List Nat)) (hfund : st.fund = f0 :: fs) (gs : Model.GibbsSt)
    (hg : Model.gibbsLoop fs { S := [f0], Q := [f0] } = .ok gs) :
    (∀ t ∈ gs.Q, ∃ I, I ≠ [] ∧ I.Sublist (f0 :: fs) ∧ IsXorOf I t) ∧
    (∀ I, I ≠ [] → I.Sublist (f0 :: fs) → ∃ t ∈ gs.Q, IsXorOf I t) ∧
    gs.Q.length + 1 = 2 ^ (f0 :: fs).length :=
  have h := (gibbs_on_block a hsym hirr hn fuel st hres f0 fs hfund gs hg).1
  ⟨h.sound, h.complete, h.len⟩

/-- `NumberOfCycles`, Gibbs' loop, even sets: every element of `Q` — in particular every set kept in `S`, since
`S ⊆ Q` (step 3 only removes elements of `R`) — is an edge set in which every vertex of the block has even degree
(`EvenSet`: `degIn n t w`, the number of codes of `t` that are codes of an edge at `w`, is even). A cycle has degree
2 on its vertices and 0 elsewhere (`cycle_even`, through the degree formula `path_deg` along a path), and the parity
of every count is additive under `sXor` (`sXor_countP`). NOT proved: that the sets kept in `S` are single cycles
(`gibbs_kept_is_cycle`) and that every cycle is kept once; see `numberOfCycles_phases_total`. -/
theorem gibbs_sets_even (a : G) (hsym : ∀ u v, a.adj u v = a.adj v u) (hirr : ∀ v, a.adj v v = false)
    (hn : 0 < a.n) (fuel : Nat) (st : Model.PatonSt) (hres : Model.patonLoop a fuel (patonInit a.n) = .ok st)
    (f0 : List Nat) (fs : List (List Nat)) (hfund : st.fund = f0 :: fs) (gs : Model.GibbsSt)
    (hg : Model.gibbsLoop fs { S := [f0], Q := [f0] } = .ok gs) :
    (∀ t ∈ gs.Q, EvenSet a.n t) ∧ (∀ V ∈ gs.S, V ∈ gs.Q) :=
  (gibbs_on_block a hsym hirr hn fuel st hres f0 fs hfund gs hg).2

/-- `NumberOfCycles`, spanning half of the basis theorem: on a connected simple graph `a` (a block), every simple
cycle `c` of `a` — as the sorted list of its edge codes — is the XOR of a non-empty set of fundamental cycles of
Paton's phase, and therefore an element of Gibbs' `Q` (`gibbs_Q_span`). Proof: let `I` be the fundamental cycles
whose private non-tree edge lies on `c` and `t ∈ Q` their XOR; `t XOR c` has even degrees (`gibbs_sets_even`,
`cycle_even`), contains no non-tree edge (each non-tree edge lies in exactly one fundamental cycle,
`paton_cycles_independent`; every edge of `a` is a tree edge or one of these non-tree edges), and an even set of tree
edges is empty (`tree_even_empty`: the deepest vertex with a tree edge of the set to its parent has degree one);
so `t = c`. Together with `paton_cycles_count` / `paton_cycles_independent` the fundamental cycles are a basis of the
cycle space. NOT proved: that Gibbs' step 3 keeps exactly the single cycles among the elements of `Q`. -/
theorem paton_cycles_span (a : G) (hsym : ∀ u v, a.adj u v = a.adj v u) (hirr : ∀ v, a.adj v v = false)
    (hn : 0 < a.n) (hconn : ∀ x, x < a.n → Reach a 0 x) (fuel : Nat) (st : Model.PatonSt)
    (hres : Model.patonLoop a fuel (patonInit a.n) = .ok st)
    (f0 : List Nat) (fs : List (List Nat)) (hfund : st.fund = f0 :: fs) (gs : Model.GibbsSt)
    (hg : Model.gibbsLoop fs { S := [f0], Q := [f0] } = .ok gs) (c : List Nat) (hc : IsCycleSeq a c) :
    Model.sortInts (cycCodes c) ∈ gs.Q ∧
      ∃ I, I ≠ [] ∧ I.Sublist st.fund ∧ IsXorOf I (Model.sortInts (cycCodes c)) :=
  cycles_in_Q a hsym hirr hn hconn fuel st hres f0 fs hfund gs hg c hc

/-- Cycle decomposition, the graph lemma behind Gibbs' step 3: in an edge set `t` (a duplicate-free list of edge
codes on the vertices `0..n-1`) in which every vertex has even degree (`EvenSet`), every edge `p – q` of `t` lies on a
simple cycle contained in `t`: there is a vertex sequence `c` from `p` to `q` with at least three distinct vertices
all of whose cycle codes (`cycCodes c`, the closing edge `p – q` included) lie in `t`. Proof: delete the edge; `q` now
has odd degree, and by the handshake lemma (`handshake`: inside the set of vertices reachable from `q` the degrees sum
to an even number) `p` — the only other vertex of odd degree — is still reachable from `q` (`even_reach`); a shortest
walk from `q` to `p` is a simple path (`IsDistIn.simplePath`) with at least two edges, and the deleted edge closes it. -/
theorem even_set_edge_on_cycle (n : Nat) (t : List Nat) (hnd : t.Nodup) (hev : EvenSet n t) (p q : Nat)
    (hp : p < n) (hq : q < n) (hpq : p ≠ q) (hex : Model.edgeCode p q ∈ t) :
    ∃ c : List Nat, 3 ≤ c.length ∧ c.Nodup ∧ (∀ x ∈ c, x < n) ∧ c.headD 0 = p ∧ c.getLastD 0 = q ∧
      (∀ z ∈ cycCodes c, z ∈ t) ∧ Model.edgeCode p q ∈ cycCodes c :=
  even_edge_on_cycle hnd hev hp hq hpq hex

/-- A minimal non-empty even edge set is a single simple cycle: if `t` is non-empty, consists of codes of pairs of
distinct vertices `< n`, has even degrees, and every non-empty even subset of `t` is all of `t`, then `t` is (a
permutation of) the list of the edge codes of a simple cycle of the graph `codeG n t` of its own edges. This is the
fact Gibbs' step 3 relies on (a set that contains no other element of `R` is a single cycle); the link to the
array code of step 3 — and with it `gibbs_kept_is_cycle`, `len(V) ≤ n`, the full totality and the counts — is NOT
proved. -/
theorem minimal_even_set_is_cycle (n : Nat) (t : List Nat) (hnd : t.Nodup) (hne : t ≠ [])
    (hcodes : ∀ z ∈ t, ∃ p q, p < n ∧ q < n ∧ p ≠ q ∧ z = Model.edgeCode p q) (hev : EvenSet n t)
    (hmin : ∀ u : List Nat, u.Nodup → u ≠ [] → (∀ z ∈ u, z ∈ t) → EvenSet n u → ∀ z ∈ t, z ∈ u) :
    ∃ c, IsCycleSeq (codeG n t) c ∧ t.Perm (cycCodes c) :=
  minimal_even_is_cycle hnd hne hcodes hev hmin

/-- `NumberOfCycles`, Gibbs' step 3 (the swap-remove loop `for j := len(R)-1; j >= 0; j--`), abstractly: let `R0` be
the original list (strictly increasing lists) and `Good` a property such that every element of `R0` contains a good
element of `R0`. Along the loop every element of the current `R` is an element of `R0`, and every element of `R0`
still contains an element of the current `R` (a removed set contains the set that caused its removal); hence an
element that is tested and not removed is good. So every element of the returned `R` is good. -/
theorem gibbs_step3_kept (Good : List Nat → Prop) (R0 : List (List Nat))
    (hs0 : ∀ V ∈ R0, V.Pairwise (· < ·))
    (hC : ∀ V ∈ R0, ∃ W ∈ R0, Good W ∧ ∀ x ∈ W, x ∈ V) (R' : Array (List Nat)) (P' : List (List Nat))
    (h : Model.gibbsStep3 R0.length R0.toArray [] = .ok (R', P')) : ∀ V ∈ R'.toList, Good V := by
  intro V hV
  have := gibbsStep3_kept Good R0 hs0 hC R0.length R0.toArray [] R' P' (by simp)
    (fun k hk => by
      have hk' : k < R0.length := by simpa using hk
      have : R0.toArray[k] = R0[k] := by simp
      rw [this]; exact List.getElem_mem hk')
    (fun W hW => by
      obtain ⟨k, hk, hkW⟩ := List.getElem_of_mem hW
      refine ⟨k, by simpa using hk, fun x hx => ?_⟩
      have : R0.toArray[k]'(by simpa using hk) = W := by simpa using hkW
      rw [this] at hx; exact hx) h V hV
  rcases this with ⟨k, hk, hjk, _⟩ | hg
  · simp at hk hjk; omega
  · exact hg

/-- `NumberOfCycles`, Gibbs' selection is sound: on a connected simple block `a`, every set kept in `S` at the end
of Gibbs' loop is the sorted edge-code list of a simple cycle of `a`, and therefore has at most `n` elements — the
index `numberFound[len(V)]` of the final loop is in range. Proof, per fundamental cycle `fc` with private non-tree
edge `e`: an element `V = t XOR fc` of `R` is even (`gibbs_sets_even`) and contains `e`; by
`even_set_edge_on_cycle` there is a simple cycle `W ⊆ V` through `e`; by the spanning property for even sets
(`even_span`) `W` is the XOR of fundamental cycles whose private edges lie on `W ⊆ V`, so they are `fc` and earlier
ones, i.e. `W = t' XOR fc` with `t' ∈ Q` (stage-wise `gibbs_Q_span`), and `t'` meets `fc` because otherwise
`fc ⊆ W ⊆ V`, which the length test `len(tmp) != len(t) + len(fc)` excludes (`sXor_length`); so `W ∈ R`, and
`gibbs_step3_kept` applies with `Good` = "is a simple cycle". -/
theorem gibbs_kept_is_cycle (a : G) (hsym : ∀ u v, a.adj u v = a.adj v u) (hirr : ∀ v, a.adj v v = false)
    (hn : 0 < a.n) (hconn : ∀ x, x < a.n → Reach a 0 x) (fuel : Nat) (st : Model.PatonSt)
    (hres : Model.patonLoop a fuel (patonInit a.n) = .ok st)
    (f0 : List Nat) (fs : List (List Nat)) (hfund : st.fund = f0 :: fs) (gs : Model.GibbsSt)
    (hg : Model.gibbsLoop fs { S := [f0], Q := [f0] } = .ok gs) :
    ∀ V ∈ gs.S, IsCycCode a V ∧ V.length ≤ a.n :=
  gibbs_kept_cycle a hsym hirr hn hconn fuel st hres f0 fs hfund gs hg

/-- **`NumberOfCycles` never panics.** For every simple graph `g` the faithful model of `NumberOfCycles`
(`BiconnectedComponents`, then per block Paton's fundamental cycles, Gibbs' loop, and the counting loop
`numberFound[len(V)]++`) returns a list of length `n + 1`: no index is out of range, no loop runs out of fuel. The
last step is in range because every set kept by Gibbs' loop is a single simple cycle of the block
(`gibbs_kept_is_cycle`), hence has at most `len(bicom) ≤ n` edges; the blocks are connected
(`bicon_blocks_connected`) and `InducedSubgraph(g, bicom)` inherits the walks (`walk_to_induced`).
NOT proved: the counts themselves (`numCycles_spec`) — that every simple cycle of a block is kept exactly once
(completeness of step 3: a single cycle in `R` contains no other element of `R`, and `Q` has no duplicates); the
counts are validated per input (`F=ok` for `m - n ≤ 12`; Go vs reference for `m - n ≤ 14`). -/
theorem numberOfCycles_model_total (g : G) (hsym : ∀ u v, g.adj u v = g.adj v u) (hirr : ∀ v, g.adj v v = false) :
    ∃ r, Model.numberOfCycles g = .ok r ∧ r.length = g.n + 1 :=
  numberOfCycles_total g hsym hirr

/-! ## Invariance under relabelling

`g.induced p` for a permutation `p` of `0..n-1` is the relabelled graph (`InducedSubgraph(g, p)` /
`EG.Relabel(p)` of the harness): its vertex `i` is vertex `p[i]` of `g`. -/

/-- distances are unchanged, up to the relabelling itself -/
theorem dist_relabel (g : G) (p : List Nat) (hp : IsPermOf g.n p) (i j : Nat) (hi : i < g.n) (hj : j < g.n) :
    dist (g.induced p) i j = dist g (p.getD i 0) (p.getD j 0) :=
  dist_induced hp hi hj

/-- connectivity, eccentricities (up to the relabelling), diameter, radius and girth are unchanged -/
theorem invariants_relabel (g : G) (p : List Nat) (hp : IsPermOf g.n p) :
    connectedB (g.induced p) = connectedB g ∧
    (∀ i, i < g.n → ecc (g.induced p) i = ecc g (p.getD i 0)) ∧
    diameter (g.induced p) = diameter g ∧ radius (g.induced p) = radius g ∧
    girth (g.induced p) = girth g := by
  refine ⟨connectedB_induced hp, fun i hi => ecc_induced hp hi, (diameter_radius_induced hp).1,
    (diameter_radius_induced hp).2, ?_⟩
  unfold girth
  rw [girthOpt_induced hp]

/-- reachability — hence the partition into connected components and `ConnectedComponent` — is unchanged, up to
the relabelling itself -/
theorem reach_relabel (g : G) (p : List Nat) (hp : IsPermOf g.n p) (i j : Nat) (hi : i < g.n) (hj : j < g.n) :
    Reach (g.induced p) i j ↔ Reach g (p.getD i 0) (p.getD j 0) := by
  constructor
  · rintro ⟨k, hk⟩; exact ⟨k, (walk_induced_iff hp hi hj).1 hk⟩
  · rintro ⟨k, hk⟩; exact ⟨k, (walk_induced_iff hp hi hj).2 hk⟩

example : IsPermOf (ofEdges 3 [(0, 1), (1, 2)]).n [2, 0, 1] := by unfold IsPermOf; decide  -- non-vacuity

/-! ## Faithful model of `Girth` -/

/-- The statement-by-statement model of `Girth(g)` — BFS from the roots `0 .. n-3` with the early cut-off
`distances[k]+2 < girth` and the `parentVertices` array that is *not* reset between roots — returns the girth
(`-1` for acyclic graphs and for `n < 3`) for every graph with a symmetric loop-free adjacency relation and every
fuel `≥ n + 2`; in particular it never panics. -/
theorem girth_model_correct (g : G) (hsym : ∀ u v, g.adj u v = g.adj v u) (hirr : ∀ v, g.adj v v = false)
    (fuel : Nat) (hf : g.n + 2 ≤ fuel) :
    Model.girthM g fuel = .ok (girth g) :=
  girthM_eq_girth g hsym hirr fuel hf

example : Model.girthM (ofEdges 5 [(0, 1), (1, 2), (2, 3), (3, 4), (0, 4), (1, 3)]) = .ok 3 := by decide  -- test

/-- non-vacuity of the hypotheses `hsym`, `hirr` used above: every parsed graph satisfies them -/
example (n : Nat) (es : List (Nat × Nat)) :
    (∀ u v, (ofEdges n es).adj u v = (ofEdges n es).adj v u) ∧ (∀ v, (ofEdges n es).adj v v = false) :=
  ⟨(ofEdges_wf n es).symm, (ofEdges_wf n es).irrefl⟩

/-- **Stale-entry lemma** for the reused `parentVertices` array: started with an *arbitrary* parent array `P0`
(of length `n`), the root loop of `Girth` ends with the `girth` variable equal to the girth of the graph
(`n + 2` = "no cycle found"). The BFS from root `i` skips the edge from `i` to the vertex left in
`parentVertices[i]` by an earlier root; the proof shows that a cycle through that edge is still found, with its
true length, when the BFS reaches the other end of the edge, and that every other cycle through `i` lies in the
graph without that edge (`Lemmas/DistanceGirthComb.lean`, `DistanceGirthComplete.lean`). -/
theorem girth_stale_parent (g : G) (hsym : ∀ u v, g.adj u v = g.adj v u) (hirr : ∀ v, g.adj v v = false)
    (fuel : Nat) (hf : g.n + 2 ≤ fuel) (P0 : Array Nat) (hP0 : P0.size = g.n) :
    ∃ st, Model.girthRoots g fuel (List.range (g.n - 2))
        { girth := g.n + 2, D := Array.replicate g.n 0, P := P0, Q := [] } = .ok st ∧
      (girthOpt g = none → st.girth = g.n + 2) ∧ (∀ l, girthOpt g = some l → st.girth = l) :=
  girthRoots_any_parents g hsym hirr fuel hf P0 hP0

end GDist
