import Mamba.Lemmas.C06Hand4
import Mamba.Lemmas.C06AddEdge3
import Mamba.Lemmas.C06Compl2
import Mamba.Lemmas.C06Partite2
import Mamba.Lemmas.C06Line3
import Mamba.Lemmas.C06Fam4
import Mamba.Lemmas.C06Sparse2
import Mamba.Lemmas.C06Trans
import Mamba.Lemmas.C06Snark2
import Mamba.Lemmas.C06Rook
import Mamba.Lemmas.C06Folded
import Mamba.Lemmas.C06Induced3
import Mamba.Lemmas.C06BiKneser
import Mamba.Lemmas.C06Prufer
import Mamba.Lemmas.C06Multi2
import Mamba.Lemmas.C06Tseq
import Mamba.Lemmas.C06PruferTree
/-!
# C06 — every graph the library constructs is well formed and matches its definition

Definitions the statements are about:
* `Construct.*` (Model/Construct.lean): the executable models the driver `mdrv` runs; `Construct.Dense.WF`,
  `Construct.GraphI.Sound` state well-formedness of a stored value / of a value seen through the `Graph` interface;
* `Families.*` (Spec/Families.lean): the family and transformation definitions.
-/
namespace Construct
open GraphSpec

/-! ## The graph stored in a `*DenseGraph` and its observers -/

/-- The adjacency read off the byte array by `IsEdge` is symmetric, loop-free and supported on `0..n-1` by
construction (only the array size is needed). -/
theorem dense_abs_wf (d : Dense) (hs : d.edges.size = d.n * (d.n - 1) / 2) : d.abs.WF :=
  Dense.abs_wf d hs

/-- A well-formed stored value presents, through `N, M, IsEdge, Neighbours, Degrees`, exactly the graph `d.abs`:
no observer panics on in-range arguments, `M` is its number of edges, `Degrees` its degree sequence and
`Neighbours(v)` its neighbours of `v` in ascending order without repeats. -/
theorem dense_wf_sound (d : Dense) (h : d.WF) : GraphI.Sound d.toI d.abs := h.sound

/-- an abstract graph handed to a transformation by the driver (`ofSpec`) presents itself: the hypotheses
`g.Sound gs` of the transformation theorems below are satisfied by every input the driver feeds -/
theorem ofSpec_sound (g : G) : (ofSpec g).Sound g :=
  ⟨rfl, rfl, fun _ _ _ _ => rfl, fun _ _ => rfl, rfl⟩

/-! ## `NewDense` -/

/-- `NewDense(n, edges)` with a slice of the documented length returns a well-formed graph whose byte array is a
copy of `edges` (for **every** content of the bytes). -/
theorem newDense_wf (n : Nat) (edges : Array Nat) (hs : edges.size = n * (n - 1) / 2) :
    ∃ d, newDense n (some edges) = .ok d ∧ d.n = n ∧ d.edges = edges ∧ d.WF :=
  newDense_some n edges hs

example : ∃ d, newDense 3 (some #[1, 0, 7]) = .ok d ∧ d.n = 3 ∧ d.edges = #[1, 0, 7] ∧ d.WF :=
  newDense_wf 3 #[1, 0, 7] rfl

/-- a slice of any other length is rejected by the documented panic -/
theorem newDense_wrong_length (n : Nat) (edges : Array Nat) (hs : edges.size ≠ n * (n - 1) / 2) :
    newDense n (some edges) = .panic := by
  simp [newDense, hs]

/-- `NewDense(n, nil)` is the well-formed edgeless graph -/
theorem newDense_nil_wf (n : Nat) :
    newDense n none = .ok (newDenseNil n) ∧ (newDenseNil n).WF ∧ (newDenseNil n).abs = ⟨n, fun _ _ => false⟩ :=
  ⟨rfl, newDenseNil_wf n⟩

/-! ## Hand-filled families: well formed, and edge set = definition, for all accepted parameters -/

theorem completeGraph_spec (n : Nat) : ∃ d, completeGraph n = .ok d ∧ d.WF ∧ d.abs = Families.complete n :=
  completeGraph_ok n

/-- `CompletePartiteGraph(nums...)` for every list of part sizes (empty list and empty parts included): the stored
`M` (counted write by write) is the number of edges, the stored degree of a vertex is `n` minus the size of its part,
and two vertices are adjacent iff they lie in different parts. -/
theorem completePartiteGraph_spec (nums : List Nat) :
    ∃ d, completePartiteGraph nums = .ok d ∧ d.WF ∧ d.abs = Families.completePartite nums :=
  completePartiteGraph_ok nums

theorem path_spec (n : Nat) : ∃ d, path n = .ok d ∧ d.WF ∧ d.abs = Families.path n :=
  path_ok n

theorem star_spec (n : Nat) : ∃ d, star n = .ok d ∧ d.WF ∧ d.abs = Families.star n :=
  star_ok n

theorem cycle_spec (n : Nat) (hn : 3 ≤ n) : ∃ d, cycle n = .ok d ∧ d.WF ∧ d.abs = Families.cycle n :=
  cycle_ok n hn

example : ∃ d, cycle 3 = .ok d ∧ d.WF ∧ d.abs = Families.cycle 3 := cycle_spec 3 (by decide)

/-- `FlowerSnark(n)` for every accepted parameter (odd `n ≥ 3`) -/
theorem flowerSnark_spec (n : Nat) (hodd : n % 2 = 1) (hn : 3 ≤ n) :
    ∃ d, flowerSnark n = .ok d ∧ d.WF ∧ d.abs = Families.flowerSnark n :=
  flowerSnark_ok n hodd hn

example : ∃ d, flowerSnark 5 = .ok d ∧ d.WF ∧ d.abs = Families.flowerSnark 5 := flowerSnark_spec 5 (by decide) (by decide)

/-- every other parameter (even `n`, or `n < 3`) is a documented panic -/
theorem flowerSnark_rejects_even_or_small (n : Nat) (h : n % 2 = 0 ∨ n < 3) : flowerSnark n = .panic :=
  flowerSnark_rejects n h

/-- `Cycle(n)` for `n < 3` is the documented panic -/
theorem cycle_rejects (n : Nat) (hn : n < 3) : cycle n = .panic := by
  simp [cycle, hn]

/-! ## `AddEdge` and the families built by `NewDense(n, nil)` + `AddEdge` -/

/-- `(*DenseGraph).AddEdge(i, j)` on a well-formed graph with in-range arguments does not panic, keeps it well formed
and adds exactly the edge `ij` (nothing when `i = j` or the edge is present). -/
theorem addEdge_preserves_WF (d : Dense) (h : d.WF) (i j : Nat) (hi : i < d.n) (hj : j < d.n) :
    ∃ d', addEdge d i j = .ok d' ∧ d'.WF ∧ d'.n = d.n ∧ d'.abs = Families.addEdge d.abs i j :=
  addEdge_ok d h i j hi hj

example : ∃ d', addEdge (newDenseNil 3) 0 2 = .ok d' ∧ d'.WF ∧ d'.n = 3 ∧
    d'.abs = Families.addEdge (newDenseNil 3).abs 0 2 :=
  addEdge_preserves_WF _ (newDenseNil_wf 3).1 0 2 (by decide) (by decide)

/-- `g := NewDense(n, nil)` followed by `g.AddEdge` on any list of in-range pairs: no panic, well formed, and the
edge set is exactly the set of non-loop pairs of the list (`ofPairs`). -/
theorem buildByAddEdge_wf (n : Nat) (ps : List (Nat × Nat)) (h : ∀ p ∈ ps, p.1 < n ∧ p.2 < n) :
    ∃ d, buildByAddEdge n ps = .ok d ∧ d.WF ∧ d.n = n ∧ d.abs = ofPairs n ps :=
  buildByAddEdge_ok n ps h

example : ∃ d, buildByAddEdge 3 [(0, 1), (1, 0), (2, 2)] = .ok d ∧ d.WF ∧ d.n = 3 ∧ d.abs = ofPairs 3 [(0, 1), (1, 0), (2, 2)] :=
  buildByAddEdge_wf 3 _ (by decide)

/-- `RandomGraph(n, p, seed)` is well formed on `n` vertices for **every** random stream (`coin k` = outcome of the
`k`th evaluation of `r.Float64() < p`). -/
theorem randomGraph_wf (n : Nat) (coin : Nat → Bool) : ∃ d, randomGraph n coin = .ok d ∧ d.WF ∧ d.n = n :=
  randomGraph_ok n coin

/-! ## Complement: `ComplementDense` and the live `Complement` view -/

/-- `ComplementDense(g)` for **every** input that presents a well-formed graph `gs` through the interface:
no panic, the result is well formed (the stored `M` and `Degrees`, which the code derives from `g.M()` and
`g.Degrees()`, agree with the bytes it writes) and it is the complement of `gs`. -/
theorem complementDense_spec (g : GraphI) (gs : G) (hs : g.Sound gs) (hw : gs.WF) :
    ∃ d, complementDense g = .ok d ∧ d.WF ∧ d.abs = gs.complement :=
  complementDense_ok g gs hs hw

example : ∃ d, complementDense (newDenseNil 3).toI = .ok d ∧ d.WF ∧ d.abs = (newDenseNil 3).abs.complement :=
  complementDense_spec _ _ (newDenseNil_wf 3).1.sound (Dense.abs_wf _ (newDenseNil_wf 3).1.size_edges)

/-- The `Complement` view: every observer is a function of the underlying graph, and together they present the
complement of whatever the underlying value presents at the time of the call (so the view tracks later edits). -/
theorem complementView_spec (c : GraphI) (g : G) (hs : c.Sound g) (hw : g.WF) :
    (complementView c).Sound g.complement :=
  complementView_sound c g hs hw

example : (complementView (newDenseNil 3).toI).Sound (newDenseNil 3).abs.complement :=
  complementView_spec _ _ (newDenseNil_wf 3).1.sound (Dense.abs_wf _ (newDenseNil_wf 3).1.size_edges)

/-! ## `LineGraphDense` (and `RookGraph`) -/

/-- `LineGraphDense(g)` for **every** input that presents a graph `gs` through the interface with `M()` equal to its
number of edges: no panic (in particular every index `(mIndex*(mIndex-1))/2+k` is in range), the result is well
formed, its vertices are the edges of `gs` in DenseGraph order and two are adjacent iff the edges share an end point. -/
theorem lineGraphDense_spec (g : GraphI) (gs : G) (hs : g.Sound gs) :
    ∃ d, lineGraphDense g = .ok d ∧ d.WF ∧ d.abs = Families.lineGraph gs :=
  lineGraphDense_ok g gs hs

example : ∃ d, lineGraphDense (newDenseNil 3).toI = .ok d ∧ d.WF ∧ d.abs = Families.lineGraph (newDenseNil 3).abs :=
  lineGraphDense_spec _ _ (newDenseNil_wf 3).1.sound

/-- `RookGraph(n, m) = LineGraphDense(CompletePartiteGraph(n, m))` is well formed and is the rook graph of the `n × m`
board: cell (row `r`, column `c`) is vertex `c * n + r`, two cells adjacent iff they share a row or a column. -/
theorem rookGraph_spec (n m : Nat) :
    ∃ d, rookGraph n m = .ok d ∧ d.WF ∧ d.abs = Families.rook n m := by
  obtain ⟨k, h1, h2, h3⟩ := completePartiteGraph_ok [n, m]
  obtain ⟨d, g1, g2, g3⟩ := lineGraphDense_ok k.toI k.abs h2.sound
  exact ⟨d, by simp [rookGraph, h1, g1], g2, by rw [g3, h3, lineGraph_kpart]⟩

/-! ## Families built through `AddEdge`: well formed (by `addEdge_preserves_WF`) and edge set = definition -/

theorem friendshipGraph_spec (n : Nat) :
    ∃ d, friendshipGraph n = .ok d ∧ d.WF ∧ d.abs = Families.friendship n :=
  friendshipGraph_ok n

/-- all accepted parameters: `n ≥ 3`, `0 ≤ k ≤ (n-1)/2` (the code accepts `k = 0`, where `v_i v_{i+k}` is a loop and is dropped) -/
theorem generalisedPetersenGraph_spec (n k : Nat) (hn : 3 ≤ n) (hk : k ≤ (n - 1) / 2) :
    ∃ d, generalisedPetersenGraph n (k : Int) = .ok d ∧ d.WF ∧ d.abs = Families.generalisedPetersen n k :=
  generalisedPetersenGraph_ok n k hn hk

example : ∃ d, generalisedPetersenGraph 5 (2 : Nat) = .ok d ∧ d.WF ∧ d.abs = Families.generalisedPetersen 5 2 :=
  generalisedPetersenGraph_spec 5 2 (by decide) (by decide)

/-- the documented panics of `GeneralisedPetersenGraph` -/
theorem generalisedPetersenGraph_rejects (n : Nat) (k : Int) (h : n < 3 ∨ k < 0 ∨ k > ((n : Int) - 1) / 2) :
    generalisedPetersenGraph n k = .panic := by
  unfold generalisedPetersenGraph
  by_cases hn : n < 3
  · simp [hn]
  · have : k < 0 ∨ k > ((n : Int) - 1) / 2 := by omega
    simp [hn, this]

/-- `KneserGraph(n, k)`: vertex `i` is the `i`th `k`-subset in co-lexicographic order (`comb.Unrank`, assumed = `colexUnrank`),
adjacent iff disjoint -/
theorem kneserGraph_spec (n k : Nat) :
    ∃ d, kneserGraph n (k : Int) = .ok d ∧ d.WF ∧ d.abs = Families.kneser n k :=
  kneserGraph_ok n k

theorem hypercubeGraph_spec (dim : Nat) :
    ∃ d, hypercubeGraph dim = .ok d ∧ d.WF ∧ d.n = 2 ^ dim ∧ d.abs = Families.hypercube dim :=
  hypercubeGraph_ok dim

/-- `CirculantGraph(n, diffs...)` for every `n` and every list of (possibly negative or large) differences -/
theorem circulantGraph_spec (n : Nat) (diffs : List Int) :
    ∃ d, circulantGraph n diffs = .ok d ∧ d.WF ∧ d.abs = Families.circulant n diffs :=
  circulantGraph_ok n diffs

/-- `CirculantBipartiteGraph(n, m, diffs...)` whenever no remainder modulo 0 is taken -/
theorem circulantBipartiteGraph_spec (n m : Nat) (diffs : List Int) (hm : 0 < m ∨ n = 0 ∨ diffs = []) :
    ∃ d, circulantBipartiteGraph n m diffs = .ok d ∧ d.WF ∧ d.abs = Families.circulantBipartite n m diffs :=
  circulantBipartiteGraph_ok n m diffs hm

example : ∃ d, circulantBipartiteGraph 2 3 [1, -1] = .ok d ∧ d.WF ∧ d.abs = Families.circulantBipartite 2 3 [1, -1] :=
  circulantBipartiteGraph_spec 2 3 [1, -1] (Or.inl (by decide))

/-- `BipartiteKneserGraph(n, k)` for every `k` (`k ≤ n`; for `k > n` both sides are empty): `k`-subsets on one side,
`(n-k)`-subsets on the other (both in co-lexicographic order), two sets on different sides adjacent iff one contains the
other. (The code compares the intersection size with `min(k, n-k)`; `colexUnrank` is proved duplicate-free.) -/
theorem bipartiteKneserGraph_spec (n k : Nat) :
    ∃ d, bipartiteKneserGraph n (k : Int) = .ok d ∧ d.WF ∧ d.abs = Families.bipartiteKneser n k :=
  bipartiteKneserGraph_full n k

/-- `FoldedHypercubeGraph(dim)`, `dim ≥ 1`: the `(dim-1)`-cube with every vertex also joined to its antipode
(the loop over `i < 2^(dim-2)` with `mask &^ i` reaches every antipodal pair exactly once). -/
theorem foldedHypercubeGraph_spec (dim : Nat) (hd : 1 ≤ dim) :
    ∃ d, foldedHypercubeGraph dim = .ok d ∧ d.WF ∧ d.abs = Families.foldedHypercube dim :=
  foldedHypercubeGraph_ok dim hd

example : ∃ d, foldedHypercubeGraph 1 = .ok d ∧ d.WF ∧ d.abs = Families.foldedHypercube 1 :=
  foldedHypercubeGraph_spec 1 (by decide)

/-- `FoldedHypercubeGraph(0)` is the documented panic -/
theorem foldedHypercubeGraph_rejects : foldedHypercubeGraph 0 = .panic := rfl

/-! ## `NewSparse` -/

/-- `NewSparse(n, neighbourhoods)` for **every** family of `n` neighbour lists that describes a graph (in range,
loop-free, symmetric) — in any order and with repeats: the value presents exactly that graph through the interface
(`M` = number of edges, `Degrees`, `Neighbours` ascending without repeats, `IsEdge` by either end point). -/
theorem newSparse_wf (n : Nat) (L : List (List Nat)) (hlen : L.length = n)
    (hL : ∀ u, u < n → ∀ v ∈ L.getD u [], v < n ∧ v ≠ u ∧ u ∈ L.getD v []) :
    ∃ s, newSparse n (some L) = .ok s ∧ s.toI.Sound (sparseSpec n L) ∧ (sparseSpec n L).WF :=
  newSparse_ok n L hlen hL

example : ∃ s, newSparse 3 (some [[2, 1, 1], [0], [0, 0]]) = .ok s ∧ s.toI.Sound (sparseSpec 3 [[2, 1, 1], [0], [0, 0]]) ∧
    (sparseSpec 3 [[2, 1, 1], [0], [0, 0]]).WF :=
  newSparse_wf 3 _ rfl (by decide)

/-- the nil slice is the list of `n` empty neighbourhoods; a wrong number of lists is the documented panic -/
theorem newSparse_nil_and_wrong_length (n : Nat) :
    newSparse n none = newSparse n (some (List.replicate n [])) ∧
    ∀ L : List (List Nat), L.length ≠ n → newSparse n (some L) = .panic := by
  refine ⟨rfl, ?_⟩
  intro L h
  simp [newSparse, h]

/-! ## `SplitEdge`, `Contract` (expressed through the elementary edits an `EditableGraph` promises) -/

/-- `SplitEdge(g, i, j)` = `RemoveEdge(i, j); AddVertex([i, j])` yields exactly the graph of the definition
(edge `ij` removed if present, new vertex `n` joined to `i` and `j`), for every well-formed `g` and valid `i ≠ j`. -/
theorem splitEdge_spec (g : G) (hg : g.WF) (i j : Nat) (hij : i ≠ j) (hi : i < g.n) (hj : j < g.n) :
    splitEdge g i j = .ok (Families.splitEdge g i j) :=
  splitEdge_ok g hg i j hij hi hj

example : splitEdge (Families.path 3) 0 1 = .ok (Families.splitEdge (Families.path 3) 0 1) :=
  splitEdge_spec _ (symm_wf _ _) 0 1 (by decide) (by decide) (by decide)

/-- `SplitEdge(g, i, i)` is the documented panic -/
theorem splitEdge_rejects_loop (g : G) (i : Nat) : splitEdge g i i = .panic := splitEdge_rejects g i

/-- `Contract(g, i, j)` = `AddEdge(i, v)` for every neighbour `v` of `j`, then `RemoveVertex(j)`, yields exactly the
graph of the definition, for every well-formed `g` (also when `ij` is not an edge, and when `i = j`). -/
theorem contract_spec (g : G) (hg : g.WF) (i j : Nat) (hi : i < g.n) :
    contract g i j = Families.contract g i j :=
  contract_ok g hg i j hi

/-! ## The `InducedSubgraph` view; decoders and `RandomTree` -/

/-- The `InducedSubgraph` view over a duplicate-free in-range vertex list `V`: every observer (`N`, `M`, `IsEdge`,
`Neighbours` — ascending, without repeats — and `Degrees`) is a function of the underlying graph, and together they
present the induced subgraph `gs.induced V` (vertex `i` ↦ `V[i]`) of whatever the underlying value presents at the time
of the call. (`sort.Sort` is modelled by a merge sort; for duplicate-free `V` the sorted order is unique.) -/
theorem inducedView_spec (g : GraphI) (gs : G) (hs : g.Sound gs) (hw : gs.WF) (V : List Nat) (hV : V.Nodup)
    (hr : ∀ x ∈ V, x < gs.n) : (inducedView g V).Sound (gs.induced V) :=
  inducedView_sound g gs hs hw V hV hr

example : (inducedView (newDenseNil 3).toI [2, 0]).Sound ((newDenseNil 3).abs.induced [2, 0]) :=
  inducedView_spec _ _ (newDenseNil_wf 3).1.sound (Dense.abs_wf _ (newDenseNil_wf 3).1.size_edges) [2, 0] (by decide) (by decide)

/-- `PruferDecode(p)` for every code whose entries are vertices (`< len(p) + 2`): no panic, the result is well formed
and it is a labelled tree on `len(p) + 2` vertices (`Codec.IsTree`: `n - 1` edges and connected).
Proved by showing that this model computes the same byte array as the C07 model `Codec.pruferDecode`
(`pruferDecode_sim`) and reusing `Codec.prufer_decode_tree`. -/
theorem pruferDecode_spec (p : List Nat) (hp : ∀ v ∈ p, v < p.length + 2) :
    ∃ d, pruferDecode p = .ok d ∧ d.WF ∧ d.n = p.length + 2 ∧ Codec.IsTree d.abs :=
  pruferDecode_tree p hp

example : ∃ d, pruferDecode [3, 3, 0] = .ok d ∧ d.WF ∧ d.n = 5 ∧ Codec.IsTree d.abs :=
  pruferDecode_spec [3, 3, 0] (by decide)

/-- `RandomTree(n, seed)`, `n ≥ 2`, for **every** stream of draws `r.Intn(n) < n`: no panic, a well-formed labelled tree
on `n` vertices. -/
theorem randomTree_spec (n : Nat) (hn : 2 ≤ n) (draw : Nat → Nat) (hdraw : ∀ i, draw i < n) :
    ∃ d, randomTree n draw = .ok d ∧ d.WF ∧ d.n = n ∧ Codec.IsTree d.abs :=
  randomTree_tree n hn draw hdraw

example : ∃ d, randomTree 4 (fun _ => 3) = .ok d ∧ d.WF ∧ d.n = 4 ∧ Codec.IsTree d.abs :=
  randomTree_spec 4 (by decide) _ (fun _ => by decide)

/-- `RandomTree(n)` for `n < 2` dies in `make([]int, n-2)` -/
theorem randomTree_small (n : Nat) (hn : n < 2) (draw : Nat → Nat) : randomTree n draw = .panic := by
  simp [randomTree, hn]

/-- `MulticodeDecode` on the multicode of any well-formed graph `gs` (`multicodeOf gs`: the byte `n`, then for every
vertex but the last its larger neighbours plus one, then `0`; bytes are modelled as `Nat`, i.e. `n ≤ 255`): no panic, the
hand-kept `M` and `Degrees` are consistent with the bytes written (each non-zero byte does exactly what `AddEdge` does
for a new edge), and the decoded graph is `gs`. -/
theorem multicodeDecode_spec (gs : G) (hg : gs.WF) :
    ∃ d, multicodeDecode (multicodeOf gs) = .ok d ∧ d.WF ∧ d.abs = gs :=
  multicodeDecode_ok gs hg

example : ∃ d, multicodeDecode (multicodeOf (Families.cycle 3)) = .ok d ∧ d.WF ∧ d.abs = Families.cycle 3 :=
  multicodeDecode_spec _ (symm_wf _ _)

/-! ## Sequences of `Contract` / `SplitEdge` applied in place -/

/-- every graph produced along a sequence of `Contract` / `SplitEdge` steps (as the definitions prescribe them) is a
well-formed abstract graph, whatever the start graph and the arguments -/
theorem tseq_spec (ops : List TOp) (g : G) (gs : List G) (e : tseq tstepSpec g ops = .ok gs) : ∀ h ∈ gs, h.WF :=
  tseq_wf_all ops g gs e

/-- along every valid sequence (arguments are vertices of the current graph, distinct for `SplitEdge`) the steps as the
code performs them (`RemoveEdge; AddVertex` resp. `AddEdge…; RemoveVertex`) produce exactly the prescribed graphs -/
theorem tseq_model_refines (ops : List TOp) (g : G) (hg : g.WF) (hv : ValidSeq g ops) :
    tseq tstepModel g ops = tseq tstepSpec g ops :=
  tseq_refines ops g hg hv

example : tseq tstepModel (Families.complete 5) [TOp.c 0 1, TOp.s 0 1] = tseq tstepSpec (Families.complete 5) [TOp.c 0 1, TOp.s 0 1] :=
  tseq_model_refines _ _ (symm_wf _ _) (by
    refine ⟨⟨by decide, by decide⟩, ?_⟩
    intro h e; simp only [tstepSpec, Outcome.ok.injEq] at e; subst e
    refine ⟨⟨by decide, by decide, by decide⟩, ?_⟩
    intro h e; trivial)

end Construct
