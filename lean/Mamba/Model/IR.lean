import Mamba.Spec.Graph
/-!
# Unpruned individualisation–refinement tree over colourings (pattern A model of `graph/canonical.go`)

This is **not** a transliteration of the Go search. It is the abstract algorithm the Go code implements with
pruning heuristics and scratch storage removed:

* a node of the search tree is a colouring `c : vertex ↦ cell index` (Go: `inCell`) together with the number of
  cells and the worklist `binsToCheck`;
* one refinement pass with splitter cell `i` (`equitableRefinementProcedure`, one iteration of the outer loop):
  the new colour of `v` is the rank of the key `(c v, #neighbours of v in cell i)` among the distinct keys
  (counts are taken before any split, fragments of a cell are ordered by ascending count; `maxCell == 1` is the same
  thing specialised); the worklist becomes {first fragment of every old entry} ∪ {all fragments of every split cell};
  the next splitter is the largest entry;
* the target cell is the first non-singleton cell; the children individualise each of its vertices
  (`splitBin`: `v ↦ t`, the rest of the cell `t+1`, later cells shifted by one, worklist `{t, t+1}`);
* leaves are discrete colourings; the certificate of a leaf is the sorted list of edge codes `j(j-1)/2+k`
  (`expandValue`); the canonical certificate is the lexicographic maximum over **all** leaves.

There is no "order inside a cell" in the model, no first-leaf/best-leaf bookkeeping, no orbit pruning, no partial
certificate pruning. The tie with the Go code is at certificate level (DESIGN §5): the Go canonical graph must be the
graph decoded from the model's maximal certificate, and the Go orbits / generated group must be those of the
automorphisms read off the equal-certificate leaves.

Core Lean only (the driver links this file). Theorems are in `Mamba/Lemmas/IR*.lean` and `Mamba/Props/C01.lean`,
`Mamba/Props/C02.lean`; they are stated about exactly these definitions.
-/
namespace IR

/-- a graph given by neighbour lists (`adj[v]` = neighbours of `v`) -/
structure G where
  n : Nat
  adj : Array (List Nat)

def G.nbrs (g : G) (v : Nat) : List Nat := g.adj.getD v []

/-- colour of a vertex (vertices outside the array have colour 0; never used for `v < n`, see `col_tab`) -/
def col (c : Array Nat) (v : Nat) : Nat := c.getD v 0

/-- tabulate a colouring on `0..n-1` -/
def tab (n : Nat) (f : Nat → Nat) : Array Nat := ((List.range n).map f).toArray

/-- remove repeated elements (keeps the last occurrence; same function as Mathlib's `List.dedup`) -/
def dedup : List Nat → List Nat
  | [] => []
  | x :: xs => if x ∈ xs then dedup xs else x :: dedup xs

/-- number of neighbours of `v` in cell `i` -/
def cnt (g : G) (c : Array Nat) (i v : Nat) : Nat := (g.nbrs v).countP (fun w => col c w == i)

/-- the pair `(colour, count)` packed into one number (`count ≤ n`) -/
def key (g : G) (c : Array Nat) (i v : Nat) : Nat := col c v * (g.n + 1) + cnt g c i v

def keys (g : G) (c : Array Nat) (i : Nat) : List Nat := (List.range g.n).map (key g c i)

/-- rank of `k` among the distinct keys `ds` -/
def rank (ds : List Nat) (k : Nat) : Nat := (ds.filter (· < k)).length

/-- number of fragments of old cell `x` -/
def frags (n : Nat) (ds : List Nat) (x : Nat) : Nat := (ds.filter (fun k => k / (n + 1) == x)).length

structure St where
  c : Array Nat
  cells : Nat
  work : List Nat

/-- one refinement pass with splitter cell `i`; `rest` is the worklist after popping `i` -/
def pass (g : G) (s : St) (i : Nat) (rest : List Nat) : St :=
  let ds := dedup (keys g s.c i)
  let first := fun x => rank ds (x * (g.n + 1))
  { c := tab g.n (fun v => rank ds (key g s.c i v))
    cells := ds.length
    work := dedup (rest.map first ++ (List.range s.cells).flatMap (fun j =>
              if frags g.n ds j > 1 then (List.range (frags g.n ds j)).map (first j + ·) else [])) }

def popMax : List Nat → Option (Nat × List Nat)
  | [] => none
  | x :: xs => let m := xs.foldl max x; some (m, (x :: xs).erase m)

/-- refine until the worklist is empty (fuel `rf`; `4 n + 4` passes always suffice in practice, the driver gives
`n² + 10`; every theorem holds for every fuel) -/
def refine (g : G) : Nat → St → St
  | 0, s => s
  | fuel+1, s =>
    match popMax s.work with
    | none => s
    | some (i, rest) => refine g fuel (pass g s i rest)

def cellMembers (g : G) (c : Array Nat) (t : Nat) : List Nat := (List.range g.n).filter (fun v => col c v == t)

/-- first non-singleton cell -/
def target (g : G) (s : St) : Option Nat := (List.range s.cells).find? (fun t => (cellMembers g s.c t).length > 1)

/-- `splitBin`: `v` alone in cell `t`, the rest of the cell becomes `t+1`, later cells move up by one -/
def individualise (g : G) (s : St) (t v : Nat) : St :=
  { c := tab g.n (fun u => if u = v then t else if col s.c u > t then col s.c u + 1 else if col s.c u = t then t + 1 else col s.c u)
    cells := s.cells + 1
    work := [t, t+1] }

/-- all leaves of the unpruned tree below `s` (depth fuel: `n` always suffices, see `leaf_is_perm`) -/
def leaves (g : G) (rf : Nat) : Nat → St → List (Array Nat)
  | 0, s => [s.c]
  | fuel+1, s =>
    match target g s with
    | none => [s.c]
    | some t => (cellMembers g s.c t).flatMap (fun v => leaves g rf fuel (refine g rf (individualise g s t v)))

def tri (j : Nat) : Nat := j * (j - 1) / 2

/-- edge codes under the labelling `c` (each edge once, from its larger endpoint) -/
def codes (g : G) (c : Array Nat) : List Nat :=
  (List.range g.n).flatMap (fun u => (g.nbrs u).filterMap (fun v => if col c v < col c u then some (tri (col c u) + col c v) else none))

/-- leaf certificate = `op.value` at a leaf -/
def cert (g : G) (c : Array Nat) : List Nat := (codes g c).mergeSort (fun a b => decide (a ≤ b))

/-- initial colouring: `cls v` = index of the vertex class of `v` (`NewOrderedPartition`); every class bin is on the
initial worklist (`binsToCheck = [0, …, ncls-1]`) -/
def initSt (g : G) (ncls : Nat) (cls : Nat → Nat) : St := { c := tab g.n cls, cells := ncls, work := List.range ncls }

/-- no vertex classes = one class -/
def init (g : G) : St := initSt g 1 (fun _ => 0)

def rfuel (g : G) : Nat := g.n * g.n + 10

/-- all leaves from a start state -/
def allLeaves (g : G) (s : St) : List (Array Nat) := leaves g (rfuel g) g.n (refine g (rfuel g) s)

/-- maximum of a list of certificates in lexicographic order (`ints.Compare`) -/
def maxCert (cs : List (List Nat)) : List Nat := cs.foldl (fun b x => if b < x then x else b) []

def canonCertFrom (g : G) (s : St) : List Nat := maxCert ((allLeaves g s).map (cert g))

def canonCert (g : G) : List Nat := canonCertFrom g (init g)

/-- the graph on `n` vertices whose edge codes are `cs` -/
def ofCodes (n : Nat) (cs : List Nat) : G :=
  { n := n
    adj := ((List.range n).map (fun j => (List.range n).filter (fun k =>
              (k < j && cs.contains (tri j + k)) || (j < k && cs.contains (tri k + j))))).toArray }

/-- the canonical graph: decoded from the maximal leaf certificate -/
def canonGraphFrom (g : G) (s : St) : G := ofCodes g.n (canonCertFrom g s)
def canonGraph (g : G) : G := ofCodes g.n (canonCert g)

/-! ### automorphisms read off the leaves -/

/-- inverse of a discrete colouring: position ↦ vertex (the first vertex with colour `p`) -/
def invFn (n : Nat) (l : Array Nat) (p : Nat) : Nat := ((List.range n).find? (fun v => col l v == p)).getD 0

/-- `γ = ℓ⁻¹ ∘ ℓ₀` as an array (`op.order[firstLeafPermInv[i]]` in the Go code) -/
def autOf (n : Nat) (l0 l : Array Nat) : Array Nat :=
  let li := tab n (invFn n l)
  tab n (fun v => col li (col l0 v))

/-- the leaves with the same certificate as `l0` -/
def sameCertLeaves (g : G) (ls : List (Array Nat)) (l0 : Array Nat) : List (Array Nat) :=
  let c0 := cert g l0
  ls.filter (fun l => cert g l == c0)

/-- the automorphism group as a list (one element per equal-certificate leaf; `aut_iff_leaf`) -/
def autGroupFrom (g : G) (s : St) : List (Array Nat) :=
  match allLeaves g s with
  | [] => []
  | l0 :: ls => (sameCertLeaves g (l0 :: ls) l0).map (autOf g.n l0)

/-! ### conversion from / to the shared graph type -/

def ofSpec (g : GraphSpec.G) : G := { n := g.n, adj := ((List.range g.n).map g.nbrs).toArray }

def G.edges (g : G) : List (Nat × Nat) :=
  (List.range g.n).flatMap fun v => ((g.nbrs v).filter (· < v)).map fun u => (u, v)

/-- printed exactly like `GraphSpec.G.show` (neighbour lists of `ofCodes`/`ofSpec` are ascending) -/
def G.show (g : G) : String :=
  let es := g.edges
  "n=" ++ toString g.n ++ " m=" ++ toString es.length ++ " e=" ++ GraphSpec.showEdges es

/-- relabel: vertex `v` of `g` becomes `σ v` (`σ` a permutation of `0..n-1` given by its inverse `τ`) -/
def relabel (g : G) (σ τ : Nat → Nat) : G :=
  { n := g.n, adj := ((List.range g.n).map (fun u => (g.nbrs (τ u)).map σ)).toArray }

end IR
