import Mamba.Spec.Families
/-!
# C06 — faithful models of the graph constructors (core Lean only)

Anchors: `graph/generating.go`, `graph/transformation.go`, `graph/subgraph.go` (the `InducedSubgraph` view),
`graph/graph_dense.go` (`NewDense`, the observers and `AddEdge`), `graph/graph_sparse.go` (`NewSparse` and the
observers), `graph/encoding.go` (`PruferDecode`, `MulticodeDecode` as producers of graphs).

Conventions
* A `*DenseGraph` is the record `Dense` of the four struct fields exactly as the code stores them
  (`NumberOfVertices`, `NumberOfEdges`, `DegreeSequence`, `Edges`); bytes are modelled as `Nat`.
* Every Go index expression is `getAt`/`setAt` (→ `Outcome.panic` when out of range); a `for` loop that only writes
  `1` into the byte array is `writeOnes a idxs` where `idxs` lists the computed indices *in the order the loop visits
  them*, with the index expression copied from the code (`((i+1)*i)/2+i`, `(k*(k-1))/2+j`, …).
* A value of interface type `graph.Graph` passed *to* a function is a `GraphI`: the five observers, each of which may
  panic. Constructed graphs are turned into a `GraphI` by `Dense.toI` / `Sparse.toI`, which model the observer methods
  of the two representations. Views (`Complement`, `InducedSubgraph`) are functions `GraphI → GraphI`.
* External calls modelled by their specification (covered by C16/C17): `comb.Coeff`, `comb.Unrank`,
  `sortints.IntersectionSize`, `sortints.Complement`, `SortedInts.Remove`, `SortedInts.Add`, `sortints.ContainsSingle`,
  `sort.Ints`, `sort.Sort`, `ints.Sum`; `math/rand` is a stream parameter.
-/
namespace Construct
open GraphSpec

/-! ## Slices -/

def getAt {α : Type} (a : Array α) (i : Nat) : Outcome α :=
  if h : i < a.size then .ok a[i] else .panic

def setAt {α : Type} (a : Array α) (i : Nat) (x : α) : Outcome (Array α) :=
  if h : i < a.size then .ok (a.set i x) else .panic

/-- `a[i]++` -/
def incrAt (a : Array Int) (i : Nat) : Outcome (Array Int) := do
  let x ← getAt a i
  setAt a i (x + 1)

/-- `for … { edges[idx] = 1 }` over the listed indices, in order -/
def writeOnes (a : Array Nat) (idxs : List Nat) : Outcome (Array Nat) :=
  idxs.foldlM (fun a i => setAt a i 1) a

/-- `for i in is { d[i] = x }` -/
def writeAll (a : Array Int) (is : List Nat) (x : Int) : Outcome (Array Int) :=
  is.foldlM (fun a i => setAt a i x) a

/-- `make([]T, len)` with a Go `int` length: panics when negative -/
def makeInts (len : Int) : Outcome (Array Int) :=
  if len < 0 then .panic else .ok (Array.replicate len.toNat 0)

def zeros (len : Nat) : Array Nat := Array.replicate len 0

/-- the pairs `(i, j)`, `i < j < n`, in DenseGraph order 01 02 12 03 13 23 … (`for j { for i < j {…} }`) -/
def pairs (n : Nat) : List (Nat × Nat) :=
  (List.range n).flatMap fun j => (List.range j).map fun i => (i, j)

/-! ## The interface `graph.Graph` as seen by a callee -/

structure GraphI where
  n : Nat
  m : Outcome Int
  isEdge : Nat → Nat → Outcome Bool
  neighbours : Nat → Outcome (List Nat)
  degrees : Outcome (List Int)

/-- an abstract graph handed to the code under test (the harness builds it as a well-formed Dense/Sparse value) -/
def ofSpec (g : G) : GraphI :=
  { n := g.n
    m := .ok g.m
    isEdge := fun u v => .ok (g.adj u v)
    neighbours := fun v => .ok (g.nbrs v)
    degrees := .ok (g.degrees.map Int.ofNat) }

/-! ## `*DenseGraph` -/

structure Dense where
  n : Nat
  m : Int
  deg : Array Int
  edges : Array Nat
  deriving Repr, Inhabited

namespace Dense

/-- `DenseGraph.IsEdge` for non-negative arguments -/
def isEdge (g : Dense) (i j : Nat) : Outcome Bool :=
  if i ≥ g.n || j ≥ g.n then .ok false
  else if i < j then do
    let b ← getAt g.edges ((j * (j - 1)) / 2 + i)
    pure (decide (b > 0))
  else if i > j then do
    let b ← getAt g.edges ((i * (i - 1)) / 2 + j)
    pure (decide (b > 0))
  else .ok false

/-- `DenseGraph.Neighbours` -/
def neighbours (g : Dense) (v : Nat) : Outcome (List Nat) := do
  let c ← getAt g.deg v
  if c < 0 then .panic else            -- make([]int, 0, degrees[v])
  let tmp := (v * (v - 1)) / 2
  let r ← (List.range v).foldlM (fun (r : List Nat) i => do
      let b ← getAt g.edges (tmp + i)
      pure (if b > 0 then r ++ [i] else r)) []
  (List.range' (v + 1) (g.n - (v + 1))).foldlM (fun (r : List Nat) i => do
      let b ← getAt g.edges ((i * (i - 1)) / 2 + v)
      pure (if b > 0 then r ++ [i] else r)) r

def toI (g : Dense) : GraphI :=
  { n := g.n, m := .ok g.m, isEdge := g.isEdge, neighbours := g.neighbours, degrees := .ok g.deg.toList }

/-- total adjacency read off the byte array (what `isEdge` returns whenever it does not panic) -/
def adj (g : Dense) (i j : Nat) : Bool :=
  match g.isEdge i j with
  | .ok b => b
  | _ => false

/-- abstraction: the graph a `Dense` value represents -/
def abs (g : Dense) : G := { n := g.n, adj := g.adj }

end Dense

/-- `NewDense(n, nil)` -/
def newDenseNil (n : Nat) : Dense :=
  { n := n, m := 0, deg := Array.replicate n 0, edges := zeros ((n * (n - 1)) / 2) }

structure CountSt where
  deg : Array Int
  m : Int
  index : Nat

/-- `NewDense(n, edges)`; `edges = none` is the nil slice -/
def newDense (n : Nat) (edges : Option (Array Nat)) : Outcome Dense :=
  match edges with
  | none => .ok (newDenseNil n)
  | some edges =>
    if edges.size ≠ (n * (n - 1)) / 2 then .panic else do
    let copyOfEdges := edges                                  -- make + copy
    let st ← (pairs n).foldlM (fun (st : CountSt) (p : Nat × Nat) => do
        let b ← getAt edges st.index
        if b > 0 then
          let d ← incrAt st.deg p.1
          let d ← incrAt d p.2
          pure ⟨d, st.m + 1, st.index + 1⟩
        else pure ⟨st.deg, st.m, st.index + 1⟩) ⟨Array.replicate n 0, 0, 0⟩
    pure { n := n, m := st.m, deg := st.deg, edges := copyOfEdges }

/-- `(*DenseGraph).AddEdge(i, j)` -/
def addEdge (g : Dense) (i j : Nat) : Outcome Dense := do
  if i == j then return g
  if (← g.isEdge i j) then return g
  let d ← incrAt g.deg i
  let d ← incrAt d j
  let e ← (if i < j then setAt g.edges ((j * (j - 1)) / 2 + i) 1 else setAt g.edges ((i * (i - 1)) / 2 + j) 1 : Outcome (Array Nat))
  pure { n := g.n, m := g.m + 1, deg := d, edges := e }

/-- `g := NewDense(n, nil)` followed by `g.AddEdge` on the listed pairs, in order -/
def buildByAddEdge (n : Nat) (ps : List (Nat × Nat)) : Outcome Dense :=
  ps.foldlM (fun g p => addEdge g p.1 p.2) (newDenseNil n)

/-! ## Hand-filled constructors of `generating.go` -/

def completeGraph (n : Nat) : Outcome Dense := do
  let edges := zeros ((n * (n - 1)) / 2)
  let m : Int := ((n * (n - 1)) / 2 : Nat)
  let degrees : Array Int := Array.replicate n 0
  let degrees ← writeAll degrees (List.range degrees.size) ((n : Int) - 1)
  let edges ← writeOnes edges (List.range edges.size)
  pure { n := n, m := m, deg := degrees, edges := edges }

structure PartSt where
  edges : Array Nat
  deg : Array Int
  m : Int
  start : Nat
  stop : Nat

def completePartiteGraph (nums : List Nat) : Outcome Dense := do
  let n : Nat := nums.foldl (· + ·) 0
  let st ← nums.foldlM (fun (st : PartSt) v => do
      let stop := st.stop + v
      let degree : Int := (n : Int) - (v : Int)
      let deg ← writeAll st.deg (List.range' st.start (stop - st.start)) degree
      let idxs := (List.range' stop (n - stop)).flatMap fun k =>
        (List.range' st.start (stop - st.start)).map fun j => (k * (k - 1)) / 2 + j
      let edges ← writeOnes st.edges idxs
      pure { edges := edges, deg := deg, m := st.m + (idxs.length : Int), start := stop, stop := stop })
    { edges := zeros ((n * (n - 1)) / 2), deg := Array.replicate n 0, m := 0, start := 0, stop := 0 }
  pure { n := n, m := st.m, deg := st.deg, edges := st.edges }

def path (n : Nat) : Outcome Dense := do
  let edges ← writeOnes (zeros ((n * (n - 1)) / 2)) ((List.range (n - 1)).map fun i => ((i + 1) * i) / 2 + i)
  let degrees : Array Int := Array.replicate n 0
  let degrees ← (if n > 1 then do
      let d ← setAt degrees 0 1
      let d ← setAt d (n - 1) 1
      writeAll d (List.range' 1 (n - 1 - 1)) 2
    else pure degrees : Outcome (Array Int))
  let m : Int := if n == 0 then 0 else (n : Int) - 1
  pure { n := n, m := m, deg := degrees, edges := edges }

def cycle (n : Nat) : Outcome Dense := do
  if n < 3 then .panic else
  let edges ← writeOnes (zeros ((n * (n - 1)) / 2)) ((List.range (n - 1)).map fun i => ((i + 1) * i) / 2 + i)
  let edges ← setAt edges (((n - 1) * (n - 2)) / 2) 1
  let degrees : Array Int := Array.replicate n 0
  let degrees ← writeAll degrees (List.range degrees.size) 2
  pure { n := n, m := n, deg := degrees, edges := edges }

def star (n : Nat) : Outcome Dense := do
  let edges ← writeOnes (zeros ((n * (n - 1)) / 2)) ((List.range' 1 (n - 1)).map fun i => (i * (i - 1)) / 2)
  let degrees : Array Int := Array.replicate n 0
  let degrees ← (if n > 0 then do
      let d ← setAt degrees 0 ((n : Int) - 1)
      writeAll d (List.range' 1 (n - 1)) 1
    else pure degrees : Outcome (Array Int))
  let m : Int := if n == 0 then 0 else (n : Int) - 1
  pure { n := n, m := m, deg := degrees, edges := edges }

/-- the index writes of one round `i` of the `FlowerSnark` loop -/
def snarkIdxs (n i : Nat) : List Nat :=
  let a := 4 * i
  let b := a + 1
  let c := a + 2
  let d := a + 3
  [(b * (b - 1)) / 2 + a, (c * (c - 1)) / 2 + a, (d * (d - 1)) / 2 + a] ++
  (if i + 1 < n then
    [((b + 4) * (b + 3)) / 2 + b, ((c + 4) * (c + 3)) / 2 + c, ((d + 4) * (d + 3)) / 2 + d]
  else
    [(b * (b - 1)) / 2 + 1, (c * (c - 1)) / 2 + 3, (d * (d - 1)) / 2 + 2])

def flowerSnark (n : Nat) : Outcome Dense := do
  if n % 2 == 0 then .panic else
  if n < 3 then .panic else
  let N := 4 * n
  let edges ← writeOnes (zeros ((N * (N - 1)) / 2)) ((List.range n).flatMap (snarkIdxs n))
  newDense N (some edges)

/-! ## Families built by `NewDense(n, nil)` + `AddEdge` -/

def hypercubePairs (dim : Nat) : List (Nat × Nat) :=
  (List.range (1 <<< dim)).flatMap fun i => (List.range dim).map fun j => (i, i ^^^ (1 <<< j))

def hypercubeGraph (dim : Nat) : Outcome Dense :=
  buildByAddEdge (1 <<< dim) (hypercubePairs dim)

/-- Go's `mask &^ i` -/
def andNot (mask i : Nat) : Nat := mask ^^^ (mask &&& i)

def foldedHypercubeGraph (dim : Nat) : Outcome Dense := do
  if dim < 1 then .panic else
  let g ← hypercubeGraph (dim - 1)
  let mask := (1 <<< (dim - 1)) - 1
  -- `1<<uint(dim-2)`: for dim = 1 the shift count wraps to 2^64-1 and the result is 0
  let bound := if dim < 2 then 0 else 1 <<< (dim - 2)
  (List.range bound).foldlM (fun g i => addEdge g i (andNot mask i)) g

/-- `sortints.IntersectionSize` -/
def intersectionSize (a b : List Nat) : Nat := (a.filter fun x => b.contains x).length

/-- `comb.Coeff(n, k)` for `n ≥ 0` (`k < 0` gives 0); overflow is outside the modelled range -/
def coeff (n : Nat) (k : Int) : Nat := if k < 0 then 0 else Families.choose n k.toNat

def kneserGraph (n : Nat) (k : Int) : Outcome Dense :=
  let N := coeff n k
  let kk := k.toNat
  buildByAddEdge N ((List.range N).flatMap fun i =>
    ((List.range' i (N - i)).filter fun j =>
        intersectionSize (Families.colexUnrank i kk) (Families.colexUnrank j kk) == 0).map fun j => (i, j))

def bipartiteKneserGraph (n : Nat) (k : Int) : Outcome Dense :=
  let N := coeff n k
  let kk := k.toNat
  -- `smaller := k; if n-k < k { smaller = n-k }` (in Nat: the loop body runs only when 0 ≤ k ≤ n, where this is Go's value)
  let smaller := if n - kk < kk then n - kk else kk
  buildByAddEdge (N + N) ((List.range N).flatMap fun i =>
    ((List.range N).filter fun j =>
        intersectionSize (Families.colexUnrank i kk) (Families.colexUnrank j (n - kk)) == smaller).map fun j => (i, N + j))

/-- `(i + v) % n` with Go's truncated remainder, then `+= n` when negative -/
def modStep (i : Nat) (v : Int) (n : Nat) : Nat :=
  let t := Int.tmod ((i : Int) + v) (n : Int)
  (if t < 0 then t + (n : Int) else t).toNat

def circulantGraph (n : Nat) (diffs : List Int) : Outcome Dense :=
  buildByAddEdge n ((List.range n).flatMap fun i => diffs.map fun v => (i, modStep i v n))

def circulantBipartiteGraph (n m : Nat) (diffs : List Int) : Outcome Dense :=
  -- `% m` with m = 0 is an integer-divide-by-zero panic, reached only when the loop body runs
  if m == 0 && n > 0 && !diffs.isEmpty then .panic else
  buildByAddEdge (n + m) ((List.range n).flatMap fun i => diffs.map fun v => (i, n + modStep i v m))

def generalisedPetersenGraph (n : Nat) (k : Int) : Outcome Dense :=
  if n < 3 then .panic
  else if k < 0 || k > (((n : Int) - 1) / 2) then .panic
  else
    let kk := k.toNat
    buildByAddEdge (2 * n) ((List.range n).flatMap fun i =>
      [(i, (i + 1) % n), (i, n + i), (n + i, n + ((i + kk) % n))])

def friendshipGraph (n : Nat) : Outcome Dense :=
  buildByAddEdge (2 * n + 1) ((List.range n).flatMap fun i =>
    [(2 * i + 1, 2 * i + 2), (0, 2 * i + 1), (0, 2 * i + 2)])

/-- `RandomGraph(n, p, seed)`: `coin k` is the outcome of the `k`th evaluation of `r.Float64() < p` -/
def randomGraph (n : Nat) (coin : Nat → Bool) : Outcome Dense :=
  let ps := (List.range n).flatMap fun i => (List.range i).map fun j => (i, j)
  buildByAddEdge n (((List.range ps.length).zip ps).filterMap fun (k, p) => if coin k then some p else none)

/-! ## `transformation.go` -/

/-- `ComplementDense(g)` -/
def complementDense (g : GraphI) : Outcome Dense := do
  let n := g.n
  let m : Int := ((n * (n - 1) / 2 : Nat) : Int) - (← g.m)
  let oldDegrees := (← g.degrees).toArray
  let degrees : Array Int := Array.replicate n 0
  let degrees ← (List.range degrees.size).foldlM (fun d i => do
      let o ← getAt oldDegrees i
      setAt d i (((n : Int) - 1) - o)) degrees
  let edges := zeros ((n * (n - 1)) / 2)
  -- for i := 1; i < n; i++ { for j := 0; j < i; j++ { if !g.IsEdge(i, j) { edges[index] = 1 }; index++ } }
  let (edges, _) ← ((List.range' 1 (n - 1)).flatMap fun i => (List.range i).map fun j => (i, j)).foldlM
    (fun (st : Array Nat × Nat) (p : Nat × Nat) => do
      let b ← g.isEdge p.1 p.2
      let e ← (if !b then setAt st.1 st.2 1 else pure st.1 : Outcome (Array Nat))
      pure (e, st.2 + 1)) (edges, 0)
  pure { n := n, m := m, deg := degrees, edges := edges }

structure LineSt where
  edges : Array Nat
  lower : Array Nat
  upper : Array Nat
  mIndex : Nat

/-- the second inner loop of `LineGraphDense`: scan `upper` from the front, stop at the first entry above `i` -/
def lineScanUpper (i mIndex : Nat) : List (Nat × Nat) → Array Nat → Outcome (Array Nat)
  | [], e => .ok e
  | (k, v) :: rest, e =>
    if i == v then do
      let e ← setAt e ((mIndex * (mIndex - 1)) / 2 + k) 1
      lineScanUpper i mIndex rest e
    else if i < v then .ok e
    else lineScanUpper i mIndex rest e

/-- the third inner loop: scan `upper` from the back while the entry equals `j` -/
def lineScanBack (j mIndex : Nat) : List (Nat × Nat) → Array Nat → Outcome (Array Nat)
  | [], e => .ok e
  | (k, v) :: rest, e =>
    if v == j then do
      let e ← setAt e ((mIndex * (mIndex - 1)) / 2 + k) 1
      lineScanBack j mIndex rest e
    else .ok e

def enum (a : Array Nat) : List (Nat × Nat) := (List.range a.size).zip a.toList

/-- `LineGraphDense(g)` -/
def lineGraphDense (g : GraphI) : Outcome Dense := do
  let gm ← g.m
  if gm < 0 then .panic else     -- make([]int, 0, m)
  let m := gm.toNat
  let st ← (pairs g.n).foldlM (fun (st : LineSt) (p : Nat × Nat) => do
      let i := p.1
      let j := p.2
      if (← g.isEdge i j) then
        let e ← (enum st.lower).foldlM (fun e (kv : Nat × Nat) =>
            if i == kv.2 then setAt e ((st.mIndex * (st.mIndex - 1)) / 2 + kv.1) 1 else pure e) st.edges
        let e ← lineScanUpper i st.mIndex (enum st.upper) e
        let e ← lineScanBack j st.mIndex (enum st.upper).reverse e
        pure { edges := e, lower := st.lower.push i, upper := st.upper.push j, mIndex := st.mIndex + 1 }
      else pure st)
    { edges := zeros ((m * (m - 1)) / 2), lower := #[], upper := #[], mIndex := 0 }
  newDense m (some st.edges)

def rookGraph (n m : Nat) : Outcome Dense := do
  let g ← completePartiteGraph [n, m]
  lineGraphDense g.toI

/-- `sortints.Complement(n, a)` -/
def sortedComplement (n : Nat) (a : List Nat) : List Nat := (List.range n).filter fun x => !a.contains x

/-- the `Complement` view -/
def complementView (c : GraphI) : GraphI :=
  { n := c.n
    m := do
      let m ← c.m
      pure ((((c.n * (c.n - 1)) / 2 : Nat) : Int) - m)
    isEdge := fun i j => if i == j then .ok false else do
      let b ← c.isEdge i j
      pure (!b)
    neighbours := fun v => do
      let nb ← c.neighbours v
      pure ((sortedComplement c.n nb).filter fun x => x != v)     -- neighbours.Remove(v)
    degrees := do
      let d ← c.degrees
      pure (d.map fun x => ((c.n : Int) - 1) - x) }

/-! ## `subgraph.go`: the `InducedSubgraph` view -/

/-- `intsSort(V)`: values sorted ascending together with their original positions -/
def intsSort (V : List Nat) : List Nat × List Nat :=
  let s := (V.zip (List.range V.length)).mergeSort fun a b => a.1 ≤ b.1
  (s.map (·.1), s.map (·.2))

/-- `SortedInts.Add` of one element -/
def sortedInsert (x : Nat) : List Nat → List Nat
  | [] => [x]
  | y :: ys => if x < y then x :: y :: ys else if x == y then y :: ys else y :: sortedInsert x ys

/-- `intersectionByIndex(a, b, indicesOfB)`; `fuel ≥ len a + len b` -/
def intersectionByIndex : Nat → List Nat → List (Nat × Nat) → List Nat → List Nat
  | 0, _, _, r => r
  | _ + 1, [], _, r => r
  | _ + 1, _, [], r => r
  | fuel + 1, x :: a, (y, iy) :: b, r =>
    if x == y then intersectionByIndex fuel a b (sortedInsert iy r)
    else if x > y then intersectionByIndex fuel (x :: a) b r
    else intersectionByIndex fuel a ((y, iy) :: b) r

def inducedView (g : GraphI) (V : List Nat) : GraphI :=
  let verts := V.toArray
  let (sortedV, indices) := intsSort V
  let degrees : Outcome (List Int) := V.mapM fun v => do
    let nb ← g.neighbours v
    pure (Int.ofNat (intersectionSize nb sortedV))
  { n := V.length
    degrees := degrees
    m := do
      let d ← degrees
      pure ((d.foldl (· + ·) 0) / 2)
    isEdge := fun i j => do
      let a ← getAt verts i
      let b ← getAt verts j
      g.isEdge a b
    neighbours := fun v => do
      let a ← getAt verts v
      let nb ← g.neighbours a
      pure (intersectionByIndex (nb.length + sortedV.length) nb (sortedV.zip indices) []) }

/-! ## `SplitEdge`, `Contract` on an `EditableGraph`, in terms of the elementary edits the interface promises -/

def splitEdge (g : G) (i j : Nat) : Outcome G :=
  if i == j then .panic else
  .ok (Families.addVertex (Families.removeEdge g i j) [i, j])

def contract (g : G) (i j : Nat) : G :=
  Families.removeVertex ((g.nbrs j).foldl (fun h v => Families.addEdge h i v) g) j

/-- one step of a sequence of in-place transformations of an `EditableGraph` -/
inductive TOp where
  | c (i j : Nat)      -- Contract(g, i, j)
  | s (i j : Nat)      -- SplitEdge(g, i, j)

/-- the step as the definitions of `Spec/Families.lean` prescribe it -/
def tstepSpec (g : G) : TOp → Outcome G
  | .c i j => .ok (Families.contract g i j)
  | .s i j => if i == j then .panic else .ok (Families.splitEdge g i j)

/-- the step as the code performs it (through the elementary edits) -/
def tstepModel (g : G) : TOp → Outcome G
  | .c i j => .ok (contract g i j)
  | .s i j => splitEdge g i j

/-- apply a sequence of steps, keeping every intermediate graph -/
def tseq (step : G → TOp → Outcome G) : G → List TOp → Outcome (List G)
  | _, [] => .ok []
  | g, op :: ops => do
    let h ← step g op
    let rest ← tseq step h ops
    pure (h :: rest)

/-! ## `*SparseGraph`: `NewSparse` and the observers -/

structure Sparse where
  n : Nat
  m : Int
  nbrs : Array (List Nat)
  deg : Array Int
  deriving Repr, Inhabited

/-- drop adjacent repeats of a sorted list (the in-place loop of `sortints.NewSortedInts`) -/
def dedupAdj : List Nat → List Nat
  | [] => []
  | [a] => [a]
  | a :: b :: t => if a == b then dedupAdj (b :: t) else a :: dedupAdj (b :: t)

/-- `sortints.NewSortedInts(x...)` -/
def newSortedInts (x : List Nat) : List Nat := dedupAdj (x.mergeSort fun a b => a ≤ b)

/-- `NewSparse(n, neighbourhoods)`; `none` is the nil slice -/
def newSparse (n : Nat) (nb : Option (List (List Nat))) : Outcome Sparse :=
  let nb := match nb with
    | none => List.replicate n []
    | some l => l
  if nb.length ≠ n then .panic else
  let tmp := nb.map newSortedInts
  let deg : List Int := tmp.map fun l => (l.length : Int)
  .ok { n := n, m := (deg.foldl (· + ·) 0) / 2, nbrs := tmp.toArray, deg := deg.toArray }

namespace Sparse

/-- `SparseGraph.IsEdge` (`sortints.ContainsSingle` = membership) -/
def isEdge (g : Sparse) (i j : Nat) : Outcome Bool := do
  let di ← getAt g.deg i
  let dj ← getAt g.deg j
  if di > dj then do
    let l ← getAt g.nbrs i
    pure (l.contains j)
  else do
    let l ← getAt g.nbrs j
    pure (l.contains i)

def toI (g : Sparse) : GraphI :=
  { n := g.n, m := .ok g.m, isEdge := g.isEdge, neighbours := fun v => getAt g.nbrs v, degrees := .ok g.deg.toList }

end Sparse

/-! ## `encoding.go` as producers of graphs -/

/-- first `j < n` with `degrees[j] == 1` -/
def firstLeaf (deg : Array Int) (n : Nat) : Option Nat := (List.range n).find? fun j => deg[j]? == some 1

/-- `PruferDecode(p)` -/
def pruferDecode (p : List Nat) : Outcome Dense := do
  let n := p.length + 2
  let degrees : Array Int := Array.replicate n 1
  let edges := zeros ((n * (n - 1)) / 2)
  let degrees ← p.foldlM (fun d v => incrAt d v) degrees
  let (degrees, edges) ← p.foldlM (fun (st : Array Int × Array Nat) v => do
      match firstLeaf st.1 n with
      | none => pure st
      | some j =>
        let e ← (if j > v then setAt st.2 ((j * (j - 1)) / 2 + v) 1 else setAt st.2 ((v * (v - 1)) / 2 + j) 1 : Outcome (Array Nat))
        let dj ← getAt st.1 j
        let d ← setAt st.1 j (dj - 1)
        let dv ← getAt d v
        let d ← setAt d v (dv - 1)
        pure (d, e)) (degrees, edges)
  let edges ← (match firstLeaf degrees n with
    | none => pure edges
    | some i =>
      match (List.range' (i + 1) (n - (i + 1))).find? fun j => degrees[j]? == some 1 with
      | none => pure edges
      | some j => setAt edges ((j * (j - 1)) / 2 + i) 1 : Outcome (Array Nat))
  newDense n (some edges)

/-- `RandomTree(n, seed)`: `draw i` is the `i`th value of `r.Intn(n)` -/
def randomTree (n : Nat) (draw : Nat → Nat) : Outcome Dense :=
  if n < 2 then .panic else       -- make([]int, n-2)
  pruferDecode ((List.range (n - 2)).map draw)

structure MultiSt where
  edges : Array Nat
  deg : Array Int
  m : Int
  cur : Nat

/-- `MulticodeDecode(s)` (bytes as `Nat`) -/
def multicodeDecode (s : List Nat) : Outcome Dense :=
  match s with
  | [] => .panic
  | n :: rest => do
    let st ← rest.foldlM (fun (st : MultiSt) b =>
        if b == 0 then pure { st with cur := st.cur + 1 } else do
          -- byte arithmetic: s[i]-2 wraps to 255 at s[i] = 1, where the product is 0*255 = 0 = (1-1)*(1-2) in Nat
          let idx := ((b - 1) * (b - 2)) / 2 + st.cur
          let e ← setAt st.edges idx 1
          let d ← incrAt st.deg (b - 1)
          let d ← incrAt d st.cur
          pure { edges := e, deg := d, m := st.m + 1, cur := st.cur })
      { edges := zeros ((n * (n - 1)) / 2), deg := Array.replicate n 0, m := 0, cur := 0 }
    if n > 0 && st.cur ≠ n - 1 then .panic else
    pure { n := n, m := st.m, deg := st.deg, edges := st.edges }

/-! ## Observer dump (what the driver prints and the harness reads through the interface) -/

structure Obs where
  n : Nat
  m : Int
  deg : List Int
  nb : List (List Nat)
  e : List (Nat × Nat)

def observe (g : GraphI) : Outcome Obs := do
  let deg ← g.degrees
  let nb ← (List.range g.n).mapM g.neighbours
  let e ← (pairs g.n).filterM fun p => g.isEdge p.1 p.2
  pure { n := g.n, m := (← g.m), deg := deg, nb := nb, e := e }

end Construct

/-! ## Well-formedness: the statement of C06 about a stored value / an interface value -/
namespace Construct
open GraphSpec

/-- `d` stores a consistent graph: array sizes fit, the stored edge count is the number of edges of the adjacency
read off the byte array, and each stored degree is the number of adjacent vertices. (Symmetry and loop-freeness of
`d.abs` hold by construction of `IsEdge`, see `Dense.abs_wf`.) -/
structure Dense.WF (d : Dense) : Prop where
  size_edges : d.edges.size = d.n * (d.n - 1) / 2
  size_deg : d.deg.size = d.n
  m_eq : d.m = (d.abs.m : Int)
  deg_eq : ∀ v, v < d.n → d.deg[v]? = some (d.abs.deg v : Int)

/-- the interface value `gi` presents exactly the abstract graph `g`: no observer panics on in-range arguments and
`N, M, IsEdge, Neighbours (ascending, no repeats), Degrees` are those of `g` -/
structure GraphI.Sound (gi : GraphI) (g : G) : Prop where
  n : gi.n = g.n
  m : gi.m = .ok (g.m : Int)
  isEdge : ∀ u v, u < g.n → v < g.n → gi.isEdge u v = .ok (g.adj u v)
  neighbours : ∀ v, v < g.n → gi.neighbours v = .ok (g.nbrs v)
  degrees : gi.degrees = .ok (g.degrees.map Int.ofNat)

end Construct
