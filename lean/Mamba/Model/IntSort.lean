import Mamba.Basic
import Mamba.Gen.SortConsts
/-!
# Model of `ints/int_sort.go` (property C17): `ints.Sort`, a transcription of Go's `sort.Sort` introsort

`data []int` is an `Array Int`; every Go index variable is an `Int` and every index expression is bounds
checked (`Outcome.panic`), so that index arithmetic which goes negative in Go goes negative here as well.
Go's `/` on ints truncates towards zero: `Int.tdiv`.  `int(uint(lo+hi) >> 1)` is `(lo+hi)/2` for
`lo+hi ≥ 0`; for `lo+hi < 0` the Go value is out of range for every slice and the following index
expression panics, the model panics directly.

Loops: counted loops whose bound and counter move towards each other by construction are well-founded
recursions on the distance; the data-dependent loops (`siftDown`, the partition loops of `doPivot`, the
`for b-a > 12` loop of `quickSort` together with its recursion, `maxDepth`) take fuel.  `quickSort`'s
loop continues on one side after recursing into the other: `a = mhi` / `b = mlo` followed by the next
iteration is the tail call `quickSort f d mhi b maxDepth` / `quickSort f d a mlo maxDepth`.

Straight-line blocks of the Go functions are separate definitions so that each has its own lemma:
`swapIfLt` (`if data[i] < data[j] { swap }`), `pickChild` (the `child++` test of `siftDown`), and for `doPivot`
`ninther` (the `if hi-lo > 40` block), `scanLt`/`scanLe`/`scanGtDown`/`scanGeDown` (the four empty-bodied `for`
loops), `partLoop`, `dupsTail`/`dupsLeft`/`dupsMid` (the three `if`s of the duplicate test) inside `dupsStage`,
`protectLoop` inside `protectStage`.  The statements and their order are those of the Go source.
-/
namespace IntSort

abbrev Data := Array Int

/-- The literal constants of `ints/int_sort.go` that the model reads instead of hard-wiring them.  The value the
driver runs with is `genCfg`, regenerated from the source on every run (`Gen/SortConsts.lean`; an item whose place
in the source is not recognised keeps the value written here in the comments); the theorems are
proved for every configuration satisfying `Cfg.Admissible` (`Spec/IntSort.lean`), so a harmless retune of a
tuning constant changes the model together with the code and leaves the proofs intact. -/
structure Cfg where
  /-- `for b-a > 12` in `quickSort` -/
  qsSmall : Int
  /-- `if b-a > 1` in `quickSort` -/
  qsMin : Int
  /-- the start `a + 6` of the Shell pass -/
  shellGap : Int
  /-- its offset, `data[i-6]` -/
  shellGapIdx : Int
  /-- `>> 1` in `m := int(uint(lo+hi) >> 1)` -/
  pivotShift : Nat
  /-- `if hi-lo > 40` -/
  nintherMin : Int
  /-- `s := (hi - lo) / 8` -/
  nintherDiv : Int
  /-- the 2 of `lo+2*s` -/
  nintherMul : Int
  /-- the 2 of `hi-1-2*s` -/
  nintherMul2 : Int
  /-- `protect := hi-c < 5` -/
  protectMin : Int
  /-- `hi-c < (hi-lo)/4` -/
  dupsDiv : Int
  /-- `protect = dups > 1` -/
  dupsMin : Nat
  /-- `child := 2*root + 1` -/
  heapMul : Int
  heapAdd : Int
  /-- the sibling test `child+1 < hi` -/
  heapSib : Int
  /-- the sibling element `data[first+child+1]` -/
  heapSibIdx : Int
  /-- `for i := (hi - 1) / 2` in `heapSort` -/
  heapBuildSub : Int
  heapBuildDiv : Int
  /-- `i >>= 1` in `maxDepth` -/
  mdShift : Nat
  /-- `return depth * 2` -/
  mdMul : Nat

/-- the constants as they are in the source now -/
def genCfg : Cfg where
  qsSmall := Gen.Sort.qsSmall
  qsMin := Gen.Sort.qsMin
  shellGap := Gen.Sort.shellGap
  shellGapIdx := Gen.Sort.shellGapIdx
  pivotShift := Gen.Sort.pivotShift
  nintherMin := Gen.Sort.nintherMin
  nintherDiv := Gen.Sort.nintherDiv
  nintherMul := Gen.Sort.nintherMul
  nintherMul2 := Gen.Sort.nintherMul2
  protectMin := Gen.Sort.protectMin
  dupsDiv := Gen.Sort.dupsDiv
  dupsMin := Gen.Sort.dupsMin
  heapMul := Gen.Sort.heapMul
  heapAdd := Gen.Sort.heapAdd
  heapSib := Gen.Sort.heapSib
  heapSibIdx := Gen.Sort.heapSibIdx
  heapBuildSub := Gen.Sort.heapBuildSub
  heapBuildDiv := Gen.Sort.heapBuildDiv
  mdShift := Gen.Sort.mdShift
  mdMul := Gen.Sort.mdMul

/-- `data[i]` -/
def get (d : Data) (i : Int) : Outcome Int :=
  if 0 ≤ i then
    match d[i.toNat]? with
    | some v => .ok v
    | none => .panic
  else .panic

/-- `data[i], data[j] = data[j], data[i]` -/
def swap (d : Data) (i j : Int) : Outcome Data :=
  if h : 0 ≤ i ∧ i.toNat < d.size ∧ 0 ≤ j ∧ j.toNat < d.size then
    .ok (d.swap i.toNat j.toNat h.2.1 h.2.2.2)
  else .panic

/-- `data[i] < data[j]` -/
def lt (d : Data) (i j : Int) : Outcome Bool :=
  match get d i, get d j with
  | .ok x, .ok y => .ok (decide (x < y))
  | _, _ => .panic

/-! ## insertionSort -/

/-- `for j := i; j > a && data[j] < data[j-1]; j-- { swap j, j-1 }` -/
def insertInner (d : Data) (a j : Int) : Outcome Data :=
  if _h : a < j then
    match lt d j (j-1) with
    | .ok true =>
      match swap d j (j-1) with
      | .ok d' => insertInner d' a (j-1)
      | .panic => .panic
      | .outOfFuel => .outOfFuel
    | .ok false => .ok d
    | .panic => .panic
    | .outOfFuel => .outOfFuel
  else .ok d
termination_by (j - a).toNat
decreasing_by omega

/-- `for i := a + 1; i < b; i++ { inner }` from the current `i`. -/
def insertOuter (d : Data) (a b i : Int) : Outcome Data :=
  if _h : i < b then
    match insertInner d a i with
    | .ok d' => insertOuter d' a b (i+1)
    | .panic => .panic
    | .outOfFuel => .outOfFuel
  else .ok d
termination_by (b - i).toNat
decreasing_by omega

def insertionSort (d : Data) (a b : Int) : Outcome Data := insertOuter d a b (a+1)

/-! ## heapSort -/

/-- `if child+1 < hi && data[first+child] < data[first+child+1] { child++ }` — returns `child` (the two `+1` of the
condition are `cfg.heapSib`, the `++` is `+1`). -/
def pickChild (c : Cfg) (d : Data) (first child hi : Int) : Outcome Int :=
  if child + c.heapSib < hi then
    match lt d (first+child) (first+child+c.heapSibIdx) with
    | .ok true => .ok (child+1)
    | .ok false => .ok child
    | .panic => .panic
    | .outOfFuel => .outOfFuel
  else .ok child

/-- the `for { … }` loop of `siftDown` from the current `root`. -/
def siftLoop (cfg : Cfg) : Nat → Data → Int → Int → Int → Outcome Data
  | 0, _, _, _, _ => .outOfFuel
  | f+1, d, root, hi, first =>
    let child := cfg.heapMul*root + cfg.heapAdd
    if child ≥ hi then .ok d
    else
      match pickChild cfg d first child hi with
      | .ok c =>
        -- if data[first+root] >= data[first+child] { return }
        match lt d (first+root) (first+c) with
        | .ok false => .ok d
        | .ok true =>
          match swap d (first+root) (first+c) with
          | .ok d' => siftLoop cfg f d' c hi first
          | .panic => .panic
          | .outOfFuel => .outOfFuel
        | .panic => .panic
        | .outOfFuel => .outOfFuel
      | .panic => .panic
      | .outOfFuel => .outOfFuel

/-- `siftDown(data, lo, hi, first)`; every iteration at least doubles `root+1`, fuel `hi+1` suffices
for `lo ≥ 0` (theorem `IntSort.heapSort_ok`). -/
def siftDown (c : Cfg) (d : Data) (lo hi first : Int) : Outcome Data := siftLoop c (hi.toNat + 1) d lo hi first

/-- `for i := (hi-1)/2; i >= 0; i-- { siftDown(data, i, hi, first) }` from the current `i`. -/
def heapBuild (c : Cfg) (d : Data) (i hi first : Int) : Outcome Data :=
  if _h : 0 ≤ i then
    match siftDown c d i hi first with
    | .ok d' => heapBuild c d' (i-1) hi first
    | .panic => .panic
    | .outOfFuel => .outOfFuel
  else .ok d
termination_by (i+1).toNat
decreasing_by omega

/-- `for i := hi-1; i >= 0; i-- { swap first, first+i; siftDown(data, lo, i, first) }` -/
def heapPop (c : Cfg) (d : Data) (i first : Int) : Outcome Data :=
  if _h : 0 ≤ i then
    match swap d first (first+i) with
    | .ok d1 =>
      match siftDown c d1 0 i first with
      | .ok d2 => heapPop c d2 (i-1) first
      | .panic => .panic
      | .outOfFuel => .outOfFuel
    | .panic => .panic
    | .outOfFuel => .outOfFuel
  else .ok d
termination_by (i+1).toNat
decreasing_by omega

def heapSort (c : Cfg) (d : Data) (a b : Int) : Outcome Data :=
  let first := a
  let hi := b - a
  match heapBuild c d (Int.tdiv (hi-c.heapBuildSub) c.heapBuildDiv) hi first with
  | .ok d' => heapPop c d' (hi-1) first
  | .panic => .panic
  | .outOfFuel => .outOfFuel

/-! ## doPivot -/

/-- `if data[i] < data[j] { data[i], data[j] = data[j], data[i] }` -/
def swapIfLt (d : Data) (i j : Int) : Outcome Data :=
  match lt d i j with
  | .ok true => swap d i j
  | .ok false => .ok d
  | .panic => .panic
  | .outOfFuel => .outOfFuel

/-- `medianOfThree(data, m1, m0, m2)` -/
def medianOfThree (d : Data) (m1 m0 m2 : Int) : Outcome Data :=
  match swapIfLt d m1 m0 with
  | .ok d1 =>
    match lt d1 m2 m1 with
    | .ok true =>
      match swap d1 m2 m1 with
      | .ok d2 => swapIfLt d2 m1 m0
      | .panic => .panic
      | .outOfFuel => .outOfFuel
    | .ok false => .ok d1
    | .panic => .panic
    | .outOfFuel => .outOfFuel
  | .panic => .panic
  | .outOfFuel => .outOfFuel

/-- `for ; a < c && data[a] < data[pivot]; a++ {}` — returns `a`. -/
def scanLt (d : Data) (pivot c a : Int) : Outcome Int :=
  if _h : a < c then
    match lt d a pivot with
    | .ok true => scanLt d pivot c (a+1)
    | .ok false => .ok a
    | .panic => .panic
    | .outOfFuel => .outOfFuel
  else .ok a
termination_by (c - a).toNat
decreasing_by omega

/-- `for ; b < c && data[b] <= data[pivot]; b++ {}` (`!less(pivot, b)`) — returns `b`. -/
def scanLe (d : Data) (pivot c b : Int) : Outcome Int :=
  if _h : b < c then
    match lt d pivot b with
    | .ok false => scanLe d pivot c (b+1)
    | .ok true => .ok b
    | .panic => .panic
    | .outOfFuel => .outOfFuel
  else .ok b
termination_by (c - b).toNat
decreasing_by omega

/-- `for ; b < c && data[pivot] < data[c-1]; c-- {}` — returns `c`. -/
def scanGtDown (d : Data) (pivot b c : Int) : Outcome Int :=
  if _h : b < c then
    match lt d pivot (c-1) with
    | .ok true => scanGtDown d pivot b (c-1)
    | .ok false => .ok c
    | .panic => .panic
    | .outOfFuel => .outOfFuel
  else .ok c
termination_by (c - b).toNat
decreasing_by omega

/-- `for ; a < b && data[pivot] <= data[b-1]; b-- {}` (`!less(b-1, pivot)`) — returns `b`. -/
def scanGeDown (d : Data) (pivot a b : Int) : Outcome Int :=
  if _h : a < b then
    match lt d (b-1) pivot with
    | .ok false => scanGeDown d pivot a (b-1)
    | .ok true => .ok b
    | .panic => .panic
    | .outOfFuel => .outOfFuel
  else .ok b
termination_by (b - a).toNat
decreasing_by omega

/-- the main partition loop `for { scan b up; scan c down; if b >= c { break }; swap b, c-1; b++; c-- }`;
returns `(data, b, c)`. -/
def partLoop : Nat → Data → Int → Int → Int → Outcome (Data × Int × Int)
  | 0, _, _, _, _ => .outOfFuel
  | f+1, d, pivot, b, c =>
    match scanLe d pivot c b with
    | .ok b1 =>
      match scanGtDown d pivot b1 c with
      | .ok c1 =>
        if b1 ≥ c1 then .ok (d, b1, c1)
        else
          match swap d b1 (c1-1) with
          | .ok d' => partLoop f d' pivot (b1+1) (c1-1)
          | .panic => .panic
          | .outOfFuel => .outOfFuel
      | .panic => .panic
      | .outOfFuel => .outOfFuel
    | .panic => .panic
    | .outOfFuel => .outOfFuel

/-- the `protect` loop `for { scan b down; scan a up; if a >= b { break }; swap a, b-1; a++; b-- }`;
returns `(data, a, b)`. -/
def protectLoop : Nat → Data → Int → Int → Int → Outcome (Data × Int × Int)
  | 0, _, _, _, _ => .outOfFuel
  | f+1, d, pivot, a, b =>
    match scanGeDown d pivot a b with
    | .ok b1 =>
      match scanLt d pivot b1 a with
      | .ok a1 =>
        if a1 ≥ b1 then .ok (d, a1, b1)
        else
          match swap d a1 (b1-1) with
          | .ok d' => protectLoop f d' pivot (a1+1) (b1-1)
          | .panic => .panic
          | .outOfFuel => .outOfFuel
      | .panic => .panic
      | .outOfFuel => .outOfFuel
    | .panic => .panic
    | .outOfFuel => .outOfFuel

/-- `if data[hi-1] <= data[pivot] { swap c, hi-1; c++; dups++ }` — returns `(data, c, dups)`. -/
def dupsTail (d : Data) (pivot hi c : Int) : Outcome (Data × Int × Nat) :=
  match lt d pivot (hi-1) with
  | .ok false =>
    match swap d c (hi-1) with
    | .ok d1 => .ok (d1, c+1, 1)
    | .panic => .panic
    | .outOfFuel => .outOfFuel
  | .ok true => .ok (d, c, 0)
  | .panic => .panic
  | .outOfFuel => .outOfFuel

/-- `if data[pivot] <= data[b-1] { b--; dups++ }` — returns `(b, dups)`. -/
def dupsLeft (d : Data) (pivot b : Int) (dups : Nat) : Outcome (Int × Nat) :=
  match lt d (b-1) pivot with
  | .ok false => .ok (b-1, dups+1)
  | .ok true => .ok (b, dups)
  | .panic => .panic
  | .outOfFuel => .outOfFuel

/-- `if data[pivot] <= data[m] { swap m, b-1; b--; dups++ }` — returns `(data, b, dups)`. -/
def dupsMid (d : Data) (pivot m b : Int) (dups : Nat) : Outcome (Data × Int × Nat) :=
  match lt d m pivot with
  | .ok false =>
    match swap d m (b-1) with
    | .ok d3 => .ok (d3, b-1, dups+1)
    | .panic => .panic
    | .outOfFuel => .outOfFuel
  | .ok true => .ok (d, b, dups)
  | .panic => .panic
  | .outOfFuel => .outOfFuel

/-- the "test some points for equality to pivot" block; returns `(data, b, c, dups)`. -/
def dupsBlock (d : Data) (pivot m hi b c : Int) : Outcome (Data × Int × Int × Nat) :=
  match dupsTail d pivot hi c with
  | .ok (d1, c1, dups1) =>
    match dupsLeft d1 pivot b dups1 with
    | .ok (b2, dups2) =>
      match dupsMid d1 pivot m b2 dups2 with
      | .ok (d3, b3, dups3) => .ok (d3, b3, c1, dups3)
      | .panic => .panic
      | .outOfFuel => .outOfFuel
    | .panic => .panic
    | .outOfFuel => .outOfFuel
  | .panic => .panic
  | .outOfFuel => .outOfFuel

/-- `if hi-lo > 40 { s := (hi-lo)/8; medianOfThree ×3 }` (Tukey's ninther) -/
def ninther (c : Cfg) (d : Data) (lo hi m : Int) : Outcome Data :=
  if hi - lo > c.nintherMin then
    let s := Int.tdiv (hi - lo) c.nintherDiv
    match medianOfThree d lo (lo+s) (lo+c.nintherMul*s) with
    | .ok d1 =>
      match medianOfThree d1 m (m-s) (m+s) with
      | .ok d2 => medianOfThree d2 (hi-1) (hi-1-s) (hi-1-c.nintherMul2*s)
      | .panic => .panic
      | .outOfFuel => .outOfFuel
    | .panic => .panic
    | .outOfFuel => .outOfFuel
  else .ok d

/-- `protect := hi-c < 5; if !protect && hi-c < (hi-lo)/4 { dups block; protect = dups > 1 }` —
returns `(data, b, c, protect)`. -/
def dupsStage (cfg : Cfg) (d : Data) (lo m hi b c : Int) : Outcome (Data × Int × Int × Bool) :=
  let protect0 := decide (hi - c < cfg.protectMin)
  if !protect0 && decide (hi - c < Int.tdiv (hi - lo) cfg.dupsDiv) then
    match dupsBlock d lo m hi b c with
    | .ok (d3, b3, c3, dups) => .ok (d3, b3, c3, decide (dups > cfg.dupsMin))
    | .panic => .panic
    | .outOfFuel => .outOfFuel
  else .ok (d, b, c, protect0)

/-- `if protect { protect loop }` — returns `(data, b)`. -/
def protectStage (fuel : Nat) (d : Data) (lo a b : Int) (protect : Bool) : Outcome (Data × Int) :=
  if protect then
    match protectLoop fuel d lo a b with
    | .ok (d4, _, b4) => .ok (d4, b4)
    | .panic => .panic
    | .outOfFuel => .outOfFuel
  else .ok (d, b)

/-- `doPivot(data, lo, hi)` returns `(data, midlo, midhi)`. -/
def doPivot (cfg : Cfg) (d : Data) (lo hi : Int) : Outcome (Data × Int × Int) :=
  if lo + hi < 0 then .panic
  else
    let m := (lo + hi) / 2 ^ cfg.pivotShift
    let fuel := (hi - lo).toNat + 1
    match ninther cfg d lo hi m with
    | .ok d0 =>
      match medianOfThree d0 lo m (hi-1) with
      | .ok d1 =>
        let pivot := lo
        match scanLt d1 pivot (hi-1) (lo+1) with
        | .ok a =>
          match partLoop fuel d1 pivot a (hi-1) with
          | .ok (d2, b, c) =>
            match dupsStage cfg d2 lo m hi b c with
            | .ok (d3, b3, c3, protect) =>
              match protectStage fuel d3 pivot a b3 protect with
              | .ok (d4, b4) =>
                match swap d4 pivot (b4-1) with
                | .ok d5 => .ok (d5, b4-1, c3)
                | .panic => .panic
                | .outOfFuel => .outOfFuel
              | .panic => .panic
              | .outOfFuel => .outOfFuel
            | .panic => .panic
            | .outOfFuel => .outOfFuel
          | .panic => .panic
          | .outOfFuel => .outOfFuel
        | .panic => .panic
        | .outOfFuel => .outOfFuel
      | .panic => .panic
      | .outOfFuel => .outOfFuel
    | .panic => .panic
    | .outOfFuel => .outOfFuel

/-! ## quickSort -/

/-- `for i := a + 6; i < b; i++ { if data[i] < data[i-6] { swap i, i-6 } }` from the current `i`. -/
def shellPass (c : Cfg) (d : Data) (b i : Int) : Outcome Data :=
  if _h : i < b then
    match swapIfLt d i (i-c.shellGapIdx) with
    | .ok d' => shellPass c d' b (i+1)
    | .panic => .panic
    | .outOfFuel => .outOfFuel
  else .ok d
termination_by (b - i).toNat
decreasing_by omega

/-- `quickSort(data, a, b, maxDepth)`; one unit of fuel per loop iteration / call (the chain is at most
`maxDepth + 1` long, see `sort`). -/
def quickSort (c : Cfg) : Nat → Data → Int → Int → Nat → Outcome Data
  | 0, _, _, _, _ => .outOfFuel
  | f+1, d, a, b, maxDepth =>
    if b - a > c.qsSmall then
      match maxDepth with
      | 0 => heapSort c d a b
      | md+1 =>
        match doPivot c d a b with
        | .ok (d1, mlo, mhi) =>
          if mlo - a < b - mhi then
            match quickSort c f d1 a mlo md with
            | .ok d2 => quickSort c f d2 mhi b md
            | .panic => .panic
            | .outOfFuel => .outOfFuel
          else
            match quickSort c f d1 mhi b md with
            | .ok d2 => quickSort c f d2 a mlo md
            | .panic => .panic
            | .outOfFuel => .outOfFuel
        | .panic => .panic
        | .outOfFuel => .outOfFuel
    else if b - a > c.qsMin then
      match shellPass c d b (a+c.shellGap) with
      | .ok d1 => insertionSort d1 a b
      | .panic => .panic
      | .outOfFuel => .outOfFuel
    else .ok d

/-- `for i := n; i > 0; i >>= 1 { depth++ }` -/
def maxDepthLoop (c : Cfg) : Nat → Nat → Nat → Outcome Nat
  | 0, _, _ => .outOfFuel
  | f+1, i, depth => if i > 0 then maxDepthLoop c f (i >>> c.mdShift) (depth + 1) else .ok depth

/-- `maxDepth(n)` = `2 * (number of binary digits of n)`. -/
def maxDepth (c : Cfg) (n : Nat) : Outcome Nat :=
  match maxDepthLoop c (n + 1) n 0 with
  | .ok depth => .ok (depth * c.mdMul)
  | .panic => .panic
  | .outOfFuel => .outOfFuel

/-- `Sort(a)` -/
def sort (c : Cfg) (d : Data) : Outcome Data :=
  match maxDepth c d.size with
  | .ok md => quickSort c (md + 2) d 0 d.size md
  | .panic => .panic
  | .outOfFuel => .outOfFuel

end IntSort
