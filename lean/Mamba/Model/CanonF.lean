import Mamba.Spec.Graph
import Mamba.Model.Disjoint
import Mamba.Model.SortInts
/-!
# Faithful model of `graph/canonical.go` (pattern F) — properties C01 / C02

A statement-by-statement transliteration of the Go file, one Lean function per Go function / loop, in the order of
the Go file. Conventions:

* A Go slice whose backing array starts at offset 0 (every slice held in `CanonicalOrderedPartition` /
  `CanonicalStorage` is of this kind) is `Sl α` = backing array + length; `cap = data.size`. Re-slicing beyond the
  capacity, indexing beyond the length, and the two explicit `panic`s of `Reset` are `Outcome.panic`.
  Entries beyond the length are kept (they are what a later `Reset` / call finds in reused storage).
* `int` values that the code only ever uses as indices / counters are `Nat`; every place where the Go value could
  become negative is guarded explicitly (commented `-- Go: negative …`). The union–finds are `Array Int`
  (`Disjoint.DS`, the model of `disjoint.Set` of C18), `binAges`/`age` and `binsToCheck` are `Int`.
* Counted loops are `forRange` / `forDown` (structural); data dependent loops take fuel (`Outcome.outOfFuel`).
* `ints.Sort` is modelled by its specification, the sorted permutation (`List.mergeSort`); C17 proves
  `IntSort.sort d = .ok (sortInts d.toList).toArray` for the faithful model of `ints.Sort`.
  `ints.Compare`, `ints.HasPrefix` are transliterated. `sortints.SortedInts.Union` is the C17 model `SortInts.unionM`
  (in place when the capacity suffices, fresh array otherwise).
* `disjoint.Set.FindBuffered/UnionBuffered` are `Disjoint.find/union` (same statements; the buffer `space` only provides
  storage that is written before it is read, its contents are not modelled there).
* The graph is read through `neighbours [][]int` = `Array (List Nat)`; the wrappers build it from `GraphSpec.G.nbrs`
  (ascending) and `GraphSpec.G.m`.

Not modelled: growth policy of `append` beyond the capacity of `op.value` (Go's size-class rounding; the model doubles) —
not reachable any more since `expandValue` records the prefix it has encoded (no stale certificate is ever extended); the
mutation `options.CheckViability = false` of the caller's options struct.

State of the Go file modelled: `graph/canonical.go` after the six `fix:` commits 87e1b96 (all class bins on the initial
work list, `allBins`), 0bfbb07 (`expandLoop` sets `spl := j + 1` before returning worse), 0b9b2ec (one `expandValue` right
after the initial refinement), 70aec9a (`m == 0` shortcut only with a single class; first leaf always accepted:
`comp == 1 || count == 1`), 4266c5c (`classLoop` sorts every class inside `order`), 4ea0e84 (`h2Best`: on the best-leaf
path a child is skipped only if an element of its orbit in `currentBestOrbits` has already been visited at this node).
-/
namespace CanonF

/-! ## Go slices -/

structure Sl (α : Type) where
  data : Array α
  len : Nat
  deriving Inhabited

namespace Sl
variable {α : Type}

def cap (s : Sl α) : Nat := s.data.size

/-- the visible part `s[0:len]` -/
def toList (s : Sl α) : List α := s.data.toList.take s.len

/-- `make([]T, len, cap)` with `len ≤ cap` -/
def mk' (len cap : Nat) (z : α) : Sl α := ⟨Array.replicate cap z, len⟩

/-- `s[i]` -/
def get (s : Sl α) (i : Nat) : Outcome α :=
  if i < s.len then
    match s.data[i]? with
    | some v => .ok v
    | none => .panic
  else .panic

/-- `s[i] = v` -/
def set (s : Sl α) (i : Nat) (v : α) : Outcome (Sl α) :=
  if i < s.len ∧ i < s.data.size then .ok ⟨s.data.setIfInBounds i v, s.len⟩ else .panic

/-- `s[:k]` -/
def reslice (s : Sl α) (k : Nat) : Outcome (Sl α) :=
  if k ≤ s.data.size then .ok ⟨s.data, k⟩ else .panic

/-- write `src` into `a` at positions `d, d+1, …` -/
def writeList (a : Array α) (d : Nat) : List α → Array α
  | [] => a
  | x :: xs => writeList (a.setIfInBounds d x) (d + 1) xs

/-- `copy(s[d:], src)` for a source whose values have been read already -/
def copyAt (s : Sl α) (d : Nat) (src : List α) : Outcome (Sl α) :=
  if d ≤ s.len then .ok ⟨writeList s.data d (src.take (s.len - d)), s.len⟩ else .panic

/-- `copy(s, src)` -/
def copyFrom (s : Sl α) (src : List α) : Sl α := ⟨writeList s.data 0 (src.take s.len), s.len⟩

/-- `copy(s[d:], s[a:b])` (memmove semantics) -/
def copySelf (s : Sl α) (d a b : Nat) : Outcome (Sl α) :=
  if d ≤ s.len ∧ a ≤ b ∧ b ≤ s.data.size then
    .ok ⟨writeList s.data d (((s.data.extract a b).toList).take (s.len - d)), s.len⟩
  else .panic

/-- `data[i], data[j] = data[j], data[i]` -/
def swap (s : Sl α) (i j : Nat) : Outcome (Sl α) :=
  match s.get i, s.get j with
  | .ok x, .ok y =>
    match s.set i y with
    | .ok s1 => s1.set j x
    | o => o
  | _, _ => .panic

end Sl

/-- `append(s, x)`; beyond the capacity a fresh array (doubling; see the header) -/
def Sl.append (s : Sl Nat) (x : Nat) : Sl Nat :=
  if s.len < s.data.size then ⟨s.data.setIfInBounds s.len x, s.len + 1⟩
  else
    let newcap := max (2 * s.data.size) (s.len + 1)
    ⟨((s.data.toList.take s.len ++ [x]) ++ List.replicate (newcap - (s.len + 1)) 0).toArray, s.len + 1⟩

/-- `zeroOut(a)` -/
def Sl.fill0 (s : Sl Nat) : Sl Nat := ⟨s.data.mapIdx (fun i v => if i < s.len then 0 else v), s.len⟩

/-- `ints.Sort` by specification -/
def sortNat (l : List Nat) : List Nat := l.mergeSort (fun a b => decide (a ≤ b))

/-- `ints.Sort(s[a:b])` -/
def Sl.sortRange (s : Sl Nat) (a b : Nat) : Outcome (Sl Nat) :=
  if a ≤ b ∧ b ≤ s.data.size then .ok ⟨Sl.writeList s.data a (sortNat (s.data.extract a b).toList), s.len⟩
  else .panic

/-! ## counted loops -/

/-- `for i := lo; i < lo + k; i++ { s = f i s }` -/
def forRange {σ : Type} (f : Nat → σ → Outcome σ) : (k : Nat) → (lo : Nat) → σ → Outcome σ
  | 0, _, s => .ok s
  | k+1, lo, s =>
    match f lo s with
    | .ok s' => forRange f k (lo + 1) s'
    | .panic => .panic
    | .outOfFuel => .outOfFuel

/-- `for i := k-1; i >= 0; i-- { s = f i s }` -/
def forDown {σ : Type} (f : Nat → σ → Outcome σ) : (k : Nat) → σ → Outcome σ
  | 0, s => .ok s
  | k+1, s =>
    match f k s with
    | .ok s' => forDown f k s'
    | .panic => .panic
    | .outOfFuel => .outOfFuel

/-- `for _, x := range l { s = f x s }` -/
def forList {σ β : Type} (f : β → σ → Outcome σ) : List β → σ → Outcome σ
  | [], s => .ok s
  | x :: xs, s =>
    match f x s with
    | .ok s' => forList f xs s'
    | .panic => .panic
    | .outOfFuel => .outOfFuel

/-! ## `ints.Compare`, `ints.HasPrefix` -/

/-- `ints.Compare`: 1 / 0 / -1 -/
def compare : List Nat → List Nat → Int
  | [], [] => 0
  | [], _ :: _ => -1
  | _ :: _, [] => 1
  | a :: as, b :: bs => if a > b then 1 else if a < b then -1 else compare as bs

/-- `ints.HasPrefix(s, prefix)` for non-nil slices -/
def hasPrefix (s pre : List Nat) : Bool := decide (s.length ≥ pre.length) && s.take pre.length == pre

/-! ## the ordered partition -/

structure OP where
  order : Sl Nat
  binDividers : Sl Nat
  binAges : Sl Int
  binsToCheck : Sl Int
  age : Int
  value : Sl Nat
  spl : Nat            -- singletonPrefixLength
  inCell : Sl Nat
  deriving Inhabited

abbrev Classes := Option (List (List Nat))

/-- the loop over the vertex classes shared by `NewOrderedPartition` and `Reset`:
`for i := range vc { binStart := index; for j := range vc[i] { v := vc[i][j]; order[index] = v; inCell[v] = i; index++ };
ints.Sort(order[binStart:index]); binDividers[i] = index }` -/
def classLoopInner (i : Nat) (v : Nat) (st : Sl Nat × Sl Nat × Nat) : Outcome (Sl Nat × Sl Nat × Nat) :=
  let (order, inCell, index) := st
  match order.set index v with
  | .ok order =>
    match inCell.set v i with
    | .ok inCell => .ok (order, inCell, index + 1)
    | .panic => .panic
    | .outOfFuel => .outOfFuel
  | .panic => .panic
  | .outOfFuel => .outOfFuel

def classLoop : List (List Nat) → Nat → (Sl Nat × Sl Nat × Sl Nat × Nat) → Outcome (Sl Nat × Sl Nat × Sl Nat × Nat)
  | [], _, st => .ok st
  | c :: cs, i, (order, inCell, bd, index) =>
    -- binStart := index
    match forList (classLoopInner i) c (order, inCell, index) with
    | .ok (order, inCell, index') =>
      -- ints.Sort(order[binStart:index])
      match order.sortRange index index' with
      | .ok order =>
        match bd.set i index' with
        | .ok bd => classLoop cs (i + 1) (order, inCell, bd, index')
        | .panic => .panic
        | .outOfFuel => .outOfFuel
      | .panic => .panic
      | .outOfFuel => .outOfFuel
    | .panic => .panic
    | .outOfFuel => .outOfFuel

/-- `order[i] = i` for `i < n` -/
def identLoop (n : Nat) (order : Sl Nat) : Outcome (Sl Nat) :=
  forRange (fun i o => o.set i i) n 0 order

/-- `for i := range binsToCheck { binsToCheck[i] = i }` -/
def allBins (b : Sl Int) : Sl Int := ⟨b.data.mapIdx (fun i v => if i < b.len then (i : Int) else v), b.len⟩

/-- `NewOrderedPartition(n, m, vertexClasses)`; `none` is the Go `nil` returned for `n == 0` -/
def newOrderedPartition (n m : Nat) (vc : Classes) : Outcome (Option OP) :=
  if n = 0 then .ok none else
  let order : Sl Nat := Sl.mk' n n 0
  let binDividers : Sl Nat := Sl.mk' n n 0
  let inCell : Sl Nat := Sl.mk' n n 0
  let r : Outcome (Sl Nat × Sl Nat × Sl Nat) :=
    match vc with
    | none =>
      match identLoop n order with
      | .ok order =>
        match binDividers.reslice 1 with
        | .ok bd =>
          match bd.set 0 n with
          | .ok bd => .ok (order, inCell, bd)
          | .panic => .panic
          | .outOfFuel => .outOfFuel
        | .panic => .panic
        | .outOfFuel => .outOfFuel
      | .panic => .panic
      | .outOfFuel => .outOfFuel
    | some cls =>
      match binDividers.reslice cls.length with
      | .ok bd =>
        match classLoop cls 0 (order, inCell, bd, 0) with
        | .ok (order, inCell, bd, _) => .ok (order, inCell, bd)
        | .panic => .panic
        | .outOfFuel => .outOfFuel
      | .panic => .panic
      | .outOfFuel => .outOfFuel
  match r with
  | .ok (order, inCell, bd) =>
    -- binAges := make([]int, len(binDividers), n) (zero), binsToCheck := make([]int, len(binDividers), n); [i] = i,
    -- value := make([]int, 0, m)
    .ok (some { order := order, binDividers := bd, binAges := Sl.mk' bd.len n 0, binsToCheck := allBins (Sl.mk' bd.len n 0),
                age := 0, value := Sl.mk' 0 m 0, spl := 0, inCell := inCell })
  | .panic => .panic
  | .outOfFuel => .outOfFuel

/-- `op.Reset(n, m, vertexClasses)` -/
def reset (op : OP) (n m : Nat) (vc : Classes) : Outcome OP :=
  if op.order.cap < n then .panic else          -- explicit panic
  if op.value.cap < m then .panic else          -- explicit panic
  match op.order.reslice n, op.inCell.reslice n with
  | .ok order, .ok inCell =>
    let r : Outcome (Sl Nat × Sl Nat × Sl Nat) :=
      match vc with
      | none =>
        match identLoop n order with
        | .ok order =>
          let bd : Outcome (Sl Nat) :=
            if n > 0 then
              match op.binDividers.reslice 1 with
              | .ok bd => bd.set 0 n
              | o => o
            else .ok op.binDividers
          match bd with
          | .ok bd => .ok (order, inCell.fill0, bd)
          | .panic => .panic
          | .outOfFuel => .outOfFuel
        | .panic => .panic
        | .outOfFuel => .outOfFuel
      | some cls =>
        match op.binDividers.reslice cls.length with
        | .ok bd =>
          match classLoop cls 0 (order, inCell, bd, 0) with
          | .ok (order, inCell, bd, _) => .ok (order, inCell, bd)
          | .panic => .panic
          | .outOfFuel => .outOfFuel
        | .panic => .panic
        | .outOfFuel => .outOfFuel
    match r with
    | .ok (order, inCell, bd) =>
      match op.binAges.reslice bd.len with
      | .ok ages =>
        let ages : Sl Int := ⟨ages.data.mapIdx (fun i v => if i < ages.len then 0 else v), ages.len⟩
        let btc : Outcome (Sl Int) :=
          if n > 0 then
            match op.binsToCheck.reslice bd.len with
            | .ok b => .ok (allBins b)
            | o => o
          else .ok op.binsToCheck
        match btc with
        | .ok btc =>
          .ok { order := order, binDividers := bd, binAges := ages, binsToCheck := btc, age := 0,
                value := ⟨op.value.data, 0⟩, spl := 0, inCell := inCell }
        | .panic => .panic
        | .outOfFuel => .outOfFuel
      | .panic => .panic
      | .outOfFuel => .outOfFuel
    | .panic => .panic
    | .outOfFuel => .outOfFuel
  | _, _ => .panic

/-- `s.Union(b)` of `sortints` on a slice with spare capacity (C17's `unionM`) -/
def unionSl (s : Sl Int) (b : List Int) : Outcome (Sl Int) :=
  match SortInts.unionM s.toList (s.data.toList.drop s.len) b with
  | .ok r =>
    if r.length ≤ s.data.size then .ok ⟨(r ++ s.data.toList.drop r.length).toArray, r.length⟩
    else .ok ⟨r.toArray, r.length⟩
  | .panic => .panic
  | .outOfFuel => .outOfFuel

/-- the "update the inCell array" loop of `equitableRefinementProcedure` and `deage`:
`currBin := 0; for i := range order { if binDividers[currBin] == i { currBin++ }; inCell[order[i]] = currBin }` -/
def inCellStep (order bd : Sl Nat) (i : Nat) (st : Sl Nat × Nat) : Outcome (Sl Nat × Nat) :=
  let (inCell, currBin) := st
  match bd.get currBin with
  | .ok d =>
    let currBin := if d = i then currBin + 1 else currBin
    match order.get i with
    | .ok v =>
      match inCell.set v currBin with
      | .ok inCell => .ok (inCell, currBin)
      | .panic => .panic
      | .outOfFuel => .outOfFuel
    | .panic => .panic
    | .outOfFuel => .outOfFuel
  | .panic => .panic
  | .outOfFuel => .outOfFuel

def recomputeInCell (op : OP) : Outcome OP :=
  match forRange (inCellStep op.order op.binDividers) op.order.len 0 (op.inCell, 0) with
  | .ok (inCell, _) => .ok { op with inCell := inCell }
  | .panic => .panic
  | .outOfFuel => .outOfFuel

/-! ### expandValue -/

abbrev Nbrs := Array (List Nat)

def nbrsGet (nb : Nbrs) (u : Nat) : Outcome (List Nat) :=
  match nb[u]? with
  | some l => .ok l
  | none => .panic

/-- `for _, v := range nbrs { if k := op.inCell[v]; k < j { op.value = append(op.value, (j*(j-1))/2+k) } }` -/
def codeStep (inCell : Sl Nat) (j : Nat) (v : Nat) (value : Sl Nat) : Outcome (Sl Nat) :=
  match inCell.get v with
  | .ok k => if k < j then .ok (value.append ((j * (j - 1)) / 2 + k)) else .ok value
  | .panic => .panic
  | .outOfFuel => .outOfFuel

/-- the test at the end of one step of `expandValue`:
`len(currentBest) > 0 && ints.Compare(op.value, currentBest[:len(op.value)]) == -1 && ints.Compare(op.value, firstLeaf[:len(op.value)]) != 0` -/
def worseTest (value currentBest firstLeaf : Sl Nat) : Outcome Bool :=
  if currentBest.len > 0 then
    match currentBest.reslice value.len with
    | .ok cb =>
      if compare value.toList cb.toList == -1 then
        match firstLeaf.reslice value.len with
        | .ok fl => .ok (compare value.toList fl.toList != 0)
        | .panic => .panic
        | .outOfFuel => .outOfFuel
      else .ok false
    | .panic => .panic
    | .outOfFuel => .outOfFuel
  else .ok false

/-- `op.expandValue(neighbours, currentBest, firstLeaf)`; `k` counts the remaining iterations of `for j := spl; j < len(order); j++` -/
def expandLoop (nb : Nbrs) (cb fl : Sl Nat) : (k : Nat) → (j : Nat) → OP → Outcome (Bool × OP)
  | 0, _, op => .ok (false, { op with spl := op.order.len })
  | k+1, j, op =>
    let binSize : Outcome Nat :=
      if j = 0 then op.binDividers.get 0
      else
        match op.binDividers.get j, op.binDividers.get (j - 1) with
        | .ok a, .ok b => .ok (a - b)        -- Go: a negative difference is also "!= 1"
        | _, _ => .panic
    match binSize with
    | .ok bs =>
      if bs ≠ 1 then .ok (false, { op with spl := j })
      else
        match op.order.get j with
        | .ok u =>
          match nbrsGet nb u with
          | .ok nbrs =>
            let startValue := op.value.len
            match forList (codeStep op.inCell j) nbrs op.value with
            | .ok value =>
              match value.sortRange startValue value.len with
              | .ok value =>
                let op := { op with value := value }
                match worseTest value cb fl with
                | .ok true => .ok (true, { op with spl := j + 1 })
                | .ok false => expandLoop nb cb fl k (j + 1) op
                | .panic => .panic
                | .outOfFuel => .outOfFuel
              | .panic => .panic
              | .outOfFuel => .outOfFuel
            | .panic => .panic
            | .outOfFuel => .outOfFuel
          | .panic => .panic
          | .outOfFuel => .outOfFuel
        | .panic => .panic
        | .outOfFuel => .outOfFuel
    | .panic => .panic
    | .outOfFuel => .outOfFuel

def expandValue (nb : Nbrs) (cb fl : Sl Nat) (op : OP) : Outcome (Bool × OP) :=
  expandLoop nb cb fl (op.order.len - op.spl) op.spl op

/-! ### splitBin -/

/-- `for j := 1; j < len(binDividers); j++ { if i < binDividers[j] { binNumber = j; break } }` -/
def findBinLoop (bd : Sl Nat) (i : Nat) : (k : Nat) → (j : Nat) → Outcome Nat
  | 0, _ => .ok 0
  | k+1, j =>
    match bd.get j with
    | .ok d => if i < d then .ok j else findBinLoop bd i k (j + 1)
    | .panic => .panic
    | .outOfFuel => .outOfFuel

/-- `for j := binStart + 1; j < len(order); j++ { inCell[order[j]]++ }` -/
def bumpStep (order : Sl Nat) (j : Nat) (inCell : Sl Nat) : Outcome (Sl Nat) :=
  match order.get j with
  | .ok v =>
    match inCell.get v with
    | .ok c => inCell.set v (c + 1)
    | .panic => .panic
    | .outOfFuel => .outOfFuel
  | .panic => .panic
  | .outOfFuel => .outOfFuel

/-- `s = s[:len(s)+1]; copy(s[b+1:], s[b:]); s[b] = v` -/
def insertAt {α : Type} (s : Sl α) (b : Nat) (v : α) : Outcome (Sl α) :=
  match s.reslice (s.len + 1) with
  | .ok s =>
    match s.copySelf (b + 1) b s.len with
    | .ok s => s.set b v
    | o => o
  | o => o

/-- `op.splitBin(i, neighbours, currentBest, firstLeaf)` -/
def splitBin (nb : Nbrs) (cb fl : Sl Nat) (op : OP) (i : Nat) : Outcome (Bool × OP) :=
  let age := op.age + 1
  match op.binDividers.get 0 with
  | .ok d0 =>
    let bn : Outcome Nat := if d0 ≤ i then findBinLoop op.binDividers i (op.binDividers.len - 1) 1 else .ok 0
    match bn with
    | .ok binNumber =>
      let bs : Outcome Nat := if binNumber > 0 then op.binDividers.get (binNumber - 1) else .ok 0
      match bs with
      | .ok binStart =>
        match op.order.get i with
        | .ok tmp =>
          -- copy(op.order[binStart+1:], op.order[binStart:i]); op.order[binStart] = tmp
          match op.order.copySelf (binStart + 1) binStart i with
          | .ok order =>
            match order.set binStart tmp with
            | .ok order =>
              match forRange (bumpStep order) (order.len - (binStart + 1)) (binStart + 1) op.inCell with
              | .ok inCell =>
                match insertAt op.binDividers binNumber (binStart + 1), insertAt op.binAges binNumber age with
                | .ok bd, .ok ages =>
                  match unionSl op.binsToCheck [(binNumber : Int), (binNumber : Int) + 1] with
                  | .ok btc =>
                    let op := { op with age := age, order := order, inCell := inCell, binDividers := bd, binAges := ages,
                                        binsToCheck := btc }
                    if binNumber = op.spl then expandValue nb cb fl op else .ok (false, op)
                  | .panic => .panic
                  | .outOfFuel => .outOfFuel
                | _, _ => .panic
              | .panic => .panic
              | .outOfFuel => .outOfFuel
            | .panic => .panic
            | .outOfFuel => .outOfFuel
          | .panic => .panic
          | .outOfFuel => .outOfFuel
        | .panic => .panic
        | .outOfFuel => .outOfFuel
      | .panic => .panic
      | .outOfFuel => .outOfFuel
    | .panic => .panic
    | .outOfFuel => .outOfFuel
  | .panic => .panic
  | .outOfFuel => .outOfFuel

/-! ### deage -/

/-- `k := len(value) - 1; for ; k >= 0; k-- { if value[k] < maxPos { break } }; k++` — returns the new length -/
def truncLen (value : Sl Nat) (maxPos : Nat) : (k : Nat) → Outcome Nat
  | 0 => .ok 0
  | k+1 =>
    match value.get k with
    | .ok x => if x < maxPos then .ok (k + 1) else truncLen value maxPos k
    | .panic => .panic
    | .outOfFuel => .outOfFuel

structure DeageSt where
  op : OP
  j : Nat
  prev1 : Nat      -- prev + 1
  prevDiv : Nat

/-- body of `for i := 0; i < len(op.binAges); i++` -/
def deageStep (age : Int) (i : Nat) (st : DeageSt) : Outcome DeageSt :=
  let op := st.op
  match op.binAges.get i with
  | .ok a =>
    if a ≠ age then
      match op.binDividers.get i with
      | .ok di =>
        match op.binDividers.set st.j di, op.binAges.set st.j a with
        | .ok bd, .ok ages =>
          let op := { op with binDividers := bd, binAges := ages }
          let merged : Outcome OP :=
            if i > st.prev1 then        -- i - prev > 1
              let op1 : Outcome OP :=
                if st.j < op.spl then
                  let maxPos := ((st.j - 1) * st.j) / 2
                  match truncLen op.value maxPos op.value.len with
                  | .ok k =>
                    match op.value.reslice k with
                    | .ok value => .ok { op with spl := st.j, value := value }
                    | .panic => .panic
                    | .outOfFuel => .outOfFuel
                  | .panic => .panic
                  | .outOfFuel => .outOfFuel
                else .ok op
              match op1 with
              | .ok op =>
                -- ints.Sort(op.order[prevDiv:op.binDividers[j]])   (op.binDividers[j] == di)
                match op.order.sortRange st.prevDiv di with
                | .ok order => .ok { op with order := order }
                | .panic => .panic
                | .outOfFuel => .outOfFuel
              | o => o
            else .ok op
          match merged with
          | .ok op => .ok { op := op, j := st.j + 1, prev1 := i + 1, prevDiv := di }
          | .panic => .panic
          | .outOfFuel => .outOfFuel
        | _, _ => .panic
      | .panic => .panic
      | .outOfFuel => .outOfFuel
    else .ok st
  | .panic => .panic
  | .outOfFuel => .outOfFuel

/-- `op.deage()` -/
def deage (op : OP) : Outcome OP :=
  match forRange (deageStep op.age) op.binAges.len 0 { op := op, j := 0, prev1 := 0, prevDiv := 0 } with
  | .ok st =>
    let op := st.op
    match op.binDividers.reslice st.j, op.binAges.reslice st.j, op.binsToCheck.reslice 0 with
    | .ok bd, .ok ages, .ok btc =>
      match recomputeInCell { op with binDividers := bd, binAges := ages, binsToCheck := btc } with
      | .ok op => .ok { op with age := op.age - 1 }
      | o => o
    | _, _, _ => .panic
  | .panic => .panic
  | .outOfFuel => .outOfFuel

/-! ## the stable sort of `[]keyValue` (copied from Go's `sort.Stable` in canonical.go) -/

/-- `keyValue{value, key}` as `(value, key)` -/
abbrev KV := Nat × Nat

/-- inner loop of `insertionSortKeyValue`: `for j := i; j > a && data[j].value < data[j-1].value; j-- { swap }`;
`c = j - a` -/
def insInner (c : Nat) (j : Nat) (d : Sl KV) : Outcome (Sl KV) :=
  match c with
  | 0 => .ok d
  | c+1 =>
    match d.get j, d.get (j - 1) with
    | .ok x, .ok y =>
      if x.1 < y.1 then
        match d.swap j (j - 1) with
        | .ok d => insInner c (j - 1) d
        | o => o
      else .ok d
    | _, _ => .panic

/-- `insertionSortKeyValue(data, a, b)` -/
def insertionSortKV (d : Sl KV) (a b : Nat) : Outcome (Sl KV) :=
  forRange (fun i d => insInner (i - a) i d) (b - (a + 1)) (a + 1) d

/-- `swapRange(data, a, b, n)` -/
def swapRange (d : Sl KV) (a b n : Nat) : Outcome (Sl KV) :=
  forRange (fun i d => d.swap (a + i) (b + i)) n 0 d

/-- the loop `for i != j` of `rotate` -/
def rotateLoop (m : Nat) : (fuel : Nat) → (i j : Nat) → Sl KV → Outcome (Sl KV × Nat)
  | 0, _, _, _ => .outOfFuel
  | f+1, i, j, d =>
    if i ≠ j then
      if i > j then
        match swapRange d (m - i) m j with
        | .ok d => rotateLoop m f (i - j) j d
        | .panic => .panic
        | .outOfFuel => .outOfFuel
      else
        match swapRange d (m - i) (m + j - i) i with
        | .ok d => rotateLoop m f i (j - i) d
        | .panic => .panic
        | .outOfFuel => .outOfFuel
    else .ok (d, i)

/-- `rotate(data, a, m, b)` -/
def rotate (d : Sl KV) (a m b : Nat) : Outcome (Sl KV) :=
  match rotateLoop m ((m - a) + (b - m) + 1) (m - a) (b - m) d with
  | .ok (d, i) => swapRange d (m - i) m i
  | .panic => .panic
  | .outOfFuel => .outOfFuel

/-- a binary search loop `for i < j { h := (i+j)/2; if test h { i = h + 1 } else { j = h } }`; returns `i` -/
def bsearch (test : Nat → Outcome Bool) : (fuel : Nat) → (i j : Nat) → Outcome Nat
  | 0, _, _ => .outOfFuel
  | f+1, i, j =>
    if i < j then
      let h := (i + j) / 2
      match test h with
      | .ok true => bsearch test f (h + 1) j
      | .ok false => bsearch test f i h
      | .panic => .panic
      | .outOfFuel => .outOfFuel
    else .ok i

/-- `symMerge(data, a, m, b)`; the fuel bounds the recursion depth -/
def symMerge : (fuel : Nat) → Sl KV → (a m b : Nat) → Outcome (Sl KV)
  | 0, _, _, _, _ => .outOfFuel
  | f+1, d, a, m, b =>
    if m - a = 1 then
      -- lowest i in [m, b) with data[i] >= data[a]
      match bsearch (fun h => match d.get h, d.get a with
                              | .ok x, .ok y => .ok (decide (x.1 < y.1))
                              | _, _ => .panic) (b - m + 1) m b with
      | .ok i => forRange (fun k d => d.swap k (k + 1)) (i - 1 - a) a d      -- for k := a; k < i-1; k++
      | .panic => .panic
      | .outOfFuel => .outOfFuel
    else if b - m = 1 then
      -- lowest i in [a, m) with data[i] > data[m]
      match bsearch (fun h => match d.get m, d.get h with
                              | .ok x, .ok y => .ok (decide (x.1 ≥ y.1))
                              | _, _ => .panic) (m - a + 1) a m with
      | .ok i => forDown (fun t d => d.swap (i + 1 + t) (i + t)) (m - i) d    -- for k := m; k > i; k--  (k = i + 1 + t)
      | .panic => .panic
      | .outOfFuel => .outOfFuel
    else
      let mid := (a + b) / 2
      let n := mid + m
      let (start, r) := if m > mid then (n - b, mid) else (a, m)
      let p := n - 1
      match bsearch (fun c => match d.get (p - c), d.get c with
                              | .ok x, .ok y => .ok (decide (x.1 ≥ y.1))
                              | _, _ => .panic) (r - start + 1) start r with
      | .ok start =>
        let e := n - start
        let d1 : Outcome (Sl KV) := if start < m ∧ m < e then rotate d start m e else .ok d
        match d1 with
        | .ok d =>
          let d2 : Outcome (Sl KV) := if a < start ∧ start < mid then symMerge f d a start mid else .ok d
          match d2 with
          | .ok d => if mid < e ∧ e < b then symMerge f d mid e b else .ok d
          | o => o
        | o => o
      | .panic => .panic
      | .outOfFuel => .outOfFuel

/-- first loop of `stable`: `for b <= n { insertionSort(a, b); a = b; b += blockSize }` -/
def stableBlocks (bs n : Nat) : (fuel : Nat) → (a b : Nat) → Sl KV → Outcome (Sl KV × Nat)
  | 0, _, _, _ => .outOfFuel
  | f+1, a, b, d =>
    if b ≤ n then
      match insertionSortKV d a b with
      | .ok d => stableBlocks bs n f b (b + bs) d
      | .panic => .panic
      | .outOfFuel => .outOfFuel
    else .ok (d, a)

/-- inner loop of the merge phase: `for b <= n { symMerge(a, a+blockSize, b); a = b; b += 2*blockSize }` -/
def stableMergeRow (bs n : Nat) : (fuel : Nat) → (a b : Nat) → Sl KV → Outcome (Sl KV × Nat)
  | 0, _, _, _ => .outOfFuel
  | f+1, a, b, d =>
    if b ≤ n then
      match symMerge (n + 2) d a (a + bs) b with
      | .ok d => stableMergeRow bs n f b (b + 2 * bs) d
      | .panic => .panic
      | .outOfFuel => .outOfFuel
    else .ok (d, a)

/-- `for blockSize < n { … blockSize *= 2 }` -/
def stableMerge (n : Nat) : (fuel : Nat) → (bs : Nat) → Sl KV → Outcome (Sl KV)
  | 0, _, _ => .outOfFuel
  | f+1, bs, d =>
    if bs < n then
      match stableMergeRow bs n (n + 1) 0 (2 * bs) d with
      | .ok (d, a) =>
        let m := a + bs
        let d1 : Outcome (Sl KV) := if m < n then symMerge (n + 2) d a m n else .ok d
        match d1 with
        | .ok d => stableMerge n f (bs * 2) d
        | o => o
      | .panic => .panic
      | .outOfFuel => .outOfFuel
    else .ok d

/-- `stable(data, n)` -/
def stable (d : Sl KV) (n : Nat) : Outcome (Sl KV) :=
  let blockSize := 20
  match stableBlocks blockSize n (n + 1) 0 blockSize d with
  | .ok (d, a) =>
    match insertionSortKV d a n with
    | .ok d => stableMerge n (n + 1) blockSize d
    | o => o
  | .panic => .panic
  | .outOfFuel => .outOfFuel

/-! ## equitableRefinementProcedure -/

/-- the scratch slices handed to `equitableRefinementProcedure` -/
structure Scratch where
  dws : Sl KV
  nbs : Sl Nat
  space : Sl Nat
  timesSeen : Sl Nat
  maxCell : Sl Nat
  numberOfMax : Sl Nat
  deriving Inhabited

structure Options where
  checkViability : Bool := false
  viableBits : Nat := 0

/-- body of `for _, v := range neighbours[w]` -/
def countStep (inCell : Sl Nat) (v : Nat) (st : Sl Nat × Sl Nat × Sl Nat) : Outcome (Sl Nat × Sl Nat × Sl Nat) :=
  let (timesSeen, maxCell, numberOfMax) := st
  match timesSeen.get v with
  | .ok t =>
    match timesSeen.set v (t + 1), inCell.get v with
    | .ok timesSeen, .ok cell =>
      match maxCell.get cell with
      | .ok mc =>
        if t + 1 > mc then
          match numberOfMax.set cell 1, maxCell.set cell (t + 1) with
          | .ok numberOfMax, .ok maxCell => .ok (timesSeen, maxCell, numberOfMax)
          | _, _ => .panic
        else if t + 1 = mc then
          match numberOfMax.get cell with
          | .ok c =>
            match numberOfMax.set cell (c + 1) with
            | .ok numberOfMax => .ok (timesSeen, maxCell, numberOfMax)
            | .panic => .panic
            | .outOfFuel => .outOfFuel
          | .panic => .panic
          | .outOfFuel => .outOfFuel
        else .ok (timesSeen, maxCell, numberOfMax)
      | .panic => .panic
      | .outOfFuel => .outOfFuel
    | _, _ => .panic
  | .panic => .panic
  | .outOfFuel => .outOfFuel

/-- body of `for wIndex := iBinStart; wIndex < op.binDividers[i]; wIndex++` -/
def countBinStep (nb : Nbrs) (order inCell : Sl Nat) (wIndex : Nat) (st : Sl Nat × Sl Nat × Sl Nat) :
    Outcome (Sl Nat × Sl Nat × Sl Nat) :=
  match order.get wIndex with
  | .ok w =>
    match nbrsGet nb w with
    | .ok l => forList (countStep inCell) l st
    | .panic => .panic
    | .outOfFuel => .outOfFuel
  | .panic => .panic
  | .outOfFuel => .outOfFuel

/-- the `maxCell[j] == 1` fill: zeros from the front, ones from `binSize - numberOfMax[j]`.
`oneIndex = none` stands for a negative Go value (any use panics). -/
def fillOnesStep (order timesSeen : Sl Nat) (binStart : Nat) (k : Nat) (st : Sl KV × Nat × Option Nat) :
    Outcome (Sl KV × Nat × Option Nat) :=
  let (dws, zeroIndex, oneIndex) := st
  match order.get (binStart + k) with
  | .ok v =>
    match timesSeen.get v with
    | .ok t =>
      if t = 0 then
        match dws.set zeroIndex (0, v) with
        | .ok dws => .ok (dws, zeroIndex + 1, oneIndex)
        | .panic => .panic
        | .outOfFuel => .outOfFuel
      else
        match oneIndex with
        | some oi =>
          match dws.set oi (1, v) with
          | .ok dws => .ok (dws, zeroIndex, some (oi + 1))
          | .panic => .panic
          | .outOfFuel => .outOfFuel
        | none => .panic       -- Go: negative index
    | .panic => .panic
    | .outOfFuel => .outOfFuel
  | .panic => .panic
  | .outOfFuel => .outOfFuel

/-- the general fill: `dws[k].value = timesSeen[v]; dws[k].key = v` -/
def fillStep (order timesSeen : Sl Nat) (binStart : Nat) (k : Nat) (dws : Sl KV) : Outcome (Sl KV) :=
  match order.get (binStart + k) with
  | .ok v =>
    match timesSeen.get v with
    | .ok t => dws.set k (t, v)
    | .panic => .panic
    | .outOfFuel => .outOfFuel
  | .panic => .panic
  | .outOfFuel => .outOfFuel

/-- `for k := 1; k < binSize; k++ { order[binStart+k] = dws[k].key; if dws[k].value != dws[k-1].value { nbs[nbsIndex] = binStart+k; nbsIndex++ } }` -/
def writeBackStep (dws : Sl KV) (binStart : Nat) (k : Nat) (st : Sl Nat × Sl Nat × Nat) : Outcome (Sl Nat × Sl Nat × Nat) :=
  let (order, nbs, nbsIndex) := st
  match dws.get k, dws.get (k - 1) with
  | .ok x, .ok y =>
    match order.set (binStart + k) x.2 with
    | .ok order =>
      if x.1 ≠ y.1 then
        match nbs.set nbsIndex (binStart + k) with
        | .ok nbs => .ok (order, nbs, nbsIndex + 1)
        | .panic => .panic
        | .outOfFuel => .outOfFuel
      else .ok (order, nbs, nbsIndex)
    | .panic => .panic
    | .outOfFuel => .outOfFuel
  | _, _ => .panic

/-- `for k := len(binsToCheck) - 1; k >= 0; k-- { if binsToCheck[k] <= j { break }; binsToCheck[k] += nbsIndex }` -/
def shiftBtc (j nbsIndex : Nat) : (k : Nat) → Sl Int → Outcome (Sl Int)
  | 0, b => .ok b
  | k+1, b =>
    match b.get k with
    | .ok x =>
      if x ≤ (j : Int) then .ok b
      else
        match b.set k (x + (nbsIndex : Int)) with
        | .ok b => shiftBtc j nbsIndex k b
        | o => o
    | .panic => .panic
    | .outOfFuel => .outOfFuel

/-- the `options.CheckViability` block: walk over the set bits of `viable` from the lowest; `true` = return true -/
def viabilityLoop (inCell : Sl Nat) (cell : Nat) : (bits : Nat) → (v : Nat) → (x : Nat) → Outcome Bool
  | 0, _, _ => .ok false
  | b+1, v, x =>
    if x = 0 then .ok false
    else if x % 2 = 1 then
      match inCell.get v with
      | .ok c => if c < cell then .ok true else viabilityLoop inCell cell b (v + 1) (x / 2)
      | .panic => .panic
      | .outOfFuel => .outOfFuel
    else viabilityLoop inCell cell b (v + 1) (x / 2)

/-- the body of `for j := len(op.binDividers) - 1; j >= 0; j--` for one `j`; `(true, …)` = `return true` -/
def splitCell (nb : Nbrs) (n : Nat) (cb fl : Sl Nat) (opts : Options) (j : Nat) (st : Bool × OP × Scratch) :
    Outcome (Bool × OP × Scratch) :=
  let (ret, op, sc) := st
  if ret then .ok st else
  let bs : Outcome Nat := if j > 0 then op.binDividers.get (j - 1) else .ok 0
  match bs, op.binDividers.get j with
  | .ok binStart, .ok dj =>
    -- binSize := dj - binStart; `binSize == 1 || maxCell[j] == 0 || numberOfMax[j] == binSize`
    let skip : Outcome Bool :=
      if dj = binStart + 1 then .ok true
      else
        match sc.maxCell.get j with
        | .ok mc =>
          if mc = 0 then .ok true
          else
            match sc.numberOfMax.get j with
            | .ok c => .ok (decide (binStart ≤ dj ∧ c = dj - binStart))     -- Go: a negative binSize never equals a count
            | .panic => .panic
            | .outOfFuel => .outOfFuel
        | .panic => .panic
        | .outOfFuel => .outOfFuel
    match skip with
    | .ok true => .ok st
    | .ok false =>
      if dj < binStart then .panic else           -- Go: dws[:binSize] with a negative binSize
      let binSize := dj - binStart
      match sc.maxCell.get j, sc.numberOfMax.get j, sc.dws.reslice binSize with
      | .ok mc, .ok nm, .ok dws0 =>
        let filled : Outcome (Sl KV) :=
          if mc = 1 then
            let oneIndex : Option Nat := if nm ≤ binSize then some (binSize - nm) else none
            match forRange (fillOnesStep op.order sc.timesSeen binStart) binSize 0 (dws0, 0, oneIndex) with
            | .ok (dws, _, _) => .ok dws
            | .panic => .panic
            | .outOfFuel => .outOfFuel
          else
            match forRange (fillStep op.order sc.timesSeen binStart) binSize 0 dws0 with
            | .ok dws => stable dws dws.len
            | o => o
        match filled with
        | .ok dws =>
          match sc.nbs.reslice n, dws.get 0 with
          | .ok nbs, .ok kv0 =>
            match op.order.set binStart kv0.2 with
            | .ok order =>
              match forRange (writeBackStep dws binStart) (binSize - 1) 1 (order, nbs, 0) with
              | .ok (order, nbs, nbsIndex) =>
                match nbs.reslice nbsIndex with
                | .ok nbs =>
                  match shiftBtc j nbsIndex op.binsToCheck.len op.binsToCheck with
                  | .ok btc =>
                    -- binDividers = binDividers[:len+len(nbs)]; copy(bd[j+len(nbs):], bd[j:]); copy(bd[j:], nbs)
                    match op.binDividers.reslice (op.binDividers.len + nbs.len) with
                    | .ok bd =>
                      match bd.copySelf (j + nbs.len) j bd.len with
                      | .ok bd =>
                        match bd.copyAt j nbs.toList with
                        | .ok bd =>
                          match op.binAges.reslice (op.binAges.len + nbs.len) with
                          | .ok ages =>
                            match ages.copySelf (j + nbs.len) j ages.len with
                            | .ok ages =>
                              match forRange (fun i (a : Sl Int) => a.set (j + i) op.age) nbs.len 0 ages with
                              | .ok ages =>
                                match sc.space.reslice (nbsIndex + 1) with
                                | .ok space =>
                                  match forRange (fun k (s : Sl Nat) => s.set (k - j) k) (nbsIndex + 1) j space with
                                  | .ok space =>
                                    match unionSl btc (space.toList.map Int.ofNat) with
                                    | .ok btc =>
                                      let op := { op with order := order, binsToCheck := btc, binDividers := bd, binAges := ages }
                                      match recomputeInCell op with
                                      | .ok op =>
                                        let sc := { sc with dws := dws, nbs := nbs, space := space }
                                        let ex : Outcome (Bool × OP) := if j = op.spl then expandValue nb cb fl op else .ok (false, op)
                                        match ex with
                                        | .ok (true, op) => .ok (true, op, sc)
                                        | .ok (false, op) =>
                                          if opts.checkViability then
                                            match op.inCell.get (op.order.len - 1) with
                                            | .ok cell =>
                                              if op.order.len = 0 then .panic else      -- Go: index -1
                                              match viabilityLoop op.inCell cell 64 0 (opts.viableBits % 2 ^ 64) with
                                              | .ok r => .ok (r, op, sc)
                                              | .panic => .panic
                                              | .outOfFuel => .outOfFuel
                                            | .panic => .panic
                                            | .outOfFuel => .outOfFuel
                                          else .ok (false, op, sc)
                                        | .panic => .panic
                                        | .outOfFuel => .outOfFuel
                                      | .panic => .panic
                                      | .outOfFuel => .outOfFuel
                                    | .panic => .panic
                                    | .outOfFuel => .outOfFuel
                                  | .panic => .panic
                                  | .outOfFuel => .outOfFuel
                                | .panic => .panic
                                | .outOfFuel => .outOfFuel
                              | .panic => .panic
                              | .outOfFuel => .outOfFuel
                            | .panic => .panic
                            | .outOfFuel => .outOfFuel
                          | .panic => .panic
                          | .outOfFuel => .outOfFuel
                        | .panic => .panic
                        | .outOfFuel => .outOfFuel
                      | .panic => .panic
                      | .outOfFuel => .outOfFuel
                    | .panic => .panic
                    | .outOfFuel => .outOfFuel
                  | .panic => .panic
                  | .outOfFuel => .outOfFuel
                | .panic => .panic
                | .outOfFuel => .outOfFuel
              | .panic => .panic
              | .outOfFuel => .outOfFuel
            | .panic => .panic
            | .outOfFuel => .outOfFuel
          | _, _ => .panic
        | .panic => .panic
        | .outOfFuel => .outOfFuel
      | _, _, _ => .panic
    | .panic => .panic
    | .outOfFuel => .outOfFuel
  | _, _ => .panic

/-- one iteration of `for len(op.binsToCheck) > 0` (the worklist is non-empty) -/
def refineIter (nb : Nbrs) (n : Nat) (cb fl : Sl Nat) (opts : Options) (op : OP) (sc : Scratch) :
    Outcome (Bool × OP × Scratch) :=
  let timesSeen := sc.timesSeen.fill0
  let maxCell := sc.maxCell.fill0
  let numberOfMax := sc.numberOfMax.fill0
  match maxCell.reslice op.binDividers.len, numberOfMax.reslice op.binDividers.len,
        op.binsToCheck.get (op.binsToCheck.len - 1), op.binsToCheck.reslice (op.binsToCheck.len - 1) with
  | .ok maxCell, .ok numberOfMax, .ok i, .ok btc =>
    let op := { op with binsToCheck := btc }
    if i < 0 then .panic else                       -- Go: op.binDividers[i] with a negative index
    let i := i.toNat
    let ibs : Outcome Nat := if i > 0 then op.binDividers.get (i - 1) else .ok 0
    match ibs, op.binDividers.get i with
    | .ok iBinStart, .ok iEnd =>
      match forRange (countBinStep nb op.order op.inCell) (iEnd - iBinStart) iBinStart (timesSeen, maxCell, numberOfMax) with
      | .ok (timesSeen, maxCell, numberOfMax) =>
        let sc := { sc with timesSeen := timesSeen, maxCell := maxCell, numberOfMax := numberOfMax }
        forDown (splitCell nb n cb fl opts) op.binDividers.len (false, op, sc)
      | .panic => .panic
      | .outOfFuel => .outOfFuel
    | _, _ => .panic
  | _, _, _, _ => .panic

/-- `for len(op.binsToCheck) > 0 { … }; return false` -/
def refineLoop (nb : Nbrs) (n : Nat) (cb fl : Sl Nat) (opts : Options) : (fuel : Nat) → OP → Scratch → Outcome (Bool × OP × Scratch)
  | 0, _, _ => .outOfFuel
  | f+1, op, sc =>
    if op.binsToCheck.len > 0 then
      match refineIter nb n cb fl opts op sc with
      | .ok (true, op, sc) => .ok (true, op, sc)
      | .ok (false, op, sc) => refineLoop nb n cb fl opts f op sc
      | .panic => .panic
      | .outOfFuel => .outOfFuel
    else .ok (false, op, sc)

def refineFuel (n : Nat) : Nat := 3 * n + 3

/-- `equitableRefinementProcedure(neighbours, op, dws, nbs, space, timesSeen, maxCell, numberOfMax, currentBest, firstLeaf, options)`;
`n := len(op.order)` -/
def refine (nb : Nbrs) (cb fl : Sl Nat) (opts : Options) (op : OP) (sc : Scratch) : Outcome (Bool × OP × Scratch) :=
  refineLoop nb op.order.len cb fl opts (refineFuel op.order.len) op sc

/-! ## storage -/

structure Storage where
  generators : Array (Sl Nat)       -- the backing array of `storage.generators` (len = cap); a nil entry is the empty slice
  currentBest : Array Nat
  currentBestPath : Array Nat
  currentBestPerm : Array Nat
  currentBestPermInv : Array Nat
  currentBestOrbits : Array Int
  firstLeaf : Array Nat
  firstLeafPermInv : Array Nat
  firstLeafOrbits : Array Int
  firstLeafPath : Array Nat
  space : Array Nat
  dws : Array KV
  nbs : Array Nat
  timesSeen : Array Nat
  maxCell : Array Nat
  numberOfMax : Array Nat
  deriving Inhabited
-- `storage.path`, `storage.choices` (always used as `[:0]` and appended to; the headers in the struct are never updated)
-- are local lists of the call.

/-- `NewStorage(n, m)` -/
def newStorage (n m : Nat) : Storage :=
  { generators := Array.replicate (n - 1) ⟨#[], 0⟩
    currentBest := Array.replicate m 0
    currentBestPath := Array.replicate n 0
    currentBestPerm := Array.replicate n 0
    currentBestPermInv := Array.replicate n 0
    currentBestOrbits := Disjoint.new n
    firstLeaf := Array.replicate m 0
    firstLeafPermInv := Array.replicate n 0
    firstLeafOrbits := Disjoint.new n
    firstLeafPath := Array.replicate n 0
    space := Array.replicate n 0
    dws := Array.replicate n (0, 0)
    nbs := Array.replicate n 0
    timesSeen := Array.replicate n 0
    maxCell := Array.replicate n 0
    numberOfMax := Array.replicate n 0 }

/-- what `CanonicalIsomorphAllocated` returns -/
structure Res where
  perm : Option (List Nat)          -- `none` = nil
  orbits : Option (List Int)        -- the raw `disjoint.Set`; `none` = nil
  gens : Option (List (List Nat))   -- `none` = nil
  deriving Inhabited

/-! ## CanonicalIsomorphAllocated -/

/-- `s[:n]` of an `Array Int` union–find held in storage: the visible part and the rest -/
def dsSlice (a : Array Int) (n : Nat) : Outcome (Disjoint.DS × Array Int) :=
  if n ≤ a.size then .ok (a.extract 0 n, a.extract n a.size) else .panic

/-- the state of the main loop -/
structure LS where
  op : OP
  sc : Scratch
  count : Nat
  ngens : Nat                      -- len(generators)
  gens : Array (Sl Nat)
  currentBest : Sl Nat
  bestPath : Sl Nat
  bestPerm : Sl Nat
  bestPermInv : Sl Nat
  bestOrbits : Disjoint.DS
  firstLeaf : Sl Nat
  flPermInv : Sl Nat
  flOrbits : Disjoint.DS
  flPath : Sl Nat
  path : List Nat                  -- reversed: head = path[len(path)-1]
  choices : List Nat               -- reversed
  skipDeage : Bool
  deriving Inhabited

/-- `for i := 0; i < n; i++ { if tmp := order[permInv[i]]; ds.Find(tmp) != ds.Find(i) { ds.Union(i, tmp); merges = true } }` -/
def orbitStep (order permInv : Sl Nat) (i : Nat) (st : Disjoint.DS × Bool) : Outcome (Disjoint.DS × Bool) :=
  let (ds, merges) := st
  match permInv.get i with
  | .ok pi =>
    match order.get pi with
    | .ok tmp =>
      match Disjoint.find ds tmp with
      | .ok (ds, r1) =>
        match Disjoint.find ds i with
        | .ok (ds, r2) =>
          if r1 ≠ r2 then
            match Disjoint.union ds i tmp with
            | .ok ds => .ok (ds, true)
            | .panic => .panic
            | .outOfFuel => .outOfFuel
          else .ok (ds, merges)
        | .panic => .panic
        | .outOfFuel => .outOfFuel
      | .panic => .panic
      | .outOfFuel => .outOfFuel
    | .panic => .panic
    | .outOfFuel => .outOfFuel
  | .panic => .panic
  | .outOfFuel => .outOfFuel

/-- `generators = generators[:len+1]; tmp := generators[len-1]; if cap(tmp) >= n { tmp = tmp[:n] } else { tmp = make([]int, n) };
for i := range order { tmp[i] = order[permInv[i]] }; generators[len-1] = tmp` -/
def recordGenerator (n : Nat) (order permInv : Sl Nat) (gens : Array (Sl Nat)) (ngens : Nat) : Outcome (Array (Sl Nat) × Nat) :=
  if ngens + 1 ≤ gens.size then
    match gens[ngens]? with
    | some tmp0 =>
      let tmp : Sl Nat := if tmp0.cap ≥ n then ⟨tmp0.data, n⟩ else Sl.mk' n n 0
      match forRange (fun i (t : Sl Nat) =>
              match permInv.get i with
              | .ok pi =>
                match order.get pi with
                | .ok v => t.set i v
                | .panic => .panic
                | .outOfFuel => .outOfFuel
              | .panic => .panic
              | .outOfFuel => .outOfFuel) order.len 0 tmp with
      | .ok tmp => .ok (gens.setIfInBounds ngens tmp, ngens + 1)
      | .panic => .panic
      | .outOfFuel => .outOfFuel
    | none => .panic
  else .panic

/-- Heuristic 1: `index := len(path)-1; for i := 0; i < len(path)-1; i++ { if path[i] != ref[i] { index = i; break } }`;
returns `index + 1`. `path` is given in Go order. -/
def h1Index (path : List Nat) (ref : Sl Nat) : (k : Nat) → (i : Nat) → Outcome Nat
  | 0, _ => .ok path.length
  | k+1, i =>
    match ref.get i with
    | .ok r => if path.getD i 0 ≠ r then .ok (i + 1) else h1Index path ref k (i + 1)
    | .panic => .panic
    | .outOfFuel => .outOfFuel

/-- `for i := len(path)-1; i > index; i-- { op.deage() }` -/
def deageTimes : Nat → OP → Outcome OP
  | 0, op => .ok op
  | k+1, op =>
    match deage op with
    | .ok op => deageTimes k op
    | o => o

/-- Heuristic 1 back-jump against the reference path `ref` -/
def backJump (s : LS) (ref : Sl Nat) : Outcome LS :=
  let path := s.path.reverse
  match h1Index path ref (path.length - 1) 0 with
  | .ok idx1 =>
    match deageTimes (path.length - idx1) s.op with
    | .ok op => .ok { s with op := op, path := (path.take idx1).reverse, choices := (s.choices.reverse.take idx1).reverse }
    | .panic => .panic
    | .outOfFuel => .outOfFuel
  | .panic => .panic
  | .outOfFuel => .outOfFuel

/-- the leaf branch `if !worse && len(op.binDividers) == n` -/
def leafNode (n m : Nat) (s : LS) : Outcome LS :=
  let s := { s with count := s.count + 1 }
  let op := s.op
  let comp := compare op.value.toList s.currentBest.toList
  if comp == 1 || s.count == 1 then
    match s.currentBest.reslice m with
    | .ok cb =>
      let cb := cb.copyFrom op.value.toList
      let bestPath := s.bestPath.copyFrom s.path.reverse
      let bestPerm := s.bestPerm.copyFrom op.order.toList
      match forRange (fun i (st : Sl Nat × Disjoint.DS) =>
              match op.order.get i with
              | .ok v =>
                match st.1.set v i with
                | .ok pinv => if i < st.2.size then .ok (pinv, st.2.setIfInBounds i (-1)) else .panic
                | .panic => .panic
                | .outOfFuel => .outOfFuel
              | .panic => .panic
              | .outOfFuel => .outOfFuel) op.order.len 0 (s.bestPermInv, s.bestOrbits) with
      | .ok (bestPermInv, bestOrbits) =>
        let s := { s with currentBest := cb, bestPath := bestPath, bestPerm := bestPerm, bestPermInv := bestPermInv,
                          bestOrbits := bestOrbits }
        if s.count = 1 then
          .ok { s with firstLeaf := s.firstLeaf.copyFrom op.value.toList
                       flPath := s.flPath.copyFrom s.path.reverse
                       flPermInv := s.flPermInv.copyFrom bestPermInv.toList
                       flOrbits := (Sl.copyFrom ⟨s.flOrbits, s.flOrbits.size⟩ bestOrbits.toList).data }
        else .ok s
      | .panic => .panic
      | .outOfFuel => .outOfFuel
    | .panic => .panic
    | .outOfFuel => .outOfFuel
  else if comp == 0 then
    match forRange (orbitStep op.order s.bestPermInv) n 0 (s.bestOrbits, false) with
    | .ok (bestOrbits, _) =>
      match forRange (orbitStep op.order s.bestPermInv) n 0 (s.flOrbits, false) with
      | .ok (flOrbits, merges) =>
        let g : Outcome (Array (Sl Nat) × Nat) :=
          if merges then recordGenerator n op.order s.bestPermInv s.gens s.ngens else .ok (s.gens, s.ngens)
        match g with
        | .ok (gens, ngens) =>
          backJump { s with bestOrbits := bestOrbits, flOrbits := flOrbits, gens := gens, ngens := ngens } s.bestPath
        | .panic => .panic
        | .outOfFuel => .outOfFuel
      | .panic => .panic
      | .outOfFuel => .outOfFuel
    | .panic => .panic
    | .outOfFuel => .outOfFuel
  else if compare op.value.toList s.firstLeaf.toList == 0 then
    match forRange (orbitStep op.order s.flPermInv) n 0 (s.flOrbits, false) with
    | .ok (flOrbits, merges) =>
      let g : Outcome (Array (Sl Nat) × Nat) :=
        if merges then recordGenerator n op.order s.flPermInv s.gens s.ngens else .ok (s.gens, s.ngens)
      match g with
      | .ok (gens, ngens) => backJump { s with flOrbits := flOrbits, gens := gens, ngens := ngens } s.flPath
      | .panic => .panic
      | .outOfFuel => .outOfFuel
    | .panic => .panic
    | .outOfFuel => .outOfFuel
  else .ok s

/-- the non-leaf branch: `for i := 0; i < len(binDividers); i++ { binSize := bd[i] - prevBinStart; if binSize > 1 { push; break }; prevBinStart = bd[i] }` -/
def pickCell (bd : Sl Nat) : (k : Nat) → (i : Nat) → (prevBinStart : Nat) → Outcome (Option (Nat × Nat))
  | 0, _, _ => .ok none
  | k+1, i, prev =>
    match bd.get i with
    | .ok d => if d - prev > 1 then .ok (some (d, d - prev)) else pickCell bd k (i + 1) d
    | .panic => .panic
    | .outOfFuel => .outOfFuel

def innerNode (s : LS) : Outcome LS :=
  match pickCell s.op.binDividers s.op.binDividers.len 0 0 with
  | .ok (some (d, binSize)) => .ok { s with choices := d :: s.choices, path := binSize :: s.path, skipDeage := true }
  | .ok none => .ok s
  | .panic => .panic
  | .outOfFuel => .outOfFuel

/-- `if !skipDeage { op.deage() } else { skipDeage = false }` -/
def maybeDeage (s : LS) : Outcome LS :=
  if !s.skipDeage then
    match deage s.op with
    | .ok op => .ok { s with op := op }
    | .panic => .panic
    | .outOfFuel => .outOfFuel
  else .ok { s with skipDeage := false }

/-- `binEnd := len(op.order); for k := 0; k < len(op.binDividers); k++ { if choicePosition < op.binDividers[k] { binEnd = op.binDividers[k]; break } }` -/
def binEndLoop (bd : Sl Nat) (cp dflt : Nat) : (k : Nat) → (i : Nat) → Outcome Nat
  | 0, _ => .ok dflt
  | k+1, i =>
    match bd.get i with
    | .ok d => if cp < d then .ok d else binEndLoop bd cp dflt k (i + 1)
    | .panic => .panic
    | .outOfFuel => .outOfFuel

/-- `for k := choicePosition + 1; k < binEnd; k++ { if currentBestOrbits.FindBuffered(op.order[k], space) == rep { skip } }` -/
def orbitScan (order : Sl Nat) (rep : Nat) : (cnt : Nat) → (k : Nat) → Disjoint.DS → Outcome (Bool × Disjoint.DS)
  | 0, _, ds => .ok (false, ds)
  | c+1, k, ds =>
    match order.get k with
    | .ok v =>
      match Disjoint.find ds v with
      | .ok (ds, r) => if r = rep then .ok (true, ds) else orbitScan order rep c (k + 1) ds
      | .panic => .panic
      | .outOfFuel => .outOfFuel
    | .panic => .panic
    | .outOfFuel => .outOfFuel

/-- Heuristic 2 on the best-leaf path: skip the child only if an element of its orbit (in `currentBestOrbits`) sits at a
later position of the bin, i.e. has already been visited at this node. Returns the (path-compressed) union–find. -/
def h2Best (op : OP) (ds : Disjoint.DS) (choicePosition choiceElement : Nat) : Outcome (Bool × Disjoint.DS) :=
  match binEndLoop op.binDividers choicePosition op.order.len op.binDividers.len 0 with
  | .ok binEnd =>
    match Disjoint.find ds choiceElement with
    | .ok (ds, rep) => orbitScan op.order rep (binEnd - (choicePosition + 1)) (choicePosition + 1) ds
    | .panic => .panic
    | .outOfFuel => .outOfFuel
  | .panic => .panic
  | .outOfFuel => .outOfFuel

/-- `jLoop`: `for j := path[len(path)-1] - 1; j >= 0; j--`; `k = j + 1`. Returns `(true, s)` on `break stepLoop`. -/
def jLoop (nb : Nbrs) : (k : Nat) → LS → Outcome (Bool × LS)
  | 0, s => .ok (false, s)
  | j+1, s =>
    match maybeDeage s with
    | .ok s =>
      match s.choices, s.path with
      | c :: crest, _ :: prest =>
        if c = 0 then .panic else                 -- Go: op.order[-1]
        let choicePosition := c - 1
        let s := { s with choices := choicePosition :: crest }
        match s.op.order.get choicePosition with
        | .ok choiceElement =>
          let prefixGo := prest.reverse            -- path[:len(path)-1]
          let onFirst := decide (s.count > 0) && hasPrefix s.flPath.toList prefixGo
          let h2a : Outcome Bool :=
            if onFirst then
              match s.flOrbits[choiceElement]? with
              | some x => .ok (decide (x ≥ 0))
              | none => .panic
            else .ok false
          match h2a with
          | .ok true => jLoop nb j { s with skipDeage := true }
          | .ok false =>
            let onBest := decide (s.count > 0) && !hasPrefix s.flPath.toList prefixGo && hasPrefix s.bestPath.toList prefixGo
            let h2b : Outcome (Bool × Disjoint.DS) :=
              if onBest then h2Best s.op s.bestOrbits choicePosition choiceElement else .ok (false, s.bestOrbits)
            match h2b with
            | .ok (true, bo) => jLoop nb j { s with bestOrbits := bo, skipDeage := true }
            | .ok (false, bo) =>
              let s := { s with bestOrbits := bo }
              match splitBin nb s.currentBest s.firstLeaf s.op choicePosition with
              | .ok (worse, op) =>
                let s := { s with op := op, path := j :: prest }
                if worse then jLoop nb j s else .ok (true, s)
              | .panic => .panic
              | .outOfFuel => .outOfFuel
            | .panic => .panic
            | .outOfFuel => .outOfFuel
          | .panic => .panic
          | .outOfFuel => .outOfFuel
        | .panic => .panic
        | .outOfFuel => .outOfFuel
      | _, _ => .panic                            -- Go: choices[len(choices)-1] on an empty slice
    | .panic => .panic
    | .outOfFuel => .outOfFuel

/-- `stepLoop`; `k` bounds the number of pops (= `len(path)`); `(false, s)` = `len(path) == 0` (return) -/
def stepLoop (nb : Nbrs) : (k : Nat) → LS → Outcome (Bool × LS)
  | 0, s => match s.path with
    | [] => .ok (false, s)
    | _ => .outOfFuel
  | k+1, s =>
    match s.path with
    | [] => .ok (false, s)
    | p :: _ =>
      match jLoop nb p s with
      | .ok (true, s) => .ok (true, s)
      | .ok (false, s) =>
        match maybeDeage s with
        | .ok s => stepLoop nb k { s with path := s.path.drop 1, choices := s.choices.drop 1 }
        | .panic => .panic
        | .outOfFuel => .outOfFuel
      | .panic => .panic
      | .outOfFuel => .outOfFuel

def scratchOf (s : LS) : Scratch := s.sc

/-- the main `for { … }` loop; returns the final state when `len(path) == 0` -/
def mainLoop (nb : Nbrs) (n m : Nat) : (fuel : Nat) → (worse : Bool) → LS → Outcome LS
  | 0, _, _ => .outOfFuel
  | f+1, worse, s =>
    let s1 : Outcome LS :=
      if !worse && s.op.binDividers.len == n then leafNode n m s
      else if !worse then innerNode s
      else .ok s
    match s1 with
    | .ok s =>
      match stepLoop nb s.path.length s with
      | .ok (false, s) => .ok s
      | .ok (true, s) =>
        match refine nb s.currentBest s.firstLeaf {} s.op s.sc with
        | .ok (worse, op, sc) =>
          -- the scratch slice headers of the caller keep their length n
          mainLoop nb n m f worse { s with op := op, sc := { dws := ⟨sc.dws.data, n⟩, nbs := ⟨sc.nbs.data, n⟩, space := ⟨sc.space.data, n⟩,
                                                             timesSeen := ⟨sc.timesSeen.data, n⟩, maxCell := ⟨sc.maxCell.data, n⟩,
                                                             numberOfMax := ⟨sc.numberOfMax.data, n⟩ } }
        | .panic => .panic
        | .outOfFuel => .outOfFuel
      | .panic => .panic
      | .outOfFuel => .outOfFuel
    | .panic => .panic
    | .outOfFuel => .outOfFuel

/-- the `m == 0` shortcut -/
def edgeless (n : Nat) (st : Storage) : Outcome (Res × Storage) :=
  match (⟨st.currentBestPerm, 0⟩ : Sl Nat).reslice n, dsSlice st.firstLeafOrbits n with
  | .ok perm, .ok (ds, dsRest) =>
    match identLoop n perm with
    | .ok perm =>
      -- ds[0] = -2; for i := 1; i < n; i++ { ds[i] = 0 }
      let ds := (ds.setIfInBounds 0 (-2)).mapIdx (fun i v => if 0 < i then 0 else v)
      let st := { st with currentBestPerm := perm.data, firstLeafOrbits := ds ++ dsRest }
      if n = 1 then .ok ({ perm := some perm.toList, orbits := some ds.toList, gens := some [] }, st)
      else
        -- generators := storage.generators[:1]
        if 1 ≤ st.generators.size then
          let mkTmp (t0 : Sl Nat) : Sl Nat := if t0.cap < n then Sl.mk' n n 0 else ⟨t0.data, n⟩
          let t0 := mkTmp (st.generators.getD 0 default)
          match forRange (fun i (t : Sl Nat) => t.set i (i + 1)) t0.len 0 t0 with
          | .ok t0 =>
            match t0.set (n - 1) 0 with
            | .ok t0 =>
              let st := { st with generators := st.generators.setIfInBounds 0 t0 }
              if n = 2 then .ok ({ perm := some perm.toList, orbits := some ds.toList, gens := some [t0.toList] }, st)
              else
                if 2 ≤ st.generators.size then
                  let t1 := mkTmp (st.generators.getD 1 default)
                  match forRange (fun i (t : Sl Nat) => t.set i i) t1.len 0 t1 with
                  | .ok t1 =>
                    match t1.set 0 1 with
                    | .ok t1 =>
                      match t1.set 1 0 with
                      | .ok t1 =>
                        .ok ({ perm := some perm.toList, orbits := some ds.toList, gens := some [t0.toList, t1.toList] },
                             { st with generators := st.generators.setIfInBounds 1 t1 })
                      | .panic => .panic
                      | .outOfFuel => .outOfFuel
                    | .panic => .panic
                    | .outOfFuel => .outOfFuel
                  | .panic => .panic
                  | .outOfFuel => .outOfFuel
                else .panic
            | .panic => .panic
            | .outOfFuel => .outOfFuel
          | .panic => .panic
          | .outOfFuel => .outOfFuel
        else .panic
    | .panic => .panic
    | .outOfFuel => .outOfFuel
  | _, _ => .panic

def slOf {α : Type} (a : Array α) (k : Nat) : Outcome (Sl α) := (⟨a, 0⟩ : Sl α).reslice k

/-- write the loop state back into the storage (the Go code shares the backing arrays) -/
def storeBack (_st : Storage) (s : LS) (bestRest flRest : Array Int) : Storage :=
  { generators := s.gens
    currentBest := s.currentBest.data
    currentBestPath := s.bestPath.data
    currentBestPerm := s.bestPerm.data
    currentBestPermInv := s.bestPermInv.data
    currentBestOrbits := s.bestOrbits ++ bestRest
    firstLeaf := s.firstLeaf.data
    firstLeafPermInv := s.flPermInv.data
    firstLeafOrbits := s.flOrbits ++ flRest
    firstLeafPath := s.flPath.data
    space := s.sc.space.data
    dws := s.sc.dws.data
    nbs := s.sc.nbs.data
    timesSeen := s.sc.timesSeen.data
    maxCell := s.sc.maxCell.data
    numberOfMax := s.sc.numberOfMax.data }

/-- `CanonicalIsomorphAllocated(n, m, neighbours, op, storage, options)`. `op = none` is a nil pointer (any use panics). -/
def canonicalIsomorphAllocated (fuel : Nat) (n m : Nat) (nb : Nbrs) (op : Option OP) (st : Storage) (opts : Options) :
    Outcome (Res × Option OP × Storage) :=
  if n = 0 then .ok ({ perm := some [], orbits := none, gens := none }, op, st) else
  -- `if m == 0 && len(op.binDividers) == 1` (a nil partition is dereferenced only when `m == 0`)
  let shortcut : Outcome Bool :=
    if m = 0 then
      match op with
      | none => .panic
      | some o => .ok (o.binDividers.len == 1)
    else .ok false
  match shortcut with
  | .panic => .panic
  | .outOfFuel => .outOfFuel
  | .ok true =>
    match edgeless n st with
    | .ok (r, st) => .ok (r, op, st)
    | .panic => .panic
    | .outOfFuel => .outOfFuel
  | .ok false =>
  match slOf st.currentBestPath n, slOf st.currentBestPerm n, slOf st.currentBestPermInv n, dsSlice st.currentBestOrbits n with
  | .ok bestPath, .ok bestPerm, .ok bestPermInv, .ok (bestOrbits, bestRest) =>
    match slOf st.firstLeaf m, slOf st.firstLeafPermInv n, dsSlice st.firstLeafOrbits n, slOf st.firstLeafPath n with
    | .ok firstLeaf, .ok flPermInv, .ok (flOrbits, flRest), .ok flPath =>
      match slOf st.space n, slOf st.dws n, slOf st.nbs n with
      | .ok space, .ok dws, .ok nbs =>
        match slOf st.timesSeen n, slOf st.maxCell n, slOf st.numberOfMax n with
        | .ok timesSeen, .ok maxCell, .ok numberOfMax =>
          match op with
          | none => .panic
          | some op =>
            let sc : Scratch := { dws := dws, nbs := nbs, space := space, timesSeen := timesSeen, maxCell := maxCell, numberOfMax := numberOfMax }
            let cb0 : Sl Nat := ⟨st.currentBest, 0⟩
            match refine nb cb0 firstLeaf opts op sc with
            | .ok (worse, op, sc1) =>
              let sc : Scratch := { dws := ⟨sc1.dws.data, n⟩, nbs := ⟨sc1.nbs.data, n⟩, space := ⟨sc1.space.data, n⟩,
                                    timesSeen := ⟨sc1.timesSeen.data, n⟩, maxCell := ⟨sc1.maxCell.data, n⟩,
                                    numberOfMax := ⟨sc1.numberOfMax.data, n⟩ }
              let s0 : LS := { op := op, sc := sc, count := 0, ngens := 0, gens := st.generators, currentBest := cb0,
                               bestPath := bestPath, bestPerm := bestPerm, bestPermInv := bestPermInv, bestOrbits := bestOrbits,
                               firstLeaf := firstLeaf, flPermInv := flPermInv, flOrbits := flOrbits, flPath := flPath,
                               path := [], choices := [], skipDeage := false }
              if opts.checkViability && worse then
                .ok ({ perm := none, orbits := none, gens := none }, some op, storeBack st s0 bestRest flRest)
              else
                -- `op.expandValue(neighbours, currentBest, firstLeaf)` (result ignored): the value must cover an initial
                -- singleton prefix
                match expandValue nb cb0 firstLeaf op with
                | .ok (_, op) =>
                  match mainLoop nb n m fuel worse { s0 with op := op } with
                  | .ok s =>
                    .ok ({ perm := some s.bestPerm.toList, orbits := some s.flOrbits.toList,
                           gens := some (((s.gens.toList.take s.ngens)).map Sl.toList) },
                         some s.op, storeBack st s bestRest flRest)
                  | .panic => .panic
                  | .outOfFuel => .outOfFuel
                | .panic => .panic
                | .outOfFuel => .outOfFuel
            | .panic => .panic
            | .outOfFuel => .outOfFuel
        | _, _, _ => .panic
      | _, _, _ => .panic
    | _, _, _, _ => .panic
  | _, _, _, _ => .panic

/-! ## wrappers -/

/-- `neighbours[i] = g.Neighbours(i)` -/
def nbrsOf (g : GraphSpec.G) : Nbrs := ((List.range g.n).map g.nbrs).toArray

def defaultFuel : Nat := 100000000

/-- `CanonicalIsomorphFull(g, vertexClasses)` -/
def canonicalIsomorphFull (fuel : Nat) (g : GraphSpec.G) (vc : Classes) : Outcome Res :=
  let nb := nbrsOf g
  let m := (nb.toList.map List.length).sum / 2       -- g.M()
  match newOrderedPartition g.n m vc with
  | .ok op =>
    match canonicalIsomorphAllocated fuel g.n m nb op (newStorage g.n m) {} with
    | .ok (r, _, _) => .ok r
    | .panic => .panic
    | .outOfFuel => .outOfFuel
  | .panic => .panic
  | .outOfFuel => .outOfFuel

/-- `CanonicalIsomorph(g)` -/
def canonicalIsomorph (fuel : Nat) (g : GraphSpec.G) : Outcome (Option (List Nat)) :=
  match canonicalIsomorphFull fuel g none with
  | .ok r => .ok r.perm
  | .panic => .panic
  | .outOfFuel => .outOfFuel

end CanonF
