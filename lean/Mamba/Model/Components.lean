import Mamba.Basic
import Mamba.Spec.Graph
/-!
# Faithful models (pattern F) of `graph/general.go`: `ConnectedComponent`, `ConnectedComponents`

Statement by statement after the Go code. `unseen` is an `Array Nat` whose size is the slice length
(`unseen[i] = unseen[len-1]; unseen = unseen[:len-1]` is `set` followed by `pop`); `toCheck` is used as a stack
(`append` at the end, pop from the end) and is modelled by a `List Nat` with the top at the head; `seen` is a
`List Nat` in append order; `g.IsEdge(u, w)` is `g.adj u w`; `sort.Ints` is `sortInts` (merge sort; any function
returning the sorted permutation gives the same value). Every index expression is bounds checked
(`Outcome.panic`); the `for len(toCheck) > 0` loop takes fuel (`n + 1` suffices, theorem in `Props/C10.lean`).
-/
namespace GDist.Model
open GraphSpec

/-- `sort.Ints` -/
def sortInts (l : List Nat) : List Nat := l.mergeSort (fun a b => decide (a ≤ b))

/-- `unseen[i] = unseen[len(unseen)-1]; unseen = unseen[:len(unseen)-1]` -/
def swapRemove (U : Array Nat) (i : Nat) (h : i < U.size) : Array Nat :=
  (U.set i (U[U.size - 1]'(by omega)) h).pop

/-- `for i := len(unseen) - 1; i >= 0; i--` of the flood fill; the first argument is `i + 1` -/
def ccScan (g : G) (u : Nat) : Nat → Array Nat → List Nat → List Nat → Outcome (Array Nat × List Nat × List Nat)
  | 0, U, T, S => .ok (U, T, S)
  | i+1, U, T, S =>
    if h : i < U.size then
      let w := U[i]
      if g.adj u w then
        let U' := swapRemove U i h
        -- toCheck = append(toCheck, w); seen = append(seen, w)
        ccScan g u i U' (w :: T) (S ++ [w])
      else ccScan g u i U T S
    else .panic

/-- `for len(toCheck) > 0 { toCheck, u = toCheck[:len(toCheck)-1], toCheck[len(toCheck)-1]; ... }` -/
def ccLoop (g : G) : Nat → Array Nat → List Nat → List Nat → Outcome (Array Nat × List Nat)
  | 0, _, _, _ => .outOfFuel
  | _+1, U, [], S => .ok (U, S)
  | f+1, U, u :: T, S =>
    match ccScan g u U.size U T S with
    | .ok (U', T', S') => ccLoop g f U' T' S'
    | .panic => .panic
    | .outOfFuel => .outOfFuel

/-- `ConnectedComponent(g, v)` -/
def connectedComponent (g : G) (v : Nat) (fuel : Nat := g.n + 1) : Outcome (List Nat) :=
  if g.n = 0 then .panic                       -- make([]int, 1, 0): cap out of range
  else
    let U := Array.range g.n                    -- unseen[i] = i
    if h : v < U.size then
      let U1 := swapRemove U v h
      match ccLoop g fuel U1 [v] [v] with
      | .ok (_, S) => .ok (sortInts S)
      | .panic => .panic
      | .outOfFuel => .outOfFuel
    else .panic

/-- the `for len(unseen) > 0` loop of `ConnectedComponents`; first argument: fuel for this loop -/
def ccsLoop (g : G) (fuel : Nat) : Nat → Array Nat → List (List Nat) → Outcome (List (List Nat))
  | 0, _, _ => .outOfFuel
  | k+1, U, comps =>
    if h : 0 < U.size then
      let v := U[U.size - 1]                    -- v := unseen[len(unseen)-1]
      let U1 := U.pop                           -- unseen = unseen[:len(unseen)-1]
      match ccLoop g fuel U1 [v] [v] with
      | .ok (U2, S) => ccsLoop g fuel k U2 (comps ++ [sortInts S])
      | .panic => .panic
      | .outOfFuel => .outOfFuel
    else .ok comps

/-- `ConnectedComponents(g)` -/
def connectedComponents (g : G) (fuel : Nat := g.n + 1) : Outcome (List (List Nat)) :=
  if g.n = 0 then .ok []
  else if g.n = 1 then .ok [[0]]
  else ccsLoop g fuel fuel (Array.range g.n) []

end GDist.Model
