import Mamba.Basic
/-!
# Shared vocabulary for the models of `itertools/*.go` (property C15)

A Go `[]int` is a `List Int` (`Sl`); Go `int` scalars are `Int` (they do become negative in this package:
`k--` below zero, `j = -1`, `q = -2`, `data[k-1]--`).  Every Go index expression is `get`/`set`, which yield
`Outcome.panic` when the index is out of range.  `for` loops with an evident trip count are written as
structural recursion on that trip count; the `goto`-structured state machines take fuel.

An iterator is modelled as a record `It σ α`: `next : σ → Outcome (σ × Bool)` is one call of Go's `Next()`,
`value` one call of `Value()` (it also returns a state because `MultisetCombinationIterator.Value` writes
into a buffer that is shared between calls).
-/
namespace Iter

abbrev Sl := List Int

/-- `a[i]` -/
def get (a : Sl) (i : Int) : Outcome Int :=
  if i < 0 then .panic
  else match a[i.toNat]? with
    | some v => .ok v
    | none => .panic

/-- `a[i] = v` -/
def set (a : Sl) (i : Int) (v : Int) : Outcome Sl :=
  if i < 0 then .panic
  else if i.toNat < a.length then .ok (a.set i.toNat v) else .panic

/-- `make([]int, n)` (panics for negative `n`) -/
def make (n : Int) : Outcome Sl :=
  if n < 0 then .panic else .ok (List.replicate n.toNat 0)

/-- `a := make([]int, n); for i := range a { a[i] = i }` -/
def iota (n : Int) : Outcome Sl :=
  if n < 0 then .panic else .ok ((List.range n.toNat).map Int.ofNat)

/-- An iterator: one `Next()` call and one `Value()` call as functions on the state. -/
structure It (σ α : Type) where
  next : σ → Outcome (σ × Bool)
  value : σ → Outcome (σ × α)

/-- Why `collect` stopped. -/
inductive Stop where
  | exhausted   -- `Next()` returned false
  | cap         -- the bound on the number of values was reached
  | panic
  | outOfFuel
  deriving Repr, DecidableEq

/-- `for it.Next() { vals = append(vals, it.Value()) }`, at most `cap` values. Returns the values in
reverse order, the last state and the reason for stopping. -/
def collect {σ α : Type} (it : It σ α) : Nat → σ → List α → List α × σ × Stop
  | 0, s, acc => (acc, s, .cap)
  | c+1, s, acc =>
    match it.next s with
    | .ok (s1, true) =>
      match it.value s1 with
      | .ok (s2, v) => collect it c s2 (v :: acc)
      | .panic => (acc, s1, .panic)
      | .outOfFuel => (acc, s1, .outOfFuel)
    | .ok (s1, false) => (acc, s1, .exhausted)
    | .panic => (acc, s, .panic)
    | .outOfFuel => (acc, s, .outOfFuel)

/-- `k` further `Next()` calls; records `none` for false and the value for true. -/
def extras {σ α : Type} (it : It σ α) : Nat → σ → Outcome (List (Option α))
  | 0, _ => .ok []
  | k+1, s =>
    match it.next s with
    | .ok (s1, true) =>
      match it.value s1 with
      | .ok (s2, v) =>
        match extras it k s2 with
        | .ok r => .ok (some v :: r)
        | .panic => .panic
        | .outOfFuel => .outOfFuel
      | .panic => .panic
      | .outOfFuel => .outOfFuel
    | .ok (s1, false) =>
      match extras it k s1 with
      | .ok r => .ok (none :: r)
      | .panic => .panic
      | .outOfFuel => .outOfFuel
    | .panic => .panic
    | .outOfFuel => .outOfFuel

/-- The output sequence: all values until the first `false` (or until `bound` values), the state reached and the
reason for stopping. -/
def outputs {σ α : Type} (it : It σ α) (bound : Nat) (s : σ) : List α × σ × Stop :=
  let r := collect it bound s []
  (r.1.reverse, r.2.1, r.2.2)

/-- The fixed predicate family of the requests (prefix predicates for the predicate-driven iterators). -/
inductive Pred where
  | always
  | never
  | parity (r : Int)                  -- accept iff last element ≡ r (mod 2)
  | position                          -- accept iff last element ≠ len-1
  | sumLe (b : Int)                   -- accept iff the sum of the prefix is ≤ b
  | hash (salt m r : Nat)             -- pseudo-random table: accept iff h(prefix) % m ≥ r
  | table (rej : List (List Int))     -- explicit table: reject exactly the listed prefixes
  deriving Repr

def hashOf (salt : Nat) (p : List Int) : Nat :=
  p.foldl (fun h x => (h * 31 + x.toNat + 1) % 65521) salt

def Pred.eval : Pred → List Int → Bool
  | .always, _ => true
  | .never, _ => false
  | .parity r, p => match p.getLast? with
    | some x => x % 2 == r
    | none => true
  | .position, p => match p.getLast? with
    | some x => x != (p.length : Int) - 1
    | none => true
  | .sumLe b, p => p.foldl (· + ·) 0 ≤ b
  | .hash salt m r, p => hashOf salt p % m ≥ r
  | .table rej, p => !(rej.contains p)

end Iter
