import Mamba.Model.IterBase
/-!
# Model of `itertools/partitions.go`
`Partitions` (restricted growth strings in lexicographic order) and `IntegerPartitions` (reverse lexicographic).
-/
namespace Iter

/-! ## Partitions -/

structure Parts where
  n : Int
  m : Int
  a : Sl
  b : Sl
  deriving Repr

/-- `Partitions(n)` -/
def Parts.init (n : Int) : Outcome Parts :=
  if n < 1 then .panic   -- panic("Cannot handle n < 1")
  else do
    let a ← make n
    let a ← set a (n - 1) (-1)
    let b : Sl := List.replicate n.toNat 1
    pure ⟨n, if n == 1 then 0 else 1, a, b⟩

/-- `for k := j+1; k < n-1; k++ { a[k] = 0; b[k] = m }` -/
def Parts.reset (m : Int) : Nat → Int → Sl → Sl → Outcome (Sl × Sl)
  | 0, _, a, b => .ok (a, b)
  | c+1, k, a, b => do
    let a ← set a k 0
    let b ← set b k m
    Parts.reset m c (k + 1) a b

/-- `for j := n-2; j >= 1; j-- {...}`; argument = `j` (so the loop ends at 0) -/
def Parts.scan (n : Int) : Nat → Sl → Sl → Outcome (Option (Int × Sl × Sl))
  | 0, _, _ => .ok none
  | j+1, a, b => do
    let aj ← get a (j + 1 : Nat)
    let bj ← get b (j + 1 : Nat)
    if aj != bj then
      let a ← set a (j + 1 : Nat) (aj + 1)
      let m := if aj + 1 == bj then bj + 1 else bj
      let (a, b) ← Parts.reset m (n - 1 - ((j + 1 : Nat) + 1)).toNat ((j + 1 : Nat) + 1) a b
      let a ← set a (n - 1) 0
      pure (some (m, a, b))
    else Parts.scan n j a b

/-- `(*PartitionIterator).Next` -/
def Parts.next (s : Parts) : Outcome (Parts × Bool) := do
  let last ← get s.a (s.n - 1)
  if last == s.m then
    match (← Parts.scan s.n (s.n - 2).toNat s.a s.b) with
    | some (m, a, b) => pure ({ s with m := m, a := a, b := b }, true)
    | none => pure (s, false)
  else
    let a ← set s.a (s.n - 1) (last + 1)
    pure ({ s with a := a }, true)

/-- first loop of `partitionFromRestrictedGrowthString`: `sizes[v]++` (index check) and the maximum -/
def rgsMax (n : Nat) : Sl → Int → Outcome Int
  | [], mx => .ok mx
  | v :: r, mx =>
    if v < 0 ∨ v.toNat ≥ n then .panic
    else rgsMax n r (if v > mx then v else mx)

/-- `partitionFromRestrictedGrowthString` -/
def partitionFromRGS (rgs : Sl) : Outcome (List (List Int)) := do
  let mx ← rgsMax rgs.length rgs 0
  let idx : List (Int × Nat) := rgs.zipIdx
  pure ((List.range (mx.toNat + 1)).map (fun i =>
    (idx.filter (fun (v, _) => v == (i : Int))).map (fun (_, p) => (p : Int))))

def Parts.it : It Parts (List (List Int)) :=
  ⟨Parts.next, fun s => do let p ← partitionFromRGS s.a; pure (s, p)⟩

/-! ## IntegerPartitions -/

structure IntParts where
  a : Sl
  m : Int
  q : Int
  deriving Repr

/-- `IntegerPartitions(n)` -/
def IntParts.init (n : Int) : Outcome IntParts :=
  if n == 0 then .ok ⟨[], 0, -2⟩
  else if n < 0 then .panic
  else do
    let a : Sl := List.replicate n.toNat 1
    let a ← set a 0 n
    pure ⟨a, 1, -2⟩

/-- `for tailSum > x { q++; tailSum -= x; a[q] = x }` -/
def IntParts.spread (x : Int) : Nat → Int → Int → Sl → Outcome (Int × Int × Sl)
  | 0, _, _, _ => .outOfFuel
  | f+1, q, tailSum, a =>
    if tailSum > x then do
      let a ← set a (q + 1) x
      IntParts.spread x f (q + 1) (tailSum - x) a
    else .ok (q, tailSum, a)

/-- `(*IntegerPartitionIterator).Next` -/
def IntParts.next (s : IntParts) : Outcome (IntParts × Bool) :=
  if s.q == -2 then do
    let one ← if s.a.length == 0 then pure true else do
      let a0 ← get s.a 0
      pure (a0 == 1)
    pure ({ s with q := if one then -1 else 0 }, true)
  else if s.q == -1 then .ok (s, false)
  else do
    let aq ← get s.a s.q
    if aq == 2 then
      let a ← set s.a s.q 1
      pure ({ s with a := a, q := s.q - 1, m := s.m + 1 }, true)
    else
      let a ← set s.a s.q (aq - 1)
      let x := aq - 1
      let tailSum := s.m - s.q
      let (q, tailSum, a) ← IntParts.spread x (tailSum.toNat + 1) s.q tailSum a
      let m := q + 1
      let a ← set a m tailSum
      pure ({ a := a, m := m + 1, q := if tailSum > 1 then q + 1 else q }, true)

/-- `Value()`: `a[:m]` -/
def IntParts.value (s : IntParts) : Outcome (IntParts × Sl) :=
  if s.m < 0 ∨ s.m.toNat > s.a.length then .panic else .ok (s, s.a.take s.m.toNat)

def IntParts.it : It IntParts Sl := ⟨IntParts.next, IntParts.value⟩

end Iter
