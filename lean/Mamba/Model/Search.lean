import Mamba.Basic
import Mamba.Spec.Graph
import Mamba.Model.Disjoint
/-!
# Model of `graph/search/search_all.go` (properties C04 and C03)

The iterator `GraphIterator` with `Next`, `Save`, `Load`, `addAugmentations`, `isCanonical`, and the three
`DenseGraph` operations it uses, statement by statement.

* Go `int` → `Nat`/`Int`; `uint` bit masks → `Nat` (assumption: at most 64 vertices, so no shift wraps).
* `graph.CanonicalIsomorphAllocated` is an **external call**: the model is parametric in an `Oracle`
  `(n, m, neighbour lists, viable bits) ↦ Outcome (Option Ans)`; `none` is the early exit `nil, nil, nil`.
  The scratch objects `storage`, `op`, `options` only exist to serve that call and are not modelled.
* `itertools.CombinationsColex(n,k)` is modelled by its specification `colex n k` (all k-subsets in colexicographic
  order; property C15), `comb.Coeff` by `choose` and `comb.Rank` by the sum it computes (C16), `ints.Sort` by
  insertion sort, `disjoint.Set` by `Mamba/Model/Disjoint.lean` (C18).
* slices: capacity is not modelled except where a reslice beyond the capacity panics
  (`Neighbours[:nv]`, `ds[:C(nv,k)]`, `DegreeSequence[:nv]` / `Edges[:len]` in `Load`).
  `DenseGraph` values are kept in the domain `len(Edges) = nv(nv-1)/2`, `len(DegreeSequence) = nv`
  (outside it the Go code reads stale capacity; the model panics instead — unreachable, see `Props/C04.lean`).
* the cached automorphism data `sg.Perm/Generators/Orbits` is the field `cache`; `stepForward`/`cont` and the position
  inside the loops of `Next` are the `Mode` of the step function `run`, which takes fuel.
-/
namespace Search

/-! ## graph.DenseGraph -/

structure DG where
  nv : Nat
  ne : Int
  degs : Array Int
  edges : Array Nat
  deriving DecidableEq, Repr, Inhabited

def DG.empty : DG := { nv := 0, ne := 0, degs := #[], edges := #[] }

def tri (v : Nat) : Nat := v * (v - 1) / 2

/-- `AddVertex(neighbours)` -/
def DG.addVertex (g : DG) (nbrs : List Nat) : Outcome DG :=
  let oldSize := tri g.nv
  if g.edges.size ≠ oldSize then .panic
  else
    let e0 := g.edges ++ Array.replicate g.nv 0
    let r := nbrs.foldlM (m := Outcome) (fun (p : Array Nat × Array Int) v =>
      if oldSize + v < p.1.size ∧ v < p.2.size then
        .ok (p.1.setIfInBounds (oldSize + v) 1, p.2.modify v (· + 1))
      else .panic) (e0, g.degs)
    match r with
    | .ok (e, d) => .ok { nv := g.nv + 1, ne := g.ne + nbrs.length, degs := d.push nbrs.length, edges := e }
    | .panic => .panic
    | .outOfFuel => .outOfFuel

/-- the loop `for i := 0; i < v; i++ { if g.Edges[tmp+i] > 0 { g.DegreeSequence[i]-- } }` of `RemoveVertex` -/
def decNbrs (edges : Array Nat) (base : Nat) : List Nat → Array Int → Outcome (Array Int)
  | [], d => .ok d
  | i :: is, d =>
    match edges[base + i]? with
    | none => .panic
    | some b =>
      if b > 0 then
        if i < d.size then decNbrs edges base is (d.modify i (· - 1)) else .panic
      else decNbrs edges base is d

/-- `RemoveVertex(g.NumberOfVertices - 1)` (the only way `Next` calls it) -/
def DG.removeLast (g : DG) : Outcome DG :=
  if g.nv = 0 then .panic
  else
    let v := g.nv - 1
    if g.edges.size ≠ tri g.nv ∨ g.degs.size ≠ g.nv then .panic
    else
      match g.degs[v]? with
      | none => .panic
      | some dv =>
        match decNbrs g.edges (tri v) (List.range v) g.degs with
        | .ok d => .ok { nv := v, ne := g.ne - dv, degs := d.pop, edges := g.edges.extract 0 (tri v) }
        | .panic => .panic
        | .outOfFuel => .outOfFuel

/-- `g.Edges[(hi*(hi-1))/2+lo]` for `lo < hi` -/
def DG.edgeAt (g : DG) (lo hi : Nat) : Option Nat := g.edges[tri hi + lo]?

/-- abstraction to the shared graph type -/
def DG.toG (g : DG) : GraphSpec.G :=
  { n := g.nv
    adj := fun u v => u != v && u < g.nv && v < g.nv &&
      (if u < v then g.edges.getD (tri v + u) 0 > 0 else g.edges.getD (tri u + v) 0 > 0) }

/-- edge mask in DenseGraph order (driver output) -/
def DG.mask (g : DG) : Nat :=
  (List.range g.edges.size).foldl (fun acc i => if g.edges.getD i 0 > 0 then acc ||| (1 <<< i) else acc) 0

/-! ## the canonical-labelling oracle -/

structure Ans where
  perm : Array Nat
  orbits : Array Int
  gens : List (Array Nat)
  deriving DecidableEq, Repr, Inhabited

/-- `CanonicalIsomorphAllocated(n, m, neighbours, op, storage, options)`;
the last argument is `some ViableBits` when `CheckViability` is set. -/
abbrev Oracle := Nat → Int → List (List Nat) → Option Nat → Outcome (Option Ans)

/-- one row of `updateNeighbours` -/
def nbrRow (g : DG) (v : Nat) : Outcome (List Nat) := do
  let lo ← (List.range v).foldlM (m := Outcome) (fun acc i =>
    match g.edges[tri v + i]? with
    | none => .panic
    | some b => .ok (if b > 0 then i :: acc else acc)) []
  let hi ← ((List.range g.nv).drop (v + 1)).foldlM (m := Outcome) (fun acc i =>
    match g.edges[tri i + v]? with
    | none => .panic
    | some b => .ok (if b > 0 then i :: acc else acc)) lo
  return hi.reverse

/-- `getAutomorphismGroup`: `cap` is the capacity of `sg.Neighbours` (the `n` of the iterator) -/
def getAut (O : Oracle) (cap : Nat) (g : DG) (vb : Option Nat) : Outcome (Option Ans) :=
  if g.nv > cap then .panic
  else
    match (List.range g.nv).mapM (m := Outcome) (nbrRow g) with
    | .ok rows => O g.nv g.ne rows vb
    | .panic => .panic
    | .outOfFuel => .outOfFuel

/-! ## small library functions -/

/-- positions of the set bits of `x`, ascending (`bits.TrailingZeros` / clear lowest bit loop) -/
def bitsOf (x : Nat) : List Nat := (List.range (x.log2 + 1)).filter x.testBit

def maskOf (l : List Nat) : Nat := l.foldl (fun acc v => acc ||| (1 <<< v)) 0

/-- `comb.Coeff` on its exact range -/
def choose : Nat → Nat → Nat
  | _, 0 => 1
  | 0, _ + 1 => 0
  | n + 1, k + 1 => choose n k + choose n (k + 1)

/-- `comb.Rank` -/
def rank (c : List Nat) : Nat :=
  (c.zipIdx.map fun (v, i) => choose v (i + 1)).foldl (· + ·) 0

/-- the sequence produced by `itertools.CombinationsColex(n, k)` -/
def colex : Nat → Nat → List (List Nat)
  | _, 0 => [[]]
  | 0, _ + 1 => []
  | n + 1, k + 1 => colex n (k + 1) ++ (colex n k).map (· ++ [n])

def insertSorted (x : Nat) : List Nat → List Nat
  | [] => [x]
  | y :: ys => if x ≤ y then x :: y :: ys else y :: insertSorted x ys

/-- `ints.Sort` -/
def sortNats (l : List Nat) : List Nat := l.foldr insertSorted []

/-! ## isCanonical -/

/-- first loop of `isCanonical`: `none` = `return false` -/
def degreeScan (degs : Array Int) (degree : Int) : List Nat → Nat → Outcome (Option Nat)
  | [], vb => .ok (some vb)
  | i :: is, vb =>
    match degs[i]? with
    | none => .panic
    | some d =>
      if d < degree then .ok none
      else if d = degree then degreeScan degs degree is (vb ||| (1 <<< i))
      else degreeScan degs degree is vb

/-- `sum`, `square` over a list of vertices -/
def sumSq (degs : Array Int) : List Nat → Int × Int → Outcome (Int × Int)
  | [], acc => .ok acc
  | v :: vs, (s, q) =>
    match degs[v]? with
    | none => .panic
    | some d => sumSq degs vs (s + d, q + d * d)

/-- `sumV`, `squareV` of vertex `v`: the loop over `j < n` reading the edge array -/
def sumSqNbrs (g : DG) (v : Nat) : List Nat → Int × Int → Outcome (Int × Int)
  | [], acc => .ok acc
  | j :: js, (s, q) =>
    if v > j then
      match g.edgeAt j v, g.degs[j]? with
      | some b, some d => if b = 1 then sumSqNbrs g v js (s + d, q + d * d) else sumSqNbrs g v js (s, q)
      | none, _ => .panic
      | some b, none => if b = 1 then .panic else sumSqNbrs g v js (s, q)
    else if v < j then
      match g.edgeAt v j, g.degs[j]? with
      | some b, some d => if b = 1 then sumSqNbrs g v js (s + d, q + d * d) else sumSqNbrs g v js (s, q)
      | none, _ => .panic
      | some b, none => if b = 1 then .panic else sumSqNbrs g v js (s, q)
    else sumSqNbrs g v js (s, q)

/-- second loop of `isCanonical` over the bits of the original `viableBits`: `none` = `return false` -/
def sumScan (g : DG) (sum square : Int) : List Nat → Nat → Outcome (Option Nat)
  | [], vb => .ok (some vb)
  | v :: vs, vb =>
    match sumSqNbrs g v (List.range g.nv) (0, 0) with
    | .ok (sumV, squareV) =>
      if sumV > sum then .ok none
      else if sumV < sum then sumScan g sum square vs (vb ^^^ (1 <<< v))
      else if squareV > square then .ok none
      else if squareV < square then sumScan g sum square vs (vb ^^^ (1 <<< v))
      else sumScan g sum square vs vb
    | .panic => .panic
    | .outOfFuel => .outOfFuel

/-- last loop of `isCanonical`: `for _, u := range sg.Perm` -/
def permScan (n : Nat) (vb : Nat) (correct : Nat) : List Nat → Disjoint.DS → Outcome (Disjoint.DS × Bool)
  | [], ds => .ok (ds, true)
  | u :: us, ds =>
    if u = n - 1 then .ok (ds, true)
    else if (vb >>> u) &&& 1 = 1 then
      match Disjoint.find ds u with
      | .ok (ds', r) => .ok (ds', correct == r)
      | .panic => .panic
      | .outOfFuel => .outOfFuel
    else permScan n vb correct us ds

/-- `isCanonical(sg, aug, …)`; returns the new cache and the answer -/
def isCanonical (O : Oracle) (cap : Nat) (g : DG) (aug : List Nat) (cache : Option Ans) :
    Outcome (Option Ans × Bool) :=
  let n := g.nv
  if n = 0 then .panic else
  match g.degs[n - 1]? with
  | none => .panic
  | some degree =>
  match degreeScan g.degs degree (List.range (n - 1)) 0 with
  | .panic => .panic
  | .outOfFuel => .outOfFuel
  | .ok none => .ok (cache, false)
  | .ok (some vb0) =>
  if vb0 = 0 then .ok (cache, true) else
  match sumSq g.degs aug (0, 0) with
  | .panic => .panic
  | .outOfFuel => .outOfFuel
  | .ok (sum, square) =>
  match sumScan g sum square (bitsOf vb0) vb0 with
  | .panic => .panic
  | .outOfFuel => .outOfFuel
  | .ok none => .ok (cache, false)
  | .ok (some vb) =>
  if vb = 0 then .ok (cache, true) else
  match (match cache with
         | none => getAut O cap g (some vb)
         | some c => .ok (some c)) with
  | .panic => .panic
  | .outOfFuel => .outOfFuel
  | .ok none => .ok (none, false)
  | .ok (some c) =>
  match Disjoint.find c.orbits (n - 1) with
  | .panic => .panic
  | .outOfFuel => .outOfFuel
  | .ok (ds1, correct) =>
  match permScan n vb correct c.perm.toList ds1 with
  | .panic => .panic
  | .outOfFuel => .outOfFuel
  | .ok (ds2, b) => .ok (some { c with orbits := ds2 }, b)

/-! ## addAugmentations -/

/-- `ints.Min` -/
def minInts (a : Array Int) : Outcome Int :=
  match a[0]? with
  | none => .panic
  | some x => .ok (a.foldl (fun m v => if v < m then v else m) x)

/-- the union pass for one subset `c` with index `i` -/
def unionGens (c : List Nat) (i : Nat) : List (Array Nat) → Disjoint.DS → Outcome Disjoint.DS
  | [], ds => .ok ds
  | g :: gs, ds =>
    match c.mapM (fun x => g[x]?) with
    | none => .panic
    | some c2 =>
      match Disjoint.union ds i (rank (sortNats c2)) with
      | .ok ds' => unionGens c i gs ds'
      | .panic => .panic
      | .outOfFuel => .outOfFuel

def unionPass (gens : List (Array Nat)) : List (List Nat × Nat) → Disjoint.DS → Outcome Disjoint.DS
  | [], ds => .ok ds
  | (c, i) :: rest, ds =>
    match unionGens c i gens ds with
    | .ok ds' => unionPass gens rest ds'
    | .panic => .panic
    | .outOfFuel => .outOfFuel

/-- second pass: the subsets whose index is a root -/
def rootPass (ds : Disjoint.DS) : List (List Nat × Nat) → Array Nat → Nat → Outcome (Array Nat × Nat)
  | [], ch, num => .ok (ch, num)
  | (c, i) :: rest, ch, num =>
    match ds[i]? with
    | none => .panic
    | some v => if v < 0 then rootPass ds rest (ch.push (maskOf c)) (num + 1) else rootPass ds rest ch num

/-- the body of `for k := 2; k <= maxSize; k++` -/
def sizeLoop (cap n : Nat) (gens : List (Array Nat)) : List Nat → Array Nat → Nat → Outcome (Array Nat × Nat)
  | [], ch, num => .ok (ch, num)
  | k :: ks, ch, num =>
    if choose n k > choose cap (cap / 2) then .panic      -- ds = ds[:comb.Coeff(n, k)] beyond the capacity
    else
      let subsets := (colex n k).zipIdx
      match unionPass gens subsets (Array.replicate (choose n k) (-1)) with
      | .ok ds =>
        match rootPass ds subsets ch num with
        | .ok (ch', num') => sizeLoop cap n gens ks ch' num'
        | .panic => .panic
        | .outOfFuel => .outOfFuel
      | .panic => .panic
      | .outOfFuel => .outOfFuel

/-- `k == 1`: one choice per root of the orbit structure -/
def orbitRoots (orbits : Array Int) (ch : Array Nat) (num : Nat) : Array Nat × Nat :=
  orbits.toList.zipIdx.foldl (fun (p : Array Nat × Nat) (vi : Int × Nat) =>
    if vi.1 < 0 then (p.1.push (1 <<< vi.2), p.2 + 1) else p) (ch, num)

/-- `addAugmentations(sg, &choices, ds, …)`; returns choices, cache, numFound -/
def addAugmentations (O : Oracle) (cap : Nat) (g : DG) (choices : Array Nat) (cache : Option Ans) :
    Outcome (Array Nat × Option Ans × Nat) :=
  match minInts g.degs with
  | .panic => .panic
  | .outOfFuel => .outOfFuel
  | .ok minDegree =>
  let maxSize := minDegree + 1
  let ch0 := choices.push 0
  match (match cache with
         | none => getAut O cap g none
         | some c => .ok (some c)) with
  | .panic => .panic
  | .outOfFuel => .outOfFuel
  | .ok cache' =>
  let orbits := match cache' with | some c => c.orbits | none => #[]
  let gens := match cache' with | some c => c.gens | none => []
  let (ch1, num1) := orbitRoots orbits ch0 1
  match sizeLoop cap g.nv gens (List.range' 2 (maxSize.toNat - 1)) ch1 num1 with
  | .ok (ch2, num2) => .ok (ch2, cache', num2)
  | .panic => .panic
  | .outOfFuel => .outOfFuel

/-! ## the iterator -/

structure State where
  n : Nat
  a : Nat
  m : Nat
  first : Bool
  g : DG
  choices : Array Nat
  currentPath : Array Nat
  cache : Option Ans
  deriving DecidableEq, Repr, Inhabited

/-- `WithPruning(n, a, m, …)` (the two functions are parameters of `next`) -/
def init (n a m : Nat) : State :=
  { n := n, a := a, m := m, first := true, g := DG.empty, choices := #[], currentPath := #[], cache := none }

def splitLevel (n : Nat) : Int := (2 * ((n : Int) + 1)) / 3 - 1

/-- where `Next` is inside its loops -/
inductive Mode where
  | outer (cont stepForward : Bool)     -- head of `for true`
  | step (stepForward : Bool)           -- head of `stepLoop`
  | inner (stepForward : Bool) (i : Nat)  -- `for i := …`: `i` iterations left (the Go `i` is `i - 1`)
  deriving DecidableEq, Repr

/-- `iter.sg.G.RemoveVertex(nv-1); clearAutomorphismGroup(iter.sg)` -/
def removeClear (s : State) : Outcome State :=
  match s.g.removeLast with
  | .ok g => .ok { s with g := g, cache := none }
  | .panic => .panic
  | .outOfFuel => .outOfFuel

def run (O : Oracle) (pre pr : DG → Bool) : Nat → Mode → State → Outcome (State × Bool)
  | 0, _, _ => .outOfFuel
  | f + 1, .outer cont sf, s =>
    if !cont then
      if s.g.nv = s.n then .ok (s, true)
      else
        match addAugmentations O s.n s.g s.choices s.cache with
        | .ok (ch, cache, num) =>
          run O pre pr f (.step true) { s with choices := ch, cache := cache, currentPath := s.currentPath.push num }
        | .panic => .panic
        | .outOfFuel => .outOfFuel
    else run O pre pr f (.step sf) s
  | f + 1, .step sf, s =>
    if s.choices.size = 0 then .ok (s, false)
    else
      match s.currentPath.back? with
      | none => .panic
      | some cp => run O pre pr f (.inner sf cp) s
  | f + 1, .inner sf 0, s =>
    -- none of the options on this level worked: step back
    match (if !sf then removeClear s else .ok s) with
    | .ok s1 =>
      if s1.currentPath.size = 0 then .panic
      else run O pre pr f (.step false) { s1 with currentPath := s1.currentPath.pop }
    | .panic => .panic
    | .outOfFuel => .outOfFuel
  | f + 1, .inner sf (i + 1), s =>
    let level := s.currentPath.size
    match s.choices.back? with
    | none => .panic
    | some x =>
      let s0 := { s with choices := s.choices.pop }
      if s0.m = 0 then .panic
      else if i % s0.m != s0.a && (level : Int) == splitLevel s0.n then run O pre pr f (.inner sf i) s0
      else
        let v := bitsOf x
        match (if !sf then removeClear s0 else .ok s0) with
        | .panic => .panic
        | .outOfFuel => .outOfFuel
        | .ok s1 =>
          match s1.g.addVertex v with
          | .panic => .panic
          | .outOfFuel => .outOfFuel
          | .ok g2 =>
            let s2 := { s1 with g := g2, cache := none }
            if pre g2 then run O pre pr f (.inner false i) s2
            else
              match isCanonical O s2.n g2 v s2.cache with
              | .panic => .panic
              | .outOfFuel => .outOfFuel
              | .ok (cache, canon) =>
                let s3 := { s2 with cache := cache }
                if canon && !pr g2 then
                  if s3.currentPath.size = 0 then .panic
                  else
                    run O pre pr f (.outer false false)
                      { s3 with currentPath := s3.currentPath.setIfInBounds (s3.currentPath.size - 1) i }
                else run O pre pr f (.inner false i) s3

/-- `DegreeSequence = DegreeSequence[:1]` while `first` is set (or `n = 1`): the backing array was zeroed by `make`
and position 0 is only ever written with the degree of vertex 0 of the current graph. -/
def DG.single (g : DG) : DG := { g with nv := 1, degs := #[g.degs.getD 0 0] }

/-- `(*GraphIterator).Next` -/
def next (O : Oracle) (pre pr : DG → Bool) (fuel : Nat) (s : State) : Outcome (State × Bool) :=
  if s.n = 0 then
    if s.first && s.a == 0 && !pre s.g && !pr s.g then .ok ({ s with first := false }, true)
    else .ok (s, false)
  else if s.n = 1 then
    let s1 := { s with g := s.g.single }
    if s1.first && s1.a == 0 && !pre s1.g && !pr s1.g then .ok ({ s1 with first := false }, true)
    else .ok (s1, false)
  else if s.first then
    let s1 := { s with g := s.g.single, first := false }
    if pre s1.g || pr s1.g then .ok (s1, false)
    else run O pre pr fuel (.outer false false) s1
  else run O pre pr fuel (.outer true false) s

/-! ## Save / Load -/

/-- the `save` struct; gob is assumed to transport these fields unchanged -/
structure Saved where
  n : Nat
  a : Nat
  m : Nat
  first : Bool
  g : DG
  choices : Array Nat
  currentPath : Array Nat
  deriving DecidableEq, Repr, Inhabited

/-- `(*GraphIterator).Save` -/
def save (s : State) : Saved :=
  { n := s.n, a := s.a, m := s.m, first := s.first, g := s.g, choices := s.choices, currentPath := s.currentPath }

/-- `copy(dst, src)`: the first `min (len dst) (len src)` elements of `dst` are overwritten -/
def copyInto {α : Type} (dst src : Array α) : Array α :=
  Array.ofFn (n := dst.size) fun i => if h : i.val < src.size then src[i.val] else dst[i]

/-- `search.Load` -/
def load (sv : Saved) : Outcome State :=
  let it := init sv.n sv.a sv.m
  -- iter.sg.G.DegreeSequence[:s.G.NumberOfVertices] on a slice of capacity n
  if sv.g.nv > sv.n then .panic
  -- iter.sg.G.Edges[:len(s.G.Edges)] on a slice of capacity n(n-1)/2
  else if sv.g.edges.size > tri sv.n then .panic
  else
    .ok { it with
      first := sv.first
      choices := sv.choices
      currentPath := sv.currentPath
      g := { nv := sv.g.nv, ne := sv.g.ne
             degs := copyInto (Array.replicate sv.g.nv 0) sv.g.degs
             edges := copyInto (Array.replicate sv.g.edges.size 0) sv.g.edges } }

/-! ## running -/

/-- `k` calls of `Next` (whatever they return); yields are collected in order -/
def advance (O : Oracle) (pre pr : DG → Bool) (fuel : Nat) : Nat → State → Outcome (List DG × State)
  | 0, s => .ok ([], s)
  | k + 1, s =>
    match next O pre pr fuel s with
    | .ok (s1, b) =>
      match advance O pre pr fuel k s1 with
      | .ok (out, s2) => .ok (if b then s1.g :: out else out, s2)
      | .panic => .panic
      | .outOfFuel => .outOfFuel
    | .panic => .panic
    | .outOfFuel => .outOfFuel

/-- `for it.Next() { … }` bounded by `lim` calls -/
def exhaust (O : Oracle) (pre pr : DG → Bool) (fuel : Nat) : Nat → State → Outcome (List DG × State)
  | 0, _ => .outOfFuel
  | k + 1, s =>
    match next O pre pr fuel s with
    | .ok (s1, true) =>
      match exhaust O pre pr fuel k s1 with
      | .ok (out, s2) => .ok (s1.g :: out, s2)
      | .panic => .panic
      | .outOfFuel => .outOfFuel
    | .ok (s1, false) => .ok ([], s1)
    | .panic => .panic
    | .outOfFuel => .outOfFuel

/-- the harness's save/load chain: `k₁` calls of `Next`, `Save`, `Load`, `k₂` calls on the loaded iterator, `Save`,
`Load`, …, finally the last loaded iterator is run to exhaustion; all graphs yielded on the way, in order -/
def chain (O : Oracle) (pre pr : DG → Bool) (fuel lim : Nat) : List Nat → State → Outcome (List DG)
  | [], s =>
    match exhaust O pre pr fuel lim s with
    | .ok (out, _) => .ok out
    | .panic => .panic
    | .outOfFuel => .outOfFuel
  | k :: ks, s =>
    match advance O pre pr fuel k s with
    | .ok (out, s1) =>
      match load (save s1) with
      | .ok s2 =>
        match chain O pre pr fuel lim ks s2 with
        | .ok rest => .ok (out ++ rest)
        | .panic => .panic
        | .outOfFuel => .outOfFuel
      | .panic => .panic
      | .outOfFuel => .outOfFuel
    | .panic => .panic
    | .outOfFuel => .outOfFuel

/-- the same walk without any `Save`/`Load` -/
def walk (O : Oracle) (pre pr : DG → Bool) (fuel lim : Nat) : List Nat → State → Outcome (List DG)
  | [], s =>
    match exhaust O pre pr fuel lim s with
    | .ok (out, _) => .ok out
    | .panic => .panic
    | .outOfFuel => .outOfFuel
  | k :: ks, s =>
    match advance O pre pr fuel k s with
    | .ok (out, s1) =>
      match walk O pre pr fuel lim ks s1 with
      | .ok rest => .ok (out ++ rest)
      | .panic => .panic
      | .outOfFuel => .outOfFuel
    | .panic => .panic
    | .outOfFuel => .outOfFuel

end Search
