import Mamba.Basic
import Mamba.Gen.DawgConsts
/-!
Executable model of `dawg/dawg.go` (C12, C14), statement by statement.

* A Go `*Dawg` is an index into a heap `Array Node` (pointer equality = index equality). The builder allocates a
  node by pushing to the heap; `GobDecode` allocates `ts[0..numNodes)`.
* bytes are `Nat` (the driver only feeds values `< 256`); a `[]byte` is a `List Nat`; nil and empty slices are both `[]`
  (the code only uses `len`, `range`, `bytes.Compare` on them, which do not distinguish the two).
* `int`/`uint64` are `Nat` (no overflow modelled); `index` in `Lookup` is an `Int` (it starts at -1).
* every unguarded index / dereference is a bounds-checked access giving `Outcome.panic`.
* `replaceOrRegister` (recursion) and the explicit-stack traversal of `listNodesCountEdges` / `GobEncode` take fuel.
* not modelled: slice capacities (`numEdges` is only a capacity hint), the unused `prefix` result of `commonPrefix`,
  the error *texts*.
-/
namespace Dawg

structure Node where
  id : Nat
  numWords : Nat
  final : Bool
  labels : List Nat
  links : List Nat
  deriving Repr, DecidableEq, Inhabited

/-- the Go zero value / `&Dawg{id: 0}` -/
def Node.zero : Node := { id := 0, numWords := 0, final := false, labels := [], links := [] }

abbrev Heap := Array Node

structure Dawg where
  heap : Heap
  root : Nat
  deriving Repr

/-- dereference of a pointer -/
@[inline] def getNode (h : Heap) (p : Nat) : Outcome Node :=
  match h[p]? with
  | some n => .ok n
  | none => .panic

/-- index of the first occurrence of `c` (the inner `for j, link := range dawg.linkLabels` loops) -/
def findLabel : List Nat → Nat → Option Nat
  | [], _ => none
  | l :: ls, c => if l = c then some 0 else (findLabel ls c).map (· + 1)

/-! ### Builder -/

structure Builder where
  heap : Heap
  root : Nat
  lastWord : List Nat
  register : List Nat
  lastID : Nat
  done : Bool
  deriving Repr

/-- `Initialise` (also what `Add`/`Finish` do to a zero-value builder) -/
def Builder.init : Builder :=
  { heap := #[Node.zero], root := 0, lastWord := [], register := [], lastID := 0, done := false }

/-- `bytes.Compare` -/
def cmpBytes : List Nat → List Nat → Int
  | [], [] => 0
  | [], _ :: _ => -1
  | _ :: _, [] => 1
  | a :: as, b :: bs => if a < b then -1 else if b < a then 1 else cmpBytes as bs

/-- the letter loop of `commonPrefix`, standing at node `p` -/
def cpWalk (h : Heap) (p : Nat) : List Nat → Outcome (Heap × List Nat × Nat)
  | [] => .ok (h, [], p)
  | c :: rest =>
    match getNode h p with
    | .ok n =>
      match findLabel n.labels c with
      | none => .ok (h, c :: rest, p)
      | some j =>
        match n.links[j]? with
        | none => .panic
        | some q =>
          match getNode h q with
          | .ok m => cpWalk (h.setIfInBounds q { m with numWords := m.numWords + 1 }) q rest
          | .panic => .panic
          | .outOfFuel => .outOfFuel
    | .panic => .panic
    | .outOfFuel => .outOfFuel

/-- `(t *Dawg) commonPrefix(letters)`: returns the heap (numWords incremented along the walk), the suffix, the node -/
def commonPrefix (h : Heap) (t : Nat) (letters : List Nat) : Outcome (Heap × List Nat × Nat) :=
  match getNode h t with
  | .ok n => cpWalk (h.setIfInBounds t { n with numWords := n.numWords + 1 }) t letters
  | .panic => .panic
  | .outOfFuel => .outOfFuel

/-- `(t *Dawg) addSuffix(suffix, lastID)` -/
def addSuffix (h : Heap) (p : Nat) : List Nat → Nat → Outcome (Heap × Nat)
  | [], lastID =>
    match getNode h p with
    | .ok n => .ok (h.setIfInBounds p { n with final := true }, lastID)
    | .panic => .panic
    | .outOfFuel => .outOfFuel
  | b :: rest, lastID =>
    match getNode h p with
    | .ok n =>
      let q := h.size
      let h1 := h.setIfInBounds p { n with labels := n.labels ++ [b], links := n.links ++ [q] }
      let h2 := h1.push { id := lastID + 1, numWords := 1, final := false, labels := [], links := [] }
      addSuffix h2 q rest (lastID + 1)
    | .panic => .panic
    | .outOfFuel => .outOfFuel

/-- the first `n` positions of two slices agree (`for i := 0; i < n; i++ { if a[i] != b[i] { return false } }`) -/
def cmpN : Nat → List Nat → List Nat → Outcome Bool
  | 0, _, _ => .ok true
  | n + 1, a :: as, b :: bs => if a ≠ b then .ok false else cmpN n as bs
  | _ + 1, _, _ => .panic

/-- `areEquivalent(t, u)`: final flag, number of links, labels, and link *identity* -/
def areEquivalent (t u : Node) : Outcome Bool :=
  if t.final ≠ u.final then .ok false
  else if t.links.length ≠ u.links.length then .ok false
  else
    match cmpN t.links.length t.labels u.labels with
    | .ok true => cmpN t.links.length t.links u.links
    | r => r

/-- `for _, u := range register { if areEquivalent(lastChild, u) ... }` : first equivalent registered node -/
def findEquiv (h : Heap) (lc : Node) : List Nat → Outcome (Option Nat)
  | [] => .ok none
  | u :: us =>
    match getNode h u with
    | .ok un =>
      match areEquivalent lc un with
      | .ok true => .ok (some u)
      | .ok false => findEquiv h lc us
      | .panic => .panic
      | .outOfFuel => .outOfFuel
    | .panic => .panic
    | .outOfFuel => .outOfFuel

/-- `replaceOrRegister(t, register)`; `fuel` bounds the recursion depth -/
def replaceOrRegister : Nat → Heap → Nat → List Nat → Outcome (Heap × List Nat)
  | 0, _, _, _ => .outOfFuel
  | fuel + 1, h, t, register =>
    match getNode h t with
    | .ok tn =>
      match tn.links.getLast? with
      | none => .panic
      | some lc =>
        match getNode h lc with
        | .ok lcn0 =>
          let r : Outcome (Heap × List Nat) :=
            if lcn0.links.length ≠ 0 then replaceOrRegister fuel h lc register else .ok (h, register)
          match r with
          | .ok (h1, reg1) =>
            match getNode h1 lc with
            | .ok lcn =>
              match findEquiv h1 lcn reg1 with
              | .ok (some u) =>
                match getNode h1 t with
                | .ok tn1 => .ok (h1.setIfInBounds t { tn1 with links := tn1.links.dropLast ++ [u] }, reg1)
                | .panic => .panic
                | .outOfFuel => .outOfFuel
              | .ok none => .ok (h1, reg1 ++ [lc])
              | .panic => .panic
              | .outOfFuel => .outOfFuel
            | .panic => .panic
            | .outOfFuel => .outOfFuel
          | .panic => .panic
          | .outOfFuel => .outOfFuel
        | .panic => .panic
        | .outOfFuel => .outOfFuel
    | .panic => .panic
    | .outOfFuel => .outOfFuel

/-- result of `Add`: the new builder and whether an error was returned -/
structure AddResult where
  b : Builder
  err : Bool
  deriving Repr

/-- `(db *Builder) Add(b)` -/
def add (db : Builder) (w : List Nat) : Outcome AddResult :=
  if db.done then .ok ⟨db, true⟩
  else
    match getNode db.heap db.root with
    | .ok rn =>
      -- `db.d.numWords > 0 && bytes.Compare(db.lastWord, b) != -1`, both comparisons as they are in the source now
      if Gen.Dawg.addHasWordFrom ≤ rn.numWords ∧ Gen.Dawg.addOrderReject (cmpBytes db.lastWord w) = true then .ok ⟨db, true⟩
      else
        match commonPrefix db.heap db.root w with
        | .ok (h1, suffix, lastNode) =>
          match getNode h1 lastNode with
          | .ok ln =>
            let r : Outcome (Heap × List Nat) :=
              if ln.links.length ≠ 0 then replaceOrRegister (h1.size + 1) h1 lastNode db.register
              else .ok (h1, db.register)
            match r with
            | .ok (h2, reg2) =>
              match addSuffix h2 lastNode suffix db.lastID with
              | .ok (h3, lastID) =>
                .ok ⟨{ db with heap := h3, lastWord := w, register := reg2, lastID := lastID }, false⟩
              | .panic => .panic
              | .outOfFuel => .outOfFuel
            | .panic => .panic
            | .outOfFuel => .outOfFuel
          | .panic => .panic
          | .outOfFuel => .outOfFuel
        | .panic => .panic
        | .outOfFuel => .outOfFuel
    | .panic => .panic
    | .outOfFuel => .outOfFuel

/-- `(db *Builder) Finish()` (`done` is never set by the code, so the error branch is unreachable from `init`) -/
def finish (db : Builder) : Outcome (Option Dawg) :=
  if db.done then .ok none
  else
    match getNode db.heap db.root with
    | .ok rn =>
      if rn.links.length ≠ 0 then
        match replaceOrRegister (db.heap.size + 1) db.heap db.root db.register with
        | .ok (h1, _) => .ok (some ⟨h1, db.root⟩)
        | .panic => .panic
        | .outOfFuel => .outOfFuel
      else .ok (some ⟨db.heap, db.root⟩)
    | .panic => .panic
    | .outOfFuel => .outOfFuel

/-- all `Add`s of a word list in turn (errors are recorded, the builder carries on) -/
def addAll (db : Builder) : List (List Nat) → Outcome (Builder × List Bool)
  | [] => .ok (db, [])
  | w :: ws =>
    match add db w with
    | .ok r =>
      match addAll r.b ws with
      | .ok (b, es) => .ok (b, r.err :: es)
      | .panic => .panic
      | .outOfFuel => .outOfFuel
    | .panic => .panic
    | .outOfFuel => .outOfFuel

/-- `Builder` from the zero value, every word added, `Finish` -/
def build (ws : List (List Nat)) : Outcome (Option Dawg × List Bool) :=
  match addAll Builder.init ws with
  | .ok (b, es) =>
    match finish b with
    | .ok d => .ok (d, es)
    | .panic => .panic
    | .outOfFuel => .outOfFuel
  | .panic => .panic
  | .outOfFuel => .outOfFuel

/-! ### Queries -/

/-- `NumberOfWords` -/
def numberOfWords (d : Dawg) : Outcome Nat :=
  match getNode d.heap d.root with
  | .ok n => .ok n.numWords
  | .panic => .panic
  | .outOfFuel => .outOfFuel

/-- the inner loop of `Lookup` over the links of the current node: `some (q, index')` when the letter is found -/
def lookupScan (h : Heap) (l : Nat) : List Nat → List Nat → Int → Outcome (Option (Nat × Int))
  | [], _, _ => .ok none
  | lab :: labs, links, index =>
    match links with
    | [] => .panic
    | q :: qs =>
      match getNode h q with
      | .ok qn =>
        if lab = l then .ok (some (q, if qn.final then index + 1 else index))
        else lookupScan h l labs qs (index + qn.numWords)
      | .panic => .panic
      | .outOfFuel => .outOfFuel

/-- the letter loop of `Lookup` -/
def lookupWalk (h : Heap) (p : Nat) (index : Int) : List Nat → Outcome (Int × Bool)
  | [] =>
    match getNode h p with
    | .ok n => if n.final then .ok (index, true) else .ok (0, false)
    | .panic => .panic
    | .outOfFuel => .outOfFuel
  | l :: rest =>
    match getNode h p with
    | .ok n =>
      match lookupScan h l n.labels n.links index with
      | .ok (some (q, index')) => lookupWalk h q index' rest
      | .ok none => .ok (0, false)
      | .panic => .panic
      | .outOfFuel => .outOfFuel
    | .panic => .panic
    | .outOfFuel => .outOfFuel

/-- `(t *Dawg) Lookup(word)` -/
def lookup (d : Dawg) (word : List Nat) : Outcome (Int × Bool) :=
  match getNode d.heap d.root with
  | .ok n => lookupWalk d.heap d.root (if n.final then 0 else -1) word
  | .panic => .panic
  | .outOfFuel => .outOfFuel

end Dawg
