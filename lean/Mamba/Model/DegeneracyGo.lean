import Mamba.Model.CliqueGo
/-!
# C09 — faithful model (pattern F) of `graph.Degeneracy` (graph/general.go): the bucket-queue algorithm

* `bins[k]` holds the not yet removed vertices whose current degree is `k` (a slice per bin);
* each round: `j` = first non-empty bin (`for j = range bins { if len(bins[j]) != 0 { break } }`; when every bin is
  empty `j` ends at the last index), `d = max(d, j)`, `v` = LAST entry of `bins[j]`, written to `order[n-1-i]`
  (i.e. prepended), removed from the bin, `degrees[v] = -1`; then for every neighbour `u` (in `Neighbours` order)
  with `degrees[u] != -1`: find the first position of `u` in `bins[degrees[u]]`, swap-remove it, decrement
  `degrees[u]`, append `u` to `bins[degrees[u]]`.
Every Go index expression is bounds-checked (`Outcome.panic`). The initial fill loop
`for i, v := range degreeSequence { bins[v] = append(bins[v], i) }` is modelled by its result (bin `k` = the vertices
of degree `k` in increasing order); `g.Degrees()` is `g.degrees`, `ints.Max` is the maximum of a non-empty list.
-/
namespace CliqueColour
open GraphSpec

structure DegState where
  bins : List (List Nat)
  degrees : List Int
  d : Nat
  order : List Nat

/-- `for j = range bins { if len(bins[j]) != 0 { break } }` -/
def firstNonEmpty (bins : List (List Nat)) : Nat :=
  let j := bins.findIdx fun b => !b.isEmpty
  if j < bins.length then j else bins.length - 1

/-- the body of `for _, u := range neighbours` -/
def degUpdate (bins : List (List Nat)) (degrees : List Int) (u : Nat) : Outcome (List (List Nat) × List Int) :=
  match degrees[u]? with
  | none => .panic
  | some du =>
    if du == -1 then .ok (bins, degrees)
    else if du < 0 then .panic
    else
      let k := du.toNat
      match bins[k]? with
      | none => .panic
      | some bin =>
        let pos := bin.idxOf u
        if pos < bin.length then
          if k = 0 then .panic
          else
            let bins1 := bins.set k (swapRemove bin pos)
            match bins1[k - 1]? with
            | none => .panic
            | some b2 => .ok (bins1.set (k - 1) (b2 ++ [u]), degrees.set u (du - 1))
        else .ok (bins, degrees)

def degNbrs : List Nat → List (List Nat) → List Int → Outcome (List (List Nat) × List Int)
  | [], bins, degrees => .ok (bins, degrees)
  | u :: us, bins, degrees =>
    match degUpdate bins degrees u with
    | .ok (b, d) => degNbrs us b d
    | .panic => .panic
    | .outOfFuel => .outOfFuel

def degStep (g : G) (st : DegState) : Outcome DegState :=
  let j := firstNonEmpty st.bins
  let d := if j > st.d then j else st.d
  match st.bins[j]? with
  | none => .panic
  | some bin =>
    match bin.getLast? with
    | none => .panic
    | some v =>
      if v < st.degrees.length then
        match degNbrs (g.nbrs v) (st.bins.set j bin.dropLast) (st.degrees.set v (-1)) with
        | .ok (b, dg) => .ok { bins := b, degrees := dg, d := d, order := v :: st.order }
        | .panic => .panic
        | .outOfFuel => .outOfFuel
      else .panic

def degLoop (g : G) : Nat → DegState → Outcome DegState
  | 0, st => .ok st
  | k + 1, st =>
    match degStep g st with
    | .ok st' => degLoop g k st'
    | .panic => .panic
    | .outOfFuel => .outOfFuel

def degInit (g : G) : DegState :=
  let degs := g.degrees
  let maxDeg := maxList degs
  { bins := (List.range (maxDeg + 1)).map fun k => (List.range g.n).filter fun i => g.deg i == k
    degrees := degs.map fun (x : Nat) => (x : Int)
    d := 0
    order := [] }

/-- `graph.Degeneracy` -/
def degeneracyGo (g : G) : Outcome (Nat × List Nat) :=
  if g.n == 0 then .ok (0, [])
  else
    match degLoop g g.n (degInit g) with
    | .ok st => .ok (st.d, st.order)
    | .panic => .panic
    | .outOfFuel => .outOfFuel

end CliqueColour
