import Mamba.Basic
import Mamba.Gen.CombTables
/-!
# Model of `comb/comb.go` (property C16)

The tables `maxSizes`, `smallEntries`, `largestK`, `maxInt` are **not** transcribed here: they come from
`Mamba/Gen/CombTables.lean`, which `extract` regenerates from the Go source on every run.

Machine integers.  `uint64` values are naturals `< W = 2^64`; every `uint64` operation that could wrap is
followed by an explicit `% W`.  `int` values are integers in `[-2^63, 2^63)`; every `int` operation that could
wrap goes through `wrapInt` (two's complement).  `uint64(x)` for an `int` `x` is `toU64 x`.
Index expressions are bounds-checked (`[i]?`, `none ↦ Outcome.panic`).  The data-dependent inner loop of
`Unrank` takes fuel (`Props/C16.lean`: `unrank_terminates`, fuel `rank + 2` suffices).
-/
namespace Comb
open Gen.Comb

/-- `2^64` -/
def W : Nat := 18446744073709551616

/-- two's-complement wrap of an `int` result -/
def wrapInt (x : Int) : Int := Int.bmod x W

/-- the conversion `uint64(x)` of an `int` -/
def toU64 (x : Int) : Nat := (x % (W : Int)).toNat

/-- `for i = 1; i <= k; i++ { comb *= (n - k + i); comb /= i }` — `steps` iterations remain; `comb *= …` and
`n - k + i` wrap modulo `2^64`.  The loop is only entered with `k ≤ largestK`, so `i++` does not wrap and the
divisor `i` runs through `1..k`. -/
def coeffLoop (n k : Nat) : Nat → Nat → Nat → Nat
  | 0, _, comb => comb
  | s+1, i, comb => coeffLoop n k s (i + 1) (((comb * ((n - k + i) % W)) % W) / i)

/-- `CoeffUint64(n, k)` for `n k < 2^64`. -/
def coeffU64 (n k : Nat) : Outcome Nat :=
  if k > n then .ok 0
  else
    let k := if k > n / 2 then n - k else k
    if k = 0 then .ok 1
    else if n ≤ 32 then
      match smallEntries[n]? with
      | none => .panic
      | some row =>
        match row[k]? with
        | none => .panic
        | some v => .ok v
    else if k > largestK then .panic           -- `k > largestK || …` short-circuits
    else
      match maxSizes[k]? with
      | none => .panic
      | some m =>
        if n > m then .panic                   -- panic("calculation overflows uint64")
        else .ok (coeffLoop n k k 1 1)

/-- `Coeff(n, k)` -/
def coeff (n k : Int) : Outcome Int :=
  if n < 0 then .panic
  else if k < 0 then .ok 0
  else
    match coeffU64 (toU64 n) (toU64 k) with
    | .ok c => if c > maxInt then .panic else .ok (wrapInt c)
    | .panic => .panic
    | .outOfFuel => .outOfFuel

/-- `coeffs[i-1]` -/
def prevRow (rows : Array (Array Int)) (i : Nat) : Option (Array Int) :=
  if i = 0 then none else rows[i-1]?

/-- `addHasOverflowed(a, b)`: `sum = a + b` wrapped; `(sum^a)&(sum^b) < 0` says that the sign of `sum`
differs from the sign of both operands. -/
def addHasOverflowed (a b : Int) : Int × Bool :=
  let sum := wrapInt (a + b)
  (sum, (decide (sum < 0) != decide (a < 0)) && (decide (sum < 0) != decide (b < 0)))

/-- inner loop of `Coeffs`: `for j := 1; j < i/2+1; j++ {…}`:
```
a, b := coeffs[i-1][j-1], coeffs[i-1][j-1]
if 2*j != i { b = coeffs[i-1][j] }
sum, overflow := addHasOverflowed(a, b)
if overflow { panic("coeff does not fit in an int") }
tmp[j] = sum
```
`tmp` is filled left to right, which is modelled by `push` (the zero-initialised tail of `tmp` is never read). -/
def coeffsRowLoop (rows : Array (Array Int)) (i : Nat) : Nat → Nat → Array Int → Outcome (Array Int)
  | 0, _, tmp => .ok tmp
  | s+1, j, tmp =>
    match prevRow rows i with
    | none => .panic
    | some prev =>
      match prev[j-1]? with
      | none => .panic
      | some a =>
        match (if 2 * j ≠ i then prev[j]? else some a) with
        | none => .panic
        | some b =>
          let (sum, overflow) := addHasOverflowed a b
          if overflow then .panic else coeffsRowLoop rows i s (j+1) (tmp.push sum)

/-- outer loop of `Coeffs`: `for i := 0; i <= n; i++` -/
def coeffsLoop : Nat → Nat → Array (Array Int) → Outcome (Array (Array Int))
  | 0, _, rows => .ok rows
  | s+1, i, rows =>
    match coeffsRowLoop rows i (i / 2) 1 #[1] with
    | .ok tmp => coeffsLoop s (i+1) (rows.push tmp)
    | .panic => .panic
    | .outOfFuel => .outOfFuel

/-- `Coeffs(n)`: `make([][]int, n+1)` panics for `n < -1`; an entry that does not fit an `int` panics. -/
def coeffs (n : Int) : Outcome (Array (Array Int)) :=
  if n + 1 < 0 then .panic else coeffsLoop (n + 1).toNat 0 #[]

/-- loop of `Rank`: `for i, v := range comb` -/
def rankLoop : Nat → Int → List Int → Outcome Int
  | _, rank, [] => .ok rank
  | i, rank, v :: vs =>
    match coeff v ((i : Int) + 1) with
    | .ok c =>
      let (r, overflow) := addHasOverflowed rank c
      if overflow then .panic else rankLoop (i+1) r vs
    | .panic => .panic
    | .outOfFuel => .outOfFuel

/-- `Rank(comb)` -/
def rank (comb : List Int) : Outcome Int := rankLoop 0 0 comb

/-- `bits.Div64(hi, lo, y)` (quotient only): panics for `y == 0` and for `y <= hi`. -/
def div64 (hi lo y : Nat) : Outcome Nat :=
  if y = 0 then .panic
  else if y ≤ hi then .panic
  else .ok ((hi * W + lo) / y)

/-- inner loop of `Unrank` for position `i`:
```
for m >= 0 && next <= uint64(m) {
    b = next; l++
    hi, lo := bits.Mul64(b, uint64(l+1))
    if hi >= uint64(l-i) { break }
    next, _ = bits.Div64(hi, lo, uint64(l-i))
}
```
returns `(l, b)`. -/
def unrankInner (i : Nat) (m : Int) : Nat → Nat → Nat → Nat → Outcome (Nat × Nat)
  | 0, _, _, _ => .outOfFuel
  | f+1, l, b, next =>
    if m ≥ 0 ∧ next ≤ toU64 m then
      let b := next
      let l := l + 1
      let p := b * toU64 ((l : Int) + 1)
      let hi := p / W
      let lo := p % W
      let y := toU64 ((l : Int) - (i : Int))
      if hi ≥ y then .ok (l, b)
      else
        match div64 hi lo y with
        | .ok next => unrankInner i m f l b next
        | .panic => .panic
        | .outOfFuel => .outOfFuel
    else .ok (l, b)

/-- outer loop of `Unrank`: `cnt = i+1` positions remain; the suffix `comb[i+1:]` already written is `acc`. -/
def unrankLoop (fuel : Nat) : Nat → Int → List Int → Outcome (List Int)
  | 0, _, acc => .ok acc
  | i+1, m, acc =>
    match unrankInner i m fuel i 0 1 with
    | .ok (l, b) => unrankLoop fuel i (wrapInt (m - wrapInt b)) ((l : Int) :: acc)
    | .panic => .panic
    | .outOfFuel => .outOfFuel

/-- `Unrank(rank, k)`: `make([]int, k)` panics for `k < 0`. -/
def unrank (fuel : Nat) (rank k : Int) : Outcome (List Int) :=
  if k < 0 then .panic else unrankLoop fuel k.toNat rank []

end Comb
