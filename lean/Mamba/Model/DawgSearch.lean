import Mamba.Basic
/-!
# Model of `dawg/dawg_search.go` (property C13)

`Search` depends only on (a) the language of the automaton, (b) the `numWords` field of every node and
(c) the order of the outgoing labels (insertion order = ascending, because words are added in increasing
order). The minimised automaton and the (unminimised) trie of the same word list agree on all three, so the
automaton is modelled as a trie (`Node`/`Links`) built from the sorted word list by `build`, with
`numWords` = number of words below the node (`build` follows `commonPrefix`/`addSuffix` of `dawg.go`
without the `replaceOrRegister` merging).

A node's two parallel slices `linkLabels`/`links` are modelled as one list of (label, child) pairs
(`Links`), i.e. the structural invariant `len(linkLabels) = len(links)` — established by the builder and
by `GobDecode`, properties C12/C14 — is built into the type.

Stacks (`currDecisions`, `currDawgs`, `currWord`) are lists whose **head is the top** (Go appends at the
end); `solns`/`ids` are accumulated in reverse as pairs and reversed at the end.

Go interface `Searcher` = record of functions `Ops σ` over a state type `σ`; the driver uses
`σ = SState` (dynamic type tag + the struct), `goOps` is the dynamic dispatch.
-/
namespace DawgSearch

abbrev Word := List UInt8

/-! ## The automaton -/

mutual
inductive Node where
  | mk (final : Bool) (numWords : Nat) (links : Links)
inductive Links where
  | nil
  | cons (label : UInt8) (child : Node) (rest : Links)
end

instance : Inhabited Node := ⟨.mk false 0 .nil⟩

def Node.final : Node → Bool | .mk f _ _ => f
def Node.numWords : Node → Nat | .mk _ n _ => n
def Node.links : Node → Links | .mk _ _ l => l

def Links.length : Links → Nat
  | .nil => 0
  | .cons _ _ r => r.length + 1

def Links.drop : Links → Nat → Links
  | l, 0 => l
  | .nil, _ + 1 => .nil
  | .cons _ _ r, n + 1 => r.drop n

mutual
/-- the stored words in depth-first (= insertion = lexicographic) order -/
def Node.words : Node → List Word
  | .mk f _ ls => (if f then [[]] else []) ++ ls.words
def Links.words : Links → List Word
  | .nil => []
  | .cons c n r => (n.words.map (c :: ·)) ++ r.words
end

mutual
/-- number of nodes (used for the fuel of the explicit-stack loop) -/
def Node.size : Node → Nat
  | .mk _ _ ls => 1 + ls.size
def Links.size : Links → Nat
  | .nil => 0
  | .cons _ n r => n.size + r.size
end

/-- `addSuffix`: a fresh chain spelling `w`, last node final, every node `numWords = 1`. -/
def chain : Word → Node
  | [] => .mk true 1 .nil
  | c :: w => .mk false 1 (.cons c (chain w) .nil)

mutual
/-- `commonPrefix` (with its `numWords++` walk) followed by `addSuffix`, for a word greater than all stored
words: only the last child can share a prefix with it. -/
def Node.insert : Node → Word → Node
  | .mk _ n ls, [] => .mk true (n + 1) ls
  | .mk f n ls, c :: w => .mk f (n + 1) (ls.insert c w)
def Links.insert : Links → UInt8 → Word → Links
  | .nil, c, w => .cons c (chain w) .nil
  | .cons l ch .nil, c, w => if l = c then .cons l (ch.insert w) .nil else .cons l ch (.cons c (chain w) .nil)
  | .cons l ch (.cons l' ch' r), c, w => .cons l ch ((Links.cons l' ch' r).insert c w)
end

/-- the trie of a word list (meant for strictly increasing lists) -/
def build (ws : List Word) : Node :=
  ws.foldl Node.insert (.mk false 0 .nil)

/-! ## The `Searcher` interface -/

/-- Go `type Searcher interface { AllowStep(b byte) bool; Step(b byte); Backstep(); AllowWord() bool; Chosen() }`
as a record of functions on the receiver's state. -/
structure Ops (σ : Type) where
  allowStep : σ → UInt8 → Outcome Bool
  step : σ → UInt8 → Outcome σ
  backstep : σ → Outcome σ
  allowWord : σ → Outcome Bool
  chosen : σ → Outcome σ

section Search
variable {σ : Type} (ops : Ops σ)

/-- `for i := range searchers { if !searchers[i].AllowStep(l) { allowStep = false; break } }` -/
def allowStepAll : List σ → UInt8 → Outcome Bool
  | [], _ => .ok true
  | s :: r, l => do
    let a ← ops.allowStep s l
    if a then allowStepAll r l else pure false

/-- `for _, srch := range searchers { if !srch.AllowWord() { allow = false; break } }` -/
def allowWordAll : List σ → Outcome Bool
  | [] => .ok true
  | s :: r => do
    let a ← ops.allowWord s
    if a then allowWordAll r else pure false

def stepAll : List σ → UInt8 → Outcome (List σ)
  | [], _ => .ok []
  | s :: r, l => do
    let s' ← ops.step s l
    let r' ← stepAll r l
    pure (s' :: r')

def backstepAll : List σ → Outcome (List σ)
  | [] => .ok []
  | s :: r => do
    let s' ← ops.backstep s
    let r' ← backstepAll r
    pure (s' :: r')

def chosenAll : List σ → Outcome (List σ)
  | [] => .ok []
  | s :: r => do
    let s' ← ops.chosen s
    let r' ← chosenAll r
    pure (s' :: r')

/-- the mutable part of `Search`: `index`, the searchers, and `solns`/`ids` (reversed, as pairs) -/
structure RS (σ : Type) where
  index : Int
  ss : List σ
  out : List (Word × Int)

/-- the block `if d.final { index++; allow := …; if allow { solns = append(…); ids = append(…); Chosen… } }`
(`rw` is `currWord` reversed) -/
def visitFinal (final : Bool) (rw : Word) (rs : RS σ) : Outcome (RS σ) :=
  if final then do
    let index := rs.index + 1
    let allow ← allowWordAll ops rs.ss
    if allow then do
      let ss' ← chosenAll ops rs.ss
      pure ⟨index, ss', (rw.reverse, index) :: rs.out⟩
    else pure ⟨index, rs.ss, rs.out⟩
  else pure rs

/-! ### Structurally recursive version -/

mutual
/-- everything `Search` does between pushing `n` (after the `final` block) and popping it -/
def dfsNode : Node → Word → RS σ → Outcome (RS σ)
  | .mk _ _ ls, rw, rs => dfsLinks ls rw rs
/-- the `for j` loop over the remaining children of the node with (reversed) path `rw` -/
def dfsLinks : Links → Word → RS σ → Outcome (RS σ)
  | .nil, _, rs => .ok rs
  | .cons l child rest, rw, rs => do
    let a ← allowStepAll ops rs.ss l
    if a then do
      let ss1 ← stepAll ops rs.ss l
      let rs1 ← visitFinal ops child.final (l :: rw) { rs with ss := ss1 }
      let rs2 ← dfsNode child (l :: rw) rs1
      let ss3 ← backstepAll ops rs2.ss
      dfsLinks rest rw { rs2 with ss := ss3 }
    else
      dfsLinks rest rw { rs with index := rs.index + child.numWords }
end

def searchRecRS (t : Node) (ss : List σ) : Outcome (RS σ) := do
  let rs0 ← visitFinal ops t.final [] ⟨-1, ss, []⟩
  dfsNode ops t [] rs0

/-- recursive `Search`: the list of (word, id) and the searchers afterwards -/
def searchRec (t : Node) (ss : List σ) : Outcome (List (Word × Int) × List σ) := do
  let rs ← searchRecRS ops t ss
  pure (rs.out.reverse, rs.ss)

/-! ### Explicit-stack version, as coded -/

/-- result of the inner `for j := currDecisions[top]+1; j < len(currDawg.linkLabels); j++` loop -/
inductive Scan (σ : Type) where
  /-- the loop body reached `continue toCheckLoop` at child `j` (searchers already stepped) -/
  | descend (j : Nat) (l : UInt8) (child : Node) (rs : RS σ)
  /-- the loop ran to `j = len(linkLabels)` -/
  | exhausted (rs : RS σ)

/-- the `for j` loop on the links from position `j` on, up to and including `Step` of the accepted label -/
def scanFrom : Links → Nat → RS σ → Outcome (Scan σ)
  | .nil, _, rs => .ok (.exhausted rs)
  | .cons l child rest, j, rs => do
    let a ← allowStepAll ops rs.ss l
    if a then do
      let ss1 ← stepAll ops rs.ss l
      pure (.descend j l child { rs with ss := ss1 })
    else
      scanFrom rest (j + 1) { rs with index := rs.index + child.numWords }

/-- loop state of `toCheckLoop` -/
structure LoopSt (σ : Type) where
  decs : List Int      -- currDecisions, top first
  dawgs : List Node    -- currDawgs, top first
  rword : Word         -- currWord reversed
  rs : RS σ

/-- one iteration of `toCheckLoop`: `Sum.inl` = next iteration, `Sum.inr` = `return solns, ids` -/
def iter (st : LoopSt σ) : Outcome (LoopSt σ ⊕ RS σ) :=
  match st.dawgs, st.decs with
  | cur :: dawgs', d :: decs' => do
    let j0 := (d + 1).toNat
    match ← scanFrom ops (cur.links.drop j0) j0 st.rs with
    | .descend j l child rs1 =>
      -- currWord = append(currWord, l); push child; currDecisions[top] = j; push -1
      let rw := l :: st.rword
      let rs2 ← visitFinal ops child.final rw rs1
      pure (.inl ⟨(-1) :: (j : Int) :: decs', child :: cur :: dawgs', rw, rs2⟩)
    | .exhausted rs1 =>
      match st.rword with
      | [] => pure (.inr rs1)
      | _ :: rw' => do
        let ss' ← backstepAll ops rs1.ss
        pure (.inl ⟨decs', dawgs', rw', { rs1 with ss := ss' }⟩)
  | _, _ => .panic  -- currDawgs[len(currDawgs)-1] / currDecisions[len-1] on an empty stack

def loop : Nat → LoopSt σ → Outcome (RS σ)
  | 0, _ => .outOfFuel
  | fuel + 1, st => do
    match ← iter ops st with
    | .inl st' => loop fuel st'
    | .inr rs => pure rs

def searchRS (fuel : Nat) (t : Node) (ss : List σ) : Outcome (RS σ) := do
  let rs0 ← visitFinal ops t.final [] ⟨-1, ss, []⟩
  loop ops fuel ⟨[-1], [t], [], rs0⟩

/-- enough iterations: every node is pushed at most once and popped at most once -/
def searchFuel (t : Node) : Nat := 2 * t.size

/-- `(*Dawg).Search` with explicit fuel -/
def searchFuelled (fuel : Nat) (t : Node) (ss : List σ) : Outcome (List (Word × Int) × List σ) := do
  let rs ← searchRS ops fuel t ss
  pure (rs.out.reverse, rs.ss)

/-- `(*Dawg).Search` -/
def search (t : Node) (ss : List σ) : Outcome (List (Word × Int) × List σ) :=
  searchFuelled ops (searchFuel t) t ss

end Search

/-! ## PatternSearcher -/

structure PatternSearcher where
  pattern : List UInt8
  blank : UInt8
  index : Int
  deriving DecidableEq, Repr

namespace PatternSearcher

def allowStep (p : PatternSearcher) (b : UInt8) : Outcome Bool :=
  if (p.pattern.length : Int) ≤ p.index then .ok false
  else if p.index < 0 then .panic
  else match p.pattern[p.index.toNat]? with
    | none => .panic
    | some c => .ok (c == p.blank || c == b)

def step (p : PatternSearcher) (_b : UInt8) : Outcome PatternSearcher :=
  .ok { p with index := p.index + 1 }

def backstep (p : PatternSearcher) : Outcome PatternSearcher :=
  .ok { p with index := p.index - 1 }

def allowWord (p : PatternSearcher) : Outcome Bool :=
  .ok (p.index == (p.pattern.length : Int))

def chosen (p : PatternSearcher) : Outcome PatternSearcher := .ok p

end PatternSearcher

def newPatternSearcher (pattern : List UInt8) (blank : UInt8) : PatternSearcher :=
  { pattern := pattern, blank := blank, index := 0 }

/-! ## AnagramSearcher -/

structure LetterCount where
  letter : UInt8
  count : Int
  deriving DecidableEq, Repr

structure AnagramSearcher where
  counts : List LetterCount
  blanks : Int
  blank : UInt8
  targetLength : Nat
  /-- `currPath`, last element first -/
  currPath : List UInt8
  deriving DecidableEq, Repr

namespace AnagramSearcher

/-- `for i := range p.counts { if p.counts[i].letter == b && p.counts[i].count > 0 { return true } }` -/
def hasLetter : List LetterCount → UInt8 → Bool
  | [], _ => false
  | c :: r, b => if c.letter == b && c.count > 0 then true else hasLetter r b

def allowStep (p : AnagramSearcher) (b : UInt8) : Outcome Bool :=
  if p.targetLength ≤ p.currPath.length then .ok false
  else if p.blanks > 0 then .ok true
  else .ok (hasLetter p.counts b)

/-- the loop of `Step`: decrement the first entry with this letter and a positive count -/
def takeLetter : List LetterCount → UInt8 → Option (List LetterCount)
  | [], _ => none
  | c :: r, b =>
    if c.letter == b && c.count > 0 then some ({ c with count := c.count - 1 } :: r)
    else (takeLetter r b).map (c :: ·)

def step (p : AnagramSearcher) (b : UInt8) : Outcome AnagramSearcher :=
  match takeLetter p.counts b with
  | some cs => .ok { p with counts := cs, currPath := b :: p.currPath }
  | none => .ok { p with blanks := p.blanks - 1, currPath := p.blank :: p.currPath }

/-- the loop of `Backstep`: increment the first entry with this letter (if any) -/
def giveLetter : List LetterCount → UInt8 → List LetterCount
  | [], _ => []
  | c :: r, b =>
    if c.letter == b then { c with count := c.count + 1 } :: r
    else c :: giveLetter r b

def backstep (p : AnagramSearcher) : Outcome AnagramSearcher :=
  match p.currPath with
  | [] => .panic   -- p.currPath[len(p.currPath)-1]
  | e :: rest =>
    if e == p.blank then .ok { p with currPath := rest, blanks := p.blanks + 1 }
    else .ok { p with currPath := rest, counts := giveLetter p.counts e }

def allowWord (p : AnagramSearcher) : Outcome Bool :=
  .ok (p.targetLength == p.currPath.length)

def chosen (p : AnagramSearcher) : Outcome AnagramSearcher := .ok p

end AnagramSearcher

/-! ### `NewAnagramSearcher`, including its `sort.Slice` call

`sort.Slice(tmp, func(i, j int) bool { return anagram[i] < anagram[j] })` swaps elements of `tmp` but compares
the (never modified) elements of `anagram`. For `len ≤ 12` `sort.Slice` is `insertionSort_func`, modelled
exactly. For longer slices Go runs pdqsort; the model keeps using the insertion procedure — the result is a
permutation of the input in both cases and the theorems show that nothing observable depends on which
permutation it is. -/

/-- `data.Swap(j+1, j)` on a list -/
def swapAdj : List UInt8 → Nat → List UInt8
  | a :: b :: r, 0 => b :: a :: r
  | a :: r, j + 1 => a :: swapAdj r j
  | l, _ => l

/-- `for j := i; j > 0 && less(j, j-1); j-- { swap(j, j-1) }` with `less(i,j) = orig[i] < orig[j]` -/
def insInner (orig : List UInt8) (tmp : List UInt8) : Nat → List UInt8
  | 0 => tmp
  | j + 1 =>
    match orig[j + 1]?, orig[j]? with
    | some x, some y => if x < y then insInner orig (swapAdj tmp j) j else tmp
    | _, _ => tmp

/-- `for i := 1; i < n; i++ { inner loop }` -/
def insOuter (orig : List UInt8) (tmp : List UInt8) (i : Nat) : Nat → List UInt8
  | 0 => tmp
  | k + 1 => insOuter orig (insInner orig tmp i) (i + 1) k

def quirkSort (anagram : List UInt8) : List UInt8 :=
  insOuter anagram anagram 1 (anagram.length - 1)

/-- `counts[len(counts)-1].count++` -/
def bumpLast : List LetterCount → Outcome (List LetterCount)
  | [] => .panic
  | [c] => .ok [{ c with count := c.count + 1 }]
  | c :: r => do let r' ← bumpLast r; pure (c :: r')

/-- the `for i, l := range tmp` loop; `prev` = `tmp[i-1]` -/
def countLoop (blank : UInt8) : List UInt8 → Nat → Option UInt8 → List LetterCount → Int →
    Outcome (List LetterCount × Int)
  | [], _, _, counts, blanks => .ok (counts, blanks)
  | l :: r, i, prev, counts, blanks =>
    if l == blank then countLoop blank r (i + 1) (some l) counts (blanks + 1)
    else if i > 1 && prev == some l then do
      let counts' ← bumpLast counts
      countLoop blank r (i + 1) (some l) counts' blanks
    else countLoop blank r (i + 1) (some l) (counts ++ [⟨l, 1⟩]) blanks

def newAnagramSearcher (anagram : List UInt8) (blank : UInt8) : Outcome AnagramSearcher := do
  let tmp := quirkSort anagram
  let (counts, blanks) ← countLoop blank tmp 0 none [] 0
  pure { counts := counts, blanks := blanks, blank := blank, targetLength := anagram.length, currPath := [] }

/-! ## Dynamic dispatch -/

/-- an interface value: dynamic type + the struct behind the pointer -/
inductive SState where
  | pat (p : PatternSearcher)
  | ana (a : AnagramSearcher)
  deriving DecidableEq, Repr

def goOps : Ops SState where
  allowStep
    | .pat p, b => p.allowStep b
    | .ana a, b => a.allowStep b
  step
    | .pat p, b => do let p' ← p.step b; pure (.pat p')
    | .ana a, b => do let a' ← a.step b; pure (.ana a')
  backstep
    | .pat p => do let p' ← p.backstep; pure (.pat p')
    | .ana a => do let a' ← a.backstep; pure (.ana a')
  allowWord
    | .pat p => p.allowWord
    | .ana a => a.allowWord
  chosen
    | .pat p => do let p' ← p.chosen; pure (.pat p')
    | .ana a => do let a' ← a.chosen; pure (.ana a')

/-! ## Specification side (what the property says) -/

/-- `pattern` matches `w`: same length, every position equal or blank -/
def patternMatches (blank : UInt8) : List UInt8 → Word → Bool
  | [], [] => true
  | p :: ps, c :: w => (p == blank || p == c) && patternMatches blank ps w
  | _, _ => false

/-- occurrences of `c` -/
def cnt (c : UInt8) (l : List UInt8) : Nat := l.count c

/-- number of letters of `w` not covered by the letters `ls` (with multiplicity) -/
def deficit (ls : List UInt8) : Word → Nat
  | [] => 0
  | c :: w => if c ∈ ls then deficit (ls.erase c) w else deficit ls w + 1

/-- `anagram` (letters and blanks) matches `w`: same length and the letters of `w` that are not among the
non-blank letters of `anagram` (as a multiset) can be covered by the blanks -/
def anagramMatches (blank : UInt8) (anagram : List UInt8) (w : Word) : Bool :=
  w.length == anagram.length &&
    decide (deficit (anagram.filter (· != blank)) w ≤ (anagram.filter (· == blank)).length)

/-- the words satisfying `acc` with their positions, in order, positions counted from `start` -/
def rankFilter (acc : Word → Bool) : List Word → Int → List (Word × Int)
  | [], _ => []
  | w :: r, k => if acc w then (w, k) :: rankFilter acc r (k + 1) else rankFilter acc r (k + 1)

end DawgSearch
