import Mamba.Spec.CliqueColour
/-!
# C09 — faithful models (pattern F) of `graph/clique.go` and `graph.Degeneracy` (core Lean only)

`AllMaximalCliques` / `CliqueNumber`: Bron–Kerbosch with pivoting on an explicit stack, exactly as coded:
* a frame is `(R, P, X)`; the stack is a list whose head is the top (`toCheck[len-1]`);
* a frame with `P` and `X` empty reports `R` (sent on the channel / compared with the running maximum);
* otherwise the pivot is the first vertex in `P` then `X` order with the strictly largest number of neighbours in `P`;
* `P` is walked from the last index down; neighbours of the pivot are skipped; for every other vertex `v` the child
  `(R ++ [v], [u ∈ P | u ≠ v, edge], [u ∈ X | u ≠ v, edge])` is pushed, `P[i]` is overwritten by the last entry of
  `P` and `P` shortened (swap-remove), and `v` appended to `X`.
Slice capacities are not modelled (every child gets fresh storage in the Go code).
-/
namespace CliqueColour
open GraphSpec

structure BKFrame where
  R : List Nat
  P : List Nat
  X : List Nat

/-- `pivotSize` of `v`: number of `u ∈ P` with `u != v && g.IsEdge(u, v)` -/
def pivotSize (g : G) (P : List Nat) (v : Nat) : Nat := (P.filter fun u => u != v && g.adj u v).length

/-- one pass of the pivot loops over a list of candidates: `(pivotVertex, bestPivotSize)`, `-1` = none yet -/
def pivotScan (g : G) (P : List Nat) : List Nat → Int × Int → Int × Int
  | [], st => st
  | v :: vs, (piv, best) =>
    if (pivotSize g P v : Int) > best then pivotScan g P vs ((v : Int), (pivotSize g P v : Int))
    else pivotScan g P vs (piv, best)

/-- the pivot vertex: candidates in `P` first, then in `X` -/
def choosePivot (g : G) (P X : List Nat) : Int := (pivotScan g P X (pivotScan g P P (-1, -1))).1

/-- `P[i] = P[len(P)-1]; P = P[:len(P)-1]` -/
def swapRemove (P : List Nat) (i : Nat) : List Nat := (P.set i (P.getLastD 0)).dropLast

/-- `g.IsEdge(v, pivotVertex)` for a pivot that may be `-1` (DenseGraph.IsEdge answers false for negative arguments) -/
def adjInt (g : G) (v : Nat) (piv : Int) : Bool := decide (0 ≤ piv) && g.adj v piv.toNat

/-- the loop `for i := len(P)-1; i >= 0; i--`; the first argument is `i + 1` -/
def bkInner (g : G) (R : List Nat) (piv : Int) : Nat → List Nat → List Nat → List BKFrame → Outcome (List BKFrame)
  | 0, _, _, st => .ok st
  | i + 1, P, X, st =>
    match P[i]? with
    | none => .panic
    | some v =>
      if ((v : Int) != piv) && adjInt g v piv then bkInner g R piv i P X st
      else
        let child : BKFrame :=
          { R := R ++ [v]
            P := P.filter fun u => u != v && g.adj u v
            X := X.filter fun u => u != v && g.adj u v }
        bkInner g R piv i (swapRemove P i) (X ++ [v]) (child :: st)

/-- the main loop, generic in what is done with a reported clique -/
def bkLoop {α : Type} (g : G) (leaf : α → List Nat → α) : Nat → List BKFrame → α → Outcome α
  | _, [], acc => .ok acc
  | 0, _ :: _, _ => .outOfFuel
  | fuel + 1, fr :: rest, acc =>
    if fr.P.isEmpty && fr.X.isEmpty then bkLoop g leaf fuel rest (leaf acc fr.R)
    else
      match bkInner g fr.R (choosePivot g fr.P fr.X) fr.P.length fr.P fr.X rest with
      | .ok st => bkLoop g leaf fuel st acc
      | .panic => .panic
      | .outOfFuel => .outOfFuel

def bkStart (g : G) : List BKFrame := [{ R := [], P := List.range g.n, X := [] }]

/-- `graph.AllMaximalCliques`: the cliques in the order they are sent on the channel -/
def allMaximalCliquesGo (g : G) : Outcome (List (List Nat)) :=
  match bkLoop g (fun acc R => R :: acc) (2 ^ g.n) (bkStart g) [] with
  | .ok out => .ok out.reverse
  | .panic => .panic
  | .outOfFuel => .outOfFuel

/-- `graph.CliqueNumber` -/
def cliqueNumberGo (g : G) : Outcome Nat :=
  bkLoop g (fun best R => if best < R.length then R.length else best) (2 ^ g.n) (bkStart g) 0

/-- `graph.IndependenceNumber`: the clique number of the complement view -/
def independenceNumberGo (g : G) : Outcome Nat := cliqueNumberGo g.complement

/-- insertion sort, for printing -/
def insertSorted (x : Nat) : List Nat → List Nat
  | [] => [x]
  | y :: ys => if x ≤ y then x :: y :: ys else y :: insertSorted x ys
def sortNat (l : List Nat) : List Nat := l.foldr insertSorted []

def lexLt : List Nat → List Nat → Bool
  | [], [] => false
  | [], _ :: _ => true
  | _ :: _, [] => false
  | a :: as, b :: bs => a < b || (a == b && lexLt as bs)
def insertLex (x : List Nat) : List (List Nat) → List (List Nat)
  | [] => [x]
  | y :: ys => if lexLt y x then y :: insertLex x ys else x :: y :: ys
/-- canonical printed form of a list of vertex sets: each sorted, the list in lexicographic order -/
def sortCliques (cs : List (List Nat)) : List (List Nat) := (cs.map sortNat).foldr insertLex []

end CliqueColour
