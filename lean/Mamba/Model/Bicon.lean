import Mamba.Basic
import Mamba.Spec.Graph
import Mamba.Model.Components
/-!
# Faithful model (pattern F) of `BiconnectedComponents` (`graph/general.go`): iterative lowpoint DFS

Statement by statement after the Go code, per connected component `com` (labels of the induced subgraph
`h = InducedSubgraph(g, com)` are positions in `com`): `toCheck` is a stack (`List`, top at the head), `depths`,
`lowpoints`, `parents` are `Array Int` (`-1` = unvisited / parent already used), `bicoms` is the list of partial
blocks (in slice order; the last one is the current one), each partial block a `List Nat` in append order.
`continue DFS` restarts the scan of the neighbours of the new top of the stack. Every index expression is bounds
checked (`Outcome.panic`); the `for len(toCheck) > 0` loop takes fuel (`2n + 2` iterations suffice: every iteration
pushes or pops a vertex).
-/
namespace GDist.Model
open GraphSpec

structure BicSt where
  toCheck : List Nat
  depths : Array Int
  low : Array Int
  parents : Array Int
  isArt : Array Bool
  childCount : Nat
  bicoms : List (List Nat)      -- slice order; last = current
  out : List (List Nat)         -- biconnectedComponents (global labels, sorted), in append order

/-- replace the last element of a non-empty list -/
def setLast {α : Type} (l : List α) (x : α) : List α := l.dropLast ++ [x]

inductive ScanRes where
  | descend (st : BicSt)              -- `continue DFS`
  | done (st : BicSt) (tmpLow : Int)  -- neighbour loop finished

/-- `for _, u := range h.Neighbours(v)` with `tmpLowPoint` -/
def bicScan (com : List Nat) (n v : Nat) : List Nat → BicSt → Int → Outcome ScanRes
  | [], st, tmpLow => .ok (.done st tmpLow)
  | u :: us, st, tmpLow =>
    if hu : u < st.depths.size then
      if st.depths[u] = -1 then
        if hv : v < st.depths.size then
          if hl : u < st.low.size then
            if hp : u < st.parents.size then
              match st.bicoms.getLast? with
              | none => .panic                                    -- bicoms[len(bicoms)-1]
              | some cur =>
                .ok (.descend { st with
                  childCount := if v = 0 then st.childCount + 1 else st.childCount
                  toCheck := u :: st.toCheck
                  depths := st.depths.set u (st.depths[v] + 1)
                  low := st.low.set u (st.depths[v] + 1)
                  parents := st.parents.set u (v : Int)
                  bicoms := if cur.length > 0 then st.bicoms ++ [[]] else st.bicoms })
            else .panic
          else .panic
        else .panic
      else
        if hpv : v < st.parents.size then
          if (u : Int) ≠ st.parents[v] then
            if hl : u < st.low.size then
              let tmpLow' := if st.low[u] < tmpLow then st.low[u] else tmpLow
              if hpu : u < st.parents.size then
                if hdv : v < st.depths.size then
                  if v ≠ 0 ∧ st.parents[u] = (v : Int) ∧ st.low[u] ≥ st.depths[v] then
                    match st.bicoms.getLast? with
                    | none => .panic
                    | some cur =>
                      if hav : v < st.isArt.size then
                        let blk := sortInts ((cur ++ [v]).map fun x => com.getD x 0)
                        bicScan com n v us { st with
                          parents := st.parents.set u (-1)
                          out := st.out ++ [blk]
                          bicoms := setLast st.bicoms []
                          isArt := st.isArt.set v true } tmpLow'
                      else .panic
                  else bicScan com n v us st tmpLow'
                else .panic
              else .panic
            else .panic
          else bicScan com n v us st tmpLow
        else .panic
    else .panic

/-- the merge loop `for i := len(bicoms) - 2; i >= -1; i--`: the first list argument is `bicoms[0..i]` in
*reverse* slice order (head = `bicoms[i]`), `cur` is `bicoms[len(bicoms)-1]` (being extended) -/
def bicMerge (depths : Array Int) (dv : Int) : List (List Nat) → List Nat → Outcome (List (List Nat))
  | [], cur => .ok [cur]                                   -- i = -1: bicoms[0] = cur; bicoms = bicoms[:1]
  | b :: preRev, cur =>
    match b.getLast? with
    | none => .panic                                       -- bicoms[i][len(bicoms[i])-1] with an empty slice
    | some x =>
      if hx : x < depths.size then
        if depths[x] = dv + 1 then
          bicMerge depths dv preRev (cur ++ b)             -- bicoms[last] = append(bicoms[last], bicoms[i]...)
        else .ok ((b :: preRev).reverse ++ [cur])          -- bicoms[i+1] = cur; bicoms = bicoms[:i+2]
      else .panic

/-- `for len(toCheck) > 0` -/
def bicLoop (h : G) (com : List Nat) : Nat → BicSt → Outcome BicSt
  | 0, _ => .outOfFuel
  | f+1, st =>
    match st.toCheck with
    | [] => .ok st
    | v :: restStack =>
      if hv : v < st.low.size then
        match bicScan com h.n v (h.nbrs v) st st.low[v] with
        | .ok (.descend st') => bicLoop h com f st'
        | .ok (.done st' tmpLow) =>
          if hv' : v < st'.low.size then
            let st1 := { st' with low := st'.low.set v tmpLow, toCheck := restStack }
            if hdv : v < st1.depths.size then
              let merged : Outcome (List (List Nat)) :=
                if v ≠ 0 then
                  match st1.bicoms.getLast? with
                  | none => .panic
                  | some cur => bicMerge st1.depths st1.depths[v] st1.bicoms.dropLast.reverse cur
                else .ok st1.bicoms
              match merged with
              | .ok bs =>
                match bs.getLast? with
                | none => .panic
                | some cur => bicLoop h com f { st1 with bicoms := setLast bs (cur ++ [v]) }
              | .panic => .panic
              | .outOfFuel => .outOfFuel
            else .panic
          else .panic
        | .panic => .panic
        | .outOfFuel => .outOfFuel
      else .panic

/-- the body of `for _, com := range components` -/
def bicComponent (g : G) (com : List Nat) (acc : List (List Nat) × List Nat) :
    Outcome (List (List Nat) × List Nat) :=
  let h := g.induced com
  let n := h.n
  if n = 0 then .panic else      -- toCheck := make([]int, 1, n) / depths[...] on an empty component (cannot happen)
  let depths : Array Int := (Array.replicate n (-1)).setIfInBounds 0 0
  let st0 : BicSt := { toCheck := [0], depths := depths, low := Array.replicate n 0,
                       parents := Array.replicate n 0, isArt := Array.replicate n false, childCount := 0,
                       bicoms := [[]], out := acc.1 }
  match bicLoop h com (2 * n + 2) st0 with
  | .ok st =>
    -- for i := 0; i < len(bicoms)-1; i++ { bicoms[i] = append(bicoms[i], 0) }
    let bs := (st.bicoms.dropLast.map fun b => b ++ [0]) ++ (match st.bicoms.getLast? with | some c => [c] | none => [])
    let bs' := bs.map fun b => sortInts (b.map fun x => com.getD x 0)
    let isArt := st.isArt.setIfInBounds 0 (decide (2 ≤ st.childCount))
    let arts := (List.range n).filter fun i => isArt.getD i false
    .ok (st.out ++ bs', acc.2 ++ arts.map fun i => com.getD i 0)
  | .panic => .panic
  | .outOfFuel => .outOfFuel

def bicAll (g : G) : List (List Nat) → List (List Nat) × List Nat → Outcome (List (List Nat) × List Nat)
  | [], acc => .ok acc
  | com :: coms, acc =>
    match bicComponent g com acc with
    | .ok acc' => bicAll g coms acc'
    | .panic => .panic
    | .outOfFuel => .outOfFuel

/-- `BiconnectedComponents(g)`: (blocks, articulation points) in the order of the Go code -/
def biconnectedComponents (g : G) : Outcome (List (List Nat) × List Nat) :=
  match connectedComponents g with
  | .ok coms => bicAll g coms ([], [])
  | .panic => .panic
  | .outOfFuel => .outOfFuel

end GDist.Model
