import Mamba.Model.FootprintApi
/-!
# Footprint model of concurrent use (property C19)

The world is a map from value identities `ι` to states `σ`. An operation of a goroutine has a read set and
a write set of identities and is a *deterministic function of what it reads*: `Op.exec` hands `act` only the
restriction of the world to `reads` (everything else is replaced by `default`) and keeps only the
identities in `writes` of what `act` returns. So every `Op` respects its footprint by construction; nothing
has to be assumed about `act`.

Goroutines are numbered by `Nat`; goroutine `t` runs the list of operations `rest t` in order. A *schedule*
is a list of goroutine numbers: entry `t` lets goroutine `t` perform its next operation (nothing happens if
it has none left). `run` executes a schedule and records, per goroutine, the results it observed.

This model cannot exhibit a data race (operations are atomic); what it can express - and what the
theorems in `Props/C19.lean` are about - is *interference through shared written state*: two goroutines
whose footprints overlap do get schedule-dependent results here (see the test at the end of `Props/C19.lean`).

Core Lean only (no Mathlib).
-/
namespace Footprint

/-- An operation: declared footprint and semantics. -/
structure Op (ι σ ρ : Type) where
  reads : List ι
  writes : List ι
  act : (ι → σ) → ρ × (ι → σ)

section
variable {ι σ ρ : Type} [DecidableEq ι] [Inhabited σ]

/-- The part of the world an operation with read set `rs` can see. -/
def view (rs : List ι) (w : ι → σ) : ι → σ := fun i => if i ∈ rs then w i else default

/-- Execute one operation: the result and the new world. Only `writes` can change. -/
def Op.exec (o : Op ι σ ρ) (w : ι → σ) : ρ × (ι → σ) :=
  let p := o.act (view o.reads w)
  (p.1, fun i => if i ∈ o.writes then p.2 i else w i)

/-- Run a list of operations one after another (a goroutine running alone). -/
def runOps : List (Op ι σ ρ) → (ι → σ) → List ρ × (ι → σ)
  | [], w => ([], w)
  | o :: os, w =>
    let p := o.exec w
    let q := runOps os p.2
    (p.1 :: q.1, q.2)

/-- `f[t ↦ v]` -/
def upd {α : Type} (f : Nat → α) (t : Nat) (v : α) : Nat → α := fun u => if u = t then v else f u

/-- Configuration of a concurrent run. -/
structure Cfg (ι σ ρ : Type) where
  world : ι → σ
  /-- operations goroutine `t` still has to perform -/
  rest : Nat → List (Op ι σ ρ)
  /-- results goroutine `t` has observed so far, oldest first -/
  log : Nat → List ρ

/-- Start: nothing observed yet. -/
def Cfg.init (progs : Nat → List (Op ι σ ρ)) (w : ι → σ) : Cfg ι σ ρ :=
  { world := w, rest := progs, log := fun _ => [] }

/-- Goroutine `t` performs its next operation. -/
def step (c : Cfg ι σ ρ) (t : Nat) : Cfg ι σ ρ :=
  match c.rest t with
  | [] => c
  | o :: os =>
    let p := o.exec c.world
    { world := p.2, rest := upd c.rest t os, log := upd c.log t (c.log t ++ [p.1]) }

/-- Execute a schedule. -/
def run (s : List Nat) (c : Cfg ι σ ρ) : Cfg ι σ ρ := s.foldl step c

/-- The schedule "goroutine 0 to completion, then goroutine 1, ..., then goroutine n-1". -/
def seqSched (n : Nat) (progs : Nat → List (Op ι σ ρ)) : List Nat :=
  match n with
  | 0 => []
  | n + 1 => seqSched n progs ++ List.replicate (progs n).length n

/-- The operations of goroutines 0 .. n-1 one goroutine after the other. -/
def seqOps (n : Nat) (progs : Nat → List (Op ι σ ρ)) : List (Op ι σ ρ) :=
  match n with
  | 0 => []
  | n + 1 => seqOps n progs ++ progs n

/-- `a` does not write anything `b` reads or writes. -/
def Op.noWriteInto (a b : Op ι σ ρ) : Prop := ∀ i, i ∈ a.writes → i ∉ b.reads ∧ i ∉ b.writes

/-- The hypothesis of the property: each goroutine's write sets are disjoint from every other goroutine's
read and write sets. -/
def Independent (progs : Nat → List (Op ι σ ρ)) : Prop :=
  ∀ t u, t ≠ u → ∀ a, a ∈ progs t → ∀ b, b ∈ progs u → a.noWriteInto b

end

/-! ## Instantiation: calls of library functions on shared / goroutine-owned values -/

/-- Value identities of the scenarios of the property. -/
inductive Loc where
  /-- a package-level variable of the library -/
  | global (name : String)
  /-- the `k`-th finished value shared by all goroutines (a `Dawg`, a graph, an input slice) -/
  | shared (k : Nat)
  /-- the `k`-th value owned by goroutine `thread` (iterator, builder, storage, searcher, buffer) -/
  | own (thread k : Nat)
  deriving DecidableEq, Repr

/-- What a goroutine passes in one parameter position. -/
inductive Bind where
  | shared (k : Nat)
  | own (k : Nat)
  /-- a number / boolean / string: no memory -/
  | scalar
  deriving DecidableEq, Repr

def Bind.loc (t : Nat) : Bind → Option Loc
  | .shared k => some (.shared k)
  | .own k => some (.own t k)
  | .scalar => none

/-- A call pattern: a library function and what is passed in each parameter position. -/
structure Call where
  api : Api
  binds : List Bind

/-- Identities the call by goroutine `t` may read: everything it is handed and the package-level
variables the extractor saw it load. -/
def Call.reads (c : Call) (t : Nat) : List Loc :=
  c.binds.filterMap (Bind.loc t) ++ c.api.globalsRead.map Loc.global

/-- Identities the call may write: the values bound to the parameter positions the extractor saw stores
through, and the package-level variables it saw stores to. -/
def Call.writes (c : Call) (t : Nat) : List Loc :=
  c.api.writesParams.filterMap (fun i => (c.binds[i]?).bind (Bind.loc t)) ++ c.api.globalsWritten.map Loc.global

/-- The extracted footprint is compatible with the scenario: no package-level variable written or handed out, no
unattributed store, no goroutine started, every written parameter position is bound to a value the calling
goroutine owns, every parameter position is bound, and no shared value is *retained* (kept reachable from the
result or from another argument): a value a goroutine owns and later writes must not contain shared memory. -/
def Call.admissible (c : Call) : Bool :=
  c.api.globalsWritten.isEmpty && c.api.exposesGlobals.isEmpty && !c.api.unknownWrites && !c.api.spawns &&
  c.binds.length == c.api.arity &&
  c.api.writesParams.all (fun i => match c.binds[i]? with | some (.own _) => true | _ => false) &&
  c.api.retains.all (fun i => match c.binds[i]? with | some (.shared _) => false | _ => true)

/-- A read-only query on shared values: additionally no caller-supplied function value is called. -/
def Call.admissibleQuery (c : Call) : Bool := c.admissible && !c.api.callsBack

/-- The operation performed when goroutine `t` makes the call, for an arbitrary semantics `sem`. -/
def Call.toOp {σ ρ : Type} (t : Nat) (c : Call) (sem : (Loc → σ) → ρ × (Loc → σ)) : Op Loc σ ρ :=
  { reads := c.reads t, writes := c.writes t, act := sem }

end Footprint
