/-!
# Abstract write footprint of a Go function (property C19)

One `Api` record per function of the module is **generated** into `Mamba/Gen/Footprints.lean` on every run
by `verif/extract_fp` (go/ssa region analysis of the source tree). Core Lean only.
-/
namespace Footprint

/-- What `extract_fp` found out about one function (`name` is the go/ssa name, e.g. `(*dawg.Dawg).Lookup`).
Parameter positions count the receiver of a method as position 0. -/
structure Api where
  /-- go/ssa name -/
  name : String
  /-- number of parameters (receiver included) -/
  arity : Nat
  /-- package-level variables the function (or anything it calls) may store to, or into memory reachable from -/
  globalsWritten : List String
  /-- parameter positions through which it may store (into memory reachable from that parameter) -/
  writesParams : List Nat
  /-- some reachable store could not be attributed to a parameter, a package-level variable or an
  allocation made inside the call -/
  unknownWrites : Bool
  /-- calls a function value supplied by the caller (pruning functions, `less`, ...) -/
  callsBack : Bool
  /-- a `go` statement is reachable -/
  spawns : Bool
  /-- package-level variables it may load from -/
  globalsRead : List String
  /-- parameter positions whose memory stays reachable from the result, from another parameter or from a
  package-level variable after the call (constructors keeping a slice, `db.lastWord = b`, ...) -/
  retains : List Nat
  /-- package-level variables whose memory may become reachable from the result or from a parameter
  (a constructor that puts a package-level buffer into the value it returns): later stores into that value
  would be stores into package-level memory -/
  exposesGlobals : List String
  deriving Repr

end Footprint
