import Mamba.Model.IterBase
/-!
# Model of `itertools/combinations.go`
`Combinations` (lexicographic), `CombinationsColex`, `MultisetCombinations` (Knuth 7.2.1.3 Algorithm Q).
-/
namespace Iter

/-! ## Combinations -/

structure Comb where
  n : Int
  k : Int
  data : Sl
  deriving Repr

/-- the shared prologue of `Combinations` / `CombinationsColex`:
`data[i] = i`, then `data[k-1]--` when `k > 0` -/
def combData (k : Int) : Outcome Sl := do
  let data ← iota k
  if k > 0 then
    let v ← get data (k - 1)
    set data (k - 1) (v - 1)
  else pure data

/-- `Combinations(n, k)` -/
def Comb.init (n k : Int) : Outcome Comb := do
  let data ← combData k
  pure ⟨n, k, data⟩

/-- `for j := i+1; j < k; j++ { data[j] = data[j-1] + 1 }` with `cnt` iterations left -/
def Comb.fill : Nat → Int → Sl → Outcome Sl
  | 0, _, d => .ok d
  | c+1, j, d => do
    let v ← get d (j - 1)
    let d ← set d j (v + 1)
    Comb.fill c (j + 1) d

/-- `for i := k-1; i >= 0; i-- {...}`; the argument is `i+1` -/
def Comb.scan (n k : Int) : Nat → Sl → Outcome (Sl × Bool)
  | 0, d => .ok (d, false)
  | i+1, d => do
    let v ← get d i
    if v < n + i - k then
      let d ← set d i (v + 1)
      let d ← Comb.fill (k - (i + 1)).toNat (i + 1) d
      pure (d, true)
    else Comb.scan n k i d

/-- `(*CombinationIterator).Next` -/
def Comb.next (s : Comb) : Outcome (Comb × Bool) :=
  if s.k == 0 then .ok ({ s with k := s.k - 1 }, true)
  else do
    let (d, b) ← Comb.scan s.n s.k s.k.toNat s.data
    pure ({ s with data := d }, b)

def Comb.it : It Comb Sl := ⟨Comb.next, fun s => .ok (s, s.data)⟩

/-! ## CombinationsColex -/

structure Colex where
  n : Int
  k : Int
  j : Int
  data : Sl
  deriving Repr

/-- `CombinationsColex(n, k)` -/
def Colex.init (n k : Int) : Outcome Colex := do
  let data ← combData k
  pure ⟨n, k, k, data⟩

/-- `for j := 0; j < k-1; j++ { if data[j] < data[j+1]-1 { data[j]++; b.j = j-1; return true }; data[j] = j }`;
returns `some j` when the `if` fired at `j` -/
def Colex.scan : Nat → Int → Sl → Outcome (Sl × Option Int)
  | 0, _, d => .ok (d, none)
  | c+1, j, d => do
    let a ← get d j
    let b ← get d (j + 1)
    if a < b - 1 then
      let d ← set d j (a + 1)
      pure (d, some j)
    else
      let d ← set d j j
      Colex.scan c (j + 1) d

/-- `(*CombinationColexIterator).Next` -/
def Colex.next (s : Colex) : Outcome (Colex × Bool) :=
  if s.k ≤ 0 then
    .ok ({ s with k := s.k - 1 }, s.k - 1 == -1)
  else if s.k > s.n then .ok (s, false)
  else if s.j ≥ s.k - 1 then do
    let v ← get s.data (s.k - 1)
    if v == s.n - 1 then pure (s, false)
    else
      let d ← set s.data (s.k - 1) (v + 1)
      pure ({ s with data := d, j := s.j - 1 }, true)
  else if s.j ≠ -1 then do
    let v ← get s.data s.j
    let d ← set s.data s.j (v + 1)
    pure ({ s with data := d, j := s.j - 1 }, true)
  else do
    let (d, r) ← Colex.scan (s.k - 1).toNat 0 s.data
    match r with
    | some j => pure ({ s with data := d, j := j - 1 }, true)
    | none =>
      let v ← get d (s.k - 1)
      if v == s.n - 1 then pure ({ s with data := d, j := s.k }, false)
      else
        let d ← set d (s.k - 1) (v + 1)
        pure ({ s with data := d, j := s.k - 2 }, true)

def Colex.it : It Colex Sl := ⟨Colex.next, fun s => .ok (s, s.data)⟩

/-! ## MultisetCombinations (Algorithm Q) -/

structure MSComb where
  state : Option Sl     -- `nil` until the first call; counts of the types with a positive multiplicity
  m : Sl                -- the positive multiplicities
  k : Int
  j : Int
  value : Sl            -- the buffer `Value` writes into
  done : Bool
  all : Sl              -- the multiplicities as given
  freq : Option Sl      -- `nil` until the first successful `Next`; the counts indexed like `all`
  deriving Repr

/-- `MultisetCombinations(m, k)`: `positive` = the entries of `m` that are `> 0`, in order -/
def MSComb.init (m : Sl) (k : Int) : MSComb := ⟨none, m.filter (fun v => v > 0), k, 0, [], false, m, none⟩

/-- step Q2: `for j := j0; j < len(m); j++ { if x > m[j] { state[j] = m[j]; x -= m[j]; continue }; state[j] = x; x = 0; break }`.
Returns the state, `x`, the final value of the loop variable and whether the loop ended by `break`. -/
def MSComb.q2 (m : Sl) : Nat → Int → Int → Sl → Outcome (Sl × Int × Int × Bool)
  | 0, j, x, st => .ok (st, x, j, false)
  | c+1, j, x, st => do
    let mj ← get m j
    if x > mj then
      let st ← set st j mj
      MSComb.q2 m c (j + 1) (x - mj) st
    else
      let st ← set st j x
      pure (st, 0, j, true)

/-- step Q5: `Q5: if j >= len(m) { return false }; if state[j] == m[j] { x += m[j]; state[j] = 0; j++; goto Q5 }`.
`none` = returned false. The trip count is at most `len(m) - j + 1`. -/
def MSComb.q5 (m : Sl) : Nat → Int → Int → Sl → Outcome (Sl × Option (Int × Int))
  | 0, _, _, _ => .outOfFuel
  | c+1, j, x, st =>
    if j ≥ (m.length : Int) then .ok (st, none)
    else do
      let sj ← get st j
      let mj ← get m j
      if sj == mj then
        let st ← set st j 0
        MSComb.q5 m c (j + 1) (x + mj) st
      else pure (st, some (j, x))

/-- first loop of Q7: `for state[j] == m[j] { j++; if j >= len(m) { return false } }` -/
def MSComb.q7up (m : Sl) (st : Sl) : Nat → Int → Outcome (Option Int)
  | 0, _ => .outOfFuel
  | c+1, j => do
    let sj ← get st j
    let mj ← get m j
    if sj == mj then
      if j + 1 ≥ (m.length : Int) then pure none
      else MSComb.q7up m st c (j + 1)
    else pure (some j)

/-- second loop of Q7: `for state[j] == 0 { j-- }` (runs into `state[-1]` = panic if nothing is positive) -/
def MSComb.q7down (st : Sl) : Nat → Int → Outcome Int
  | 0, _ => .outOfFuel
  | c+1, j => do
    let sj ← get st j
    if sj == 0 then MSComb.q7down st c (j - 1) else pure j

/-- the unexported `next()` -/
def MSComb.next0 (s : MSComb) : Outcome (MSComb × Bool) :=
  match s.state with
  | none => do
    let value ← make s.k
    let st ← make s.m.length
    let (st, x, j, broke) ← MSComb.q2 s.m s.m.length 0 s.k st
    let s1 : MSComb := { s with value := value, state := some st, j := if broke then j else s.j }
    if x > 0 then pure (s1, false) else pure (s1, true)
  | some st =>
    if s.k == 0 || s.m.length == 0 then .ok (s, false)
    else do
      let j := s.j
      let s0 ← get st 0
      -- Q4
      let q4 : Outcome (Option (Sl × Int × Int)) :=
        if j == 0 then pure (some (st, s0 - 1, 1))
        else if s0 == 0 then do
          let sj ← get st j
          let st ← set st j 0
          pure (some (st, sj - 1, j + 1))
        else pure none
      match (← q4) with
      | some (st, x, j) =>
        -- Q5
        let (st, r) ← MSComb.q5 s.m (s.m.length + 1) j x st
        match r with
        | none => pure ({ s with state := some st }, false)
        | some (j, x) =>
          -- Q6
          let sj ← get st j
          let st ← set st j (sj + 1)
          if x == 0 then
            let st ← set st 0 0
            pure ({ s with state := some st, j := j }, true)
          else
            let (st, _, j, _) ← MSComb.q2 s.m s.m.length 0 x st
            pure ({ s with state := some st, j := j }, true)
      | none =>
        -- Q7
        match (← MSComb.q7up s.m st (s.m.length + 1) j) with
        | none => pure (s, false)
        | some j =>
          let sj ← get st j
          let st ← set st j (sj + 1)
          let j ← MSComb.q7down st (st.length + 2) (j - 1)
          let sj ← get st j
          let st ← set st j (sj - 1)
          let s0 ← get st 0
          let j := if s0 == 0 then 1 else j
          pure ({ s with state := some st, j := j }, true)

/-- `i := 0; for t, v := range all { if v > 0 { freq[t] = state[i]; i++ } }` (the argument `t` is the loop index) -/
def MSComb.scatter (st : Sl) : List Int → Int → Int → Sl → Outcome Sl
  | [], _, _, fr => .ok fr
  | v :: rest, i, t, fr =>
    if v > 0 then do
      let x ← get st i
      let fr ← set fr t x
      MSComb.scatter st rest (i + 1) (t + 1) fr
    else MSComb.scatter st rest i (t + 1) fr

/-- `if iter.freq == nil { iter.freq = make([]int, len(iter.all)) }` -/
def MSComb.freqBuf (s : MSComb) : Outcome Sl :=
  match s.freq with
  | none => make s.all.length
  | some fr => .ok fr

/-- `(*MultisetCombinationIterator).Next` -/
def MSComb.next (s : MSComb) : Outcome (MSComb × Bool) :=
  if s.done then .ok (s, false)
  else do
    let (s1, b) ← MSComb.next0 s
    if b then
      let fr ← MSComb.freqBuf s1
      let fr ← MSComb.scatter (s1.state.getD []) s1.all 0 0 fr
      pure ({ s1 with freq := some fr }, true)
    else pure ({ s1 with done := true }, false)

/-- `for j := 0; j < v; j++ { value[c] = i; c++ }` -/
def MSComb.emit (i : Int) : Nat → Int → Sl → Outcome (Sl × Int)
  | 0, c, val => .ok (val, c)
  | t+1, c, val => do
    let val ← set val c i
    MSComb.emit i t (c + 1) val

/-- `for i, v := range state {...}` -/
def MSComb.expand : List Int → Int → Int → Sl → Outcome Sl
  | [], _, _, val => .ok val
  | v :: rest, i, c, val => do
    let (val, c) ← MSComb.emit i v.toNat c val
    MSComb.expand rest (i + 1) c val

/-- `Value()` followed by `FreqValue()`: the pair (frequency vector, multiset) -/
def MSComb.valueOp (s : MSComb) : Outcome (MSComb × (Sl × Sl)) := do
  let st := s.freq.getD []
  let val ← MSComb.expand st 0 0 s.value
  pure ({ s with value := val }, (st, val))

def MSComb.it : It MSComb (Sl × Sl) := ⟨MSComb.next, MSComb.valueOp⟩

end Iter
