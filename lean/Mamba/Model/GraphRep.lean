import Mamba.Basic
import Mamba.Spec.Graph
import Mamba.Spec.GraphOps
/-!
# Model of `graph/graph_dense.go` and `graph/graph_sparse.go` (property C05)

Statement-by-statement models of the two editable graph representations.

* Go `int` vertex arguments are `Nat` (the property quantifies over valid, i.e. in-range, arguments only;
  negative arguments are outside it). Cached counts (`NumberOfEdges`, `DegreeSequence`) are `Int` because the
  code decrements them. Edge bytes are `Nat` (only `> 0` is ever tested). Elements of sparse neighbour lists are
  `Int` because `RemoveVertex` decrements them.
* Every Go index / slice expression that the code does not guard is a checked access giving `Outcome.panic`.
  Capacity is not modelled: a slice expression whose bound exceeds the *length* panics in the model.
* `copy(dst, src)` on overlapping parts of one array is `copyWithin` (memmove semantics: all reads see the old
  contents).
* External calls: `sort.Ints` = the sorted permutation (`List.mergeSort`), `sort.SearchInts` = lower bound
  (`searchInts`; equals the binary search on sorted input, which is all the property needs), `sort.Sort` on
  `sortWithIndex` = the pairs (value, index) sorted by value (unique for distinct values).
* `sortints`: only what `SparseGraph` uses — `ContainsSingle`, `Remove`, `Add` with ONE argument
  (`addSingle`: the general `Add` unrolled for `len(x) = 1`), `NewSortedInts`.
-/
namespace GraphRep
open GraphSpec

/-- position of the edge `ij`, `i < j`, is `tri j + i`;  Go: `(j*(j-1))/2` -/
def tri (j : Nat) : Nat := j * (j - 1) / 2

/-! ## checked array access -/

/-- `a[i]` -/
def getA {α : Type} (a : Array α) (i : Nat) : Outcome α :=
  match a[i]? with
  | some x => .ok x
  | none => .panic

/-- `a[i] = x` -/
def setA {α : Type} (a : Array α) (i : Nat) (x : α) : Outcome (Array α) :=
  if i < a.size then .ok (a.setIfInBounds i x) else .panic

/-- `a[i] += d` -/
def addA (a : Array Int) (i : Nat) (d : Int) : Outcome (Array Int) :=
  match a[i]? with
  | some x => .ok (a.setIfInBounds i (x + d))
  | none => .panic

/-- `a[i]` for a Go `int` index -/
def getI {α : Type} (a : Array α) (i : Int) : Outcome α :=
  if i < 0 then .panic else getA a i.toNat

/-- `a[i] = f(a[i])` for a Go `int` index -/
def modifyI {α : Type} (a : Array α) (i : Int) (f : α → α) : Outcome (Array α) :=
  if i < 0 then .panic
  else match a[i.toNat]? with
    | some x => .ok (a.setIfInBounds i.toNat (f x))
    | none => .panic

/-- `for _, x := range l { s = f(s, x) }` -/
def loopM {α σ : Type} (f : σ → α → Outcome σ) : List α → σ → Outcome σ
  | [], s => .ok s
  | x :: xs, s =>
    match f s x with
    | .ok s' => loopM f xs s'
    | .panic => .panic
    | .outOfFuel => .outOfFuel

/-- `copy(a[v:], a[v+1:]); a = a[:len(a)-1]` (both slice expressions are in range iff `v + 1 ≤ len(a)`) -/
def eraseAt {α : Type} (a : Array α) (v : Nat) : Outcome (Array α) :=
  if v + 1 ≤ a.size then .ok (a.eraseIdxIfInBounds v) else .panic

/-- `cnt := copy(e[dst:], e[src:stop])` inside one array (memmove: reads see the old contents).
The read index `src + (k - dst)` is `< stop ≤ e.size` behind the guard, so the `getD` default is never used
(`copyWithin_reads_inbounds` in `Props/C05.lean`). -/
def copyWithin (e : Array Nat) (dst src stop : Nat) : Outcome (Array Nat × Nat) :=
  if dst > e.size ∨ src > stop ∨ stop > e.size then .panic
  else
    let cnt := min (e.size - dst) (stop - src)
    .ok (Array.ofFn (n := e.size) (fun k =>
          if dst ≤ k.val ∧ k.val < dst + cnt then e.getD (src + (k.val - dst)) 0 else e[k]), cnt)

/-! ## DenseGraph -/

structure Dense where
  n : Nat            -- NumberOfVertices
  m : Int            -- NumberOfEdges
  deg : Array Int    -- DegreeSequence
  edges : Array Nat  -- Edges ([]byte)
  deriving Repr

namespace Dense

/-- `NewDense(n, nil)` -/
def new (n : Nat) : Dense := ⟨n, 0, Array.replicate n 0, Array.replicate (tri n) 0⟩

def N (g : Dense) : Nat := g.n
def M (g : Dense) : Int := g.m

/-- `IsEdge(i, j)` with its range guard; `i < j && Edges[..] > 0` short-circuits, so exactly one index
expression is evaluated. -/
def isEdge (g : Dense) (i j : Nat) : Outcome Bool :=
  if i ≥ g.n ∨ j ≥ g.n then .ok false
  else if i < j then
    match g.edges[tri j + i]? with
    | none => .panic
    | some b => .ok (decide (b > 0))
  else if i > j then
    match g.edges[tri i + j]? with
    | none => .panic
    | some b => .ok (decide (b > 0))
  else .ok false

/-- `Neighbours(v)`: `make([]int, 0, degrees[v])` panics for a bad index or a negative capacity. -/
def neighbours (g : Dense) (v : Nat) : Outcome (List Nat) :=
  match g.deg[v]? with
  | none => .panic
  | some d =>
    if d < 0 then .panic
    else
      match loopM (fun (r : List Nat) i =>
              match g.edges[tri v + i]? with
              | none => .panic
              | some b => .ok (if b > 0 then r ++ [i] else r)) (List.range v) [] with
      | .ok r =>
        loopM (fun (r : List Nat) i =>
              match g.edges[tri i + v]? with
              | none => .panic
              | some b => .ok (if b > 0 then r ++ [i] else r)) (List.range' (v + 1) (g.n - (v + 1))) r
      | .panic => .panic
      | .outOfFuel => .outOfFuel

/-- `Degrees()` (a copy) -/
def degrees (g : Dense) : List Int := g.deg.toList

/-- `AddEdge(i, j)` -/
def addEdge (g : Dense) (i j : Nat) : Outcome Dense :=
  if i = j then .ok g
  else
    match g.isEdge i j with
    | .ok true => .ok g
    | .ok false =>
      match addA g.deg i 1 with
      | .ok d1 =>
        match addA d1 j 1 with
        | .ok d2 =>
          match setA g.edges (if i < j then tri j + i else tri i + j) 1 with
          | .ok e => .ok { g with deg := d2, m := g.m + 1, edges := e }
          | _ => .panic
        | _ => .panic
      | _ => .panic
    | _ => .panic

/-- `RemoveEdge(i, j)` -/
def removeEdge (g : Dense) (i j : Nat) : Outcome Dense :=
  match g.isEdge i j with
  | .ok false => .ok g
  | .ok true =>
    -- IsEdge returned true, so i ≠ j
    match (if i = j then .ok g.edges else setA g.edges (if i < j then tri j + i else tri i + j) 0) with
    | .ok e =>
      match addA g.deg i (-1) with
      | .ok d1 =>
        match addA d1 j (-1) with
        | .ok d2 => .ok { g with deg := d2, m := g.m - 1, edges := e }
        | _ => .panic
      | _ => .panic
    | _ => .panic
  | _ => .panic

/-- the `else` branch of `AddVertex`: `tmp := make([]byte, newSize); copy(tmp, g.Edges)` -/
def growRealloc (edges : Array Nat) (newSize : Nat) : Array Nat :=
  Array.ofFn (n := newSize) fun k => if h : k.val < edges.size then edges[k.val] else 0

/-- the `cap(g.Edges) >= newSize` branch of `AddVertex`: `g.Edges = g.Edges[:newSize]` exposes whatever the
backing array holds behind the length (`stale`, arbitrary), then `[oldSize, newSize)` is zeroed. -/
def growInPlace (edges stale : Array Nat) (oldSize newSize : Nat) : Array Nat :=
  Array.ofFn (n := newSize) fun k =>
    if oldSize ≤ k.val then 0
    else if h : k.val < edges.size then edges[k.val] else stale.getD (k.val - edges.size) 0

/-- body of `for _, v := range neighbours` in `AddVertex`; state `(Edges, DegreeSequence)` -/
def avStep (oldSize : Nat) (s : Array Nat × Array Int) (v : Nat) : Outcome (Array Nat × Array Int) :=
  match setA s.1 (oldSize + v) 1 with
  | .ok e =>
    match addA s.2 v 1 with
    | .ok d => .ok (e, d)
    | _ => .panic
  | _ => .panic

/-- `AddVertex(neighbours)`. Which branch runs depends on the capacity, which is not part of the value;
`dense_addVertex_branches_agree` (Props) shows both give the same array whenever `len(Edges) = oldSize`,
for every stale content. The model runs `growRealloc`. -/
def addVertex (g : Dense) (neighbours : List Nat) : Outcome Dense :=
  let oldSize := tri g.n
  let newSize := oldSize + g.n
  let e0 := growRealloc g.edges newSize
  match loopM (avStep oldSize) neighbours (e0, g.deg) with
  | .ok (e, d) =>
    .ok { n := g.n + 1, m := g.m + neighbours.length, deg := d.push neighbours.length, edges := e }
  | _ => .panic

/-- the degree loops of `RemoveVertex` -/
def rvDegStep (g : Dense) (idx : Nat → Nat) (d : Array Int) (i : Nat) : Outcome (Array Int) :=
  match g.edges[idx i]? with
  | none => .panic
  | some b => if b > 0 then addA d i (-1) else .ok d

def rvDegrees (g : Dense) (v : Nat) : Outcome (Array Int) :=
  match loopM (rvDegStep g (fun i => tri v + i)) (List.range v) g.deg with
  | .ok d => loopM (rvDegStep g (fun i => tri i + v)) (List.range' (v + 1) (g.n - (v + 1))) d
  | _ => .panic

/-- one iteration of the compaction loop of `RemoveVertex`; state `(Edges, newIndex, oldIndex+1)` -/
def rvStep (v : Nat) (s : Array Nat × Nat × Nat) (j : Nat) : Outcome (Array Nat × Nat × Nat) :=
  let tmp := tri j + v
  match copyWithin s.1 s.2.1 s.2.2 tmp with
  | .ok (e, c) => .ok (e, s.2.1 + c, tmp + 1)
  | _ => .panic

/-- the backing-array part of `RemoveVertex`. `oldIndex` is only ever used as `oldIndex + 1`; the model carries
`oldIndex + 1` (initially `(v*(v+1))/2 - 1 + 1`, a natural number because `v ≥ 0`). -/
def rvEdges (g : Dense) (v : Nat) : Outcome (Array Nat) :=
  match loopM (rvStep v) (List.range' (v + 1) (g.n - (v + 1))) (g.edges, tri v, v * (v + 1) / 2) with
  | .ok (e, newIndex, src) =>
    match copyWithin e newIndex src e.size with
    | .ok (e', _) =>
      let len := tri (g.n - 1)
      if len ≤ e'.size then .ok (e'.extract 0 len) else .panic
    | _ => .panic
  | _ => .panic

/-- `RemoveVertex(v)` -/
def removeVertex (g : Dense) (v : Nat) : Outcome Dense :=
  if v ≥ g.n then .panic
  else
    match g.deg[v]? with
    | none => .panic
    | some dv =>
      match rvDegrees g v with
      | .ok d =>
        match eraseAt d v with
        | .ok d' =>
          match rvEdges g v with
          | .ok e => .ok { n := g.n - 1, m := g.m - dv, deg := d', edges := e }
          | _ => .panic
        | _ => .panic
      | _ => .panic

/-- state of the double loop of `InducedSubgraph` -/
structure IsState where
  edges : Array Nat
  m : Int
  deg : Array Int
  index : Nat

def isInner (g : Dense) (V : Array Nat) (j : Nat) (s : IsState) (i : Nat) : Outcome IsState :=
  match V[i]?, V[j]? with
  | some vi, some vj =>
    match g.isEdge vi vj with
    | .ok true =>
      match setA s.edges s.index 1 with
      | .ok e =>
        match addA s.deg i 1 with
        | .ok d1 =>
          match addA d1 j 1 with
          | .ok d2 => .ok ⟨e, s.m + 1, d2, s.index + 1⟩
          | _ => .panic
        | _ => .panic
      | _ => .panic
    | .ok false => .ok { s with index := s.index + 1 }
    | _ => .panic
  | _, _ => .panic

/-- `InducedSubgraph(V)` -/
def inducedSubgraph (g : Dense) (V : List Nat) : Outcome Dense :=
  let n := V.length
  let Va := V.toArray
  match loopM (fun s j => loopM (isInner g Va j) (List.range j) s) (List.range' 1 (n - 1))
          ⟨Array.replicate (tri n) 0, 0, Array.replicate n 0, 0⟩ with
  | .ok s => .ok { n := n, m := s.m, deg := s.deg, edges := s.edges }
  | _ => .panic

/-- `Copy()`: fresh arrays with the same contents (independence is checked by the harness probes) -/
def copy (g : Dense) : Dense := { g with }

/-- the model's step function for a history -/
def step (g : Dense) : Op → Outcome Dense
  | .av S => g.addVertex S
  | .rv v => g.removeVertex v
  | .ae i j => g.addEdge i j
  | .re i j => g.removeEdge i j
  | .cp => .ok g.copy
  | .is V => g.inducedSubgraph V

end Dense

/-! ## the parts of `sortints` used by `SparseGraph` -/

/-- `sort.SearchInts(a, x)`: lower bound (first index with `a[i] >= x`) -/
def searchInts : List Int → Int → Nat
  | [], _ => 0
  | y :: ys, x => if y < x then searchInts ys x + 1 else 0

/-- `sortints.ContainsSingle(a, x)` -/
def containsSingle (a : List Int) (x : Int) : Bool :=
  match a[searchInts a x]? with
  | some y => y == x
  | none => false

/-- `(*SortedInts).Remove(x)` -/
def removeS (s : List Int) (x : Int) : List Int :=
  let index := searchInts s x
  match s[index]? with
  | some y => if y = x then s.eraseIdx index else s
  | none => s

/-- `(*SortedInts).Add(x)` with a single argument -/
def addSingle (s : List Int) (x : Int) : List Int :=
  let index := searchInts s x
  match s[index]? with
  | some y => if y = x then s else s.take index ++ x :: s.drop index
  | none => s.take index ++ x :: s.drop index

/-- the de-duplication loop of `NewSortedInts`; state `(tmp, numberOfRepeats)` -/
def dedupStep (s : Array Int × Nat) (i : Nat) : Outcome (Array Int × Nat) :=
  match s.1[i - 1]?, s.1[i]? with
  | some a, some b =>
    if a = b then .ok (s.1, s.2 + 1)
    else match setA s.1 (i - s.2) b with
      | .ok t => .ok (t, s.2)
      | _ => .panic
  | _, _ => .panic

/-- `sortints.NewSortedInts(x...)` -/
def newSortedInts (x : List Int) : Outcome (List Int) :=
  let tmp := (x.mergeSort (fun a b => decide (a ≤ b))).toArray
  match loopM dedupStep (List.range' 1 (tmp.size - 1)) (tmp, 0) with
  | .ok (t, reps) => .ok (t.extract 0 (t.size - reps)).toList
  | _ => .panic

/-- `intsSort(V)`: values with their original positions, sorted by value -/
def intsSort (V : List Int) : List (Int × Int) :=
  ((V.zipIdx).map fun p => (p.1, (p.2 : Int))).mergeSort (fun a b => decide (a.1 ≤ b.1))

/-- `intersectionByIndex(a, b, indicesOfB)`; `b` and `indicesOfB` travel as pairs (`intsSort` creates them with
equal lengths, so `indicesOfB[j]` is in range whenever `b[j]` is). -/
def interLoop : List Int → List (Int × Int) → List Int → List Int
  | x :: xs, (y, k) :: ys, r =>
    if x = y then interLoop xs ys (addSingle r k)
    else if x > y then interLoop (x :: xs) ys r
    else interLoop xs ((y, k) :: ys) r
  | [], _, r => r
  | _ :: _, [], r => r
termination_by a b => a.length + b.length

def intersectionByIndex (a : List Int) (b : List (Int × Int)) : List Int := interLoop a b []

/-! ## SparseGraph -/

structure Sparse where
  n : Nat                    -- NumberOfVertices
  m : Int                    -- NumberOfEdges
  nbrs : Array (List Int)    -- Neighbourhoods
  deg : Array Int            -- DegreeSequence
  deriving Repr

namespace Sparse

/-- `NewSparse(n, nil)` -/
def new (n : Nat) : Sparse := ⟨n, 0, Array.replicate n [], Array.replicate n 0⟩

def N (g : Sparse) : Nat := g.n
def M (g : Sparse) : Int := g.m

/-- `IsEdge(i, j)`: searches the list of the vertex of larger degree (no range guard in the code) -/
def isEdge (g : Sparse) (i j : Nat) : Outcome Bool :=
  match g.deg[i]?, g.deg[j]? with
  | some di, some dj =>
    if di > dj then
      match g.nbrs[i]? with
      | some l => .ok (containsSingle l j)
      | none => .panic
    else
      match g.nbrs[j]? with
      | some l => .ok (containsSingle l i)
      | none => .panic
  | _, _ => .panic

/-- `Neighbours(v)` (a copy) -/
def neighbours (g : Sparse) (v : Nat) : Outcome (List Int) := getA g.nbrs v

def degrees (g : Sparse) : List Int := g.deg.toList

/-- body of the loops `for _, v := range l { Neighbourhoods[v] = f(Neighbourhoods[v]); DegreeSequence[v] = h(..) }`
of `AddVertex` and `RemoveVertex`; state `(Neighbourhoods, DegreeSequence)` -/
def pairStep (f : List Int → List Int) (h : Int → Int) (s : Array (List Int) × Array Int) (v : Int) :
    Outcome (Array (List Int) × Array Int) :=
  match modifyI s.1 v f with
  | .ok nb =>
    match modifyI s.2 v h with
    | .ok d => .ok (nb, d)
    | _ => .panic
  | _ => .panic

/-- `AddVertex(neighbours)` -/
def addVertex (g : Sparse) (neighbours : List Nat) : Outcome Sparse :=
  let n' := g.n + 1
  match newSortedInts (neighbours.map Int.ofNat) with
  | .ok tmp =>
    match loopM (pairStep (fun l => l ++ [((n' : Nat) : Int) - 1]) (· + 1)) tmp (g.nbrs, g.deg) with
    | .ok (nb, d) =>
      .ok { n := n', m := g.m + tmp.length, nbrs := nb.push tmp, deg := d.push tmp.length }
    | _ => .panic
  | _ => .panic

/-- the renumbering loop of `RemoveVertex`: `for k := SearchInts(l, i); k < len(l); k++ { l[k]-- }` -/
def renumber (i : Nat) (l : List Int) : List Int :=
  let start := searchInts l i
  l.take start ++ (l.drop start).map (· - 1)

/-- `RemoveVertex(i)` -/
def removeVertex (g : Sparse) (i : Nat) : Outcome Sparse :=
  match g.deg[i]?, g.nbrs[i]? with
  | some di, some li =>
    match loopM (pairStep (fun l => removeS l i) (· - 1)) li (g.nbrs, g.deg) with
    | .ok (nb, d) =>
      match eraseAt nb i, eraseAt d i with
      | .ok nb', .ok d' =>
        .ok { n := g.n - 1, m := g.m - di, nbrs := nb'.map (renumber i), deg := d' }
      | _, _ => .panic
    | _ => .panic
  | _, _ => .panic

/-- `AddEdge(i, j)` -/
def addEdge (g : Sparse) (i j : Nat) : Outcome Sparse :=
  if i = j then .ok g
  else
    match g.isEdge i j with
    | .ok true => .ok g
    | .ok false =>
      match modifyI g.nbrs i (fun l => addSingle l j) with
      | .ok nb1 =>
        match modifyI nb1 j (fun l => addSingle l i) with
        | .ok nb2 =>
          match addA g.deg i 1 with
          | .ok d1 =>
            match addA d1 j 1 with
            | .ok d2 => .ok { g with nbrs := nb2, m := g.m + 1, deg := d2 }
            | _ => .panic
          | _ => .panic
        | _ => .panic
      | _ => .panic
    | _ => .panic

/-- `RemoveEdge(i, j)` -/
def removeEdge (g : Sparse) (i j : Nat) : Outcome Sparse :=
  if i = j then .ok g
  else
    match g.isEdge i j with
    | .ok false => .ok g
    | .ok true =>
      match modifyI g.nbrs i (fun l => removeS l j) with
      | .ok nb1 =>
        match modifyI nb1 j (fun l => removeS l i) with
        | .ok nb2 =>
          match addA g.deg i (-1) with
          | .ok d1 =>
            match addA d1 j (-1) with
            | .ok d2 => .ok { g with nbrs := nb2, m := g.m - 1, deg := d2 }
            | _ => .panic
          | _ => .panic
        | _ => .panic
      | _ => .panic
    | _ => .panic

def isStep (g : Sparse) (bi : List (Int × Int)) (s : List (List Int) × Int) (v : Nat) :
    Outcome (List (List Int) × Int) :=
  match g.neighbours v with
  | .ok a =>
    let r := intersectionByIndex a bi
    .ok (s.1 ++ [r], s.2 + r.length)
  | _ => .panic

/-- `InducedSubgraph(V)`; state of the loop `(tmpNeighbourhoods, tmpDegreeSequence, m)` in list form -/
def inducedSubgraph (g : Sparse) (V : List Nat) : Outcome Sparse :=
  let n := V.length
  let bi := intsSort (V.map Int.ofNat)
  match loopM (isStep g bi) V ([], 0) with
  | .ok (nb, m) =>
    .ok { n := n, m := Int.tdiv m 2, nbrs := nb.toArray, deg := (nb.map fun l => (l.length : Int)).toArray }
  | _ => .panic

/-- `Copy()` -/
def copy (g : Sparse) : Sparse := { g with }

def step (g : Sparse) : Op → Outcome Sparse
  | .av S => g.addVertex S
  | .rv v => g.removeVertex v
  | .ae i j => g.addEdge i j
  | .re i j => g.removeEdge i j
  | .cp => .ok g.copy
  | .is V => g.inducedSubgraph V

end Sparse

/-- run a history -/
def runM {R : Type} (step : R → Op → Outcome R) : List Op → R → Outcome R := loopM step

end GraphRep
