import Mamba.Model.CliqueGo
/-!
# C09 — faithful model (pattern F) of `dfsDsatur` (graph/colouring.go) with `container/heap`

`ChromaticNumber(g) = dfsDsatur(g, CliqueNumber(g), n+1, all -1)` and `IsKColorable(g, k) = dfsDsatur(g, k, k, all -1)`.
Only the call shape used by the two public functions is modelled: the partial colouring is all `-1` (no precoloured
vertices). The heap is the slice `intHeap` with Go's `container/heap` algorithms (`Init`, `Remove(h, 0)`, `Push`, `Fix`,
`up`, `down`) and the comparison of `uncolouredHeap.Less` (more seen colours first, then larger degree).
The loop `for k, u := range uh.intHeap { ...; heap.Fix(&uh, k) }` reads `intHeap[k]` at iteration `k` from the array
that `Fix` permutes, exactly as Go does.
-/
namespace CliqueColour
open GraphSpec

structure Dsat where
  heap : List Nat            -- uh.intHeap
  num : List Int             -- uh.uv[v].numberOfSeenColours
  seen : List (List Int)     -- uh.uv[v].seenColours
  deg : List Nat             -- uh.uv[v].degree
  colouring : List Int
  best : List Int
  chosen : List Nat          -- chosenVertices
  cur : List Nat             -- currentChoice
  choices : List (List Nat)
  maxUsed : Int              -- maxColourUsed
  upper : Int                -- upperBound (already incremented)

/-- `uncolouredHeap.Less(i, j)` -/
def dsLess (num : List Int) (deg : List Nat) (heap : List Nat) (i j : Nat) : Bool :=
  let a := heap.getD i 0
  let b := heap.getD j 0
  if num.getD a 0 != num.getD b 0 then decide (num.getD a 0 > num.getD b 0) else decide (deg.getD a 0 > deg.getD b 0)

def swapAt (l : List Nat) (i j : Nat) : List Nat := (l.set i (l.getD j 0)).set j (l.getD i 0)

/-- `heap.up(h, j)` -/
def heapUp (num : List Int) (deg : List Nat) : Nat → List Nat → Nat → List Nat
  | 0, h, _ => h
  | fuel + 1, h, j =>
    let i := (j - 1) / 2
    if i == j || !dsLess num deg h j i then h else heapUp num deg fuel (swapAt h i j) i

/-- `heap.down(h, i0, n)`: the new heap and the final position `i` -/
def heapDown (num : List Int) (deg : List Nat) (n : Nat) : Nat → List Nat → Nat → List Nat × Nat
  | 0, h, i => (h, i)
  | fuel + 1, h, i =>
    let j1 := 2 * i + 1
    if j1 ≥ n then (h, i)
    else
      let j := if j1 + 1 < n && dsLess num deg h (j1 + 1) j1 then j1 + 1 else j1
      if !dsLess num deg h j i then (h, i) else heapDown num deg n fuel (swapAt h i j) j

/-- `heap.Fix(h, i)` -/
def heapFix (num : List Int) (deg : List Nat) (h : List Nat) (i : Nat) : List Nat :=
  let (h1, i1) := heapDown num deg h.length (h.length + 1) h i
  if i1 > i then h1 else heapUp num deg (h.length + 1) h1 i

/-- `heap.Init(h)` -/
def heapInit (num : List Int) (deg : List Nat) (h : List Nat) : List Nat :=
  (List.range (h.length / 2)).reverse.foldl (fun hh i => (heapDown num deg hh.length (hh.length + 1) hh i).1) h

/-- `heap.Remove(h, 0)` (the removed element is `h[0]`) -/
def heapRemove0 (num : List Int) (deg : List Nat) (h : List Nat) : List Nat :=
  let n := h.length - 1
  if n != 0 then
    let h1 := swapAt h 0 n
    let (h2, i1) := heapDown num deg n (n + 1) h1 0
    let h3 := if i1 > 0 then h2 else heapUp num deg (n + 1) h2 0
    h3.dropLast
  else h.dropLast

/-- `heap.Push(h, x)` -/
def heapPush (num : List Int) (deg : List Nat) (h : List Nat) (x : Nat) : List Nat :=
  heapUp num deg (h.length + 2) (h ++ [x]) h.length

def incAt (l : List Int) (i : Nat) (d : Int) : List Int := l.set i (l.getD i 0 + d)

/-- `seenColours[c]++` for vertex `u`, with the `== 1` test on `numberOfSeenColours` -/
def seeInc (s : Dsat) (u : Nat) (c : Nat) : Dsat :=
  let row := incAt (s.seen.getD u []) c 1
  { s with seen := s.seen.set u row, num := if row.getD c 0 == 1 then incAt s.num u 1 else s.num }

/-- `seenColours[c]--` for vertex `u`, with the `== 0` test -/
def seeDec (s : Dsat) (u : Nat) (c : Nat) : Dsat :=
  let row := incAt (s.seen.getD u []) c (-1)
  { s with seen := s.seen.set u row, num := if row.getD c 0 == 0 then incAt s.num u (-1) else s.num }

/-- the forward update loop `for k, u := range uh.intHeap { if edge { ... }; heap.Fix(&uh, k) }` from index `k` -/
def fwdLoop (g : G) (v toColour : Nat) : Nat → Nat → Dsat → Dsat
  | 0, _, s => s
  | fuel + 1, k, s =>
    if k < s.heap.length then
      let u := s.heap.getD k 0
      let s1 := if g.adj u v then seeInc s u toColour else s
      fwdLoop g v toColour fuel (k + 1) { s1 with heap := heapFix s1.num s1.deg s1.heap k }
    else s

/-- undo the colour of `cv` for every vertex in the heap -/
def undoLoop (g : G) (cv : Nat) (col : Nat) (s : Dsat) : Dsat :=
  s.heap.foldl (fun st u => if g.adj u cv then seeDec st u col else st) s

/-- `for j := len(chosenVertices)-1; j > i; j--` of the backtracking step; `js` = the vertices `chosen[j]` in that
order -/
def uncolourLoop (g : G) : List Nat → Dsat → Dsat
  | [], s => s
  | cv :: rest, s =>
    let s1 := undoLoop g cv (s.colouring.getD cv 0).toNat s
    let s2 := { s1 with colouring := s1.colouring.set cv (-1) }
    uncolourLoop g rest { s2 with heap := heapPush s2.num s2.deg s2.heap cv }

/-- the first `i` at which `colouring[chosen[i]] >= upperBound - 1`, giving `mustChange = i - 1`; else `len - 1` -/
def mustChange (s : Dsat) : Int :=
  let i0 := s.chosen.findIdx (fun cv => decide (s.colouring.getD cv 0 ≥ s.upper - 1))
  if i0 < s.chosen.length then (i0 : Int) - 1 else (s.cur.length : Int) - 1

/-- search `for i := mustChange; i >= 0; i--` for a position whose choice can be advanced; argument is `i + 1` -/
def findAdvance (s : Dsat) : Nat → Option Nat
  | 0 => none
  | i + 1 =>
    let ci := s.cur.getD i 0
    let ch := s.choices.getD i []
    if ci + 1 < ch.length && decide ((ch.getD (ci + 1) 0 : Int) + 1 < s.upper) then some i else findAdvance s i

inductive DsStep where
  | next : Dsat → DsStep
  | done : Int → Option (List Int) → DsStep
  | panic : DsStep

/-- the colours `j = 0..maxOption` with `vertex.seenColours[j] == 0`, `maxOption = min(upperBound-2, maxColourUsed+1)` -/
def dsOptions (s : Dsat) (v : Nat) : List Nat :=
  let maxOption : Int := if s.maxUsed + 1 < s.upper - 2 then s.maxUsed + 1 else s.upper - 2
  (List.range (maxOption + 1).toNat).filter fun j => (s.seen.getD v []).getD j 0 == 0

/-- colour the vertex `v` (already removed from the heap) with the first of its options `c` -/
def dsForward (g : G) (s : Dsat) (v : Nat) (c : List Nat) (toColour : Nat) : Dsat :=
  let s1 := { s with choices := s.choices ++ [c], cur := s.cur ++ [0], chosen := s.chosen ++ [v],
                     colouring := s.colouring.set v (toColour : Int),
                     maxUsed := if (toColour : Int) > s.maxUsed then (toColour : Int) else s.maxUsed }
  fwdLoop g v toColour (s1.heap.length + 1) 0 s1

/-- advance the choice at position `i`: uncolour everything above, recolour `chosenVertices[i]` -/
def dsBacktrackTo (g : G) (s : Dsat) (i : Nat) : Dsat :=
  let ci := s.cur.getD i 0
  let toColour := (s.choices.getD i []).getD (ci + 1) 0
  let s1 := uncolourLoop g (s.chosen.drop (i + 1)).reverse s
  let s2 := { s1 with cur := s1.cur.take (i + 1), choices := s1.choices.take (i + 1),
                      chosen := s1.chosen.take (i + 1) }
  let cv := s2.chosen.getD i 0
  let old := (s2.colouring.getD cv 0).toNat
  let s3 := s2.heap.foldl (fun st u => if g.adj u cv then seeInc (seeDec st u old) u toColour else st) s2
  let s4 := { s3 with heap := heapInit s3.num s3.deg s3.heap, cur := s3.cur.set i (ci + 1),
                      colouring := s3.colouring.set cv (toColour : Int) }
  let mx := s4.chosen.foldl (fun m u => if s4.colouring.getD u 0 > m then s4.colouring.getD u 0 else m) 0
  { s4 with maxUsed := mx }

/-- the backtracking part of an iteration (`if len(c) == 0 { … }`) -/
def dsBacktrack (g : G) (s : Dsat) : DsStep :=
  match findAdvance s (mustChange s + 1).toNat with
  | some i => .next (dsBacktrackTo g s i)
  | none => if s.best.getD 0 0 == -1 then .done (-1) none else .done s.upper (some s.best)

/-- one iteration of `dfsLoop` -/
def dsIter (g : G) (lower : Int) (s : Dsat) : DsStep :=
  if s.heap.length > 0 then
    let v := s.heap.getD 0 0
    match dsOptions s v with
    | [] => dsBacktrack g s
    | toColour :: rest =>
      .next (dsForward g { s with heap := heapRemove0 s.num s.deg s.heap } v (toColour :: rest) toColour)
  else
    let s' := { s with best := s.colouring, upper := s.maxUsed + 1 }
    if s'.upper ≤ lower then .done s'.upper (some s'.best) else dsBacktrack g s'

def dsLoop (g : G) (lower : Int) : Nat → Dsat → Outcome (Int × Option (List Int))
  | 0, _ => .outOfFuel
  | fuel + 1, s =>
    match dsIter g lower s with
    | .next s' => dsLoop g lower fuel s'
    | .done k c => .ok (k, c)
    | .panic => .panic

/-- `dfsDsatur(g, lowerBound, upperBound, all -1)` -/
def dfsDsatur (g : G) (lower upper0 : Int) : Outcome (Int × Option (List Int)) :=
  let upper := upper0 + 1
  if g.n == 0 then .ok (0, some [])
  else if upper < 0 then .panic                       -- make([]int, upperBound) with a negative length
  else if upper ≤ 0 then .ok (-1, none)               -- maxColourUsed+1 >= upperBound
  else
    let num := List.replicate g.n (0 : Int)
    let deg := g.degrees
    let s : Dsat :=
      { heap := heapInit num deg (List.range g.n), num := num,
        seen := List.replicate g.n (List.replicate upper.toNat 0), deg := deg,
        colouring := List.replicate g.n (-1), best := List.replicate g.n (-1),
        chosen := [], cur := [], choices := [], maxUsed := -1, upper := upper }
    dsLoop g lower ((g.n + 2) ^ (g.n + 2)) s

/-- `graph.ChromaticNumber` -/
def chromaticNumberGo (g : G) : Outcome (Int × Option (List Int)) :=
  match cliqueNumberGo g with
  | .ok cn => dfsDsatur g cn (g.n + 1)
  | .panic => .panic
  | .outOfFuel => .outOfFuel

/-- `graph.IsKColorable` -/
def isKColorableGo (g : G) (k : Int) : Outcome (Bool × Option (List Int)) :=
  match dfsDsatur g k k with
  | .ok (cn, c) => if cn == -1 then .ok (false, none) else .ok (true, c)
  | .panic => .panic
  | .outOfFuel => .outOfFuel

end CliqueColour
