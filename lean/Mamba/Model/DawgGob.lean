import Mamba.Model.Dawg
import Mamba.Gen.DawgConsts
/-!
Model of the serialisation half of `dawg/dawg.go` (C14): `encodeUint64`, `decodeUint64`, `listNodesCountEdges`,
`numberOfNodes`, `GobEncode`, `GobDecode`.

The explicit-stack traversal is modelled as coded, including the fact that a child that has already been seen is still
pushed on both stacks before the `continue` (so the stacks hold "garbage" entries that are re-examined later).
A stack entry is `(node pointer, next)` with `next = currDecisions[k] + 1`.
`sort.Search(len(nodes), nodes[i] >= id)` is modelled as "number of leading elements `< id`" (`searchGE`), which is what
binary search returns on the sorted slices the code keeps (assumption recorded in props.json).
`numEdges` (only a capacity hint) is not modelled.
-/
namespace Dawg

/-! ### variable-length unsigned integers

Every literal of `encodeUint64` / `decodeUint64` is a field of `VarintCfg`; the functions the driver runs are the
instances at `genCfg`, whose fields are regenerated from `dawg/dawg.go` on every run (`Mamba/Gen/DawgConsts.lean`). -/

/-- result of a modelled call that can also return a Go `error` -/
inductive DecRes (α : Type) where
  | ok : α → DecRes α
  | err : DecRes α       -- an `error` was returned (short input, over-long integer)
  | panic : DecRes α     -- index / slice bound out of range
  deriving Repr, DecidableEq

structure VarintCfg where
  encBelow : Nat        -- `if x <= 127`               (exclusive bound)
  lzBits : Nat          -- `bits.LeadingZeros64`
  lzShift : Nat         -- `>> 3`
  encBufFull : Nat      -- `buf[:9-zeroBytes]`
  encPrefixSum : Nat    -- `128 + 8` in `buf[0] = 128 + 8 - byte(zeroBytes)`
  encLoopBound : Nat    -- `i < 8-zeroBytes`
  encDstOffset : Nat    -- `buf[1+i]`
  encShiftUnit : Nat    -- `8*(7-(i+zeroBytes))`
  encShiftTop : Nat
  decBelow : Nat        -- `if buf[0] <= 127`          (exclusive bound)
  decPrefixBase : Nat   -- `n = int(b) - 128`
  decTooManyFrom : Nat  -- `if n > 8`                  (inclusive bound)
  decShift : Nat        -- `x<<8 | uint64(b)`
  decBufSize : Nat      -- `make([]byte, 9)` in GobDecode: `buf[0:n]` panics beyond it
  deriving Repr

/-- the constants as they are in the Go source now (for a function whose shape the extractor does not recognise: the
hand-written defaults, i.e. the model as it was before regeneration — then only the correspondence ties it to the code) -/
def genCfg : VarintCfg :=
  { encBelow := Gen.Dawg.encBelow, lzBits := Gen.Dawg.lzBits, lzShift := Gen.Dawg.lzShift,
    encBufFull := Gen.Dawg.encBufFull, encPrefixSum := Gen.Dawg.encPrefixSum, encLoopBound := Gen.Dawg.encLoopBound,
    encDstOffset := Gen.Dawg.encDstOffset, encShiftUnit := Gen.Dawg.encShiftUnit, encShiftTop := Gen.Dawg.encShiftTop,
    decBelow := Gen.Dawg.decBelow, decPrefixBase := Gen.Dawg.decPrefixBase, decTooManyFrom := Gen.Dawg.decTooManyFrom,
    decShift := Gen.Dawg.decShift, decBufSize := Gen.Dawg.decBufSize }

/-- `bits.LeadingZeros<bits>(x)` -/
def lz (bits x : Nat) : Nat := bits - (if x = 0 then 0 else x.log2 + 1)

/-- `encodeUint64(x, buf)` for `x < 2^64`. The bytes are laid out as the code writes them into `buf` (first byte,
value bytes from `buf[1+i]`, result `buf[:9-zeroBytes]`); positions of `buf` the call does not write are modelled as 0
(they can only show when the constants are inconsistent). Byte conversions are `% 256`. -/
def encodeUint64With (c : VarintCfg) (x : Nat) : List Nat :=
  if x < c.encBelow then [x]
  else
    let zb := lz c.lzBits x >>> c.lzShift
    let first := (c.encPrefixSum - zb) % 256
    let body := (List.range (c.encLoopBound - zb)).map
      (fun i => (x >>> (c.encShiftUnit * (c.encShiftTop - (i + zb)))) % 256)
    ((first :: List.replicate (c.encDstOffset - 1) 0 ++ body) ++ List.replicate c.encBufFull 0).take (c.encBufFull - zb)

def encodeUint64 (x : Nat) : List Nat := encodeUint64With genCfg x

/-- big-endian value of a byte list (`x = x<<8 | uint64(b)`, the shift wraps at 64 bits) -/
def beValueWith (s : Nat) (acc : Nat) : List Nat → Nat
  | [] => acc
  | b :: bs => beValueWith s (((acc <<< s) % 2 ^ 64) ||| b) bs

/-- `decodeUint64(r, buf)`: the value and the rest of the input, or an error (empty / short input, too many bytes),
or a panic (`buf[0:n]` with `n` negative or beyond the buffer) -/
def decodeUint64With (c : VarintCfg) : List Nat → DecRes (Nat × List Nat)
  | [] => .err
  | b :: rest =>
    if b < c.decBelow then .ok (b, rest)
    else if b < c.decPrefixBase then .panic            -- n < 0: `n > 8` is false, `buf[0:n]` panics
    else
      let n := b - c.decPrefixBase
      if c.decTooManyFrom ≤ n then .err
      else if c.decBufSize < n then .panic             -- `buf[0:n]` beyond the buffer
      else if rest.length < n then .err
      else .ok (beValueWith c.decShift 0 (rest.take n), rest.drop n)

def decodeUint64 (inp : List Nat) : DecRes (Nat × List Nat) := decodeUint64With genCfg inp

/-! ### the explicit-stack traversal -/

/-- `sort.Search(len(nodes), func(i) { nodes[i] >= id })` on a sorted slice -/
def searchGE : List Nat → Nat → Nat
  | [], _ => 0
  | x :: xs, id => if x < id then searchGE xs id + 1 else 0

def insertAt (l : List Nat) (i : Nat) (x : Nat) : List Nat := l.take i ++ x :: l.drop i

structure DfsSt where
  nodes : List Nat            -- sorted ids seen so far
  stack : List (Nat × Nat)    -- head = top; (pointer, currDecisions+1)
  out : Array Nat             -- bytes emitted (GobEncode only)
  deriving Repr

/-- `label, convertID(links[i].id)` for every link (the `for i := range linkDawg.linkLabels` loop) -/
def encLinks (h : Heap) (conv : Nat → Nat) : List Nat → List Nat → Outcome (List Nat)
  | [], _ => .ok []
  | _ :: _, [] => .panic
  | lab :: labs, q :: qs =>
    match getNode h q with
    | .ok qn =>
      match encLinks h conv labs qs with
      | .ok r => .ok (lab :: encodeUint64 (conv qn.id) ++ r)
      | .panic => .panic
      | .outOfFuel => .outOfFuel
    | .panic => .panic
    | .outOfFuel => .outOfFuel

/-- one node record: index, numWords, final, child count, children -/
def encRecord (h : Heap) (conv : Nat → Nat) (n : Node) : Outcome (List Nat) :=
  match encLinks h conv n.labels n.links with
  | .ok r =>
    .ok (encodeUint64 (conv n.id) ++ encodeUint64 n.numWords ++ [if n.final then Gen.Dawg.finalTrueByte else Gen.Dawg.finalFalseByte]
          ++ encodeUint64 n.labels.length ++ r)
  | .panic => .panic
  | .outOfFuel => .outOfFuel

/-- the inner `for j := ...; j < len(currDawg.linkLabels); j++` loop for the node `T`; `labs` = labels from `j` on.
result `true` = a new node was found (`continue toCheckLoop`), `false` = the loop ran off the end -/
def dfsInner (emit : Option (Nat → Nat)) (h : Heap) (T : Node) : List Nat → Nat → DfsSt → Outcome (DfsSt × Bool)
  | [], _, st => .ok (st, false)
  | _ :: labs, j, st =>
    match T.links[j]? with
    | none => .panic
    | some c =>
      match st.stack with
      | [] => .panic
      | (tp, _) :: below =>
        let stack := (c, 0) :: (tp, j + 1) :: below
        match getNode h c with
        | .ok cn =>
          let idx := searchGE st.nodes cn.id
          if st.nodes[idx]? = some cn.id then
            dfsInner emit h T labs (j + 1) { st with stack := stack }
          else
            let nodes := insertAt st.nodes idx cn.id
            match emit with
            | none => .ok ({ st with nodes := nodes, stack := stack }, true)
            | some conv =>
              match encRecord h conv cn with
              | .ok r => .ok ({ nodes := nodes, stack := stack, out := st.out ++ r }, true)
              | .panic => .panic
              | .outOfFuel => .outOfFuel
        | .panic => .panic
        | .outOfFuel => .outOfFuel

/-- the `toCheckLoop` -/
def dfsLoop (emit : Option (Nat → Nat)) (h : Heap) : Nat → DfsSt → Outcome DfsSt
  | 0, _ => .outOfFuel
  | fuel + 1, st =>
    match st.stack with
    | [] => .panic
    | (p, nxt) :: _ =>
      match getNode h p with
      | .ok T =>
        match dfsInner emit h T (T.labels.drop nxt) nxt st with
        | .ok (st1, true) => dfsLoop emit h fuel st1
        | .ok (st1, false) =>
          match st1.stack with
          | [] => .panic
          | _ :: [] => .ok { st1 with stack := [] }
          | _ :: rest => dfsLoop emit h fuel { st1 with stack := rest }
        | .panic => .panic
        | .outOfFuel => .outOfFuel
      | .panic => .panic
      | .outOfFuel => .outOfFuel

/-- `listNodesCountEdges` (ids of the nodes found, sorted) -/
def listNodes (fuel : Nat) (d : Dawg) : Outcome (List Nat) :=
  match getNode d.heap d.root with
  | .ok rn =>
    match dfsLoop none d.heap fuel { nodes := [rn.id], stack := [(d.root, 0)], out := #[] } with
    | .ok st => .ok st.nodes
    | .panic => .panic
    | .outOfFuel => .outOfFuel
  | .panic => .panic
  | .outOfFuel => .outOfFuel

/-- `numberOfNodes` -/
def numberOfNodes (fuel : Nat) (d : Dawg) : Outcome Nat :=
  match listNodes fuel d with
  | .ok l => .ok l.length
  | .panic => .panic
  | .outOfFuel => .outOfFuel

/-- `GobEncode` -/
def gobEncode (fuel : Nat) (d : Dawg) : Outcome (List Nat) :=
  match listNodes fuel d with
  | .ok sortedNodes =>
    let numNodes := sortedNodes.length
    let conv : Nat → Nat := searchGE sortedNodes
    let header := encodeUint64 numNodes ++ sortedNodes.flatMap encodeUint64
    match getNode d.heap d.root with
    | .ok rn =>
      match encRecord d.heap conv rn with
      | .ok r =>
        -- `nodes := make([]uint64, numNodes)`: numNodes zeros, the root id is *not* inserted
        match dfsLoop (some conv) d.heap fuel
            { nodes := List.replicate numNodes 0, stack := [(d.root, 0)], out := (header ++ r).toArray } with
        | .ok st => .ok st.out.toList
        | .panic => .panic
        | .outOfFuel => .outOfFuel
      | .panic => .panic
      | .outOfFuel => .outOfFuel
    | .panic => .panic
    | .outOfFuel => .outOfFuel
  | .panic => .panic
  | .outOfFuel => .outOfFuel

/-! ### GobDecode -/

/-- `for i = 0; i < numNodes; i++ { ts[i].id = decodeUint64 }` -/
def decIds (ts : Heap) : Nat → Nat → List Nat → DecRes (Heap × List Nat)
  | 0, _, inp => .ok (ts, inp)
  | k + 1, i, inp =>
    match decodeUint64 inp with
    | .err => .err
    | .panic => .panic
    | .ok (x, inp1) =>
      match ts[i]? with
      | none => .panic
      | some n => decIds (ts.setIfInBounds i { n with id := x }) k (i + 1) inp1

/-- the children loop of one record -/
def decChildren (ts : Heap) (idx : Nat) : Nat → List Nat → DecRes (Heap × List Nat)
  | 0, inp => .ok (ts, inp)
  | k + 1, inp =>
    match inp with
    | [] => .err
    | label :: inp1 =>
      match decodeUint64 inp1 with
      | .err => .err
      | .panic => .panic
      | .ok (target, inp2) =>
        -- `ts[indexID].linkLabels = append(...)`, then `ts[indexID].links = append(..., ts[target])`
        match ts[idx]? with
        | none => .panic
        | some n =>
          if target < ts.size then
            decChildren (ts.setIfInBounds idx { n with labels := n.labels ++ [label], links := n.links ++ [target] }) idx k inp2
          else .panic

/-- the record loop -/
def decRecords (ts : Heap) : Nat → List Nat → DecRes (Heap × List Nat)
  | 0, inp => .ok (ts, inp)
  | k + 1, inp =>
    match decodeUint64 inp with
    | .err => .err
    | .panic => .panic
    | .ok (idx, inp1) =>
      match decodeUint64 inp1 with
      | .err => .err
      | .panic => .panic
      | .ok (numWords, inp2) =>
        match ts[idx]? with
        | none => .panic
        | some n0 =>
          let ts1 := ts.setIfInBounds idx { n0 with numWords := numWords }
          match inp2 with
          | [] => .err
          | fin :: inp3 =>
            let ts2 := ts1.setIfInBounds idx { n0 with numWords := numWords, final := Gen.Dawg.decFinalSet fin }
            match decodeUint64 inp3 with
            | .err => .err
            | .panic => .panic
            | .ok (numChild, inp4) =>
              let ts3 := ts2.setIfInBounds idx { n0 with numWords := numWords, final := Gen.Dawg.decFinalSet fin, labels := [], links := [] }
              match decChildren ts3 idx numChild inp4 with
              | .ok (ts4, inp5) => decRecords ts4 k inp5
              | .err => .err
              | .panic => .panic

/-- `(t *Dawg) GobDecode(b)` into a zero-value receiver: heap `ts`, root `ts[0]` -/
def gobDecode (b : List Nat) : DecRes Dawg :=
  match decodeUint64 b with
  | .err => .err
  | .panic => .panic
  | .ok (numNodes, inp) =>
    if numNodes = 0 then .panic          -- `ts[0] = t` on an empty slice
    else if inp.length < numNodes then .err
      -- every id takes at least one byte, so the id loop below would end in an error anyway; answering here keeps the
      -- driver from allocating `numNodes` cells for a garbage count (Go allocates them, or dies trying)
    else
      match decIds (Array.replicate numNodes Node.zero) numNodes 0 inp with
      | .ok (ts, inp1) =>
        match decRecords ts numNodes inp1 with
        | .ok (ts1, _) => .ok ⟨ts1, 0⟩
        | .err => .err
        | .panic => .panic
      | .err => .err
      | .panic => .panic

/-! ### canonical node table (what the harness prints through `VerifNodeTable`; driver glue, not Go code) -/

structure Row where
  id : Nat
  final : Bool
  numWords : Nat
  labels : List Nat
  targets : List Nat
  deriving Repr, DecidableEq

/-- ids of the link targets (`none` for a dangling pointer) -/
def targetIds (h : Heap) (links : List Nat) : Option (List Nat) :=
  links.mapM (fun q => (h[q]?).map (·.id))

/-- depth-first, first visit, links in slice order; nodes identified by pointer -/
def tableGo (h : Heap) : Nat → List Nat → List Nat → List Row → Outcome (List Row)
  | 0, _, _, _ => .outOfFuel
  | _ + 1, [], _, acc => .ok acc.reverse
  | fuel + 1, p :: work, seen, acc =>
    if seen.contains p then tableGo h fuel work seen acc
    else
      match h[p]? with
      | none => .panic
      | some n =>
        match targetIds h n.links with
        | none => .panic
        | some tg => tableGo h fuel (n.links ++ work) (p :: seen) (⟨n.id, n.final, n.numWords, n.labels, tg⟩ :: acc)

def nodeTable (d : Dawg) : Outcome (List Row) :=
  tableGo d.heap (2 + d.heap.foldl (fun s n => s + n.links.length) 0) [d.root] [] []

end Dawg
