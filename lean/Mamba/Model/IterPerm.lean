import Mamba.Model.IterBase
/-!
# Model of `itertools/permutations.go`
`Permutations` (Heap), `LexicographicPermutations` / `MultisetPermutations` (next permutation with the
n-2 / n-3 special cases), `TopologicalSorts` (Algorithm V), `RestrictedPrefixPermutations` (Algorithm X),
`PermutationsByPattern`.
-/
namespace Iter

/-! ## Permutations (Heap's algorithm) -/

structure Heap where
  n : Int
  i : Int
  c : Sl
  p : Sl
  deriving Repr

/-- `Permutations(n)` -/
def Heap.init (n : Int) : Outcome Heap := do
  let a ← iota n
  let c ← make n
  pure ⟨n, -1, c, a⟩

/-- `p[x], p[y] = p[y], p[x]` -/
def swap (a : Sl) (x y : Int) : Outcome Sl := do
  let vx ← get a x
  let vy ← get a y
  let a ← set a x vy
  set a y vx

/-- `for p.i < p.n {...}`: at most `n - i` iterations -/
def Heap.loop : Nat → Heap → Outcome (Heap × Bool)
  | 0, _ => .outOfFuel
  | f+1, s =>
    if s.i < s.n then do
      let ci ← get s.c s.i
      if ci < s.i then
        let p ← if s.i % 2 == 0 then swap s.p 0 s.i else swap s.p ci s.i
        let c ← set s.c s.i (ci + 1)
        pure ({ s with p := p, c := c, i := 0 }, true)
      else
        let c ← set s.c s.i 0
        Heap.loop f { s with c := c, i := s.i + 1 }
    else .ok (s, false)

/-- `(*PermutationIterator).Next` -/
def Heap.next (s : Heap) : Outcome (Heap × Bool) :=
  if s.i == s.n then .ok (s, false)
  else if s.i == -1 then .ok ({ s with i := s.i + 1 }, true)
  else Heap.loop ((s.n - s.i).toNat + 1) s

def Heap.it : It Heap Sl := ⟨Heap.next, fun s => .ok (s, s.p)⟩

/-! ## LexicographicPermutations / MultisetPermutations -/

structure Lex where
  n : Int
  a : Sl
  first : Bool
  deriving Repr

/-- `LexicographicPermutations(n)` -/
def Lex.init (n : Int) : Outcome Lex := do
  let a ← iota n
  pure ⟨n, a, true⟩

/-- `ints.Sum(freq)` -/
def sumInts (l : Sl) : Int := l.foldl (· + ·) 0

/-- `MultisetPermutations(freq)`: `a` = `freq[i]` copies of `i` in increasing order. -/
def Lex.initMulti (freq : Sl) : Outcome Lex :=
  let n := sumInts freq
  if n < 0 then .panic  -- make([]int, 0, n) panics
  else
    let a : Sl := (freq.zipIdx).flatMap (fun (f, i) => List.replicate f.toNat (i : Int))
    .ok ⟨n, a, true⟩

/-- `for l := n-2; l > 0; l-- { if a[j] >= a[l] { continue }; swap...; break }`; argument = `l` -/
def Lex.findL (n j : Int) : Nat → Sl → Outcome Sl
  | 0, a => .ok a
  | l+1, a => do
    let aj ← get a j
    let al ← get a (l + 1 : Nat)
    if aj ≥ al then Lex.findL n j l a
    else
      let a ← swap a j (l + 1 : Nat)
      swap a (n - 1) (j + 1)

/-- `for k < l { a[k], a[l] = a[l], a[k]; k++; l-- }` -/
def Lex.rev : Nat → Int → Int → Sl → Outcome Sl
  | 0, _, _, _ => .outOfFuel
  | f+1, k, l, a =>
    if k < l then do
      let a ← swap a k l
      Lex.rev f (k + 1) (l - 1) a
    else .ok a

/-- `for j := n-4; j >= 0; j-- {...}`; argument = `j+1` -/
def Lex.scan (n : Int) : Nat → Sl → Outcome (Sl × Bool)
  | 0, a => .ok (a, false)
  | j+1, a => do
    let aj ← get a j
    let aj1 ← get a (j + 1 : Nat)
    if aj ≥ aj1 then Lex.scan n j a
    else
      let an1 ← get a (n - 1)
      let a ← if aj < an1 then do
          -- a[j], a[j+1], a[n-1] = a[n-1], a[j], a[j+1]
          let a ← set a j an1
          let a ← set a (j + 1 : Nat) aj
          set a (n - 1) aj1
        else Lex.findL n j (n - 2).toNat a
      let a ← Lex.rev (n.toNat + 1) (j + 2 : Nat) (n - 2) a
      pure (a, true)

/-- `(*LexicographicPermutationIterator).Next` -/
def Lex.next (s : Lex) : Outcome (Lex × Bool) :=
  let n := s.n
  if s.first then .ok ({ s with first := false }, true)
  else do
    -- if n > 1 && a[n-2] < a[n-1]
    let c1 ← if n > 1 then do
        let x ← get s.a (n - 2); let y ← get s.a (n - 1); pure (decide (x < y))
      else pure false
    if c1 then
      let a ← swap s.a (n - 2) (n - 1)
      pure ({ s with a := a }, true)
    else
      let c2 ← if n > 2 then do
          let x ← get s.a (n - 3); let y ← get s.a (n - 2); pure (decide (x < y))
        else pure false
      if c2 then
        let x ← get s.a (n - 3)
        let y ← get s.a (n - 2)
        let z ← get s.a (n - 1)
        let a ← if x < z then do
            -- a[n-3], a[n-2], a[n-1] = a[n-1], a[n-3], a[n-2]
            let a ← set s.a (n - 3) z
            let a ← set a (n - 2) x
            set a (n - 1) y
          else do
            -- a[n-3], a[n-2], a[n-1] = a[n-2], a[n-1], a[n-3]
            let a ← set s.a (n - 3) y
            let a ← set a (n - 2) z
            set a (n - 1) x
        pure ({ s with a := a }, true)
      else
        let (a, b) ← Lex.scan n (n - 3).toNat s.a
        pure ({ s with a := a }, b)

def Lex.it : It Lex Sl := ⟨Lex.next, fun s => .ok (s, s.a)⟩

/-! ## TopologicalSorts (Algorithm V) -/

structure Topo where
  state : Sl
  inv : Sl
  n : Int
  first : Bool
  done : Bool
  deriving Repr

/-- `TopologicalSorts(n, less)` -/
def Topo.init (n : Int) : Outcome Topo := do
  let a ← iota n
  let b ← iota n
  pure ⟨a, b, n, true, false⟩

/-- `for j < k { l := state[j+1]; state[j] = l; invState[l] = j; j++ }` -/
def Topo.shift (k : Int) : Nat → Int → Sl → Sl → Outcome (Sl × Sl)
  | 0, _, _, _ => .outOfFuel
  | f+1, j, st, inv =>
    if j < k then do
      let l ← get st (j + 1)
      let st ← set st j l
      let inv ← set inv l j
      Topo.shift k f (j + 1) st inv
    else .ok (st, inv)

/-- `for k := n-1; k >= 0; k-- {...}`; argument = `k+1` -/
def Topo.scan (less : Int → Int → Bool) : Nat → Sl → Sl → Outcome (Sl × Sl × Bool)
  | 0, st, inv => .ok (st, inv, false)
  | k+1, st, inv => do
    let j ← get inv k
    let moved : Option (Sl × Sl) ←
      if j > 0 then do
        let l ← get st (j - 1)
        if !less l k then
          let st ← set st (j - 1) k
          let st ← set st j l
          let inv ← set inv k (j - 1)
          let inv ← set inv l j
          pure (some (st, inv))
        else pure none
      else pure none
    match moved with
    | some (st, inv) => pure (st, inv, true)
    | none =>
      let (st, inv) ← Topo.shift k (k + 2) j st inv
      let st ← set st k k
      let inv ← set inv k k
      Topo.scan less k st inv

/-- `(*TopologicalSortIterator).Next` -/
def Topo.next (less : Int → Int → Bool) (s : Topo) : Outcome (Topo × Bool) :=
  if s.first then .ok ({ s with first := false }, true)
  else if s.done then .ok (s, false)
  else do
    let (st, inv, b) ← Topo.scan less s.n.toNat s.state s.inv
    if b then pure ({ s with state := st, inv := inv }, true)
    else pure ({ s with state := st, inv := inv, done := true }, false)

/-- value = (`Value()`, `InverseValue()`) -/
def Topo.it (less : Int → Int → Bool) : It Topo (Sl × Sl) :=
  ⟨Topo.next less, fun s => .ok (s, (s.state, s.inv))⟩

/-! ## RestrictedPrefixPermutations (Algorithm X) -/

structure RPP where
  n : Int
  a : Option Sl
  l : Sl
  u : Sl
  done : Bool
  deriving Repr

/-- `RestrictedPrefixPermutations(n, f)` -/
def RPP.init (n : Int) : Outcome RPP :=
  if n < 0 then .panic
  else do
    -- l[i] = i+1 for i < n, l[n] = 0
    let l : Sl := (List.range n.toNat).map (fun (i : Nat) => (i : Int) + 1) ++ [0]
    let u ← make n
    pure ⟨n, none, l, u, false⟩

inductive RPP.Lbl where
  | x2 | x3 | x5 | x6

/-- the `goto` machine of `Next`; local variables `k p q`, arrays `a l u`. Result: arrays and
`some true` = `return true`, `some false` = exhausted (`done = true; return false`). -/
def RPP.run (f : List Int → Bool) (n : Int) :
    Nat → RPP.Lbl → Int → Int → Int → Sl → Sl → Sl → Outcome (Sl × Sl × Sl × Bool)
  | 0, _, _, _, _, _, _, _ => .outOfFuel
  | fuel+1, .x2, k, _, _, a, l, u => do
    -- p = n; q = l[n]
    let q ← get l n
    RPP.run f n fuel .x3 k n q a l u
  | fuel+1, .x3, k, p, q, a, l, u => do
    let a ← set a k q
    -- a[:k+1]
    if k + 1 < 0 ∨ (k + 1).toNat > a.length then .panic
    else if !f (a.take (k + 1).toNat) then RPP.run f n fuel .x5 k p q a l u
    else if k == n - 1 then pure (a, l, u, true)
    else
      let u ← set u k p
      let lq ← get l q
      let l ← set l p lq
      RPP.run f n fuel .x2 (k + 1) p q a l u
  | fuel+1, .x5, k, _, q, a, l, u => do
    -- p = q; q = l[p]
    let p := q
    let q ← get l p
    if q != n then RPP.run f n fuel .x3 k p q a l u
    else RPP.run f n fuel .x6 k p q a l u
  | fuel+1, .x6, k, _, _, a, l, u =>
    let k := k - 1
    if k < 0 then .ok (a, l, u, false)
    else do
      let p ← get u k
      let q ← get a k
      let l ← set l p q
      RPP.run f n fuel .x5 k p q a l u

/-- fuel for one `Next`: every label visit is charged to a node of the search tree (at most
`∑_{d ≤ n} n!/(n-d)! ≤ 3·n!` nodes, a constant number of visits per node). -/
def RPP.fuel (n : Int) : Nat := 16 * (List.range (n.toNat + 1)).foldl (fun acc i => acc * (i + 1)) 1 + 16

/-- `(*RestrictedPrefixPermutationIterator).Next` -/
def RPP.next (f : List Int → Bool) (s : RPP) : Outcome (RPP × Bool) :=
  match s.a with
  | none => do
    let a ← make s.n
    if s.n == 0 then pure ({ s with a := some a }, true)
    else
      let (a, l, u, b) ← RPP.run f s.n (RPP.fuel s.n) .x2 0 0 0 a s.l s.u
      pure ({ s with a := some a, l := l, u := u, done := !b }, b)
  | some a =>
    if s.done then .ok (s, false)
    else do
      let (a, l, u, b) ← RPP.run f s.n (RPP.fuel s.n) .x6 (s.n - 1) 0 0 a s.l s.u
      pure ({ s with a := some a, l := l, u := u, done := !b }, b)

def RPP.it (f : List Int → Bool) : It RPP Sl := ⟨RPP.next f, fun s => .ok (s, s.a.getD [])⟩

/-! ## PermutationsByPattern -/

structure Pat where
  n : Int
  a : Option Sl
  first : Bool
  deriving Repr

def Pat.init (n : Int) : Pat := ⟨n, none, false⟩

inductive Pat.Lbl where
  | x1 | x2 | x3

/-- `for i := range a { if a[i] == x-1 { a[i]++; break } }` -/
def Pat.bump (x : Int) : Sl → Sl
  | [] => []
  | v :: r => if v == x - 1 then (v + 1) :: r else v :: Pat.bump x r

/-- the `goto` machine of `Next` on the slice `a` -/
def Pat.run (f : List Int → Bool) (n : Int) : Nat → Pat.Lbl → Sl → Outcome (Sl × Bool)
  | 0, _, _ => .outOfFuel
  | fuel+1, .x1, a => Pat.run f n fuel .x2 (a ++ [(a.length : Int)])
  | fuel+1, .x2, a =>
    if f a then
      if (a.length : Int) == n then .ok (a, true)
      else Pat.run f n fuel .x1 a
    else Pat.run f n fuel .x3 a
  | fuel+1, .x3, a =>
    if a.length == 0 then .ok (a, false)
    else do
      let x ← get a ((a.length : Int) - 1)
      if x == 0 then
        -- a = a[:len(a)-1]; every remaining entry is > 0 = x ... `if a[i] > x { a[i]-- }`
        let a := a.dropLast
        let a := a.map (fun v => if v > x then v - 1 else v)
        Pat.run f n fuel .x3 a
      else
        let a := Pat.bump x a
        let last ← get a ((a.length : Int) - 1)
        let a ← set a ((a.length : Int) - 1) (last - 1)
        Pat.run f n fuel .x2 a

def Pat.fuel (n : Int) : Nat := 16 * (List.range (n.toNat + 1)).foldl (fun acc i => acc * (i + 1)) 1 + 16

/-- `(*PermutationsByPatternIterator).Next` -/
def Pat.next (f : List Int → Bool) (s : Pat) : Outcome (Pat × Bool) :=
  let firstCall := match s.a with
    | none => true
    | some _ => s.first
  if firstCall then
    if s.n < 0 then .panic   -- make([]int, 0, n)
    else if s.n == 0 then .ok ({ s with a := some [], first := false }, true)
    else do
      let (a, b) ← Pat.run f s.n (Pat.fuel s.n) .x1 []
      pure ({ s with a := some a, first := false }, b)
  else do
    let (a, b) ← Pat.run f s.n (Pat.fuel s.n) .x3 (s.a.getD [])
    pure ({ s with a := some a }, b)

def Pat.it (f : List Int → Bool) : It Pat Sl := ⟨Pat.next f, fun s => .ok (s, s.a.getD [])⟩

end Iter
