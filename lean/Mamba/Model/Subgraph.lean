import Mamba.Basic
import Mamba.Spec.Graph
import Mamba.Model.Components
import Mamba.Model.Bicon
/-!
# Faithful models (pattern F) of `graph/subgraph.go`: `NumberOfInducedPaths`, `NumberOfInducedCycles`, `NumberOfCycles`

Statement by statement after the Go code. The `sortints` set operations on sorted duplicate-free slices are the
list functions `sMinus`, `sUnion`, `sAdd`, `sInter`, `sRemove`, `sXor`, `sContains` below (same values on sorted
duplicate-free inputs); `toCheck` (a slice used as a stack) is a `List` with the top at the head; a partial path
`p.p` is kept in reverse (head = `p.p[len(p.p)-1]`); `InducedSubgraph(g, com)` is `g.induced com`; the result
slice `r` is an `Array Nat` with bounds-checked updates. The stack loops take fuel.
-/
namespace GDist.Model
open GraphSpec

/-! ## `sortints` -/

/-- `sortints.SetMinus(a, b)` -/
def sMinus (a b : List Nat) : List Nat := a.filter fun x => !b.contains x
/-- `sortints.Intersection(a, b)` -/
def sInter (a b : List Nat) : List Nat := a.filter fun x => b.contains x
/-- `(*SortedInts).Remove(x)` -/
def sRemove (a : List Nat) (x : Nat) : List Nat := a.filter fun y => y != x
/-- `(*SortedInts).Add(x)` -/
def sAdd : List Nat → Nat → List Nat
  | [], x => [x]
  | y :: ys, x => if x < y then x :: y :: ys else if x = y then y :: ys else y :: sAdd ys x
/-- `sortints.Union(a, b)` (merge without duplicates) -/
def sUnion : List Nat → List Nat → List Nat
  | [], b => b
  | a, [] => a
  | x :: a, y :: b =>
    if x < y then x :: sUnion a (y :: b)
    else if y < x then y :: sUnion (x :: a) b
    else x :: sUnion a b
termination_by a b => a.length + b.length
/-- `sortints.XOR(a, b)` (symmetric difference by merging) -/
def sXor : List Nat → List Nat → List Nat
  | [], b => b
  | a, [] => a
  | x :: a, y :: b =>
    if x < y then x :: sXor a (y :: b)
    else if y < x then y :: sXor (x :: a) b
    else sXor a b
termination_by a b => a.length + b.length
/-- `sortints.ContainsSorted(a, b)`: `b ⊆ a`, by the merge loop of the Go code -/
def sContains : List Nat → List Nat → Bool
  | _, [] => true                                   -- return j >= len(b)
  | [], _ :: _ => false
  | x :: a, y :: b =>
    if x = y then sContains a b
    else if x > y then false
    else sContains a (y :: b)

/-! ## NumberOfInducedPaths -/

structure IPath where
  p : List Nat          -- reversed
  length : Nat
  banned : List Nat

/-- `for len(toCheck) > 0` of `NumberOfInducedPaths` -/
def ipLoop (h : G) (maxLength : Int) : Nat → List IPath → Array Nat → Outcome (Array Nat)
  | 0, _, _ => .outOfFuel
  | _+1, [], r => .ok r
  | f+1, p :: st, r =>
    match p.p with
    | [] => .panic                                        -- p.p[len(p.p)-1]
    | last :: _ =>
      let options := sMinus (h.nbrs last) p.banned
      if options.length = 0 then ipLoop h maxLength f st r
      else if hi : p.length + 1 < r.size then
        let r' := r.set (p.length + 1) (r[p.length + 1] + options.length)
        if (p.length : Int) ≥ maxLength - 1 then ipLoop h maxLength f st r'
        else
          let children := options.map fun v =>
            ({ p := v :: p.p, length := p.length + 1, banned := sAdd (sUnion p.banned (h.nbrs last)) v } : IPath)
          ipLoop h maxLength f (children.reverse ++ st) r'
      else .panic

def ipStarts (h : G) (maxLength : Int) (fuel : Nat) : List Nat → Array Nat → Outcome (Array Nat)
  | [], r => .ok r
  | i :: is, r =>
    match ipLoop h maxLength fuel [{ p := [i], length := 0, banned := [i] }] r with
    | .ok r' => ipStarts h maxLength fuel is r'
    | .panic => .panic
    | .outOfFuel => .outOfFuel

def ipComps (g : G) (maxLength : Int) (fuel : Nat) : List (List Nat) → Array Nat → Outcome (Array Nat)
  | [], r => .ok r
  | com :: coms, r =>
    let h := g.induced com
    match ipStarts h maxLength fuel (List.range h.n) r with
    | .ok r' => ipComps g maxLength fuel coms r'
    | .panic => .panic
    | .outOfFuel => .outOfFuel

/-- default fuel of the path / cycle stack loops -/
def stackFuel (n : Nat) : Nat := (n + 2) ^ (n + 2)

/-- `NumberOfInducedPaths(g, maxLength)` -/
def numberOfInducedPaths (g : G) (maxLength : Int) (fuel : Nat := stackFuel g.n) : Outcome (List Nat) :=
  let n := g.n
  let maxLength := if maxLength < 0 ∨ maxLength > (n : Int) - 1 then (n : Int) - 1 else maxLength
  let r := Array.replicate n 0
  if n = 0 then .ok r.toList
  else
    match connectedComponents g with
    | .ok com =>
      match ipComps g maxLength fuel com r with
      | .ok r =>
        -- for i := 1; i < len(r); i++ { r[i] /= 2 };  r[0] = n
        .ok ((List.range n).map fun i => if i = 0 then n else r.getD i 0 / 2)
      | .panic => .panic
      | .outOfFuel => .outOfFuel
    | .panic => .panic
    | .outOfFuel => .outOfFuel

/-! ## NumberOfInducedCycles -/

structure ICyc where
  p : List Nat          -- reversed
  length : Nat
  allowedEnds : List Nat
  banned : List Nat

def icLoop (h : G) (maxLength : Int) : Nat → List ICyc → Array Nat → Outcome (Array Nat)
  | 0, _, _ => .outOfFuel
  | _+1, [], r => .ok r
  | f+1, p :: st, r =>
    match p.p with
    | [] => .panic
    | last :: _ =>
      let r1 : Outcome (Array Nat) :=
        if p.length > 0 then
          let numCycles := (sInter (h.nbrs last) p.allowedEnds).length
          if hi : p.length + 2 < r.size then .ok (r.set (p.length + 2) (r[p.length + 2] + numCycles)) else .panic
        else .ok r
      match r1 with
      | .ok r' =>
        if (p.length : Int) ≥ maxLength - 2 then icLoop h maxLength f st r'
        else
          let options := sMinus (h.nbrs last) p.banned
          let children := options.map fun v =>
            ({ p := v :: p.p, length := p.length + 1,
               allowedEnds := if p.length > 0 then sMinus p.allowedEnds (h.nbrs last) else sRemove p.allowedEnds v,
               banned := sAdd (sUnion p.banned (h.nbrs last)) v } : ICyc)
          icLoop h maxLength f (children.reverse ++ st) r'
      | .panic => .panic
      | .outOfFuel => .outOfFuel

def icStarts (h : G) (maxLength : Int) (fuel : Nat) : List Nat → Array Nat → Outcome (Array Nat)
  | [], r => .ok r
  | i :: is, r =>
    match icLoop h maxLength fuel [{ p := [i], length := 0, allowedEnds := h.nbrs i, banned := [i] }] r with
    | .ok r' => icStarts h maxLength fuel is r'
    | .panic => .panic
    | .outOfFuel => .outOfFuel

def icComps (g : G) (maxLength : Int) (fuel : Nat) : List (List Nat) → Array Nat → Outcome (Array Nat)
  | [], r => .ok r
  | com :: coms, r =>
    let h := g.induced com
    match icStarts h maxLength fuel (List.range h.n) r with
    | .ok r' => icComps g maxLength fuel coms r'
    | .panic => .panic
    | .outOfFuel => .outOfFuel

/-- `NumberOfInducedCycles(g, maxLength)` -/
def numberOfInducedCycles (g : G) (maxLength : Int) (fuel : Nat := stackFuel g.n) : Outcome (List Nat) :=
  let n := g.n
  let maxLength := if maxLength < 0 ∨ maxLength > (n : Int) then (n : Int) else maxLength
  let r := Array.replicate (n + 1) 0
  match connectedComponents g with
  | .ok com =>
    match icComps g maxLength fuel com r with
    | .ok r =>
      -- for i := 1; i < len(r); i++ { r[i] /= 2 * i }
      .ok ((List.range (n + 1)).map fun i => if i = 0 then r.getD 0 0 else r.getD i 0 / (2 * i))
    | .panic => .panic
    | .outOfFuel => .outOfFuel
  | .panic => .panic
  | .outOfFuel => .outOfFuel

/-! ## NumberOfCycles (Paton's fundamental cycles + Gibbs' algorithm) -/

/-- the edge `{a, b}` as `(max*(max-1))/2 + min` -/
def edgeCode (a b : Nat) : Nat := if a < b then (b * (b - 1)) / 2 + a else (a * (a - 1)) / 2 + b

structure PatonSt where
  removed : List (Nat × Nat)       -- edges removed from the working copy `h`
  T : Array Int
  depth : Array Nat
  X : List Nat                     -- stack, top at the head
  fund : List (List Nat)

def edgeRemoved (rm : List (Nat × Nat)) (u v : Nat) : Bool := rm.contains (u, v) || rm.contains (v, u)

/-- `for i := 2; i < length; i++ { ... previous = T[previous] }` -/
def patonBack (T : Array Int) : Nat → Nat → List Nat → Outcome (List Nat)
  | 0, _, acc => .ok acc
  | k+1, previous, acc =>
    if hp : previous < T.size then
      let tp := T[previous]
      if tp < 0 then .panic                                -- T[previous] = -1 used as an index
      else
        let tpn := tp.toNat
        patonBack T k tpn (acc ++ [edgeCode previous tpn])
    else .panic

/-- `for _, u := range h.Neighbours(v)` of the spanning-tree phase -/
def patonScan (v : Nat) : List Nat → PatonSt → Outcome PatonSt
  | [], st => .ok st
  | u :: us, st =>
    if hu : u < st.T.size then
      if st.T[u] ≠ -1 then
        let tu := st.T[u].toNat
        if hv : v < st.depth.size then
          if htu : tu < st.depth.size then
            -- length := depth[v] - depth[T[u]] + 2
            let lenI : Int := (st.depth[v] : Int) - (st.depth[tu] : Int) + 2
            if lenI < 2 then .panic                       -- make([]int, length) / cycle[1] out of range
            else
              let length := lenI.toNat
              match patonBack st.T (length - 2) v [edgeCode u tu, edgeCode u v] with
              | .ok cyc =>
                patonScan v us { st with fund := st.fund ++ [sortInts cyc], removed := (u, v) :: st.removed }
              | .panic => .panic
              | .outOfFuel => .outOfFuel
          else .panic
        else .panic
      else
        if hd : u < st.depth.size then
          if hv : v < st.depth.size then
            patonScan v us { st with T := st.T.set u (v : Int), X := u :: st.X,
                                     depth := st.depth.set u (st.depth[v] + 1),
                                     removed := (u, v) :: st.removed }
          else .panic
        else .panic
    else .panic

/-- `for len(X) > 0` -/
def patonLoop (a : G) : Nat → PatonSt → Outcome PatonSt
  | 0, _ => .outOfFuel
  | f+1, st =>
    match st.X with
    | [] => .ok st
    | v :: X =>
      let nb := (a.nbrs v).filter fun u => !edgeRemoved st.removed u v
      match patonScan v nb { st with X := X } with
      | .ok st' => patonLoop a f st'
      | .panic => .panic
      | .outOfFuel => .outOfFuel

/-- Gibbs step 3: `for j := len(R) - 1; j >= 0; j--`; first argument `j + 1` -/
def gibbsStep3 : Nat → Array (List Nat) → List (List Nat) → Outcome (Array (List Nat) × List (List Nat))
  | 0, R, P => .ok (R, P)
  | j+1, R, P =>
    if hj : j < R.size then
      let V := R[j]
      -- for k := 0; k < len(R); k++ { if k == j continue; if ContainsSorted(V, R[k]) {...; break} }
      let hit := (List.range R.size).any fun k => k != j && sContains V (R.getD k [])
      if hit then
        let R' := (R.set j (R[R.size - 1]'(by omega))).pop
        gibbsStep3 j R' (P ++ [V])
      else gibbsStep3 j R P
    else .panic

structure GibbsSt where
  S : List (List Nat)
  Q : List (List Nat)

/-- `for i := 1; i < len(fundCycles); i++` -/
def gibbsLoop : List (List Nat) → GibbsSt → Outcome GibbsSt
  | [], st => .ok st
  | fc :: fcs, st =>
    -- step 2
    let tmps := st.Q.map fun t => (t, sXor t fc)
    let R := (tmps.filter fun (t, tmp) => tmp.length != t.length + fc.length).map (·.2)
    let Q' := st.Q ++ tmps.map (·.2)
    -- step 3
    match gibbsStep3 R.length R.toArray [] with
    | .ok (R', _) =>
      -- step 4
      gibbsLoop fcs { S := st.S ++ R'.toList ++ [fc], Q := Q' ++ [fc] }
    | .panic => .panic
    | .outOfFuel => .outOfFuel

/-- the body of `for _, bicom := range bicoms` -/
def cyclesOfBlock (g : G) (bicom : List Nat) (found : Array Nat) : Outcome (Array Nat) :=
  let a := g.induced bicom
  let n := a.n
  if n < 3 then .ok found
  else
    let T : Array Int := (Array.replicate n (-1)).setIfInBounds 0 0
    match patonLoop a (n + 1) { removed := [], T := T, depth := Array.replicate n 0, X := [0], fund := [] } with
    | .ok st =>
      match st.fund with
      | [] => .ok found
      | f0 :: fs =>
        match gibbsLoop fs { S := [f0], Q := [f0] } with
        | .ok gs =>
          gs.S.foldlM (fun (acc : Array Nat) (V : List Nat) =>
            if h : V.length < acc.size then Outcome.ok (acc.set V.length (acc[V.length] + 1)) else .panic) found
        | .panic => .panic
        | .outOfFuel => .outOfFuel
    | .panic => .panic
    | .outOfFuel => .outOfFuel

/-- `NumberOfCycles(g)` -/
def numberOfCycles (g : G) : Outcome (List Nat) :=
  let n := g.n
  let found := Array.replicate (n + 1) 0
  if n = 0 then .ok found.toList
  else
    match biconnectedComponents g with
    | .ok (bicoms, _) =>
      match bicoms.foldlM (fun acc b => cyclesOfBlock g b acc) found with
      | .ok r => .ok r.toList
      | .panic => .panic
      | .outOfFuel => .outOfFuel
    | .panic => .panic
    | .outOfFuel => .outOfFuel

end GDist.Model
