import Mamba.Basic
/-!
# Model of `disjoint/disjoint_set.go` (property C18)

`Set` is `[]int`: `ds[x] < 0` means `x` is a root of rank `-ds[x]-1`; otherwise `ds[x]` is the parent.
The model follows the Go code statement by statement. Slices become `Array Int`; a Go index
expression on an out-of-range index becomes `Outcome.panic`; the unbounded `for` loop of `Find`
takes a fuel argument (theorem `find_terminates` in `Props/C18.lean`: the fuel `size + 1` used by `find` suffices).
`Find` and `FindBuffered` run the same statements (the buffer only provides storage for
`seenNumbers`), so both are modelled by `find`; likewise `Union`/`UnionBuffered` by `union`.
-/
namespace Disjoint

abbrev DS := Array Int

/-- `disjoint.New(n)` -/
def new (n : Nat) : DS := Array.replicate n (-1)

/-- The loop of `Find`: `seen` is `seenNumbers` reversed (head = last element). -/
def walk (ds : DS) : Nat → Nat → List Nat → Outcome (List Nat)
  | 0, _, _ => .outOfFuel
  | f+1, cur, seen =>
    match ds[cur]? with
    | none => .panic
    | some v => if v < 0 then .ok seen else walk ds f v.toNat (v.toNat :: seen)

/-- `for i := 0; i < len(seen)-2; i++ { ds[seen[i]] = tmp }` -/
def compress (ds : DS) (tmp : Nat) (xs : List Nat) : DS :=
  xs.foldl (fun d s => d.setIfInBounds s (tmp : Int)) ds

/-- `Find` / `FindBuffered`: returns the updated array and the representative. -/
def findF (fuel : Nat) (ds : DS) (x : Nat) : Outcome (DS × Nat) :=
  match ds[x]? with
  | none => .panic
  | some v =>
    if v < 0 then .ok (ds, x)
    else
      match walk ds fuel x [x] with
      | .ok seen =>
        match seen with
        | [] => .panic
        | tmp :: rest => .ok (compress ds tmp (rest.drop 1).reverse, tmp)
      | .panic => .panic
      | .outOfFuel => .outOfFuel

def find (ds : DS) (x : Nat) : Outcome (DS × Nat) := findF (ds.size + 1) ds x

/-- The rank comparison and linking at the end of `Union` (`px`, `py` are roots). -/
def link (ds : DS) (px py : Nat) : Outcome DS :=
  if px = py then .ok ds
  else
    match ds[px]?, ds[py]? with
    | some a, some b =>
      if a < b then .ok (ds.setIfInBounds py (px : Int))
      else if b < a then .ok (ds.setIfInBounds px (py : Int))
      else .ok ((ds.setIfInBounds px (py : Int)).setIfInBounds py (b - 1))
    | _, _ => .panic

/-- `Union` / `UnionBuffered` -/
def union (ds : DS) (x y : Nat) : Outcome DS :=
  match find ds x with
  | .ok (d1, px) =>
    match find d1 y with
    | .ok (d2, py) => link d2 px py
    | .panic => .panic
    | .outOfFuel => .outOfFuel
  | .panic => .panic
  | .outOfFuel => .outOfFuel

/-- `SmallestRep`: for each `i`, scan `j < i` for the first `j` with `Find(i) == Find(j)`. -/
def smallestRepInner (i : Nat) (sr : Array Nat) : Nat → Nat → DS → Outcome (DS × Nat)
  | 0, _, ds => .ok (ds, i)
  | k+1, j, ds =>
    match find ds i with
    | .ok (d1, ri) =>
      match find d1 j with
      | .ok (d2, rj) =>
        if ri = rj then .ok (d2, sr.getD j 0) else smallestRepInner i sr k (j+1) d2
      | .panic => .panic
      | .outOfFuel => .outOfFuel
    | .panic => .panic
    | .outOfFuel => .outOfFuel

def smallestRepLoop : Nat → Nat → DS → Array Nat → Outcome (DS × Array Nat)
  | 0, _, ds, sr => .ok (ds, sr)
  | k+1, i, ds, sr =>
    match smallestRepInner i sr i 0 ds with
    | .ok (d, v) => smallestRepLoop k (i+1) d (sr.push v)
    | .panic => .panic
    | .outOfFuel => .outOfFuel

def smallestRep (ds : DS) : Outcome (DS × Array Nat) := smallestRepLoop ds.size 0 ds #[]

/-- `Sets`: append `i` to the first set whose first element has the same representative. -/
def setsInner (i : Nat) : List (List Nat) → DS → Outcome (DS × Option (List (List Nat)))
  | [], ds => .ok (ds, none)
  | s :: rest, ds =>
    match find ds i with
    | .ok (d1, ri) =>
      match s with
      | [] => .panic
      | h :: _ =>
        match find d1 h with
        | .ok (d2, rh) =>
          if ri = rh then .ok (d2, some ((s ++ [i]) :: rest))
          else
            match setsInner i rest d2 with
            | .ok (d3, some r) => .ok (d3, some (s :: r))
            | .ok (d3, none) => .ok (d3, none)
            | .panic => .panic
            | .outOfFuel => .outOfFuel
        | .panic => .panic
        | .outOfFuel => .outOfFuel
    | .panic => .panic
    | .outOfFuel => .outOfFuel

def setsLoop : Nat → Nat → DS → List (List Nat) → Outcome (DS × List (List Nat))
  | 0, _, ds, sets => .ok (ds, sets)
  | k+1, i, ds, sets =>
    match setsInner i sets ds with
    | .ok (d, some s') => setsLoop k (i+1) d s'
    | .ok (d, none) => setsLoop k (i+1) d (sets ++ [[i]])
    | .panic => .panic
    | .outOfFuel => .outOfFuel

def sets (ds : DS) : Outcome (DS × List (List Nat)) := setsLoop ds.size 0 ds []

/-- `Roots` -/
def roots (ds : DS) : List Nat :=
  (List.range ds.size).filter (fun i => ds.getD i 0 < 0)

/-- Operations of a history. -/
inductive Op where
  | union (x y : Nat)   -- Union or UnionBuffered
  | find (x : Nat)      -- Find or FindBuffered
  deriving Repr, DecidableEq

def step (ds : DS) : Op → Outcome DS
  | .union x y => union ds x y
  | .find x => match find ds x with
    | .ok (d, _) => .ok d
    | .panic => .panic
    | .outOfFuel => .outOfFuel

def run : List Op → DS → Outcome DS
  | [], ds => .ok ds
  | o :: os, ds => match step ds o with
    | .ok d => run os d
    | .panic => .panic
    | .outOfFuel => .outOfFuel

end Disjoint
