import Mamba.Model.DsaturGo
import Mamba.Model.Construct
/-!
# C09 — faithful model (pattern F) of `graph.ChromaticIndex` (graph/colouring.go)

`h := LineGraphDense(g)` (the C06 model `Construct.lineGraphDense`, run on the interface view of `g`), then
`ChromaticNumber(h)` (the DSATUR model), then the loop that writes `byte(colouring[colouringIndex] + 1)` at the position of
every edge of `g` in DenseGraph order (0 on non-edges). `byte(·)` is the Go conversion to `uint8`: reduction modulo 256.
-/
namespace CliqueColour
open GraphSpec

/-- `for j := 1; j < n; j++ { for i := 0; i < j; i++ { if g.IsEdge(i, j) { colouredEdges[index] = byte(colouring[colouringIndex] + 1);
colouringIndex++ }; index++ } }` over the remaining pairs; `acc` is the part of `colouredEdges` written so far, reversed -/
def ciFill (g : G) (colouring : List Int) : List (Nat × Nat) → Nat → List Nat → Outcome (List Nat)
  | [], _, acc => .ok acc.reverse
  | (i, j) :: rest, ci, acc =>
    if g.adj i j then
      match colouring[ci]? with
      | none => .panic
      | some c => ciFill g colouring rest (ci + 1) (((c + 1) % 256).toNat :: acc)
    else ciFill g colouring rest ci (0 :: acc)

/-- `graph.ChromaticIndex` -/
def chromaticIndexGo (g : G) : Outcome (Int × Option (List Nat)) :=
  match Construct.lineGraphDense (Construct.ofSpec g) with
  | .ok d =>
    match chromaticNumberGo d.abs with
    | .ok (ci, col) =>
      if ci == -1 then .ok (-1, none)
      else
        match col with
        | none => .panic
        | some colouring =>
          match ciFill g colouring (Construct.pairs g.n) 0 [] with
          | .ok b => .ok (ci, some b)
          | .panic => .panic
          | .outOfFuel => .outOfFuel
    | .panic => .panic
    | .outOfFuel => .outOfFuel
  | .panic => .panic
  | .outOfFuel => .outOfFuel

end CliqueColour
