import Mamba.Basic
import Mamba.Gen.TspConsts
/-!
# Model of `tsp/tsplib.go` (`tsp.LIB`, property C20)

```go
func LIB(w io.Writer, n int, weights func(i, j int) int) (err error)
```

## The underlying writer

`w` is modelled by a *fault function* `faults : Nat → WriteResult`: the answer of the `k`-th `Write` call
(`k = 0, 1, …`, counted over the whole run of `LIB`).  A permanent failure is a fault function that fails at
every index from some point on, a transient one fails at a single index.  The state `W` of the writer is the
number of `Write` calls received so far and the bytes it accepted (`out`, in order).

* `ok`          – all bytes accepted, `nil` error;
* `err c`       – `min c len` bytes accepted, non-nil error (`c = 0`: plain failure, `0 < c < len`: short count);
* `shortNil c`  – `min c len` bytes accepted, `nil` error.  For `c < len` this breaks the `io.Writer` contract
  ("Write must return a non-nil error if it returns n < len(p)").  It is modelled because the code reacts to it
  differently in different places: `io.WriteString` and `fmt.Fprintf` hand `(n, nil)` through, so the three header
  writes and the `EOF` write do **not** notice it; `tabwriter.write0` turns it into `io.ErrShortWrite`.

Bytes are `Char`s (the output is ASCII: decimal digits, `-`, upper-case letters, `_`, `:`, space, newline).

## Constants regenerated from the source

`Mamba/Gen/TspConsts.lean` is rewritten from `tsp/tsplib.go` on every run (`extract/c20.go`).  The model reads from
it: the text written before the weight section, one entry per write call (`hdrWrites`; the partition into calls
follows the code, every call is assumed to be followed by `if err != nil { return err }` — the fault stream checks
that), the text written after it (`trailerWrites`), and the arguments of `tabwriter.NewWriter`: `minwidth`,
`padding`, `padChar`, `alignRight` (tabwidth is only used by the tabwriter when padchar is a tab, which the model does
not support; of the other flags only `Debug` would change the output for this input, it is not modelled either).
Where the extractor does not recognise an item (`Gen.Tsp.found_* = false`, e.g. the weight section is aligned by hand
instead of by a tabwriter) the model keeps its hand-written value; the exact-bytes stream ties it to the code.

## text/tabwriter

Modelled for `NewWriter(w, minwidth, tabwidth, padding, padchar, flags)` with the generated constants (today
`0, 1, 1, ' ', AlignRight`), padchar not a tab, flags `0` or `AlignRight`, and for text that contains no `\v`,
`\f`, `0xff` (Escape) (`<`, `&` are ordinary because `FilterHTML` is off).  The model follows `tabwriter.go` (go1.23):

* `Write` splits the text into cells at `\t` and `\n`; a `\n` that terminates a line with exactly one cell
  flushes (`twWriteChar`); everything else is buffered, so `Write` on the tabwriter cannot fail before `Flush`;
* `format` (recursive over columns, column blocks = maximal runs of consecutive lines that have a
  tab-terminated cell in the column; width = max cell width in the block + padding; the last cell of a line is not
  part of a column) and `writeLines` are modelled as *pure* functions producing the list of `Chunk`s that
  `write0` would pass to the underlying writer, one chunk per `Write` call: padding goes out in pieces of at
  most 8 bytes (`writeN` over the 8-byte `padbytes`, the last piece is written even when it is empty), then the
  cell text, a `"\n"` per line, and a final empty `Write` for the (empty) text after the last line break;
* `write0` panics with `osError` on the first failing or short `Write`; `Flush` recovers it and returns the
  error: `writeAll0` stops at the first failing chunk.

`fmt.Fprintf(tw, "%d\t", x)` formats into a buffer and calls `tw.Write` once; `%d` is `decInt`.
-/
namespace Tsp

/-! ### the underlying writer -/

inductive WriteResult where
  | ok
  | err (c : Nat)
  | shortNil (c : Nat)
  deriving Repr, DecidableEq, Inhabited

/-- the two error values that can come out of `LIB`: the writer's own error, or `io.ErrShortWrite` -/
inductive Err where
  | writer
  | shortWrite
  deriving Repr, DecidableEq, Inhabited

structure W where
  calls : Nat
  out : List Char
  deriving Repr, DecidableEq

/-- one `w.Write(p)`: new state, returned count, returned error -/
def write (faults : Nat → WriteResult) (s : W) (p : List Char) : W × Nat × Option Err :=
  match faults s.calls with
  | .ok => (⟨s.calls + 1, s.out ++ p⟩, p.length, none)
  | .err c => (⟨s.calls + 1, s.out ++ p.take c⟩, min c p.length, some .writer)
  | .shortNil c => (⟨s.calls + 1, s.out ++ p.take c⟩, min c p.length, none)

/-- `tabwriter.(*Writer).write0`: `n != len(buf) && err == nil` becomes `io.ErrShortWrite`; an error panics
(`osError`), which ends the flush: the `some` result is that panic. -/
def write0 (faults : Nat → WriteResult) (s : W) (p : List Char) : W × Option Err :=
  match write faults s p with
  | (s', _, some e) => (s', some e)
  | (s', n, none) => if n ≠ p.length then (s', some .shortWrite) else (s', none)

/-! ### generated constants -/

/-- `minwidth` argument of `tabwriter.NewWriter` (the hand-written value when the call was not found in the source) -/
def minwidth : Nat := match Gen.Tsp.found_tabwriter with | true => Gen.Tsp.twMinwidth | false => 0
/-- `padding` argument -/
def padding : Nat := match Gen.Tsp.found_tabwriter with | true => Gen.Tsp.twPadding | false => 1
/-- `padchar` argument -/
def padChar : Char := match Gen.Tsp.found_tabwriter with | true => Gen.Tsp.twPadchar | false => ' '
/-- `flags & AlignRight != 0` -/
def alignRight : Bool := match Gen.Tsp.found_tabwriter with | true => Gen.Tsp.twAlignRight | false => true

/-- the write calls before the weight section: `some s` literal text, `none` the dimension (`%d`) -/
def hdrSegs : List (List (Option String)) :=
  match Gen.Tsp.found_header with
  | true => Gen.Tsp.hdrWrites
  | false => [[some "TYPE: TSP\n"], [some "DIMENSION: ", none, some "\n"],
      [some "DISPLAY_DATA_TYPE: NO_DISPLAY\nEDGE_WEIGHT_TYPE: EXPLICIT\nEDGE_WEIGHT_FORMAT: LOWER_DIAG_ROW\nEDGE_WEIGHT_SECTION\n"]]

/-- all header text before / after the dimension -/
def hdrBeforeN : String := match Gen.Tsp.found_header with | true => Gen.Tsp.hdrBeforeN | false => "TYPE: TSP\nDIMENSION: "
def hdrAfterN : String :=
  match Gen.Tsp.found_header with
  | true => Gen.Tsp.hdrAfterN
  | false => "\nDISPLAY_DATA_TYPE: NO_DISPLAY\nEDGE_WEIGHT_TYPE: EXPLICIT\nEDGE_WEIGHT_FORMAT: LOWER_DIAG_ROW\nEDGE_WEIGHT_SECTION\n"

/-- the literal text of the write calls after the weight section -/
def trailerLits : List String := match Gen.Tsp.found_trailer with | true => Gen.Tsp.trailerWrites | false => ["EOF\n"]

/-! ### `%d` -/

def digitChar (d : Nat) : Char :=
  match d with
  | 0 => '0' | 1 => '1' | 2 => '2' | 3 => '3' | 4 => '4'
  | 5 => '5' | 6 => '6' | 7 => '7' | 8 => '8' | _ => '9'

def decNat (n : Nat) : List Char :=
  if _h : n < 10 then [digitChar n] else decNat (n / 10) ++ [digitChar (n % 10)]
decreasing_by omega

def decInt : Int → List Char
  | .ofNat m => decNat m
  | .negSucc m => '-' :: decNat (m + 1)

/-! ### text/tabwriter -/

/-- a terminated cell: its text (`buf[pos:pos+size]`; `size = width = text.length`) and whether a `\t` ended it -/
structure Cell where
  text : List Char
  htab : Bool
  deriving Repr, DecidableEq

/-- a line of cells; `last` marks the last buffered line (`i+1 == len(b.lines)` in `writeLines`) -/
structure Line where
  cells : List Cell
  last : Bool
  deriving Repr, DecidableEq

/-- one `write0` call of the tabwriter on the underlying writer -/
inductive Chunk where
  | pad (k : Nat)            -- `k ≤ 8` bytes of `padbytes`
  | text (s : List Char)     -- a cell's text
  | nl                       -- `newline`
  | tail                     -- `b.buf[pos:pos+b.cell.size]` of the last buffered line (always empty here)
  deriving Repr, DecidableEq

def Chunk.bytes : Chunk → List Char
  | .pad k => List.replicate k padChar
  | .text s => s
  | .nl => ['\n']
  | .tail => []

/-- `writeN(padbytes[0:], k)`: `for k > 8 { write0(8 bytes); k -= 8 }; write0(src[0:k])` -/
def padChunks (k : Nat) : List Chunk :=
  if _h : 8 < k then Chunk.pad 8 :: padChunks (k - 8) else [Chunk.pad k]
decreasing_by omega

/-- one cell of `writeLines`: an empty cell is only padded; a non-empty cell is text then padding (align left) or
padding then text (`AlignRight`); `pad = []` when there is no width for this cell (`j >= len(b.widths)`). -/
def writeCell (pad : List Chunk) (c : Cell) : List Chunk :=
  if c.text.length = 0 then pad
  else if alignRight then pad ++ [Chunk.text c.text] else Chunk.text c.text :: pad

/-- the cell loop of `writeLines` for one line: `ws` are the widths of the columns not yet consumed
(`b.widths[j:]`).  `writePadding(c.width, b.widths[j])` writes `b.widths[j] - c.width` pad bytes
(`lib_pad_never_truncated` in `Props/C20.lean`: the subtraction is never truncated in `lib`). -/
def writeCells : List Nat → List Cell → List Chunk
  | _, [] => []
  | [], c :: cs => writeCell [] c ++ writeCells [] cs
  | w :: ws, c :: cs => writeCell (padChunks (w - c.text.length)) c ++ writeCells ws cs

/-- one iteration of the line loop of `writeLines` -/
def writeLine (widths : List Nat) (l : Line) : List Chunk :=
  writeCells widths l.cells ++ [if l.last then Chunk.tail else Chunk.nl]

def writeLines (widths : List Nat) (ls : List Line) : List Chunk :=
  ls.flatMap (writeLine widths)

/-- `!(column >= len(line)-1)`: the line has a tab-terminated cell in `column` -/
def hasCell (column : Nat) (l : Line) : Bool := column + 1 < l.cells.length

/-- width of the cell in `column` plus `padding` -/
def cellW (column : Nat) (l : Line) : Nat :=
  match l.cells[column]? with
  | some c => c.text.length + padding
  | none => 0

/-- the width of a column block: `width := b.minwidth; if w := c.width + b.padding; w > width { width = w }` -/
def blockWidth (column : Nat) (blk : List Line) : Nat :=
  blk.foldl (fun w l => max w (cellW column l)) minwidth

/-- termination measure of `format` -/
def need (column : Nat) (ls : List Line) : Nat :=
  match ls with
  | [] => 0
  | l :: ls => (l.cells.length - column) + need column ls

theorem need_append (c : Nat) (a b : List Line) : need c (a ++ b) = need c a + need c b := by
  induction a with
  | nil => simp [need]
  | cons x xs ih => simp [need, ih]; omega

theorem need_succ_lt (c : Nat) (blk : List Line) (hne : blk ≠ []) (h : ∀ l ∈ blk, hasCell c l = true) :
    need (c + 1) blk < need c blk := by
  induction blk with
  | nil => exact absurd rfl hne
  | cons x xs ih =>
    have hx : c + 1 < x.cells.length := by simpa [hasCell] using h x (by simp)
    cases xs with
    | nil => simp [need]; omega
    | cons y ys =>
      have := ih (by simp) (fun l hl => h l (by simp [hl]))
      simp [need] at this ⊢; omega

theorem length_dropWhile_le {α : Type} (p : α → Bool) (l : List α) : (l.dropWhile p).length ≤ l.length := by
  have := congrArg List.length (List.takeWhile_append_dropWhile (p := p) (l := l))
  rw [List.length_append] at this; omega

theorem mem_takeWhile_sat {α : Type} (p : α → Bool) (l : List α) : ∀ x ∈ l.takeWhile p, p x = true := by
  induction l with
  | nil => simp
  | cons a as ih =>
    intro x hx
    by_cases ha : p a = true
    · simp [List.takeWhile, ha] at hx
      rcases hx with rfl | hx
      · exact ha
      · exact ih x hx
    · simp [List.takeWhile, ha] at hx

set_option linter.unusedVariables false in
/-- `format(pos, line0, line1)` on the lines `ls = b.lines[line0:line1]` with `widths = b.widths`
(`column = len(b.widths)`).  The `for this := line0; …` loop is unrolled as: the lines before the next block
(`pre`, printed by `writeLines(pos, line0, this)`), the block (`blk`, formatted recursively with the block's
width pushed), and the remaining lines (the loop continues with `line0 = this`, which is the same computation
as a fresh `format` on the remaining lines with the same widths; the `this++` of the `for` statement skips the
line that ended the block — it has no cell in this column, so it would only `continue`). -/
def format (widths : List Nat) (ls : List Line) : List Chunk :=
  let column := widths.length
  let pre := ls.takeWhile (fun l => !hasCell column l)
  let rest := ls.dropWhile (fun l => !hasCell column l)
  if h : rest = [] then writeLines widths pre
  else
    let blk := rest.takeWhile (hasCell column)
    let rest' := rest.dropWhile (hasCell column)
    writeLines widths pre ++ format (widths ++ [blockWidth column blk]) blk ++ format widths rest'
termination_by need widths.length ls + ls.length
decreasing_by
  all_goals simp_wf
  all_goals
    have hsplit := List.takeWhile_append_dropWhile (p := fun l => !hasCell widths.length l) (l := ls)
    have hsplit2 := List.takeWhile_append_dropWhile (p := hasCell widths.length)
      (l := ls.dropWhile (fun l => !hasCell widths.length l))
    have hhead := List.head_dropWhile_not (fun l => !hasCell widths.length l) h
    have hblk : (ls.dropWhile (fun l => !hasCell widths.length l)).takeWhile (hasCell widths.length) ≠ [] := by
      intro hnil
      cases hr : ls.dropWhile (fun l => !hasCell widths.length l) with
      | nil => exact h hr
      | cons a as =>
        simp [hr] at hhead
        simp [hr, hhead] at hnil
    have n1 := need_append widths.length (ls.takeWhile (fun l => !hasCell widths.length l))
      (ls.dropWhile (fun l => !hasCell widths.length l))
    have n2 := need_append widths.length
      ((ls.dropWhile (fun l => !hasCell widths.length l)).takeWhile (hasCell widths.length))
      ((ls.dropWhile (fun l => !hasCell widths.length l)).dropWhile (hasCell widths.length))
    rw [hsplit] at n1
    rw [hsplit2] at n2
    have l1 := congrArg List.length hsplit
    have l2 := congrArg List.length hsplit2
    simp only [List.length_append] at l1 l2
  · have := need_succ_lt widths.length _ hblk (mem_takeWhile_sat _ _)
    omega
  · have : 0 < ((ls.dropWhile (fun l => !hasCell widths.length l)).takeWhile (hasCell widths.length)).length :=
      List.length_pos_iff.mpr hblk
    omega

/-- state of the `tabwriter.Writer`: the incomplete cell, the finished lines, the cells of the current line
(`b.lines = done ++ [cur]`, `b.buf` = the concatenated texts). -/
structure TW where
  cell : List Char
  done : List (List Cell)
  cur : List Cell
  deriving Repr, DecidableEq

/-- `NewWriter` / `reset` -/
def TW.new : TW := ⟨[], [], []⟩

/-- `flushNoDefers` up to the `format` call: `if b.cell.size > 0 { terminateCell(false) }`, then all lines, the
last one marked. -/
def TW.lines (t : TW) : List Line :=
  let cur := if t.cell.length > 0 then t.cur ++ [⟨t.cell, false⟩] else t.cur
  t.done.map (fun c => ⟨c, false⟩) ++ [⟨cur, true⟩]

/-- the chunks `flushNoDefers` passes to `write0`, in order -/
def TW.flushChunks (t : TW) : List Chunk := format [] t.lines

/-- `write0` over a list of chunks, stopping at the first failure (the `osError` panic) -/
def writeAll0 (faults : Nat → WriteResult) (s : W) : List Chunk → W × Option Err
  | [] => (s, none)
  | c :: cs =>
    match write0 faults s c.bytes with
    | (s', some e) => (s', some e)
    | (s', none) => writeAll0 faults s' cs

/-- `(*Writer).Flush`: `flushNoDefers` under `handlePanic` (which resets the writer and returns the error) -/
def twFlush (faults : Nat → WriteResult) (t : TW) (s : W) : TW × W × Option Err :=
  let (s', e) := writeAll0 faults s t.flushChunks
  (TW.new, s', e)

/-- one byte of `(*Writer).Write` (outside escapes; `\v`, `\f`, Escape are not modelled — they do not occur).
`\t`: `terminateCell(true)`.  `\n`: `terminateCell(false)`, `addLine`, and if the finished line has exactly one
cell, `flushNoDefers`.  If that flush fails, Go leaves the writer un-reset (with stale `widths`); this state is
not modelled beyond "not reset" — `lib_rows_buffered` (`Props/C20.lean`) shows `lib` never flushes inside `Write`. -/
def twWriteChar (faults : Nat → WriteResult) (t : TW) (s : W) (ch : Char) : TW × W × Option Err :=
  if ch = '\t' then (⟨[], t.done, t.cur ++ [⟨t.cell, true⟩]⟩, s, none)
  else if ch = '\n' then
    let line := t.cur ++ [⟨t.cell, false⟩]
    let t' : TW := ⟨[], t.done ++ [line], []⟩
    if line.length = 1 then
      match writeAll0 faults s t'.flushChunks with
      | (s', none) => (TW.new, s', none)
      | (s', some e) => (t', s', some e)
    else (t', s, none)
  else (⟨t.cell ++ [ch], t.done, t.cur⟩, s, none)

/-- `(*Writer).Write(buf)`: the loop over `buf`; the first error ends the call (panic/recover) -/
def twWrite (faults : Nat → WriteResult) (t : TW) (s : W) : List Char → TW × W × Option Err
  | [] => (t, s, none)
  | ch :: rest =>
    match twWriteChar faults t s ch with
    | (t', s', none) => twWrite faults t' s' rest
    | (t', s', some e) => (t', s', some e)

/-! ### `LIB` -/

/-- one segment of a header write: literal text, or the dimension printed with `%d` -/
def segBytes (n : Nat) : Option String → List Char
  | some s => s.toList
  | none => decNat n

/-- the byte slices of the write calls before the weight section (today: `"TYPE: TSP\n"`, `"DIMENSION: n\n"`, and
the four remaining header lines in one call) -/
def hdrWrites (n : Nat) : List (List Char) := hdrSegs.map (fun segs => segs.flatMap (segBytes n))

/-- the byte slices of the write calls after `Flush` (today: `"EOF\n"`) -/
def trailerWrites : List (List Char) := trailerLits.map String.toList

/-- a sequence of `_, err = io.WriteString(w, …)` / `fmt.Fprintf(w, …)` calls, each followed by
`if err != nil { return err }`: stops at the first error -/
def writeAll (faults : Nat → WriteResult) (s : W) : List (List Char) → W × Option Err
  | [] => (s, none)
  | p :: ps =>
    match write faults s p with
    | (s', _, some e) => (s', some e)
    | (s', _, none) => writeAll faults s' ps

/-- loop state while the rows are written into the tabwriter: the tabwriter, the underlying writer, and the
recorded calls of `weights` (most recent last) -/
structure Loop where
  tw : TW
  w : W
  wcalls : List (Nat × Nat)
  deriving Repr, DecidableEq

/-- `for j := 0; j < i; j++ { fmt.Fprintf(tw, "%d\t", weights(i, j)) }` from `j` on, `k = i - j` iterations left.
The results of `Fprintf` are discarded by `LIB`. -/
def inner (faults : Nat → WriteResult) (weights : Nat → Nat → Int) (i : Nat) : Nat → Nat → Loop → Loop
  | 0, _, st => st
  | k + 1, j, st =>
    let x := weights i j
    let (t', s', _) := twWrite faults st.tw st.w (decInt x ++ ['\t'])
    inner faults weights i k (j + 1) ⟨t', s', st.wcalls ++ [(i, j)]⟩

/-- `for i := 0; i < n; i++ { inner; fmt.Fprint(tw, "0\t"); fmt.Fprint(tw, "\n") }` from `i` on, `k = n - i` left -/
def rows (faults : Nat → WriteResult) (weights : Nat → Nat → Int) : Nat → Nat → Loop → Loop
  | 0, _, st => st
  | k + 1, i, st =>
    let st1 := inner faults weights i i 0 st
    let (t2, s2, _) := twWrite faults st1.tw st1.w ['0', '\t']
    let (t3, s3, _) := twWrite faults t2 s2 ['\n']
    rows faults weights k (i + 1) ⟨t3, s3, st1.wcalls⟩

structure Res where
  /-- bytes accepted by the underlying writer, in order -/
  out : List Char
  /-- the error returned by `LIB` -/
  err : Option Err
  /-- number of `Write` calls made on the underlying writer -/
  calls : Nat
  /-- the calls of `weights`, in order -/
  wcalls : List (Nat × Nat)
  deriving Repr, DecidableEq

def Res.of (s : W) (e : Option Err) (wc : List (Nat × Nat)) : Res := ⟨s.out, e, s.calls, wc⟩

/-- `tsp.LIB(w, n, weights)` -/
def lib (n : Nat) (weights : Nat → Nat → Int) (faults : Nat → WriteResult) : Res :=
  let s0 : W := ⟨0, []⟩
  -- _, err = io.WriteString(w, "TYPE: TSP\n"); if err != nil { return err }
  -- _, err = fmt.Fprintf(w, "DIMENSION: %d\n", n); …   _, err = io.WriteString(w, "DISPLAY_DATA_TYPE: …"); …
  match writeAll faults s0 (hdrWrites n) with
  | (s3, some e) => Res.of s3 (some e) []
  | (s3, none) =>
  -- tw := tabwriter.NewWriter(w, 0, 1, 1, ' ', tabwriter.AlignRight); the two loops
  let st := rows faults weights n 0 ⟨TW.new, s3, []⟩
  -- err = tw.Flush(); if err != nil { return err }
  match twFlush faults st.tw st.w with
  | (_, s4, some e) => Res.of s4 (some e) st.wcalls
  | (_, s4, none) =>
  -- _, err = io.WriteString(w, "EOF\n"); if err != nil { return err }; return nil
  match writeAll faults s4 trailerWrites with
  | (s5, some e) => Res.of s5 (some e) st.wcalls
  | (s5, none) => Res.of s5 none st.wcalls

/-- the writer that never fails -/
def noFaults : Nat → WriteResult := fun _ => .ok

/-- the `Write` calls `LIB` makes on a writer that never fails, as byte chunks, in order: what the harness
observes with a recording writer (`tspc` protocol, information only); the driver uses it to turn a byte-addressed
fault into a fault function over call indices.  Defined from the same pieces as `lib`. -/
def libChunks (n : Nat) (weights : Nat → Nat → Int) : List (List Char) :=
  let st := rows noFaults weights n 0 ⟨TW.new, ⟨0, []⟩, []⟩
  hdrWrites n ++ st.tw.flushChunks.map Chunk.bytes ++ trailerWrites

end Tsp
