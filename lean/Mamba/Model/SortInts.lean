import Mamba.Basic
import Mamba.Gen.SortConsts
/-!
# Model of `sortints/sorted_ints.go` (property C17)

A `SortedInts` is a Go `[]int`; it is modelled as a `List Int` value (capacity is not modelled, except for
the receiver of the `Union` method, whose spare capacity decides between the in-place and the allocating
path and is therefore an explicit argument).  Go `int` is `Int`; indices that the Go code computes with
(possibly negative) arithmetic are `Int` and every slice / index expression built from them is bounds
checked (`Outcome.panic`).

Loop rendering:

* the two-pointer loops (`IntersectionSize`, `Union`, `SetMinus`, `Intersection`, `XOR`, `ContainsSorted`,
  `Complement`) are recursions on the not yet consumed suffixes `a[i:]`, `b[j:]`; each `if` branch of the
  loop body is one equation, `r = append(r, v)` is `v :: <rest of the loop>`.  The `make(…, 0, cap)` calls
  of these functions cannot panic (`IntersectionSize(a,b) ≤ min(len a, len b)` for every input), capacity
  has no other observable effect and is left out.
* counted `for` loops whose trip count is fixed on entry are recursions on the remaining trip count.
* `sort.Ints` is external: any correct sort of `int`s has the same result, the model uses `List.mergeSort`.
  `sort.SearchInts(a, x)` is external: lower-bound search, modelled as the least index `i` with `a[i] ≥ x`
  (`len a` if there is none) — this is what the binary search returns on every sorted `a`.
-/
namespace SortInts

/-! ## slice helpers -/

/-- `a[i]` for a Go `int` index. -/
def getI (a : List Int) (i : Int) : Option Int :=
  if 0 ≤ i then a[i.toNat]? else none

/-- `a[i] = v` -/
def setI (a : List Int) (i : Int) (v : Int) : Option (List Int) :=
  if 0 ≤ i ∧ i < a.length then some (a.set i.toNat v) else none

/-- the slice expression `a[lo:hi]` as a value (`cap a` is taken to be `len a`) -/
def sliceI (a : List Int) (lo hi : Int) : Option (List Int) :=
  if 0 ≤ lo ∧ lo ≤ hi ∧ hi ≤ a.length then some ((a.drop lo.toNat).take (hi.toNat - lo.toNat)) else none

/-- `copy(dst[lo:hi], src)`: returns the new `dst`. -/
def copyI (dst : List Int) (lo hi : Int) (src : List Int) : Option (List Int) :=
  if 0 ≤ lo ∧ lo ≤ hi ∧ hi ≤ dst.length then
    let n := min (hi.toNat - lo.toNat) src.length
    some (dst.take lo.toNat ++ src.take n ++ dst.drop (lo.toNat + n))
  else none

/-- `sort.Ints` (external; see the header). -/
def sortInts (l : List Int) : List Int := l.mergeSort (fun a b => decide (a ≤ b))

/-- `sort.SearchInts(a, x)` (external; see the header). -/
def searchInts (a : List Int) (x : Int) : Nat := a.findIdx (fun v => decide (x ≤ v))

/-! ## NewSortedInts -/

/-- `for i := 1; i < len(tmp); i++ { if tmp[i-1] == tmp[i] { nr++ } else { tmp[i-nr] = tmp[i] } }`
first argument: remaining trip count. -/
def dedupLoop : Nat → List Int → Int → Int → Outcome (List Int × Int)
  | 0, tmp, _, nr => .ok (tmp, nr)
  | k+1, tmp, i, nr =>
    match getI tmp (i-1), getI tmp i with
    | some p, some c =>
      if p = c then dedupLoop k tmp (i+1) (nr+1)
      else
        match setI tmp (i-nr) c with
        | some tmp' => dedupLoop k tmp' (i+1) nr
        | none => .panic
    | _, _ => .panic

/-- `NewSortedInts(x...)` -/
def newSortedInts (x : List Int) : Outcome (List Int) :=
  let tmp := sortInts x
  match dedupLoop (tmp.length - 1) tmp 1 0 with
  | .ok (tmp', nr) =>
    match sliceI tmp' 0 (tmp'.length - nr) with
    | some r => .ok r
    | none => .panic
  | .panic => .panic
  | .outOfFuel => .outOfFuel

/-! ## Range -/

/-- `for i := start; i < end; i += step { tmp = append(tmp, i) }` (fuel: `step` may be anything here) -/
def rangeUp : Nat → Int → Int → Int → Outcome (List Int)
  | 0, i, e, _ => if i < e then .outOfFuel else .ok []
  | f+1, i, e, step =>
    if i < e then
      match rangeUp f (i + step) e step with
      | .ok r => .ok (i :: r)
      | o => o
    else .ok []

/-- `for i := start; i > end; i += step { tmp = append(tmp, i) }` -/
def rangeDown : Nat → Int → Int → Int → Outcome (List Int)
  | 0, i, e, _ => if i > e then .outOfFuel else .ok []
  | f+1, i, e, step =>
    if i > e then
      match rangeDown f (i + step) e step with
      | .ok r => .ok (i :: r)
      | o => o
    else .ok []

/-- `for i, j := 0, len(tmp)-1; i < j; i, j = i+1, j-1 { tmp[i], tmp[j] = tmp[j], tmp[i] }`
first argument: an upper bound for the trip count (`len/2`). -/
def reverseLoop : Nat → List Int → Int → Int → Outcome (List Int)
  | 0, tmp, i, j => if i < j then .outOfFuel else .ok tmp
  | k+1, tmp, i, j =>
    if i < j then
      match getI tmp i, getI tmp j with
      | some vi, some vj =>
        match setI tmp i vj with
        | some t1 =>
          match setI t1 j vi with
          | some t2 => reverseLoop k t2 (i+1) (j-1)
          | none => .panic
        | none => .panic
      | _, _ => .panic
    else .ok tmp

/-- `Range(start, end, step)`; the rejection test is the condition of the source as regenerated into
`Gen.Sort.rangeRejects`; the `make` capacities are evaluated because a negative capacity panics. -/
def range (start e step : Int) : Outcome (List Int) :=
  if Gen.Sort.rangeRejects start e step then .panic
  else if e = start then .ok []
  else if e < start then
    if Int.tdiv (start - e - step - 1) (-step) < 0 then .panic
    else
      match rangeDown (start - e).toNat start e step with
      | .ok tmp => reverseLoop (tmp.length / 2) tmp 0 (tmp.length - 1)
      | o => o
  else
    if Int.tdiv (e - start + step - 1) step < 0 then .panic
    else rangeUp (e - start).toNat start e step

/-! ## Remove -/

/-- `s.Remove(x)`: `*s = (*s)[:index+copy((*s)[index:], (*s)[index+1:])]` (`copy` has memmove semantics). -/
def remove (s : List Int) (x : Int) : Outcome (List Int) :=
  let index : Int := searchInts s x
  if index < s.length ∧ getI s index = some x then
    match sliceI s (index+1) s.length with
    | some src =>
      match copyI s index s.length src with
      | some s' =>
        let n : Int := min (s.length - index) src.length
        match sliceI s' 0 (index + n) with
        | some r => .ok r
        | none => .panic
      | none => .panic
    | none => .panic
  else .ok s

/-! ## Add -/

/-- first loop of `Add`: `indices[i]` for every (sorted) argument and `numberAlreadySeen`. -/
def addIndices (s : List Int) : List Int → Int → List Int × Int
  | [], seen => ([], seen)
  | v :: xs, seen =>
    let index : Int := searchInts s v
    if index < s.length ∧ getI s index = some v then
      let (r, n) := addIndices s xs (seen + 1)
      (-1 :: r, n)
    else
      let (r, n) := addIndices s xs seen
      (index :: r, n)

/-- second loop of `Add` ("Check for duplicates"):
`for i := 0; i < len(x)-1; i++ { if x[i] == x[i+1] && indices[i+1] != -1 { indices[i+1] = -1; seen++ } }`
on the suffixes `x[i:]`, `indices[i:]`. -/
def addDups : List Int → List Int → Int → List Int × Int
  | x0 :: x1 :: xs, i0 :: i1 :: is, seen =>
    if x0 = x1 ∧ i1 ≠ -1 then
      let (r, n) := addDups (x1 :: xs) (-1 :: is) (seen + 1)
      (i0 :: r, n)
    else
      let (r, n) := addDups (x1 :: xs) (i1 :: is) seen
      (i0 :: r, n)
  | _, is, seen => (is, seen)

/-- third loop of `Add`, `for i := len(indices)-2; i >= 0; i--`, on the pairs `(x[i], indices[i])` taken
from the back.  `off = len(x) - numberAlreadySeen`, `now = numberNowSeen`, `next` is the current value of
`indices[i+1]` (the `else` branch `indices[i] = indices[i+1]` keeps it).  The destination offsets are the
expressions of the Go code. -/
def addMerge (s : List Int) (off : Int) : List (Int × Int) → List Int → Int → Int → Outcome (List Int × Int)
  | [], tmp, _, next => .ok (tmp, next)
  | (xi, idx) :: rest, tmp, now, next =>
    if idx ≠ -1 then
      match sliceI s idx next with
      | none => .panic
      | some src =>
        match copyI tmp (idx + off - now) (next + off - now) src with
        | none => .panic
        | some tmp1 =>
          match setI tmp1 (idx + off - now - 1) xi with
          | none => .panic
          | some tmp2 => addMerge s off rest tmp2 (now + 1) idx
    else addMerge s off rest tmp now next

/-- `s.Add(x...)` -/
def add (s : List Int) (x : List Int) : Outcome (List Int) :=
  let x := sortInts x
  let (ind1, seen1) := addIndices s x 0
  let (ind2, seen2) := addDups x ind1 seen1
  let newLen : Int := s.length + x.length - seen2
  if newLen < 0 then .panic
  else
    let tmp := List.replicate newLen.toNat (0 : Int)
    match addMerge s (x.length - seen2) (x.zip ind2).reverse tmp 0 s.length with
    | .ok (tmp', i0) =>
      match sliceI s 0 i0 with
      | none => .panic
      | some src =>
        match copyI tmp' 0 i0 src with
        | none => .panic
        | some r => .ok r
    | .panic => .panic
    | .outOfFuel => .outOfFuel

/-! ## the two-pointer functions -/

/-- `IntersectionSize(a, b)` -/
def intersectionSize : List Int → List Int → Nat
  | [], _ => 0
  | _ :: _, [] => 0
  | x :: xs, y :: ys =>
    if x = y then intersectionSize xs ys + 1
    else if x > y then intersectionSize (x :: xs) ys
    else intersectionSize xs (y :: ys)
termination_by a b => a.length + b.length

/-- `Union(a, b)` -/
def union : List Int → List Int → List Int
  | [], b => b
  | x :: xs, [] => x :: xs
  | x :: xs, y :: ys =>
    if x = y then x :: union xs ys
    else if x > y then y :: union (x :: xs) ys
    else x :: union xs (y :: ys)
termination_by a b => a.length + b.length

/-- `SetMinus(a, b)` -/
def setMinus : List Int → List Int → List Int
  | [], _ => []
  | x :: xs, [] => x :: xs
  | x :: xs, y :: ys =>
    if x = y then setMinus xs ys
    else if x > y then setMinus (x :: xs) ys
    else x :: setMinus xs (y :: ys)
termination_by a b => a.length + b.length

/-- `Intersection(a, b)` -/
def intersection : List Int → List Int → List Int
  | [], _ => []
  | _ :: _, [] => []
  | x :: xs, y :: ys =>
    if x = y then x :: intersection xs ys
    else if x > y then intersection (x :: xs) ys
    else intersection xs (y :: ys)
termination_by a b => a.length + b.length

/-- `XOR(a, b)` -/
def xor : List Int → List Int → List Int
  | [], b => b
  | x :: xs, [] => x :: xs
  | x :: xs, y :: ys =>
    if x = y then xor xs ys
    else if x > y then y :: xor (x :: xs) ys
    else x :: xor xs (y :: ys)
termination_by a b => a.length + b.length

/-- `ContainsSorted(a, b)` -/
def containsSorted : List Int → List Int → Bool
  | [], b => b.isEmpty
  | _ :: _, [] => true
  | x :: xs, y :: ys =>
    if x = y then containsSorted xs ys
    else if x > y then false
    else containsSorted xs (y :: ys)
termination_by a b => a.length + b.length

/-- `ContainsSingle(a, x)` -/
def containsSingle (a : List Int) (x : Int) : Bool :=
  let index : Int := searchInts a x
  decide (index < a.length) && (getI a index == some x)

/-- `for ; i < n; i++ { b = append(b, i) }` -/
def complementTail (n i : Int) : List Int :=
  if i < n then i :: complementTail n (i + 1) else []
termination_by (n - i).toNat

/-- the first loop of `Complement` on `(i, a[aIndex:])`, followed by the second one. -/
def complementLoop (n i : Int) : List Int → List Int
  | [] => complementTail n i
  | x :: xs =>
    if i < n then
      if i > x then complementLoop n i xs
      else if i = x then complementLoop n (i + 1) xs
      else i :: complementLoop n (i + 1) (x :: xs)
    else complementTail n i
termination_by a => (n - i).toNat + a.length

/-- `Complement(n, a)` (the capacity is clamped at 0 by the code, so `make` cannot panic). -/
def complement (n : Int) (a : List Int) : List Int := complementLoop n 0 a

/-! ## method Union -/

/-- The merge loop of the `Union` method, `for i >= 0 && j >= 0 { … }`, writing `dst` from the back.
`aliased` says that `dst` shares its backing array with `a` (`dst = a[:newSize]`): then `a[i]` is read
from `dst`. Returns `(dst, i, j)`. -/
def unionLoop (aliased : Bool) (a b : List Int) (dst : List Int) (i j k : Int) : Outcome (List Int × Int × Int) :=
  if _h : 0 ≤ i ∧ 0 ≤ j then
    match getI (if aliased then dst else a) i, getI b j with
    | some ai, some bj =>
      if ai = bj then
        match setI dst k ai with
        | some d => unionLoop aliased a b d (i-1) (j-1) (k-1)
        | none => .panic
      else if ai > bj then
        match setI dst k ai with
        | some d => unionLoop aliased a b d (i-1) j (k-1)
        | none => .panic
      else
        match setI dst k bj with
        | some d => unionLoop aliased a b d i (j-1) (k-1)
        | none => .panic
    | _, _ => .panic
  else .ok (dst, i, j)
termination_by (i+1).toNat + (j+1).toNat
decreasing_by all_goals omega

/-- `s.Union(b)` where `*s = a` and `spare` is the content of `a[len(a):cap(a)]`. -/
def unionM (a spare b : List Int) : Outcome (List Int) :=
  let newSize : Int := a.length + b.length - intersectionSize a b
  let aliased : Bool := decide (((a.length + spare.length : Nat) : Int) ≥ newSize)
  let dst0 : Option (List Int) :=
    if aliased then sliceI (a ++ spare) 0 newSize
    else if newSize < 0 then none else some (List.replicate newSize.toNat 0)
  match dst0 with
  | none => .panic
  | some dst =>
    match unionLoop aliased a b dst (a.length - 1) (b.length - 1) (dst.length - 1) with
    | .ok (d, i, j) =>
      if 0 ≤ i then
        match sliceI (if aliased then d else a) 0 (i+1) with
        | some src =>
          match copyI d 0 d.length src with
          | some r => .ok r
          | none => .panic
        | none => .panic
      else if 0 ≤ j then
        match sliceI b 0 (j+1) with
        | some src =>
          match copyI d 0 d.length src with
          | some r => .ok r
          | none => .panic
        | none => .panic
      else .ok d
    | .panic => .panic
    | .outOfFuel => .outOfFuel

end SortInts
