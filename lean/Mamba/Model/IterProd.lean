import Mamba.Model.IterBase
/-!
# Model of `itertools/product.go`
`Product` and `RestrictedPrefixProduct`.
-/
namespace Iter

/-! ## Product -/

structure Prod where
  state : Sl
  n : Sl
  empty : Bool
  deriving Repr

/-- `Product(n...)` -/
def Prod.init (dims : Sl) : Outcome Prod := do
  let empty := dims.any (fun v => v < 1)
  let m : Int := dims.length
  let state ← make m
  let state ← if m > 0 then set state (m - 1) (-1) else pure state
  pure ⟨state, dims, empty⟩

/-- `for k := j+1; k < n; k++ { state[k] = 0 }` -/
def Prod.zero : Nat → Int → Sl → Outcome Sl
  | 0, _, st => .ok st
  | c+1, k, st => do
    let st ← set st k 0
    Prod.zero c (k + 1) st

/-- `for j := n-1; j >= 0; j-- {...}`; argument = `j+1`; `some st` = the `if` fired -/
def Prod.scan (dims : Sl) : Nat → Sl → Outcome (Option Sl)
  | 0, _ => .ok none
  | j+1, st => do
    let sj ← get st j
    let nj ← get dims j
    if sj < nj - 1 then
      let st ← set st j (sj + 1)
      let st ← Prod.zero (st.length - (j + 1)) ((j : Int) + 1) st
      pure (some st)
    else Prod.scan dims j st

/-- `(*ProductIterator).Next` -/
def Prod.next (s : Prod) : Outcome (Prod × Bool) := do
  match (← Prod.scan s.n s.state.length s.state) with
  | some st => pure ({ s with state := st }, !s.empty)
  | none =>
    if s.state.length == 0 && !s.empty then pure ({ s with empty := true }, true)
    else pure (s, false)

def Prod.it : It Prod Sl := ⟨Prod.next, fun s => .ok (s, s.state)⟩

/-! ## RestrictedPrefixProduct -/

structure RPProd where
  state : Sl
  n : Sl
  empty : Bool
  deriving Repr

/-- `RestrictedPrefixProduct(t, n...)` -/
def RPProd.init (dims : Sl) : RPProd := ⟨[], dims, dims.any (fun v => v < 1)⟩

inductive RPProd.Lbl where
  | x1 | x2 | x3

/-- the `goto` machine of `Next` on the slice `state`; `m = len(n)` -/
def RPProd.run (t : List Int → Bool) (dims : Sl) : Nat → RPProd.Lbl → Sl → Outcome (Sl × Bool)
  | 0, _, _ => .outOfFuel
  | fuel+1, .x1, st => RPProd.run t dims fuel .x3 (st ++ [0])
  | fuel+1, .x2, st => do
    let i : Int := (st.length : Int) - 1
    let v ← get st i
    let nv ← get dims i
    if v < nv - 1 then
      let st ← set st i (v + 1)
      RPProd.run t dims fuel .x3 st
    else if st.length == 1 then pure (st, false)
    else RPProd.run t dims fuel .x2 st.dropLast
  | fuel+1, .x3, st =>
    if !t st then RPProd.run t dims fuel .x2 st
    else if st.length < dims.length then RPProd.run t dims fuel .x1 st
    else .ok (st, true)

/-- number of nodes of the full prefix tree -/
def treeSize : Sl → Nat
  | [] => 1
  | n :: ns => 1 + n.toNat * treeSize ns

def RPProd.fuel (dims : Sl) : Nat := 4 * treeSize dims + 4

/-- `(*RestrictedPrefixProductIterator).Next` -/
def RPProd.next (t : List Int → Bool) (s : RPProd) : Outcome (RPProd × Bool) :=
  if s.empty then .ok (s, false)
  else if s.state.length == 0 then
    if s.n.length == 0 then .ok ({ s with empty := true }, true)
    else do
      let (st, b) ← RPProd.run t s.n (RPProd.fuel s.n) .x1 s.state
      pure ({ s with state := st }, b)
  else do
    let (st, b) ← RPProd.run t s.n (RPProd.fuel s.n) .x2 s.state
    pure ({ s with state := st }, b)

def RPProd.it (t : List Int → Bool) : It RPProd Sl := ⟨RPProd.next t, fun s => .ok (s, s.state)⟩

end Iter
