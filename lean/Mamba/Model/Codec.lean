import Mamba.Basic
import Mamba.Spec.Graph
import Mamba.Gen.CodecConsts
/-!
# Model of `graph/encoding.go` (properties C07, C08), with the parts of `graph_dense.go` / `graph_sparse.go` it calls

Conventions (DESIGN §2.3): Go `int`/`uint64` are `Nat` (the theorems carry the explicit no-overflow bound
`n(n-1)/2 < 2^63` where the code computes it); `byte` arithmetic is written with `bsub`/`badd` (mod 256);
a Go string / `[]byte` is `Array Nat` (every element a byte value); every Go index expression that the code does
not guard syntactically at that spot is a checked access yielding `Outcome.panic`; an error return is `none`.

The encoders take a `graph.Graph` interface value. Its methods are represented by `GI` (what `N()`, `M()`,
`IsEdge`, `Neighbours`, `Degrees` answer); `GI.ofG g` is the instance in which they answer as the abstract graph
`g` does (`Neighbours` ascending, as both `DenseGraph` and `SparseGraph` do).

`sortints.ContainsSingle` / `SortedInts.Add` (used by `SparseGraph.AddEdge`) are modelled by their
specification (membership / ordered insert without duplicates) — they are the subject of C17.
`math.Sqrt(2*float64(maxInt)+0.25)+0.5` is exactly `4294967296.5`; `float64(n) > MaxN` for an integer `n < 2^36`
is `n > 4294967296`.

**Regenerated constants.** Every literal the formats dictate (size-header thresholds, marker and offset bytes, the byte
range, the optional header strings, shift amounts, the 6-bit packing constants, the padding rule, Multicode's 255) is
NOT written here: the terms `gc_<name>` are macros of `Mamba/Gen/CodecConsts.lean`, which `verif/extract` (c07.go)
rewrites from `graph/encoding.go` on every run; they expand to the literal the Go source contains now (header
assignments and the size-header arithmetic are translated as whole expressions). Where the Go code has two textual copies
(size header reader / writer and byte-range check in the graph6 and the sparse6 functions) the model has two copies too
(`decHeader`/`decHeaderS6`, `encHeader`/`encHeaderS6`, `inRange`/`inRangeS6`).
-/
namespace Codec
open GraphSpec

abbrev Bytes := Array Nat

/-- `byte` subtraction and addition -/
def bsub (a b : Nat) : Nat := (a + 256 - b) % 256
def badd (a b : Nat) : Nat := (a + b) % 256

/-! ## The `Graph` interface as seen by the encoders -/

structure GI where
  n : Nat
  m : Nat
  isEdge : Nat → Nat → Bool
  nbrs : Nat → List Nat
  deg : Nat → Nat

/-- `g.Degrees()` -/
def GI.degrees (g : GI) : Array Nat := ((List.range g.n).map g.deg).toArray

def GI.ofG (g : G) : GI := { n := g.n, m := g.m, isEdge := g.adj, nbrs := g.nbrs, deg := g.deg }
def GI.toG (g : GI) : G := { n := g.n, adj := g.isEdge }

/-! ## `DenseGraph` -/

structure Dense where
  n : Nat
  m : Nat
  deg : Array Nat
  edges : Array Nat
  deriving Repr, DecidableEq

/-- `a[i]++` -/
def incr (a : Array Nat) (i : Nat) : Outcome (Array Nat) :=
  match a[i]? with
  | none => .panic
  | some x => .ok (a.setIfInBounds i (x + 1))

/-- `a[i]--` (only used where the value is positive or the result is never compared again; see `pruferDecode`) -/
def decr (a : Array Nat) (i : Nat) : Outcome (Array Nat) :=
  match a[i]? with
  | none => .panic
  | some x => .ok (a.setIfInBounds i (x - 1))

/-- `a[i] = x` -/
def setAt (a : Array Nat) (i x : Nat) : Outcome (Array Nat) :=
  if i < a.size then .ok (a.setIfInBounds i x) else .panic

/-- `NewDense(n, nil)` -/
def newDenseNil (n : Nat) : Dense :=
  { n := n, m := 0, deg := Array.replicate n 0, edges := Array.replicate (n * (n - 1) / 2) 0 }

/-- body of the double loop of `NewDense`: state `(degrees, m, index)` -/
def newDenseStep (edges : Array Nat) (j : Nat) (st : Array Nat × Nat × Nat) (i : Nat) :
    Outcome (Array Nat × Nat × Nat) :=
  match edges[st.2.2]? with
  | none => .panic
  | some e =>
    if e > 0 then
      match incr st.1 i with
      | .ok d1 =>
        match incr d1 j with
        | .ok d2 => .ok (d2, st.2.1 + 1, st.2.2 + 1)
        | .panic => .panic
        | .outOfFuel => .outOfFuel
      | .panic => .panic
      | .outOfFuel => .outOfFuel
    else .ok (st.1, st.2.1, st.2.2 + 1)

/-- `NewDense(n, edges)` with `edges != nil` -/
def newDense (n : Nat) (edges : Array Nat) : Outcome Dense :=
  if edges.size ≠ n * (n - 1) / 2 then .panic
  else
    match (List.range n).foldlM (fun st j => (List.range j).foldlM (newDenseStep edges j) st)
        (Array.replicate n 0, 0, 0) with
    | .ok st => .ok { n := n, m := st.2.1, deg := st.1, edges := edges }
    | .panic => .panic
    | .outOfFuel => .outOfFuel

/-- `DenseGraph.IsEdge` -/
def Dense.isEdge (g : Dense) (i j : Nat) : Outcome Bool :=
  if i ≥ g.n || j ≥ g.n then .ok false
  else if i < j then
    match g.edges[j * (j - 1) / 2 + i]? with
    | none => .panic
    | some e => .ok (e > 0)
  else if i > j then
    match g.edges[i * (i - 1) / 2 + j]? with
    | none => .panic
    | some e => .ok (e > 0)
  else .ok false

/-- abstraction: the graph a `DenseGraph` value denotes (through `IsEdge`) -/
def Dense.toG (g : Dense) : G :=
  { n := g.n, adj := fun u v => g.isEdge u v == .ok true }

/-! ## `SparseGraph` -/

structure Sparse where
  n : Nat
  m : Nat
  nbrs : Array (List Nat)
  deg : Array Nat
  deriving Repr, DecidableEq

/-- `NewSparse(n, nil)` -/
def newSparseNil (n : Nat) : Sparse :=
  { n := n, m := 0, nbrs := Array.replicate n [], deg := Array.replicate n 0 }

/-- `SortedInts.Add(x)` for one element: ordered insert, no duplicates -/
def insertSorted (x : Nat) : List Nat → List Nat
  | [] => [x]
  | y :: ys => if x < y then x :: y :: ys else if x = y then y :: ys else y :: insertSorted x ys

/-- `SparseGraph.IsEdge` -/
def Sparse.isEdge (g : Sparse) (i j : Nat) : Outcome Bool :=
  match g.deg[i]? with
  | none => .panic
  | some a =>
    match g.deg[j]? with
    | none => .panic
    | some b =>
      if a > b then
        match g.nbrs[i]? with
        | none => .panic
        | some l => .ok (l.contains j)
      else
        match g.nbrs[j]? with
        | none => .panic
        | some l => .ok (l.contains i)

/-- `SparseGraph.AddEdge` -/
def Sparse.addEdge (g : Sparse) (i j : Nat) : Outcome Sparse :=
  if i = j then .ok g
  else
    match g.isEdge i j with
    | .ok true => .ok g
    | .ok false =>
      match g.nbrs[i]?, g.nbrs[j]? with
      | some li, some _ =>
        let nb1 := g.nbrs.setIfInBounds i (insertSorted j li)
        match nb1[j]? with
        | some lj' =>
          let nb2 := nb1.setIfInBounds j (insertSorted i lj')
          match incr g.deg i with
          | .ok d1 =>
            match incr d1 j with
            | .ok d2 => .ok { n := g.n, m := g.m + 1, nbrs := nb2, deg := d2 }
            | .panic => .panic
            | .outOfFuel => .outOfFuel
          | .panic => .panic
          | .outOfFuel => .outOfFuel
        | none => .panic
      | _, _ => .panic
    | .panic => .panic
    | .outOfFuel => .outOfFuel

/-- abstraction: the graph a `SparseGraph` value denotes (through its neighbour lists) -/
def Sparse.toG (g : Sparse) : G :=
  { n := g.n, adj := fun u v => match g.nbrs[u]? with | some l => l.contains v | none => false }

/-! ## The 6-bit writer: `(s, b, bIndex)` -/

structure BitW where
  s : Bytes
  b : Nat
  idx : Nat
  deriving Repr, DecidableEq

/-- graph6: `if bit { b += 1 << uint(5-bIndex) }; bIndex++; if bIndex == 6 { s = append(s, b+63); bIndex = 0; b = 0 }` -/
def BitW.pushAdd (w : BitW) (bit : Bool) : BitW :=
  let b := if bit then badd w.b (1 <<< (gc_g6eTop - w.idx)) else w.b
  let idx := w.idx + 1
  if idx = gc_g6eGroup then { s := w.s.push (badd b gc_g6eOff), b := 0, idx := 0 } else { s := w.s, b := b, idx := idx }

/-- sparse6: `if bit { b |= 1 << uint(5-currentBitPosition) }; currentBitPosition++; if ... == 6 { flush }` -/
def BitW.pushOr (w : BitW) (bit : Bool) : BitW :=
  let b := if bit then w.b ||| (1 <<< (gc_s6eTop - w.idx)) else w.b
  let idx := w.idx + 1
  if idx = gc_s6eGroup then { s := w.s.push (badd b gc_s6eOff), b := 0, idx := 0 } else { s := w.s, b := b, idx := idx }

/-- `for j := 0; j < k; j++ { bit (x>>uint(k-j-1))&1 == 1 }` -/
def BitW.pushNum (w : BitW) (k x : Nat) : BitW :=
  (List.range k).foldl (fun w j => w.pushOr ((x >>> (k - j - 1)) &&& 1 == 1)) w

/-! ## The size header -/

/-- the header assignments of `Graph6Encode` appended to `pre` (`#[]`) -/
def encHeader (pre : Bytes) (n : Nat) : Outcome Bytes :=
  if n ≤ gc_g6eT1 then .ok gc_g6eHdr1(pre, n)
  else if n ≤ gc_g6eT4 then .ok gc_g6eHdr4(pre, n)
  else if n ≤ gc_g6eT8 then .ok gc_g6eHdr8(pre, n)
  else .panic

/-- the header assignments of `Sparse6Encode` (`s[0] = ':'` included) -/
def encHeaderS6 (n : Nat) : Outcome Bytes :=
  if n ≤ gc_s6eT1 then .ok gc_s6eHdr1(n)
  else if n ≤ gc_s6eT4 then .ok gc_s6eHdr4(n)
  else if n ≤ gc_s6eT8 then .ok gc_s6eHdr8(n)
  else .panic

/-- The size-header part of `Graph6Decode` (`s` non-empty is *not* assumed: `s[0]` is a checked access).
`ok none` = the error "String too short - unable to decode n"; `ok (some (n, i))`. -/
def decHeader (s : Bytes) : Outcome (Option (Nat × Nat)) :=
  match s[0]? with
  | none => .panic
  | some c0 =>
    if c0 ≠ gc_g6dMark0 then .ok (some (gc_g6dN1(c0), gc_g6dI1))
    else if s.size < gc_g6dLen4 then .ok none
    else
      match s[1]? with
      | none => .panic
      | some c1 =>
        if c1 ≠ gc_g6dMark1 then
          match s[2]?, s[3]? with
          | some c2, some c3 => .ok (some (gc_g6dN4(c1, c2, c3), gc_g6dI4))
          | _, _ => .panic
        else if s.size < gc_g6dLen8 then .ok none
        else
          match s[2]?, s[3]?, s[4]?, s[5]?, s[6]?, s[7]? with
          | some c2, some c3, some c4, some c5, some c6, some c7 =>
            .ok (some (gc_g6dN8(c2, c3, c4, c5, c6, c7), gc_g6dI8))
          | _, _, _, _, _, _ => .panic

/-- The size-header part of `Sparse6Decode` (`s` non-empty is *not* assumed: `s[0]` is a checked access).
`ok none` = the error "String too short - unable to decode n"; `ok (some (n, i))`. -/
def decHeaderS6 (s : Bytes) : Outcome (Option (Nat × Nat)) :=
  match s[0]? with
  | none => .panic
  | some c0 =>
    if c0 ≠ gc_s6dMark0 then .ok (some (gc_s6dN1(c0), gc_s6dI1))
    else if s.size < gc_s6dLen4 then .ok none
    else
      match s[1]? with
      | none => .panic
      | some c1 =>
        if c1 ≠ gc_s6dMark1 then
          match s[2]?, s[3]? with
          | some c2, some c3 => .ok (some (gc_s6dN4(c1, c2, c3), gc_s6dI4))
          | _, _ => .panic
        else if s.size < gc_s6dLen8 then .ok none
        else
          match s[2]?, s[3]?, s[4]?, s[5]?, s[6]?, s[7]? with
          | some c2, some c3, some c4, some c5, some c6, some c7 =>
            .ok (some (gc_s6dN8(c2, c3, c4, c5, c6, c7), gc_s6dI8))
          | _, _, _, _, _, _ => .panic

/-- `strings.HasPrefix(s, p)` -/
def hasPrefix (s : Bytes) (p : List Nat) : Bool := s.toList.take p.length == p

/-- `s[k:]` -/
def dropBytes (s : Bytes) (k : Nat) : Bytes := (s.toList.drop k).toArray

/-- `Graph6Decode`: every byte in 63..126 (the checking loop; which byte is reported is not observable) -/
def inRange (s : Bytes) : Bool := s.all fun c => gc_g6dLo ≤ c && c ≤ gc_g6dHi

/-- `Sparse6Decode`: the same loop -/
def inRangeS6 (s : Bytes) : Bool := s.all fun c => gc_s6dLo ≤ c && c ≤ gc_s6dHi

/-- `">>graph6<<"` -/
def g6Magic : List Nat := gc_g6dMagic
/-- `">>sparse6<<"` -/
def s6Magic : List Nat := gc_s6dMagic

/-! ## graph6 -/

/-- `Graph6Encode` -/
def g6Encode (g : GI) : Outcome Bytes :=
  if g.n ≤ gc_g6eT0 then .ok #[g.n + gc_g6eOff0]
  else
    match encHeader #[] g.n with
    | .ok s =>
      let w := (List.range' 1 (g.n - 1)).foldl
        (fun w i => (List.range i).foldl (fun w j => w.pushAdd (g.isEdge i j)) w) ({ s := s, b := 0, idx := 0 } : BitW)
      .ok (if w.idx ≠ 0 then w.s.push (badd w.b gc_g6eOff) else w.s)
    | .panic => .panic
    | .outOfFuel => .outOfFuel

/-- `edges[j] = ((s[i+j/6] - 63) & (1 << uint(5-(j%6)))) >> uint(5-(j%6))` -/
def g6Bit (s : Bytes) (i j : Nat) : Outcome Nat :=
  match s[i + j / gc_g6dBitGroup]? with
  | none => .panic
  | some c => .ok ((bsub c gc_g6dBitOff &&& (1 <<< (gc_g6dBitTop - j % gc_g6dBitGroup))) >>> (gc_g6dBitTop - j % gc_g6dBitGroup))

/-- `Graph6Decode`; `ok none` is an error return -/
def g6Decode (s0 : Bytes) : Outcome (Option Dense) :=
  let s := if hasPrefix s0 g6Magic then dropBytes s0 gc_g6dMagicLen else s0
  if !inRange s then .ok none
  else if s.size = 0 then .ok (some (newDenseNil 0))
  else
    match decHeader s with
    | .ok none => .ok none
    | .ok (some (n, i)) =>
      if i = gc_g6dI8 && n > gc_g6dMaxN then .ok none
      else if gc_g6dLenCmp(i + (n * (n - 1) / 2 + gc_g6dLenPad) / gc_g6dLenGroup, s.size) then .ok none
      else
        match (List.range (n * (n - 1) / 2)).mapM (g6Bit s i) with
        | .ok edges =>
          match newDense n edges.toArray with
          | .ok d => .ok (some d)
          | .panic => .panic
          | .outOfFuel => .outOfFuel
        | .panic => .panic
        | .outOfFuel => .outOfFuel
    | .panic => .panic
    | .outOfFuel => .outOfFuel

/-! ## sparse6 -/

/-- `64 - bits.LeadingZeros64(x)` for `x < 2^64` -/
def bitLen (x : Nat) : Nat := if x = 0 then 0 else x.log2 + 1

/-- one edge `(u, i)` of the main loop of `Sparse6Encode`; state `(writer, v)` -/
def s6EdgeStep (k i : Nat) (st : BitW × Nat) (u : Nat) : BitW × Nat :=
  if i = st.2 then ((st.1.pushOr false).pushNum k u, st.2)
  else if i = st.2 + 1 then ((st.1.pushOr true).pushNum k u, st.2 + 1)
  else ((((st.1.pushOr true).pushNum k i).pushOr false).pushNum k u, i)

/-- `for _, u := range neighbours { if u > i { break }; ... }` -/
def s6Inner (k i : Nat) : List Nat → BitW × Nat → BitW × Nat
  | [], st => st
  | u :: us, st => if u > i then st else s6Inner k i us (s6EdgeStep k i st u)

/-- `for j := currentBitPosition; j < 6; j++ { b += 1 << uint(5-j) }` -/
def s6PadOnes (b idx : Nat) : Nat :=
  (List.range' idx (gc_s6ePadEnd - idx)).foldl (fun b j => badd b (1 <<< (gc_s6eTop - j))) b

/-- `Sparse6Encode` -/
def s6Encode (g : GI) : Outcome Bytes :=
  let n := g.n
  -- uint64(n-1) for n = 0 is 2^64-1 (k = 64); the value is not used in that case
  let k := if n = 0 then gc_s6eKWidth else bitLen (n - gc_s6eKSub)
  if n ≤ gc_s6eT0 then .ok #[gc_s6eColon, n + gc_s6eOff0]
  else
    match encHeaderS6 n with
    | .ok s =>
      let st := (List.range' 1 (n - 1)).foldl (fun st i => s6Inner k i (g.nbrs i) st)
        (({ s := s, b := 0, idx := 0 } : BitW), 0)
      let w := st.1
      if w.idx = 0 then .ok w.s
      else
        let fin (idx : Nat) : Outcome Bytes := .ok (w.s.push (badd (s6PadOnes w.b idx) gc_s6eOff))
        if gc_s6ePadSet(n) && gc_s6ePadCmp(gc_s6ePadGroup - w.idx, k + gc_s6ePadOne) then
          let degrees := g.degrees
          match degrees[n - 2]? with
          | none => .panic
          | some a =>
            if a > 0 then
              match degrees[n - 1]? with
              | none => .panic
              | some b => if b = 0 then fin (w.idx + 1) else fin w.idx
            else fin w.idx
        else fin w.idx
    | .panic => .panic
    | .outOfFuel => .outOfFuel

/-- `readBit` of `Sparse6Decode` (without the `pos++`) -/
def s6ReadBit (s : Bytes) (i pos : Nat) : Outcome Nat :=
  match s[i + pos / gc_s6dBitGroup]? with
  | none => .panic
  | some c => .ok ((bsub c gc_s6dBitOff >>> (gc_s6dBitTop - pos % gc_s6dBitGroup)) &&& 1)

/-- `for j := 0; j < k; j++ { x = x<<1 | readBit() }` -/
def s6ReadNum (s : Bytes) (i : Nat) : Nat → Nat → Nat → Outcome Nat
  | 0, _, x => .ok x
  | k + 1, pos, x =>
    match s6ReadBit s i pos with
    | .ok b => s6ReadNum s i k (pos + 1) ((x <<< 1) ||| b)
    | .panic => .panic
    | .outOfFuel => .outOfFuel

/-- the stream loop of `Sparse6Decode` -/
def s6Loop (s : Bytes) (i n k numBits : Nat) : Nat → Nat → Nat → Sparse → Outcome Sparse
  | 0, _, _, _ => .outOfFuel
  | fuel + 1, pos, v, g =>
    if pos + 1 + k ≤ numBits then
      match s6ReadBit s i pos with
      | .ok b =>
        let v := if b = 1 then v + 1 else v
        match s6ReadNum s i k (pos + 1) 0 with
        | .ok x =>
          if x ≥ n || v ≥ n then .ok g
          else if x > v then s6Loop s i n k numBits fuel (pos + 1 + k) x g
          else
            match g.addEdge v x with
            | .ok g' => s6Loop s i n k numBits fuel (pos + 1 + k) v g'
            | .panic => .panic
            | .outOfFuel => .outOfFuel
        | .panic => .panic
        | .outOfFuel => .outOfFuel
      | .panic => .panic
      | .outOfFuel => .outOfFuel
    else .ok g

/-- `Sparse6Decode`; `ok none` is an error return. The loop consumes `k+1 ≥ 1` bits per round: fuel `numBits + 1`. -/
def s6Decode (s0 : Bytes) : Outcome (Option Sparse) :=
  let s1 := if hasPrefix s0 s6Magic then dropBytes s0 gc_s6dMagicLen else s0
  if s1.size = 0 then .ok none
  else
    match s1[0]? with
    | none => .panic
    | some c =>
      if c ≠ gc_s6dColon then .ok none
      else
        let s := dropBytes s1 gc_s6dColonLen
        if !inRangeS6 s then .ok none
        else if s.size = 0 then .ok none
        else
          match decHeaderS6 s with
          | .ok none => .ok none
          | .ok (some (n, i)) =>
            let g := newSparseNil n
            if n = 0 then .ok (some g)
            else
              let k := bitLen (n - gc_s6dKSub)
              let numBits := gc_s6dNumBitsGroup * (s.size - i)
              match s6Loop s i n k numBits (numBits + 1) 0 0 g with
              | .ok g' => .ok (some g')
              | .panic => .panic
              | .outOfFuel => .outOfFuel
          | .panic => .panic
          | .outOfFuel => .outOfFuel

/-! ## Multicode -/

/-- inner loop body of `MulticodeEncode`: state `(s, index)` -/
def mcEncStep (g : GI) (i : Nat) (st : Bytes × Nat) (j : Nat) : Outcome (Bytes × Nat) :=
  if g.isEdge i j then
    match setAt st.1 st.2 ((j + 1) % 256) with
    | .ok s => .ok (s, st.2 + 1)
    | .panic => .panic
    | .outOfFuel => .outOfFuel
  else .ok st

/-- outer loop body of `MulticodeEncode` -/
def mcEncRow (g : GI) (st : Bytes × Nat) (i : Nat) : Outcome (Bytes × Nat) :=
  match (List.range' (i + 1) (g.n - (i + 1))).foldlM (mcEncStep g i) st with
  | .ok st' =>
    match setAt st'.1 st'.2 0 with
    | .ok s => .ok (s, st'.2 + 1)
    | .panic => .panic
    | .outOfFuel => .outOfFuel
  | .panic => .panic
  | .outOfFuel => .outOfFuel

/-- `MulticodeEncode` -/
def mcEncode (g : GI) : Outcome Bytes :=
  if g.n > gc_mcMax then .panic
  else if g.n = 0 then .ok #[0]
  else
    match setAt (Array.replicate (g.m + g.n) 0) 0 (g.n % 256) with
    | .ok s0 =>
      match (List.range (g.n - 1)).foldlM (mcEncRow g) (s0, 1) with
      | .ok st => .ok st.1
      | .panic => .panic
      | .outOfFuel => .outOfFuel
    | .panic => .panic
    | .outOfFuel => .outOfFuel

/-- state of the loop of `MulticodeDecode` -/
structure McSt where
  edges : Array Nat
  deg : Array Nat
  m : Nat
  cur : Nat

/-- loop body of `MulticodeDecode` for the byte `c = s[i]` -/
def mcDecStep (st : McSt) (c : Nat) : Outcome McSt :=
  if c = 0 then .ok { st with cur := st.cur + 1 }
  else
    match setAt st.edges (bsub c 1 * bsub c 2 / 2 + st.cur) 1 with
    | .ok e =>
      match incr st.deg (bsub c 1) with
      | .ok d1 =>
        match incr d1 st.cur with
        | .ok d2 => .ok { edges := e, deg := d2, m := st.m + 1, cur := st.cur }
        | .panic => .panic
        | .outOfFuel => .outOfFuel
      | .panic => .panic
      | .outOfFuel => .outOfFuel
    | .panic => .panic
    | .outOfFuel => .outOfFuel

/-- `MulticodeDecode` -/
def mcDecode (s : Bytes) : Outcome Dense :=
  match s[0]? with
  | none => .panic
  | some n =>
    match (s.toList.drop 1).foldlM mcDecStep
        { edges := Array.replicate (n * (n - 1) / 2) 0, deg := Array.replicate n 0, m := 0, cur := 0 } with
    | .ok st =>
      if n > 0 && st.cur ≠ n - 1 then .panic
      else .ok { n := n, m := st.m, deg := st.deg, edges := st.edges }
    | .panic => .panic
    | .outOfFuel => .outOfFuel

/-- state of the loop of `MulticodeDecodeMultiple`: `(graphs, startOfGraph, numberOfVerticesLeft)` -/
structure McmSt where
  graphs : Array Dense
  start : Nat
  left : Nat

/-- `s[a:b]` -/
def sliceBytes (s : Bytes) (a b : Nat) : Bytes := s.extract a b

/-- loop body of `MulticodeDecodeMultiple` at index `i` with `c = s[i]` -/
def mcmStep (s : Bytes) (st : McmSt) (ic : Nat × Nat) : Outcome McmSt :=
  let i := ic.1
  let c := ic.2
  let after (st : McmSt) : Outcome McmSt :=
    if c = 0 then
      let left := bsub st.left 1
      if left = 0 then
        match mcDecode (sliceBytes s st.start (i + 1)) with
        | .ok d => .ok { graphs := st.graphs.push d, start := st.start, left := left }
        | .panic => .panic
        | .outOfFuel => .outOfFuel
      else .ok { st with left := left }
    else .ok st
  if st.left = 0 then
    if c ≤ 1 then
      match mcDecode (sliceBytes s i (i + 1)) with
      | .ok d => .ok { st with graphs := st.graphs.push d }
      | .panic => .panic
      | .outOfFuel => .outOfFuel
    else after { st with left := bsub c 1, start := i }
  else after st

/-- `MulticodeDecodeMultiple` -/
def mcDecodeMultiple (s : Bytes) : Outcome (Array Dense) :=
  match ((List.range s.size).zip s.toList).foldlM (mcmStep s) { graphs := #[], start := 0, left := 0 } with
  | .ok st => .ok st.graphs
  | .panic => .panic
  | .outOfFuel => .outOfFuel

/-! ## Prüfer -/

/-- first `(j, v)` in `vl` (from position `j`) with `degrees[v] == 1`; `degrees[v]` is a checked access -/
def pruferFindLeaf (degrees : Array Int) : Nat → List Nat → Outcome (Option (Nat × Nat))
  | _, [] => .ok none
  | j, v :: vs =>
    match degrees[v]? with
    | none => .panic
    | some d => if d = 1 then .ok (some (j, v)) else pruferFindLeaf degrees (j + 1) vs

/-- `copy(vl[j:], vl[j+1:])`: the tail moves down, the length and the last element stay -/
def shiftDown (vl : List Nat) (j : Nat) : List Nat :=
  match vl.getLast? with
  | none => vl
  | some l => vl.eraseIdx j ++ [l]

/-- one round of the outer loop of `PruferEncode`: state `(verticesLeftToRemove, degrees, prufer)` -/
def pruferEncStep (g : GI) (st : List Nat × Array Int × Array Nat) : Outcome (List Nat × Array Int × Array Nat) :=
  match pruferFindLeaf st.2.1 0 st.1 with
  | .ok none => .ok st
  | .ok (some (j, v)) =>
    match st.1.find? (fun u => g.isEdge u v) with
    | none => .ok (shiftDown st.1 j, st.2.1, st.2.2)
    | some u =>
      match st.2.1[u]? with
      | none => .panic
      | some d => .ok (shiftDown st.1 j, st.2.1.setIfInBounds u (d - 1), st.2.2.push u)
  | .panic => .panic
  | .outOfFuel => .outOfFuel

def iterM {α : Type} (f : α → Outcome α) : Nat → α → Outcome α
  | 0, a => .ok a
  | k + 1, a =>
    match f a with
    | .ok a' => iterM f k a'
    | .panic => .panic
    | .outOfFuel => .outOfFuel

/-- `PruferEncode` (`make([]int, 0, n-2)` panics for `n < 2`) -/
def pruferEncode (g : GI) : Outcome (List Nat) :=
  if g.n < 2 then .panic
  else
    match iterM (pruferEncStep g) (g.n - 2) (List.range g.n, g.degrees.map Int.ofNat, #[]) with
    | .ok st => .ok st.2.2.toList
    | .panic => .panic
    | .outOfFuel => .outOfFuel

/-- index of the edge `{a, b}` (`a ≠ b`) in a `DenseGraph` -/
def edgeIdx (a b : Nat) : Nat := if a > b then a * (a - 1) / 2 + b else b * (b - 1) / 2 + a

/-- first `j` in `js` with `degrees[j] == 1` -/
def firstDegOne (degrees : Array Nat) : List Nat → Outcome (Option Nat)
  | [] => .ok none
  | j :: js =>
    match degrees[j]? with
    | none => .panic
    | some d => if d = 1 then .ok (some j) else firstDegOne degrees js

/-- body of the main loop of `PruferDecode` for the code entry `v`: state `(degrees, edges)` -/
def pruferDecStep (n : Nat) (st : Array Nat × Array Nat) (v : Nat) : Outcome (Array Nat × Array Nat) :=
  match firstDegOne st.1 (List.range n) with
  | .ok none => .ok st
  | .ok (some j) =>
    match setAt st.2 (edgeIdx j v) 1 with
    | .ok e =>
      match decr st.1 j with
      | .ok d1 =>
        match decr d1 v with
        | .ok d2 => .ok (d2, e)
        | .panic => .panic
        | .outOfFuel => .outOfFuel
      | .panic => .panic
      | .outOfFuel => .outOfFuel
    | .panic => .panic
    | .outOfFuel => .outOfFuel
  | .panic => .panic
  | .outOfFuel => .outOfFuel

/-- `PruferDecode` -/
def pruferDecode (p : List Nat) : Outcome Dense :=
  let n := p.length + 2
  match p.foldlM incr (Array.replicate n 1) with
  | .ok degrees =>
    match p.foldlM (pruferDecStep n) (degrees, Array.replicate (n * (n - 1) / 2) 0) with
    | .ok (deg2, edges) =>
      -- the last edge joins the first two vertices that still have degree 1
      match firstDegOne deg2 (List.range n) with
      | .ok none => newDense n edges
      | .ok (some i) =>
        match firstDegOne deg2 (List.range' (i + 1) (n - (i + 1))) with
        | .ok none => newDense n edges
        | .ok (some j) =>
          match setAt edges (j * (j - 1) / 2 + i) 1 with
          | .ok e => newDense n e
          | .panic => .panic
          | .outOfFuel => .outOfFuel
        | .panic => .panic
        | .outOfFuel => .outOfFuel
      | .panic => .panic
      | .outOfFuel => .outOfFuel
    | .panic => .panic
    | .outOfFuel => .outOfFuel
  | .panic => .panic
  | .outOfFuel => .outOfFuel

/-! ## Decoded graphs handed back to the encoders (`Graph6Encode(h)` for `h` a `*DenseGraph` / `*SparseGraph`) -/

/-- the interface answers of a `DenseGraph` value (`Neighbours` scans the row in ascending order) -/
def GI.ofDense (d : Dense) : GI :=
  { n := d.n, m := d.m
    isEdge := fun u v => d.isEdge u v == .ok true
    nbrs := fun v => (List.range d.n).filter fun u => d.isEdge v u == .ok true
    deg := fun v => d.deg.getD v 0 }

/-- the interface answers of a `SparseGraph` value -/
def GI.ofSparse (g : Sparse) : GI :=
  { n := g.n, m := g.m
    isEdge := fun u v => g.isEdge u v == .ok true
    nbrs := fun v => g.nbrs.getD v []
    deg := fun v => g.deg.getD v 0 }

/-! ## Invariants of the two graph types (what "well formed" means in C08) -/

/-- `DenseGraph`: array sizes, and `DegreeSequence` / `NumberOfEdges` agree with the adjacency relation -/
structure Dense.WF (d : Dense) : Prop where
  edges_size : d.edges.size = d.n * (d.n - 1) / 2
  deg_size : d.deg.size = d.n
  deg_eq : ∀ v, v < d.n → d.deg[v]? = some (d.toG.deg v)
  m_eq : d.m = d.toG.m

/-- `SparseGraph`: one strictly increasing neighbour list per vertex, inside `0..n-1`, without the vertex itself,
symmetric; `DegreeSequence` = lengths; `NumberOfEdges` = half the total length -/
structure Sparse.WF (g : Sparse) : Prop where
  nbrs_size : g.nbrs.size = g.n
  deg_size : g.deg.size = g.n
  sorted : ∀ (v : Nat) (l : List Nat), g.nbrs[v]? = some l → l.Pairwise (· < ·)
  range : ∀ (v : Nat) (l : List Nat), g.nbrs[v]? = some l → ∀ u ∈ l, u < g.n ∧ u ≠ v
  symm : ∀ (u v : Nat) (lu lv : List Nat), g.nbrs[u]? = some lu → g.nbrs[v]? = some lv → (v ∈ lu ↔ u ∈ lv)
  deg_eq : ∀ (v : Nat) (l : List Nat), g.nbrs[v]? = some l → g.deg[v]? = some l.length
  m_eq : 2 * g.m = (g.nbrs.toList.map List.length).sum

/-- the interface value answers as a well-formed abstract graph does -/
structure GI.Sound (g : GI) : Prop where
  wf : g.toG.WF
  nbrs_eq : ∀ v, v < g.n → g.nbrs v = g.toG.nbrs v
  deg_eq : ∀ v, v < g.n → g.deg v = g.toG.deg v
  m_eq : g.m = g.toG.m

end Codec
