import Mamba.Basic
import Mamba.Spec.Graph
/-!
# Faithful models (pattern F) of `graph/distances.go`: `Distance`, `Eccentricity`, `Girth`

Statement by statement after the Go code. `g.Neighbours(k)` is modelled by `g.nbrs k` (increasing order, as
the Dense/Sparse implementations return it); slices are `Array Nat`, every index expression is bounds
checked (`Outcome.panic`), the `container/list` queue is a `List Nat` (pop front / push back), and the
`for verticesToCheck.Len() > 0` loops take fuel (`n + 2` pops suffice; see `Props/C10.lean`).
-/
namespace GDist.Model
open GraphSpec

/-! ## Distance -/

/-- the `for _, v := range g.Neighbours(k)` loop of `Distance`; `dk = distances[k]`.
`inl r` = the function returned `r`; `inr (D, Q)` = loop finished with the new state. -/
def distInner (j dk : Nat) : List Nat → Array Nat → List Nat → Outcome (Sum Nat (Array Nat × List Nat))
  | [], D, Q => .ok (.inr (D, Q))
  | v :: vs, D, Q =>
    if h : v < D.size then
      if D[v] = 0 then                        -- distances[v] == 0  ("unseen", also true for the source)
        if v = j then .ok (.inl (dk + 1))     -- return distances[k] + 1
        else distInner j dk vs (D.set v (dk + 1)) (Q ++ [v])
      else distInner j dk vs D Q
    else .panic

/-- the `for verticesToCheck.Len() > 0` loop of `Distance` -/
def distOuter (g : G) (j : Nat) : Nat → Array Nat → List Nat → Outcome Int
  | 0, _, _ => .outOfFuel
  | _+1, _, [] => .ok (-1)
  | f+1, D, k :: Q =>
    if h : k < D.size then
      match distInner j D[k] (g.nbrs k) D Q with
      | .ok (.inl r) => .ok (r : Int)
      | .ok (.inr (D', Q')) => distOuter g j f D' Q'
      | .panic => .panic
      | .outOfFuel => .outOfFuel
    else .panic

/-- `Distance(g, i, j)` -/
def distance (g : G) (i j : Nat) (fuel : Nat := g.n + 2) : Outcome Int :=
  if i = j then .ok 0
  else distOuter g j fuel (Array.replicate g.n 0) [i]

/-! ## Eccentricity -/

structure EccSt where
  D : Array Nat
  Q : List Nat
  e : Nat
  seen : Nat

def eccInner (i dk : Nat) : List Nat → EccSt → Outcome EccSt
  | [], st => .ok st
  | l :: ls, st =>
    if h : l < st.D.size then
      if l ≠ i ∧ st.D[l] = 0 then
        let tmp := dk + 1
        eccInner i dk ls { D := st.D.set l tmp, Q := st.Q ++ [l], e := if tmp > st.e then tmp else st.e, seen := st.seen + 1 }
      else eccInner i dk ls st
    else .panic

def eccOuter (g : G) (i : Nat) : Nat → EccSt → Outcome EccSt
  | 0, _ => .outOfFuel
  | f+1, st =>
    match st.Q with
    | [] => .ok st
    | k :: Q =>
      if h : k < st.D.size then
        match eccInner i st.D[k] (g.nbrs k) { st with Q := Q } with
        | .ok st' => eccOuter g i f st'
        | .panic => .panic
        | .outOfFuel => .outOfFuel
      else .panic

/-- one iteration of the `for i` loop of `Eccentricity` (the `distances` slice is all zero at this point:
fresh for `i = 0`, explicitly zeroed otherwise) -/
def eccOne (g : G) (i : Nat) (fuel : Nat) : Outcome Int :=
  match eccOuter g i fuel { D := Array.replicate g.n 0, Q := [i], e := 0, seen := 0 } with
  | .ok st => .ok (if (st.seen : Int) = (g.n : Int) - 1 then (st.e : Int) else -1)
  | .panic => .panic
  | .outOfFuel => .outOfFuel

/-- the `for i := 0; i < n; i++` loop of `Eccentricity` over the remaining values of `i` -/
def eccAll (g : G) (fuel : Nat) : List Nat → Outcome (List Int)
  | [] => .ok []
  | i :: is =>
    match eccOne g i fuel with
    | .ok e =>
      match eccAll g fuel is with
      | .ok es => .ok (e :: es)
      | .panic => .panic
      | .outOfFuel => .outOfFuel
    | .panic => .panic
    | .outOfFuel => .outOfFuel

/-- `Eccentricity(g)` -/
def eccentricity (g : G) (fuel : Nat := g.n + 2) : Outcome (List Int) :=
  eccAll g fuel (List.range g.n)

/-- `ints.Min` / `ints.Max` of a non-empty slice -/
def minInt : List Int → Int
  | [] => 0
  | x :: xs => xs.foldl min x
def maxInt : List Int → Int
  | [] => 0
  | x :: xs => xs.foldl max x

/-- `Diameter(g)` -/
def diameterM (g : G) : Outcome Int :=
  if g.n = 0 then .ok 0 else
  match eccentricity g with
  | .ok e => if minInt e = -1 then .ok (-1) else .ok (maxInt e)
  | .panic => .panic
  | .outOfFuel => .outOfFuel

/-- `Radius(g)` -/
def radiusM (g : G) : Outcome Int :=
  if g.n = 0 then .ok 0 else
  match eccentricity g with
  | .ok e => .ok (minInt e)
  | .panic => .panic
  | .outOfFuel => .outOfFuel

/-! ## Girth (the `parentVertices` slice is NOT reset between roots) -/

structure GirthSt where
  girth : Nat
  D : Array Nat      -- distances
  P : Array Nat      -- parentVertices (persists across roots)
  Q : List Nat

def girthInner (i k dk pk : Nat) : List Nat → GirthSt → Outcome GirthSt
  | [], st => .ok st
  | j :: js, st =>
    if j ≠ pk then                                           -- j != parentVertices[k]
      if h : j < st.D.size then
        if j = i ∧ dk + 1 < st.girth then
          girthInner i k dk pk js { st with girth := dk + 1 }
        else if j ≠ i ∧ st.D[j] = 0 then
          if dk + 2 < st.girth then
            if h3 : j < st.P.size then
              girthInner i k dk pk js { st with P := st.P.set j k, D := st.D.set j (dk + 1), Q := st.Q ++ [j] }
            else .panic
          else girthInner i k dk pk js st
        else if j ≠ i ∧ dk + st.D[j] + 1 < st.girth then
          girthInner i k dk pk js { st with girth := dk + st.D[j] + 1 }
        else girthInner i k dk pk js st
      else .panic
    else girthInner i k dk pk js st

def girthOuter (g : G) (i : Nat) : Nat → GirthSt → Outcome GirthSt
  | 0, _ => .outOfFuel
  | f+1, st =>
    match st.Q with
    | [] => .ok st
    | k :: Q =>
      if h : k < st.D.size then
        if h2 : k < st.P.size then
          -- note: `parentVertices[k]` is re-read by Go at every neighbour; it can only change at index j ≠ k,
          -- and `distances[k]` likewise (only `distances[j]` with `distances[j] == 0`, j ≠ i is written; k was
          -- written before being queued or is the root with j ≠ i), so reading them once is the same.
          match girthInner i k st.D[k] st.P[k] (g.nbrs k) { st with Q := Q } with
          | .ok st' => girthOuter g i f st'
          | .panic => .panic
          | .outOfFuel => .outOfFuel
        else .panic
      else .panic

def girthRoots (g : G) (fuel : Nat) : List Nat → GirthSt → Outcome GirthSt
  | [], st => .ok st
  | i :: is, st =>
    match girthOuter g i fuel { st with D := Array.replicate g.n 0, Q := [i] } with
    | .ok st' => girthRoots g fuel is st'
    | .panic => .panic
    | .outOfFuel => .outOfFuel

/-- `Girth(g)` -/
def girthM (g : G) (fuel : Nat := g.n + 2) : Outcome Int :=
  if g.n < 3 then .ok (-1) else
  match girthRoots g fuel (List.range (g.n - 2))
      { girth := g.n + 2, D := Array.replicate g.n 0, P := Array.replicate g.n 0, Q := [] } with
  | .ok st => if st.girth = g.n + 2 then .ok (-1) else .ok (st.girth : Int)
  | .panic => .panic
  | .outOfFuel => .outOfFuel

end GDist.Model
