import Std.Data.HashMap
import Mamba.Proto
import Mamba.Model.Search
import Mamba.Spec.Iso
/-! Driver for protocol `c04seq` (see `harness/c04.go` for the line format).
The canonical-labelling oracle of the model is answered from the table carried by the request line
(the real library's answers); a question that the table does not answer makes the reply `oracle-miss`. -/
namespace Drv.C04
open Search Proto

def digits (s : String) : Array Nat := (s.toList.map fun c => c.toNat - '0'.toNat).toArray

def parseAns (perm orbits gens : String) : Option (Option Ans) :=
  if perm = "x" then some none
  else
    match (orbits.splitOn ",").mapM (fun t => t.toInt?) with
    | none => none
    | some os =>
      some (some { perm := digits perm, orbits := os.toArray,
                   gens := if gens = "" then [] else (gens.splitOn ".").map digits })

abbrev Table := Std.HashMap String (Option Ans)

def buildTable (entries : List String) : Option Table :=
  entries.foldlM (fun (t : Table) e =>
    match e.splitOn ":" with
    | [nv, mask, vb, perm, orbits, gens] =>
      (parseAns perm orbits gens).map fun a => t.insert (nv ++ ":" ++ mask ++ ":" ++ vb) a
    | _ => none) {}

def maskOfRows (rows : List (List Nat)) : Nat :=
  rows.zipIdx.foldl (fun acc (r, v) =>
    r.foldl (fun acc u => if u < v then acc ||| (1 <<< GSearch.pairIndex u v) else acc) acc) 0

def edgeCount (rows : List (List Nat)) : Nat := (rows.foldl (fun acc r => acc + r.length) 0) / 2

/-- a table miss is reported as `outOfFuel` (printed `oracle-miss`) -/
def tableOracle (t : Table) : Oracle := fun nv ne rows vb =>
  if ne ≠ (edgeCount rows : Int) ∨ rows.length ≠ nv then .outOfFuel
  else
    let key := toString nv ++ ":" ++ toString (maskOfRows rows) ++ ":" ++
      (match vb with | none => "-" | some b => toString b)
    match t.get? key with
    | some a => .ok a
    | none => .outOfFuel

def pruneFns (pred place : String) : Option ((DG → Bool) × (DG → Bool)) :=
  match GSearch.predByName pred with
  | none => none
  | some P =>
    let no : DG → Bool := fun _ => false
    let f : DG → Bool := fun g => !P g.toG
    if place = "pre" then some (f, no)
    else if place = "prune" then some (no, f)
    else if place = "both" then some (f, f)
    else some (no, no)

def stepFuel : Nat := 100000000
def maxOut : Nat := 100000000

structure Cfg where
  a : Nat
  m : Nat
  ks : List Nat

def parseCfg (s : String) : Option Cfg :=
  match s.splitOn "," with
  | [a, m, ks] =>
    match a.toNat?, m.toNat?, (if ks = "" then some [] else (ks.splitOn ".").mapM (·.toNat?)) with
    | some a, some m, some ks => some ⟨a, m, ks⟩
    | _, _, _ => none
  | _ => none

def showMasks (gs : List DG) : String := ",".intercalate (gs.map fun g => toString g.mask)

def runCfg (O : Oracle) (pre pr : DG → Bool) (n : Nat) (c : Cfg) : String :=
  match chain O pre pr stepFuel maxOut c.ks (init n c.a c.m) with
  | .ok out => toString c.a ++ "/" ++ toString c.m ++ ":" ++ toString out.length ++ ":" ++ showMasks out
  | .panic => "panic"
  | .outOfFuel => "oracle-miss"

def handle : List String → String
  | n :: pred :: place :: "cfg" :: rest =>
    let (cfgToks, tab) := rest.span (· ≠ "tab")
    match n.toNat?, pruneFns pred place, cfgToks.mapM parseCfg, buildTable (tab.drop 1) with
    | some n, some (pre, pr), some cfgs, some t =>
      ";".intercalate (cfgs.map (runCfg (tableOracle t) pre pr n))
    | _, _, _, _ => "bad-op"
  | _ => "bad-op"

end Drv.C04
