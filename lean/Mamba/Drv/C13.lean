import Mamba.Proto
import Mamba.Model.DawgSearch
/-! Driver for protocol `dsearch`:

`dsearch x<hex> x<hex> … / <searcher> ; <searcher> … / <searcher> ; … / …`

first group: the word list (strictly increasing; `x` alone is the empty word), then one `/`-group per query;
a query is a `;`-separated list of searchers (`p <blankhex> x<patternhex>` = `NewPatternSearcher(pattern, blank)`,
`a <blankhex> x<anagramhex>` = `NewAnagramSearcher(anagram, blank)`; an empty group = no searcher), all passed
to one `Search` call. Reply: `n=<NumberOfWords> / r1=[x<hex>:<id> …];r2=[…] / …` — per query the result of
`Search` and of a second `Search` with the same searcher objects; a panicking query prints `panic`. The explicit-stack model produces the reply; the structurally recursive model is run
as well and ` REC-DIFFERS` is appended if the two disagree (the Go side never prints that). -/
namespace Drv.C13
open DawgSearch Proto

def hexVal (c : Char) : Option Nat :=
  if '0' ≤ c ∧ c ≤ '9' then some (c.toNat - '0'.toNat)
  else if 'a' ≤ c ∧ c ≤ 'f' then some (c.toNat - 'a'.toNat + 10)
  else none

def hexBytes : List Char → Option (List UInt8)
  | [] => some []
  | a :: b :: r => do
    let x ← hexVal a
    let y ← hexVal b
    let t ← hexBytes r
    pure (UInt8.ofNat (16 * x + y) :: t)
  | _ => none

/-- `x6162` ↦ bytes -/
def word? (s : String) : Option Word :=
  match s.toList with
  | 'x' :: r => hexBytes r
  | _ => none

def byte? (s : String) : Option UInt8 :=
  match hexBytes s.toList with
  | some [b] => some b
  | _ => none

def hexDigit (n : Nat) : Char :=
  if n < 10 then Char.ofNat ('0'.toNat + n) else Char.ofNat ('a'.toNat + n - 10)

def showWord (w : Word) : String :=
  "x" ++ String.ofList (w.flatMap fun b => [hexDigit (b.toNat / 16), hexDigit (b.toNat % 16)])

def showRes (r : List (Word × Int)) : String :=
  "[" ++ " ".intercalate (r.map fun (w, i) => showWord w ++ ":" ++ toString i) ++ "]"

/-- strictly increasing in the order of `bytes.Compare` -/
def strictlySorted : List Word → Bool
  | a :: b :: r => decide (a < b) && strictlySorted (b :: r)
  | _ => true

def searcher? : List String → Option (Outcome SState)
  | ["p", b, pat] => do
    let b ← byte? b
    let pat ← word? pat
    pure (.ok (.pat (newPatternSearcher pat b)))
  | ["a", b, an] => do
    let b ← byte? b
    let an ← word? an
    pure (do let a ← newAnagramSearcher an b; pure (.ana a))
  | _ => none

def sequenceO {α : Type} : List (Outcome α) → Outcome (List α)
  | [] => .ok []
  | x :: r => do let a ← x; let t ← sequenceO r; pure (a :: t)

/-- one `Search` call with fresh searchers, then a second one with the same searcher objects -/
def runQuery (t : Node) (ss : List SState) : Outcome String := do
  let (r1, ss1) ← search goOps t ss
  let (r2, _) ← search goOps t ss1
  let (q1, qs1) ← searchRec goOps t ss
  let (q2, _) ← searchRec goOps t qs1
  let tail := if r1 = q1 ∧ r2 = q2 then "" else " REC-DIFFERS"
  pure ("r1=" ++ showRes r1 ++ ";r2=" ++ showRes r2 ++ tail)

def query? (toks : List String) : Option (List (Outcome SState)) :=
  match toks with
  | [] => some []
  | _ => (splitAt ";" toks).mapM searcher?

def handle (args : List String) : String :=
  match splitAt "/" args with
  | wl :: queries =>
    match wl.mapM word?, queries.mapM query? with
    | some ws, some qs =>
      if strictlySorted ws then
        let t := build ws
        let replies := qs.map fun q => showOutcome id (do let ss ← sequenceO q; runQuery t ss)
        " / ".intercalate (("n=" ++ toString t.numWords) :: replies)
      else "err"
    | _, _ => "bad-op"
  | [] => "bad-op"

end Drv.C13
