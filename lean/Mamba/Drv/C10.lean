import Mamba.Proto
import Mamba.Spec.Graph
import Mamba.Spec.Distance
import Mamba.Model.Distances
import Mamba.Model.Components
import Mamba.Model.Bicon
import Mamba.Model.Subgraph
/-! Driver for protocol `c10`:  `c10 n m u1 v1 ... um vm [p0 ... p_{n-1}]`  (the trailing permutation is used by
the Go oracle only). Reply: one canonical line with every C10 quantity computed by the specifications of
`Spec/Distance.lean`; `F=ok` states that the faithful models of `Distance`, `Eccentricity`, `Diameter`,
`Radius`, `Girth` (`Model/Distances.lean`) returned the same values as the specifications on this input. -/
namespace Drv.C10
open GraphSpec GDist Proto

def showIntsL (l : List Int) : String := "[" ++ " ".intercalate (l.map toString) ++ "]"
def showLists (s : List (List Nat)) : String := "[" ++ " ".intercalate (s.map showNats) ++ "]"

def lexLt : List Nat → List Nat → Bool
  | [], [] => false
  | [], _ :: _ => true
  | _ :: _, [] => false
  | a :: as, b :: bs => a < b || (a == b && lexLt as bs)

def insertLex (x : List Nat) : List (List Nat) → List (List Nat)
  | [] => [x]
  | y :: ys => if lexLt y x then y :: insertLex x ys else x :: y :: ys

def sortLex (l : List (List Nat)) : List (List Nat) := l.foldr insertLex []

/-- agreement of the faithful models with the specifications on this graph -/
def faithful (g : G) (D : List (List Int)) : String :=
  let n := g.n
  let dm : List (List (Outcome Int)) := (List.range n).map fun i => (List.range n).map fun j => Model.distance g i j
  let okD := dm == D.map (·.map Outcome.ok)
  let okE := Model.eccentricity g == Outcome.ok (eccs g)
  let okDi := Model.diameterM g == Outcome.ok (diameter g)
  let okR := Model.radiusM g == Outcome.ok (radius g)
  let okG := Model.girthM g == Outcome.ok (girth g)
  let okC1 := (List.range n).all fun v => Model.connectedComponent g v == Outcome.ok (component g v)
  let okCs := match Model.connectedComponents g with
    | .ok cs => sortLex cs == components g
    | _ => false
  if okD && okE && okDi && okR && okG && okC1 && okCs then "ok"
  else "differs:" ++ (if okD then "" else "Distance,") ++ (if okE then "" else "Eccentricity,") ++
    (if okDi then "" else "Diameter,") ++ (if okR then "" else "Radius,") ++ (if okG then "" else "Girth,") ++
    (if okC1 then "" else "ConnectedComponent,") ++ (if okCs then "" else "ConnectedComponents,")

/-- agreement of the faithful models of the exponential-reference functions (protocol `c10` only) -/
def faithful2 (g : G) : String :=
  let okB := match Model.biconnectedComponents g with
    | .ok (bs, arts) => sortLex bs == sortLex (blocks g) && Model.sortInts arts == articulation g
    | _ => false
  let n := g.n
  let bounds : List Int := (List.range (n + 3)).map fun (b : Nat) => (Int.ofNat b) - 1
  let ic := (List.range (n + 1)).map (numInducedCycles g)
  let ip := (List.range n).map (numInducedPaths g)
  let okIC := bounds.all fun b => match Model.numberOfInducedCycles g b with
    | .ok r => r.length == n + 1 && r.take (cycBound g b + 1) == ic.take (cycBound g b + 1)
    | _ => false
  let okIP := bounds.all fun b => match Model.numberOfInducedPaths g b with
    | .ok r => r.length == n && r.take (pathBound g b + 1) == ip.take (pathBound g b + 1)
    | _ => false
  let okCy := if g.m ≤ n + 12 then Model.numberOfCycles g == Outcome.ok (numCyclesList g) else true
  (if okB then "" else ",BiconnectedComponents") ++ (if okIC then "" else ",NumberOfInducedCycles") ++
    (if okIP then "" else ",NumberOfInducedPaths") ++ (if okCy then "" else ",NumberOfCycles")

def reply (g : G) : String :=
  let n := g.n
  let D : List (List Int) := (List.range n).map fun s => (distRow g s).map optToInt
  let ic := (List.range (n + 1)).map (numInducedCycles g)
  let ip := (List.range n).map (numInducedPaths g)
  let bounds : List Int := (List.range (n + 3)).map fun (b : Nat) => (Int.ofNat b) - 1
  "D=[" ++ ";".intercalate (D.map fun r => " ".intercalate (r.map toString)) ++ "]" ++
  " ecc=" ++ showIntsL (eccs g) ++
  " diam=" ++ toString (diameter g) ++
  " rad=" ++ toString (radius g) ++
  " girth=" ++ toString (girth g) ++
  " cc=" ++ showLists (components g) ++
  " cc1=" ++ showLists ((List.range n).map (component g)) ++
  " blocks=" ++ showLists (sortLex (blocks g)) ++
  " art=" ++ showNats (articulation g) ++
  " cyc=" ++ (if g.m ≤ n + 14 then showNats (numCyclesList g) else "-") ++
  " icyc=" ++ "|".intercalate (bounds.map fun b => toString b ++ ":" ++ showNats (ic.take (cycBound g b + 1))) ++
  " ipath=" ++ "|".intercalate (bounds.map fun b => toString b ++ ":" ++ showNats (ip.take (pathBound g b + 1))) ++
  " F=" ++ faithful g D ++ faithful2 g

/-- same graph with the adjacency relation stored in a table (the parsed `ofEdges` relation searches the edge list
at every query); protocol glue, not part of any theorem -/
def tabulate (g : G) : G :=
  let n := g.n
  let t : Array Bool := Array.ofFn (n := n * n) fun idx => g.adj (idx.val / n) (idx.val % n)
  { n := n, adj := fun u v => u < n && v < n && t.getD (u * n + v) false }

def handle (args : List String) : String :=
  match GraphSpec.parse args with
  | some (g, _) => reply (tabulate g)
  | none => "bad-op"

/-- protocol `c10d` (larger graphs): the polynomial quantities only -/
def replyD (g : G) : String :=
  let n := g.n
  let D : List (List Int) := (List.range n).map fun s => (distRow g s).map optToInt
  "D=[" ++ ";".intercalate (D.map fun r => " ".intercalate (r.map toString)) ++ "]" ++
  " ecc=" ++ showIntsL (eccs g) ++
  " diam=" ++ toString (diameter g) ++
  " rad=" ++ toString (radius g) ++
  " girth=" ++ toString (girth g) ++
  " cc=" ++ showLists (components g) ++
  " cc1=" ++ showLists ((List.range n).map (component g)) ++
  " art=" ++ showNats (articulation g) ++
  " F=" ++ faithful g D

def handleD (args : List String) : String :=
  match GraphSpec.parse args with
  | some (g, _) => replyD (tabulate g)
  | none => "bad-op"

/-- protocol `c10e` (long thin graphs, several hundred vertices): eccentricities, diameter and radius only -/
def replyE (g : G) : String :=
  let so (o : Outcome Int) : String := match o with | .ok v => toString v | .panic => "panic" | .outOfFuel => "fuel"
  "ecc=" ++ (match GDist.Model.eccentricity g with | .ok e => showIntsL e | .panic => "panic" | .outOfFuel => "fuel") ++
  " diam=" ++ so (GDist.Model.diameterM g) ++
  " rad=" ++ so (GDist.Model.radiusM g)

def handleE (args : List String) : String :=
  match GraphSpec.parse args with
  | some (g, _) => replyE (tabulate g)
  | none => "bad-op"

end Drv.C10
