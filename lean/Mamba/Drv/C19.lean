import Mamba.Proto
import Mamba.Model.Footprint
/-! Driver for protocol `c19` (property C19): `c19 <kind> <sizes...>` describes a concurrent scenario.

The Lean model cannot run Go code: the model side validates the request exactly like the harness and answers
with the expected *shape* (`ok <kind> k=<goroutines>`; for `shards` also the number of isomorphism classes of
graphs on `n` vertices, which the shards together must produce). Before answering `ok` it executes the
footprint model (`Footprint.run`) of the scenario's shape — `k` goroutines, each reading the shared value and
updating a value of its own — under a round-robin schedule and under the sequential schedule, and checks
that logs and world agree (what `Footprint.interleaving_eq_sequential` proves for every schedule). The real
comparison "concurrent result = result alone" is made by the harness on the Go code. -/
namespace Drv.C19
open Footprint

/-- decimal natural number with 1..9 digits in `[lo, hi]` (same rule as `c19Int` in the harness) -/
def num? (s : String) (lo hi : Nat) : Option Nat :=
  let cs := s.toList
  if cs.isEmpty || cs.length > 9 || !cs.all Char.isDigit then none
  else
    let v := cs.foldl (fun a c => a * 10 + (c.toNat - 48)) 0
    if lo ≤ v ∧ v ≤ hi then some v else none

/-- number of graphs on n vertices up to isomorphism, n ≤ 8 (OEIS A000088) -/
def classes : List Nat := [1, 1, 2, 4, 11, 34, 156, 1044, 12346]

/-- goroutine `t`'s operation in the scenario shape: read the shared value (identity 0) and its own value
(identity `t+1`), update its own value, report it. -/
def shapeOp (t : Nat) : Op Nat Nat Nat :=
  { reads := [0, t + 1], writes := [t + 1],
    act := fun v => (v (t + 1) * 31 + v 0 + t, fun i => if i = t + 1 then v (t + 1) * 31 + v 0 + t else v i) }

def shapeProgs (k len : Nat) : Nat → List (Op Nat Nat Nat) :=
  fun t => if t < k then List.replicate len (shapeOp t) else []

/-- round-robin schedule: `len` rounds over goroutines `k-1, ..., 0` -/
def roundRobin (k len : Nat) : List Nat := (List.replicate len ((List.range k).reverse)).flatten

/-- run the model of the shape under round-robin and sequentially; do results and world agree? -/
def modelAgrees (k len : Nat) : Bool :=
  let w0 : Nat → Nat := fun i => if i = 0 then 7 else i
  let c0 := Cfg.init (shapeProgs k len) w0
  let a := run (roundRobin k len) c0
  let b := run (seqSched k (shapeProgs k len)) c0
  (List.range k).all (fun t => a.log t == b.log t && a.log t == (runOps (shapeProgs k len t) w0).1) &&
  (List.range (k + 1)).all (fun i => a.world i == b.world i)

def reply (kind : String) (k : Nat) (extra : String := "") : String :=
  if modelAgrees k 3 then "ok " ++ kind ++ extra else "model-interference"

def handle : List String → String
  | ["shards", n, m] =>
    match num? n 0 8, num? m 1 8 with
    | some n, some m =>
      reply "shards" m (" n=" ++ toString n ++ " m=" ++ toString m ++ " total=" ++ toString (classes.getD n 0))
    | _, _ => "bad-op"
  | ["canon", k, n, reps, seed] =>
    match num? k 1 16, num? n 1 12, num? reps 1 50, num? seed 0 999999999 with
    | some k, some _, some _, some _ => reply "canon" k (" k=" ++ toString k)
    | _, _, _, _ => "bad-op"
  | ["iters", k, size] =>
    match num? k 1 16, num? size 0 6 with
    | some k, some _ => reply "iters" k (" k=" ++ toString k)
    | _, _ => "bad-op"
  | ["dawg", k, words, seed] =>
    match num? k 1 16, num? words 0 400, num? seed 0 999999999 with
    | some k, some _, some _ => reply "dawg" k (" k=" ++ toString k)
    | _, _, _ => "bad-op"
  | ["gobs", k, kind, n, seed] =>
    if kind = "dense" || kind = "sparse" || kind = "compl" || kind = "induced" then
      match num? k 1 16, num? n 0 10, num? seed 0 999999999 with
      | some k, some _, some _ => reply "gobs" k (" k=" ++ toString k)
      | _, _, _ => "bad-op"
    else "bad-op"
  | [kind, k, seed] =>
    if kind = "comb" || kind = "sints" || kind = "build" then
      match num? k 1 16, num? seed 0 999999999 with
      | some k, some _ => reply kind k (" k=" ++ toString k)
      | _, _ => "bad-op"
    else "bad-op"
  | _ => "bad-op"

end Drv.C19
