import Mamba.Proto
import Mamba.Model.SortInts
import Mamba.Model.IntSort
/-! Driver for property C17.

Protocol `si` (package sortints), `|` separates argument lists, `;` separates the operations of a history:
```
si new x...                         NewSortedInts(x...)
si range start end step             Range
si remove x | s...                  s.Remove(x)
si add s... | x...                  s.Add(x...)
si um a... | spare... | b...        a.Union(b) where a has the spare capacity content `spare`
si bin a... | b...                  u=Union i=Intersection n=IntersectionSize m=SetMinus x=XOR cs=ContainsSorted(a,b)
si compl n | a...                   Complement(n, a)
si has x | a...                     ContainsSingle(a, x)
si hist s... | spare... ; op ; ...  op ∈ add x... , rm x , un b...   — value of the receiver after every op
```
Protocol `srt` (package ints):
```
srt sort x...            Sort
srt ins a b | data...    insertionSort(data, a, b)        (verif hook)
srt heap a b | data...   heapSort(data, a, b)             (verif hook)
srt qs a b md | data...  quickSort(data, a, b, md)        (verif hook)
srt piv lo hi | data...  doPivot: `piv-ok` iff the partition contract that quickSort needs holds on the result
srt pivx lo hi | data... doPivot: exact result (state level, not part of the generated stream)
srt mdx n                maxDepth(n)                      (state level, not part of the generated stream)
```
-/
namespace Drv.C17
open Proto

def showO (o : Outcome (List Int)) : String := showOutcome showInts o
def showA (o : Outcome (Array Int)) : String := showOutcome (fun a => showInts a.toList) o

/-- new spare capacity content of the receiver after `a.Union(b)` (history tracking only) -/
def unionSpare (a spare b : List Int) : List Int :=
  let newSize := a.length + b.length - SortInts.intersectionSize a b
  if a.length + spare.length ≥ newSize then (a ++ spare).drop newSize else []

def histGo (s spare : List Int) (acc : String) : List (List String) → String
  | [] => acc
  | op :: rest =>
    let step : Option (Outcome (List Int) × List Int) :=
      match op with
      | "add" :: xs => (ints? xs).map fun x => (SortInts.add s x, [])
      | ["rm", x] => (int? x).map fun x =>
          let r := SortInts.remove s x
          (r, match r with
              | .ok s' => if s'.length < s.length then (s.getLast?.toList ++ spare) else spare
              | _ => spare)
      | "un" :: bs => (ints? bs).map fun b => (SortInts.unionM s spare b, unionSpare s spare b)
      | _ => none
    match step with
    | none => "bad-op"
    | some (.ok s', spare') => histGo s' spare' (acc ++ (if acc.isEmpty then "" else ";") ++ showInts s') rest
    | some (.panic, _) => "panic"
    | some (.outOfFuel, _) => "outoffuel"

def handleSi : List String → String
  | "new" :: xs =>
    match ints? xs with
    | some x => showO (SortInts.newSortedInts x)
    | none => "bad-op"
  | ["range", s, e, st] =>
    match int? s, int? e, int? st with
    | some s, some e, some st => showO (SortInts.range s e st)
    | _, _, _ => "bad-op"
  | "remove" :: x :: "|" :: s =>
    match int? x, ints? s with
    | some x, some s => showO (SortInts.remove s x)
    | _, _ => "bad-op"
  | "add" :: rest =>
    match (splitAt "|" rest).map ints? with
    | [some s, some x] => showO (SortInts.add s x)
    | _ => "bad-op"
  | "um" :: rest =>
    match (splitAt "|" rest).map ints? with
    | [some a, some spare, some b] => showO (SortInts.unionM a spare b)
    | _ => "bad-op"
  | "bin" :: rest =>
    match (splitAt "|" rest).map ints? with
    | [some a, some b] =>
      "u=" ++ showInts (SortInts.union a b) ++ " i=" ++ showInts (SortInts.intersection a b)
        ++ " n=" ++ toString (SortInts.intersectionSize a b) ++ " m=" ++ showInts (SortInts.setMinus a b)
        ++ " x=" ++ showInts (SortInts.xor a b) ++ " cs=" ++ toString (SortInts.containsSorted a b)
    | _ => "bad-op"
  | "compl" :: n :: "|" :: a =>
    match int? n, ints? a with
    | some n, some a => showInts (SortInts.complement n a)
    | _, _ => "bad-op"
  | "has" :: x :: "|" :: a =>
    match int? x, ints? a with
    | some x, some a => toString (SortInts.containsSingle a x)
    | _, _ => "bad-op"
  | "hist" :: rest =>
    match splitAt ";" rest with
    | init :: ops =>
      match (splitAt "|" init).map ints? with
      | [some s, some spare] => histGo s spare "" ops
      | _ => "bad-op"
    | [] => "bad-op"
  | _ => "bad-op"

/-- What `quickSort` needs from `doPivot(data, lo, hi) = (mlo, mhi)`: ordered bounds, frame, permutation of
the range, `data[lo:mlo] ≤ data[mlo:mhi] ≤ data[mhi:hi]` element-wise and `data[mlo:mhi]` constant. -/
def pivContract (d0 d : Array Int) (lo hi mlo mhi : Int) : Bool :=
  let l0 := d0.toList
  let l := d.toList
  let lo' := lo.toNat; let hi' := hi.toNat; let mlo' := mlo.toNat; let mhi' := mhi.toNat
  let left := (l.drop lo').take (mlo' - lo')
  let mid := (l.drop mlo').take (mhi' - mlo')
  let right := (l.drop mhi').take (hi' - mhi')
  decide (0 ≤ lo ∧ lo ≤ mlo ∧ mlo ≤ mhi ∧ mhi ≤ hi ∧ hi ≤ l.length) &&
  (l.length == l0.length) && (l.take lo' == l0.take lo') && (l.drop hi' == l0.drop hi') &&
  (((l.drop lo').take (hi' - lo')).mergeSort (fun a b => decide (a ≤ b))
     == ((l0.drop lo').take (hi' - lo')).mergeSort (fun a b => decide (a ≤ b))) &&
  left.all (fun u => (mid ++ right).all (fun v => decide (u ≤ v))) &&
  mid.all (fun u => mid.all (fun v => u == v) && right.all (fun v => decide (u ≤ v)))

def handleSrt : List String → String
  | "sort" :: xs =>
    match ints? xs with
    | some x => showA (IntSort.sort IntSort.genCfg x.toArray)
    | none => "bad-op"
  | "ins" :: a :: b :: "|" :: ds =>
    match int? a, int? b, ints? ds with
    | some a, some b, some d => showA (IntSort.insertionSort d.toArray a b)
    | _, _, _ => "bad-op"
  | "heap" :: a :: b :: "|" :: ds =>
    match int? a, int? b, ints? ds with
    | some a, some b, some d => showA (IntSort.heapSort IntSort.genCfg d.toArray a b)
    | _, _, _ => "bad-op"
  | "qs" :: a :: b :: md :: "|" :: ds =>
    match int? a, int? b, nat? md, ints? ds with
    | some a, some b, some md, some d => showA (IntSort.quickSort IntSort.genCfg (md + 2) d.toArray a b md)
    | _, _, _, _ => "bad-op"
  | "piv" :: lo :: hi :: "|" :: ds =>
    match int? lo, int? hi, ints? ds with
    | some lo, some hi, some d =>
      match IntSort.doPivot IntSort.genCfg d.toArray lo hi with
      | .ok (d', mlo, mhi) => if pivContract d.toArray d' lo hi mlo mhi then "piv-ok" else "piv-bad"
      | .panic => "panic"
      | .outOfFuel => "outoffuel"
    | _, _, _ => "bad-op"
  | "pivx" :: lo :: hi :: "|" :: ds =>
    match int? lo, int? hi, ints? ds with
    | some lo, some hi, some d =>
      match IntSort.doPivot IntSort.genCfg d.toArray lo hi with
      | .ok (d', mlo, mhi) => toString mlo ++ " " ++ toString mhi ++ " " ++ showInts d'.toList
      | .panic => "panic"
      | .outOfFuel => "outoffuel"
    | _, _, _ => "bad-op"
  | ["mdx", n] =>
    match nat? n with
    | some n => showOutcome toString (IntSort.maxDepth IntSort.genCfg n)
    | none => "bad-op"
  | _ => "bad-op"

end Drv.C17
