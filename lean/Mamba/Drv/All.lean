import Mamba.Proto
import Mamba.Drv.C18
import Mamba.Drv.C13
import Mamba.Drv.C20
import Mamba.Drv.C05
import Mamba.Drv.C19

namespace Drv

def dispatch (line : String) : String :=
  match Proto.words line with
  | "ds" :: args => C18.handle args
  | "dsearch" :: args => C13.handle args
  | "tsp" :: args => C20.handleExact args
  | "tspc" :: args => C20.handleCalls args
  | "tspf" :: args => C20.handleFault args
  | "c05" :: args => C05.handle args
  | "c19" :: args => C19.handle args
  | _ => "bad-op"

end Drv
