import Mamba.Proto
import Mamba.Drv.C18
import Mamba.Drv.C13
import Mamba.Drv.C20
import Mamba.Drv.C05
import Mamba.Drv.C19
import Mamba.Drv.C16
import Mamba.Drv.C17
import Mamba.Drv.C07
import Mamba.Drv.C08
import Mamba.Drv.C09
import Mamba.Drv.C10
import Mamba.Drv.C06
import Mamba.Drv.C03
import Mamba.Drv.C04
import Mamba.Drv.C11
import Mamba.Drv.C12
import Mamba.Drv.C15
import Mamba.Drv.C01
import Mamba.Drv.C01F
import Mamba.Drv.C02

namespace Drv

def dispatch (line : String) : String :=
  match Proto.words line with
  | "ds" :: args => C18.handle args
  | "dsearch" :: args => C13.handle args
  | "tsp" :: args => C20.handleExact args
  | "tspc" :: args => C20.handleCalls args
  | "tspf" :: args => C20.handleFault args
  | "c05" :: args => C05.handle args
  | "c19" :: args => C19.handle args
  | "coeffu" :: args => C16.handle ("coeffu" :: args)
  | "coeff" :: args => C16.handle ("coeff" :: args)
  | "coeffs" :: args => C16.handle ("coeffs" :: args)
  | "rank" :: args => C16.handle ("rank" :: args)
  | "unrank" :: args => C16.handle ("unrank" :: args)
  | "colex" :: args => C16.handle ("colex" :: args)
  | "si" :: args => C17.handleSi args
  | "srt" :: args => C17.handleSrt args
  | "g6" :: args => C07.handleG6 args
  | "s6" :: args => C07.handleS6 args
  | "mc" :: args => C07.handleMc args
  | "mcm" :: args => C07.handleMcm args
  | "pe" :: args => C07.handlePe args
  | "pd" :: args => C07.handlePd args
  | "fmt" :: args => C07.handleFmt args
  | "g6d" :: args => C08.handleG6d args
  | "s6d" :: args => C08.handleS6d args
  | "c09" :: args => C09.handle args
  | "c09w" :: args => C09.handleW args
  | "c09L" :: _ => "skip"
  | "c10" :: args => C10.handle args
  | "c10d" :: args => C10.handleD args
  | "c10e" :: args => C10.handleE args
  | "c06" :: args => C06.handle args
  | "c03chain" :: args => C03.handleChain args
  | "c03cls" :: args => C03.handleCls args
  | "c04seq" :: args => C04.handle args
  | "c03big" :: args => C03.handleBig args
  | "c04big" :: pred :: n :: _ => C03.handleBig [pred, n, "1", "pre"]
  | "c03sub" :: args => C03.handleSub args
  | "c03fn" :: args => C03.handleFnOk args
  | "c03fnx" :: args => C03.handleFn args
  | "planar" :: args => C11.handlePlanar args
  | "minorcert" :: args => C11.handleCert args
  | "pknown" :: args => C11.handleKnown args
  | "pemb" :: args => C11.handleEmb args
  | "dawg" :: args => C12.handleDawg args
  | "gob" :: args => C12.handleGob args
  | "gobdec" :: args => C12.handleGobDec args
  | "varint" :: args => C12.handleVarint args
  | "it" :: args => C15.handle args
  | "canon" :: args => C01.handleCanon args
  | "canonx" :: _ => "skip"
  | "canon2" :: args => C01.handleCanon2 args
  | "aut" :: args => C02.handleAut args
  | "autx" :: _ => "skip"
  | "histx" :: _ => "skip"
  | "hist" :: args => C02.handleHist args
  | "autchk" :: args => C02.handleChk args
  | "canonf" :: args => C01F.handleCanonF args
  | "canonfv" :: args => C01F.handleCanonFV args
  | "histf" :: args => C01F.handleHistF args
  | _ => "bad-op"

end Drv
