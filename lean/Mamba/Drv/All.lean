import Mamba.Proto
import Mamba.Drv.C18

namespace Drv

def dispatch (line : String) : String :=
  match Proto.words line with
  | "ds" :: args => C18.handle args
  | _ => "bad-op"

end Drv
