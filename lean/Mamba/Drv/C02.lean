import Mamba.Proto
import Mamba.Model.IR
import Mamba.Spec.Aut
import Mamba.Drv.C01
/-! Driver for the C02 protocols.

* `aut <graph> [; class]*` — reply `canon=<canonical graph> orbits=<smallest-rep array> aut=<|Aut|>`: canonical graph,
  orbit partition and group order read off the equal-certificate leaves of the unpruned tree started from the class
  colouring.
* `autx ...` — oracle only, both sides reply `skip`.
* `hist <N> <M> | <graph> [; class]* | <graph> ...` — a storage-reuse history: one `aut` reply per graph joined by ` | `
  (the model has no storage; the Go side compares reused storage with fresh calls).
* `autchk <graph> [; perm]*` — the verified checkers on explicit permutations:
  `isaut=[flags] orbits=<array> closure=<size>` (ties the harness's oracle helpers to `Spec/Aut.lean`).
-/
namespace Drv.C02
open Proto IR

/-- classes as lists of vertices → (number of classes, class index function); `none` if not a partition of `0..n-1`
into non-empty classes -/
def classFn (n : Nat) (cls : List (List Nat)) : Option (Nat × (Nat → Nat)) :=
  if cls.isEmpty then some (1, fun _ => 0) else
  let all := cls.flatten
  if all.length != n || !(List.range n).all (fun v => all.contains v) || cls.any (·.isEmpty) then none
  else
    let arr : Array Nat := (List.range n).map (fun v => (cls.findIdx (·.contains v))) |>.toArray
    some (cls.length, fun v => col arr v)

def parseCase (toks : List String) : Option (G × Nat × (Nat → Nat)) :=
  match Drv.C01.parseG toks with
  | some (g, r) =>
    let groups := (splitAt ";" r).filter (· ≠ [])
    match groups.mapM nats? with
    | some cls =>
      match classFn g.n cls with
      | some (k, f) => some (g, k, f)
      | none => none
    | none => none
  | none => none

def autReply (g : G) (k : Nat) (f : Nat → Nat) : String :=
  let s := initSt g k f
  let auts := autGroupFrom g s
  "canon=" ++ (canonGraphFrom g s).show ++ " orbits=" ++ showNats (AutSpec.orbitsOf g.n auts).toList ++
    " aut=" ++ toString (if g.n == 0 then 1 else auts.length)

def handleAut (toks : List String) : String :=
  match parseCase toks with
  | some (g, k, f) => autReply g k f
  | none => "bad-op"

def handleHist : List String → String
  | _ :: _ :: "|" :: rest =>
    let cases := splitAt "|" rest
    match cases.mapM parseCase with
    | some cs => " | ".intercalate (cs.map fun (g, k, f) => autReply g k f)
    | none => "bad-op"
  | _ => "bad-op"

def handleChk (toks : List String) : String :=
  match Drv.C01.parseG toks with
  | some (g, r) =>
    let groups := (splitAt ";" r).filter (· ≠ [])
    match groups.mapM nats? with
    | some ps =>
      let ps := ps.map List.toArray
      let flags := ps.map (fun p => if AutSpec.isAutomorphism g p then 1 else 0)
      let good := ps.filter (AutSpec.isPerm g.n)
      "isaut=" ++ showNats flags ++ " orbits=" ++ showNats (AutSpec.orbitsOf g.n good).toList ++
        " closure=" ++ toString (AutSpec.closure g.n good 2000).length
    | none => "bad-op"
  | none => "bad-op"

end Drv.C02
