import Mamba.Proto
import Mamba.Model.Codec
import Mamba.Spec.Formats
/-! Driver for the C07 protocols (graphs are `n m u1 v1 ... um vm`; byte strings are hex, `-` = empty):

* `g6 <graph>`   → `hex=<Graph6Encode> dec=<Graph6Decode(enc)> hdr=<Graph6Decode(">>graph6<<"+enc)>` (`hdr=same` when equal to `dec`)
* `s6 <graph>`   → the same for sparse6
* `mc <graph>`   → `hex=<MulticodeEncode> dec=<MulticodeDecode(enc)>`
* `mcm <k> <graph>^k` → `hex=<concatenation> dec=<G1>;<G2>;...` through `MulticodeDecodeMultiple`
* `pe <tree>`    → `code=[...] tree=<PruferDecode(code)>`
* `pd <k> c1..ck`→ `tree=<PruferDecode(code)> code=[PruferEncode(tree)]`

A decoded graph is printed as `n=<N()> m=<M()> e=<edges by IsEdge / Neighbours>`. -/
namespace Drv.C07
open Codec Proto

def hexDigit (d : Nat) : Char := if d < 10 then Char.ofNat (48 + d) else Char.ofNat (87 + d)

def toHex (s : Bytes) : String :=
  if s.size = 0 then "-" else
  String.ofList (s.foldr (fun c acc => hexDigit (c / 16 % 16) :: hexDigit (c % 16) :: acc) [])

def hexVal (c : Char) : Option Nat :=
  if '0' ≤ c && c ≤ '9' then some (c.toNat - 48)
  else if 'a' ≤ c && c ≤ 'f' then some (c.toNat - 87)
  else none

def fromHex (s : String) : Option Bytes :=
  if s = "-" then some #[] else
  let rec go : List Char → Array Nat → Option Bytes
    | [], acc => some acc
    | a :: b :: r, acc =>
      match hexVal a, hexVal b with
      | some x, some y => go r (acc.push (16 * x + y))
      | _, _ => none
    | _, _ => none
  go s.toList #[]

/-- parse `n m u1 v1 ...` -/
def parseGraph (toks : List String) : Option (Nat × List (Nat × Nat) × List String) :=
  match toks with
  | n :: m :: rest =>
    match n.toNat?, m.toNat? with
    | some n, some m =>
      let rec pairs : Nat → List String → List (Nat × Nat) → Option (List (Nat × Nat) × List String)
        | 0, r, acc => some (acc.reverse, r)
        | k+1, u :: v :: r, acc =>
          match u.toNat?, v.toNat? with
          | some u, some v => pairs k r ((u, v) :: acc)
          | _, _ => none
        | _, _, _ => none
      match pairs m rest [] with
      | some (es, r) => some (n, es, r)
      | none => none
    | _, _ => none
  | _ => none

/-- the interface answers of the graph with the given edges (loops / out-of-range pairs ignored), built on
neighbour arrays so that graphs with 258048 vertices are affordable -/
def mkGI (n : Nat) (es : List (Nat × Nat)) : GI :=
  let nb : Array (List Nat) := es.foldl (fun nb (u, v) =>
      if u ≠ v && u < n && v < n then (nb.modify u (insertSorted v)).modify v (insertSorted u) else nb)
    (Array.replicate n [])
  { n := n
    m := (nb.foldl (fun a l => a + l.length) 0) / 2
    isEdge := fun u v => (nb.getD u []).contains v
    nbrs := fun v => nb.getD v []
    deg := fun v => (nb.getD v []).length }

def showPairs (es : List (Nat × Nat)) : String :=
  " ".intercalate (es.map fun (u, v) => toString u ++ "-" ++ toString v)

/-- a `DenseGraph` as the harness reads it: `N()`, `M()`, `IsEdge` on all pairs -/
def showDense (d : Dense) : String :=
  let es : Outcome (List (Nat × Nat)) := (List.range d.n).foldlM (fun acc v =>
      (List.range v).foldlM (fun acc u =>
        match d.isEdge u v with
        | .ok true => .ok ((u, v) :: acc)
        | .ok false => .ok acc
        | .panic => .panic
        | .outOfFuel => .outOfFuel) acc) []
  match es with
  | .ok es => "n=" ++ toString d.n ++ " m=" ++ toString d.m ++ " e=" ++ showPairs es.reverse
  | _ => "panic"

/-- a `SparseGraph` as the harness reads it: `N()`, `M()`, `Neighbours(v)` below `v` -/
def showSparse (g : Sparse) : String :=
  let es := (List.range g.n).flatMap fun v => ((g.nbrs.getD v []).filter (· < v)).map fun u => (u, v)
  "n=" ++ toString g.n ++ " m=" ++ toString g.m ++ " e=" ++ showPairs es

def showOpt {α : Type} (f : α → String) : Outcome (Option α) → String
  | .ok (some a) => f a
  | .ok none => "err"
  | .panic => "panic"
  | .outOfFuel => "outoffuel"

def withHdr (dec hdr : String) : String := if dec = hdr then "same" else hdr

def handleG6 (toks : List String) : String :=
  match parseGraph toks with
  | some (n, es, []) =>
    match g6Encode (mkGI n es) with
    | .ok s =>
      let dec := showOpt showDense (g6Decode s)
      let hdr := showOpt showDense (g6Decode (g6Magic.toArray ++ s))
      "hex=" ++ toHex s ++ " dec=" ++ dec ++ " hdr=" ++ withHdr dec hdr
    | .panic => "panic"
    | .outOfFuel => "outoffuel"
  | _ => "bad-op"

def handleS6 (toks : List String) : String :=
  match parseGraph toks with
  | some (n, es, []) =>
    match s6Encode (mkGI n es) with
    | .ok s =>
      let dec := showOpt showSparse (s6Decode s)
      let hdr := showOpt showSparse (s6Decode (s6Magic.toArray ++ s))
      "hex=" ++ toHex s ++ " dec=" ++ dec ++ " hdr=" ++ withHdr dec hdr
    | .panic => "panic"
    | .outOfFuel => "outoffuel"
  | _ => "bad-op"

def handleMc (toks : List String) : String :=
  match parseGraph toks with
  | some (n, es, []) =>
    match mcEncode (mkGI n es) with
    | .ok s => "hex=" ++ toHex s ++ " dec=" ++ showOutcome showDense (mcDecode s)
    | .panic => "panic"
    | .outOfFuel => "outoffuel"
  | _ => "bad-op"

partial def encodeAll : Nat → List String → Bytes → Option (Outcome Bytes)
  | 0, [], acc => some (.ok acc)
  | 0, _, _ => none
  | k+1, toks, acc =>
    match parseGraph toks with
    | some (n, es, rest) =>
      match mcEncode (mkGI n es) with
      | .ok s => encodeAll k rest (acc ++ s)
      | o => some o
    | none => none

def handleMcm (toks : List String) : String :=
  match toks with
  | k :: rest =>
    match nat? k with
    | some k =>
      match encodeAll k rest #[] with
      | some (.ok s) =>
        "hex=" ++ toHex s ++ " dec=" ++
          showOutcome (fun gs => ";".intercalate (gs.toList.map showDense)) (mcDecodeMultiple s)
      | some .panic => "panic"
      | some .outOfFuel => "outoffuel"
      | none => "bad-op"
    | none => "bad-op"
  | _ => "bad-op"

def handlePe (toks : List String) : String :=
  match parseGraph toks with
  | some (n, es, []) =>
    match pruferEncode (mkGI n es) with
    | .ok code => "code=" ++ showNats code ++ " tree=" ++ showOutcome showDense (pruferDecode code)
    | .panic => "panic"
    | .outOfFuel => "outoffuel"
  | _ => "bad-op"

def handlePd (toks : List String) : String :=
  match toks with
  | k :: rest =>
    match nat? k, nats? rest with
    | some k, some code =>
      if code.length ≠ k then "bad-op" else
      match pruferDecode code with
      | .ok d => "tree=" ++ showDense d ++ " code=" ++ showOutcome showNats (pruferEncode (GI.ofDense d))
      | .panic => "panic"
      | .outOfFuel => "outoffuel"
    | _, _ => "bad-op"
  | _ => "bad-op"

/-- `fmt <graph>`: the Lean transcription of formats.txt, for comparison with the harness's own transcription:
the graph6 string the format prescribes, and what the format's sparse6 reader reads from the model's sparse6 string. -/
def handleFmt (toks : List String) : String :=
  match parseGraph toks with
  | some (n, es, []) =>
    let gi := mkGI n es
    let g6 := Formats.g6Spec gi.toG
    let ok := Formats.g6Valid g6
    let s6r := match s6Encode gi with
      | .ok s =>
        match Formats.s6DecodeSpec s.toList with
        | some (n', es') => "n=" ++ toString n' ++ " e=" ++ showPairs es'
        | none => "rejected"
      | _ => "panic"
    "g6=" ++ toHex g6.toArray ++ " valid=" ++ toString ok ++ " s6r=" ++ s6r
  | _ => "bad-op"

end Drv.C07
