import Mamba.Proto
import Mamba.Spec.Iso
import Mamba.Model.Search
import Mamba.Drv.C04
/-! Driver for the protocols of C03 (see `harness/c03.go`):
`c03chain <pred> <place> <m> <N> lv <level 0> … <level N>` → verdict of the verified checker `GSearch.checkLevels`;
`c03cls <n> <m> <pred> <place>` → the tabulated number of isomorphism classes (`count=-` when not tabulated);
`c03fnx <nv> <mask> tab <entry> …` → the verdict of the `Search` model's `isCanonical` and the masks its `addAugmentations`
pushes for one graph (function-level, state-level/strict correspondence, see `harness/c03fn.go`);
`c03fn <nv> <mask>` → `ok` (the line only carries a property-level oracle on the implementation side). -/
namespace Drv.C03
open GSearch Proto

/-- numbers of isomorphism classes of graphs on `n` vertices with the property (OEIS A000088, A006785, A005195,
A033995); specification constants the implementation's counts are compared with. -/
def knownClasses (pred : String) : Option (List Nat) :=
  if pred = "none" then some [1, 1, 2, 4, 11, 34, 156, 1044, 12346, 274668]
  else if pred = "tri" then some [1, 1, 2, 3, 7, 14, 38, 107, 410, 1897]
  else if pred = "forest" then some [1, 1, 2, 3, 6, 10, 20, 37, 76, 153]
  else if pred = "bip" then some [1, 1, 2, 3, 7, 13, 35, 88, 303, 1119]
  else none

def parseLevel (k : Nat) (tok : String) : Option (List GraphSpec.G) :=
  if tok = "-" then some []
  else (tok.splitOn ",").mapM fun t =>
    t.toNat?.map fun m =>
      -- a mask with bits beyond the k(k-1)/2 edge positions is not a graph on k vertices: hand the checker a
      -- graph of the wrong size so that it reports `illformed` at the right place
      if m < 2 ^ (k * (k - 1) / 2) then ofMask k m else ofMask (k + 1) 0

def parseLevels : Nat → List String → Option (List (List GraphSpec.G))
  | _, [] => some []
  | k, t :: ts =>
    match parseLevel k t, parseLevels (k + 1) ts with
    | some l, some ls => some (l :: ls)
    | _, _ => none

def handleChain : List String → String
  | pred :: _place :: _m :: n :: "lv" :: lv =>
    match predByName pred, n.toNat?, parseLevels 0 lv with
    | some P, some n, some levels =>
      if levels.length ≠ n + 1 then "bad-op" else (checkLevels P levels).show
    | _, _, _ => "bad-op"
  | _ => "bad-op"

def handleCls : List String → String
  | [n, _m, pred, _place] =>
    match n.toNat?, predByName pred with
    | some n, some _ =>
      match knownClasses pred with
      | some tab => match tab[n]? with
        | some c => "count=" ++ toString c
        | none => "count=-"
      | none => "count=-"
    | _, _ => "bad-op"
  | _ => "bad-op"

/-- number of multisets of total size `n` when there are `types k` kinds of parts of size `k`
(unbounded knapsack; `ways[j]` after the parts of size `≤ k` have been admitted) -/
def multisetCount (types : Nat → Nat) (n : Nat) : Nat :=
  let addPart (k : Nat) (ways : Array Nat) : Array Nat :=
    (List.range (n + 1)).foldl (fun w j => if k ≤ j ∧ 0 < k then w.setIfInBounds j (w.getD j 0 + w.getD (j - k) 0) else w) ways
  let ways := (List.range' 1 n).foldl (fun w k => (List.range (types k)).foldl (fun w _ => addPart k w) w)
    ((Array.replicate (n + 1) 0).setIfInBounds 0 1)
  ways.getD n 0

/-- numbers of trees on `k` vertices (OEIS A000055), specification constants -/
def treeNumbers : List Nat := [1, 1, 1, 1, 2, 3, 6, 11, 23, 47, 106, 235, 551, 1301, 3159, 7741, 19320, 48629, 123867]

/-- `c03big <pred> <n> <m> <place>`: the number of isomorphism classes of graphs on `n` vertices with maximum degree
≤ 2 (disjoint unions of paths `P_k`, `k ≥ 1`, and cycles `C_k`, `k ≥ 3`), resp. of forests (multisets of trees) -/
def handleBig : List String → String
  | [pred, n, _m, _place] =>
    match n.toNat? with
    | some n =>
      if pred = "deg2" then "count=" ++ toString (multisetCount (fun k => if k ≥ 3 then 2 else 1) n)
      else if pred = "forest" then
        if n < treeNumbers.length then "count=" ++ toString (multisetCount (fun k => treeNumbers.getD k 0) n)
        else "bad-op"
      else "bad-op"
    | none => "bad-op"
  | _ => "bad-op"

/-- `c03sub <graph6 of H> <m> <place>`: exactly one graph on `|H|` vertices is an induced subgraph of `H` -/
def handleSub : List String → String
  | [_h, _m, _place] => "top=1"
  | _ => "bad-op"

/-! ### `c03fn`: `isCanonical` / `addAugmentations` of the `Search` model on one graph -/

def commaNats (s : String) : Option (Array Nat) :=
  if s = "" then some #[] else ((s.splitOn ",").mapM (fun (t : String) => t.toNat?)).map (·.toArray)

/-- one table entry `<vb|->:<perm|x>:<orbits>:<gens>` (comma separated numbers, generators separated by `.`) -/
def fnEntry (nv mask : String) (t : Drv.C04.Table) (e : String) : Option Drv.C04.Table :=
  match e.splitOn ":" with
  | [vb, perm, orbits, gens] =>
    let key := nv ++ ":" ++ mask ++ ":" ++ vb
    if perm = "x" then some (t.insert key none)
    else
      match commaNats perm, (orbits.splitOn ",").mapM (fun t => t.toInt?),
          (if gens = "" then some [] else (gens.splitOn ".").mapM commaNats) with
      | some p, some os, some gs => some (t.insert key (some { perm := p, orbits := os.toArray, gens := gs }))
      | _, _, _ => none
  | _ => none

/-- the graph with edge mask `mask` built from the one-vertex graph by `AddVertex`, as `Next` builds it -/
def fnBuild (nv mask : Nat) : Outcome Search.DG :=
  (List.range' 1 (nv - 1)).foldlM (m := Outcome) (fun g v =>
    g.addVertex ((List.range v).filter fun u => mask.testBit (pairIndex u v))) Search.DG.empty.single

def fnMasks (num : Nat) (a : Array Nat) : String :=
  toString num ++ ":" ++ ",".intercalate (a.toList.map toString)

def fnShow {α : Type} (r : Outcome α) (f : α → String) : String :=
  match r with
  | .ok x => f x
  | .panic => "panic"
  | .outOfFuel => "oracle-miss"

def handleFn : List String → String
  | nvs :: masks :: "tab" :: entries =>
    match nvs.toNat?, masks.toNat?, entries.foldlM (fnEntry nvs masks) ({} : Drv.C04.Table) with
    | some nv, some mask, some t =>
      if nv < 2 then "bad-op" else
      let O := Drv.C04.tableOracle t
      match fnBuild nv mask with
      | .ok g =>
        let aug := (List.range (nv - 1)).filter fun u => mask.testBit (pairIndex u (nv - 1))
        let fresh := fnShow (Search.addAugmentations O (nv + 1) g #[] none) fun (ch, _, num) => fnMasks num ch
        match Search.isCanonical O (nv + 1) g aug none with
        | .ok (cache, canon) =>
          let after := if canon then fnShow (Search.addAugmentations O (nv + 1) g #[] cache) fun (ch, _, num) => fnMasks num ch
            else "-"
          "acc=" ++ (if canon then "1" else "0") ++ ";aug=" ++ after ++ ";fresh=" ++ fresh
        | .panic => "panic"
        | .outOfFuel => "oracle-miss"
      | _ => "bad-op"
    | _, _, _ => "bad-op"
  | _ => "bad-op"

/-- `c03fn <nv> <mask>`: judged on the implementation side only (rule-independent oracle); the model has nothing to add -/
def handleFnOk : List String → String
  | [nvs, masks] =>
    match nvs.toNat?, masks.toNat? with
    | some nv, some mask => if nv < 2 ∨ nv > 14 ∨ mask ≥ 2 ^ (nv * (nv - 1) / 2) then "bad-op" else "ok"
    | _, _ => "bad-op"
  | _ => "bad-op"

end Drv.C03
