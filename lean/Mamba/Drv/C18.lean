import Mamba.Proto
import Mamba.Model.Disjoint
/-! Driver for protocol `ds`:  `ds <mode> <n> (u x y | ub x y | f x | fb x)*`
reply: per `f`/`fb` op "r" is NOT printed (representatives are not observable by the property);
with mode `all` the SmallestRep array after every op, always the final SmallestRep, Sets, #Roots. -/
namespace Drv.C18
open Disjoint Proto

def showSets (s : List (List Nat)) : String := "[" ++ " ".intercalate (s.map showNats) ++ "]"

partial def go (all : Bool) (sf : Bool := false) (ds : DS) (acc : String) : List String → String
  | [] =>
    if sf then
      -- mode `sf`: Roots, then Sets, then SmallestRep (the views run on the un-flattened structure)
      let nroots := (roots ds).length
      match sets ds with
      | .ok (d1, ss) =>
        match smallestRep d1 with
        | .ok (_, sr) => acc ++ "sr=" ++ showNats sr.toList ++ " sets=" ++ showSets ss ++ " roots=" ++ toString nroots
        | .panic => "panic"
        | .outOfFuel => "outoffuel"
      | .panic => "panic"
      | .outOfFuel => "outoffuel"
    else
    match smallestRep ds with
    | .ok (d1, sr) =>
      match sets d1 with
      | .ok (d2, ss) => acc ++ "sr=" ++ showNats sr.toList ++ " sets=" ++ showSets ss ++ " roots=" ++ toString (roots d2).length
      | .panic => "panic"
      | .outOfFuel => "outoffuel"
    | .panic => "panic"
    | .outOfFuel => "outoffuel"
  | toks =>
    let (op, rest) : Option Op × List String := match toks with
      | "u" :: x :: y :: r => ((do pure (Op.union (← nat? x) (← nat? y))), r)
      | "ub" :: x :: y :: r => ((do pure (Op.union (← nat? x) (← nat? y))), r)
      | "f" :: x :: r => ((do pure (Op.find (← nat? x))), r)
      | "fb" :: x :: r => ((do pure (Op.find (← nat? x))), r)
      | _ => (none, [])
    match op with
    | none => "bad-op"
    | some o =>
      match step ds o with
      | .ok d =>
        if all then
          match smallestRep d with
          | .ok (d', sr) => go all sf d' (acc ++ showNats sr.toList ++ ";") rest
          | .panic => "panic"
          | .outOfFuel => "outoffuel"
        else go all sf d acc rest
      | .panic => "panic"
      | .outOfFuel => "outoffuel"

def handle : List String → String
  | mode :: n :: ops =>
    match nat? n with
    | some n => go (mode == "all") (mode == "sf") (new n) "" ops
    | none => "bad-op"
  | _ => "bad-op"

end Drv.C18
