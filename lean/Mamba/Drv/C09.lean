import Mamba.Proto
import Mamba.Spec.CliqueColour
/-!
Drivers for C09.

`c09 <flags> <n m u v ...> [order ...] [| colouring ...]*`
  prints the *specification* values (sections selected by the letters of `flags`):
    q  w=<clique number> a=<independence number> mc=<all maximal cliques, sorted lists, lexicographic>
    c  chi=<chromatic number> kcol=<one 0/1 digit for k = 0..n+1>
    e  ci=<chromatic index>
    d  deg=<degeneracy>
    n  cc=<number of proper k-colourings for k = 0..n+1>               (specification, by enumeration)
    p  poly=<coefficients>                                              (faithful model of ChromaticPolynomial)
    g  greedy=<maxColour>:<colouring>   for the vertex order given after the graph   (faithful model of GreedyColor)
    i  ipc=<one 0/1 digit per colouring group>                          (faithful model of IsProperColouring)

`c09w <n m u v ...> (| section ...)*`   — the request carries witnesses produced by the Go library; the verified
  checkers reply ok/bad per section:
    col <chi> <c_0 .. c_{n-1}>        proper, uses exactly the colours 0..chi-1
    kcol <k> <0|1> [c_0 ..]           when 1: proper with colours < k
    ecol <ci> <b_0 ..>                Go's edge-array format; proper, uses exactly 1..ci
    deg <d> <order ..>                degeneracy certificate
    clq <w> <v ..>                    a clique with w vertices
    mc <count> <v .. ; v .. ; ...>    at least one set; every listed set is a maximal clique and no set is listed twice
-/
namespace Drv.C09
open CliqueColour GraphSpec Proto

def showNatss (s : List (List Nat)) : String := "[" ++ " ".intercalate (s.map showNats) ++ "]"

def bits (l : List Bool) : String := String.join (l.map fun b => if b then "1" else "0")

def sectionOf (g : G) (order : List String) (cols : List (List String)) : Char → String
  | 'q' => "w=" ++ toString (cliqueNumberSpec g) ++ " a=" ++ toString (independenceNumberSpec g) ++
           " mc=" ++ showNatss (allMaximalCliquesSpec g)
  | 'c' => "chi=" ++ toString (chromaticNumberSpec g) ++ " kcol=" ++
           bits ((List.range (g.n + 2)).map (colourableB g))
  | 'e' => "ci=" ++ toString (chromaticIndexSpec g)
  | 'd' => "deg=" ++ toString (degeneracySpec g)
  | 'n' => "cc=" ++ showNats ((List.range (g.n + 2)).map (countColourings g))
  | 'p' => "poly=" ++ showOutcome showInts (chromaticPolynomial g)
  | 'g' =>
    match nats? order with
    | some o => "greedy=" ++ showOutcome (fun (r : Int × List Int) => toString r.1 ++ ":" ++ showInts r.2) (greedyColor g o)
    | none => "greedy=bad-op"
  | 'i' => "ipc=" ++ bits (cols.map fun c =>
      if c == ["nil"] then isProperColouringGo g none
      else match ints? c with
        | some l => isProperColouringGo g (some l)
        | none => false)
  | _ => "?"

def handle (args : List String) : String :=
  match args with
  | flags :: rest =>
    match parse rest with
    | some (g0, tail) =>
      let g := tabulate g0
      match splitAt "|" tail with
      | order :: cols => " ".intercalate (flags.toList.map (sectionOf g order cols))
      | [] => "bad-op"
    | none => "bad-op"
  | [] => "bad-op"

/-- colours as naturals; a negative entry makes the witness invalid -/
def natsOfInts? (l : List String) : Option (List Nat) :=
  match ints? l with
  | some is => if is.all (· ≥ 0) then some (is.map Int.toNat) else none
  | none => none

def verdict (b : Bool) : String := if b then "ok" else "bad"

def checkSection (g : G) : List String → String
  | "col" :: chi :: c =>
    "col=" ++ verdict (match nat? chi, natsOfInts? c with
      | some chi, some c => isProperColouring g c && usesExactly c chi
      | _, _ => false)
  | "kcol" :: k :: ok :: c =>
    "kcol=" ++ verdict (match nat? k, natsOfInts? c with
      | some k, some c => if ok == "1" then isProperColouring g c && c.all (· < k) else c.isEmpty
      | _, _ => false)
  | "ecol" :: ci :: b =>
    "ecol=" ++ verdict (match nat? ci, natsOfInts? b with
      | some ci, some b => isProperEdgeColouring g b ci && usesExactly1 b ci
      | _, _ => false)
  | "deg" :: d :: o =>
    "deg=" ++ verdict (match nat? d, natsOfInts? o with
      | some d, some o => degeneracyCert g d o
      | _, _ => false)
  | "clq" :: w :: s =>
    "clq=" ++ verdict (match nat? w, natsOfInts? s with
      | some w, some s => isClique g s && s.length == w
      | _, _ => false)
  | "mc" :: cnt :: toks =>
    "mc=" ++ verdict (match (if cnt == "0" then some [] else (splitAt ";" toks).mapM natsOfInts?) with
      | some cs =>
        !cs.isEmpty && toString cs.length == cnt && cs.all (isMaximalClique g) &&
        (List.range cs.length).all fun i => (List.range i).all fun j =>
          !((cs.getD i []).all fun v => (cs.getD j []).contains v)
      | none => false)
  | _ => "bad-op"

def handleW (args : List String) : String :=
  match parse args with
  | some (g0, tail) =>
    let g := tabulate g0
    match splitAt "|" tail with
    | _ :: secs => " ".intercalate (secs.map (checkSection g))
    | [] => "bad-op"
  | none => "bad-op"

end Drv.C09
