import Mamba.Proto
import Mamba.Model.Tsp
/-! Driver for the C20 protocols (see `harness/c20.go` for the request/reply formats).

* `tsp  n w(1,0) w(2,0) w(2,1) …`                 reply `err=E wd=<distinct weight pairs called> out=<bytes>`
* `tspc n w…`                                      reply `c=[len …]` lengths of the `Write` calls after the header
* `tspf n w… ; b z kind perm`                      reply `err=E wd=… [d=<bytes delivered>]`

In `out=`/`d=` a space is printed as `_` and a newline as `|`.

`tspf` describes the writer *by bytes*, independent of how the output is cut into `Write` calls: the writer accepts
exactly `b` bytes; the `Write` call that would exceed that accepts the part that fits and fails (kind `e`: with an
error; kind `s`: short count, `nil` error); with `z = 1` an empty `Write` arriving when exactly `b` bytes have been
accepted fails as well.  `perm = p`: every later call fails with `(0, err)`; `t`: later calls succeed.  The driver
translates this into the model's fault function over call indices using the model's own call sequence
(`Tsp.libChunks`). -/
namespace Drv.C20
open Tsp Proto

def esc (l : List Char) : String :=
  String.ofList (l.map fun c => if c = ' ' then '_' else if c = '\n' then '|' else c)

def sentinel : Int := 777

def tableWeights (tab : Array Int) (i j : Nat) : Int :=
  if j < i then tab.getD (i * (i - 1) / 2 + j) sentinel else sentinel

def parseCase (args : List String) : Option (Nat × (Nat → Nat → Int)) :=
  match args with
  | n :: ws =>
    match nat? n, ints? ws with
    | some n, some ws => if ws.length = n * (n - 1) / 2 then some (n, tableWeights ws.toArray) else none
    | _, _ => none
  | [] => none

def distinctPairs (l : List (Nat × Nat)) : Nat := l.eraseDups.length

def hdrLen (n : Nat) : Nat := hdr1.length + (hdr2 n).length + hdr3.length

/-- index and start offset of the first chunk that triggers the byte-addressed fault -/
def findTrigger (b : Nat) (z : Bool) : List (List Char) → Nat → Nat → Option (Nat × Nat)
  | [], _, _ => none
  | c :: cs, k, start =>
    if start + c.length > b || (z && c.length == 0 && start == b) then some (k, start)
    else findTrigger b z cs (k + 1) (start + c.length)

def faultsOf (chunks : List (List Char)) (b : Nat) (z : Bool) (kind : String) (perm : Bool) : Nat → WriteResult :=
  match findTrigger b z chunks 0 0 with
  | none => noFaults
  | some (k, start) => fun j =>
    if j < k then .ok
    else if j = k then (if kind == "e" then .err (b - start) else .shortNil (b - start))
    else if perm then (if kind == "e" then .err 0 else .shortNil 0)
    else .ok

def handleExact (args : List String) : String :=
  match parseCase args with
  | none => "bad-op"
  | some (n, w) =>
    let r := lib n w noFaults
    s!"err={if r.err.isSome then 1 else 0} wd={distinctPairs r.wcalls} out={esc r.out}"

def handleCalls (args : List String) : String :=
  match parseCase args with
  | none => "bad-op"
  | some (n, w) =>
    let cs := (libChunks n w).drop 3
    "c=" ++ showNats (cs.map List.length)

def handleFault (args : List String) : String :=
  match splitAt ";" args with
  | [c, [b, z, kind, perm]] =>
    match parseCase c, nat? b with
    | some (n, w), some b =>
      if (kind == "e" || kind == "s") && (perm == "p" || perm == "t") && (z == "0" || z == "1") then
        let f := faultsOf (libChunks n w) b (z == "1") kind (perm == "p")
        let r := lib n w f
        let base := s!"err={if r.err.isSome then 1 else 0} wd={distinctPairs r.wcalls}"
        if kind == "e" || b ≥ hdrLen n then base ++ " d=" ++ esc r.out else base
      else "bad-op"
    | _, _ => "bad-op"
  | _ => "bad-op"

end Drv.C20
