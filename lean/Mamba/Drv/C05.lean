import Mamba.Proto
import Mamba.Model.GraphRep
/-! Driver for protocol `c05`:  `c05 <n> <m> u1 v1 ... um vm <op>*`
ops: `av k v1..vk` | `rv v` | `ae i j` | `re i j` | `cp` | `is k v1..vk`.
Both representations are run in lock step. Reply: the observable state after the start graph and after every op,
separated by `;`. One state is `<dense>|<sparse>` with `=` for the sparse part when it is identical to the dense
part; a part is `N M [Degrees] [Neighbours(0)]...[Neighbours(N-1)] <IsEdge bits in the order 01 02 12 03 ...>`. -/
namespace Drv.C05
open GraphRep Proto

def obsM {α : Type} : List (Outcome α) → Outcome (List α)
  | [] => .ok []
  | x :: xs =>
    match x, obsM xs with
    | .ok a, .ok as => .ok (a :: as)
    | _, _ => .panic

def pairsOf (n : Nat) : List (Nat × Nat) :=
  (List.range n).flatMap fun v => (List.range v).map fun u => (u, v)

def showBits (bs : List Bool) : String := String.ofList (bs.map fun b => if b then '1' else '0')

def showDense (g : Dense) : String :=
  match obsM ((List.range g.N).map g.neighbours), obsM ((pairsOf g.N).map fun p => g.isEdge p.1 p.2) with
  | .ok nb, .ok bits =>
    toString g.N ++ " " ++ toString g.M ++ " " ++ showInts g.degrees ++ " " ++
      String.join (nb.map showNats) ++ " " ++ showBits bits
  | _, _ => "panic"

def showSparse (g : Sparse) : String :=
  match obsM ((List.range g.N).map g.neighbours), obsM ((pairsOf g.N).map fun p => g.isEdge p.1 p.2) with
  | .ok nb, .ok bits =>
    toString g.N ++ " " ++ toString g.M ++ " " ++ showInts g.degrees ++ " " ++
      String.join (nb.map showInts) ++ " " ++ showBits bits
  | _, _ => "panic"

def showBoth (d : Dense) (s : Sparse) : String :=
  let a := showDense d
  let b := showSparse s
  a ++ "|" ++ (if a == b then "=" else b)

def parseOp : List String → Option (Op × List String)
  | "av" :: k :: r =>
    match nat? k with
    | some k => if r.length < k then none else (nats? (r.take k)).map fun S => (Op.av S, r.drop k)
    | none => none
  | "is" :: k :: r =>
    match nat? k with
    | some k => if r.length < k then none else (nats? (r.take k)).map fun S => (Op.is S, r.drop k)
    | none => none
  | "rv" :: v :: r => (nat? v).map fun v => (Op.rv v, r)
  | "ae" :: i :: j :: r => do pure (Op.ae (← nat? i) (← nat? j), r)
  | "re" :: i :: j :: r => do pure (Op.re (← nat? i) (← nat? j), r)
  | "cp" :: r => some (Op.cp, r)
  | _ => none

partial def go (d : Dense) (s : Sparse) (acc : String) : List String → String
  | [] => acc
  | toks =>
    match parseOp toks with
    | none => "bad-op"
    | some (op, rest) =>
      match d.step op, s.step op with
      | .ok d', .ok s' => go d' s' (acc ++ ";" ++ showBoth d' s') rest
      | _, _ => acc ++ ";panic"

def handle (toks : List String) : String :=
  match GraphSpec.parse toks with
  | none => "bad-op"
  | some (g0, ops) =>
    let es := g0.edges
    match runM Dense.step (es.map fun e => Op.ae e.1 e.2) (Dense.new g0.n),
          runM Sparse.step (es.map fun e => Op.ae e.1 e.2) (Sparse.new g0.n) with
    | .ok d, .ok s => go d s (showBoth d s) ops
    | _, _ => "panic"

end Drv.C05
