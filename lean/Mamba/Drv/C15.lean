import Mamba.Proto
import Mamba.Model.IterComb
import Mamba.Model.IterPerm
import Mamba.Model.IterPart
import Mamba.Model.IterProd
/-! Driver for protocol `it`:  `it <iterator> <parameters>` (see `harness/c15.go` for the grammar).
Reply: the values yielded until the first `Next() == false` separated by `;` (sorted as strings for the
iterators without a documented order), then `|`, then the results of three further `Next()` calls
(`F`, or `T<value>`), or `cap` when 20000 values were reached, or `panic`. -/
namespace Drv.C15
open Iter Proto

def cap : Nat := 20000

def showPair (p : Sl × Sl) : String := showInts p.1 ++ "/" ++ showInts p.2
def showBlocks (p : List (List Int)) : String := "[" ++ " ".intercalate (p.map showInts) ++ "]"

def drive {σ α : Type} (it : It σ α) (shw : α → String) (sorted : Bool) (s0 : Outcome σ) : String :=
  match s0 with
  | .panic => "|panic"
  | .outOfFuel => "|outoffuel"
  | .ok s =>
    let (vals, s1, stop) := outputs it cap s
    let tail := match stop with
      | .cap => "cap"
      | .panic => "panic"
      | .outOfFuel => "outoffuel"
      | .exhausted =>
        match extras it 3 s1 with
        | .ok r => " ".intercalate (r.map (fun o => match o with | none => "F" | some v => "T" ++ shw v))
        | .panic => "panic"
        | .outOfFuel => "outoffuel"
    let vals := vals.map shw
    let vals := if sorted then vals.mergeSort (fun a b => decide (a ≤ b)) else vals
    ";".intercalate vals ++ "|" ++ tail

def digits? (s : String) : Option (List Int) :=
  s.toList.mapM (fun c => if c.isDigit then some ((c.toNat - '0'.toNat : Nat) : Int) else none)

def pred? (s : String) : Option Pred :=
  match s.toList with
  | ['A'] => some .always
  | ['N'] => some .never
  | ['P', '0'] => some (.parity 0)
  | ['P', '1'] => some (.parity 1)
  | ['Q'] => some .position
  | 'S' :: r => (String.ofList r).toInt?.map .sumLe
  | 'H' :: r =>
    match ((String.ofList r).splitOn ".").mapM String.toNat? with
    | some [a, b, c] => if b == 0 then none else some (.hash a b c)
    | _ => none
  | 'X' :: r =>
    if r.isEmpty then some (.table [])
    else (((String.ofList r).splitOn ".").mapM digits?).map .table
  | _ => none

def pairs : List Int → List (Int × Int)
  | a :: b :: r => (a, b) :: pairs r
  | _ => []

def handle : List String → String
  | ["comb", n, k] =>
    match int? n, int? k with
    | some n, some k => drive Comb.it showInts false (Comb.init n k)
    | _, _ => "bad-op"
  | ["colex", n, k] =>
    match int? n, int? k with
    | some n, some k => drive Colex.it showInts false (Colex.init n k)
    | _, _ => "bad-op"
  | "mscomb" :: k :: m =>
    match int? k, ints? m with
    | some k, some m => drive MSComb.it showPair true (.ok (MSComb.init m k))
    | _, _ => "bad-op"
  | ["heap", n] =>
    match int? n with
    | some n => drive Heap.it showInts true (Heap.init n)
    | _ => "bad-op"
  | ["lexperm", n] =>
    match int? n with
    | some n => drive Lex.it showInts false (Lex.init n)
    | _ => "bad-op"
  | "msperm" :: f =>
    match ints? f with
    | some f => drive Lex.it showInts false (Lex.initMulti f)
    | _ => "bad-op"
  | "topo" :: n :: ps =>
    match int? n, ints? ps with
    | some n, some ps =>
      let pl := pairs ps
      drive (Topo.it (fun i j => pl.contains (i, j))) showPair true (Topo.init n)
    | _, _ => "bad-op"
  | ["rpperm", n, p] =>
    match int? n, pred? p with
    | some n, some p => drive (RPP.it p.eval) showInts false (RPP.init n)
    | _, _ => "bad-op"
  | ["pattern", n, p] =>
    match int? n, pred? p with
    | some n, some p => drive (Pat.it p.eval) showInts true (.ok (Pat.init n))
    | _, _ => "bad-op"
  | ["parts", n] =>
    match int? n with
    | some n => drive Parts.it showBlocks false (Parts.init n)
    | _ => "bad-op"
  | ["intparts", n] =>
    match int? n with
    | some n => drive IntParts.it showInts false (IntParts.init n)
    | _ => "bad-op"
  | "prod" :: dims =>
    match ints? dims with
    | some dims => drive Prod.it showInts false (Prod.init dims)
    | _ => "bad-op"
  | "rpprod" :: p :: dims =>
    match pred? p, ints? dims with
    | some p, some dims => drive (RPProd.it p.eval) showInts false (.ok (RPProd.init dims))
    | _, _ => "bad-op"
  | _ => "bad-op"

end Drv.C15
