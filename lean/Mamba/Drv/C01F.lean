import Mamba.Proto
import Mamba.Model.CanonF
/-! Driver for the pattern-F protocols of C01 / C02 (faithful model `Model/CanonF.lean` of `graph/canonical.go`).

* `canonf <graph> [; class]*` — `CanonicalIsomorphFull(g, classes)`: reply
  `perm=[…] orbits=[raw disjoint.Set] gens=[[…] […]]` — the exact returned permutation, the raw union–find array and the
  generators in the order they were recorded; `panic` if the call panics.
* `canonfv <bits> <graph>` — `CanonicalIsomorphAllocated` on fresh storage with `CheckViability = true, ViableBits = bits`:
  reply `nil` for the early `nil, nil, nil`, otherwise as `canonf`.
* `histf <N> <M> | <graph> [; class]* | …` — one `NewStorage(N, M)` / `NewOrderedPartition(N, M, nil)` pair; for every
  graph `op.Reset(n, m, classes)` and `CanonicalIsomorphAllocated(n, m, neighbours, op, storage, new(CanonicalOptions))`;
  reply: the `canonf` replies joined by ` | ` (a `panic` ends the history).
-/
namespace Drv.C01F
open Proto CanonF

def showRes (r : Res) : String :=
  match r.perm with
  | none => "nil"
  | some p =>
    "perm=" ++ showNats p ++ " orbits=" ++ showInts (r.orbits.getD []) ++
      " gens=[" ++ " ".intercalate ((r.gens.getD []).map showNats) ++ "]"

/-- classes after the graph: `none` when no class is listed (Go `nil`); `bad` unless the classes partition `0..n-1` -/
def parseCase (toks : List String) : Option (GraphSpec.G × Classes) :=
  match GraphSpec.parse toks with
  | some (g, r) =>
    let groups := (splitAt ";" r).filter (· ≠ [])
    match groups.mapM nats? with
    | some cls =>
      if cls.isEmpty then some (g, none)
      else
        let all := cls.flatten
        if all.length != g.n || !(List.range g.n).all (fun v => all.contains v) then none
        else some (g, some cls)
    | none => none
  | none => none

def edgeCount (nb : Nbrs) : Nat := (nb.toList.map List.length).sum / 2

def handleCanonF (toks : List String) : String :=
  match parseCase toks with
  | some (g, vc) => showOutcome showRes (canonicalIsomorphFull defaultFuel g vc)
  | none => "bad-op"

def handleCanonFV : List String → String
  | bits :: toks =>
    match nat? bits, parseCase toks with
    | some bits, some (g, none) =>
      let nb := nbrsOf g
      let m := edgeCount nb
      match newOrderedPartition g.n m none with
      | .ok op =>
        match canonicalIsomorphAllocated defaultFuel g.n m nb op (newStorage g.n m) { checkViability := true, viableBits := bits } with
        | .ok (r, _, _) => showRes r
        | .panic => "panic"
        | .outOfFuel => "outoffuel"
      | .panic => "panic"
      | .outOfFuel => "outoffuel"
    | _, _ => "bad-op"
  | _ => "bad-op"

def histGo (op : Option OP) (st : Storage) (acc : List String) : List (GraphSpec.G × Classes) → List String
  | [] => acc.reverse
  | (g, vc) :: rest =>
    let nb := nbrsOf g
    let m := edgeCount nb
    match op with
    | none => ("panic" :: acc).reverse            -- Reset on a nil partition
    | some op0 =>
      match reset op0 g.n m vc with
      | .ok op1 =>
        match canonicalIsomorphAllocated defaultFuel g.n m nb (some op1) st {} with
        | .ok (r, op2, st2) => histGo op2 st2 (showRes r :: acc) rest
        | .panic => ("panic" :: acc).reverse
        | .outOfFuel => ("outoffuel" :: acc).reverse
      | .panic => ("panic" :: acc).reverse
      | .outOfFuel => ("outoffuel" :: acc).reverse

def handleHistF : List String → String
  | N :: M :: "|" :: rest =>
    match nat? N, nat? M, (splitAt "|" rest).mapM parseCase with
    | some N, some M, some cs =>
      match newOrderedPartition N M none with
      | .ok op => " | ".intercalate (histGo op (newStorage N M) [] cs)
      | .panic => "panic"
      | .outOfFuel => "outoffuel"
    | _, _, _ => "bad-op"
  | _ => "bad-op"

end Drv.C01F
