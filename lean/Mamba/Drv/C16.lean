import Mamba.Proto
import Mamba.Model.Comb
/-! Driver for property C16 (package `comb`).

* `coeffu n k`   → `CoeffUint64(n,k)`: value or `panic`
* `coeff n k`    → `Coeff(n,k)`
* `coeffs n`     → `Coeffs(n)`: rows `[..]` joined by `;`
* `rank c0 c1 …` → `Rank(c)`
* `unrank r k`   → `Unrank(r,k)` (fuel `r+2`, see `unrank_terminates`)
* `colex n k`    → the `k`-subsets of `0..n-1` in the order of `CombinationsColex`; the model side prints
                   `Unrank(j,k)` for `j = 0 .. Coeff(n,k)-1`. -/
namespace Drv.C16
open Comb Proto

def showRows (rows : Array (Array Int)) : String :=
  ";".intercalate (rows.toList.map (fun r => showInts r.toList))

def unrankD (r k : Int) : Outcome (List Int) := unrank (r.toNat + 2) r k

def colexAll (k : Int) : Nat → Nat → List String → Outcome (List String)
  | 0, _, acc => .ok acc.reverse
  | s+1, j, acc =>
    match unrankD (j : Int) k with
    | .ok c => colexAll k s (j+1) (showInts c :: acc)
    | .panic => .panic
    | .outOfFuel => .outOfFuel

def handle : List String → String
  | ["coeffu", n, k] =>
    match nat? n, nat? k with
    | some n, some k => if n < W ∧ k < W then showOutcome toString (coeffU64 n k) else "bad-op"
    | _, _ => "bad-op"
  | ["coeff", n, k] =>
    match int? n, int? k with
    | some n, some k => showOutcome toString (coeff n k)
    | _, _ => "bad-op"
  | ["coeffs", n] =>
    match int? n with
    | some n => showOutcome showRows (coeffs n)
    | none => "bad-op"
  | "rank" :: c =>
    match ints? c with
    | some c => showOutcome toString (rank c)
    | none => "bad-op"
  | ["unrank", r, k] =>
    match int? r, int? k with
    | some r, some k => showOutcome showInts (unrankD r k)
    | _, _ => "bad-op"
  | ["colex", n, k] =>
    match int? n, int? k with
    | some n, some k =>
      if n < 0 ∨ k < 0 then "bad-op" else
      match coeff n k with
      | .ok cnt => showOutcome (fun l => ";".intercalate l) (colexAll k cnt.toNat 0 [])
      | .panic => "panic"
      | .outOfFuel => "outoffuel"
    | _, _ => "bad-op"
  | _ => "bad-op"

end Drv.C16
