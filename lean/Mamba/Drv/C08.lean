import Mamba.Drv.C07
/-! Driver for the C08 protocols (byte strings are hex, `-` = empty):

* `g6d <hex>` → `err` | `ok <graph> re=<hex of Graph6Encode(graph)> again=<Graph6Decode(re)>` (`again=same` when equal)
* `s6d <hex>` → the same for sparse6 -/
namespace Drv.C08
open Codec Proto Drv.C07

def handleG6d (toks : List String) : String :=
  match toks with
  | [h] =>
    match fromHex h with
    | some s =>
      match g6Decode s with
      | .ok (some d) =>
        let dec := showDense d
        match g6Encode (GI.ofDense d) with
        | .ok re => "ok " ++ dec ++ " re=" ++ toHex re ++ " again=" ++ withHdr dec (showOpt showDense (g6Decode re))
        | _ => "ok " ++ dec ++ " re=panic"
      | .ok none => "err"
      | .panic => "panic"
      | .outOfFuel => "outoffuel"
    | none => "bad-op"
  | _ => "bad-op"

def handleS6d (toks : List String) : String :=
  match toks with
  | [h] =>
    match fromHex h with
    | some s =>
      match s6Decode s with
      | .ok (some g) =>
        let dec := showSparse g
        match s6Encode (GI.ofSparse g) with
        | .ok re => "ok " ++ dec ++ " re=" ++ toHex re ++ " again=" ++ withHdr dec (showOpt showSparse (s6Decode re))
        | _ => "ok " ++ dec ++ " re=panic"
      | .ok none => "err"
      | .panic => "panic"
      | .outOfFuel => "outoffuel"
    | none => "bad-op"
  | _ => "bad-op"

end Drv.C08
