import Mamba.Proto
import Mamba.Model.Construct
/-! Driver for protocol `c06`:  `c06 <constructor> <parameters>`  (see `harness/c06.go` for the request grammar).
Reply: the observers of the constructed graph as seen through the `Graph` interface
`n=<N> m=<M> deg=[…] nb=[[…] …] e=u-v …`  (several dumps joined by ` ; ` for the live views), or `panic`. -/
namespace Drv.C06
open Construct Proto GraphSpec

def showObs (o : Obs) : String :=
  "n=" ++ toString o.n ++ " m=" ++ toString o.m ++ " deg=" ++ showInts o.deg ++
  " nb=[" ++ " ".intercalate (o.nb.map showNats) ++ "] e=" ++ showEdges o.e

def dump (g : Outcome GraphI) : String :=
  showOutcome showObs (g >>= observe)

def dumpD (d : Outcome Dense) : String := dump (d >>= fun d => pure d.toI)

/-- a constructor of one `int` parameter whose negative values die in `make` -/
def nat1 (f : Nat → Outcome Dense) (x : String) : String :=
  match int? x with
  | some v => if v < 0 then "panic" else dumpD (f v.toNat)
  | none => "bad-op"

/-- apply `a u v` / `r u v` edits to the underlying abstract graph, dumping the view after each -/
partial def edits (view : G → GraphI) (g : G) (acc : List String) : List String → String
  | [] => " ; ".intercalate acc.reverse
  | "a" :: u :: v :: rest =>
    match nat? u, nat? v with
    | some u, some v => let g := Families.addEdge g u v; edits view g (dump (pure (view g)) :: acc) rest
    | _, _ => "bad-op"
  | "r" :: u :: v :: rest =>
    match nat? u, nat? v with
    | some u, some v => let g := Families.removeEdge g u v; edits view g (dump (pure (view g)) :: acc) rest
    | _, _ => "bad-op"
  | _ => "bad-op"

/-- parse `(c i j | s i j)*` -/
def parseTOps : List String → Option (List TOp)
  | [] => some []
  | "c" :: i :: j :: rest => do
    let i ← nat? i
    let j ← nat? j
    let r ← parseTOps rest
    pure (TOp.c i j :: r)
  | "s" :: i :: j :: rest => do
    let i ← nat? i
    let j ← nat? j
    let r ← parseTOps rest
    pure (TOp.s i j :: r)
  | _ => none

def listFn {α : Type} (l : List α) (d : α) : Nat → α := fun k => l.getD k d

def handle : List String → String
  | ["complete", n] => nat1 completeGraph n
  | ["path", n] => nat1 path n
  | ["cycle", n] => match int? n with
    | some v => dumpD (cycle v.toNat)     -- every n < 3 (negative included) is the documented panic
    | none => "bad-op"
  | ["star", n] => nat1 star n
  | ["snark", n] => match int? n with
    | some v => if v < 0 then "panic" else dumpD (flowerSnark v.toNat)
    | none => "bad-op"
  | ["hypercube", d] => nat1 hypercubeGraph d
  | ["folded", d] => nat1 foldedHypercubeGraph d
  | ["friendship", n] => nat1 friendshipGraph n
  | "partite" :: nums => match nats? nums with
    | some l => dumpD (completePartiteGraph l)
    | none => "bad-op"
  | ["rook", n, m] => match nat? n, nat? m with
    | some n, some m => dumpD (rookGraph n m)
    | _, _ => "bad-op"
  | ["kneser", n, k] => match nat? n, int? k with
    | some n, some k => dumpD (kneserGraph n k)
    | _, _ => "bad-op"
  | ["bikneser", n, k] => match nat? n, int? k with
    | some n, some k => dumpD (bipartiteKneserGraph n k)
    | _, _ => "bad-op"
  | "circulant" :: n :: ds => match int? n, ints? ds with
    | some n, some ds => if n < 0 then "panic" else dumpD (circulantGraph n.toNat ds)
    | _, _ => "bad-op"
  | "circbip" :: n :: m :: ds => match nat? n, nat? m, ints? ds with
    | some n, some m, some ds => dumpD (circulantBipartiteGraph n m ds)
    | _, _, _ => "bad-op"
  | ["petersen", n, k] => match int? n, int? k with
    | some n, some k => dumpD (generalisedPetersenGraph n.toNat k)   -- n < 3 (negative included) is the documented panic
    | _, _ => "bad-op"
  | ["newdense", n, "nil"] => match nat? n with
    | some n => dumpD (newDense n none)
    | none => "bad-op"
  | "newdense" :: n :: bytes => match nat? n, nats? bytes with
    | some n, some b => dumpD (newDense n (some b.toArray))
    | _, _ => "bad-op"
  | ["newsparse", n, "nil"] => match nat? n with
    | some n => dump (newSparse n none >>= fun s => pure s.toI)
    | none => "bad-op"
  | "newsparse" :: n :: k :: rest => match nat? n, nat? k with
    | some n, some k =>
      let lists := if k == 0 then some [] else (splitAt ";" rest).mapM nats?
      match lists with
      | some ls => if ls.length ≠ k then "bad-op" else dump (newSparse n (some ls) >>= fun s => pure s.toI)
      | none => "bad-op"
    | _, _ => "bad-op"
  | "compdense" :: g => match parse g with
    | some (g, []) => dumpD (complementDense (ofSpec g))
    | _ => "bad-op"
  | "linegraph" :: g => match parse g with
    | some (g, []) => dumpD (lineGraphDense (ofSpec g))
    | _ => "bad-op"
  | "compview" :: g => match parse g with
    | some (g, ops) =>
      let view := fun g => complementView (ofSpec g)
      edits view g [dump (pure (view g))] ops
    | none => "bad-op"
  | "indview" :: g => match parse g with
    | some (g, k :: rest) => match nat? k with
      | some k => match nats? (rest.take k) with
        | some V =>
          let view := fun g => inducedView (ofSpec g) V
          edits view g [dump (pure (view g))] (rest.drop k)
        | none => "bad-op"
      | none => "bad-op"
    | _ => "bad-op"
  | "split" :: g => match parse g with
    | some (g, [i, j]) => match nat? i, nat? j with
      | some i, some j => dump (splitEdge g i j >>= fun h => pure (ofSpec h))
      | _, _ => "bad-op"
    | _ => "bad-op"
  | "contract" :: g => match parse g with
    | some (g, [i, j]) => match nat? i, nat? j with
      | some i, some j => dump (pure (ofSpec (contract g i j)))
      | _, _ => "bad-op"
    | _ => "bad-op"
  -- a sequence of Contract / SplitEdge applied in place: the presentation of the graph before and after every step
  | "tseq" :: g => match parse g with
    | some (g, ops) => match parseTOps ops with
      | some ops => match tseq tstepSpec g ops with
        | .ok gs => " ; ".intercalate ((g :: gs).map fun h => dump (pure (ofSpec h)))
        | _ => "panic"
      | none => "bad-op"
    | none => "bad-op"
  | "random" :: n :: _p :: _seed :: bits => match nat? n, nats? bits with
    | some n, some b => dumpD (randomGraph n (listFn (b.map (· != 0)) false))
    | _, _ => "bad-op"
  | "randtree" :: n :: _seed :: code => match int? n, nats? code with
    | some n, some c => if n < 0 then "panic" else dumpD (randomTree n.toNat (listFn c 0))
    | _, _ => "bad-op"
  | "prufer" :: code => match nats? code with
    | some c => dumpD (pruferDecode c)
    | none => "bad-op"
  | "multicode" :: bytes => match nats? bytes with
    | some b => dumpD (multicodeDecode b)
    | none => "bad-op"
  -- `graph6 <bytes> | G`, `sparse6 <bytes> | G`: the harness decodes the bytes with the library; the expected reply is
  -- the presentation of the encoded graph G through the interface (the decoders themselves are modelled in C07/C08)
  | "graph6" :: rest => match splitAt "|" rest with
    | [_, g] => match parse g with
      | some (g, []) => dump (pure (ofSpec g))
      | _ => "bad-op"
    | _ => "bad-op"
  | "sparse6" :: rest => match splitAt "|" rest with
    | [_, g] => match parse g with
      | some (g, []) => dump (pure (ofSpec g))
      | _ => "bad-op"
    | _ => "bad-op"
  | _ => "bad-op"

end Drv.C06
