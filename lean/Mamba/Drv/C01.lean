import Mamba.Proto
import Mamba.Model.IR
/-! Driver for the C01 protocols.

* `canon <n m u v ...> [; p0 p1 ... ]*`  — reply: the canonical graph of the model (decoded from the maximal leaf
  certificate of the unpruned tree). The relabellings after the graph are used by the Go oracle only
  (`canon_invariant` says the model's answer does not depend on them).
* `canonx ...` — same request, leaf budget too large for the unpruned tree: both sides reply `skip` (oracle only).
* `canon2 <graph> ; <graph>` — reply `same=<bool> a=<canonical graph> b=<canonical graph>`.
-/
namespace Drv.C01
open Proto

def parseG (toks : List String) : Option (IR.G × List String) :=
  match GraphSpec.parse toks with
  | some (g, r) => some (IR.ofSpec g, r)
  | none => none

def handleCanon (toks : List String) : String :=
  match parseG toks with
  | some (g, _) => (IR.canonGraph g).show
  | none => "bad-op"

def handleCanon2 (toks : List String) : String :=
  match parseG toks with
  | some (g, ";" :: r) =>
    match parseG r with
    | some (h, _) =>
      let cg := IR.canonCert g
      let ch := IR.canonCert h
      "same=" ++ toString (g.n == h.n && cg == ch) ++ " a=" ++ (IR.ofCodes g.n cg).show ++ " b=" ++ (IR.ofCodes h.n ch).show
    | none => "bad-op"
  | _ => "bad-op"

end Drv.C01
