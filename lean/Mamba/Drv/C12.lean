import Mamba.Proto
import Mamba.Model.Dawg
import Mamba.Model.DawgGob
/-! Drivers for the DAWG protocols (C12: `dawg`; C14: `gob`, `gobdec`, `varint`).

* `dawg  (a<hex> | n)* | (p<hex>)*` : adds (`n` = nil slice, `a` = empty non-nil slice) then probes.
  reply `adds=<o|e per add> nw=<NumberOfWords> nn=<numberOfNodes> tab=<node table> look=<rank or - per probe>`
* `gob   (a<hex> | n)* | (p<hex>)*` : build, GobEncode, GobDecode, table + lookups of the decoded automaton, re-encode.
  reply `enc=<hex> dec=ok nw=.. nn=.. tab=.. look=.. re=same|<hex>`
* `gobdec <hex> [r]` : GobDecode of raw bytes. reply `err` | `panic` | `ok tab=..` (with `r`: `re=<hex>` of GobEncode appended)
* `varint e <x>` -> hex ; `varint d <hex>` -> `<x> <width>` | `err`
-/
namespace Drv.C12
open Dawg

def dfsFuel : Nat := 400000000

def hexDigit? (c : Char) : Option Nat :=
  if '0' ≤ c ∧ c ≤ '9' then some (c.toNat - '0'.toNat)
  else if 'a' ≤ c ∧ c ≤ 'f' then some (c.toNat - 'a'.toNat + 10)
  else none

def unhex? : List Char → Option (List Nat)
  | [] => some []
  | a :: b :: rest => do
    let x ← hexDigit? a
    let y ← hexDigit? b
    let r ← unhex? rest
    pure ((x * 16 + y) :: r)
  | _ => none

def hexChar (n : Nat) : Char := if n < 10 then Char.ofNat (48 + n) else Char.ofNat (87 + n)

def hex (l : List Nat) : String :=
  String.ofList (l.foldr (fun b acc => hexChar (b / 16 % 16) :: hexChar (b % 16) :: acc) [])

/-- parse `a<hex>` / `n` / `p<hex>` -/
def word? (s : String) : Option (List Nat) :=
  match s.toList with
  | 'n' :: [] => some []
  | 'a' :: r => unhex? r
  | 'p' :: r => unhex? r
  | _ => none

def showRow (r : Row) : String :=
  toString r.id ++ ":" ++ (if r.final then "1" else "0") ++ ":" ++ toString r.numWords ++ ":" ++ hex r.labels ++ ":" ++
    ",".intercalate (r.targets.map toString)

def showTable (t : List Row) : String := ";".intercalate (t.map showRow)

def showLook (d : Dawg) (probes : List (List Nat)) : Option String := do
  let rs ← probes.mapM (fun p => match lookup d p with
    | .ok (i, true) => some (toString i)
    | .ok (_, false) => some "-"
    | _ => none)
  pure (",".intercalate rs)

/-- `nw=.. nn=.. tab=.. look=..` of an automaton; `none` when anything panics -/
def describe (d : Dawg) (probes : List (List Nat)) : Option String := do
  let nw ← match numberOfWords d with | .ok n => some n | _ => none
  let nn ← match numberOfNodes dfsFuel d with | .ok n => some n | _ => none
  let tab ← match nodeTable d with | .ok t => some t | _ => none
  let look ← showLook d probes
  pure ("nw=" ++ toString nw ++ " nn=" ++ toString nn ++ " tab=" ++ showTable tab ++ " look=" ++ look)

def parse (args : List String) : Option (List (List Nat) × List (List Nat)) :=
  match Proto.splitAt "|" args with
  | [adds, probes] => do
    let a ← adds.mapM word?
    let p ← probes.mapM word?
    pure (a, p)
  | _ => none

def showErrs (es : List Bool) : String := String.ofList (es.map (fun e => if e then 'e' else 'o'))

def handleDawg (args : List String) : String :=
  match parse args with
  | none => "bad-op"
  | some (adds, probes) =>
    match build adds with
    | .ok (some d, es) =>
      match describe d probes with
      | some s => "adds=" ++ showErrs es ++ " " ++ s
      | none => "panic"
    | .ok (none, _) => "finish-err"
    | .panic => "panic"
    | .outOfFuel => "outoffuel"

def handleGob (args : List String) : String :=
  match parse args with
  | none => "bad-op"
  | some (adds, probes) =>
    match build adds with
    | .ok (some d, _) =>
      match gobEncode dfsFuel d with
      | .ok bs =>
        match gobDecode bs with
        | .ok d2 =>
          match describe d2 probes, gobEncode dfsFuel d2 with
          | some s, .ok bs2 => "enc=" ++ hex bs ++ " dec=ok " ++ s ++ " re=" ++ (if bs2 = bs then "same" else hex bs2)
          | _, _ => "enc=" ++ hex bs ++ " dec=ok panic"
        | .err => "enc=" ++ hex bs ++ " dec=err"
        | .panic => "enc=" ++ hex bs ++ " dec=panic"
      | .panic => "panic"
      | .outOfFuel => "outoffuel"
    | .ok (none, _) => "finish-err"
    | .panic => "panic"
    | .outOfFuel => "outoffuel"

def handleGobDec (args : List String) : String :=
  match args with
  | h :: rest =>
    match (if h = "-" then some [] else unhex? h.toList) with
    | none => "bad-op"
    | some bs =>
      match gobDecode bs with
      | .ok d =>
        match nodeTable d with
        | .ok t =>
          let base := "ok tab=" ++ showTable t
          if rest = ["r"] then
            match gobEncode dfsFuel d with
            | .ok bs2 => base ++ " re=" ++ hex bs2
            | .panic => base ++ " re=panic"
            | .outOfFuel => base ++ " re=outoffuel"
          else base
        | _ => "panic"
      | .err => "err"
      | .panic => "panic"
  | _ => "bad-op"

def handleVarint (args : List String) : String :=
  match args with
  | ["e", x] =>
    match x.toNat? with
    | some n => hex (encodeUint64 n)
    | none => "bad-op"
  | ["d", h] =>
    match unhex? (if h = "-" then [] else h.toList) with
    | some bs =>
      match decodeUint64 bs with
      | .ok (x, rest) => toString x ++ " " ++ toString (bs.length - rest.length)
      | .err => "err"
      | .panic => "panic"
    | none => "bad-op"
  | _ => "bad-op"

end Drv.C12
