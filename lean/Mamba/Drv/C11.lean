import Mamba.Proto
import Mamba.Spec.Graph
import Mamba.Spec.Minor
/-! Driver for property C11.

* `planar <d|s> <seed> n m u1 v1 ...`        → `planar` / `nonplanar`, decided by the verified specification
  `Minor.planarExec` (small graphs only; `<d|s>` and `<seed>` only steer the Go side).
* `minorcert <K5|K33> <d|s> <seed> n m u1 v1 ... c0 ... c(n-1)` → `ok` / `bad`: verdict of the verified
  certificate checker `Minor.isMinorCert` on the branch sets `c`.
* `pknown <planar|nonplanar> <d|s> <seed> n m u1 v1 ...` → `n=<n> m=<m>` (the answer is known by construction;
  the Lean side only confirms that both sides read the same graph).
* `pemb <d|s> <seed> n m u1 v1 ... (deg_v nb_1 .. nb_deg)*n` → `ok` / `bad`: verdict of the rotation-system checker
  `Minor.isPlanarEmbeddingCert` (Euler's formula by face tracing; trusted, not verified against the minor definition).
-/
namespace Drv.C11
open Proto GraphSpec

/-- `n m u1 v1 ... um vm` → `(n, edges, rest)` -/
def parseEdges (toks : List String) : Option (Nat × List (Nat × Nat) × List String) :=
  match toks with
  | n :: m :: rest =>
    match n.toNat?, m.toNat? with
    | some n, some m =>
      let rec pairs : Nat → List String → List (Nat × Nat) → Option (List (Nat × Nat) × List String)
        | 0, r, acc => some (acc.reverse, r)
        | k+1, u :: v :: r, acc =>
          match u.toNat?, v.toNat? with
          | some u, some v => pairs k r ((u, v) :: acc)
          | _, _ => none
        | _, _, _ => none
      match pairs m rest [] with
      | some (es, r) => some (n, es, r)
      | none => none
    | _, _ => none
  | _ => none

def countEdges (g : G) : Nat :=
  (List.range g.n).foldl (fun acc v => acc + ((List.range v).filter fun u => g.adj u v).length) 0

def handlePlanar : List String → String
  | _form :: _seed :: toks =>
    match parseEdges toks with
    | some (n, es, []) => if Minor.planarExec (ofEdges n es) then "planar" else "nonplanar"
    | _ => "bad-op"
  | _ => "bad-op"

def handleCert : List String → String
  | k :: _form :: _seed :: toks =>
    let H? : Option G := if k == "K5" then some Minor.K5 else if k == "K33" then some Minor.K33 else none
    match H?, parseEdges toks with
    | some H, some (n, es, rest) =>
      match nats? rest with
      | some cert => if Minor.isMinorCert cert (Minor.fastG n es) H then "ok" else "bad"
      | none => "bad-op"
    | _, _ => "bad-op"
  | _ => "bad-op"

def handleKnown : List String → String
  | _expect :: _form :: _seed :: toks =>
    match parseEdges toks with
    | some (n, es, []) => "n=" ++ toString n ++ " m=" ++ toString (countEdges (Minor.fastG n es))
    | _ => "bad-op"
  | _ => "bad-op"

/-- `(deg nb_1 .. nb_deg)*` → rotation system -/
def parseRot : Nat → List Nat → Array (Array Nat) → Option (Array (Array Nat))
  | 0, [], acc => some acc
  | 0, _ :: _, _ => none
  | _ + 1, [], _ => none
  | k + 1, d :: rest, acc =>
    if rest.length < d then none else parseRot k (rest.drop d) (acc.push (rest.take d).toArray)

def handleEmb : List String → String
  | _form :: _seed :: toks =>
    match parseEdges toks with
    | some (n, es, rest) =>
      match nats? rest with
      | some ns =>
        match parseRot n ns #[] with
        | some rot => if Minor.isPlanarEmbeddingCert rot (Minor.fastG n es) then "ok" else "bad"
        | none => "bad"
      | none => "bad-op"
    | none => "bad-op"
  | _ => "bad-op"

end Drv.C11
